(* Shape half of the RankTree bijection, UNBOUNDED:
   for every n >= 1 and every shape rank r >= 0 accepted by shape_unrank, the tree that comes
   out has, at every node, a cached shape rank equal to what compute_shape_rank computes from
   its children (so Tree.unrank(n,(r,_)).rank().shape = r), it has n leaves, and r < num_shapes n.
   Level lemma: children_shape_ranks (mixed-radix decode over the leaf-count groups, each
   digit a with_replacement_unrank) is inverted by compute_shape_rank (encode). *)
From Coq Require Import List ZArith Bool Lia Arith.
From TskVerif Require Import Base.Common C15.Combination C15.Partitions C15.RankTree
  C15.CombProofs C15.CombRankProofs C15.WRProofs C15.RankTreeBounded C15.OorProofs
  C15.PartitionProofs C15.ChildOrderProofs C15.LabelOorProofs C15.RuleAscProofs C15.NumShapesTotal.
Import ListNotations.
Open Scope Z_scope.

(* ---- group_by commutes with a projection ---- *)
Lemma group_by_aux_map {A B} (f : A -> B) (eq : B -> B -> bool) : forall l G C,
  map (map f) (group_by_aux (fun a b => eq (f a) (f b)) l G C)
  = group_by_aux eq (map f l) (map (map f) G) (map f C).
Proof.
  induction l as [|x r IH]; intros G C; cbn [group_by_aux map].
  - destruct C; cbn [map]; [reflexivity|]. rewrite map_app. reflexivity.
  - destruct C as [|c0 cr]; cbn [map].
    + apply (IH G [x]).
    + destruct (eq (f x) (f c0)).
      * rewrite (IH G ((c0 :: cr) ++ [x])). cbn [map app]. rewrite map_app. reflexivity.
      * rewrite (IH (G ++ [c0 :: cr]) [x]). rewrite map_app. reflexivity.
Qed.

Lemma group_by_map {A B} (f : A -> B) (eq : B -> B -> bool) l :
  map (map f) (group_by l (fun a b => eq (f a) (f b))) = group_by (map f l) eq.
Proof. unfold group_by. apply (group_by_aux_map f eq l [] []). Qed.

(* ---- proper groupings of Z lists: maximal runs of equal elements ---- *)
Definition allk (k : Z) (g : list Z) : Prop := Forall (fun x => x = k) g.

Inductive proper : list (list Z) -> Prop :=
| proper_nil : proper []
| proper_one : forall k g, allk k g -> proper [k :: g]
| proper_cons : forall k g k' g' r, allk k g -> k <> k' -> proper ((k' :: g') :: r) ->
                                    proper ((k :: g) :: (k' :: g') :: r).

Lemma proper_tail g r : proper (g :: r) -> proper r.
Proof. intros H. inversion H; subst; [constructor | assumption]. Qed.

Lemma absorb : forall g k cur tail G, allk k g ->
  group_by_aux Z.eqb (g ++ tail) G (k :: cur) = group_by_aux Z.eqb tail G (k :: cur ++ g).
Proof.
  induction g as [|x g IH]; intros k cur tail G H.
  - rewrite app_nil_r. reflexivity.
  - inversion H; subst. cbn [app group_by_aux]. rewrite Z.eqb_refl.
    change ((k :: cur) ++ [k]) with (k :: (cur ++ [k])).
    rewrite IH by assumption. rewrite <- app_assoc. reflexivity.
Qed.

Lemma regroup : forall gs, proper gs -> forall G,
  group_by_aux Z.eqb (concat gs) G [] = G ++ gs.
Proof.
  induction 1 as [|k g Hk|k g k' g' r Hk Hne Hp IH]; intros G.
  - simpl. rewrite app_nil_r. reflexivity.
  - cbn [concat]. rewrite app_nil_r. cbn [group_by_aux].
    rewrite <- (app_nil_r g) at 1. rewrite (absorb g k [] [] G Hk). reflexivity.
  - cbn [concat] in *. cbn [app group_by_aux].
    rewrite (absorb g k [] _ G Hk). cbn [app group_by_aux].
    replace (k' =? k) with false by (symmetry; apply Z.eqb_neq; congruence).
    specialize (IH (G ++ [k :: g])). cbn [app group_by_aux] in IH.
    rewrite IH. rewrite <- app_assoc. reflexivity.
Qed.

Fixpoint chunks (l : list Z) : list (list Z) :=
  match l with
  | [] => []
  | x :: r => match chunks r with
              | (y :: g) :: gs => if x =? y then (x :: y :: g) :: gs else [x] :: (y :: g) :: gs
              | _ => [[x]]
              end
  end.

Lemma chunks_proper l : proper (chunks l).
Proof.
  induction l as [|x r IH]; [constructor|]. cbn [chunks].
  destruct (chunks r) as [|[|y g] gs] eqn:E.
  - constructor. constructor.
  - inversion IH.
  - destruct (Z.eqb_spec x y) as [->|Hne].
    + inversion IH; subst.
      * constructor. constructor; [reflexivity | assumption].
      * constructor; [constructor; [reflexivity | assumption] | assumption | assumption].
    + constructor; [constructor | exact Hne | exact IH].
Qed.

Lemma chunks_concat l : concat (chunks l) = l.
Proof.
  induction l as [|x r IH]; [reflexivity|]. cbn [chunks].
  pose proof (chunks_proper r) as P.
  destruct (chunks r) as [|[|y g] gs] eqn:E; simpl in *.
  - rewrite <- IH. reflexivity.
  - inversion P.
  - destruct (x =? y); simpl; rewrite <- IH; reflexivity.
Qed.

Lemma group_partition_chunks l : group_partition l = chunks l.
Proof.
  unfold group_partition, group_by. rewrite <- (chunks_concat l) at 1.
  apply (regroup (chunks l) (chunks_proper l) []).
Qed.

Lemma group_partition_proper l : proper (group_partition l).
Proof. rewrite group_partition_chunks. apply chunks_proper. Qed.

Lemma group_partition_regroup gs : proper gs -> group_partition (concat gs) = gs.
Proof. intros H. apply (regroup gs H []). Qed.

(* ---- positivity of the counts ---- *)
Lemma ntp_groups_pos ns : forall gs v, ntp_groups ns gs = Ok v -> 1 <= v.
Proof.
  induction gs as [|g r IH]; intros v H; cbn [ntp_groups] in H.
  - injection H as <-. lia.
  - destruct g as [|k g']; [discriminate|].
    apply bind_ok in H as [s [_ H]]. apply bind_ok in H as [t [Ht H]].
    specialize (IH t Ht). unfold comb_with_replacement in H.
    pose proof (comb_pos (s + zlength (k :: g') - 1) (zlength (k :: g'))) as P.
    set (C := comb (s + zlength (k :: g') - 1) (zlength (k :: g'))) in *.
    assert (v = C * t) by congruence. nia.
Qed.

Lemma sum_ntp_ge_len ns : forall ps v, sum_ntp ns ps = Ok v -> Z.of_nat (length ps) <= v.
Proof.
  induction ps as [|p r IH]; intros v H; cbn [sum_ntp] in H.
  - injection H as <-. simpl. lia.
  - apply bind_ok in H as [a [Ha H]]. apply bind_ok in H as [b [Hb H]].
    specialize (IH b Hb). apply ntp_groups_pos in Ha.
    assert (v = a + b) by congruence. cbn [length]. lia.
Qed.

Lemma partitions_nonempty n ps : 2 <= n -> partitions n = Ok ps -> ps <> [].
Proof.
  intros Hn H. rewrite partitions_complete in H by lia. injection H as <-.
  unfold asc_compositions. destruct (Z.to_nat n) as [|f] eqn:Ef; [lia|].
  rewrite asc_spec_S. replace (1 <=? n) with true by (symmetry; apply Z.leb_le; lia).
  rewrite removelast_last.
  assert (1 <= n / 2) by (apply Z.div_le_lower_bound; lia).
  destruct (Z.to_nat (n / 2 - 1 + 1)) as [|c] eqn:Ec; [lia|].
  rewrite blocks_S.
  destruct (claimA_all f (n - 1) 1 []) as [_ [_ N]]; [lia | lia | lia |].
  destruct (asc_spec f 1 (n - 1)); [congruence | discriminate].
Qed.

Lemma num_shapes_pos k v : 1 <= k -> num_shapes k = Ok v -> 1 <= v.
Proof.
  intros Hk H. destruct (Z.eq_dec k 1) as [->|Hne].
  - vm_compute in H. injection H as <-. lia.
  - destruct (num_shapes_unfold k v) as [m [t [ps [Ht [Hp Hs]]]]]; [lia | exact H |].
    pose proof (sum_ntp_ge_len _ _ _ Hs) as L.
    pose proof (partitions_nonempty k ps ltac:(lia) Hp) as N.
    destruct ps; [congruence | simpl in L; lia].
Qed.

(* ---- a digit: with_replacement_unrank / rank on an in-range value ---- *)
Lemma wr_in_range nsk x scr :
  1 <= nsk -> 0 <= scr < comb_with_replacement nsk (Z.of_nat x) ->
  exists c, with_replacement_unrank scr nsk x = Some c /\
            with_replacement_rank c nsk = Some scr /\
            Forall (fun e => 0 <= e < nsk) c /\ length c = x.
Proof.
  intros Hn [H0 H1].
  destruct (Z.to_nat nsk) as [|n'] eqn:En; [lia|].
  replace nsk with (Z.of_nat (S n')) in * by lia.
  rewrite cwr_mchoose in H1.
  destruct (wr_rank_unrank_bijection (S n') x) as [L B].
  destruct (nth_error (cwr_list x (zrange 0 (S n'))) (Z.to_nat scr)) as [c|] eqn:E.
  2:{ apply nth_error_None in E. rewrite L in E. lia. }
  destruct (B _ _ E) as [B1 B2]. rewrite Z2Nat.id in B1, B2 by lia.
  exists c. split; [exact B2|]. split; [exact B1|].
  destruct (cwr_list_members x (S n') 0 c (nth_error_In _ _ E)) as [Lc [Sc Uc]].
  split; [|exact Lc]. apply nondecr_all_ge in Sc.
  rewrite Forall_forall in *. intros e He. specialize (Sc e He). specialize (Uc e He).
  simpl in Uc. lia.
Qed.

(* ---- selecting the partition: csr_find against sum_until ---- *)
Lemma zlist_eqb_refl l : zlist_eqb l l = true.
Proof. apply zlist_eqb_eq. reflexivity. Qed.

Lemma csr_find_sum_until : forall ps r part r',
  NoDup ps -> 0 <= r ->
  csr_find ps r = Ok (Some part, r') ->
  exists base np, sum_until ps part = Ok base /\ r = base + r' /\ 0 <= r' /\
                  num_tree_pairings part = Ok np /\ r' < np /\ In part ps.
Proof.
  induction ps as [|p ps IH]; intros r part r' N Hr H; cbn [csr_find] in H; [discriminate|].
  apply bind_ok in H as [np [Hnp H]]. inversion N; subst.
  destruct (Z.ltb_spec r np) as [Hlt|Hge].
  - injection H as <- <-. exists 0, np. cbn [sum_until]. rewrite zlist_eqb_refl.
    repeat split; try assumption; try lia. left. reflexivity.
  - destruct (IH (r - np) part r' H3 ltac:(lia) H) as [base [np' [Hb [Hr' [H0 [Hn [Hl Hin]]]]]]].
    exists (np + base), np'. cbn [sum_until].
    destruct (zlist_eqb p part) eqn:E.
    + apply zlist_eqb_eq in E. subst p. contradiction.
    + rewrite Hnp, Hb. cbn [bind]. repeat split; try assumption; try lia. right. exact Hin.
Qed.

(* ---- the digits: csr_unrank_groups (decode) against csr_groups (encode) ---- *)
Lemma skipn_add {A} (a b : nat) : forall l : list A, skipn (a + b) l = skipn b (skipn a l).
Proof.
  induction a as [|a IH]; intros l; [reflexivity|].
  destruct l as [|x l]; [simpl; destruct b; reflexivity|]. simpl. apply IH.
Qed.

Lemma skipn_app_exact {A} (a b : list A) : skipn (length a) (a ++ b) = b.
Proof. induction a as [|x a IH]; [reflexivity | simpl; exact IH]. Qed.

Lemma app_inv_length {A} : forall (a c b d : list A),
  a ++ b = c ++ d -> length a = length c -> a = c /\ b = d.
Proof.
  induction a as [|x a IH]; intros [|y c] b d H L; simpl in *; try discriminate.
  - split; [reflexivity | exact H].
  - injection H as -> H. destruct (IH c b d H) as [-> ->]; [lia|]. split; reflexivity.
Qed.

Lemma ntp_concat_proper gs : proper gs ->
  num_tree_pairings (concat gs) = ntp_groups num_shapes gs.
Proof.
  intros P. unfold num_tree_pairings, ntp_with. rewrite group_partition_regroup by exact P. reflexivity.
Qed.

Lemma level_groups part : forall gcl next r' V,
  proper (map (map c_nl) gcl) ->
  Forall (Forall (fun c => 1 <= c_nl c)) gcl ->
  skipn next part = concat (map (map c_nl) gcl) ->
  csr_unrank_groups (map (map c_nl) gcl) next part r' = Ok (concat (map (map c_srk) gcl)) ->
  num_tree_pairings (skipn next part) = Ok V -> 0 <= r' < V ->
  csr_groups gcl next part = Ok r' /\
  Forall (Forall (fun c => exists v, num_shapes (c_nl c) = Ok v /\ 0 <= c_srk c < v)) gcl.
Proof.
  induction gcl as [|g rest IH]; intros next r' V P Pos Hskip Hdec HV Hr.
  - cbn [map concat] in *. rewrite Hskip in HV. vm_compute in HV. injection HV as <-.
    split; [|constructor]. cbn [csr_groups]. f_equal. lia.
  - cbn [map] in P, Hskip, Hdec.
    set (gnl := map c_nl g) in *. set (restnl := map (map c_nl) rest) in *.
    assert (Ptail: proper restnl) by (eapply proper_tail; exact P).
    destruct g as [|g0 g']; [inversion P|].
    inversion Pos as [|? ? Pg Prest]; subst. inversion Pg as [|? ? Hk0 _]; subst.
    cbn [map] in gnl. set (k := c_nl g0) in *.
    cbn [csr_unrank_groups] in Hdec. fold gnl in Hdec.
    change (c_nl g0 :: map c_nl g') with gnl in Hdec.
    apply bind_ok in Hdec as [rnp [Hrnp Hdec]]. apply bind_ok in Hdec as [scr [Hscr Hdec]].
    apply bind_ok in Hdec as [nsk [Hnsk Hdec]]. apply bind_ok in Hdec as [gsr [Hgsr Hdec]].
    apply bind_ok in Hdec as [r'' [Hr'' Hdec]]. apply bind_ok in Hdec as [restout [Hrest Hdec]].
    assert (Eout: gsr ++ restout = map c_srk (g0 :: g') ++ concat (map (map c_srk) rest))
      by (injection Hdec as Hd; exact Hd).
    clear Hdec.
    (* the suffix after this group *)
    assert (Hskip': skipn (next + length gnl) part = concat restnl).
    { rewrite skipn_add, Hskip. cbn [concat]. apply skipn_app_exact. }
    rewrite Hskip' in Hrnp.
    (* factorisation of the number of pairings *)
    rewrite Hskip in HV. change (gnl ++ concat restnl) with (concat (gnl :: restnl)) in HV.
    rewrite ntp_concat_proper in HV by exact P.
    rewrite ntp_concat_proper in Hrnp by exact Ptail.
    unfold gnl at 1 in HV. cbn [ntp_groups] in HV. fold k in HV. rewrite Hnsk, Hrnp in HV.
    cbn [bind] in HV.
    assert (EV: V = comb_with_replacement nsk (zlength gnl) * rnp) by (unfold gnl; congruence).
    clear HV.
    pose proof (ntp_groups_pos _ _ _ Hrnp) as Hrnp1.
    pose proof (num_shapes_pos k nsk Hk0 Hnsk) as Hnsk1.
    unfold zdiv in Hscr. replace (rnp =? 0) with false in Hscr by (symmetry; apply Z.eqb_neq; lia).
    injection Hscr as <-.
    unfold zmod in Hr''. replace (rnp =? 0) with false in Hr'' by (symmetry; apply Z.eqb_neq; lia).
    injection Hr'' as <-.
    assert (Hscr: 0 <= r' / rnp < comb_with_replacement nsk (Z.of_nat (length gnl))).
    { split; [apply Z.div_pos; lia|]. apply Z.div_lt_upper_bound; [lia|].
      unfold zlength in EV. rewrite EV in Hr. lia. }
    destruct (wr_in_range nsk (length gnl) (r' / rnp) Hnsk1 Hscr) as [c [Hc1 [Hc2 [Hc3 Hc4]]]].
    rewrite Hc1 in Hgsr. cbn [of_fuel] in Hgsr. injection Hgsr as <-.
    destruct (app_inv_length _ _ _ _ Eout) as [Ec Erest].
    { rewrite Hc4. unfold gnl. cbn [length]. rewrite !map_length. reflexivity. }
    subst restout.
    destruct (IH (next + length gnl)%nat (r' mod rnp) rnp Ptail Prest Hskip' Hrest) as [IH1 IH2].
    { rewrite Hskip'. rewrite ntp_concat_proper by exact Ptail. exact Hrnp. }
    { apply Z.mod_pos_bound. lia. }
    split.
    + cbn [csr_groups]. fold k. rewrite Hnsk. cbn [bind].
      rewrite <- Ec, Hc2. cbn [of_fuel bind].
      replace (length (g0 :: g')) with (length gnl) by (unfold gnl; cbn [length]; rewrite map_length; reflexivity).
      rewrite Hskip'. rewrite ntp_concat_proper by exact Ptail. rewrite Hrnp. cbn [bind].
      rewrite IH1. cbn [bind]. f_equal.
      pose proof (Z.div_mod r' rnp). lia.
    + constructor; [|exact IH2].
      rewrite Ec in Hc3. rewrite Forall_map in Hc3.
      (* every member of the group has k leaves *)
      assert (Hall: Forall (fun c => c_nl c = k) (g0 :: g')).
      { inversion P as [|? ? Hk|? ? ? ? ? Hk _ _]; subst;
          (constructor; [reflexivity|]; unfold allk in Hk; rewrite Forall_map in Hk; exact Hk). }
      rewrite Forall_forall in *. intros c0 Hc0. exists nsk.
      rewrite (Hall c0 Hc0). split; [exact Hnsk | apply Hc3, Hc0].
Qed.

(* ---- one level: children_shape_ranks is inverted by compute_shape_rank ---- *)
Lemma In_removelast {A} (l : list A) x : In x (removelast l) -> In x l.
Proof.
  induction l as [|a l IH]; intros H; [destruct H|].
  destruct l as [|b l']; [destruct H|]. destruct H as [->|H]; [left; reflexivity | right; apply IH, H].
Qed.

Lemma partitions_facts n ps : 2 <= n -> partitions n = Ok ps ->
  NoDup ps /\ forall p, In p ps -> zsum p = n /\ Forall (fun k => 1 <= k) p /\ (2 <= length p)%nat.
Proof.
  intros Hn H. pose proof (partitions_parts_range n ps ltac:(lia) H) as R.
  pose proof (partitions_len2 n ps H) as L2.
  rewrite partitions_complete in H by lia. injection H as <-.
  split.
  - pose proof (asc_compositions_NoDup n) as N. unfold asc_compositions in *.
    destruct (Z.to_nat n) as [|f] eqn:Ef; [lia|].
    rewrite asc_spec_S in *. replace (1 <=? n) with true in * by (symmetry; apply Z.leb_le; lia).
    rewrite removelast_last. eapply NoDup_app_remove_r. exact N.
  - intros p Hp. rewrite Forall_forall in R, L2. split; [|split].
    + apply In_removelast in Hp. apply asc_compositions_spec in Hp; [|lia].
      destruct Hp as [_ [S _]]. exact S.
    + eapply Forall_impl; [|apply R, Hp]. intros k Hk. simpl in Hk. lia.
    + apply L2, Hp.
Qed.

Lemma level_inverse n r part crs cl :
  2 <= n -> 0 <= r ->
  children_shape_ranks r n = Ok (part, crs) ->
  map c_nl cl = part -> map c_srk cl = crs ->
  compute_shape_rank cl = Ok r /\
  Forall (fun c => exists v, num_shapes (c_nl c) = Ok v /\ 0 <= c_srk c < v) cl /\
  zsum part = n /\ Forall (fun k => 1 <= k) part /\ (2 <= length part)%nat.
Proof.
  intros Hn Hr H Enl Esrk. unfold children_shape_ranks in H.
  apply bind_ok in H as [ps [Hps H]]. apply bind_ok in H as [[sel r'] [Hf H]].
  apply bind_ok in H as [part' [Hsel H]]. apply bind_ok in H as [crs' [Hdec H]].
  injection H as -> ->.
  destruct sel as [p|]; [injection Hsel as ->|
    replace (n =? 1) with false in Hsel by (symmetry; apply Z.eqb_neq; lia); discriminate].
  destruct (partitions_facts n ps Hn Hps) as [ND PF].
  destruct (csr_find_sum_until ps r part r' ND Hr Hf) as [base [np [Hb [Er [Hr0 [Hnp [Hlt Hin]]]]]]].
  destruct (PF part Hin) as [Hsum [Hpos Hlen]].
  set (gcl := group_by cl same_num_leaves).
  assert (Egnl: map (map c_nl) gcl = group_partition part).
  { unfold gcl, group_partition. rewrite <- Enl. apply (group_by_map c_nl Z.eqb cl). }
  assert (Hcl1: Forall (fun c => 1 <= c_nl c) cl).
  { rewrite <- Enl in Hpos. rewrite Forall_map in Hpos. exact Hpos. }
  destruct (level_groups part gcl 0 r' np) as [LG1 LG2].
  - rewrite Egnl. apply group_partition_proper.
  - apply Forall_concat_groups. unfold gcl. rewrite group_by_concat. exact Hcl1.
  - rewrite Egnl. unfold group_partition. rewrite group_by_concat. reflexivity.
  - rewrite Egnl. rewrite Hdec. f_equal. rewrite <- Esrk.
    rewrite <- concat_map. unfold gcl. rewrite group_by_concat. reflexivity.
  - exact Hnp.
  - lia.
  - assert (Hcl0: Forall (fun c => exists v, num_shapes (c_nl c) = Ok v /\ 0 <= c_srk c < v) cl).
    { rewrite <- (group_by_concat cl same_num_leaves). fold gcl.
      clear -LG2. induction LG2 as [|g r Hg _ IH]; [constructor|]. simpl. apply Forall_app. split; assumption. }
    split; [|split; [exact Hcl0 | split; [exact Hsum | split; [exact Hpos | exact Hlen]]]].
    unfold compute_shape_rank. rewrite Enl.
    assert (Enn: node_num_leaves cl = n).
    { unfold node_num_leaves. destruct cl as [|c0 cl']; [simpl in Enl; subst part; simpl in Hlen; lia|].
      rewrite Enl. exact Hsum. }
    rewrite Enn, Hps. cbn [bind]. rewrite Hb. cbn [bind]. fold gcl. rewrite LG1. cbn [bind].
    f_equal. lia.
Qed.

Lemma combine_fst {A B} : forall (a : list A) (b : list B),
  length a = length b -> map fst (combine a b) = a.
Proof. induction a as [|x a IH]; intros [|y b] L; simpl in *; try lia; [reflexivity|]. f_equal. apply IH. lia. Qed.

Lemma combine_snd {A B} : forall (a : list A) (b : list B),
  length a = length b -> map snd (combine a b) = b.
Proof. induction a as [|x a IH]; intros [|y b] L; simpl in *; try lia; [reflexivity|]. f_equal. apply IH. lia. Qed.

(* ---- the whole tree ---- *)
Inductive shape_consistent : shape -> Prop :=
| shape_consistent_intro : forall rk nl nlab ch,
    compute_shape_rank (map summary_s ch) = Ok rk ->
    Forall shape_consistent ch ->
    shape_consistent (Sh rk nl nlab ch).

Lemma Forall2_rmap_combine {B} (f : Z * Z -> res B) : forall part crs out,
  length part = length crs -> rmap f (combine part crs) = Ok out ->
  Forall2 (fun kr b => f kr = Ok b) (combine part crs) out.
Proof. intros part crs out _ H. apply rmap_Forall2. exact H. Qed.

Theorem shape_unrank_consistent : forall fuel n r sh,
  1 <= n -> 0 <= r -> shape_unrank fuel n r = Ok sh ->
  shape_consistent sh /\ sh_nl sh = n /\ sh_rk sh = r.
Proof.
  induction fuel as [|f IH]; intros n r sh Hn Hr H; [discriminate|].
  cbn [shape_unrank] in H. apply bind_ok in H as [[part crs] [Hc H]].
  apply bind_ok in H as [children [Hch H]].
  unfold mk_shape in H. apply bind_ok in H as [nlab [_ H]]. injection H as <-.
  cbn [sh_nl sh_rk].
  destruct (Z.eq_dec n 1) as [->|Hne].
  - (* one leaf: only rank 0 is accepted *)
    unfold children_shape_ranks in Hc. change (partitions 1) with (Ok (@nil (list Z))) in Hc.
    cbn [bind csr_find] in Hc. change (1 =? 1) with true in Hc.
    destruct (r =? 0) eqn:E; [|discriminate]. apply Z.eqb_eq in E. subst r.
    vm_compute in Hc. injection Hc as <- <-. cbn [combine rmap] in Hch. injection Hch as <-.
    split; [|split; reflexivity]. constructor; [vm_compute; reflexivity | constructor].
  - assert (Hn2: 2 <= n) by lia.
    destruct (children_shape_ranks_len n r part crs Hn2 Hc) as [L2 Leq].
    (* facts about part / crs through a witness list of summaries *)
    set (cl0 := map (fun kr => mkcs (fst kr) (snd kr) 0 0 []) (combine part crs)).
    assert (E0nl: map c_nl cl0 = part).
    { unfold cl0. rewrite map_map. cbn [c_nl]. apply combine_fst. lia. }
    assert (E0srk: map c_srk cl0 = crs).
    { unfold cl0. rewrite map_map. cbn [c_srk]. apply combine_snd. lia. }
    destruct (level_inverse n r part crs cl0 Hn2 Hr Hc E0nl E0srk) as [_ [Hcrs0 [Hsum [Hpos Hlen]]]].
    (* every child is consistent, with the requested size and rank *)
    pose proof (rmap_Forall2 _ _ _ Hch) as F2.
    assert (Hcrs: Forall (fun e => 0 <= e) crs).
    { rewrite <- E0srk. rewrite Forall_map. eapply Forall_impl; [|exact Hcrs0].
      intros a [v [_ Ha]]. lia. }
    assert (Hkr: Forall (fun kr => 1 <= fst kr /\ 0 <= snd kr) (combine part crs)).
    { apply Forall_forall. intros [k c] Hin. rewrite Forall_forall in Hpos, Hcrs.
      split; [apply Hpos; eapply in_combine_l; exact Hin | apply Hcrs; eapply in_combine_r; exact Hin]. }
    assert (Efst: map fst (combine part crs) = part) by (apply combine_fst; lia).
    assert (Esnd: map snd (combine part crs) = crs) by (apply combine_snd; lia).
    assert (Hkids: Forall shape_consistent children /\
                   map c_nl (map summary_s children) = map fst (combine part crs) /\
                   map c_srk (map summary_s children) = map snd (combine part crs)).
    { clear -F2 IH Hkr. induction F2 as [|kr child krs kids Hk _ IHF].
      - split; [constructor | split; reflexivity].
      - inversion Hkr as [|? ? [Hk1 Hk2] Hkr']; subst.
        destruct (IH (fst kr) (snd kr) child Hk1 Hk2 Hk) as [C1 [C2 C3]].
        destruct (IHF Hkr') as [K1 [K2 K3]].
        split; [constructor; assumption|]. cbn [map]. unfold summary_s at 1 3. cbn [c_nl c_srk].
        rewrite C2, C3, K2, K3. split; reflexivity. }
    rewrite Efst, Esnd in Hkids.
    destruct Hkids as [K1 [K2 K3]].
    destruct (level_inverse n r part crs (map summary_s children) Hn2 Hr Hc K2 K3) as [LC _].
    split; [constructor; assumption|]. split; [|reflexivity].
    unfold node_num_leaves. destruct (map summary_s children) as [|c0 cl'] eqn:Ecl.
    + rewrite <- K2 in L2. simpl in L2. lia.
    + rewrite K2. exact Hsum.
Qed.
