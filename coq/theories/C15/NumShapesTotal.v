(* num_shapes(n) is defined for every n (no OOB / fuel / error in the memoised recursion),
   hence "out-of-range shape ranks are rejected" holds unconditionally for every n >= 1. *)
From Coq Require Import List ZArith Bool Lia Arith.
From TskVerif Require Import Base.Common C15.Combination C15.Partitions C15.RankTree
  C15.CombProofs C15.CombRankProofs C15.WRProofs C15.RankTreeBounded C15.OorProofs
  C15.PartitionProofs C15.LabelOorProofs C15.RuleAscProofs.
Import ListNotations.
Open Scope Z_scope.

(* every part of every member of partitions(n) lies in [1, n-1] *)
Lemma partitions_parts_range n ps : 1 <= n -> partitions n = Ok ps ->
  Forall (Forall (fun k => 1 <= k <= n - 1)) ps.
Proof.
  intros Hn H. rewrite partitions_complete in H by exact Hn. injection H as <-.
  unfold asc_compositions. destruct (Z.to_nat n) as [|f] eqn:Ef; [lia|].
  rewrite asc_spec_S. replace (1 <=? n) with true by (symmetry; apply Z.leb_le; lia).
  rewrite removelast_last. apply Forall_forall. intros p Hp. unfold blocks in Hp.
  apply in_flat_map in Hp as [x [Hx Hp]]. apply In_zrange in Hx.
  apply in_map_iff in Hp as [c' [<- Hc']].
  destruct (asc_spec_sound f x (n - x) c') as [S1 [S2 S3]]; [lia | exact Hc' |].
  pose proof (nondecr_all_ge c' x S1) as G.
  assert (Gs: Forall (fun e => 1 <= e) c') by (eapply Forall_impl; [|exact G]; intros a Ha; simpl in Ha; lia).
  (* every element is <= the sum minus the other (positive) elements *)
  assert (B: forall l, Forall (fun e => 1 <= e) l -> Forall (fun e => e <= zsum' l) l).
  { induction l as [|e l IH]; intros F; [constructor|]. inversion F; subst.
    assert (0 <= zsum' l) by (clear -H2; induction H2; unfold zsum' in *; simpl; lia).
    constructor; [unfold zsum' in *; simpl; lia|].
    eapply Forall_impl; [|apply IH; assumption]. intros a Ha. unfold zsum' in *. simpl in *. lia. }
  assert (1 <= zsum' c').
  { destruct c' as [|e r]; [congruence|]. inversion Gs; subst.
    assert (0 <= zsum' r) by (clear -H2; induction H2; unfold zsum' in *; simpl; lia).
    unfold zsum' in *. simpl. lia. }
  constructor; [lia|].
  specialize (B c' Gs). rewrite Forall_forall in *. intros k Hk.
  specialize (B k Hk). specialize (Gs k Hk). simpl in *. lia.
Qed.

Lemma group_partition_groups part :
  Forall (fun g => exists k r, g = k :: r /\ In k part) (group_partition part).
Proof.
  unfold group_partition.
  pose proof (group_by_wf part Z.eqb) as W. pose proof (group_by_concat part Z.eqb) as C.
  rewrite Forall_forall in *. intros g Hg. destruct (W g Hg) as [g0 [r [E _]]].
  exists g0, r. split; [exact E|]. rewrite <- C. apply in_concat. exists g. split; [exact Hg|].
  rewrite E. left. reflexivity.
Qed.

Lemma ntp_with_table_ok t m part :
  length t = S m -> Forall (fun k => 1 <= k <= Z.of_nat m) part ->
  exists v, ntp_with (ns_lookup t) part = Ok v /\ 1 <= v.
Proof.
  intros Ht F. unfold ntp_with.
  pose proof (group_partition_groups part) as G.
  induction G as [|g gs [k [r [E Hk]]] _ IH].
  - exists 1. split; [reflexivity | lia].
  - destruct IH as [v' [Hv' Pv']]. subst g. cbn [ntp_groups].
    rewrite Forall_forall in F. specialize (F k Hk).
    assert (exists s, ns_lookup t k = Ok s) as [s Hs].
    { unfold ns_lookup. destruct (k <=? 1); [eauto|].
      apply get_ok_iff. unfold zlen. rewrite Ht. lia. }
    rewrite Hs, Hv'. cbn [bind]. eexists. split; [reflexivity|].
    pose proof (comb_pos (s + zlength (k :: r) - 1) (zlength (k :: r))).
    unfold comb_with_replacement. nia.
Qed.

Lemma sum_ntp_table_ok t m ps :
  length t = S m -> Forall (Forall (fun k => 1 <= k <= Z.of_nat m)) ps ->
  exists v, sum_ntp (ns_lookup t) ps = Ok v /\ 0 <= v.
Proof.
  intros Ht F. induction F as [|p ps Hp _ IH].
  - exists 0. split; [reflexivity | lia].
  - destruct IH as [b [Hb Pb]]. destruct (ntp_with_table_ok t m p Ht Hp) as [a [Ha Pa]].
    cbn [sum_ntp]. rewrite Ha, Hb. cbn [bind]. eexists. split; [reflexivity | lia].
Qed.

Lemma ns_table_total : forall m, exists t, ns_table m = Ok t.
Proof.
  induction m as [|m [t Ht]]; [eexists; reflexivity|].
  cbn [ns_table]. rewrite Ht. cbn [bind].
  unfold num_shapes_step. destruct (Z.of_nat (S m) <=? 1) eqn:E.
  - cbn [bind]. eexists; reflexivity.
  - apply Z.leb_gt in E.
    destruct (partitions (Z.of_nat (S m))) as [ps| | |] eqn:Ep;
      try (rewrite partitions_complete in Ep by lia; discriminate).
    cbn [bind].
    pose proof (partitions_parts_range (Z.of_nat (S m)) ps ltac:(lia) Ep) as R.
    destruct (sum_ntp_table_ok t m ps (ns_table_length m t Ht)) as [v [Hv _]].
    { eapply Forall_impl; [|exact R]. intros p Fp. eapply Forall_impl; [|exact Fp].
      intros k Hk. cbv beta in Hk. lia. }
    rewrite Hv. cbn [bind]. eexists; reflexivity.
Qed.

Theorem num_shapes_total n : exists v, num_shapes n = Ok v /\ (0 <= n -> 0 <= v).
Proof.
  unfold num_shapes. destruct (n <=? 1) eqn:E; [exists n; split; [reflexivity | lia]|].
  apply Z.leb_gt in E.
  destruct (ns_table_total (Z.to_nat n)) as [t Ht]. rewrite Ht. cbn [bind].
  pose proof (ns_table_length _ _ Ht) as L.
  assert (exists v, get t n = Ok v) as [v Hv] by (apply get_ok_iff; unfold zlen; lia).
  exists v. split; [exact Hv|]. intros _.
  (* the last table entry is a sum of products of comb values *)
  destruct (Z.to_nat n) as [|m] eqn:Em; [lia|].
  cbn [ns_table] in Ht. apply bind_ok in Ht as [t' [Ht' Ht]]. apply bind_ok in Ht as [w [Hw Ht]].
  injection Ht as <-.
  assert (n = zlen t') by (unfold zlen; rewrite (ns_table_length m t' Ht'); lia).
  rewrite H, get_app_last in Hv. injection Hv as <-.
  unfold num_shapes_step in Hw. replace (Z.of_nat (S m)) with n in Hw by lia.
  replace (n <=? 1) with false in Hw by (symmetry; apply Z.leb_gt; lia).
  apply bind_ok in Hw as [ps [Hp Hs]].
  pose proof (partitions_parts_range n ps ltac:(lia) Hp) as R.
  destruct (sum_ntp_table_ok t' m ps (ns_table_length m t' Ht')) as [v' [Hv' P]].
  { eapply Forall_impl; [|exact R]. intros p Fp. eapply Forall_impl; [|exact Fp].
    intros k Hk. cbv beta in Hk. lia. }
  rewrite Hv' in Hs. injection Hs as <-. exact P.
Qed.

(* unconditional: for every n >= 1 there is a bound nS = num_shapes(n) beyond which every
   shape rank is rejected *)
Theorem unrank_oor_shape_rejected_total n :
  1 <= n ->
  exists nS, num_shapes n = Ok nS /\
    forall s l, nS <= s -> 0 <= l -> tree_unrank n s l = Err E_RANK.
Proof.
  intros Hn. destruct (num_shapes_total n) as [nS [HS P]].
  exists nS. split; [exact HS|]. intros s l Hs Hl.
  apply (tree_unrank_shape_oor n nS s l Hn HS Hs); [apply P; lia | exact Hl].
Qed.
