(* Tree.rank is invariant under the order in which the children of every node are listed
   (unbounded): from_tsk_tree sorts the children by the key
   (num_leaves, shape_rank, min_label), sibling keys are pairwise different because
   sibling subtrees have disjoint leaf sets, and a list has only one sorted
   arrangement under a total order that is antisymmetric on its members. *)
From Coq Require Import List ZArith Bool Lia Arith Permutation Sorted.
From TskVerif Require Import Base.Common C15.Combination C15.Partitions C15.RankTree
  C15.TopoSpec C15.RankTreeBounded C15.OorProofs.
Import ListNotations.
Open Scope Z_scope.

(* ---- uniqueness of sorting ---- *)
Section SortUnique.
  Context {A : Type}.
  Variable le : A -> A -> bool.
  Hypothesis le_total : forall x y, le x y = true \/ le y x = true.
  Hypothesis le_trans : forall x y z, le x y = true -> le y z = true -> le x z = true.

  Definition leP (x y : A) : Prop := le x y = true.

  Lemma insert_perm x : forall l, Permutation (insert_sorted le x l) (x :: l).
  Proof.
    induction l as [|y r IH]; simpl; [reflexivity|].
    destruct (le x y); [reflexivity|].
    rewrite IH. apply perm_swap.
  Qed.

  Lemma sort_perm : forall l, Permutation (stable_sort le l) l.
  Proof.
    induction l as [|x r IH]; simpl; [reflexivity|].
    unfold stable_sort in *. simpl. rewrite insert_perm. constructor. exact IH.
  Qed.

  Lemma insert_sorted_ok x : forall l,
    StronglySorted leP l -> StronglySorted leP (insert_sorted le x l).
  Proof.
    induction l as [|y r IH]; intros S; simpl.
    - constructor; constructor.
    - inversion S as [|? ? Sr Hy]; subst.
      destruct (le x y) eqn:E.
      + constructor; [exact S|]. constructor; [exact E|].
        eapply Forall_impl; [|exact Hy]. intros a Ha. eapply le_trans; eassumption.
      + constructor; [apply IH, Sr|].
        assert (leP y x) by (destruct (le_total x y) as [T|T]; [congruence | exact T]).
        eapply Permutation_Forall; [symmetry; apply insert_perm|].
        constructor; assumption.
  Qed.

  Lemma sort_sorted : forall l, StronglySorted leP (stable_sort le l).
  Proof.
    induction l as [|x r IH]; [constructor|].
    unfold stable_sort in *. simpl. apply insert_sorted_ok, IH.
  Qed.

  Lemma sorted_perm_unique : forall l1 l2,
    StronglySorted leP l1 -> StronglySorted leP l2 -> Permutation l1 l2 ->
    (forall x y, In x l1 -> In y l1 -> le x y = true -> le y x = true -> x = y) ->
    l1 = l2.
  Proof.
    induction l1 as [|a r1 IH]; intros l2 S1 S2 P Anti.
    - apply Permutation_nil in P. subst. reflexivity.
    - destruct l2 as [|b r2]; [apply Permutation_sym, Permutation_nil in P; discriminate|].
      inversion S1 as [|? ? S1r H1]; subst. inversion S2 as [|? ? S2r H2]; subst.
      assert (a = b).
      { assert (In b (a :: r1)) as Ib by (eapply Permutation_in; [symmetry; exact P | left; reflexivity]).
        assert (In a (b :: r2)) as Ia by (eapply Permutation_in; [exact P | left; reflexivity]).
        destruct Ib as [E|Ib]; [exact E|]. destruct Ia as [E|Ia]; [symmetry; exact E|].
        rewrite Forall_forall in H1, H2.
        apply Anti; [left; reflexivity | right; exact Ib | apply H1, Ib | apply H2, Ia]. }
      subst b. f_equal. apply IH; try assumption.
      + eapply Permutation_cons_inv; exact P.
      + intros x y Hx Hy. apply Anti; right; assumption.
  Qed.

  Lemma sort_perm_eq l1 l2 :
    Permutation l1 l2 ->
    (forall x y, In x l1 -> In y l1 -> le x y = true -> le y x = true -> x = y) ->
    stable_sort le l1 = stable_sort le l2.
  Proof.
    intros P Anti. apply sorted_perm_unique; try apply sort_sorted.
    - rewrite !sort_perm. exact P.
    - intros x y Hx Hy. apply Anti; (eapply Permutation_in; [apply sort_perm|]); assumption.
  Qed.
End SortUnique.

(* ---- the canonical key is a total preorder; equal keys have equal smallest labels ---- *)
Lemma canon_key_le_iff x y :
  canon_key_le x y = true <->
  (lt_nl x < lt_nl y \/
   (lt_nl x = lt_nl y /\
    (lt_srk x < lt_srk y \/
     (lt_srk x = lt_srk y /\ hd 0 (lt_labels x) <= hd 0 (lt_labels y))))).
Proof.
  unfold canon_key_le.
  destruct (Z.ltb_spec (lt_nl x) (lt_nl y)); [split; [lia | reflexivity]|].
  destruct (Z.ltb_spec (lt_nl y) (lt_nl x)); [split; [discriminate | lia]|].
  destruct (Z.ltb_spec (lt_srk x) (lt_srk y)); [split; [lia | reflexivity]|].
  destruct (Z.ltb_spec (lt_srk y) (lt_srk x)); [split; [discriminate | lia]|].
  rewrite Z.leb_le. lia.
Qed.

Lemma canon_key_total x y : canon_key_le x y = true \/ canon_key_le y x = true.
Proof. rewrite !canon_key_le_iff. lia. Qed.

Lemma canon_key_trans x y z :
  canon_key_le x y = true -> canon_key_le y z = true -> canon_key_le x z = true.
Proof. rewrite !canon_key_le_iff. lia. Qed.

Lemma canon_key_antisym_hd x y :
  canon_key_le x y = true -> canon_key_le y x = true ->
  hd 0 (lt_labels x) = hd 0 (lt_labels y).
Proof. rewrite !canon_key_le_iff. lia. Qed.

(* ---- labels of a ranked tree = leaves of the plain tree ---- *)
Lemma merge2_perm : forall a b, Permutation (merge2 a b) (a ++ b).
Proof.
  induction a as [|x a' IHa]; intros b; [reflexivity|].
  induction b as [|y b' IHb].
  - simpl. rewrite app_nil_r. reflexivity.
  - cbn [merge2]. destruct (x <=? y).
    + simpl. constructor. apply IHa.
    + change ((fix inner (b : list Z) : list Z :=
                 match b with
                 | [] => x :: a'
                 | y0 :: b'0 => if x <=? y0 then x :: merge2 a' b else y0 :: inner b'0
                 end) b') with (merge2 (x :: a') b').
      rewrite IHb. apply (Permutation_middle (x :: a') b' y).
Qed.

Lemma merge_all_perm_gen : forall ls acc,
  Permutation (fold_left merge2 ls acc) (acc ++ concat ls).
Proof.
  induction ls as [|l r IH]; intros acc; simpl; [rewrite app_nil_r; reflexivity|].
  rewrite IH, merge2_perm, app_assoc. reflexivity.
Qed.

Lemma merge_all_perm ls : Permutation (merge_all ls) (concat ls).
Proof. apply (merge_all_perm_gen ls []). Qed.

Lemma rmap_Forall2 {A B} (f : A -> res B) : forall l out,
  rmap f l = Ok out -> Forall2 (fun a b => f a = Ok b) l out.
Proof.
  induction l as [|x r IH]; intros out H; simpl in H.
  - inversion H. constructor.
  - apply bind_ok in H as [y [H1 H]]. apply bind_ok in H as [ys [H2 H]].
    inversion H. constructor; [exact H1 | apply IH, H2].
Qed.

Lemma from_plain_node ch :
  from_plain (PN ch) =
    match ch with
    | [] => Err E_INDEX
    | [_] => Err E_UNARY
    | _ => do cl <- rmap from_plain ch; mk_ltree_fresh (stable_sort canon_key_le cl) 0
    end.
Proof.
  destruct ch as [|a [|b r]]; try reflexivity.
  cbn [from_plain].
  assert (G: forall l, (fix go (l : list pt) : res (list ltree) :=
                 match l with
                 | [] => Ok []
                 | c :: r => do x <- from_plain c; do xs <- go r; Ok (x :: xs)
                 end) l = rmap from_plain l).
  { induction l as [|c l IH]; [reflexivity|]. simpl. rewrite IH. reflexivity. }
  rewrite G. reflexivity.
Qed.

Lemma mk_ltree_fresh_labels ch label r :
  mk_ltree_fresh ch label = Ok r ->
  lt_labels r = node_labels (map summary_l ch) label.
Proof.
  unfold mk_ltree_fresh. intros H.
  apply bind_ok in H as [a [_ H]]. apply bind_ok in H as [b [_ H]].
  apply bind_ok in H as [c [_ H]]. inversion H. reflexivity.
Qed.

Lemma concat_map_perm {A B} (f : A -> list B) l1 l2 :
  Permutation l1 l2 -> Permutation (concat (map f l1)) (concat (map f l2)).
Proof.
  induction 1; simpl.
  - reflexivity.
  - apply Permutation_app_head. assumption.
  - rewrite !app_assoc. apply Permutation_app_tail, Permutation_app_comm.
  - etransitivity; eassumption.
Qed.

Lemma from_plain_labels : forall t r,
  from_plain t = Ok r -> Permutation (lt_labels r) (pt_leaves t) /\ lt_labels r <> [].
Proof.
  induction t as [u|ch IH] using pt_ind'; intros r H.
  - cbn [from_plain] in H. apply mk_ltree_fresh_labels in H. rewrite H. simpl.
    split; [reflexivity | discriminate].
  - rewrite from_plain_node in H.
    destruct ch as [|a [|b rest]]; try discriminate.
    apply bind_ok in H as [cl [Hcl H]].
    apply mk_ltree_fresh_labels in H. rewrite H.
    pose proof (rmap_Forall2 _ _ _ Hcl) as F2.
    set (sorted := stable_sort canon_key_le cl) in *.
    assert (Ps: Permutation sorted cl) by apply sort_perm.
    assert (Hne: map summary_l sorted <> []).
    { intros E. apply map_eq_nil in E. rewrite E in Ps. apply Permutation_nil in Ps.
      subst cl. inversion F2. }
    unfold node_labels. destruct (map summary_l sorted) eqn:Em; [congruence|].
    rewrite <- Em. rewrite map_map. cbn [c_labels summary_l].
    assert (PL1: Permutation (merge_all (map (fun x => lt_labels x) sorted))
                             (flat_map pt_leaves (a :: b :: rest))).
    { rewrite merge_all_perm. rewrite (concat_map_perm _ _ _ Ps).
      clear -F2 IH. induction F2 as [|c x cs xs Hc _ IHF]; [reflexivity|].
      inversion IH; subst. simpl. apply Permutation_app; [apply (proj1 (H1 x Hc)) | apply IHF, H2]. }
    split; [exact PL1|].
    intros E. rewrite E in PL1. apply Permutation_nil in PL1.
    (* a contributes at least one leaf *)
    inversion F2 as [|? xa ? ? Ha _]; subst. inversion IH as [|? ? IHa _]; subst.
    destruct (IHa xa Ha) as [Pa Na]. simpl in PL1.
    apply app_eq_nil in PL1 as [Ea _]. rewrite Ea in Pa. apply Permutation_sym, Permutation_nil in Pa.
    contradiction.
Qed.

Lemma NoDup_app_remove_l {A} (a b : list A) : NoDup (a ++ b) -> NoDup b.
Proof. induction a as [|x a IH]; simpl; intros H; [exact H|]. inversion H; auto. Qed.

Lemma NoDup_app_remove_r {A} (a b : list A) : NoDup (a ++ b) -> NoDup a.
Proof.
  induction a as [|x a IH]; simpl; intros H; [constructor|]. inversion H; subst.
  constructor; [|auto]. intros I. apply H2. apply in_or_app. left. exact I.
Qed.

Lemma NoDup_app_disjoint {A} (a b : list A) x : NoDup (a ++ b) -> In x a -> In x b -> False.
Proof.
  induction a as [|y a IH]; simpl; intros H Ia Ib; [destruct Ia|]. inversion H; subst.
  destruct Ia as [->|Ia]; [apply H2, in_or_app; right; exact Ib | auto].
Qed.

(* sibling results have pairwise different smallest labels *)
Lemma sibling_hd_NoDup : forall ch cl,
  Forall2 (fun c x => from_plain c = Ok x) ch cl ->
  NoDup (flat_map pt_leaves ch) ->
  NoDup (map (fun x => hd 0 (lt_labels x)) cl) /\
  forall x, In x cl -> In (hd 0 (lt_labels x)) (flat_map pt_leaves ch).
Proof.
  induction 1 as [|c x cs xs Hc F IH]; intros N; simpl.
  - split; [constructor | intros ? []].
  - simpl in N.
    assert (Nc: NoDup (flat_map pt_leaves cs)) by (eapply NoDup_app_remove_l; exact N).
    destruct (IH Nc) as [N1 M1].
    destruct (from_plain_labels c x Hc) as [Px Nx].
    assert (Hx: In (hd 0 (lt_labels x)) (pt_leaves c)).
    { eapply Permutation_in; [exact Px|]. destruct (lt_labels x); [congruence | left; reflexivity]. }
    split.
    + constructor; [|exact N1]. intros I. apply in_map_iff in I as [y [Ey Iy]].
      specialize (M1 y Iy). rewrite Ey in M1.
      (* the label is in c's leaves and in the other siblings' leaves *)
      eapply NoDup_app_disjoint; [exact N | exact Hx | exact M1].
    + intros y [<-|Iy]; apply in_or_app; [left; exact Hx | right; apply M1, Iy].
Qed.

Lemma NoDup_map_inj {A B} (f : A -> B) l x y :
  NoDup (map f l) -> In x l -> In y l -> f x = f y -> x = y.
Proof.
  induction l as [|a r IH]; intros N Hx Hy E; [destruct Hx|].
  simpl in N. inversion N; subst.
  destruct Hx as [->|Hx], Hy as [->|Hy]; auto.
  - exfalso. apply H1. rewrite E. apply in_map, Hy.
  - exfalso. apply H1. rewrite <- E. apply in_map, Hx.
Qed.

(* ---- the reordering relation ---- *)
Inductive pt_reorder : pt -> pt -> Prop :=
| ro_leaf : forall l, pt_reorder (PL l) (PL l)
| ro_node : forall ch ch' ch'', pt_reorder_list ch ch' -> Permutation ch' ch'' ->
                                pt_reorder (PN ch) (PN ch'')
with pt_reorder_list : list pt -> list pt -> Prop :=
| rol_nil : pt_reorder_list [] []
| rol_cons : forall c c' r r', pt_reorder c c' -> pt_reorder_list r r' ->
                               pt_reorder_list (c :: r) (c' :: r').

Scheme pt_reorder_mut := Induction for pt_reorder Sort Prop
  with pt_reorder_list_mut := Induction for pt_reorder_list Sort Prop.

Lemma rmap_perm {A B} (f : A -> res B) l1 l2 :
  Permutation l1 l2 -> forall out1, rmap f l1 = Ok out1 ->
  exists out2, rmap f l2 = Ok out2 /\ Permutation out1 out2.
Proof.
  induction 1 as [|x l l' P IH|x y l|l l' l'' P1 IH1 P2 IH2]; intros out1 H.
  - simpl in H. inversion H. exists []. split; [reflexivity | constructor].
  - simpl in H. apply bind_ok in H as [a [Ha H]]. apply bind_ok in H as [as_ [Has H]].
    inversion H; subst. destruct (IH as_ Has) as [o2 [E2 P2]].
    exists (a :: o2). simpl. rewrite Ha, E2. split; [reflexivity | constructor; exact P2].
  - simpl in H. apply bind_ok in H as [a [Ha H]]. apply bind_ok in H as [r1 [Hr H]].
    inversion H; subst. apply bind_ok in Hr as [b [Hb Hr]]. apply bind_ok in Hr as [r2 [Hr2 Hr]].
    inversion Hr; subst. exists (b :: a :: r2). simpl. rewrite Hb, Ha, Hr2.
    split; [reflexivity | apply perm_swap].
  - destruct (IH1 out1 H) as [o2 [E2 Q2]]. destruct (IH2 o2 E2) as [o3 [E3 Q3]].
    exists o3. split; [exact E3 | etransitivity; eassumption].
Qed.

Lemma from_plain_reorder_gen :
  forall t t', pt_reorder t t' ->
    forall r, from_plain t = Ok r -> NoDup (pt_leaves t) -> from_plain t' = Ok r.
Proof.
  apply (pt_reorder_mut
           (fun t t' _ => forall r, from_plain t = Ok r -> NoDup (pt_leaves t) -> from_plain t' = Ok r)
           (fun ch ch' _ => forall cl, rmap from_plain ch = Ok cl ->
                                       NoDup (flat_map pt_leaves ch) -> rmap from_plain ch' = Ok cl)).
  - intros l r H _. exact H.
  - intros ch ch' ch'' RL IH P r H N.
    rewrite from_plain_node in H. rewrite from_plain_node.
    destruct ch as [|a [|b rest]]; try discriminate.
    apply bind_ok in H as [cl [Hcl H]].
    specialize (IH cl Hcl N).
    destruct (rmap_perm from_plain ch' ch'' P cl IH) as [cl'' [Hcl'' Pcl]].
    (* lengths: ch'' has at least two elements *)
    assert (L: length ch'' = length (a :: b :: rest)).
    { rewrite <- (Permutation_length P). clear -RL. induction RL; simpl; congruence. }
    destruct ch'' as [|a'' [|b'' rest'']]; try (simpl in L; lia).
    rewrite Hcl''. simpl.
    rewrite <- (sort_perm_eq canon_key_le canon_key_total canon_key_trans cl cl'' Pcl); [exact H|].
    intros x y Hx Hy L1 L2.
    destruct (sibling_hd_NoDup _ _ (rmap_Forall2 _ _ _ Hcl) N) as [ND _].
    eapply NoDup_map_inj; [exact ND | exact Hx | exact Hy |].
    apply canon_key_antisym_hd; assumption.
  - intros cl H _. exact H.
  - intros c c' r r' Rc IHc Rl IHl cl H N.
    simpl in H. apply bind_ok in H as [x [Hx H]]. apply bind_ok in H as [xs [Hxs H]].
    inversion H; subst. simpl in N.
    simpl. rewrite (IHc x Hx) by (eapply NoDup_app_remove_r; exact N).
    simpl. rewrite (IHl xs Hxs) by (eapply NoDup_app_remove_l; exact N). reflexivity.
Qed.

(* Tree.rank() does not depend on the order in which children are listed *)
Lemma rank_child_order_invariant t t' r :
  pt_reorder t t' -> NoDup (pt_leaves t) -> tree_rank t = Ok r -> tree_rank t' = Ok r.
Proof.
  intros R N H. unfold tree_rank in *.
  apply bind_ok in H as [x [Hx H]].
  rewrite (from_plain_reorder_gen t t' R x Hx N). exact H.
Qed.

Example rank_child_order_invariant_ex :
  pt_reorder (PN [PL 0; PN [PL 1; PL 3]; PL 2]) (PN [PN [PL 3; PL 1]; PL 0; PL 2]) /\
  tree_rank (PN [PL 0; PN [PL 1; PL 3]; PL 2]) = Ok (1, 1).
Proof.
  split; [|vm_compute; reflexivity].
  eapply (ro_node _ [PL 0; PN [PL 3; PL 1]; PL 2]).
  - repeat constructor. eapply (ro_node _ [PL 1; PL 3]); [repeat constructor | apply perm_swap].
  - apply perm_swap.
Qed.
