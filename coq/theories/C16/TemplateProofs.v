(* C16 — the reusable int8 template of VcfWriter.write: filling it with the calls of
   a site produces exactly the '|'-joined, TAB-separated, newline-terminated GT fields
   of the individuals, whatever the previous site left in it. *)
From Coq Require Import List ZArith Bool Lia.
From TskVerif Require Import Base.Common C16.Model C16.Spec.
Import ListNotations.
Open Scope Z_scope.

(* ---- checked set on lists ---- *)

Lemma set_nat_app : forall {A} (P : list A) v R x,
  set_nat (P ++ v :: R) (length P) x = Some (P ++ x :: R).
Proof. induction P as [|a P IH]; intros; cbn; [reflexivity|]. rewrite IH. reflexivity. Qed.

Lemma set_app : forall {A} (P : list A) (v : A) R x,
  set (P ++ v :: R) (zlen P) x = Ok (P ++ x :: R).
Proof.
  intros. unfold set, zlen. destruct (Z.of_nat (length P) <? 0) eqn:E; [apply Z.ltb_lt in E; lia|].
  rewrite Nat2Z.id, set_nat_app. reflexivity.
Qed.

(* ---- weaving values with separators ---- *)

Fixpoint weave (vals seps : list Z) : bytes :=
  match vals, seps with
  | v :: vs, s :: ss => v :: s :: weave vs ss
  | _, _ => []
  end.

Lemma weave_app : forall a b a' b', length a = length b ->
  weave (a ++ a') (b ++ b') = weave a b ++ weave a' b'.
Proof.
  induction a as [|x a IH]; intros [|y b] a' b' H; cbn in *; try discriminate; [reflexivity|].
  rewrite IH by lia. reflexivity.
Qed.

Lemma weave_length : forall a b, length a = length b -> length (weave a b) = (2 * length a)%nat.
Proof. induction a as [|x a IH]; intros [|y b] H; cbn in *; try discriminate; [reflexivity|]. rewrite IH by lia. lia. Qed.

Definition evens_from (k n : nat) : list Z := map (fun j => 2 * Z.of_nat j) (seq k n).

Lemma evens_from_snoc : forall k n, evens_from k n ++ [2 * Z.of_nat (k + n)] = evens_from k (S n).
Proof. intros. unfold evens_from. rewrite seq_S, map_app. reflexivity. Qed.

(* ---- building the template ---- *)

Lemma tmpl_inner_weave : forall k zs ss, length zs = length ss ->
  tmpl_inner k (weave zs ss) (evens_from 0 (length zs)) =
    (weave (zs ++ repeat 0 k) (ss ++ repeat BAR k), evens_from 0 (length zs + k)).
Proof.
  induction k as [|k IH]; intros zs ss H.
  - cbn. rewrite !app_nil_r, Nat.add_0_r. reflexivity.
  - cbn [tmpl_inner].
    replace (weave zs ss ++ [0; BAR]) with (weave (zs ++ [0]) (ss ++ [BAR]))
      by (rewrite weave_app by assumption; reflexivity).
    replace (evens_from 0 (length zs) ++ [zlen (weave zs ss)]) with (evens_from 0 (length (zs ++ [0]))).
    2:{ rewrite app_length. cbn [length]. rewrite Nat.add_1_r, <- evens_from_snoc. f_equal. f_equal.
        unfold zlen. rewrite weave_length by assumption. cbn [Nat.add]. lia. }
    rewrite IH by (rewrite !app_length; cbn; lia).
    rewrite <- !app_assoc. cbn [app repeat]. rewrite app_length. cbn [length].
    replace (length zs + 1 + k)%nat with (length zs + S k)%nat by lia.
    reflexivity.
Qed.

Lemma set_last_snoc : forall l c d, set_last (l ++ [c]) d = Ok (l ++ [d]).
Proof.
  intros l c d. unfold set_last. destruct (l ++ [c]) eqn:E.
  - destruct l; discriminate.
  - rewrite <- E. rewrite removelast_last. reflexivity.
Qed.

Lemma weave_snoc : forall zs ss z s, length zs = length ss ->
  weave (zs ++ [z]) (ss ++ [s]) = (weave zs ss ++ [z]) ++ [s].
Proof. intros. rewrite weave_app by assumption. cbn. rewrite <- app_assoc. reflexivity. Qed.

(* the separators after the calls of the individuals: '|' inside an individual, TAB after it *)
Definition seps (ps : list Z) : list Z :=
  concat (map (fun p => repeat BAR (Z.to_nat p - 1) ++ [TAB]) ps).

Lemma total_calls_cons : forall p ps, total_calls (p :: ps) = (Z.to_nat p + total_calls ps)%nat.
Proof. reflexivity. Qed.

Lemma seps_length : forall ps, Forall (fun p => 1 <= p) ps -> length (seps ps) = total_calls ps.
Proof.
  induction ps as [|p ps IH]; intros H; [reflexivity|]. inversion H; subst.
  unfold seps in *. cbn [map concat]. rewrite !app_length, repeat_length, IH by assumption.
  rewrite total_calls_cons. cbn [length]. lia.
Qed.

Lemma tmpl_outer_weave : forall ps zs ss, Forall (fun p => 1 <= p) ps -> length zs = length ss ->
  tmpl_outer ps (weave zs ss) (evens_from 0 (length zs)) =
    Ok (weave (zs ++ repeat 0 (total_calls ps)) (ss ++ seps ps), evens_from 0 (length zs + total_calls ps)).
Proof.
  induction ps as [|p ps IH]; intros zs ss HP H.
  - cbn. rewrite !app_nil_r, Nat.add_0_r. reflexivity.
  - inversion HP as [|? ? Hp HP']; subst. cbn [tmpl_outer].
    rewrite tmpl_inner_weave by assumption.
    destruct (Z.to_nat p) as [|k] eqn:Ek; [lia|].
    (* the last of the k+1 new slots gets TAB *)
    replace (repeat 0 (S k)) with (repeat 0 k ++ [0]) by (rewrite <- repeat_cons; reflexivity).
    replace (repeat BAR (S k)) with (repeat BAR k ++ [BAR]) by (rewrite <- repeat_cons; reflexivity).
    rewrite !app_assoc.
    rewrite weave_snoc by (rewrite !app_length, !repeat_length; lia).
    rewrite set_last_snoc. cbn [bind].
    rewrite <- weave_snoc by (rewrite !app_length, !repeat_length; lia).
    replace (evens_from 0 (length zs + S k)) with (evens_from 0 (length ((zs ++ repeat 0 k) ++ [0])))
      by (rewrite !app_length, repeat_length; cbn [length]; f_equal; lia).
    rewrite IH by (try assumption; rewrite !app_length, !repeat_length; cbn [length]; lia).
    rewrite total_calls_cons, Ek.
    f_equal. f_equal.
    + f_equal.
      * rewrite <- !app_assoc. f_equal. rewrite (app_assoc (repeat 0 k)), <- repeat_cons.
        change (0 :: repeat 0 k) with (repeat 0 (S k)). rewrite <- repeat_app. reflexivity.
      * unfold seps. cbn [map concat]. rewrite Ek. replace (S k - 1)%nat with k by lia.
        rewrite <- !app_assoc. reflexivity.
    + rewrite !app_length, repeat_length. cbn [length]. f_equal. lia.
Qed.

(* the final separator becomes a newline *)
Definition final_seps (ps : list Z) : list Z := removelast (seps ps) ++ [NL].

Lemma seps_last : forall ps, ps <> [] -> exists front, seps ps = front ++ [TAB].
Proof.
  intros ps H. destruct (exists_last H) as [ps' [p ->]].
  unfold seps. rewrite map_app, concat_app. cbn [map concat]. rewrite app_nil_r.
  eexists. rewrite app_assoc. reflexivity.
Qed.

Theorem gt_template_weave : forall ps, ps <> [] -> Forall (fun p => 1 <= p) ps ->
  gt_template ps = Ok (weave (repeat 0 (total_calls ps)) (final_seps ps), evens_from 0 (total_calls ps)).
Proof.
  intros ps Hne HP. unfold gt_template.
  pose proof (tmpl_outer_weave ps [] [] HP eq_refl) as H. cbn [weave length app Nat.add] in H.
  change (evens_from 0 0) with (@nil Z) in H. rewrite H. cbn [bind].
  destruct (seps_last ps Hne) as [front Hf].
  pose proof (seps_length ps HP) as HL. rewrite Hf, app_length in HL. cbn [length] in HL.
  assert (exists k, total_calls ps = S k /\ length front = k) as [k [Hk Hfl]] by (exists (length front); lia).
  unfold final_seps. rewrite Hf, removelast_last, Hk.
  replace (repeat 0 (S k)) with (repeat 0 k ++ [0]) by (rewrite <- repeat_cons; reflexivity).
  rewrite weave_snoc by (rewrite repeat_length; lia).
  rewrite set_last_snoc. cbn [bind].
  rewrite <- weave_snoc by (rewrite repeat_length; lia). reflexivity.
Qed.

(* ---- filling the template ---- *)

Lemma scatter_weave_gen : forall vals sps vs P k,
  length vals = length sps -> length vs = length vals -> zlen P = 2 * Z.of_nat k ->
  scatter (P ++ weave vals sps) (evens_from k (length vals)) vs = Ok (P ++ weave vs sps).
Proof.
  induction vals as [|v vals IH]; intros [|s sps] [|x vs] P k H1 H2 HP; cbn in H1, H2; try discriminate.
  - reflexivity.
  - unfold evens_from. cbn [length seq map weave scatter].
    rewrite <- HP. rewrite set_app. cbn [bind].
    change (P ++ x :: s :: weave vals sps) with (P ++ [x; s] ++ weave vals sps).
    rewrite app_assoc.
    change (map (fun j => 2 * Z.of_nat j) (seq (S k) (length vals))) with (evens_from (S k) (length vals)).
    rewrite IH; try lia.
    + rewrite <- app_assoc. reflexivity.
    + unfold zlen in *. rewrite app_length. cbn [length]. lia.
Qed.

Theorem scatter_weave : forall vals sps vs,
  length vals = length sps -> length vs = length vals ->
  scatter (weave vals sps) (evens_from 0 (length vals)) vs = Ok (weave vs sps).
Proof. intros. apply (scatter_weave_gen vals sps vs [] 0%nat); auto. Qed.

Fixpoint override (vals : list Z) (sel : list bool) (c : Z) : list Z :=
  match vals, sel with
  | v :: vals', b :: sel' => (if b then c else v) :: override vals' sel' c
  | _, _ => []
  end.

Lemma scatter_where_weave_gen : forall vals sps sel c P k,
  length vals = length sps -> length sel = length vals -> zlen P = 2 * Z.of_nat k ->
  scatter_where (P ++ weave vals sps) (evens_from k (length vals)) sel c = Ok (P ++ weave (override vals sel c) sps).
Proof.
  induction vals as [|v vals IH]; intros [|s sps] [|b sel] c P k H1 H2 HP; cbn in H1, H2; try discriminate.
  - reflexivity.
  - unfold evens_from. cbn [length seq map weave scatter_where override].
    assert (forall w, scatter_where (P ++ w :: s :: weave vals sps)
                (map (fun j => 2 * Z.of_nat j) (seq (S k) (length vals))) sel c
              = Ok (P ++ w :: s :: weave (override vals sel c) sps)) as Hrest.
    { intros w.
      change (P ++ w :: s :: weave vals sps) with (P ++ [w; s] ++ weave vals sps).
      rewrite app_assoc.
      change (map (fun j => 2 * Z.of_nat j) (seq (S k) (length vals))) with (evens_from (S k) (length vals)).
      rewrite IH; try lia.
      - rewrite <- app_assoc. reflexivity.
      - unfold zlen in *. rewrite app_length. cbn [length]. lia. }
    destruct b.
    + rewrite <- HP, set_app. cbn [bind]. apply Hrest.
    + cbn [bind]. apply Hrest.
Qed.

Theorem scatter_where_weave : forall vals sps sel c,
  length vals = length sps -> length sel = length vals ->
  scatter_where (weave vals sps) (evens_from 0 (length vals)) sel c = Ok (weave (override vals sel c) sps).
Proof. intros. apply (scatter_where_weave_gen vals sps sel c [] 0%nat); auto. Qed.

(* ---- the woven bytes are the joined GT fields ---- *)

Lemma join_cons2 : forall sep f g fs, join_with sep (f :: g :: fs) = f ++ sep :: join_with sep (g :: fs).
Proof. reflexivity. Qed.

Lemma join_app_ne : forall sep a b, a <> [] -> b <> [] ->
  join_with sep (a ++ b) = join_with sep a ++ sep :: join_with sep b.
Proof.
  intros sep; induction a as [|f a IH]; intros b Ha Hb; [congruence|].
  destruct a as [|g a].
  - cbn [app]. destruct b; [congruence|]. reflexivity.
  - change ((f :: g :: a) ++ b) with (f :: (g :: a) ++ b).
    change ((g :: a) ++ b) with (g :: a ++ b). rewrite join_cons2.
    change (g :: a ++ b) with ((g :: a) ++ b). rewrite IH by (try discriminate; assumption).
    rewrite join_cons2. rewrite <- app_assoc. reflexivity.
Qed.

(* one individual: its p calls woven with p-1 bars and a closing separator *)
Lemma weave_field : forall cs c, cs <> [] ->
  weave cs (repeat BAR (length cs - 1) ++ [c]) = gt_field cs ++ [c].
Proof.
  induction cs as [|x cs IH]; intros c H; [congruence|].
  destruct cs as [|y cs].
  - reflexivity.
  - cbn [length]. replace (S (S (length cs)) - 1)%nat with (S (length (y :: cs) - 1))%nat by (cbn; lia).
    remember (length (y :: cs) - 1)%nat as n eqn:En. cbn [repeat app].
    change (weave (x :: y :: cs) (BAR :: repeat BAR n ++ [c]))
      with (x :: BAR :: weave (y :: cs) (repeat BAR n ++ [c])).
    subst n. rewrite IH by discriminate.
    unfold gt_field. cbn [map]. rewrite join_cons2. cbn [app]. reflexivity.
Qed.

Lemma firstn_skipn_len : forall {A} (l : list A) n, (n <= length l)%nat ->
  length (firstn n l) = n /\ length (skipn n l) = (length l - n)%nat.
Proof. intros. rewrite firstn_length, skipn_length. lia. Qed.

Lemma weave_chunks : forall ps cs, Forall (fun p => 1 <= p) ps -> length cs = total_calls ps ->
  weave cs (seps ps) = concat (map (fun f => gt_field f ++ [TAB]) (chunks (map Z.to_nat ps) cs)).
Proof.
  induction ps as [|p ps IH]; intros cs HP HL.
  - destruct cs; [reflexivity|discriminate].
  - inversion HP as [|? ? Hp HP']; subst. rewrite total_calls_cons in HL.
    cbn [map chunks concat]. unfold seps. cbn [map concat]. fold (seps ps).
    rewrite <- (firstn_skipn (Z.to_nat p) cs) at 1.
    destruct (firstn_skipn_len cs (Z.to_nat p) ltac:(lia)) as [H1 H2].
    rewrite weave_app by (rewrite app_length, repeat_length, H1; cbn; lia).
    rewrite IH by (try assumption; lia). f_equal.
    replace (Z.to_nat p - 1)%nat with (length (firstn (Z.to_nat p) cs) - 1)%nat by (rewrite H1; reflexivity).
    apply weave_field. intros E. rewrite E in H1. cbn in H1. lia.
Qed.

Lemma concat_tab_join : forall fs, fs <> [] ->
  concat (map (fun f => f ++ [TAB]) fs) = join_with TAB fs ++ [TAB].
Proof.
  induction fs as [|f fs IH]; intros H; [congruence|].
  destruct fs as [|g fs].
  - cbn. rewrite app_nil_r. reflexivity.
  - cbn [map concat]. change (concat (map (fun f0 => f0 ++ [TAB]) (g :: fs))) with
      (concat (map (fun f0 => f0 ++ [TAB]) (g :: fs))).
    cbn [map concat] in IH. rewrite IH by discriminate. rewrite join_cons2.
    rewrite <- !app_assoc. reflexivity.
Qed.

Lemma weave_removelast : forall cs ss c d, length cs = S (length ss) ->
  weave cs (ss ++ [d]) = removelast (weave cs (ss ++ [c])) ++ [d].
Proof.
  intros cs ss c d H.
  assert (cs <> []) as Hne by (intros ->; discriminate).
  destruct (exists_last Hne) as [cs' [z ->]]. rewrite app_length in H. cbn in H.
  rewrite !weave_snoc by lia. rewrite removelast_last. reflexivity.
Qed.

Lemma chunks_nonempty : forall ps (cs : list Z), ps <> [] -> chunks (map Z.to_nat ps) cs <> [].
Proof. intros [|p ps] cs H; [congruence|discriminate]. Qed.

(* the whole GT part of a line *)
Theorem weave_final : forall ps cs, ps <> [] -> Forall (fun p => 1 <= p) ps -> length cs = total_calls ps ->
  weave cs (final_seps ps) = join_with TAB (map gt_field (chunks (map Z.to_nat ps) cs)) ++ [NL].
Proof.
  intros ps cs Hne HP HL. unfold final_seps.
  destruct (seps_last ps Hne) as [front Hf].
  pose proof (seps_length ps HP) as HS. rewrite Hf, app_length in HS. cbn [length] in HS.
  rewrite Hf, removelast_last.
  rewrite (weave_removelast cs front TAB NL) by lia.
  rewrite <- Hf. rewrite weave_chunks by assumption.
  rewrite <- (map_map gt_field (fun g => g ++ [TAB])). rewrite concat_tab_join.
  - rewrite removelast_last. reflexivity.
  - intros E. apply map_eq_nil in E. eapply chunks_nonempty; eauto.
Qed.

(* ---- the regrouping is a partition of the columns, in order ---- *)

Theorem chunks_partition : forall {A} (ps : list nat) (l : list A),
  length l = fold_right Nat.add O ps -> concat (chunks ps l) = l /\ map (@length A) (chunks ps l) = ps.
Proof.
  induction ps as [|p ps IH]; intros l H.
  - destruct l; [split; reflexivity|discriminate].
  - cbn [fold_right] in H. cbn [chunks concat map].
    destruct (firstn_skipn_len l p ltac:(lia)) as [H1 H2].
    destruct (IH (skipn p l) ltac:(lia)) as [IH1 IH2].
    rewrite IH1, IH2, H1, firstn_skipn. split; reflexivity.
Qed.

(* non-vacuity: two diploids and a haploid *)
Example template_example :
  gt_template [2; 1; 2] = Ok ([0; 124; 0; 9; 0; 9; 0; 124; 0; 10], [0; 2; 4; 6; 8])
  /\ weave [49; 46; 48; 50; 49] (final_seps [2; 1; 2])
     = [49; 124; 46; 9; 48; 9; 50; 124; 49; 10].            (* "1|.\t0\t2|1\n" *)
Proof. split; reflexivity. Qed.
