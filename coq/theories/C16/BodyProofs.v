(* C16 — the body written by VcfWriter.write is the specified text; masked sites are
   irrelevant for the repaired position-zero check and not for the one in the code. *)
From Coq Require Import List ZArith Bool Lia.
From TskVerif Require Import Base.Common Gen.Generated C16.Model C16.Spec C16.TemplateProofs.
Import ListNotations.
Open Scope Z_scope.

(* the regenerated allele limit is the one of the property text *)
Lemma allele_limit_is_nine : c16_max_alleles = 9.
Proof. reflexivity. Qed.

(* ---- calls ---- *)

Lemma call_chars_length : forall g m, length m = length g -> length (call_chars g m) = length g.
Proof. induction g as [|a g IH]; intros [|b m] H; cbn in *; try discriminate; [reflexivity|]. rewrite IH by lia. reflexivity. Qed.

Lemma override_masked : forall g m, length m = length g ->
  override (map (fun a => a + 48) g) (map (fun a => a =? -1) (apply_mask g m)) DOT = call_chars g m.
Proof.
  induction g as [|a g IH]; intros [|b m] H; cbn in *; try discriminate; [reflexivity|].
  rewrite IH by lia. f_equal; try (unfold gt_char; destruct b; cbn; [reflexivity|]; destruct (a =? -1); reflexivity).
Qed.

Lemma override_missing : forall g,
  override (map (fun a => a + 48) g) (map (fun a => a =? -1) g) DOT = call_chars g (repeat false (length g)).
Proof.
  induction g as [|a g IH]; [reflexivity|]. cbn. rewrite IH.
  f_equal; try (unfold gt_char; cbn; destruct (a =? -1); reflexivity).
Qed.

Lemma no_missing_chars : forall g, has_missing g = false ->
  map (fun a => a + 48) g = call_chars g (repeat false (length g)).
Proof.
  induction g as [|a g IH]; intros H; [reflexivity|]. cbn in H. apply orb_false_iff in H as [H1 H2].
  cbn. rewrite IH by assumption. f_equal; try (unfold gt_char; cbn; rewrite H1; reflexivity).
Qed.

Lemma scatter_weave_n : forall n vals sps vs,
  length vals = n -> length sps = n -> length vs = n ->
  scatter (weave vals sps) (evens_from 0 n) vs = Ok (weave vs sps).
Proof. intros n vals sps vs H1 H2 H3. subst n. apply scatter_weave; lia. Qed.

Lemma scatter_where_weave_n : forall n vals sps sel c,
  length vals = n -> length sps = n -> length sel = n ->
  scatter_where (weave vals sps) (evens_from 0 n) sel c = Ok (weave (override vals sel c) sps).
Proof. intros n vals sps sel c H1 H2 H3. subst n. apply scatter_where_weave; lia. Qed.

Lemma apply_mask_length : forall g m, length m = length g -> length (apply_mask g m) = length g.
Proof. induction g as [|a g IH]; intros [|b m] H; cbn in *; try discriminate; [reflexivity|]. rewrite IH by lia. reflexivity. Qed.

Theorem template_fill : forall ps vals cs,
  ps <> [] -> Forall (fun p => 1 <= p) ps ->
  length vals = total_calls ps -> length cs = total_calls ps ->
  gt_template ps = Ok (weave (repeat 0 (total_calls ps)) (final_seps ps), evens_from 0 (total_calls ps))
  /\ scatter (weave vals (final_seps ps)) (evens_from 0 (total_calls ps)) cs
     = Ok (join_with TAB (map gt_field (chunks (map Z.to_nat ps) cs)) ++ [NL]).
Proof.
  intros ps vals cs Hne HP Hv Hc. split; [apply gt_template_weave; assumption|].
  rewrite scatter_weave_n; try assumption.
  - rewrite weave_final by assumption. reflexivity.
  - unfold final_seps. destruct (seps_last ps Hne) as [front Hf].
    pose proof (seps_length ps HP) as HS. rewrite Hf, removelast_last. rewrite Hf in HS.
    rewrite !app_length in *. cbn [length] in *. lia.
Qed.

(* ---- one site ---- *)

Definition shaped (ps : list Z) (gt : bytes) : Prop :=
  exists vals, length vals = total_calls ps /\ gt = weave vals (final_seps ps).

Lemma final_seps_length : forall ps, ps <> [] -> Forall (fun p => 1 <= p) ps ->
  length (final_seps ps) = total_calls ps.
Proof.
  intros ps Hne HP. unfold final_seps. destruct (seps_last ps Hne) as [front Hf].
  pose proof (seps_length ps HP) as HS. rewrite Hf, removelast_last. rewrite Hf in HS.
  rewrite !app_length in *. cbn [length] in *. lia.
Qed.

Theorem write_site_spec : forall contig ps gt id s,
  ps <> [] -> Forall (fun p => 1 <= p) ps -> shaped ps gt ->
  length (sd_genotypes s) = total_calls ps -> sd_alleles s <> [] ->
  write_site contig (evens_from 0 (total_calls ps)) gt id s =
    if site_error s then Err E_VALUE
    else Ok (line_text contig ps id s,
             weave (call_chars (sd_genotypes s) (site_mask_row s)) (final_seps ps)).
Proof.
  intros contig ps gt id s Hne HP [vals [Hv ->]] Hg Ha.
  pose proof (final_seps_length ps Hne HP) as HF.
  unfold write_site, site_error.
  destruct (c16_max_alleles <? zlen (sd_alleles s)) eqn:E9; [reflexivity|]. cbn [orb].
  destruct (sd_alleles s) as [|ref rest] eqn:EA; [congruence|].
  change (get (ref :: rest) 0) with (Ok ref). cbn [bind].
  rewrite scatter_weave_n by (rewrite ?map_length; lia). cbn [bind].
  assert (forall chars, length chars = total_calls ps ->
            join_with TAB [contig; dec (sd_pos s); dec id; ref;
                           match rest with _ :: _ => join_with COMMA rest | [] => DOT_S end;
                           DOT_S; PASS_S; DOT_S; GT_S] ++ [TAB] ++ weave chars (final_seps ps)
            = join_with TAB ([contig; dec (sd_pos s); dec id; ref;
                              match rest with _ :: _ => join_with COMMA rest | [] => DOT_S end;
                              DOT_S; PASS_S; DOT_S; GT_S]
                             ++ map gt_field (chunks (map Z.to_nat ps) chars)) ++ [NL]) as Hline.
  { intros chars Hc. rewrite weave_final by assumption.
    rewrite join_app_ne; [|discriminate|].
    - rewrite <- !app_assoc. reflexivity.
    - intros E. apply map_eq_nil in E. eapply chunks_nonempty; eauto. }
  assert (alt_field (ref :: rest) = match rest with _ :: _ => join_with COMMA rest | [] => DOT_S end) as Halt
    by (destruct rest; reflexivity).
  unfold line_text. rewrite EA. cbn [hd]. rewrite Halt.
  destruct (sd_sample_mask s) as [m|] eqn:EM; unfold site_mask_row; rewrite EM.
  - destruct (Nat.eqb (length m) (length (sd_genotypes s))) eqn:EL; cbn [negb]; [|reflexivity].
    apply Nat.eqb_eq in EL. cbn [bind orb].
    rewrite scatter_where_weave_n by (rewrite ?map_length, ?apply_mask_length; lia).
    cbn [bind]. rewrite override_masked by assumption.
    f_equal. f_equal. rewrite <- app_assoc. apply Hline. rewrite call_chars_length; lia.
  - cbn [bind orb].
    destruct (has_missing (sd_genotypes s)) eqn:EH.
    + rewrite scatter_where_weave_n by (rewrite ?map_length; lia).
      cbn [bind]. rewrite override_missing.
      f_equal. f_equal. rewrite <- app_assoc. apply Hline. rewrite call_chars_length; rewrite ?repeat_length; lia.
    + cbn [bind]. rewrite no_missing_chars by assumption.
      f_equal. f_equal. rewrite <- app_assoc. apply Hline. rewrite call_chars_length; rewrite ?repeat_length; lia.
Qed.

(* ---- all sites ---- *)

Definition unmasked_from (id : Z) (sites : list site_data) (mask : list bool) : list (Z * site_data) :=
  map fst (filter (fun x => negb (snd x)) (combine (enumerate_from id sites) mask)).

Lemma unmasked_is_from0 : forall sites mask, unmasked sites mask = unmasked_from 0 sites mask.
Proof. reflexivity. Qed.

Theorem write_sites_spec : forall contig ps sites mask id gt,
  ps <> [] -> Forall (fun p => 1 <= p) ps -> shaped ps gt -> length mask = length sites ->
  (forall x, In x (unmasked_from id sites mask) ->
     length (sd_genotypes (snd x)) = total_calls ps /\ sd_alleles (snd x) <> []) ->
  write_sites contig (evens_from 0 (total_calls ps)) gt id sites mask =
    if existsb (fun x => site_error (snd x)) (unmasked_from id sites mask) then Err E_VALUE
    else Ok (map (fun x => line_text contig ps (fst x) (snd x)) (unmasked_from id sites mask)).
Proof.
  intros contig ps sites. induction sites as [|s sites IH]; intros [|b mask] id gt Hne HP Hs HL Hwf;
    cbn in HL; try discriminate; [reflexivity|].
  unfold unmasked_from in *. cbn [write_sites enumerate_from combine filter snd].
  destruct b; cbn [negb].
  - apply IH; auto.
  - cbn [map fst existsb snd] in *.
    destruct (Hwf (id, s) (or_introl eq_refl)) as [Hg Ha]. cbn [snd] in Hg, Ha.
    rewrite write_site_spec by assumption.
    destruct (site_error s) eqn:ES; [reflexivity|]. cbn [bind orb].
    rewrite IH; auto.
    + destruct (existsb _ _); reflexivity.
    + eexists; split; [|reflexivity]. rewrite call_chars_length; [lia|].
      unfold site_mask_row. unfold site_error in ES. apply orb_false_iff in ES as [_ ES].
      destruct (sd_sample_mask s); [|rewrite repeat_length; reflexivity].
      apply negb_false_iff, Nat.eqb_eq in ES. exact ES.
    + intros x Hx. apply Hwf. right. exact Hx.
Qed.

(* ---- the position-zero check of the repaired code looks at unmasked sites only ---- *)

Lemma take_where_unmasked : forall sites mask id, length mask = length sites ->
  existsb (fun p => p =? 0) (take_where (map sd_pos sites) (map negb mask)) =
  existsb (fun x => sd_pos (snd x) =? 0) (unmasked_from id sites mask).
Proof.
  unfold unmasked_from. induction sites as [|s sites IH]; intros [|b mask] id H; cbn in H; try discriminate; [reflexivity|].
  cbn [map take_where enumerate_from combine filter snd]. destruct b; cbn [negb].
  - apply IH. lia.
  - cbn [map fst existsb snd]. rewrite (IH mask (id + 1)) by lia. reflexivity.
Qed.

Theorem vcf_body_fixed_spec : forall inp, wf_input inp -> vcf_body_fixed inp = spec_body inp.
Proof.
  intros inp [Hne [HP Hwf]]. unfold vcf_body_fixed, vcf_body_with, spec_body.
  set (n := length (vi_sites inp)) in *. set (mask := mask_bools n (vi_site_mask inp)) in *.
  destruct (Nat.eqb (length mask) n) eqn:EL; cbn [negb]; [|reflexivity].
  apply Nat.eqb_eq in EL.
  unfold position_zero_check, selected_positions_fixed. rewrite map_length. fold n. fold mask.
  rewrite unmasked_is_from0 in *.
  destruct (vi_allow_position_zero inp); cbn [negb andb bind].
  - rewrite gt_template_weave by assumption. cbn [bind].
    apply write_sites_spec; auto.
    exists (repeat 0 (total_calls (vi_ploidies inp))). split; [apply repeat_length|reflexivity].
  - rewrite (take_where_unmasked (vi_sites inp) mask 0) by exact EL.
    destruct (existsb _ (unmasked_from 0 (vi_sites inp) mask)); [reflexivity|].
    rewrite gt_template_weave by assumption. cbn [bind].
    apply write_sites_spec; auto.
    exists (repeat 0 (total_calls (vi_ploidies inp))). split; [apply repeat_length|reflexivity].
Qed.

(* One data line per unmasked site, in site order, each exactly the specified text. *)
Theorem vcf_lines_exact_fixed : forall inp lines, wf_input inp -> vcf_body_fixed inp = Ok lines ->
  lines = map (fun x => line_text (vi_contig inp) (vi_ploidies inp) (fst x) (snd x))
              (unmasked (vi_sites inp) (mask_bools (length (vi_sites inp)) (vi_site_mask inp))).
Proof.
  intros inp lines W H. rewrite vcf_body_fixed_spec in H by assumption. unfold spec_body in H.
  destruct (negb _); [discriminate|]. destruct (_ && _); [discriminate|].
  destruct (existsb _ _); [discriminate|]. inversion H. reflexivity.
Qed.

(* ---- bool-array / None masks: the code as it is coincides with the repair ---- *)

Lemma take_where_all : forall pos, take_where pos (map negb (repeat false (length pos))) = pos.
Proof. induction pos as [|p pos IH]; [reflexivity|]. cbn. rewrite IH. reflexivity. Qed.

Definition bool_form (m : mask_arg) : Prop :=
  match m with MNone | MBoolArray _ => True | _ => False end.

Theorem bool_masks_as_fixed : forall inp, bool_form (vi_site_mask inp) -> vcf_body_pinned inp = vcf_body_fixed inp.
Proof.
  intros inp H. unfold vcf_body_pinned, vcf_body_fixed, vcf_body_with.
  destruct (vi_site_mask inp) eqn:EM; try contradiction.
  - unfold selected_positions_as_coded, selected_positions_fixed. cbn [mask_bools].
    rewrite take_where_all. reflexivity.
  - reflexivity.
Qed.

(* ---- masked sites are irrelevant (repaired check) ---- *)

(* the two site lists agree wherever the mask is false *)
Inductive agree : list site_data -> list site_data -> list bool -> Prop :=
| agree_nil : agree [] [] []
| agree_masked : forall s s' l l' m, agree l l' m -> agree (s :: l) (s' :: l') (true :: m)
| agree_same : forall s l l' m, agree l l' m -> agree (s :: l) (s :: l') (false :: m).

Lemma agree_lengths : forall l l' m, agree l l' m -> length l = length m /\ length l' = length m.
Proof. induction 1; cbn; lia. Qed.

Lemma agree_write_sites : forall contig idx l l' m, agree l l' m ->
  forall gt id, write_sites contig idx gt id l m = write_sites contig idx gt id l' m.
Proof.
  induction 1 as [|s s' l l' m H IH|s l l' m H IH]; intros gt id; cbn [write_sites]; [reflexivity|apply IH|].
  destruct (write_site contig idx gt id s) as [[line gt']| | |]; cbn [bind]; try reflexivity.
  rewrite IH. reflexivity.
Qed.

Lemma agree_positions : forall l l' m, agree l l' m ->
  take_where (map sd_pos l) (map negb m) = take_where (map sd_pos l') (map negb m).
Proof. induction 1; cbn; [reflexivity|assumption|]. f_equal. assumption. Qed.

Theorem masked_sites_irrelevant_fixed : forall inp inp',
  vi_contig inp = vi_contig inp' -> vi_ploidies inp = vi_ploidies inp' ->
  vi_allow_position_zero inp = vi_allow_position_zero inp' ->
  mask_bools (length (vi_sites inp)) (vi_site_mask inp) = mask_bools (length (vi_sites inp')) (vi_site_mask inp') ->
  agree (vi_sites inp) (vi_sites inp') (mask_bools (length (vi_sites inp)) (vi_site_mask inp)) ->
  vcf_body_fixed inp = vcf_body_fixed inp'.
Proof.
  intros inp inp' Hc Hp Ha Hm Hag. unfold vcf_body_fixed, vcf_body_with, selected_positions_fixed.
  rewrite !map_length. rewrite <- Hm, <- Hc, <- Hp, <- Ha.
  set (m := mask_bools (length (vi_sites inp)) (vi_site_mask inp)) in *.
  destruct (agree_lengths _ _ _ Hag) as [L1 L2].
  assert (E1 : Nat.eqb (length m) (length (vi_sites inp)) = true) by (apply Nat.eqb_eq; lia).
  assert (E2 : Nat.eqb (length m) (length (vi_sites inp')) = true) by (apply Nat.eqb_eq; lia).
  rewrite E1, E2.
  cbn [negb].
  rewrite (agree_positions _ _ _ Hag).
  destruct (position_zero_check _ _); cbn [bind]; try reflexivity.
  destruct (gt_template _) as [[gt idx]| | |]; cbn [bind]; try reflexivity.
  apply agree_write_sites. exact Hag.
Qed.

(* ... and therefore also for the code as it is, when the mask is None or a bool array *)
Theorem masked_sites_irrelevant_bool_masks : forall inp inp',
  bool_form (vi_site_mask inp) -> bool_form (vi_site_mask inp') ->
  vi_contig inp = vi_contig inp' -> vi_ploidies inp = vi_ploidies inp' ->
  vi_allow_position_zero inp = vi_allow_position_zero inp' ->
  mask_bools (length (vi_sites inp)) (vi_site_mask inp) = mask_bools (length (vi_sites inp')) (vi_site_mask inp') ->
  agree (vi_sites inp) (vi_sites inp') (mask_bools (length (vi_sites inp)) (vi_site_mask inp)) ->
  vcf_body_pinned inp = vcf_body_pinned inp'.
Proof.
  intros inp inp' B B' Hc Hp Ha Hm Hag. rewrite !bool_masks_as_fixed by assumption.
  apply masked_sites_irrelevant_fixed; assumption.
Qed.

(* ---- the code as it is: refuted for the other mask forms (finding F6) ---- *)

Definition site0 (pos : Z) : site_data := mk_site pos [[65]; [84]] [0; 1] None.   (* A -> T, calls 0 1 *)

Ltac wf_concrete :=
  split; [discriminate | split; [repeat constructor; lia |
    let x := fresh "x" in let Hx := fresh "Hx" in
    intros x Hx; cbn in Hx;
    repeat (destruct Hx as [<- | Hx]; [cbn; split; [reflexivity | discriminate] | ]);
    destruct Hx ]].

(* An integer-array mask [1; 0] masks site 0.  Moving the MASKED site from position 3 to
   position 0 turns the output into a ValueError: `~[1, 0]` = [-2, -1] selects both sites. *)
Theorem masked_site_position_zero_pinned_refuted : exists inp inp',
  vi_contig inp = vi_contig inp' /\ vi_ploidies inp = vi_ploidies inp' /\
  vi_allow_position_zero inp = vi_allow_position_zero inp' /\ vi_site_mask inp = vi_site_mask inp' /\
  agree (vi_sites inp) (vi_sites inp') (mask_bools (length (vi_sites inp)) (vi_site_mask inp)) /\
  wf_input inp /\ wf_input inp' /\
  vcf_body_pinned inp <> vcf_body_pinned inp' /\ vcf_body_fixed inp = vcf_body_fixed inp'.
Proof.
  exists (mk_input [49] [1; 1] [site0 3; site0 5] (MIntArray [1; 0]) false),
         (mk_input [49] [1; 1] [site0 0; site0 5] (MIntArray [1; 0]) false).
  split; [reflexivity|]. split; [reflexivity|]. split; [reflexivity|]. split; [reflexivity|].
  split; [cbn; apply agree_masked, agree_same, agree_nil|].
  split; [wf_concrete|]. split; [wf_concrete|].
  split; [vm_compute; discriminate | vm_compute; reflexivity].
Qed.

(* the converse failure: an UNMASKED site at position 0 is written without the error *)
Theorem unmasked_position_zero_missed_pinned_refuted : exists inp lines,
  wf_input inp /\ vi_allow_position_zero inp = false /\
  In (0, site0 0) (unmasked (vi_sites inp) (mask_bools (length (vi_sites inp)) (vi_site_mask inp))) /\
  vcf_body_pinned inp = Ok lines /\ vcf_body_fixed inp = Err E_VALUE.
Proof.
  exists (mk_input [49] [1; 1] [site0 0; site0 3; site0 7] (MIntArray [0; 1; 0]) false).
  eexists.
  split; [wf_concrete|]. split; [reflexivity|]. split; [cbn; left; reflexivity|].
  split; vm_compute; reflexivity.
Qed.

(* a python list (or tuple) as site_mask: TypeError whenever the check runs at all *)
Theorem list_mask_typeerror_pinned : forall contig ps sites l,
  length l = length sites ->
  vcf_body_pinned (mk_input contig ps sites (MPyList l) false) = Err E_TYPE.
Proof.
  intros. unfold vcf_body_pinned, vcf_body_with. cbn [vi_sites vi_site_mask mask_bools mk_input].
  rewrite H, Nat.eqb_refl. reflexivity.
Qed.

(* ---- the model the correspondence evaluates is the repaired one ---- *)

(* /repo now inverts self.site_mask (regenerated fact c16_poszero_uses_raw_site_mask =
   false); reverting the fix in /repo breaks this lemma and with it the cone. *)
Lemma current_is_fixed : vcf_body_current = vcf_body_fixed.
Proof. reflexivity. Qed.

Theorem vcf_lines_exact_current : forall inp lines, wf_input inp -> vcf_body_current inp = Ok lines ->
  lines = map (fun x => line_text (vi_contig inp) (vi_ploidies inp) (fst x) (snd x))
              (unmasked (vi_sites inp) (mask_bools (length (vi_sites inp)) (vi_site_mask inp))).
Proof. rewrite current_is_fixed. exact vcf_lines_exact_fixed. Qed.

Theorem vcf_body_current_spec : forall inp, wf_input inp -> vcf_body_current inp = spec_body inp.
Proof. rewrite current_is_fixed. exact vcf_body_fixed_spec. Qed.

Theorem masked_sites_irrelevant_current : forall inp inp',
  vi_contig inp = vi_contig inp' -> vi_ploidies inp = vi_ploidies inp' ->
  vi_allow_position_zero inp = vi_allow_position_zero inp' ->
  mask_bools (length (vi_sites inp)) (vi_site_mask inp) = mask_bools (length (vi_sites inp')) (vi_site_mask inp') ->
  agree (vi_sites inp) (vi_sites inp') (mask_bools (length (vi_sites inp)) (vi_site_mask inp)) ->
  vcf_body_current inp = vcf_body_current inp'.
Proof. rewrite current_is_fixed. exact masked_sites_irrelevant_fixed. Qed.

(* non-vacuity of the positive theorems: a wf input with a masked 10-allele site, a
   sample mask and missing data, two individuals of ploidy 2 and 1 *)
Example body_example :
  let many := map (fun k => [97; 48 + k]) [0; 1; 2; 3; 4; 5; 6; 7; 8; 9] in
  let inp := mk_input [49] [2; 1]
               [mk_site 0 many [9; 0; 0] None;
                mk_site 4 [[65]; [84; 84]; []] [1; -1; 2] (Some [false; false; true]);
                mk_site 9 [[71]] [0; 0; 0] None]
               (MBoolArray [true; false; false]) false in
  wf_input inp
  /\ vcf_body_pinned inp = Ok [ [49; 9; 52; 9; 49; 9; 65; 9; 84; 84; 44; 9; 46; 9; 80; 65; 83; 83; 9; 46; 9; 71; 84; 9; 49; 124; 46; 9; 46; 10];
                         [49; 9; 57; 9; 50; 9; 71; 9; 46; 9; 46; 9; 80; 65; 83; 83; 9; 46; 9; 71; 84; 9; 48; 124; 48; 9; 48; 10] ]
  /\ vcf_body_pinned inp = spec_body inp /\ vcf_body_current inp = spec_body inp.
Proof.
  cbv zeta. split; [wf_concrete | split; [|split]; reflexivity].
Qed.
