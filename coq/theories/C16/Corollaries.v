(* C16 — corollaries: exactly one data line per unmasked site (no line lost, none invented),
   and position_transform="legacy" is idempotent (applying it to its own output changes
   nothing). *)
From Coq Require Import List ZArith Bool.
From TskVerif Require Import Base.Common Gen.Generated C16.Model C16.Spec C16.BodyProofs C16.MappingProofs.
Import ListNotations.
Open Scope Z_scope.

Lemma vcf_line_count_proof inp lines : wf_input inp -> vcf_body_current inp = Ok lines ->
  length lines = length (unmasked (vi_sites inp) (mask_bools (length (vi_sites inp)) (vi_site_mask inp))).
Proof.
  intros W R. rewrite (vcf_lines_exact_current inp lines W R). apply map_length.
Qed.

Lemma legacy_idempotent_proof rounded last :
  legacy_transform last (legacy_transform last rounded) = legacy_transform last rounded.
Proof. apply legacy_keeps_increasing. apply legacy_increasing. Qed.
