(* C16 — the top theorem: the lines written for a tree sequence spell, per unmasked site and per
   output column, the genotype the nearest-mutation rule prescribes (C03's decode_follows_rule),
   regrouped by individual; no appeal to genotype_matrix. *)
From Coq Require Import List ZArith Bool Lia.
From TskVerif Require Import Base.Common Gen.Generated.
From TskVerif Require C03.Model C03.Spec C03.DecodeProofs C03.RuleProofs C03.AlleleProofs C03.PaintProofs
  C03.HistoryProofs C03.TotalProofs.
From TskVerif Require Import C16.Model C16.Spec C16.TemplateProofs C16.BodyProofs C16.MappingProofs C16.Decode.
Import ListNotations.
Open Scope Z_scope.

Module S := C03.Spec.

(* ---- taking vcf_end_to_end apart ---- *)

Lemma lift_lib_ok : forall {A} (r : res A) a, lift_lib r = Ok a -> r = Ok a.
Proof. intros A [x| | |] a H; cbn in H; congruence. Qed.

Lemma all_ok_forall2 : forall {A B} (f : A -> res B) l out,
  all_ok (map f l) = Ok out -> Forall2 (fun a b => f a = Ok b) l out.
Proof.
  intros A B f; induction l as [|a l IH]; intros out H; cbn in H.
  - inversion H. constructor.
  - destruct (f a) as [b| | |] eqn:E; cbn in H; try discriminate.
    destruct (all_ok (map f l)) as [r| | |] eqn:E2; cbn in H; try discriminate.
    inversion H; subst. constructor; [exact E|apply IH; reflexivity].
Qed.

Lemma site_of_decode_ok : forall v s sd, site_of_decode v s = Ok sd ->
  exists g al hm, D.decode (D.default_fuel (si_tree s)) (si_tree s) v (si_site s) = Ok (g, al, hm)
                  /\ hm = has_missing g /\ sd = mk_site (si_pos s) al g (si_sample_mask s).
Proof.
  intros v s sd H. unfold site_of_decode in H.
  destruct (lift_lib _) as [[[g al] hm]| | |] eqn:E; cbn [bind] in H; try discriminate.
  apply lift_lib_ok in E.
  destruct (Bool.eqb hm (has_missing g)) eqn:Eh; cbn [negb] in H; [|discriminate].
  apply Bool.eqb_prop in Eh. inversion H. exists g, al, hm. auto.
Qed.

Theorem end_to_end_inversion : forall nodes flags ni ploidy individuals ts_samples ts_map iam contig sites mask apz lines,
  vcf_end_to_end nodes flags ni ploidy individuals ts_samples ts_map iam contig sites mask apz = Ok lines ->
  exists groups v sds,
    make_sample_mapping nodes ni ploidy individuals = Ok groups
    /\ D.variant_init flags ts_samples ts_map (writer_samples nodes individuals groups) None (negb iam) = Ok v
    /\ Forall2 (fun s sd => site_of_decode v s = Ok sd) sites sds
    /\ vcf_body_current (mk_input contig (map zlen groups) sds mask apz) = Ok lines.
Proof.
  intros until lines. intros H. unfold vcf_end_to_end in H.
  destruct (make_sample_mapping _ _ _ _) as [groups| | |] eqn:E1; cbn [bind] in H; try discriminate.
  destruct (init_checks_current _ _ _) as [u| | |]; cbn [bind] in H; try discriminate.
  destruct (lift_lib _) as [v| | |] eqn:E2; cbn [bind] in H; try discriminate.
  apply lift_lib_ok in E2.
  destruct (all_ok _) as [sds| | |] eqn:E3; cbn [bind] in H; try discriminate.
  exists groups, v, sds. repeat split; auto. apply all_ok_forall2. exact E3.
Qed.

(* ---- the layout is never empty ---- *)

Lemma chunk_nonempty : forall fuel p l, (1 <= p)%nat -> l <> [] -> (length l <= fuel)%nat ->
  chunk fuel p l <> [] /\ Forall (fun g => g <> []) (chunk fuel p l).
Proof.
  induction fuel as [|f IH]; intros p l Hp Hl Hf.
  - destruct l; [congruence|cbn in Hf; lia].
  - destruct l as [|a l]; [congruence|]. cbn [chunk]. split; [discriminate|].
    constructor.
    + destruct p; [lia|]. discriminate.
    + destruct (skipn p (a :: l)) as [|b m] eqn:E.
      * destruct f; constructor.
      * apply IH; [exact Hp|discriminate|].
        rewrite <- E, skipn_length. cbn [length] in *. lia.
Qed.

Lemma groups_nonempty : forall nodes ni ploidy individuals groups,
  make_sample_mapping nodes ni ploidy individuals = Ok groups ->
  groups <> [] /\ Forall (fun g => g <> []) groups.
Proof.
  intros nodes ni ploidy individuals groups H.
  assert (forall inds, inds <> [] -> groups_of_individuals nodes ni inds = Ok groups ->
            groups <> [] /\ Forall (fun g => g <> []) groups) as Hind.
  { intros inds Hne Hg. apply groups_of_individuals_spec in Hg as [-> [_ Hf]]. split.
    - destruct inds; [congruence|discriminate].
    - eapply Forall_impl; [|exact Hf]. intros g [Hg _]; exact Hg. }
  unfold make_sample_mapping in H.
  destruct ((0 <? ni) && _); [discriminate|].
  destruct individuals as [[|i inds]|]; cbn [bind] in H; try discriminate.
  - apply (Hind (i :: inds)); [discriminate|exact H].
  - destruct (unique_sorted _) as [|u0 us] eqn:Eu; cbn [bind] in H; [discriminate|].
    assert ((exists l, l <> [] /\ groups_of_individuals nodes ni l = Ok groups) \/
            (exists p, (1 <= p)%nat /\ sample_ids nodes <> [] /\
                       groups = chunk (length (sample_ids nodes)) p (sample_ids nodes))) as [[l [Hl Hg]]|[p [Hp [Hs Hg]]]].
    { destruct us as [|u1 us'].
      - destruct (u0 =? -1) eqn:E0; cbn [bind] in H.
        + right. set (p := match ploidy with Some p => p | None => 1 end) in *.
          destruct (p <? 1) eqn:Ep; [discriminate|]. apply Z.ltb_ge in Ep.
          destruct (negb _); [discriminate|]. exists (Z.to_nat p). split; [lia|]. split; [|congruence].
          intros Es. rewrite Es in Eu. discriminate.
        + left. exists [u0]. split; [discriminate|exact H].
      - destruct (u0 =? -1); cbn [bind] in H; [discriminate|].
        left. exists (u0 :: u1 :: us'). split; [discriminate|exact H]. }
    + apply (Hind l); assumption.
    + subst groups. apply chunk_nonempty; auto.
Qed.

Lemma total_calls_zlen : forall groups : list (list Z), total_calls (map zlen groups) = length (concat groups).
Proof.
  induction groups as [|g gs IH]; [reflexivity|]. cbn [map concat]. rewrite total_calls_cons, app_length, IH.
  unfold zlen. rewrite Nat2Z.id. reflexivity.
Qed.

Lemma in_unmasked : forall (sites : list site_data) mask id x, In x (unmasked_from id sites mask) -> In (snd x) sites.
Proof.
  unfold unmasked_from. induction sites as [|s sites IH]; intros [|b mask] id x H; cbn in H; try contradiction.
  destruct b; cbn in H.
  - right. eapply IH; eauto.
  - destruct H as [<-|H]; [left; reflexivity|right; eapply IH; eauto].
Qed.

Lemma variant_init_fields : forall flags ts_samples ts_map sa imp v,
  D.variant_init flags ts_samples ts_map sa None imp = Ok v ->
  D.v_impute v = imp /\ D.v_user_alleles v = None
  /\ D.v_samples v = match sa with Some ss => ss | None => ts_samples end.
Proof.
  intros flags ts_samples ts_map sa imp v H. unfold D.variant_init in H. cbn [bind] in H.
  destruct sa as [ss|].
  - destruct (D.init_index_map _ _ _ _ _) as [m| | |]; cbn [bind] in H; try discriminate.
    inversion H; subst. cbn. auto.
  - inversion H; subst. cbn. auto.
Qed.

Lemma forall2_impl_in : forall {A B} (P Q : A -> B -> Prop) l m,
  (forall a b, In a l -> In b m -> P a b -> Q a b) -> Forall2 P l m -> Forall2 Q l m.
Proof.
  intros A B P Q l m H F. induction F as [|a b l m Hab F IH]; constructor.
  - apply H; [left; reflexivity|left; reflexivity|exact Hab].
  - apply IH. intros a' b' Ha Hb. apply H; right; assumption.
Qed.

Lemma forall2_in_r : forall {A B} (P : A -> B -> Prop) l m b, Forall2 P l m -> In b m -> exists a, In a l /\ P a b.
Proof.
  intros A B P l m b F. induction F as [|a b' l m Hab F IH]; intros H; [destruct H|].
  destruct H as [<-|H]; [exists a; split; [left; reflexivity|exact Hab]|].
  destruct (IH H) as [a' [Ha Hp]]. exists a'. split; [right; exact Ha|exact Hp].
Qed.

(* the variant decodes exactly the written columns *)
Lemma columns_ok : forall nodes flags ni ploidy individuals ts_map imp groups v,
  make_sample_mapping nodes ni ploidy individuals = Ok groups ->
  D.variant_init flags (sample_ids nodes) ts_map (writer_samples nodes individuals groups) None imp = Ok v ->
  D.v_samples v = concat groups /\ D.v_user_alleles v = None.
Proof.
  intros nodes flags ni ploidy individuals ts_map imp groups v Hm Hv.
  destruct (variant_init_fields _ _ _ _ _ _ Hv) as [_ [Hua Hs]]. split; [|exact Hua].
  rewrite Hs. unfold writer_samples in *. destruct individuals as [inds|]; [reflexivity|].
  destruct (zlist_eqb _ [-1]) eqn:E; [|reflexivity].
  apply (proj1 (list_eqb_eq Z.eqb Z.eqb_eq _ _)) in E.
  unfold make_sample_mapping in Hm. destruct ((0 <? ni) && _); [discriminate|].
  rewrite E in Hm. cbn [bind] in Hm. rewrite Z.eqb_refl in Hm. cbn [bind] in Hm.
  set (p := match ploidy with Some p => p | None => 1 end) in *.
  destruct (p <? 1) eqn:Ep; [discriminate|]. apply Z.ltb_ge in Ep.
  destruct (negb _); [discriminate|]. inversion Hm. symmetry. apply chunk_concat; lia.
Qed.

(* ---- the top theorem ---- *)

Section Top.
  Variables (nodes : list node_info) (flags : list Z) (ni : Z) (ploidy : option Z) (individuals : option (list Z)).
  Variables (ts_map : list Z) (iam : bool) (contig : bytes) (sites : list site_in).
  Let ts_samples := sample_ids nodes.      (* ts.samples(): the sample nodes by increasing id *)
  Variables (mask : mask_arg) (apz : bool) (lines : list bytes).
  (* the abstract forest at every site, its height bound, the number of nodes *)
  Variables (par_of : site_in -> Z -> option Z) (N : Z) (h : nat).

  Hypothesis run : vcf_end_to_end nodes flags ni ploidy individuals ts_samples ts_map iam contig sites mask apz = Ok lines.
  (* C03's hypotheses: at every site the tree arrays represent the forest (C01/C06), the
     mutations are in range and ordered as a valid tree sequence has them *)
  Hypothesis trees_ok : forall v s, In s sites ->
    S.tree_rep (par_of s) (D.default_fuel (si_tree s)) (si_tree s) v N
    /\ C03.DecodeProofs.muts_in_range N (si_site s)
    /\ S.order_ok (par_of s) (D.s_mutations (si_site s))
    /\ (forall u, S.depth_le (par_of s) h u).

  Theorem vcf_spells_nearest_mutation :
    exists groups sds,
      make_sample_mapping nodes ni ploidy individuals = Ok groups
      /\ lines = map (fun x => line_text contig (map zlen groups) (fst x) (snd x))
                     (unmasked sds (mask_bools (length sds) mask))
      /\ Forall2 (fun s sd =>
           sd_pos sd = si_pos s /\ sd_sample_mask sd = si_sample_mask s
           /\ length (sd_genotypes sd) = length (concat groups)
           /\ forall k u, get (concat groups) k = Ok u ->
                exists r, S.nearest (par_of s) (D.s_mutations (si_site s)) u r /\
                  let missing := iam = true /\ S.isolated (par_of s) u
                                 /\ S.has_mut_on (D.s_mutations (si_site s)) u = false in
                  let state := S.state_of (D.s_ancestral (si_site s)) r in
                  (missing /\ get (sd_genotypes sd) k = Ok (-1)) \/
                  (~ missing /\ get (sd_genotypes sd) k = Ok (D.allele_index (sd_alleles sd) state)
                   /\ get (sd_alleles sd) (D.allele_index (sd_alleles sd) state) = Ok state))
         sites sds.
  Proof.
    destruct (end_to_end_inversion _ _ _ _ _ _ _ _ _ _ _ _ _ run) as [groups [v [sds [Hm [Hv [Hf Hb]]]]]].
    destruct (columns_ok _ _ _ _ _ _ _ _ _ Hm Hv) as [Hcols Hua].
    destruct (variant_init_fields _ _ _ _ _ _ Hv) as [Himp _].
    destruct (groups_nonempty _ _ _ _ _ Hm) as [Hgne Hgall].
    exists groups, sds. split; [exact Hm|].
    (* what each decoded site satisfies *)
    assert (Forall2 (fun s sd => In s sites /\ exists g al hm,
               D.decode (D.default_fuel (si_tree s)) (si_tree s) v (si_site s) = Ok (g, al, hm)
               /\ sd = mk_site (si_pos s) al g (si_sample_mask s)) sites sds) as Hdec.
    { eapply forall2_impl_in; [|exact Hf]. intros s sd Hs _ Hsd. split; [exact Hs|].
      destruct (site_of_decode_ok _ _ _ Hsd) as [g [al [hm [Hd [_ ->]]]]]. eauto. }
    split.
    - apply (vcf_lines_exact_current (mk_input contig (map zlen groups) sds mask apz)); [|exact Hb].
      split; [|split].
      + cbn. destruct groups; [congruence|discriminate].
      + cbn. apply Forall_forall. intros p Hp. apply in_map_iff in Hp as [g [<- Hg]].
        eapply Forall_forall in Hgall; eauto. unfold zlen. destruct g; [congruence|cbn; lia].
      + cbn [vi_sites vi_ploidies vi_site_mask mk_input]. intros x Hx.
        rewrite unmasked_is_from0 in Hx. apply in_unmasked in Hx.
        destruct (forall2_in_r _ _ _ _ Hdec Hx) as [s [Hs [_ [g [al [hm [Hd Hsd]]]]]]].
        destruct (trees_ok v s Hs) as [Htr [Hmr _]].
        destruct (C03.RuleProofs.has_missing_data_exact_l _ _ _ _ _ _ Htr Hmr _ _ _ Hd) as [Hlen _].
        destruct (C03.RuleProofs.alleles_first_is_ancestral_l _ _ _ _ _ _ _ _ Hua Hd) as [_ [[rest Hal] _]].
        rewrite Hsd. cbn. split.
        * rewrite total_calls_zlen, Hlen, Hcols. reflexivity.
        * rewrite Hal. discriminate.
    - eapply forall2_impl_in; [|exact Hdec]. intros s sd Hs _ [_ [g [al [hm [Hd ->]]]]].
      destruct (trees_ok v s Hs) as [Htr [Hmr [Hord Hdep]]].
      destruct (C03.RuleProofs.has_missing_data_exact_l _ _ _ _ _ _ Htr Hmr _ _ _ Hd) as [Hlen _].
      cbn. repeat split; try reflexivity.
      + rewrite Hlen, Hcols. reflexivity.
      + intros k u Hk. rewrite <- Hcols in Hk.
        destruct (C03.RuleProofs.decode_follows_rule_l _ _ _ _ _ _ _ Htr Hmr Hord Hdep _ _ _ Hd k u Hk)
          as [r [Hr Hcase]].
        exists r. split; [exact Hr|]. cbv zeta in *. rewrite Himp in Hcase.
        assert (negb iam = false <-> iam = true) as Hi by (destruct iam; cbn; intuition discriminate).
        destruct Hcase as [[[H1 [H2 H3]] Hg]|[Hn Hg]].
        * left. split; [split; [apply Hi; exact H1|split; assumption]|exact Hg].
        * right. split; [|exact Hg]. intros [H1 [H2 H3]]. apply Hn. split; [apply Hi; exact H1|split; assumption].
  Qed.
End Top.
