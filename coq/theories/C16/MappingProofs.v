(* C16 — the sample-to-individual mapping: the GT columns are regrouped, in order, into
   consecutive runs; header facts. *)
From Coq Require Import List ZArith Bool Lia Sorting.Sorted.
From TskVerif Require Import Base.Common Gen.Generated C16.Model C16.Spec C16.TemplateProofs.
Import ListNotations.
Open Scope Z_scope.

(* ---- the ploidy path: consecutive chunks of the sample list ---- *)

Lemma chunk_concat : forall fuel p l, (1 <= p)%nat -> (length l <= fuel)%nat ->
  concat (chunk fuel p l) = l.
Proof.
  induction fuel as [|f IH]; intros p l Hp Hl.
  - destruct l; [reflexivity|cbn in Hl; lia].
  - destruct l as [|a l]; [reflexivity|].
    cbn [chunk concat]. rewrite IH; [apply firstn_skipn|assumption|].
    rewrite skipn_length. cbn [length] in *. lia.
Qed.

Lemma chunk_lengths : forall fuel p l k, (1 <= p)%nat -> (length l <= fuel)%nat -> length l = (k * p)%nat ->
  Forall (fun g => length g = p) (chunk fuel p l).
Proof.
  induction fuel as [|f IH]; intros p l k Hp Hl Hk; [constructor|].
  destruct l as [|a l]; [constructor|].
  cbn [chunk]. destruct k as [|k]; [cbn in Hk; discriminate|].
  constructor.
  - rewrite firstn_length. cbn [length] in *. nia.
  - apply (IH p _ k); [assumption| |]; rewrite skipn_length; cbn [length] in *; nia.
Qed.

Lemma insert_unique_same : forall x, insert_unique x [x] = [x].
Proof. intros x. cbn. rewrite Z.ltb_irrefl, Z.eqb_refl. reflexivity. Qed.

Lemma unique_all_same : forall x l, l <> [] -> Forall (fun y => y = x) l -> unique_sorted l = [x].
Proof.
  intros x; induction l as [|y l IH]; intros Hne HF; [congruence|].
  inversion HF as [|? ? Hy HF']; subst. unfold unique_sorted in *. cbn [fold_right].
  destruct l as [|z l]; [reflexivity|]. rewrite IH by (try discriminate; assumption).
  apply insert_unique_same.
Qed.

Definition node_individual (nodes : list node_info) (s : Z) : Z :=
  match nth_error nodes (Z.to_nat s) with Some (_, i) => i | None => -1 end.

(* No sample refers to an individual: the samples are regrouped, in order, in runs of
   [ploidy] (default 1). *)
Theorem mapping_ploidy_partition : forall nodes ni ploidy groups,
  Forall (fun s => node_individual nodes s = -1) (sample_ids nodes) ->
  make_sample_mapping nodes ni ploidy None = Ok groups ->
  concat groups = sample_ids nodes
  /\ exists p, 1 <= p /\ (match ploidy with Some q => p = q | None => p = 1 end)
               /\ Forall (fun g => zlen g = p) groups.
Proof.
  intros nodes ni ploidy groups Hnone H. unfold make_sample_mapping in H.
  destruct ((0 <? ni) && match ploidy with Some _ => true | None => false end); [discriminate|].
  fold (node_individual nodes) in H.
  destruct (sample_ids nodes) as [|s0 ss] eqn:ES; [discriminate|].
  rewrite (unique_all_same (-1)) in H.
  2: discriminate.
  2:{ apply Forall_forall. intros y Hy. apply in_map_iff in Hy as [s [<- Hs]].
      eapply Forall_forall in Hnone; eauto. }
  cbv beta iota in H. rewrite Z.eqb_refl in H. cbn [bind] in H.
  set (p := match ploidy with Some p => p | None => 1 end) in *.
  destruct (p <? 1) eqn:Ep; [discriminate|]. apply Z.ltb_ge in Ep.
  destruct (zlen (s0 :: ss) mod p =? 0) eqn:Em; cbn [negb] in H; [|discriminate].
  apply Z.eqb_eq in Em.
  assert (groups = chunk (length (s0 :: ss)) (Z.to_nat p) (s0 :: ss)) as -> by congruence. clear H.
  split.
  - apply chunk_concat; lia.
  - exists p. split; [exact Ep|]. split; [subst p; destruct ploidy; reflexivity|].
    apply Z.mod_divide in Em; [|lia]. destruct Em as [c Hc].
    assert (0 <= c) as Hc0 by (unfold zlen in Hc; nia).
    eapply Forall_impl; [|apply (chunk_lengths _ _ _ (Z.to_nat c)); try lia].
    + intros g Hg. unfold zlen. rewrite Hg. lia.
    + unfold zlen in Hc. nia.
Qed.

(* ---- the individuals path ---- *)

Definition uniform_flags (nodes : list node_info) (g : list Z) : Prop :=
  let flags := map (fun u => match nth_error nodes (Z.to_nat u) with Some (s, _) => s | None => false end) g in
  existsb (fun b => b) flags && existsb negb flags = false.

Lemma individual_rejected_uniform : forall flags,
  individual_rejected flags = false -> existsb (fun b => b) flags && existsb negb flags = false.
Proof.
  intros flags. unfold individual_rejected. destruct c16_individuals_must_be_samples; intros H.
  - rewrite H. apply andb_false_r.
  - exact H.
Qed.

Lemma groups_of_individuals_spec : forall nodes ni inds groups,
  groups_of_individuals nodes ni inds = Ok groups ->
  groups = map (individual_nodes nodes) inds
  /\ Forall (fun i => 0 <= i < ni) inds
  /\ Forall (fun g => g <> [] /\ uniform_flags nodes g) groups.
Proof.
  intros nodes ni; induction inds as [|i inds IH]; intros groups H; cbn [groups_of_individuals] in H.
  - inversion H. repeat split; constructor.
  - destruct ((i <? 0) || (ni <=? i)) eqn:Ei; [discriminate|].
    apply orb_false_iff in Ei as [E1 E2]. apply Z.ltb_ge in E1. apply Z.leb_gt in E2.
    destruct (individual_nodes nodes i) as [|u us] eqn:En; [discriminate|].
    destruct (individual_rejected _) eqn:Ef; [discriminate|]. apply individual_rejected_uniform in Ef.
    destruct (groups_of_individuals nodes ni inds) as [r| | |] eqn:Er; try discriminate.
    cbn [bind] in H. inversion H; subst groups.
    destruct (IH r eq_refl) as [H1 [H2 H3]]. subst r.
    repeat split.
    + cbn [map]. rewrite En. reflexivity.
    + constructor; [lia|assumption].
    + constructor; [|assumption]. split; [discriminate|exact Ef].
Qed.

(* Explicit individuals: the columns are the nodes of the listed individuals, in the
   listed order, every group non-empty and of one kind (all samples or all non-samples). *)
Theorem mapping_individuals : forall nodes ni ploidy inds groups,
  make_sample_mapping nodes ni ploidy (Some inds) = Ok groups ->
  inds <> [] /\ groups = map (individual_nodes nodes) inds
  /\ Forall (fun i => 0 <= i < ni) inds
  /\ Forall (fun g => g <> [] /\ uniform_flags nodes g) groups.
Proof.
  intros nodes ni ploidy inds groups H. unfold make_sample_mapping in H.
  destruct ((0 <? ni) && match ploidy with Some _ => true | None => false end); [discriminate|].
  destruct inds as [|i inds]; [discriminate|]. cbn [bind] in H.
  split; [discriminate|]. apply groups_of_individuals_spec. exact H.
Qed.

(* ---- the default: all individuals referred to by sample nodes, by increasing id ---- *)

Fixpoint strictly_sorted (l : list Z) : Prop :=
  match l with
  | [] => True
  | x :: t => match t with [] => True | y :: _ => x < y end /\ strictly_sorted t
  end.

Lemma insert_unique_in : forall x y l, In y (insert_unique x l) <-> y = x \/ In y l.
Proof.
  intros x y; induction l as [|h t IH]; cbn; [intuition|].
  destruct (x <? h) eqn:E1; [cbn; intuition|].
  destruct (x =? h) eqn:E2; [apply Z.eqb_eq in E2; subst; cbn; intuition|].
  cbn. rewrite IH. intuition.
Qed.

Lemma insert_unique_sorted : forall x l, strictly_sorted l -> strictly_sorted (insert_unique x l).
Proof.
  intros x; induction l as [|h t IH]; intros H; [cbn; auto|].
  cbn [insert_unique]. destruct (x <? h) eqn:E1.
  - apply Z.ltb_lt in E1. cbn. cbn in H. intuition.
  - destruct (x =? h) eqn:E2; [exact H|].
    apply Z.ltb_ge in E1. apply Z.eqb_neq in E2.
    cbn in H. destruct H as [H1 H2]. specialize (IH H2).
    cbn [strictly_sorted]. split; [|exact IH].
    destruct t as [|y t']; cbn [insert_unique].
    + lia.
    + destruct (x <? y); [lia|]. destruct (x =? y); [exact H1|exact H1].
Qed.

Theorem unique_sorted_spec : forall l,
  strictly_sorted (unique_sorted l) /\ (forall y, In y (unique_sorted l) <-> In y l).
Proof.
  induction l as [|x l [IH1 IH2]]; [split; [exact I|intuition]|].
  unfold unique_sorted in *. cbn [fold_right]. split.
  - apply insert_unique_sorted. exact IH1.
  - intros y. rewrite insert_unique_in, IH2. cbn. intuition.
Qed.

(* individuals=None and the samples refer to individuals (none to NULL, which would sort
   first): the layout is that of the sorted distinct individual ids *)
Theorem mapping_default_individuals : forall nodes ni u0 us,
  unique_sorted (map (node_individual nodes) (sample_ids nodes)) = u0 :: us -> u0 <> -1 ->
  make_sample_mapping nodes ni None None = groups_of_individuals nodes ni (u0 :: us).
Proof.
  intros nodes ni u0 us Hu Hn. unfold make_sample_mapping. rewrite andb_false_r.
  fold (node_individual nodes). rewrite Hu.
  apply Z.eqb_neq in Hn. destruct us; rewrite Hn; reflexivity.
Qed.

(* ---- header ---- *)

Lemma default_names_length : forall n, length (default_names n) = n.
Proof. intros n. unfold default_names. rewrite map_length, seq_length. reflexivity. Qed.

Theorem header_names_spec : forall given n,
  header_names given n =
    match given with
    | None => Ok (default_names n)
    | Some l => if Nat.eqb (length l) n then Ok l else Err E_VALUE
    end.
Proof.
  intros [l|] n; unfold header_names; [reflexivity|].
  rewrite default_names_length, Nat.eqb_refl. reflexivity.
Qed.

Theorem chrom_line_names : forall names, names <> [] ->
  chrom_line names =
  join_with TAB ([[35; 67; 72; 82; 79; 77]; [80; 79; 83]; [73; 68]; [82; 69; 70]; [65; 76; 84];
                  [81; 85; 65; 76]; [70; 73; 76; 84; 69; 82]; [73; 78; 70; 79]; [70; 79; 82; 77; 65; 84]] ++ names).
Proof.
  intros [|n0 ns] H; [congruence|]. reflexivity.
Qed.

Theorem contig_length_spec : forall tl pos,
  contig_length tl pos = Z.max (last pos 1) (Z.max 1 tl) \/ (pos = [] /\ contig_length tl pos = Z.max 1 tl).
Proof.
  intros tl pos. unfold contig_length. destruct pos as [|p pos] using rev_ind.
  - right. split; reflexivity.
  - left. rewrite rev_app_distr. cbn [rev app]. rewrite last_last. reflexivity.
Qed.

(* ---- legacy_position_transform: strictly increasing positions starting above 0 ---- *)

Fixpoint increasing_from (last : Z) (l : list Z) : Prop :=
  match l with [] => True | p :: t => last < p /\ increasing_from p t end.

Theorem legacy_increasing : forall rounded last, increasing_from last (legacy_transform last rounded).
Proof.
  induction rounded as [|p t IH]; intros last; cbn [legacy_transform increasing_from]; [exact I|].
  split; [|apply IH]. destruct (p <=? last) eqn:E; [lia|apply Z.leb_gt in E; lia].
Qed.

Theorem legacy_keeps_increasing : forall rounded last, increasing_from last rounded ->
  legacy_transform last rounded = rounded.
Proof.
  induction rounded as [|p t IH]; intros last H; [reflexivity|]. cbn in *. destruct H as [H1 H2].
  destruct (p <=? last) eqn:E; [apply Z.leb_le in E; lia|]. rewrite IH by assumption. reflexivity.
Qed.

(* The ##contig length covers every written POS whenever the transformed positions are
   non-decreasing (site positions increase; numpy.round, the legacy transform and every monotone
   callable keep the order), and it is at least 1 and at least the transformed sequence length. *)
Lemma sorted_app_last : forall l x, StronglySorted Z.le (l ++ [x]) -> Forall (fun p => p <= x) (l ++ [x]).
Proof.
  induction l as [|a l IH]; intros x H; cbn in *.
  - constructor; [lia|constructor].
  - inversion H as [|? ? Hs Hall]; subst. constructor.
    + eapply Forall_forall in Hall; [exact Hall|]. apply in_or_app; right; left; reflexivity.
    + apply IH. exact Hs.
Qed.

Theorem contig_covers_positions : forall tl pos, StronglySorted Z.le pos ->
  Forall (fun p => p <= contig_length tl pos) pos
  /\ 1 <= contig_length tl pos /\ tl <= contig_length tl pos.
Proof.
  intros tl pos H. unfold contig_length. destruct pos as [|x l] using rev_ind.
  - cbn. repeat split; [constructor|lia|lia].
  - rewrite rev_app_distr. cbn [rev app]. repeat split; try lia.
    eapply Forall_impl; [|apply sorted_app_last; exact H]. intros p Hp. cbv beta in Hp. lia.
Qed.

(* the legacy transform produces such positions (strictly increasing, above 0) *)
Lemma increasing_from_sorted : forall l last, increasing_from last l -> StronglySorted Z.le l /\ Forall (fun p => last < p) l.
Proof.
  induction l as [|p t IH]; intros last H; [split; constructor|].
  cbn in H. destruct H as [H1 H2]. destruct (IH p H2) as [Hs Hf]. split.
  - constructor; [exact Hs|]. eapply Forall_impl; [|exact Hf]. intros q Hq. cbv beta in Hq. lia.
  - constructor; [exact H1|]. eapply Forall_impl; [|exact Hf]. intros q Hq. cbv beta in Hq. lia.
Qed.

Theorem legacy_contig_covers : forall rounded tl,
  let pos := legacy_transform 0 rounded in
  Forall (fun p => 1 <= p <= contig_length tl pos) pos.
Proof.
  intros rounded tl pos.
  destruct (increasing_from_sorted pos 0 (legacy_increasing rounded 0)) as [Hs Hf].
  destruct (contig_covers_positions tl pos Hs) as [Hc _].
  apply Forall_forall. intros p Hp. split.
  - eapply Forall_forall in Hf; eauto. cbv beta in Hf. lia.
  - eapply Forall_forall in Hc; eauto.
Qed.

Example contig_example : contig_length 10 [0; 3; 12] = 12 /\ contig_length 0 [] = 1
  /\ legacy_transform 0 [0; 0; 9] = [1; 2; 9] /\ contig_length 5 (legacy_transform 0 [0; 0; 9]) = 9.
Proof. repeat split. Qed.

Example legacy_example : legacy_transform 0 [0; 0; 1; 5; 5; 4] = [1; 2; 3; 5; 6; 7].
Proof. reflexivity. Qed.

Example chunks_example : chunks [2; 1; 3]%nat [10; 11; 12; 13; 14; 15] = [[10; 11]; [12]; [13; 14; 15]].
Proof. reflexivity. Qed.

Example mapping_examples :
  let nodes := [(true, 1); (true, 0); (true, 1); (false, -1); (true, 0); (false, 2)] in
  make_sample_mapping nodes 3 None None = Ok [[1; 4]; [0; 2]]
  /\ make_sample_mapping nodes 3 None (Some [1; 0]) = Ok [[0; 2]; [1; 4]]
  /\ make_sample_mapping nodes 3 None (Some [2])
     = (if c16_individuals_must_be_samples then Err E_VALUE else Ok [[5]])   (* all non-sample *)
  /\ make_sample_mapping nodes 3 (Some 2) None = Err E_VALUE
  /\ make_sample_mapping [(true, -1); (true, -1); (false, -1); (true, -1); (true, -1)] 0 (Some 2) None
     = Ok [[0; 1]; [3; 4]]
  /\ make_sample_mapping [(false, -1)] 0 None None = Err zero_samples_error.
Proof. repeat split. Qed.
