(* C16 — what the VCF body should be, written directly from the property text
   (definitions only; the theorems relating it to the model of the code are in
   TemplateProofs.v / BodyProofs.v). *)
From Coq Require Import List ZArith Bool Lia.
From TskVerif Require Import Base.Common Gen.Generated C16.Model.
Import ListNotations.
Open Scope Z_scope.

(* one haploid call: '.' when masked or missing, else the allele index as a digit *)
Definition gt_char (masked : bool) (a : Z) : Z :=
  if masked || (a =? -1) then DOT else a + 48.

Fixpoint call_chars (g : list Z) (m : list bool) : list Z :=
  match g, m with
  | a :: g', b :: m' => gt_char b a :: call_chars g' m'
  | _, _ => []
  end.

(* regroup the output columns by individual: consecutive runs of the given lengths *)
Fixpoint chunks {A} (ps : list nat) (l : list A) : list (list A) :=
  match ps with
  | [] => []
  | p :: ps' => firstn p l :: chunks ps' (skipn p l)
  end.

(* the GT field of one individual: its calls joined by '|' (phased) *)
Definition gt_field (calls : list Z) : bytes := join_with BAR (map (fun c => [c]) calls).

Definition site_mask_row (s : site_data) : list bool :=
  match sd_sample_mask s with
  | Some m => m
  | None => repeat false (length (sd_genotypes s))
  end.

Definition alt_field (alleles : list bytes) : bytes :=
  match alleles with
  | _ :: (_ :: _) as rest => join_with COMMA rest
  | _ => DOT_S
  end.

(* the text of the data line of site [id]:
   CHROM POS ID REF ALT . PASS . GT <one field per individual>, tab separated, newline *)
Definition line_text (contig : bytes) (ploidies : list Z) (id : Z) (s : site_data) : bytes :=
  join_with TAB ([contig; dec (sd_pos s); dec id; hd [] (sd_alleles s); alt_field (sd_alleles s);
                  DOT_S; PASS_S; DOT_S; GT_S]
                 ++ map gt_field (chunks (map Z.to_nat ploidies)
                                         (call_chars (sd_genotypes s) (site_mask_row s))))
  ++ [NL].

(* the errors a site may raise when it is written *)
Definition site_error (s : site_data) : bool :=
  (c16_max_alleles <? zlen (sd_alleles s))
  || match sd_sample_mask s with
     | Some m => negb (Nat.eqb (length m) (length (sd_genotypes s)))
     | None => false
     end.

(* the unmasked sites with their ids, in site order *)
Definition unmasked (sites : list site_data) (mask : list bool) : list (Z * site_data) :=
  map fst (filter (fun x => negb (snd x)) (combine (enumerate_from 0 sites) mask)).

Definition spec_body (inp : vcf_input) : res (list bytes) :=
  let n := length (vi_sites inp) in
  let mask := mask_bools n (vi_site_mask inp) in
  if negb (Nat.eqb (length mask) n) then Err E_VALUE else
  let um := unmasked (vi_sites inp) mask in
  if negb (vi_allow_position_zero inp) && existsb (fun x => sd_pos (snd x) =? 0) um then Err E_VALUE else
  if existsb (fun x => site_error (snd x)) um then Err E_VALUE else
  Ok (map (fun x => line_text (vi_contig inp) (vi_ploidies inp) (fst x) (snd x)) um).

(* well-formed layout and unmasked sites: what VcfWriter.__init__ /
   ts.variants(samples=...) guarantee *)
Definition total_calls (ploidies : list Z) : nat := fold_right (fun p acc => (Z.to_nat p + acc)%nat) O ploidies.

Definition wf_input (inp : vcf_input) : Prop :=
  vi_ploidies inp <> [] /\ Forall (fun p => 1 <= p) (vi_ploidies inp)
  /\ forall x, In x (unmasked (vi_sites inp) (mask_bools (length (vi_sites inp)) (vi_site_mask inp))) ->
       length (sd_genotypes (snd x)) = total_calls (vi_ploidies inp) /\ sd_alleles (snd x) <> [].
