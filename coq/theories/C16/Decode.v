(* C16 — end to end: tables + tree state -> VCF body, composing
     C16.Model.make_sample_mapping        (VcfWriter.__make_sample_mapping)
     C03.Model.variant_init / decode      (tsk_variant_init / tsk_variant_decode, property C03)
     C16.Model.vcf_body_current           (VcfWriter.__init__ checks + write)
   so that the genotypes, the alleles and has_missing_data are no longer inputs of the VCF
   model but computed by the C03 model from the site's mutations and the tree at the site
   (the tree arrays themselves are property C01's subject and an input here).
   Definitions only; evaluated by the `decoded` family of harness/props/c16.py. *)
From Coq Require Import List ZArith Bool Lia.
From TskVerif Require Import Base.Common Gen.Generated.
From TskVerif Require C03.Model.
From TskVerif Require Import C16.Model.
Import ListNotations.
Open Scope Z_scope.

Module D := C03.Model.

Definition E_LIBRARY : Z := 4.    (* tskit.LibraryError (any negative tsk error code) *)
Definition E_INTERNAL : Z := 99.  (* the two models disagree about has_missing_data *)

(* self.samples: None on the ploidy path, the concatenated ind.nodes otherwise *)
Definition writer_samples (nodes : list node_info) (individuals : option (list Z)) (groups : list (list Z))
  : option (list Z) :=
  let refs := unique_sorted (map (fun s => match nth_error nodes (Z.to_nat s) with
                                           | Some (_, i) => i | None => -1 end) (sample_ids nodes)) in
  match individuals with
  | Some _ => Some (concat groups)
  | None => if zlist_eqb refs [-1] then None else Some (concat groups)
  end.

Record site_in : Type := {
  si_tree : D.tree;                 (* the tree covering the site (sample lists enabled) *)
  si_site : D.site;                 (* ancestral state + (node, derived state) in table order *)
  si_pos : Z;                       (* transformed position *)
  si_sample_mask : option (list bool)
}.

Definition lift_lib {A} (r : res A) : res A :=
  match r with Err _ => Err E_LIBRARY | x => x end.

(* one Variant as VcfWriter.write sees it: genotypes, alleles[:num_alleles]; the
   has_missing_data flag of the decoder must be what the writer's model derives *)
Definition site_of_decode (v : D.variant) (s : site_in) : res site_data :=
  do '(g, alleles, hm) <- lift_lib (D.decode (D.default_fuel (si_tree s)) (si_tree s) v (si_site s));
  if negb (Bool.eqb hm (has_missing g)) then Err E_INTERNAL
  else Ok (mk_site (si_pos s) alleles g (si_sample_mask s)).

Fixpoint all_ok {A} (l : list (res A)) : res (list A) :=
  match l with
  | [] => Ok []
  | r :: t => do x <- r; do y <- all_ok t; Ok (x :: y)
  end.

(* the checks of VcfWriter.__init__ that come before ts.variants(...) is entered: mask shape,
   position zero (the same components vcf_body_current uses) *)
Definition init_checks_current (positions : list Z) (m : mask_arg) (allow_position_zero : bool) : res unit :=
  let n := length positions in
  if negb (Nat.eqb (length (mask_bools n m)) n) then Err E_VALUE else
  position_zero_check allow_position_zero
    ((if c16_poszero_uses_raw_site_mask then selected_positions_as_coded else selected_positions_fixed)
       positions m).

Definition vcf_end_to_end
    (nodes : list node_info) (flags : list Z) (num_individuals : Z)
    (ploidy : option Z) (individuals : option (list Z))
    (ts_samples ts_index_map : list Z) (isolated_as_missing : bool)
    (contig : bytes) (sites : list site_in) (mask : mask_arg) (allow_position_zero : bool)
  : res (list bytes) :=
  do groups <- make_sample_mapping nodes num_individuals ploidy individuals;
  do _ <- init_checks_current (map si_pos sites) mask allow_position_zero;
  do v <- lift_lib (D.variant_init flags ts_samples ts_index_map (writer_samples nodes individuals groups)
                                   None (negb isolated_as_missing));
  do sds <- all_ok (map (site_of_decode v) sites);
  vcf_body_current (mk_input contig (map zlen groups) sds mask allow_position_zero).

Definition mk_site_in (t : D.tree) (s : D.site) (pos : Z) (m : option (list bool)) : site_in :=
  {| si_tree := t; si_site := s; si_pos := pos; si_sample_mask := m |}.
