(* C16 — executable model of the VCF writer.

   Modelled code (python/tskit/vcf.py, read line by line):
     VcfWriter.__init__            l.54-127   names length, site-mask normalisation and
                                              shape check, position-zero check AS CODED
     VcfWriter.__make_sample_mapping l.129-190
     VcfWriter.__write_header      l.192-216  (sample names, contig length)
     VcfWriter.write               l.218-286  the int8 template [gt_array] / [indexes],
                                              per-variant line assembly
     legacy_position_transform     l.32-45

   Not modelled here (inputs of the model): the decoded genotypes and alleles of every
   site (property C03), position_transform callables (the model receives the already
   transformed integer positions), numpy's conversion of a mask argument to booleans
   (the model receives the truth value of every entry plus the argument's *form*,
   because the position-zero check of the code applies `~` to the raw argument).

   Strings are byte lists.  Only definitions here. *)
From Coq Require Import String Ascii.
From Coq Require Import List ZArith Bool Lia.
From TskVerif Require Import Base.Common Gen.Generated.
Import ListNotations.
Open Scope Z_scope.

Definition bytes := list Z.

Definition TAB : Z := 9.
Definition NL : Z := 10.
Definition BAR : Z := 124.     (* '|' *)
Definition DOT : Z := 46.      (* '.' *)
Definition COMMA : Z := 44.

(* error classes *)
Definition E_VALUE : Z := 1.   (* ValueError *)
Definition E_TYPE : Z := 2.    (* TypeError *)
Definition E_INDEX : Z := 3.   (* IndexError *)

Definition DOT_S : bytes := [46].
Definition PASS_S : bytes := [80; 65; 83; 83].
Definition GT_S : bytes := [71; 84].

(* ---- str(int) ---- *)
Fixpoint dec_digits (fuel : nat) (n : Z) (acc : bytes) : bytes :=
  match fuel with
  | O => acc
  | S f => if n <? 10 then (48 + n) :: acc else dec_digits f (n / 10) ((48 + n mod 10) :: acc)
  end.

Definition dec (z : Z) : bytes :=
  let n := Z.abs z in
  let d := dec_digits (S (Z.to_nat (Z.log2 n + 1))) n [] in
  if z <? 0 then 45 :: d else d.

Fixpoint join_with (sep : Z) (fs : list bytes) : bytes :=
  match fs with
  | [] => []
  | [f] => f
  | f :: fs' => f ++ sep :: join_with sep fs'
  end.

(* ------------------------------------------------------------------ *)
(* mask arguments                                                       *)
(* ------------------------------------------------------------------ *)

(* The form in which site_mask was given.  np.array(site_mask, dtype=bool) normalises
   all of them; the position-zero check however uses the raw argument. *)
Inductive mask_arg : Type :=
| MNone                                  (* site_mask=None -> np.zeros(num_sites, bool) *)
| MBoolArray (l : list bool)             (* numpy bool array *)
| MPyList (l : list bool)                (* python list / tuple (truth values of the entries) *)
| MIntArray (l : list Z)                 (* signed integer ndarray *)
| MUIntArray (bits : Z) (l : list Z)     (* unsigned integer ndarray of the given width *)
| MFloatArray (l : list bool).           (* float ndarray (truth values) *)

(* self.site_mask = np.array(site_mask, dtype=bool) *)
Definition mask_bools (n : nat) (m : mask_arg) : list bool :=
  match m with
  | MNone => repeat false n
  | MBoolArray l | MPyList l | MFloatArray l => l
  | MIntArray l | MUIntArray _ l => map (fun z => negb (z =? 0)) l
  end.

(* positions[idx] for an integer index array: numpy fancy indexing, negative indices
   count from the end, anything outside [-n, n) is an IndexError *)
Fixpoint take_int_indices (pos : list Z) (idx : list Z) : res (list Z) :=
  match idx with
  | [] => Ok []
  | i :: t =>
      let n := zlen pos in
      if (i <? - n) || (n <=? i) then Err E_INDEX
      else do p <- get pos (if i <? 0 then i + n else i);
           do r <- take_int_indices pos t; Ok (p :: r)
  end.

(* positions[boolean mask] *)
Fixpoint take_where (pos : list Z) (sel : list bool) : list Z :=
  match pos, sel with
  | p :: pos', b :: sel' => if b then p :: take_where pos' sel' else take_where pos' sel'
  | _, _ => []
  end.

(* `self.transformed_positions[~site_mask]` exactly as written at vcf.py l.117-119:
   after `if site_mask is None: site_mask = np.zeros(...)` the *local* name site_mask
   is the raw argument in every other case. *)
Definition selected_positions_as_coded (pos : list Z) (m : mask_arg) : res (list Z) :=
  match m with
  | MNone => Ok pos                                          (* ~zeros = all True *)
  | MBoolArray l => Ok (take_where pos (map negb l))          (* logical not *)
  | MPyList _ => Err E_TYPE                                   (* bad operand type for unary ~: 'list' *)
  | MFloatArray _ => Err E_TYPE                               (* ufunc 'invert' not supported *)
  | MIntArray l => take_int_indices pos (map (fun z => - z - 1) l)          (* bitwise not *)
  | MUIntArray bits l => take_int_indices pos (map (fun z => 2 ^ bits - 1 - z) l)
  end.

(* the one-word repair: `~self.site_mask` *)
Definition selected_positions_fixed (pos : list Z) (m : mask_arg) : res (list Z) :=
  Ok (take_where pos (map negb (mask_bools (length pos) m))).

Definition position_zero_check (allow_position_zero : bool) (sel : res (list Z)) : res unit :=
  if allow_position_zero then Ok tt     (* `not allow_position_zero and ...` short-circuits *)
  else do ps <- sel;
       if existsb (fun p => p =? 0) ps then Err E_VALUE else Ok tt.

(* ------------------------------------------------------------------ *)
(* the genotype template of write()                                     *)
(* ------------------------------------------------------------------ *)

(* gt_array[-1] = c  (IndexError on an empty list) *)
Definition set_last (l : bytes) (c : Z) : res bytes :=
  match l with
  | [] => Err E_INDEX
  | _ => Ok (removelast l ++ [c])
  end.

(* for _ in range(ploidy): indexes.append(len(gt_array)); gt_array.extend([0, ord("|")]) *)
Fixpoint tmpl_inner (k : nat) (gt : bytes) (idx : list Z) : bytes * list Z :=
  match k with
  | O => (gt, idx)
  | S k' => tmpl_inner k' (gt ++ [0; BAR]) (idx ++ [zlen gt])
  end.

(* for ploidy in self.individual_ploidies: <inner>; gt_array[-1] = ord("\t") *)
Fixpoint tmpl_outer (ps : list Z) (gt : bytes) (idx : list Z) : res (bytes * list Z) :=
  match ps with
  | [] => Ok (gt, idx)
  | p :: ps' =>
      let '(gt1, idx1) := tmpl_inner (Z.to_nat p) gt idx in
      do gt2 <- set_last gt1 TAB;
      tmpl_outer ps' gt2 idx1
  end.

(* ...; gt_array[-1] = ord("\n") *)
Definition gt_template (ploidies : list Z) : res (bytes * list Z) :=
  do '(gt, idx) <- tmpl_outer ploidies [] [];
  do gt' <- set_last gt NL;
  Ok (gt', idx).

(* gt_array[indexes] = values  (shape mismatch -> ValueError) *)
Fixpoint scatter (gt : bytes) (idx : list Z) (vals : list Z) : res bytes :=
  match idx, vals with
  | [], [] => Ok gt
  | i :: idx', v :: vals' => do gt' <- set gt i v; scatter gt' idx' vals'
  | _, _ => Err E_VALUE
  end.

(* gt_array[indexes[missing]] = ord(".") *)
Fixpoint scatter_where (gt : bytes) (idx : list Z) (sel : list bool) (c : Z) : res bytes :=
  match idx, sel with
  | [], [] => Ok gt
  | i :: idx', b :: sel' =>
      do gt' <- (if b then set gt i c else Ok gt); scatter_where gt' idx' sel' c
  | _, _ => Err E_INDEX
  end.

(* ------------------------------------------------------------------ *)
(* write()                                                              *)
(* ------------------------------------------------------------------ *)

Record site_data : Type := {
  sd_pos : Z;                      (* self.transformed_positions[variant.index] *)
  sd_alleles : list bytes;         (* variant.alleles[:variant.num_alleles] *)
  sd_genotypes : list Z;           (* variant.genotypes, one per output column, -1 = missing *)
  sd_sample_mask : option (list bool)   (* np.array(self.sample_mask(variant), dtype=bool); None: no sample_mask *)
}.

Record vcf_input : Type := {
  vi_contig : bytes;
  vi_ploidies : list Z;            (* self.individual_ploidies *)
  vi_sites : list site_data;
  vi_site_mask : mask_arg;
  vi_allow_position_zero : bool
}.

(* genotypes[sample_mask] = -1 *)
Fixpoint apply_mask (g : list Z) (m : list bool) : list Z :=
  match g, m with
  | a :: g', b :: m' => (if b then -1 else a) :: apply_mask g' m'
  | _, _ => []
  end.

Definition has_missing (g : list Z) : bool := existsb (fun a => a =? -1) g.

(* the body of the loop over variants for one unmasked site; gt = the template array
   as the previous site left it *)
Definition write_site (contig : bytes) (idx : list Z) (gt : bytes) (site_id : Z) (s : site_data)
  : res (bytes * bytes) :=      (* (line, gt_array afterwards) *)
  if c16_max_alleles <? zlen (sd_alleles s) then Err E_VALUE else   (* `variant.num_alleles > 9`, regenerated *)
  do ref <- get (sd_alleles s) 0;
  let alt := match sd_alleles s with
             | _ :: (_ :: _) as rest => join_with COMMA rest
             | _ => DOT_S
             end in
  let head := join_with TAB [contig; dec (sd_pos s); dec site_id; ref; alt; DOT_S; PASS_S; DOT_S; GT_S] ++ [TAB] in
  do gt1 <- scatter gt idx (map (fun a => a + 48) (sd_genotypes s));
  do g2 <- match sd_sample_mask s with
           | None => Ok (sd_genotypes s)
           | Some m => if Nat.eqb (length m) (length (sd_genotypes s))
                       then Ok (apply_mask (sd_genotypes s) m) else Err E_VALUE
           end;
  do gt2 <- (if (match sd_sample_mask s with Some _ => true | None => false end) || has_missing (sd_genotypes s)
             then scatter_where gt1 idx (map (fun a => a =? -1) g2) DOT
             else Ok gt1);
  Ok (head ++ gt2, gt2).

Fixpoint write_sites (contig : bytes) (idx : list Z) (gt : bytes) (site_id : Z)
    (sites : list site_data) (mask : list bool) : res (list bytes) :=
  match sites, mask with
  | [], _ => Ok []
  | s :: sites', b :: mask' =>
      if b then write_sites contig idx gt (site_id + 1) sites' mask'     (* `continue` before any check *)
      else do '(line, gt') <- write_site contig idx gt site_id s;
           do rest <- write_sites contig idx gt' (site_id + 1) sites' mask';
           Ok (line :: rest)
  | _ :: _, [] => Err E_INDEX      (* self.site_mask[site_id]; excluded by the shape check *)
  end.

Definition vcf_body_with (select : list Z -> mask_arg -> res (list Z)) (inp : vcf_input) : res (list bytes) :=
  let n := length (vi_sites inp) in
  let mask := mask_bools n (vi_site_mask inp) in
  (* __init__: "Site mask must be 1D a boolean array of length num_sites" *)
  if negb (Nat.eqb (length mask) n) then Err E_VALUE else
  do _ <- position_zero_check (vi_allow_position_zero inp)
            (select (map sd_pos (vi_sites inp)) (vi_site_mask inp));
  (* write() *)
  do '(gt, idx) <- gt_template (vi_ploidies inp);
  write_sites (vi_contig inp) idx gt 0 (vi_sites inp) mask.

(* the code as it was at the pinned commit 380c75d (position-zero check on the raw
   site_mask argument, finding F6), and with the one-word repair (/repo f5b3ea9) *)
Definition vcf_body_pinned : vcf_input -> res (list bytes) := vcf_body_with selected_positions_as_coded.
Definition vcf_body_fixed : vcf_input -> res (list bytes) := vcf_body_with selected_positions_fixed.

(* what /repo has now (regenerated fact): this is what the correspondence evaluates,
   so that applying the repair to /repo needs no change here *)
Definition vcf_body_current : vcf_input -> res (list bytes) :=
  if c16_poszero_uses_raw_site_mask then vcf_body_pinned else vcf_body_fixed.

(* ------------------------------------------------------------------ *)
(* header facts                                                         *)
(* ------------------------------------------------------------------ *)

(* self.contig_length: max(1, int(position_transform([sequence_length])[0])), raised to
   the last transformed position when there are sites (masked or not) *)
Definition contig_length (transformed_L : Z) (positions : list Z) : Z :=
  let c := Z.max 1 transformed_L in
  match rev positions with
  | [] => c
  | last :: _ => Z.max last c
  end.

(* individual_names default: tsk_0 ... tsk_{n-1} *)
Definition default_names (n : nat) : list bytes :=
  map (fun j => [116; 115; 107; 95] ++ dec (Z.of_nat j)) (seq 0 n).

(* None = the length check of __init__ fails (ValueError) *)
Definition header_names (given : option (list bytes)) (num_individuals : nat) : res (list bytes) :=
  let names := match given with None => default_names num_individuals | Some l => l end in
  if Nat.eqb (length names) num_individuals then Ok names else Err E_VALUE.

Definition chrom_line (names : list bytes) : bytes :=
  join_with TAB [[35; 67; 72; 82; 79; 77]; [80; 79; 83]; [73; 68]; [82; 69; 70]; [65; 76; 84];
                 [81; 85; 65; 76]; [70; 73; 76; 84; 69; 82]; [73; 78; 70; 79]; [70; 79; 82; 77; 65; 84];
                 join_with TAB names].

Definition sb (s : string) : bytes :=
  map (fun a => Z.of_N (N_of_ascii a)) (list_ascii_of_string s).

(* __write_header (l.192-216), line by line; [version] = provenance.__version__ *)
Definition vcf_header (version contig_id : bytes) (contig_len : Z) (names : list bytes) : list bytes :=
  [ sb "##fileformat=VCFv4.2";
    sb "##source=tskit " ++ version;
    sb "##FILTER=<ID=PASS,Description=""All filters passed"">";
    sb "##contig=<ID=" ++ contig_id ++ sb ",length=" ++ dec contig_len ++ sb ">";
    sb "##FORMAT=<ID=GT,Number=1,Type=String,Description=""Genotype"">";
    chrom_line names ].

(* legacy_position_transform (l.32-45) on already rounded positions *)
Fixpoint legacy_transform (last : Z) (rounded : list Z) : list Z :=
  match rounded with
  | [] => []
  | p :: t => let p' := if p <=? last then last + 1 else p in p' :: legacy_transform p' t
  end.

(* ------------------------------------------------------------------ *)
(* __make_sample_mapping                                                *)
(* ------------------------------------------------------------------ *)

(* nodes: (is_sample, individual) per node id.  Result: the node ids of every VCF
   sample column group, in output order (self.samples regrouped by
   self.individual_ploidies; for the ploidy path self.samples is None = ts.samples()). *)
Definition node_info : Type := (bool * Z)%type.

Fixpoint enumerate_from {A} (k : Z) (l : list A) : list (Z * A) :=
  match l with [] => [] | a :: t => (k, a) :: enumerate_from (k + 1) t end.

Definition sample_ids (nodes : list node_info) : list Z :=
  map fst (filter (fun p => fst (snd p)) (enumerate_from 0 nodes)).

(* ind.nodes: node ids referring to individual i, increasing *)
Definition individual_nodes (nodes : list node_info) (i : Z) : list Z :=
  map fst (filter (fun p => snd (snd p) =? i) (enumerate_from 0 nodes)).

(* np.unique: sorted distinct values (insertion into a sorted duplicate-free list) *)
Fixpoint insert_unique (x : Z) (l : list Z) : list Z :=
  match l with
  | [] => [x]
  | h :: t => if x <? h then x :: l else if x =? h then l else h :: insert_unique x t
  end.
Definition unique_sorted (l : list Z) : list Z := fold_right insert_unique [] l.

Fixpoint chunk (fuel : nat) (p : nat) (l : list Z) : list (list Z) :=
  match fuel with
  | O => []
  | S f => match l with [] => [] | _ => firstn p l :: chunk f p (skipn p l) end
  end.

(* `if len(is_sample) != 1` (pinned: an individual of non-sample nodes only is accepted) or,
   with the repair fixes/C16-individuals-must-be-samples.diff, `if is_sample != {True}`;
   selected by the regenerated fact *)
Definition individual_rejected (flags : list bool) : bool :=
  if c16_individuals_must_be_samples then existsb negb flags
  else existsb (fun b => b) flags && existsb negb flags.

(* no sample nodes: `individuals[0]` on the empty np.unique result (IndexError, pinned) or,
   with the repair fixes/C16-zero-samples-valueerror.diff, a ValueError *)
Definition zero_samples_error : Z := if c16_zero_samples_rejected then E_VALUE else E_INDEX.

Fixpoint groups_of_individuals (nodes : list node_info) (num_individuals : Z) (inds : list Z)
  : res (list (list Z)) :=
  match inds with
  | [] => Ok []
  | i :: t =>
      if (i <? 0) || (num_individuals <=? i) then Err E_VALUE else   (* Invalid individual IDs *)
      let ns := individual_nodes nodes i in
      match ns with
      | [] => Err E_VALUE                                            (* not associated with a node *)
      | _ =>
        let flags := map (fun u => match nth_error nodes (Z.to_nat u) with Some (s, _) => s | None => false end) ns in
        if individual_rejected flags then Err E_VALUE   (* sample and non-samples *)
        else do r <- groups_of_individuals nodes num_individuals t; Ok (ns :: r)
      end
  end.

Definition make_sample_mapping (nodes : list node_info) (num_individuals : Z)
    (ploidy : option Z) (individuals : option (list Z)) : res (list (list Z)) :=
  let samples := sample_ids nodes in
  if (0 <? num_individuals) && (match ploidy with Some _ => true | None => false end)
  then Err E_VALUE                           (* Cannot specify ploidy when individuals are present *)
  else
    do inds <- match individuals with
               | None =>
                   let u := unique_sorted (map (fun s => match nth_error nodes (Z.to_nat s) with
                                                         | Some (_, i) => i | None => -1 end) samples) in
                   match u with
                   | [] => Err zero_samples_error      (* no samples: see zero_samples_error *)
                   | [i] => if i =? -1 then Ok None else Ok (Some u)
                   | i :: _ => if i =? -1 then Err E_VALUE else Ok (Some u)
                   end
               | Some [] => Err E_VALUE                (* List of sample individuals empty *)
               | Some l => Ok (Some l)
               end;
    match inds with
    | Some l => groups_of_individuals nodes num_individuals l
    | None =>
        let p := match ploidy with Some p => p | None => 1 end in
        if p <? 1 then Err E_VALUE
        else if negb (zlen samples mod p =? 0) then Err E_VALUE
        else Ok (chunk (length samples) (Z.to_nat p) samples)
    end.

(* ------------------------------------------------------------------ *)
(* comparison helpers for the correspondence                            *)
(* ------------------------------------------------------------------ *)

Definition res_eqb {A} (eqb : A -> A -> bool) (x y : res A) : bool :=
  match x, y with
  | Ok a, Ok b => eqb a b
  | Err c, Err d => c =? d
  | _, _ => false
  end.

Definition lines_eqb : res (list bytes) -> res (list bytes) -> bool := res_eqb (list_eqb zlist_eqb).
Definition groups_eqb : res (list (list Z)) -> res (list (list Z)) -> bool := res_eqb (list_eqb zlist_eqb).

Definition mk_site (pos : Z) (alleles : list bytes) (g : list Z) (m : option (list bool)) : site_data :=
  {| sd_pos := pos; sd_alleles := alleles; sd_genotypes := g; sd_sample_mask := m |}.
Definition mk_input (contig : bytes) (ploidies : list Z) (sites : list site_data) (m : mask_arg) (apz : bool) :=
  {| vi_contig := contig; vi_ploidies := ploidies; vi_sites := sites; vi_site_mask := m;
     vi_allow_position_zero := apz |}.
