(* C16 — wrapper level: TreeSequence.write_vcf / as_vcf forward every argument unchanged
   (facts regenerated from the signatures and the call sites in python/tskit/trees.py). *)
From Coq Require Import String Ascii.
From Coq Require Import List ZArith Bool.
From TskVerif Require Import Gen.Generated.
Import ListNotations.
Open Scope string_scope.

(* keyword `p=p` in the call *)
Definition forwarded_as_itself (p : string) : string := p ++ "=" ++ p.

(* the documented parameters of write_vcf after `output` *)
Definition write_vcf_documented_params : list string :=
  ["ploidy"; "contig_id"; "individuals"; "individual_names"; "position_transform";
   "site_mask"; "sample_mask"; "isolated_as_missing"; "allow_position_zero"].

Lemma write_vcf_forwards_every_keyword :
  c16_vcfwriter_keywords = map forwarded_as_itself c16_write_vcf_params
  /\ c16_write_vcf_params = write_vcf_documented_params
  /\ c16_as_vcf_forwards_all = true.
Proof. repeat split. Qed.
