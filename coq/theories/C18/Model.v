(* C18 — Newick / Nexus / FASTA exports.  Executable definitions only.

   Modelled code (pinned /repo):
     c/tskit/convert.c           tsk_newick_converter_run   (l.52-152)  -> [c_newick]
     python/tskit/trees.py       Tree._as_newick_fast       -> [estimate], [as_newick_fast]
                                 (as repaired by fix 1e12f75; the pre-fix formula is kept as
                                 [estimate_pinned] for the historical record of F5)
                                 Tree.as_newick             (l.2688-2729) -> [as_newick]
     python/tskit/text_formats.py  build_newick (iterative over the post-order, fix d25c4f6)
                                   -> [it_newick];  the recursive writer it replaced is kept as
                                   the specification [py_build]/[py_newick] (IterProofs.v: equal)
                                 wrap_text (l.175-188)      -> [wrap_text]
                                 write_fasta (l.192-215)    -> [fasta_text]
                                 write_nexus (l.113-172)    -> [nexus_lines]
   Strings are lists of byte values (Z).  Decimal rendering of doubles ("%.*f",
   "{:.{}f}".format) is NOT modelled: it is the Section variable [print_num]. *)
From Coq Require Import List ZArith Bool Lia Ascii.
From Coq Require String.
Export String.StringSyntax.
Delimit Scope string_scope with string.
From TskVerif Require Import Base.Common Gen.Generated.
Import ListNotations.
Open Scope Z_scope.

Definition str := list Z.

Fixpoint s2z (s : String.string) : str :=
  match s with
  | String.EmptyString => []
  | String.String a r => Z.of_N (N_of_ascii a) :: s2z r
  end.
Arguments s2z s%string.

Definition str_eqb : str -> str -> bool := list_eqb Z.eqb.

(* ------------------------------------------------------------------ *)
(* Newick syntax: delimiters, abstract syntax, printer, parser          *)
(* ------------------------------------------------------------------ *)
Definition ch_lpar : Z := 40.   (* ( *)
Definition ch_rpar : Z := 41.   (* ) *)
Definition ch_comma : Z := 44.  (* , *)
Definition ch_colon : Z := 58.  (* : *)
Definition ch_semi : Z := 59.   (* ; *)

Definition is_delim (c : Z) : bool :=
  (c =? 40) || (c =? 41) || (c =? 44) || (c =? 58) || (c =? 59).

Definition cleanb (s : str) : bool := forallb (fun c => negb (is_delim c)) s.

(* A Newick tree: children, node name, optional branch length token of the branch above *)
Inductive nw : Type := NW (kids : list nw) (name : str) (len : option str).

Fixpoint join (sep : Z) (l : list str) : str :=
  match l with
  | [] => []
  | [x] => x
  | x :: r => x ++ sep :: join sep r
  end.

Definition len_part (len : option str) : str :=
  match len with Some l => 58 :: l | None => [] end.

Fixpoint print_nw (t : nw) : str :=
  match t with
  | NW kids name len =>
      (match kids with
       | [] => []
       | _ => 40 :: join 44 (map print_nw kids) ++ [41]
       end) ++ name ++ len_part len
  end.

Definition print_newick (t : nw) : str := print_nw t ++ [59].

(* maximal run of non-delimiter bytes *)
Fixpoint take_run (s : str) : str * str :=
  match s with
  | [] => ([], [])
  | c :: r => if is_delim c then ([], s) else let (a, b) := take_run r in (c :: a, b)
  end.

Definition parse_len (s : str) : option str * str :=
  match s with
  | c :: r => if c =? 58 then let (l, r') := take_run r in (Some l, r') else (None, s)
  | [] => (None, s)
  end.

(* Recursive-descent reader written from the grammar
     Subtree -> '(' Branch {',' Branch} ')' Name | Name      Branch -> Subtree [':' Length]
   Fuel exhaustion is the visible result [Fuel]; a syntax error is [Err 1]. *)
Fixpoint parse_sub (fuel : nat) (s : str) : res (nw * str) :=
  match fuel with
  | O => Fuel
  | S f =>
      match s with
      | 40 :: s1 =>
          match parse_kids f s1 with
          | Ok (kids, s2) =>
              let (name, s3) := take_run s2 in
              let (len, s4) := parse_len s3 in
              Ok (NW kids name len, s4)
          | Err c => Err c | OOB => OOB | Fuel => Fuel
          end
      | _ =>
          let (name, s1) := take_run s in
          let (len, s2) := parse_len s1 in
          Ok (NW [] name len, s2)
      end
  end
with parse_kids (fuel : nat) (s : str) : res (list nw * str) :=
  match fuel with
  | O => Fuel
  | S f =>
      match parse_sub f s with
      | Ok (k, 44 :: s1) =>
          match parse_kids f s1 with
          | Ok (ks, s2) => Ok (k :: ks, s2)
          | Err c => Err c | OOB => OOB | Fuel => Fuel
          end
      | Ok (k, 41 :: s1) => Ok ([k], s1)
      | Ok _ => Err 1
      | Err c => Err c | OOB => OOB | Fuel => Fuel
      end
  end.

Definition parse_newick (s : str) : res nw :=
  match parse_sub (2 * length s)%nat s with
  | Ok (t, [59]) => Ok t
  | Ok _ => Err 1
  | Err c => Err c | OOB => OOB | Fuel => Fuel
  end.

Fixpoint nw_eqb (a b : nw) {struct a} : bool :=
  match a, b with
  | NW ka na la, NW kb nb lb =>
      (fix go (x y : list nw) {struct x} : bool :=
         match x, y with
         | [], [] => true
         | p :: x', q :: y' => nw_eqb p q && go x' y'
         | _, _ => false
         end) ka kb
      && str_eqb na nb && opt_eqb str_eqb la lb
  end.

(* ------------------------------------------------------------------ *)
(* decimal rendering of node ids ("%d" of a non-negative int, f"{u}")   *)
(* ------------------------------------------------------------------ *)
Fixpoint dec_aux (fuel : nat) (n : Z) (acc : str) : str :=
  match fuel with
  | O => acc
  | S f => let acc' := (48 + n mod 10) :: acc in
           if n <? 10 then acc' else dec_aux f (n / 10) acc'
  end.
Definition dec (n : Z) : str := dec_aux (S (Z.to_nat (Z.log2 n))) n [].

(* fixed-width digits, most significant first *)
Fixpoint digs (k : nat) (r : Z) (acc : str) : str :=
  match k with O => acc | S k' => digs k' (r / 10) ((48 + r mod 10) :: acc) end.

(* the value x / 10^q printed with exactly q decimals (x >= 0): the exact rendering of
   "%.*f" when the double IS x / 10^q (integers; dyadic fractions scaled accordingly) *)
Definition print_fixed (q : Z) (x : Z) : str :=
  dec (x / 10 ^ q) ++ (if q >? 0 then 46 :: digs (Z.to_nat q) (x mod 10 ^ q) [] else []).

(* x / s rounded to the nearest integer, ties to even (s > 0) *)
Definition round_half_even (x s : Z) : Z :=
  let r := x / s in
  let m := x mod s in
  if (2 * m >? s) || ((2 * m =? s) && Z.odd r) then r + 1 else r.

(* "%.*f" (precision p) of a double whose value is EXACTLY x / 10^q, x >= 0: pad with zeros when
   p >= q, otherwise round half-even on the exact value (what glibc printf and CPython's
   float.__format__ do).  Integers: q = 0; dyadic rationals k / 2^j: q = j. *)
Definition print_dec (q p x : Z) : str :=
  if p >=? q then print_fixed p (x * 10 ^ (p - q))
  else print_fixed p (round_half_even x (10 ^ (q - p))).

(* smallest k >= 0 with 10^k >= n  (= ceil(log10 n) for n >= 1) *)
Fixpoint clog10_aux (fuel : nat) (k pw n : Z) : Z :=
  match fuel with
  | O => k
  | S f => if pw >=? n then k else clog10_aux f (k + 1) (pw * 10) n
  end.
Definition clog10 (n : Z) : Z := clog10_aux (S (Z.to_nat (Z.log2_up n))) 0 1 n.

(* ------------------------------------------------------------------ *)
(* Trees                                                                *)
(* ------------------------------------------------------------------ *)
(* The Python-API view: tree.children(u) as tskit lists them. *)
Inductive rtree : Type := RN (id : Z) (kids : list rtree).
Definition rid (t : rtree) : Z := match t with RN v _ => v end.
Definition rkids (t : rtree) : list rtree := match t with RN _ k => k end.

Fixpoint ids (t : rtree) : list Z :=
  match t with RN v kids => v :: flat_map ids kids end.
Fixpoint leaf_ids (t : rtree) : list Z :=
  match t with RN v kids => match kids with [] => [v] | _ => flat_map leaf_ids kids end end.
Fixpoint rsize (t : rtree) : nat :=
  match t with RN _ kids => S (list_sum (map rsize kids)) end.
(* (parent, child) pairs *)
Fixpoint redges (t : rtree) : list (Z * Z) :=
  match t with RN v kids => map (fun k => (v, rid k)) kids ++ flat_map redges kids end.

(* The C view: tsk_tree_t arrays (length num_nodes + 1) and the node flags column. *)
Record ctree : Type := mk_ctree {
  ct_lc : list Z; ct_rc : list Z; ct_ls : list Z; ct_par : list Z; ct_flags : list Z }.

(* tsk_tree_get_size_bound (trees.c): 1 + num_samples + num_edges, the capacity (in entries) of
   the traversal stack malloc'ed by tsk_newick_converter_init.  num_edges of the current tree =
   the nodes that have a parent; num_samples = the sample nodes of the tree sequence. *)
Definition count_if (f : Z -> bool) (l : list Z) : Z := zlen (filter f l).
Definition num_edges_of (a : ctree) : Z := count_if (fun p => negb (p =? -1)) (ct_par a).
Definition num_samples_of (a : ctree) : Z :=
  count_if (fun f => Z.testbit (Z.land f c18_node_is_sample) 0) (ct_flags a).
Definition size_bound (a : ctree) : Z := 1 + num_samples_of a + num_edges_of a.

Definition get_is (l : list Z) (i v : Z) : bool :=
  match get l i with Ok x => x =? v | _ => false end.

Definition first_id (kids : list rtree) : Z := match kids with [] => -1 | k :: _ => rid k end.
Fixpoint last_id (prev : Z) (kids : list rtree) : Z :=
  match kids with [] => prev | k :: r => last_id (rid k) r end.

Fixpoint ls_ok (a : ctree) (prev : Z) (kids : list rtree) : bool :=
  match kids with
  | [] => true
  | k :: r => get_is (ct_ls a) (rid k) prev && ls_ok a (rid k) r
  end.

(* [repb a p t]: the arrays describe exactly the subtree t hanging below parent p *)
Fixpoint repb (a : ctree) (p : Z) (t : rtree) : bool :=
  match t with
  | RN v kids =>
      get_is (ct_par a) v p && get_is (ct_lc a) v (first_id kids) &&
      get_is (ct_rc a) v (last_id (-1) kids) && ls_ok a (-1) kids &&
      forallb (repb a v) kids
  end.

Fixpoint nodupb (l : list Z) : bool :=
  match l with [] => true | x :: r => negb (existsb (Z.eqb x) r) && nodupb r end.
Definition memb (x : Z) (l : list Z) : bool := existsb (Z.eqb x) l.

Definition err_value : Z := 3.      (* a Python ValueError *)

Inductive labspec : Type :=
| LabDefault                          (* node_labels=None: n<id> for samples *)
| LabMs                               (* LEGACY_MS_LABELS: <id+1> for leaves *)
| LabDict (d : list (Z * str)).        (* node_labels.get(u, "") *)

Fixpoint lookup {A} (d : list (Z * A)) (k : Z) : option A :=
  match d with [] => None | (k', v) :: r => if k' =? k then Some v else lookup r k end.
(* Python dict semantics: the LAST binding wins when a literal repeats a key; the harness
   never repeats keys, [lookup] takes the first. *)

Definition is_sample (a : ctree) (v : Z) : bool :=
  match get (ct_flags a) v with Ok f => Z.testbit (Z.land f c18_node_is_sample) 0 | _ => false end.

(* the label dictionaries Tree.as_newick builds for the Python path (trees.py l.2716-2722),
   as total functions u |-> node_labels.get(u, "") *)
Definition lab_default (a : ctree) (v : Z) : str :=
  if is_sample a v then c18_label_prefix ++ dec v else [].
Definition lab_ms_of (leaves : list Z) (v : Z) : str :=
  if memb v leaves then dec (v + 1) else [].
Definition lab_dict (d : list (Z * str)) (v : Z) : str :=
  match lookup d v with Some s => s | None => [] end.

(* ts.samples(): the sample nodes in id order; the dictionary Tree.as_newick builds for the general
   path when node_labels is None: {u: f"n{u}" for u in self.tree_sequence.samples()} *)
Definition samples_of (a : ctree) : list Z :=
  filter (is_sample a) (map Z.of_nat (seq 0 (length (ct_flags a)))).
Definition default_dict (samples : list Z) : list (Z * str) :=
  map (fun u => (u, c18_label_prefix ++ dec u)) samples.

(* tree.children(u) as the C library computes it: left_child[u], then right_sib[...] (C01) *)
Fixpoint chain_rs (fuel : nat) (rs : list Z) (w : Z) : res (list Z) :=
  match fuel with
  | O => Fuel
  | S f => if w =? -1 then Ok [] else do nxt <- get rs w; do r <- chain_rs f rs nxt; Ok (w :: r)
  end.
Definition children_c (a : ctree) (rs : list Z) (v : Z) : res (list Z) :=
  do lcv <- get (ct_lc a) v; chain_rs (S (length rs)) rs lcv.

(* alignments(): the reference (or L copies of the missing-data character) overwritten at the
   site positions by the sample's haplotype (trees.py: a[:] = ref; a[site_pos - left] = h) *)
Fixpoint set_at (s : str) (i : nat) (c : Z) : str :=
  match s, i with
  | [], _ => []
  | _ :: r, O => c :: r
  | x :: r, S i' => x :: set_at r i' c
  end.
Fixpoint fill_sites (a : str) (pos : list Z) (h : str) : str :=
  match pos, h with
  | p :: ps, c :: hs => fill_sites (set_at a (Z.to_nat p) c) ps hs
  | _, _ => a
  end.
Definition alignment_of (L : Z) (ref : option str) (mdc : Z) (pos : list Z) (h : str) : str :=
  fill_sites (match ref with Some r => r | None => repeat mdc (Z.to_nat L) end) pos h.

Section Writers.
  (* times and their rendering are abstract (trusted base) *)
  Variable Tm : Type.
  Variable tsub : Tm -> Tm -> Tm.            (* double subtraction *)
  Variable print_num : Z -> Tm -> str.        (* "%.*f" / "{:.{}f}".format *)
  Variable tm : Z -> Tm.                      (* nodes.time[] *)

  Definition btoken (prec p c : Z) : str := print_num prec (tsub (tm p) (tm c)).

  (* ---------------- text_formats._build_newick (l.218-237) ---------------- *)
  Fixpoint py_build (lab : Z -> str) (ibl : bool) (prec : Z) (t : rtree) : str :=
    match t with
    | RN v kids =>
        match kids with
        | [] => lab v                                         (* is_leaf: s = f"{label}" *)
        | _ =>
            removelast
              (40 :: concat (map (fun k =>
                  py_build lab ibl prec k
                  ++ (if ibl then 58 :: btoken prec v (rid k) else []) ++ [44]) kids))
            ++ 41 :: lab v                                   (* s[:-1] + f"){label}" *)
        end
    end.
  Definition py_newick lab ibl prec t : str := py_build lab ibl prec t ++ [59].

  (* what the output is required to parse back to *)
  Fixpoint ast_of (lab : Z -> str) (ibl : bool) (prec : Z) (up : option Z) (t : rtree) : nw :=
    match t with
    | RN v kids =>
        NW (map (ast_of lab ibl prec (Some v)) kids) (lab v)
           (match up with
            | Some p => if ibl then Some (btoken prec p v) else None
            | None => None
            end)
    end.

  (* ---------------- tsk_newick_converter_run (convert.c l.52-152) ---------------- *)
  (* for (w = right_child[v]; w != TSK_NULL; w = left_sib[w]) : nodes in push order *)
  Fixpoint sibs (fuel : nat) (ls : list Z) (w : Z) : res (list Z) :=
    match fuel with
    | O => Fuel
    | S f => if w =? -1 then Ok [] else
             do nxt <- get ls w; do r <- sibs f ls nxt; Ok (w :: r)
    end.

  (* the label printed for v, if any (l.97-104) *)
  Definition c_label (a : ctree) (ms : bool) (v : Z) (lcv : Z) : res (option str) :=
    if ms then Ok (if lcv =? -1 then Some (c18_ms_label_prefix ++ dec (v + 1)) else None)
    else do f <- get (ct_flags a) v;
         Ok (if Z.testbit (Z.land f c18_node_is_sample) 0 then Some (c18_label_prefix ++ dec v) else None).

  Definition cstate : Type := (list Z * Z * str)%type.     (* stack (top first), u, buffer[0..s) *)

  Definition ovf {A} : res A := Err c18_err_buffer_overflow.

  (* one iteration of `while (stack_top >= 0)`; B = buffer_size, rp = root_parent *)
  Definition cstep (a : ctree) (ms : bool) (prec B rp : Z) (st : cstate) : res cstate :=
    let '(stack, u, out) := st in
    match stack with
    | [] => Ok st
    | v :: rest =>
        do lcv <- get (ct_lc a) v;
        if negb (lcv =? -1) && negb (v =? u) then
          if zlen out >=? B then ovf else
          do rcv <- get (ct_rc a) v;
          do ch <- sibs (S (length (ct_ls a))) (ct_ls a) rcv;
          (* stack_top++; stack[stack_top] = w : a write beyond the malloc'ed capacity is OOB *)
          if zlen (rev ch ++ stack) >? size_bound a then OOB else
          Ok (rev ch ++ stack, u, out ++ [40])
        else
          do pv <- get (ct_par a) v;
          do lab <- c_label a ms v lcv;
          do out1 <- match lab with
                     | None => Ok out
                     | Some l => if zlen out >=? B then ovf else
                                 let o := out ++ l in
                                 if zlen o >=? B then ovf else Ok o
                     end;
          do out2 <- (if pv =? rp then Ok out1 else
                      let o := out1 ++ 58 :: btoken prec pv v in
                      if zlen o >=? B then ovf else
                      do rcu <- get (ct_rc a) pv;
                      Ok (o ++ [if v =? rcu then 41 else 44]));
          Ok (rest, pv, out2)
    end.

  Fixpoint crun (fuel : nat) (a : ctree) (ms : bool) (prec B rp : Z) (st : cstate) : res str :=
    match fuel with
    | O => Fuel
    | S f =>
        match st with
        | ([], _, out) => Ok out
        | _ => do st' <- cstep a ms prec B rp st; crun f a ms prec B rp st'
        end
    end.

  (* N = tree->num_nodes *)
  Definition c_newick (a : ctree) (N root : Z) (ms : bool) (prec B : Z) : res str :=
    if (root <? 0) || (root >=? N) then Err c18_err_node_out_of_bounds else
    do rp <- get (ct_par a) root;
    do out <- crun (2 * length (ct_par a) + 2) a ms prec B rp ([root], rp, []);
    if zlen out + 1 >=? B then ovf else Ok (out ++ [59]).

  (* ---------------- text_formats.build_newick (iterative, fix d25c4f6) ---------------- *)
  (* for node in tree.nodes(root, order="postorder"): the subtrees, children before parents *)
  Fixpoint post_nodes (t : rtree) : list rtree :=
    match t with RN v kids => flat_map post_nodes kids ++ [t] end.

  (* subtrees.pop(child): first binding of the key, removed; None = KeyError *)
  Fixpoint dpop (d : list (Z * str)) (k : Z) : option (str * list (Z * str)) :=
    match d with
    | [] => None
    | (k', s) :: r =>
        if k' =? k then Some (s, r) else
        match dpop r k with Some (x, r') => Some (x, (k', s) :: r') | None => None end
    end.

  Definition key_error {A} : res A := Err 2.

  (* the inner loop over tree.children(node): parts and the dictionary after the pops *)
  Fixpoint pop_parts (ibl : bool) (prec v : Z) (d : list (Z * str)) (kids : list rtree)
    : res (list str * list (Z * str)) :=
    match kids with
    | [] => Ok ([], d)
    | k :: ks =>
        match dpop d (rid k) with
        | None => key_error
        | Some (sub, d') =>
            do r <- pop_parts ibl prec v d' ks;
            Ok ((sub ++ (if ibl then 58 :: btoken prec v (rid k) else [])) :: fst r, snd r)
        end
    end.

  Definition it_step (lab : Z -> str) (ibl : bool) (prec : Z) (d : list (Z * str)) (node : rtree)
    : res (list (Z * str)) :=
    match node with
    | RN v [] => Ok ((v, lab v) :: d)                       (* is_leaf: s = f"{label}" *)
    | RN v kids =>
        do r <- pop_parts ibl prec v d kids;
        Ok ((v, 40 :: join 44 (fst r) ++ 41 :: lab v) :: snd r)   (* "(" + ",".join(parts) + f"){label}" *)
    end.

  Fixpoint it_run (lab : Z -> str) (ibl : bool) (prec : Z) (nodes : list rtree) (d : list (Z * str))
    : res (list (Z * str)) :=
    match nodes with
    | [] => Ok d
    | n :: r => do d' <- it_step lab ibl prec d n; it_run lab ibl prec r d'
    end.

  Definition it_newick (lab : Z -> str) (ibl : bool) (prec : Z) (t : rtree) : res str :=
    do d <- it_run lab ibl prec (post_nodes t) [];
    match lookup d (rid t) with Some s => Ok (s ++ [59]) | None => key_error end.

  (* ---------------- Tree._as_newick_fast (trees.py, fix 1e12f75) ---------------- *)
  (* W = len(f"{max_branch:.{precision}f}"), max_branch = time(root) - nodes_time.min():
     float rendering, passed in.  max_label_size = len(str(num_nodes)) = |dec N|. *)
  Definition estimate (N W : Z) : Z :=
    c18_estimate_extra + (c18_estimate_per_node + zlen (dec N) + W) * N.

  Definition as_newick_fast (a : ctree) (N root : Z) (ms : bool) (prec W : Z) : res str :=
    c_newick a N root ms prec (estimate N W).

  (* ---------------- Tree.as_newick path choice and label dictionaries ---------------- *)
  (* node_labels.get(u, ""): None -> {u: f"n{u}" for samples}; LEGACY_MS_LABELS ->
     {u: f"{u+1}" for u in self.leaves(root)} (fix dad8003) *)
  Definition lab_fn (a : ctree) (t : rtree) (l : labspec) : Z -> str :=
    match l with
    | LabDefault => lab_default a
    | LabMs => lab_ms_of (leaf_ids t)
    | LabDict d => lab_dict d
    end.

  Definition as_newick (a : ctree) (N : Z) (t : rtree)
             (l : labspec) (ibl : bool) (prec W : Z) : res str :=
    match ibl, l with
    | true, LabDefault => as_newick_fast a N (rid t) false prec W
    | true, LabMs => as_newick_fast a N (rid t) true prec W
    | _, _ => it_newick (lab_fn a t l) ibl prec t
    end.
  (* argument checks around the writers: Tree_get_newick (_tskitmodule.c) rejects a precision
     outside 0..17 with ValueError on the fast path; str.format rejects a negative precision on
     both paths ([Err err_value] = ValueError) *)
  Definition as_newick_guarded (a : ctree) (N : Z) (t : rtree)
             (l : labspec) (ibl : bool) (prec W : Z) : res str :=
    match ibl, l with
    | false, _ => as_newick a N t l ibl prec W               (* no number is rendered *)
    | true, LabDict _ =>
        if (prec <? 0) && negb (match rkids t with [] => true | _ => false end)
        then Err err_value else as_newick a N t l ibl prec W
    | true, _ =>
        if (prec <? 0) || (prec >? 17) then Err err_value else as_newick a N t l ibl prec W
    end.
End Writers.

(* the buffer-size formula of Tree._as_newick_fast BEFORE fix 1e12f75 (finding F5):
   1 + (5 + ceil(log10 N) + ceil(log10(max(1, root_time))) + precision) * N *)
Definition estimate_pinned (N T prec : Z) : Z := 1 + (5 + clog10 N + T + prec) * N.

(* ------------------------------------------------------------------ *)
(* wrap_text, FASTA, nexus                                              *)
(* ------------------------------------------------------------------ *)
Fixpoint chunks (n : nat) (w : nat) (s : str) : list str * str :=
  match n with
  | O => ([], s)
  | S n' => let (l, r) := chunks n' w (skipn w s) in (firstn w s :: l, r)
  end.

(* text_formats.wrap_text (l.175-188); [Err 0] = ZeroDivisionError (empty text, width 0) *)
Definition wrap_text (s : str) (w : Z) : res (list str) :=
  let width := if w =? 0 then zlen s else w in
  if width =? 0 then Err 0 else
  let n := zlen s / width in
  let (ls, r) := chunks (Z.to_nat n) (Z.to_nat width) s in
  Ok (ls ++ match r with [] => [] | _ => [r] end).      (* if offset != len(text) *)

Definition nl : Z := 10.

(* text_formats.write_fasta (l.208-215), after the wrap_width validation *)
Fixpoint fasta_text (w : Z) (recs : list (Z * str)) : res str :=
  match recs with
  | [] => Ok []
  | (u, al) :: r =>
      do ls <- wrap_text al w;
      do rest <- fasta_text w r;
      Ok (62 :: c18_label_prefix ++ dec u ++ [nl] ++ concat (map (fun l => l ++ [nl]) ls) ++ rest)
  end.

(* own FASTA reader: split at newlines, '>' starts a record *)
Fixpoint split_lines_aux (s : str) (cur : str) : list str :=
  match s with
  | [] => match cur with [] => [] | _ => [rev cur] end
  | c :: r => if c =? 10 then rev cur :: split_lines_aux r [] else split_lines_aux r (c :: cur)
  end.
Definition split_lines (s : str) : list str := split_lines_aux s [].

Fixpoint fasta_records (lines : list str) (cur : option (str * str)) : list (str * str) :=
  match lines with
  | [] => match cur with Some r => [r] | None => [] end
  | l :: r =>
      match l with
      | 62 :: h => (match cur with Some rc => [rc] | None => [] end) ++ fasta_records r (Some (h, []))
      | _ => match cur with
             | Some (h, sq) => fasta_records r (Some (h, sq ++ l))
             | None => fasta_records r None
             end
      end
  end.
Definition read_fasta (s : str) : list (str * str) := fasta_records (split_lines s) None.

(* text_formats.write_nexus (l.113-172) as a list of lines.  Inputs: sample ids; the DATA
   block (NCHAR, missing char, one alignment per sample) if included; the TREES block
   (interval tokens and newick string per marginal tree, in order) if included. *)
Definition sp : Z := 32.
Definition nexus_tree_line (t : (str * str) * str) : str :=
  let '((l, r), nwk) := t in
  s2z "  TREE t" ++ l ++ [94] ++ r ++ s2z " = [&R] " ++ nwk.

Definition nexus_lines (samples : list Z) (data : option (Z * str * list str))
           (trees : option (list ((str * str) * str))) : list str :=
  [s2z "#NEXUS"; s2z "BEGIN TAXA;";
   s2z "  DIMENSIONS NTAX=" ++ dec (zlen samples) ++ [59];
   s2z "  TAXLABELS " ++ join sp (map (fun u => c18_label_prefix ++ dec u) samples) ++ [59];
   s2z "END;"]
  ++ (match data with
      | None => []
      | Some (nchar, mdc, als) =>
          [s2z "BEGIN DATA;";
           s2z "  DIMENSIONS NCHAR=" ++ dec nchar ++ [59];
           s2z "  FORMAT DATATYPE=DNA MISSING=" ++ mdc ++ [59];
           s2z "  MATRIX"]
          ++ map (fun ua => s2z "    " ++ c18_label_prefix ++ dec (fst ua) ++ [sp] ++ snd ua)
                 (combine samples als)
          ++ [s2z "  ;"; s2z "END;"]
      end)
  ++ (match trees with
      | None => []
      | Some ts => [s2z "BEGIN TREES;"] ++ map nexus_tree_line ts ++ [s2z "END;"]
      end).

(* own reader of the TREES block: lines "  TREE t<l>^<r> = [&R] <newick>" *)
Fixpoint strip_prefix (p s : str) : option str :=
  match p, s with
  | [], _ => Some s
  | a :: p', b :: s' => if a =? b then strip_prefix p' s' else None
  | _, [] => None
  end.
Fixpoint split_at (c : Z) (s : str) : option (str * str) :=
  match s with
  | [] => None
  | x :: r => if x =? c then Some ([], r) else
              match split_at c r with Some (a, b) => Some (x :: a, b) | None => None end
  end.
Definition read_tree_line (l : str) : option ((str * str) * str) :=
  match strip_prefix (s2z "  TREE t") l with
  | None => None
  | Some r1 =>
      match split_at 94 r1 with
      | None => None
      | Some (lft, r2) =>
          match split_at 32 r2 with
          | None => None
          | Some (rgt, r3) =>
              match strip_prefix (s2z "= [&R] ") r3 with
              | Some nwk => Some ((lft, rgt), nwk)
              | None => None
              end
          end
      end
  end.
Fixpoint filter_map {A B} (f : A -> option B) (l : list A) : list B :=
  match l with [] => [] | x :: r => match f x with Some y => y :: filter_map f r | None => filter_map f r end end.
(* names of the blocks of a nexus file: the lines "BEGIN <name>;" *)
Definition block_name (l : str) : option str :=
  match strip_prefix (s2z "BEGIN ") l with
  | Some r => match rev r with 59 :: b => Some (rev b) | _ => None end
  | None => None
  end.

Definition block_names (lines : list str) : list str := filter_map block_name lines.

Definition read_nexus_trees (lines : list str) : list ((str * str) * str) :=
  filter_map read_tree_line lines.

(* own readers of the TAXA and DATA blocks *)
Fixpoint split_sp (s cur : str) : list str :=
  match s with
  | [] => [rev cur]
  | c :: r => if c =? 32 then rev cur :: split_sp r [] else split_sp r (c :: cur)
  end.
Definition read_taxlabels_line (l : str) : option (list str) :=
  match strip_prefix (s2z "  TAXLABELS ") l with
  | Some r =>
      match rev r with
      | 59 :: body => Some (match rev body with [] => [] | b => split_sp b [] end)
      | _ => None
      end
  | None => None
  end.
Fixpoint read_nexus_taxa (lines : list str) : option (list str) :=
  match lines with
  | [] => None
  | l :: r => match read_taxlabels_line l with Some x => Some x | None => read_nexus_taxa r end
  end.
(* the MATRIX rows "    <label> <sequence>" up to the line "  ;" *)
Fixpoint read_nexus_rows (lines : list str) (inside : bool) : list (str * str) :=
  match lines with
  | [] => []
  | l :: r =>
      if inside then
        if str_eqb l (s2z "  ;") then [] else
        match strip_prefix (s2z "    ") l with
        | Some x => match split_at 32 x with
                    | Some ha => ha :: read_nexus_rows r true
                    | None => read_nexus_rows r true
                    end
        | None => read_nexus_rows r true
        end
      else if str_eqb l (s2z "  MATRIX") then read_nexus_rows r true else read_nexus_rows r false
  end.

(* ------------------------------------------------------------------ *)
(* Exact instance: times are integers counting units of 10^-q and are printed with q
   decimals ([print_fixed]); covers integer times at any precision and dyadic times k/8 at
   precision >= 3, where "%.*f" involves no rounding.                                     *)
(* ------------------------------------------------------------------ *)
Definition fx_tm (times : list Z) (v : Z) : Z := match get times v with Ok x => x | _ => 0 end.
Definition cdiv (x y : Z) : Z := (x + y - 1) / y.
(* math.ceil(math.log10(max(1, root_time))) for root_time = x / 10^q (pre-fix formula only) *)
Definition fx_T (q x : Z) : Z := clog10 (Z.max 1 (cdiv x (10 ^ q))).
Definition list_min (l : list Z) : Z :=
  match l with [] => 0 | x :: r => fold_left Z.min r x end.

(* ------------------------------------------------------------------ *)
(* Correspondence entry points (evaluated by vm_compute on harness cases) *)
(* ------------------------------------------------------------------ *)
(* opaque-token instance: the "time" of node v is (v, v); subtraction pairs parent and child
   ids; rendering looks the pair up in the table of tokens the implementation printed. *)
Definition tok_tm (v : Z) : Z * Z := (v, v).
Definition tok_sub (a b : Z * Z) : Z * Z := (fst a, fst b).
Fixpoint lookup2 (d : list ((Z * Z) * str)) (k : Z * Z) : str :=
  match d with
  | [] => s2z "<no-token>"
  | ((p, c), v) :: r => if (p =? fst k) && (c =? snd k) then v else lookup2 r k
  end.
Definition tok_print (d : list ((Z * Z) * str)) (_ : Z) (k : Z * Z) : str := lookup2 d k.

Inductive fast_obs : Type :=
| FastOk (bufsize : Z) (s : str)
| FastOverflow (bufsize : Z).

Definition res_str_eqb (r : res str) (s : str) : bool :=
  match r with Ok x => str_eqb x s | _ => false end.
Definition res_is_err (r : res str) (c : Z) : bool :=
  match r with Err x => x =? c | _ => false end.

(* what Tree.as_newick itself returned *)
Inductive out_obs : Type := OutStr (s : str) | OutOverflow | OutValueError | OutSkip.

Definition res_eq_obs (r : res str) (o : out_obs) : bool :=
  match o with
  | OutStr s => res_str_eqb r s
  | OutOverflow => res_is_err r c18_err_buffer_overflow
  | OutValueError => res_is_err r err_value
  | OutSkip => true
  end.

Definition c18_check_newick (a : ctree) (N : Z) (t : rtree) (rp : Z)
           (toks : list ((Z * Z) * str)) (l : labspec) (ibl : bool) (prec : Z)
           (fast : option fast_obs) (general : str) (W : Z) (out : out_obs) : bool :=
  let pn := tok_print toks in
  let lab := lab_fn a t l in
  let ms := match l with LabMs => true | _ => false end in
  (* Tree.as_newick: path choice, label dictionaries, buffer estimate *)
  res_eq_obs (as_newick_guarded _ tok_sub pn tok_tm a N t l ibl prec W) out &&
  repb a rp t && nodupb (ids t) && negb (memb rp (ids t)) &&
  (* text_formats.build_newick (iterative) *)
  res_str_eqb (it_newick _ tok_sub pn tok_tm lab ibl prec t) general &&
  (* ... equals the recursive specification, and parses back *)
  str_eqb (py_newick _ tok_sub pn tok_tm lab ibl prec t) general &&
  (match parse_newick general with
   | Ok x => nw_eqb x (ast_of _ tok_sub pn tok_tm lab ibl prec None t)
   | _ => negb (forallb (fun v => cleanb (lab v)) (ids t))       (* unclean custom labels *)
   end) &&
  (match fast with
   | None => true
   | Some (FastOk B s) =>
       res_str_eqb (c_newick _ tok_sub pn tok_tm a N (rid t) ms prec B) s && (estimate N W =? B)
   | Some (FastOverflow B) =>
       res_is_err (c_newick _ tok_sub pn tok_tm a N (rid t) ms prec B) c18_err_buffer_overflow &&
       (estimate N W =? B)
   end).

Definition c18_check_exact (a : ctree) (N : Z) (t : rtree) (rp : Z) (q : Z) (times : list Z)
           (l : labspec) (ibl : bool) (prec : Z)
           (fast : option fast_obs) (general : str) (W : Z) (out : out_obs) : bool :=
  let tmf := fx_tm times in
  let pn := print_dec q in
  let lab := lab_fn a t l in
  let ms := match l with LabMs => true | _ => false end in
  let W' := zlen (pn prec (tmf (rid t) - list_min times)) in
  (W' =? W) &&
  res_eq_obs (as_newick_guarded Z Z.sub pn tmf a N t l ibl prec W') out &&
  repb a rp t && nodupb (ids t) && negb (memb rp (ids t)) &&
  res_str_eqb (it_newick Z Z.sub pn tmf lab ibl prec t) general &&
  (match fast with
   | None => true
   | Some (FastOk B s) =>
       res_str_eqb (c_newick Z Z.sub pn tmf a N (rid t) ms prec B) s && (estimate N W' =? B)
   | Some (FastOverflow B) =>
       res_is_err (c_newick Z Z.sub pn tmf a N (rid t) ms prec B) c18_err_buffer_overflow &&
       (estimate N W' =? B)
   end).

(* tree->num_edges, num_samples as the implementation reports them *)
Definition c18_check_size_bound (a : ctree) (num_samples num_edges : Z) : bool :=
  (num_samples_of a =? num_samples) && (num_edges_of a =? num_edges).

(* buffer size alone, for node counts beyond what the string checks can carry *)
Definition c18_check_bufsize (N W B : Z) : bool := estimate N W =? B.

(* default label dictionary of the general path, sibling order through right_sib, alignments fill *)
Definition c18_check_default_dict (a : ctree) (t : rtree) (samples : list Z) : bool :=
  list_eqb Z.eqb (samples_of a) samples &&
  forallb (fun v => str_eqb (lab_dict (default_dict samples) v) (lab_default a v)) (ids t).

Fixpoint c18_check_children (a : ctree) (rs : list Z) (t : rtree) : bool :=
  match t with
  | RN v kids =>
      (match children_c a rs v with Ok l => list_eqb Z.eqb l (map rid kids) | _ => false end) &&
      forallb (c18_check_children a rs) kids
  end.

Definition c18_check_alignments (L : Z) (ref : option str) (mdc : Z) (pos : list Z)
           (haps als : list str) : bool :=
  list_eqb str_eqb (map (alignment_of L ref mdc pos) haps) als.

(* write_nexus names tree k by the k-th and (k+1)-th BREAKPOINT, each formatted once from the
   breakpoint itself (tree.interval), never from accumulated spans *)
Fixpoint intervals_of (toks : list str) : list (str * str) :=
  match toks with
  | a :: ((b :: _) as r) => (a, b) :: intervals_of r
  | _ => []
  end.

(* precision=None (trees.py as_newick): 0 decimals iff ts.discrete_time, i.e. iff ALL node,
   mutation (unknown excluded) and migration times are integers; 17 otherwise.  Times as scaled
   integers x / 10^q. *)
Definition is_integral (q x : Z) : bool := x mod 10 ^ q =? 0.
Definition discrete_time (q : Z) (nodes muts migs : list Z) : bool :=
  forallb (is_integral q) nodes && forallb (is_integral q) muts && forallb (is_integral q) migs.
Definition resolve_precision (p : option Z) (q : Z) (nodes muts migs : list Z) : Z :=
  match p with
  | Some x => x
  | None => if discrete_time q nodes muts migs then 0 else 17
  end.
Definition c18_check_default_precision (q : Z) (nodes muts migs : list Z) (used : Z) : bool :=
  resolve_precision None q nodes muts migs =? used.

Definition c18_check_wrap (s : str) (w : Z) (obs : option (list str)) : bool :=
  match wrap_text s w, obs with
  | Ok ls, Some o => list_eqb str_eqb ls o
  | Err _, None => true
  | _, _ => false
  end.

Definition c18_check_fasta (w : Z) (recs : list (Z * str)) (text : str) : bool :=
  res_str_eqb (fasta_text w recs) text &&
  list_eqb (fun x y => str_eqb (fst x) (fst y) && str_eqb (snd x) (snd y))
           (read_fasta text) (map (fun r => (c18_label_prefix ++ dec (fst r), snd r)) recs).

Definition c18_check_nexus (samples : list Z) (inc_al : bool) (nchar : Z) (mdc : str)
           (als : list str) (inc_trees : bool) (trees : list ((str * str) * str))
           (lines : list str) : bool :=
  list_eqb str_eqb
    (nexus_lines samples (if inc_al then Some (nchar, mdc, als) else None)
                 (if inc_trees then Some trees else None)) lines &&
  list_eqb (fun x y => str_eqb (fst (fst x)) (fst (fst y)) && str_eqb (snd (fst x)) (snd (fst y))
                       && str_eqb (snd x) (snd y))
           (read_nexus_trees lines) (if inc_trees then trees else []) &&
  list_eqb str_eqb (block_names lines)
           ([s2z "TAXA"] ++ (if inc_al then [s2z "DATA"] else []) ++ (if inc_trees then [s2z "TREES"] else [])) &&
  opt_eqb (list_eqb str_eqb) (read_nexus_taxa lines)
          (Some (map (fun u => c18_label_prefix ++ dec u) samples)) &&
  list_eqb (fun x y => str_eqb (fst x) (fst y) && str_eqb (snd x) (snd y))
           (read_nexus_rows lines false)
           (if inc_al then map (fun ua => (c18_label_prefix ++ dec (fst ua), snd ua)) (combine samples als) else []).
