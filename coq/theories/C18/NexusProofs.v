(* C18 — nexus TAXA and DATA blocks: TAXLABELS read back = the labels of all samples in order;
   the MATRIX rows read back = (label, alignment) per sample in order. *)
From Coq Require Import List ZArith Bool Lia.
From TskVerif Require Import Base.Common Gen.Generated C18.Model C18.WriterProofs C18.TextProofs C18.FastaProofs.
Import ListNotations.
Open Scope Z_scope.

Definition slabel (u : Z) : str := c18_label_prefix ++ dec u.

Lemma slabel_no_sp : forall u, no_byte 32 (slabel u).
Proof.
  intros u. apply no_byte_in. intros x Hx. change (slabel u) with (110 :: dec u) in Hx.
  destruct Hx as [<-|Hx]; [discriminate|]. pose proof (dec_digits u x Hx). lia.
Qed.

Lemma split_sp_last : forall l cur, no_byte 32 l -> split_sp l cur = [rev cur ++ l].
Proof.
  induction l as [|c l IH]; intros cur H; cbn [split_sp]; [rewrite app_nil_r; reflexivity|].
  unfold no_byte in H. cbn [forallb] in H. apply andb_true_iff in H as [H1 H2].
  apply negb_true_iff in H1. rewrite H1, IH by exact H2. cbn [rev]. rewrite <- app_assoc. reflexivity.
Qed.

Lemma split_sp_step : forall l rest cur, no_byte 32 l ->
  split_sp (l ++ 32 :: rest) cur = (rev cur ++ l) :: split_sp rest [].
Proof.
  induction l as [|c l IH]; intros rest cur H; cbn [app split_sp].
  - rewrite Z.eqb_refl, app_nil_r. reflexivity.
  - unfold no_byte in H. cbn [forallb] in H. apply andb_true_iff in H as [H1 H2].
    apply negb_true_iff in H1. rewrite H1, IH by exact H2. cbn [rev]. rewrite <- app_assoc. reflexivity.
Qed.

Lemma split_sp_join : forall ls, ls <> [] -> Forall (no_byte 32) ls -> split_sp (join 32 ls) [] = ls.
Proof.
  induction ls as [|l ls IH]; intros Hne H; [congruence|]. inversion H; subst.
  destruct ls as [|l2 ls'].
  - cbn [join]. rewrite split_sp_last by assumption. reflexivity.
  - change (join 32 (l :: l2 :: ls')) with (l ++ 32 :: join 32 (l2 :: ls')).
    rewrite split_sp_step by assumption. cbn [rev app]. f_equal. apply IH; [discriminate | assumption].
Qed.

Lemma join_nonempty : forall (ls : list str), ls <> [] -> (forall l, In l ls -> l <> []) -> join 32 ls <> [].
Proof.
  intros [|l ls] Hne H; [congruence|]. specialize (H l (or_introl eq_refl)).
  destruct ls; cbn [join]; destruct l; try congruence; discriminate.
Qed.

Lemma read_taxlabels_ok : forall samples,
  read_taxlabels_line (s2z "  TAXLABELS " ++ join sp (map slabel samples) ++ [59]) = Some (map slabel samples).
Proof.
  intros samples. unfold read_taxlabels_line. rewrite strip_prefix_app.
  rewrite rev_app_distr. cbn [rev app]. rewrite rev_involutive.
  destruct samples as [|u us]; [reflexivity|].
  assert (Hne : map slabel (u :: us) <> []) by discriminate.
  assert (Hj : join sp (map slabel (u :: us)) <> []).
  { apply join_nonempty; auto. intros l Hl. apply in_map_iff in Hl as (x & <- & _).
    change (slabel x) with (110 :: dec x). discriminate. }
  destruct (join sp (map slabel (u :: us))) as [|c r] eqn:E; [congruence|].
  rewrite <- E. unfold sp. rewrite split_sp_join; auto.
  apply Forall_forall. intros l Hl. apply in_map_iff in Hl as (x & <- & _). apply slabel_no_sp.
Qed.

Theorem nexus_taxa_block : forall samples data trees,
  read_nexus_taxa (nexus_lines samples data trees) = Some (map slabel samples).
Proof.
  intros. unfold nexus_lines. cbn [app read_nexus_taxa].
  change (read_taxlabels_line (s2z "#NEXUS")) with (@None (list str)).
  change (read_taxlabels_line (s2z "BEGIN TAXA;")) with (@None (list str)).
  change (read_taxlabels_line (s2z "  DIMENSIONS NTAX=" ++ dec (zlen samples) ++ [59])) with (@None (list str)).
  cbv iota. fold slabel.
  change (map (fun u : Z => c18_label_prefix ++ dec u) samples) with (map slabel samples).
  rewrite read_taxlabels_ok. reflexivity.
Qed.

Lemma rows_read : forall rows more,
  read_nexus_rows (map (fun ua : Z * str => s2z "    " ++ slabel (fst ua) ++ [sp] ++ snd ua) rows
                   ++ s2z "  ;" :: more) true
  = map (fun ua => (slabel (fst ua), snd ua)) rows.
Proof.
  induction rows as [|[u al] rows IH]; intros more; cbn [map app read_nexus_rows].
  - reflexivity.
  - change (str_eqb (s2z "    " ++ slabel (fst (u, al)) ++ [sp] ++ snd (u, al)) (s2z "  ;")) with false.
    cbv iota. rewrite strip_prefix_app. cbn [fst snd app]. unfold sp.
    rewrite split_at_app by apply slabel_no_sp. rewrite IH. reflexivity.
Qed.

Theorem nexus_data_block : forall samples nchar mdc als trees,
  read_nexus_rows (nexus_lines samples (Some (nchar, mdc, als)) trees) false
  = map (fun ua => (slabel (fst ua), snd ua)) (combine samples als) /\
  read_nexus_rows (nexus_lines samples None trees) false = [].
Proof.
  intros. split.
  - unfold nexus_lines. cbn [app read_nexus_rows].
    repeat match goal with
    | |- context [str_eqb ?x (s2z "  MATRIX")] =>
        first [ change (str_eqb x (s2z "  MATRIX")) with false | change (str_eqb x (s2z "  MATRIX")) with true ];
        cbv iota
    end.
    rewrite <- app_assoc. cbn [app].
    change (map (fun ua : Z * str => s2z "    " ++ c18_label_prefix ++ dec (fst ua) ++ [sp] ++ snd ua) (combine samples als))
      with (map (fun ua : Z * str => s2z "    " ++ slabel (fst ua) ++ [sp] ++ snd ua) (combine samples als)).
    apply rows_read.
  - unfold nexus_lines. cbn [app read_nexus_rows].
    repeat match goal with
    | |- context [str_eqb ?x (s2z "  MATRIX")] =>
        change (str_eqb x (s2z "  MATRIX")) with false; cbv iota
    end.
    destruct trees as [ts|]; cbn [app read_nexus_rows]; [|reflexivity].
    change (str_eqb (s2z "BEGIN TREES;") (s2z "  MATRIX")) with false. cbv iota.
    induction ts as [|[[l r] nwk] ts IH]; cbn [map app read_nexus_rows]; [reflexivity|].
    change (str_eqb (nexus_tree_line (l, r, nwk)) (s2z "  MATRIX")) with false. cbv iota. exact IH.
Qed.

Example ex_nexus_data :
  let lines := nexus_lines [0; 2; 5] (Some (4, s2z "?", [s2z "ACGT"; s2z "A?GT"; s2z "ACG?"])) None in
  read_nexus_taxa lines = Some [s2z "n0"; s2z "n2"; s2z "n5"] /\
  read_nexus_rows lines false = [(s2z "n0", s2z "ACGT"); (s2z "n2", s2z "A?GT"); (s2z "n5", s2z "ACG?")].
Proof. vm_compute. split; reflexivity. Qed.
