(* C18 — the iterative build_newick (post-order + dictionary of finished subtrees, fix d25c4f6)
   computes exactly the string of the recursive writer it replaced, which stays the
   specification [py_build] used by all other theorems. *)
From Coq Require Import List ZArith Bool Lia.
From TskVerif Require Import Base.Common Gen.Generated C18.Model C18.ParserProofs C18.WriterProofs.
Import ListNotations.
Open Scope Z_scope.

Lemma nodup_app_l' : forall {A} (x y : list A), NoDup (x ++ y) -> NoDup x.
Proof.
  induction x as [|a x IH]; intros y H; [constructor|]. simpl in H. inversion H; subst.
  constructor; eauto. intro Hin. apply H2. apply in_or_app. auto.
Qed.
Lemma nodup_app_r' : forall {A} (x y : list A), NoDup (x ++ y) -> NoDup y.
Proof. induction x as [|a x IH]; intros y H; auto. simpl in H. inversion H; eauto. Qed.
Lemma nodup_app_disj' : forall {A} (x y : list A) v, NoDup (x ++ y) -> In v x -> In v y -> False.
Proof.
  induction x as [|a x IH]; intros y v H Hx Hy; [destruct Hx|]. simpl in H. inversion H; subst.
  destruct Hx as [<-|Hx]; [apply H2; apply in_or_app; auto | eauto].
Qed.

Lemma nodup_kid_ids : forall kids, NoDup (flat_map ids kids) -> NoDup (map rid kids).
Proof.
  induction kids as [|k ks IH]; intros H; simpl; constructor.
  - cbn [flat_map] in H. intro Hin. apply map_rid_incl in Hin.
    eapply (nodup_app_disj' _ _ (rid k) H); auto. apply rid_in_ids.
  - apply IH. cbn [flat_map] in H. eapply nodup_app_r'; eauto.
Qed.

Section Iter.
  Variable Tm : Type.
  Variable tsub : Tm -> Tm -> Tm.
  Variable print_num : Z -> Tm -> str.
  Variable tm : Z -> Tm.
  Variable lab : Z -> str.
  Variable ibl : bool.
  Variable prec : Z.

  Notation pyb := (py_build Tm tsub print_num tm lab ibl prec).
  Notation tokpart := (fun v k => if ibl then 58 :: btoken Tm tsub print_num tm prec v (rid k) else []).
  Notation run := (it_run Tm tsub print_num tm lab ibl prec).

  Definition pushed (kids : list rtree) : list (Z * str) := rev (map (fun k => (rid k, pyb k)) kids).

  Lemma dpop_mid : forall pre k s post,
    ~ In k (map fst pre) -> dpop (pre ++ (k, s) :: post) k = Some (s, pre ++ post).
  Proof.
    induction pre as [|[k' s'] pre IH]; intros k s post H; cbn [app dpop].
    - rewrite Z.eqb_refl. reflexivity.
    - simpl in H. replace (k' =? k) with false by (symmetry; apply Z.eqb_neq; intuition).
      rewrite IH by intuition. reflexivity.
  Qed.

  Lemma pushed_keys : forall kids x, In x (map fst (pushed kids)) -> In x (map rid kids).
  Proof.
    intros kids x H. unfold pushed in H. rewrite map_rev, map_map in H. apply in_rev in H. exact H.
  Qed.

  Lemma pop_parts_pushed : forall v kids d, NoDup (map rid kids) ->
    pop_parts Tm tsub print_num tm ibl prec v (pushed kids ++ d) kids
    = Ok (map (fun k => pyb k ++ tokpart v k) kids, d).
  Proof.
    induction kids as [|k ks IH]; intros d Hnd; [reflexivity|].
    inversion Hnd; subst. cbn [pop_parts].
    unfold pushed. cbn [map rev]. fold (pushed ks). rewrite <- app_assoc. cbn [app].
    rewrite dpop_mid by (intro Hin; apply pushed_keys in Hin; auto).
    rewrite IH by assumption. reflexivity.
  Qed.

  Definition post_ok (t : rtree) : Prop :=
    forall d rest, NoDup (ids t) ->
      run (post_nodes t ++ rest) d = run rest ((rid t, pyb t) :: d).

  Lemma run_kids : forall kids, Forall post_ok kids -> NoDup (flat_map ids kids) ->
    forall d rest, run (flat_map post_nodes kids ++ rest) d = run rest (pushed kids ++ d).
  Proof.
    induction kids as [|k ks IH]; intros HF Hnd d rest; [reflexivity|].
    inversion HF as [|? ? Hk Hks]; subst. cbn [flat_map] in *.
    rewrite <- app_assoc. rewrite Hk by (eapply nodup_app_l'; eauto).
    rewrite IH by (auto; eapply nodup_app_r'; eauto).
    unfold pushed. cbn [map rev]. rewrite <- app_assoc. reflexivity.
  Qed.

  Lemma pyb_join : forall v k ks,
    pyb (RN v (k :: ks))
    = 40 :: join 44 (map (fun x => pyb x ++ tokpart v x) (k :: ks)) ++ 41 :: lab v.
  Proof.
    intros v k ks. cbn [py_build].
    set (g := fun k0 : rtree => pyb k0 ++ (if ibl then 58 :: btoken Tm tsub print_num tm prec v (rid k0) else []) ++ [44]).
    assert (E : map g (k :: ks) = map (fun x => x ++ [44]) (map (fun x => pyb x ++ tokpart v x) (k :: ks))).
    { rewrite map_map. apply map_ext. intros x. unfold g. cbv beta. rewrite <- app_assoc. reflexivity. }
    change (removelast (40 :: concat (map g (k :: ks))))
      with (removelast ([40] ++ concat (map g (k :: ks)))).
    rewrite removelast_app.
    2:{ cbn [map concat]. unfold g. intro Hc. apply app_eq_nil in Hc as [Hc _].
        apply app_eq_nil in Hc as [_ Hc]. apply app_eq_nil in Hc as [_ Hc]. discriminate. }
    rewrite E, concat_sep_join by discriminate. cbn [app]. rewrite <- ?app_assoc. reflexivity.
  Qed.

  Lemma post_ok_all : forall t, post_ok t.
  Proof.
    induction t as [v kids IH] using rtree_ind'. intros d rest Hnd.
    cbn [post_nodes]. rewrite <- app_assoc. cbn [ids] in Hnd. inversion Hnd as [|? ? Hv Hk]; subst.
    rewrite run_kids by assumption. cbn [app it_run].
    destruct kids as [|k ks].
    - cbn [it_step bind pushed map rev app rid py_build]. reflexivity.
    - unfold it_step. rewrite pop_parts_pushed by (apply nodup_kid_ids; assumption).
      cbn [bind fst snd rid]. rewrite pyb_join. reflexivity.
  Qed.

  Theorem it_newick_eq_recursive : forall t, NoDup (ids t) ->
    it_newick Tm tsub print_num tm lab ibl prec t
    = Ok (py_newick Tm tsub print_num tm lab ibl prec t).
  Proof.
    intros t Hnd. unfold it_newick.
    rewrite <- (app_nil_r (post_nodes t)). rewrite post_ok_all by assumption.
    cbn [it_run bind lookup]. rewrite Z.eqb_refl. reflexivity.
  Qed.
End Iter.

(* the hypothesis matters: the dictionary is keyed by node id *)
Example ex_iter :
  it_newick Z Z.sub print_fixed (fx_tm [0; 0; 5; 20; 300]) (fun v => dec v) true 1
            (RN 4 [RN 3 [RN 0 []; RN 1 []]; RN 2 []])
  = Ok (s2z "((0:2.0,1:2.0)3:28.0,2:29.5)4;").
Proof. vm_compute. reflexivity. Qed.
