(* C18 — final round: default-label semantics on both paths, sibling order, virtual root on the
   fast path, nexus block structure, alignments() fill (reference / missing character). *)
From Coq Require Import List ZArith Bool Lia.
From TskVerif Require Import Base.Common Gen.Generated C18.Model C18.ParserProofs C18.WriterProofs
  C18.BufferProofs C18.TextProofs C18.LabelProofs C18.FastaProofs C18.SafetyProofs C18.IterProofs
  C18.AsNewickProofs.
Import ListNotations.
Open Scope Z_scope.

(* ---------- A. default labels ---------- *)
Lemma lookup_map_key : forall (f : Z -> str) l v,
  lookup (map (fun u => (u, f u)) l) v = if memb v l then Some (f v) else None.
Proof.
  induction l as [|x l IH]; intros v; [reflexivity|]. cbn [map lookup]. unfold memb. cbn [existsb].
  rewrite (Z.eqb_sym v x). destruct (x =? v) eqn:E.
  - apply Z.eqb_eq in E. subst. reflexivity.
  - cbn [orb]. apply IH.
Qed.

Lemma samples_of_mem : forall a v, memb v (samples_of a) = is_sample a v.
Proof.
  intros a v. destruct (is_sample a v) eqn:E.
  - apply memb_true_iff. unfold samples_of. apply filter_In. split; auto.
    unfold is_sample in E. destruct (get (ct_flags a) v) as [f| | |] eqn:G; try discriminate.
    pose proof (get_ok_range _ _ _ G) as Hr. unfold zlen in Hr.
    apply in_map_iff. exists (Z.to_nat v). split; [lia|]. apply in_seq. lia.
  - destruct (memb v (samples_of a)) eqn:M; auto. apply memb_true_iff in M.
    unfold samples_of in M. apply filter_In in M as [_ M]. congruence.
Qed.

(* the dictionary {u: f"n{u}" for u in ts.samples()} looked up with .get(v, "") *)
Theorem default_dict_rule : forall a v, lab_dict (default_dict (samples_of a)) v = lab_default a v.
Proof.
  intros. unfold lab_dict, default_dict, lab_default. rewrite lookup_map_key, samples_of_mem.
  destruct (is_sample a v); reflexivity.
Qed.

(* n<id> exactly for the nodes flagged as samples — internal ones included, whatever the number
   of children; nothing for any other node, leaves included *)
Theorem default_label_is_sample_flag : forall a v f,
  get (ct_flags a) v = Ok f ->
  lab_dict (default_dict (samples_of a)) v
  = if Z.testbit (Z.land f 1) 0 then 110 :: dec v else [].
Proof.
  intros a v f H. rewrite default_dict_rule. unfold lab_default, is_sample. rewrite H. reflexivity.
Qed.

Section Ext.
  Variable Tm : Type.
  Variable tsub : Tm -> Tm -> Tm.
  Variable print_num : Z -> Tm -> str.
  Variable tm : Z -> Tm.

  Lemma py_build_ext : forall lab lab' ibl prec t, (forall v, lab v = lab' v) ->
    py_build Tm tsub print_num tm lab ibl prec t = py_build Tm tsub print_num tm lab' ibl prec t.
  Proof.
    intros lab lab' ibl prec t H. induction t as [v kids IH] using rtree_ind'.
    cbn [py_build]. destruct kids as [|k ks]; [apply H|]. rewrite H. f_equal. f_equal. f_equal. f_equal.
    apply map_ext_in. intros x Hx. rewrite Forall_forall in IH. rewrite (IH x Hx). reflexivity.
  Qed.

  (* both paths of as_newick with node_labels=None produce the writer's output for the slow
     path's own default map, with and without branch lengths *)
  Theorem as_newick_default_map : forall (a : ctree) (N rp : Z) (t : rtree),
    repb a rp t = true -> nodupb (ids t) = true -> memb rp (ids t) = false ->
    (forall v, In v (ids t) -> 0 <= v < N) ->
    (forall v, In v (ids t) -> exists f, get (ct_flags a) v = Ok f) ->
    forall (ibl : bool) (prec W : Z),
      0 <= W ->
      (forall p c, In (p, c) (redges t) -> zlen (btoken Tm tsub print_num tm prec p c) <= W) ->
      as_newick Tm tsub print_num tm a N t LabDefault ibl prec W
      = Ok (py_newick Tm tsub print_num tm (lab_dict (default_dict (samples_of a))) ibl prec t).
  Proof.
    intros a N rp t H1 H2 H3 H4 H5 ibl prec W HW Ht.
    rewrite (as_newick_succeeds Tm tsub print_num tm a N rp t H1 H2 H3 H4 H5 LabDefault ibl prec W HW Ht).
    unfold py_newick. cbn [lab_fn]. f_equal. f_equal. apply py_build_ext.
    intros v. symmetry. apply default_dict_rule.
  Qed.

  (* ---------- C. the virtual root (= num_nodes) and any other non-node on the fast path ---------- *)
  Theorem fast_path_rejects_non_nodes : forall (a : ctree) (N root : Z) (ms : bool) (prec B : Z),
    root < 0 \/ N <= root ->
    c_newick Tm tsub print_num tm a N root ms prec B = Err c18_err_node_out_of_bounds.
  Proof.
    intros a N root ms prec B H. unfold c_newick.
    replace ((root <? 0) || (root >=? N)) with true; [reflexivity|].
    symmetry. apply orb_true_iff. destruct H; [left; apply Z.ltb_lt; lia | right; rewrite Z.geb_leb; apply Z.leb_le; lia].
  Qed.
End Ext.

(* ---------- B. sibling order ---------- *)
(* C01's link consistency for one node: right_sib runs through the children left to right *)
Fixpoint rs_ok (rs : list Z) (kids : list rtree) : Prop :=
  match kids with
  | [] => True
  | k :: r => get rs (rid k) = Ok (first_id r) /\ rs_ok rs r
  end.

Lemma chain_rs_spec : forall rs kids fuel, rs_ok rs kids -> (length kids < fuel)%nat ->
  chain_rs fuel rs (first_id kids) = Ok (map rid kids).
Proof.
  induction kids as [|k r IH]; intros fuel H Hf.
  - destruct fuel; [lia|]. reflexivity.
  - destruct fuel as [|f]; [lia|]. destruct H as [H1 H2]. cbn [first_id chain_rs map].
    pose proof (get_ok_range _ _ _ H1).
    replace (rid k =? -1) with false by (symmetry; apply Z.eqb_neq; lia).
    rewrite H1. cbn [bind]. rewrite IH; [reflexivity | assumption | simpl in Hf; lia].
Qed.

Lemma rs_ok_range : forall rs kids, rs_ok rs kids -> forall x, In x (map rid kids) -> 0 <= x < zlen rs.
Proof.
  induction kids as [|k r IH]; intros H x Hx; [destruct Hx|]. destruct H as [H1 H2].
  destruct Hx as [<-|Hx]; [eapply get_ok_range; eauto | auto].
Qed.

(* tree.children(v) (left_child, then right_sib) is the child list both writers iterate *)
Theorem children_in_link_order : forall a rs p v kids,
  repb a p (RN v kids) = true -> rs_ok rs kids -> NoDup (map rid kids) ->
  children_c a rs v = Ok (map rid kids).
Proof.
  intros a rs p v kids Hrep Hrs Hnd. apply repb_unfold in Hrep as (_ & Hlc & _ & _ & _).
  unfold children_c. rewrite Hlc. cbn [bind]. apply chain_rs_spec; auto.
  assert (length (map rid kids) <= length rs)%nat.
  { apply pigeon; auto. intros x Hx. pose proof (rs_ok_range _ _ Hrs x Hx). unfold zlen in *. lia. }
  rewrite map_length in H. lia.
Qed.

(* ... and the output lists the children in exactly that order *)
Lemma ast_children_order : forall Tm tsub print_num tm lab ibl prec up v kids,
  match ast_of Tm tsub print_num tm lab ibl prec up (RN v kids) with
  | NW ks _ _ => map (fun k => match k with NW _ name _ => name end) ks = map (fun k => lab (rid k)) kids
  end.
Proof.
  intros. cbn [ast_of]. rewrite map_map. apply map_ext. intros [w wk]. reflexivity.
Qed.

(* ---------- D. nexus block structure ---------- *)
Theorem nexus_blocks : forall samples data trees,
  hd [] (nexus_lines samples data trees) = s2z "#NEXUS" /\
  block_names (nexus_lines samples data trees)
  = [s2z "TAXA"] ++ (match data with Some _ => [s2z "DATA"] | None => [] end)
    ++ (match trees with Some _ => [s2z "TREES"] | None => [] end).
Proof.
  intros. split; [reflexivity|]. unfold block_names, nexus_lines.
  rewrite !filter_map_app.
  assert (H1 : filter_map block_name
            [s2z "#NEXUS"; s2z "BEGIN TAXA;";
             s2z "  DIMENSIONS NTAX=" ++ dec (zlen samples) ++ [59];
             s2z "  TAXLABELS " ++ join sp (map (fun u => c18_label_prefix ++ dec u) samples) ++ [59];
             s2z "END;"] = [s2z "TAXA"]) by reflexivity.
  rewrite H1.
  assert (HD : filter_map block_name
            (match data with
             | None => []
             | Some (nchar, mdc, als) =>
                 [s2z "BEGIN DATA;"; s2z "  DIMENSIONS NCHAR=" ++ dec nchar ++ [59];
                  s2z "  FORMAT DATATYPE=DNA MISSING=" ++ mdc ++ [59]; s2z "  MATRIX"]
                 ++ map (fun ua => s2z "    " ++ c18_label_prefix ++ dec (fst ua) ++ [sp] ++ snd ua)
                        (combine samples als)
                 ++ [s2z "  ;"; s2z "END;"]
             end) = match data with Some _ => [s2z "DATA"] | None => [] end).
  { destruct data as [[[nchar mdc] als]|]; [|reflexivity].
    rewrite !filter_map_app.
    rewrite (filter_map_none block_name (map _ _)); [reflexivity|].
    apply Forall_forall. intros x Hx. apply in_map_iff in Hx as (ua & <- & _). reflexivity. }
  assert (HT : filter_map block_name
            (match trees with
             | None => []
             | Some ts => [s2z "BEGIN TREES;"] ++ map nexus_tree_line ts ++ [s2z "END;"]
             end) = match trees with Some _ => [s2z "TREES"] | None => [] end).
  { destruct trees as [ts|]; [|reflexivity]. rewrite !filter_map_app.
    rewrite (filter_map_none block_name (map nexus_tree_line ts)); [reflexivity|].
    apply Forall_forall. intros x Hx. apply in_map_iff in Hx as ([[l r] nwk] & <- & _). reflexivity. }
  rewrite HD, HT. reflexivity.
Qed.

(* ---------- E. alignments(): reference / missing character outside the sites ---------- *)
Lemma set_at_length : forall s i c, length (set_at s i c) = length s.
Proof. induction s as [|x s IH]; intros [|i] c; simpl; auto. Qed.

Lemma set_at_nth_other : forall s i c j d, i <> j -> nth j (set_at s i c) d = nth j s d.
Proof.
  induction s as [|x s IH]; intros [|i] c [|j] d H; simpl; auto; try congruence.
Qed.

Lemma set_at_nth_same : forall s i c d, (i < length s)%nat -> nth i (set_at s i c) d = c.
Proof. induction s as [|x s IH]; intros [|i] c d H; simpl in *; try lia; auto. apply IH. lia. Qed.

Lemma fill_sites_length : forall pos a h, length (fill_sites a pos h) = length a.
Proof.
  induction pos as [|p ps IH]; intros a h; [reflexivity|]. destruct h as [|c hs]; [reflexivity|].
  cbn [fill_sites]. rewrite IH. apply set_at_length.
Qed.

Lemma fill_sites_other : forall pos a h j d, ~ In j (map Z.to_nat pos) ->
  nth j (fill_sites a pos h) d = nth j a d.
Proof.
  induction pos as [|p ps IH]; intros a h j d H; [reflexivity|]. destruct h as [|c hs]; [reflexivity|].
  cbn [fill_sites]. rewrite IH by (intro Hin; apply H; right; exact Hin).
  apply set_at_nth_other. intro E. apply H. left. exact E.
Qed.

Lemma nth_repeat_in : forall {A} (a d : A) m n, (n < m)%nat -> nth n (repeat a m) d = a.
Proof. induction m as [|m IH]; intros [|n] H; simpl; try lia; auto. apply IH. lia. Qed.

(* every position that is not a site carries the reference base, or the missing-data character
   when no reference is given; the length is L *)
Theorem alignment_outside_sites : forall L ref mdc pos h j,
  0 <= L -> (match ref with Some r => zlen r = L | None => True end) ->
  0 <= j < L -> ~ In (Z.to_nat j) (map Z.to_nat pos) ->
  zlen (alignment_of L ref mdc pos h) = L /\
  nth (Z.to_nat j) (alignment_of L ref mdc pos h) 0
  = match ref with Some r => nth (Z.to_nat j) r 0 | None => mdc end.
Proof.
  intros L ref mdc pos h j HL Hr Hj Hn. unfold alignment_of. split.
  - unfold zlen. rewrite fill_sites_length. destruct ref as [r|]; [exact Hr|].
    rewrite repeat_length. lia.
  - rewrite fill_sites_other by assumption. destruct ref as [r|]; [reflexivity|].
    apply nth_repeat_in. lia.
Qed.

(* the i-th site position carries the i-th haplotype character (distinct, in-range positions) *)
Theorem alignment_at_sites : forall pos a h i d, NoDup (map Z.to_nat pos) ->
  (forall p, In p pos -> (Z.to_nat p < length a)%nat) -> length h = length pos ->
  (i < length pos)%nat ->
  nth (Z.to_nat (nth i pos 0)) (fill_sites a pos h) d = nth i h d.
Proof.
  induction pos as [|p ps IH]; intros a h i d Hnd Hr Hl Hi; [simpl in Hi; lia|].
  destruct h as [|c hs]; [discriminate|]. cbn [fill_sites]. cbn [map] in Hnd. inversion Hnd; subst.
  destruct i as [|i]; cbn [nth].
  - rewrite fill_sites_other by assumption. apply set_at_nth_same. apply Hr. left. reflexivity.
  - apply IH; auto.
    + intros q Hq. rewrite set_at_length. apply Hr. right. exact Hq.
    + simpl in Hi. lia.
Qed.

Example ex_alignment :
  alignment_of 8 (Some (s2z "ACGTACGT")) 78 [2; 5] (s2z "TG") = s2z "ACTTAGGT" /\
  alignment_of 8 None 63 [2; 5] (s2z "TG") = s2z "??T??G??".
Proof. vm_compute. split; reflexivity. Qed.

(* ---------- F. nexus tree names chain through the breakpoints ---------- *)
(* tree k is named by breakpoint tokens k and k+1: one name per interval, the first starts at the
   first breakpoint, each tree starts textually where the previous one ended, the last ends at the
   last breakpoint *)
Theorem intervals_chain : forall (toks : list str) (d : str),
  length (intervals_of toks) = pred (length toks) /\
  (forall k, (S k < length toks)%nat ->
     nth k (intervals_of toks) (d, d) = (nth k toks d, nth (S k) toks d)).
Proof.
  induction toks as [|a toks IH]; intros d; [split; [reflexivity | intros k H; simpl in H; lia]|].
  destruct toks as [|b r]; [split; [reflexivity | intros k H; simpl in H; lia]|].
  destruct (IH d) as [IH1 IH2]. split.
  - change (intervals_of (a :: b :: r)) with ((a, b) :: intervals_of (b :: r)).
    cbn [length]. rewrite IH1. reflexivity.
  - intros k H. change (intervals_of (a :: b :: r)) with ((a, b) :: intervals_of (b :: r)).
    destruct k as [|k]; [reflexivity|]. cbn [nth]. rewrite IH2 by (simpl in *; lia). reflexivity.
Qed.

(* ---------- G. the default precision ---------- *)
Theorem default_precision_rule : forall q nodes muts migs,
  (resolve_precision None q nodes muts migs = 0 <->
   forall x, In x (nodes ++ muts ++ migs) -> x mod 10 ^ q = 0) /\
  (resolve_precision None q nodes muts migs = 0 \/ resolve_precision None q nodes muts migs = 17) /\
  (forall p, resolve_precision (Some p) q nodes muts migs = p).
Proof.
  intros. unfold resolve_precision, discrete_time. split; [|split; [|reflexivity]].
  - rewrite <- !forallb_app, <- app_assoc. destruct (forallb (is_integral q) (nodes ++ muts ++ migs)) eqn:E.
    + split; auto. intros _ x Hx. rewrite forallb_forall in E. apply Z.eqb_eq. apply (E x Hx).
    + split; [discriminate|]. intro H. exfalso.
      assert (forallb (is_integral q) (nodes ++ muts ++ migs) = true).
      { apply forallb_forall. intros x Hx. apply Z.eqb_eq. auto. }
      congruence.
  - destruct (_ && _); auto.
Qed.
