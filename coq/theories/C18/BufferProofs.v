(* C18 — the buffer estimate of Tree._as_newick_fast (as repaired by fix 1e12f75) is
   sufficient for every tree; the pre-fix formula [estimate_pinned] was not (finding F5, kept as
   a historical record); corollaries of the C = Python theorem for the default labels. *)
From Coq Require Import List ZArith Bool Lia.
From TskVerif Require Import Base.Common Gen.Generated C18.Model C18.ParserProofs C18.WriterProofs.
Import ListNotations.
Open Scope Z_scope.

(* ---------- decimal digits ---------- *)
Lemma dec_aux_len_le : forall fuel n acc k,
  0 <= n < 10 ^ k -> 1 <= k -> zlen (dec_aux fuel n acc) <= k + zlen acc.
Proof.
  induction fuel as [|f IH]; intros n acc k Hn Hk; cbn [dec_aux]; [lia|].
  destruct (n <? 10) eqn:E.
  - rewrite zlen_cons. lia.
  - apply Z.ltb_ge in E.
    assert (Hk2 : 2 <= k).
    { destruct (Z.eq_dec k 1) as [->|]; [simpl in Hn; lia | lia]. }
    specialize (IH (n / 10) ((48 + n mod 10) :: acc) (k - 1)).
    rewrite zlen_cons in IH.
    assert (0 <= n / 10 < 10 ^ (k - 1)).
    { split; [apply Z.div_pos; lia|]. apply Z.div_lt_upper_bound; [lia|].
      replace (10 * 10 ^ (k - 1)) with (10 ^ k); [lia|].
      replace k with (1 + (k - 1)) at 1 by lia. rewrite Z.pow_add_r by lia. reflexivity. }
    specialize (IH H). lia.
Qed.

Lemma dec_len_le : forall v k, 0 <= v < 10 ^ k -> 1 <= k -> zlen (dec v) <= k.
Proof. intros. unfold dec. pose proof (dec_aux_len_le (S (Z.to_nat (Z.log2 v))) v [] k H H0) as H1.
  assert (zlen (@nil Z) = 0) by reflexivity. lia. Qed.

Lemma dec_aux_ge1 : forall fuel n acc, zlen acc <= zlen (dec_aux fuel n acc).
Proof.
  induction fuel as [|f IH]; intros; cbn [dec_aux]; [lia|].
  destruct (n <? 10); [rewrite zlen_cons; lia|].
  specialize (IH (n / 10) ((48 + n mod 10) :: acc)). rewrite zlen_cons in IH. lia.
Qed.

Lemma dec_aux_lt_pow : forall fuel n acc,
  0 <= n < 2 ^ Z.of_nat fuel -> n < 10 ^ (zlen (dec_aux fuel n acc) - zlen acc).
Proof.
  induction fuel as [|f IH]; intros n acc Hn.
  - simpl in Hn. cbn [dec_aux]. rewrite Z.sub_diag. simpl. lia.
  - cbn [dec_aux]. destruct (n <? 10) eqn:E.
    + apply Z.ltb_lt in E. rewrite zlen_cons. replace (1 + zlen acc - zlen acc) with 1 by lia. simpl. lia.
    + apply Z.ltb_ge in E.
      assert (H2 : 0 <= n / 10 < 2 ^ Z.of_nat f).
      { split; [apply Z.div_pos; lia|]. apply Z.div_lt_upper_bound; [lia|].
        rewrite Nat2Z.inj_succ, Z.pow_succ_r in Hn by lia. lia. }
      specialize (IH (n / 10) ((48 + n mod 10) :: acc) H2).
      pose proof (dec_aux_ge1 f (n / 10) ((48 + n mod 10) :: acc)) as Hge.
      rewrite zlen_cons in IH, Hge.
      set (m := zlen (dec_aux f (n / 10) ((48 + n mod 10) :: acc))) in *.
      replace (m - zlen acc) with (1 + (m - (1 + zlen acc))) by lia.
      rewrite Z.pow_add_r by lia. change (10 ^ 1) with 10.
      pose proof (Z.div_mod n 10 ltac:(lia)). pose proof (Z.mod_pos_bound n 10 ltac:(lia)). lia.
Qed.

Lemma dec_lt_pow : forall n, 0 <= n -> n < 10 ^ zlen (dec n).
Proof.
  intros n Hn. unfold dec.
  pose proof (dec_aux_lt_pow (S (Z.to_nat (Z.log2 n))) n []) as H.
  replace (zlen (dec_aux (S (Z.to_nat (Z.log2 n))) n []) - zlen (@nil Z))
    with (zlen (dec_aux (S (Z.to_nat (Z.log2 n))) n [])) in H by (unfold zlen; simpl; lia).
  apply H. split; auto.
  rewrite Nat2Z.inj_succ, Z2Nat.id by apply Z.log2_nonneg.
  destruct (Z.eq_dec n 0) as [->|]; [simpl; lia|].
  apply Z.log2_spec. lia.
Qed.

Lemma dec_len_pos : forall n, 1 <= zlen (dec n).
Proof.
  intros. unfold dec. cbn [dec_aux]. destruct (n <? 10); [rewrite zlen_cons; pose proof (zlen_nonneg (@nil Z)); lia|].
  pose proof (dec_aux_ge1 (Z.to_nat (Z.log2 n)) (n / 10) [48 + n mod 10]). rewrite zlen_cons in H.
  pose proof (zlen_nonneg (@nil Z)). lia.
Qed.

Lemma dec_len_mono : forall v n, 0 <= v <= n -> zlen (dec v) <= zlen (dec n).
Proof.
  intros v n H. apply dec_len_le; [|apply dec_len_pos].
  pose proof (dec_lt_pow n ltac:(lia)). lia.
Qed.

(* ---------- length of the output ---------- *)
Section Bound.
  Variable Tm : Type.
  Variable tsub : Tm -> Tm -> Tm.
  Variable print_num : Z -> Tm -> str.
  Variable tm : Z -> Tm.
  Variable lab : Z -> str.
  Variable prec : Z.
  Variable Lb Wb : Z.      (* bounds on label length and branch-token length *)

  Notation pyb := (py_build Tm tsub print_num tm lab true prec).
  Notation tok := (btoken Tm tsub print_num tm prec).

  Definition zsize (t : rtree) : Z := Z.of_nat (rsize t).

  Lemma zsize_unfold : forall v kids,
    zsize (RN v kids) = 1 + fold_right (fun k s => zsize k + s) 0 kids.
  Proof.
    intros. unfold zsize. cbn [rsize]. rewrite Nat2Z.inj_succ.
    assert (E : Z.of_nat (list_sum (map rsize kids))
                = fold_right (fun k s => Z.of_nat (rsize k) + s) 0 kids).
    { induction kids as [|k ks IH]; [reflexivity|].
      change (list_sum (map rsize (k :: ks))) with (rsize k + list_sum (map rsize ks))%nat.
      rewrite Nat2Z.inj_add, IH. reflexivity. }
    rewrite E. lia.
  Qed.

  (* every node costs at most  "(" + label + ":" + token + separator ; the root has no
     ":" token separator *)
  Lemma py_len_bound : forall t,
    0 <= Lb -> 0 <= Wb ->
    (forall v, In v (ids t) -> zlen (lab v) <= Lb) ->
    (forall p c, In (p, c) (redges t) -> zlen (tok p c) <= Wb) ->
    zlen (pyb t) <= zsize t * (3 + Lb + Wb) - 2 - Wb.
  Proof.
    induction t as [v kids IH] using rtree_ind'. intros HL HW Hl Ht.
    destruct kids as [|k ks].
    - cbn [py_build]. unfold zsize. simpl rsize. specialize (Hl v (or_introl eq_refl)). lia.
    - rewrite (pyb_internal Tm tsub print_num tm prec lab).
      rewrite zlen_cons, zlen_app. rewrite zsize_unfold.
      assert (Hk : zlen (wkids Tm tsub print_num tm prec lab v (k :: ks))
                   <= fold_right (fun k s => zsize k + s) 0 (k :: ks) * (3 + Lb + Wb)).
      { assert (Hl' : forall x w, In x (k :: ks) -> In w (ids x) -> zlen (lab w) <= Lb).
        { intros x w Hx Hw. apply Hl. cbn [ids]. apply in_cons. apply in_flat_map. eauto. }
        assert (Ht' : forall x, In x (k :: ks) -> zlen (tok v (rid x)) <= Wb).
        { intros x Hx. apply Ht. cbn [redges]. apply in_or_app. left. apply in_map_iff. eauto. }
        assert (Ht'' : forall x p c, In x (k :: ks) -> In (p, c) (redges x) -> zlen (tok p c) <= Wb).
        { intros x p c Hx Hpc. apply Ht. cbn [redges]. apply in_or_app. right. apply in_flat_map. eauto. }
        clear Hl Ht. revert IH Hl' Ht' Ht''. generalize (k :: ks) as l. clear k ks.
        induction l as [|x l IHl]; intros IH Hl' Ht' Ht''; [simpl; unfold zlen; simpl; lia|].
        inversion IH as [|? ? Hx Hrest]; subst.
        cbn [wkids fold_right]. rewrite zlen_app. unfold wtext at 1.
        rewrite zlen_app, zlen_cons, zlen_app.
        assert (zlen [sepc (match l with [] => true | _ => false end)] = 1) by reflexivity.
        specialize (Hx HL HW (fun w Hw => Hl' x w (or_introl eq_refl) Hw)
                       (fun p c Hpc => Ht'' x p c (or_introl eq_refl) Hpc)).
        pose proof (Ht' x (or_introl eq_refl)) as Htx.
        specialize (IHl Hrest (fun y w Hy => Hl' y w (or_intror Hy)) (fun y Hy => Ht' y (or_intror Hy))
                        (fun y p c Hy => Ht'' y p c (or_intror Hy))).
        lia. }
      specialize (Hl v (or_introl eq_refl)). lia.
  Qed.
End Bound.

(* ---------- the estimate is sufficient ---------- *)
Lemma estimate_eq : forall N W, estimate N W = 1 + (4 + zlen (dec N) + W) * N.
Proof. reflexivity. Qed.

Theorem estimate_bound :
  forall (Tm : Type) (tsub : Tm -> Tm -> Tm) (print_num : Z -> Tm -> str) (tm : Z -> Tm)
         (lab : Z -> str) (prec : Z) (t : rtree) (N W : Z),
    0 <= W ->
    (forall v, In v (ids t) -> zlen (lab v) <= 1 + zlen (dec N)) ->
    (forall p c, In (p, c) (redges t) -> zlen (btoken Tm tsub print_num tm prec p c) <= W) ->
    Z.of_nat (rsize t) <= N ->
    zlen (py_build Tm tsub print_num tm lab true prec t) + 2 <= estimate N W.
Proof.
  intros Tm tsub print_num tm lab prec t N W HW Hl Ht HN.
  pose proof (dec_len_pos N) as HL.
  pose proof (py_len_bound Tm tsub print_num tm lab prec (1 + zlen (dec N)) W t ltac:(lia) HW Hl Ht) as H.
  rewrite estimate_eq. unfold zsize in H.
  assert (1 <= Z.of_nat (rsize t)) by (destruct t; simpl rsize; lia).
  nia.
Qed.

(* the default labels are within the bound L = len(str(num_nodes)) *)
Lemma lab_default_len : forall a N v, 0 <= v <= N ->
  zlen (lab_default a v) <= 1 + zlen (dec N).
Proof.
  intros a N v Hv. unfold lab_default. destruct (is_sample a v).
  - rewrite zlen_app. change (zlen c18_label_prefix) with 1.
    pose proof (dec_len_mono v N Hv). lia.
  - pose proof (dec_len_pos N). assert (zlen (@nil Z) = 0) by reflexivity. lia.
Qed.

Lemma lab_default_agrees : forall a v,
  (exists f, get (ct_flags a) v = Ok f) -> lab_agrees a false (lab_default a) v.
Proof.
  intros a v [f Hf] lcv Hlc. unfold c_label. rewrite Hf. cbn [bind].
  eexists. split; [reflexivity|].
  unfold lab_default, is_sample. rewrite Hf.
  destruct (Z.testbit (Z.land f c18_node_is_sample) 0); reflexivity.
Qed.

(* C writer = Python writer for the default labels (fast path vs. general path) *)
Theorem fast_general_default :
  forall (Tm : Type) (tsub : Tm -> Tm -> Tm) (print_num : Z -> Tm -> str) (tm : Z -> Tm)
         (a : ctree) (N rp prec B : Z) (t : rtree),
    repb a rp t = true -> nodupb (ids t) = true -> memb rp (ids t) = false ->
    0 <= rid t < N ->
    (forall v, In v (ids t) -> exists f, get (ct_flags a) v = Ok f) ->
    zlen (py_build Tm tsub print_num tm (lab_default a) true prec t) + 2 <= B ->
    c_newick Tm tsub print_num tm a N (rid t) false prec B
    = Ok (py_newick Tm tsub print_num tm (lab_default a) true prec t).
Proof.
  intros. apply c_newick_sufficient with (rp := rp); auto.
  - apply nodupb_NoDup; auto.
  - apply memb_false; auto.
  - intros v Hv. apply lab_default_agrees. auto.
Qed.

(* with the estimate of _as_newick_fast the fast path never overflows: for any label function
   the C writer agrees with and whose labels have at most 1 + len(str(N)) bytes *)
Theorem estimate_sufficient_gen :
  forall (Tm : Type) (tsub : Tm -> Tm -> Tm) (print_num : Z -> Tm -> str) (tm : Z -> Tm)
         (a : ctree) (ms : bool) (lab : Z -> str) (N rp prec W : Z) (t : rtree),
    repb a rp t = true -> nodupb (ids t) = true -> memb rp (ids t) = false ->
    (forall v, In v (ids t) -> 0 <= v < N) ->
    (forall v, In v (ids t) -> lab_agrees a ms lab v) ->
    (forall v, In v (ids t) -> zlen (lab v) <= 1 + zlen (dec N)) ->
    0 <= W ->
    (forall p c, In (p, c) (redges t) -> zlen (btoken Tm tsub print_num tm prec p c) <= W) ->
    c_newick Tm tsub print_num tm a N (rid t) ms prec (estimate N W)
    = Ok (py_newick Tm tsub print_num tm lab true prec t).
Proof.
  intros Tm tsub print_num tm a ms lab N rp prec W t Hrep Hnd Hrp Hr Hag Hlen HW Ht.
  apply c_newick_sufficient with (rp := rp); auto.
  - apply nodupb_NoDup; auto.
  - apply memb_false; auto.
  - apply Hr. apply rid_in_ids.
  - apply estimate_bound; auto.
    rewrite rsize_ids.
    assert (length (ids t) <= Z.to_nat N)%nat.
    { apply pigeon; [apply nodupb_NoDup; auto|]. intros x Hx. specialize (Hr x Hx). lia. }
    assert (0 <= N) by (specialize (Hr _ (rid_in_ids t)); lia). lia.
Qed.

Theorem estimate_sufficient :
  forall (Tm : Type) (tsub : Tm -> Tm -> Tm) (print_num : Z -> Tm -> str) (tm : Z -> Tm)
         (a : ctree) (N rp prec W : Z) (t : rtree),
    repb a rp t = true -> nodupb (ids t) = true -> memb rp (ids t) = false ->
    (forall v, In v (ids t) -> 0 <= v < N) ->
    (forall v, In v (ids t) -> exists f, get (ct_flags a) v = Ok f) ->
    0 <= W ->
    (forall p c, In (p, c) (redges t) -> zlen (btoken Tm tsub print_num tm prec p c) <= W) ->
    c_newick Tm tsub print_num tm a N (rid t) false prec (estimate N W)
    = Ok (py_newick Tm tsub print_num tm (lab_default a) true prec t).
Proof.
  intros. eapply estimate_sufficient_gen; eauto.
  - intros v Hv. apply lab_default_agrees. auto.
  - intros v Hv. apply lab_default_len. specialize (H2 v Hv). lia.
Qed.

(* ---------- the PRE-FIX estimate was not sufficient (finding F5, fixed by 1e12f75) ---------- *)
(* exact instance: times are integers counting units of 10^-q, printed with q decimals *)
Definition times_increase (times : list Z) (t : rtree) : bool :=
  forallb (fun e => fx_tm times (snd e) <? fx_tm times (fst e)) (redges t).

Definition chain_ctree (n : Z) : ctree :=
  let idx := map Z.of_nat (seq 0 (Z.to_nat n)) in
  mk_ctree (map (fun i => i - 1) idx ++ [n - 1])           (* left_child; virtual root -> root *)
           (map (fun i => i - 1) idx ++ [n - 1])
           (map (fun _ => -1) idx ++ [-1])
           (map (fun i => if i =? n - 1 then -1 else i + 1) idx ++ [-1])
           (map (fun _ => 1) idx).
Fixpoint chain_rtree (k : nat) : rtree :=
  match k with O => RN 0 [] | S k' => RN (Z.of_nat k) [chain_rtree k'] end.

(* F5a: two samples, child time -1000000, root time 1, integer times, default precision 0 *)
Theorem estimate_pinned_refuted_negative_times :
  exists (a : ctree) (N : Z) (t : rtree) (times : list Z),
    repb a (-1) t = true /\ nodupb (ids t) = true /\ times_increase times t = true /\
    c_newick Z Z.sub print_fixed (fx_tm times) a N (rid t) false 0
             (estimate_pinned N (fx_T 0 (fx_tm times (rid t))) 0)
    = Err c18_err_buffer_overflow /\
    py_newick Z Z.sub print_fixed (fx_tm times) (lab_default a) true 0 t = s2z "(n0:1000001)n1;" /\
    estimate_pinned N (fx_T 0 (fx_tm times (rid t))) 0 = 13.
Proof.
  exists (chain_ctree 2), 2, (chain_rtree 1), [-1000000; 1].
  vm_compute. repeat split; reflexivity.
Qed.

(* F5b: eight samples in a unary chain at times k/8, precision 3 *)
Theorem estimate_pinned_refuted_fractional :
  exists (a : ctree) (N : Z) (t : rtree) (times : list Z),
    repb a (-1) t = true /\ nodupb (ids t) = true /\ times_increase times t = true /\
    (forall v, In v (ids t) -> 0 <= fx_tm times v < 1000) /\
    c_newick Z Z.sub print_fixed (fx_tm times) a N (rid t) false 3
             (estimate_pinned N (fx_T 3 (fx_tm times (rid t))) 3)
    = Err c18_err_buffer_overflow /\
    zlen (py_newick Z Z.sub print_fixed (fx_tm times) (lab_default a) true 3 t) + 1
    > estimate_pinned N (fx_T 3 (fx_tm times (rid t))) 3.
Proof.
  exists (chain_ctree 8), 8, (chain_rtree 7), [0; 125; 250; 375; 500; 625; 750; 875].
  split; [vm_compute; reflexivity|]. split; [vm_compute; reflexivity|].
  split; [vm_compute; reflexivity|]. split.
  - intros v Hv. vm_compute in Hv.
    repeat (destruct Hv as [<-|Hv]; [vm_compute; split; [discriminate | reflexivity]|]). destruct Hv.
  - split; vm_compute; reflexivity.
Qed.

(* ---------- non-vacuity of the positive theorems ---------- *)
Example ex_ctree : ctree :=      (* 0,1 leaves under 3; 3 and 2 under 4; node 5 = virtual root *)
  mk_ctree [-1; -1; -1; 0; 3; 4] [-1; -1; -1; 1; 2; 4] [-1; 0; 3; -1; -1; -1] [3; 3; 4; 4; -1; -1] [1; 1; 1; 0; 1].
Example ex_rtree : rtree := RN 4 [RN 3 [RN 0 []; RN 1 []]; RN 2 []].
Example ex_times : list Z := [0; 0; 5; 20; 300].
Example ex_fast_general :
  repb ex_ctree (-1) ex_rtree = true /\ nodupb (ids ex_rtree) = true /\
  c_newick Z Z.sub print_fixed (fx_tm ex_times) ex_ctree 5 4 false 1 40 = Ok (s2z "((n0:2.0,n1:2.0):28.0,n2:29.5)n4;") /\
  py_newick Z Z.sub print_fixed (fx_tm ex_times) (lab_default ex_ctree) true 1 ex_rtree = s2z "((n0:2.0,n1:2.0):28.0,n2:29.5)n4;" /\
  c_newick Z Z.sub print_fixed (fx_tm ex_times) ex_ctree 5 4 false 1 33 = Err c18_err_buffer_overflow /\
  c_newick Z Z.sub print_fixed (fx_tm ex_times) ex_ctree 5 3 false 1 40 = Ok (s2z "(n0:2.0,n1:2.0);") /\
  c_newick Z Z.sub print_fixed (fx_tm ex_times) ex_ctree 5 4 true 0 40 = Ok (s2z "((1:20,2:20):280,3:295);").
Proof. vm_compute. repeat split; reflexivity. Qed.

(* the same two trees with the estimate of the current code *)
Example ex_estimate_now :
  c_newick Z Z.sub print_fixed (fx_tm [0; 125; 250; 375; 500; 625; 750; 875]) (chain_ctree 8) 8 7 false 3
           (estimate 8 5)
  = Ok (s2z "(((((((n0:0.125)n1:0.125)n2:0.125)n3:0.125)n4:0.125)n5:0.125)n6:0.125)n7;").
Proof. vm_compute. reflexivity. Qed.
Example ex_estimate_now_negative :
  c_newick Z Z.sub print_fixed (fx_tm [-1000000; 1]) (chain_ctree 2) 2 1 false 0 (estimate 2 7)
  = Ok (s2z "(n0:1000001)n1;").
Proof. vm_compute. reflexivity. Qed.
