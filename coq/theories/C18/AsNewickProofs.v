(* C18 — end to end: whatever path Tree.as_newick takes, a returned string parses back to
   exactly the tree below the root with the requested labels and branch tokens; the only error
   it can produce (in the model, on a represented tree) is the fast path's buffer overflow. *)
From Coq Require Import List ZArith Bool Lia.
From TskVerif Require Import Base.Common Gen.Generated C18.Model C18.ParserProofs C18.WriterProofs
  C18.BufferProofs C18.LabelProofs C18.FastaProofs C18.SafetyProofs.
Import ListNotations.
Open Scope Z_scope.

Lemma digits_clean : forall s, (forall x, In x s -> 48 <= x <= 57) -> cleanb s = true.
Proof.
  intros s H. unfold cleanb. apply forallb_forall. intros x Hx. specialize (H x Hx).
  unfold is_delim. apply negb_true_iff.
  repeat (apply orb_false_iff; split); apply Z.eqb_neq; lia.
Qed.

Lemma dec_clean : forall n, cleanb (dec n) = true.
Proof. intros. apply digits_clean. apply dec_digits. Qed.

Lemma lab_default_clean : forall a v, cleanb (lab_default a v) = true.
Proof.
  intros. unfold lab_default. destruct (is_sample a v); [|reflexivity].
  change (c18_label_prefix ++ dec v) with (110 :: dec v). cbn [cleanb forallb].
  change (negb (is_delim 110)) with true. cbn [andb]. apply dec_clean.
Qed.

Lemma lab_ms_clean : forall ls v, cleanb (lab_ms_of ls v) = true.
Proof. intros. unfold lab_ms_of. destruct (memb v ls); [apply dec_clean | reflexivity]. Qed.

Lemma lab_agrees_ext : forall a ms lab lab' v, lab v = lab' v ->
  lab_agrees a ms lab v -> lab_agrees a ms lab' v.
Proof. intros a ms lab lab' v E H lcv Hl. destruct (H lcv Hl) as (o & H1 & H2). exists o. split; congruence. Qed.

Section AsNewick.
  Variable Tm : Type.
  Variable tsub : Tm -> Tm -> Tm.
  Variable print_num : Z -> Tm -> str.
  Variable tm : Z -> Tm.
  Hypothesis print_num_clean : forall p x, cleanb (print_num p x) = true.

  Variable a : ctree.
  Variable N rp : Z.
  Variable t : rtree.
  Variable whole_leaves : list Z.          (* list(tree.leaves()): leaves below tree.roots *)
  Hypothesis Hrep : repb a rp t = true.
  Hypothesis Hnd : nodupb (ids t) = true.
  Hypothesis Hrp : memb rp (ids t) = false.
  Hypothesis Hrange : 0 <= rid t < N.
  Hypothesis Hflags : forall v, In v (ids t) -> exists f, get (ct_flags a) v = Ok f.
  (* the requested root is part of the sample-bearing tree (otherwise finding M1) *)
  Hypothesis Hlive : forall v, In v (ids t) -> memb v whole_leaves = memb v (leaf_ids t).

  Definition labels_clean (l : labspec) : Prop :=
    match l with LabDict d => forall v, In v (ids t) -> cleanb (lab_dict d v) = true | _ => True end.

  Lemma lab_fn_clean : forall l, labels_clean l ->
    forall v, In v (ids t) -> cleanb (lab_fn a whole_leaves l v) = true.
  Proof.
    intros [| |d] H v Hv; cbn [lab_fn].
    - apply lab_default_clean.
    - apply lab_ms_clean.
    - apply H; auto.
  Qed.

  Theorem as_newick_ok_or_overflow : forall l ibl prec T,
    as_newick Tm tsub print_num tm a N t whole_leaves l ibl prec T
    = Ok (py_newick Tm tsub print_num tm (lab_fn a whole_leaves l) ibl prec t)
    \/ (ibl = true /\ (l = LabDefault \/ l = LabMs) /\
        estimate N T prec < zlen (py_build Tm tsub print_num tm (lab_fn a whole_leaves l) true prec t) + 2 /\
        as_newick Tm tsub print_num tm a N t whole_leaves l ibl prec T = Err c18_err_buffer_overflow).
  Proof.
    intros l ibl prec T.
    assert (HND : NoDup (ids t)) by (apply nodupb_NoDup; auto).
    assert (HRP : ~ In rp (ids t)) by (apply memb_false; auto).
    destruct ibl; [|left; destruct l; reflexivity].
    destruct l as [| |d]; [| |left; reflexivity]; cbn [as_newick lab_fn]; unfold as_newick_fast.
    - rewrite (c_newick_any_buffer Tm tsub print_num tm a false prec rp (lab_default a) N t _ Hrep HND HRP Hrange).
      + destruct (_ <=? _) eqn:E; [left; reflexivity|]. right. apply Z.leb_gt in E. repeat split; auto.
      + intros v Hv. apply lab_default_agrees. auto.
    - rewrite (c_newick_any_buffer Tm tsub print_num tm a true prec rp (lab_ms_of whole_leaves) N t _ Hrep HND HRP Hrange).
      + destruct (_ <=? _) eqn:E; [left; reflexivity|]. right. apply Z.leb_gt in E. repeat split; auto.
      + intros v Hv. apply lab_agrees_ext with (lab := lab_ms_of (leaf_ids t)).
        * unfold lab_ms_of. rewrite (Hlive v Hv). reflexivity.
        * eapply lab_ms_agrees; eauto.
  Qed.

  Theorem as_newick_parses_back : forall l ibl prec T s,
    labels_clean l ->
    as_newick Tm tsub print_num tm a N t whole_leaves l ibl prec T = Ok s ->
    parse_newick s = Ok (ast_of Tm tsub print_num tm (lab_fn a whole_leaves l) ibl prec None t).
  Proof.
    intros l ibl prec T s Hc H.
    destruct (as_newick_ok_or_overflow l ibl prec T) as [E|(_ & _ & _ & E)]; rewrite E in H; [|discriminate].
    inversion H; subst. apply newick_roundtrip; auto. apply lab_fn_clean; auto.
  Qed.
End AsNewick.

(* The hypothesis [Hlive] is needed (finding M1): for a requested root that is not below one of
   tree.roots, the general path builds the legacy ms dictionary from tree.leaves() and leaves
   the leaves of the requested subtree unlabelled, while the fast path labels them. *)
Theorem as_newick_ms_dead_subtree_refuted :
  exists (a : ctree) (N rp : Z) (t : rtree) (whole_leaves : list Z) (times : list Z),
    repb a rp t = true /\ nodupb (ids t) = true /\ memb rp (ids t) = false /\
    (* general path (no branch lengths): leaf 2 gets no label *)
    as_newick Z Z.sub print_fixed (fx_tm times) a N t whole_leaves LabMs false 0 0 = Ok (s2z ";") /\
    (* fast path (branch lengths): the same leaf is labelled 3 *)
    as_newick Z Z.sub print_fixed (fx_tm times) a N t whole_leaves LabMs true 0 0 = Ok (s2z "3;") /\
    parse_newick (s2z ";")
    <> Ok (ast_of Z Z.sub print_fixed (fx_tm times) (lab_ms_of (leaf_ids t)) false 0 None t).
Proof.
  exists (mk_ctree [-1; 0; -1; 1] [-1; 0; -1; 1] [-1; -1; -1; -1] [1; -1; -1; -1] [1; 0; 0]),
         3, (-1), (RN 2 []), [0], [0; 1; 2].
  vm_compute. repeat split; try reflexivity. discriminate.
Qed.
