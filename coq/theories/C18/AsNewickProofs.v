(* C18 — end to end: whatever path Tree.as_newick takes it succeeds (the buffer estimate is
   sufficient, the general writer is iterative) and the returned string parses back to exactly
   the tree below the root with the requested labels and branch tokens. *)
From Coq Require Import List ZArith Bool Lia.
From TskVerif Require Import Base.Common Gen.Generated C18.Model C18.ParserProofs C18.WriterProofs
  C18.BufferProofs C18.LabelProofs C18.FastaProofs C18.SafetyProofs C18.IterProofs.
Import ListNotations.
Open Scope Z_scope.

Lemma digits_clean : forall s, (forall x, In x s -> 48 <= x <= 57) -> cleanb s = true.
Proof.
  intros s H. unfold cleanb. apply forallb_forall. intros x Hx. specialize (H x Hx).
  unfold is_delim. apply negb_true_iff.
  repeat (apply orb_false_iff; split); apply Z.eqb_neq; lia.
Qed.

Lemma dec_clean : forall n, cleanb (dec n) = true.
Proof. intros. apply digits_clean. apply dec_digits. Qed.

Lemma lab_default_clean : forall a v, cleanb (lab_default a v) = true.
Proof.
  intros. unfold lab_default. destruct (is_sample a v); [|reflexivity].
  change (c18_label_prefix ++ dec v) with (110 :: dec v). cbn [cleanb forallb].
  change (negb (is_delim 110)) with true. cbn [andb]. apply dec_clean.
Qed.

Lemma lab_ms_clean : forall ls v, cleanb (lab_ms_of ls v) = true.
Proof. intros. unfold lab_ms_of. destruct (memb v ls); [apply dec_clean | reflexivity]. Qed.

Lemma lab_agrees_ext : forall a ms lab lab' v, lab v = lab' v ->
  lab_agrees a ms lab v -> lab_agrees a ms lab' v.
Proof. intros a ms lab lab' v E H lcv Hl. destruct (H lcv Hl) as (o & H1 & H2). exists o. split; congruence. Qed.

Section AsNewick.
  Variable Tm : Type.
  Variable tsub : Tm -> Tm -> Tm.
  Variable print_num : Z -> Tm -> str.
  Variable tm : Z -> Tm.

  Variable a : ctree.
  Variable N rp : Z.
  Variable t : rtree.
  Hypothesis Hrep : repb a rp t = true.
  Hypothesis Hnd : nodupb (ids t) = true.
  Hypothesis Hrp : memb rp (ids t) = false.
  Hypothesis Hrange : forall v, In v (ids t) -> 0 <= v < N.
  Hypothesis Hflags : forall v, In v (ids t) -> exists f, get (ct_flags a) v = Ok f.

  Definition labels_clean (l : labspec) : Prop :=
    match l with LabDict d => forall v, In v (ids t) -> cleanb (lab_dict d v) = true | _ => True end.

  Lemma lab_fn_clean : forall l, labels_clean l ->
    forall v, In v (ids t) -> cleanb (lab_fn a t l v) = true.
  Proof.
    intros [| |d] H v Hv; cbn [lab_fn].
    - apply lab_default_clean.
    - apply lab_ms_clean.
    - apply H; auto.
  Qed.

  Lemma lab_ms_len : forall v, In v (ids t) -> zlen (lab_ms_of (leaf_ids t) v) <= 1 + zlen (dec N).
  Proof.
    intros v Hv. unfold lab_ms_of. destruct (memb v (leaf_ids t)).
    - pose proof (dec_len_mono (v + 1) N). specialize (Hrange v Hv). lia.
    - pose proof (dec_len_pos N). assert (zlen (@nil Z) = 0) by reflexivity. lia.
  Qed.

  (* whatever the buffer estimate W is: the Python string, or (fast path only) overflow *)
  Theorem as_newick_ok_or_overflow : forall l ibl prec W,
    as_newick Tm tsub print_num tm a N t l ibl prec W
    = Ok (py_newick Tm tsub print_num tm (lab_fn a t l) ibl prec t)
    \/ (ibl = true /\ (l = LabDefault \/ l = LabMs) /\
        estimate N W < zlen (py_build Tm tsub print_num tm (lab_fn a t l) true prec t) + 2 /\
        as_newick Tm tsub print_num tm a N t l ibl prec W = Err c18_err_buffer_overflow).
  Proof.
    intros l ibl prec W.
    assert (HND : NoDup (ids t)) by (apply nodupb_NoDup; auto).
    assert (HRP : ~ In rp (ids t)) by (apply memb_false; auto).
    assert (Hroot : 0 <= rid t < N) by (apply Hrange; apply rid_in_ids).
    assert (Hpy : forall lab b, it_newick Tm tsub print_num tm lab b prec t
                              = Ok (py_newick Tm tsub print_num tm lab b prec t))
      by (intros; apply it_newick_eq_recursive; auto).
    destruct ibl; [|left; destruct l; cbn [as_newick]; apply Hpy].
    destruct l as [| |d]; [| |left; cbn [as_newick]; apply Hpy]; cbn [as_newick lab_fn]; unfold as_newick_fast.
    - rewrite (c_newick_any_buffer Tm tsub print_num tm a false prec rp (lab_default a) N t _ Hrep HND HRP Hroot).
      + destruct (_ <=? _) eqn:E; [left; reflexivity|]. right. apply Z.leb_gt in E. repeat split; auto.
      + intros v Hv. apply lab_default_agrees. auto.
    - rewrite (c_newick_any_buffer Tm tsub print_num tm a true prec rp (lab_ms_of (leaf_ids t)) N t _ Hrep HND HRP Hroot).
      + destruct (_ <=? _) eqn:E; [left; reflexivity|]. right. apply Z.leb_gt in E. repeat split; auto.
      + intros v Hv. eapply lab_ms_agrees; eauto.
  Qed.

  (* W = len(f"{max_branch:.{precision}f}") bounds every branch token (monotonicity of the
     printed length in the value: trusted float rendering) => as_newick ALWAYS succeeds *)
  Theorem as_newick_succeeds : forall l ibl prec W,
    0 <= W ->
    (forall p c, In (p, c) (redges t) -> zlen (btoken Tm tsub print_num tm prec p c) <= W) ->
    as_newick Tm tsub print_num tm a N t l ibl prec W
    = Ok (py_newick Tm tsub print_num tm (lab_fn a t l) ibl prec t).
  Proof.
    intros l ibl prec W HW Ht.
    destruct (as_newick_ok_or_overflow l ibl prec W) as [E|(-> & Hl & Hlt & _)]; [exact E|].
    exfalso.
    assert (HND : NoDup (ids t)) by (apply nodupb_NoDup; auto).
    assert (Hsz : Z.of_nat (rsize t) <= N).
    { rewrite rsize_ids.
      assert (length (ids t) <= Z.to_nat N)%nat.
      { apply pigeon; auto. intros x Hx. specialize (Hrange x Hx). lia. }
      assert (0 <= N) by (specialize (Hrange _ (rid_in_ids t)); lia). lia. }
    pose proof (estimate_bound Tm tsub print_num tm (lab_fn a t l) prec t N W HW) as Hb.
    assert (zlen (py_build Tm tsub print_num tm (lab_fn a t l) true prec t) + 2 <= estimate N W); [|lia].
    apply Hb; auto.
    destruct Hl as [-> | ->]; cbn [lab_fn]; intros v Hv.
    - apply lab_default_len. specialize (Hrange v Hv). lia.
    - apply lab_ms_len; auto.
  Qed.

  Hypothesis print_num_clean : forall p x, cleanb (print_num p x) = true.

  Theorem as_newick_parses_back : forall l ibl prec W s,
    labels_clean l ->
    as_newick Tm tsub print_num tm a N t l ibl prec W = Ok s ->
    parse_newick s = Ok (ast_of Tm tsub print_num tm (lab_fn a t l) ibl prec None t).
  Proof.
    intros l ibl prec W s Hc H.
    destruct (as_newick_ok_or_overflow l ibl prec W) as [E|(_ & _ & _ & E)]; rewrite E in H; [|discriminate].
    inversion H; subst. apply newick_roundtrip; auto. apply lab_fn_clean; auto.
  Qed.
End AsNewick.

Example ex_as_newick_ms_subtree :      (* node 2 is not below tree.roots; both paths label it (M1 fixed) *)
  let a := mk_ctree [-1; 0; -1; 1] [-1; 0; -1; 1] [-1; -1; -1; -1] [1; -1; -1; -1] [1; 0; 0] in
  as_newick Z Z.sub print_fixed (fx_tm [0; 1; 2]) a 3 (RN 2 []) LabMs false 0 1 = Ok (s2z "3;") /\
  as_newick Z Z.sub print_fixed (fx_tm [0; 1; 2]) a 3 (RN 2 []) LabMs true 0 1 = Ok (s2z "3;").
Proof. vm_compute. split; reflexivity. Qed.
