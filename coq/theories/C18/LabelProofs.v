(* C18 — the legacy ms label dictionary ({u: str(u+1) for leaves}) agrees with the C writer's
   leaf test (left_child[v] == TSK_NULL) on every node of a represented tree. *)
From Coq Require Import List ZArith Bool Lia.
From TskVerif Require Import Base.Common Gen.Generated C18.Model C18.ParserProofs C18.WriterProofs.
Import ListNotations.
Open Scope Z_scope.

Lemma nodup_app_l : forall {A} (x y : list A), NoDup (x ++ y) -> NoDup x.
Proof.
  induction x as [|a x IH]; intros y H; [constructor|]. simpl in H. inversion H; subst.
  constructor; eauto. intro Hin. apply H2. apply in_or_app. auto.
Qed.
Lemma nodup_app_r : forall {A} (x y : list A), NoDup (x ++ y) -> NoDup y.
Proof. induction x as [|a x IH]; intros y H; auto. simpl in H. inversion H; eauto. Qed.
Lemma nodup_app_disj : forall {A} (x y : list A) v, NoDup (x ++ y) -> In v x -> In v y -> False.
Proof.
  induction x as [|a x IH]; intros y v H Hx Hy; [destruct Hx|]. simpl in H. inversion H; subst.
  destruct Hx as [<-|Hx]; [apply H2; apply in_or_app; auto | eauto].
Qed.

Lemma flat_map_unique : forall {A} (f : A -> list Z) l k k' v,
  NoDup (flat_map f l) -> In k l -> In k' l -> In v (f k) -> In v (f k') ->
  In v (f k) /\ (forall g : A -> list Z, (forall x, incl (g x) (f x)) -> In v (flat_map g l) -> In v (g k)).
Proof.
  intros A f l k k' v Hnd Hk _ Hv _. split; auto.
  intros g Hg Hin. revert Hnd Hk Hin. induction l as [|x l IH]; intros Hnd Hk Hin; [destruct Hk|].
  cbn [flat_map] in *. apply in_app_or in Hin. destruct Hk as [->|Hk].
  - destruct Hin as [Hin|Hin]; auto. exfalso.
    apply in_flat_map in Hin as (y & Hy & Hvy).
    eapply (nodup_app_disj _ _ v Hnd); eauto. apply in_flat_map. exists y. split; auto. apply Hg; auto.
  - destruct Hin as [Hin|Hin].
    + exfalso. eapply (nodup_app_disj _ _ v Hnd); [apply Hg; eauto|]. apply in_flat_map. eauto.
    + apply IH; auto. eapply nodup_app_r; eauto.
Qed.

Lemma leaf_ids_incl : forall t, incl (leaf_ids t) (ids t).
Proof.
  induction t as [v kids IH] using rtree_ind'. intros x Hx. cbn [leaf_ids ids] in *.
  destruct kids as [|k ks]; [simpl in Hx; simpl; tauto|].
  right. apply in_flat_map in Hx as (y & Hy & Hxy). apply in_flat_map. exists y. split; auto.
  rewrite Forall_forall in IH. apply IH; auto.
Qed.

Lemma leaf_char : forall a t p, repb a p t = true -> NoDup (ids t) ->
  forall v, In v (ids t) -> forall lcv, get (ct_lc a) v = Ok lcv ->
    (lcv = -1 <-> In v (leaf_ids t)).
Proof.
  induction t as [w kids IH] using rtree_ind'. intros p Hrep Hnd v Hv lcv Hlc.
  apply repb_unfold in Hrep as (Hpar & Hlcw & _ & _ & Hk).
  cbn [ids] in Hnd, Hv. inversion Hnd as [|? ? Hw Hndk]; subst.
  destruct Hv as [<-|Hv].
  - rewrite Hlcw in Hlc. inversion Hlc; subst. destruct kids as [|k ks].
    + simpl. tauto.
    + cbn [first_id leaf_ids]. split.
      * intro E. inversion Hk; subst. pose proof (repb_par _ _ _ H1) as Hp.
        pose proof (get_ok_range _ _ _ Hp). lia.
      * intro Hin. exfalso. apply Hw. apply in_flat_map in Hin as (y & Hy & Hxy).
        apply in_flat_map. exists y. split; auto. apply leaf_ids_incl; auto.
  - destruct kids as [|k0 ks0]; [destruct Hv|]. set (kids := k0 :: ks0) in *.
    apply in_flat_map in Hv as (k & Hkin & Hvk).
    rewrite Forall_forall in IH, Hk.
    assert (Hndk' : NoDup (ids k)).
    { clear -Hndk Hkin. induction kids as [|x l IHl]; [destruct Hkin|]. cbn [flat_map] in Hndk.
      destruct Hkin as [->|Hin]; [eapply nodup_app_l; eauto | apply IHl; auto; eapply nodup_app_r; eauto]. }
    rewrite (IH k Hkin w (Hk k Hkin) Hndk' v Hvk lcv Hlc).
    change (leaf_ids (RN w kids)) with (flat_map leaf_ids kids).
    split.
    + intro H. apply in_flat_map. eauto.
    + intro H. destruct (flat_map_unique ids kids k k v Hndk Hkin Hkin Hvk Hvk) as [_ Hu].
      apply (Hu leaf_ids); auto. intro x. apply leaf_ids_incl.
Qed.

Lemma memb_true_iff : forall x l, memb x l = true <-> In x l.
Proof.
  unfold memb. intros. rewrite existsb_exists. split.
  - intros (y & Hy & E). apply Z.eqb_eq in E. subst. auto.
  - intro H. exists x. split; auto. apply Z.eqb_refl.
Qed.

Theorem lab_ms_agrees : forall a rp t, repb a rp t = true -> NoDup (ids t) ->
  forall v, In v (ids t) -> lab_agrees a true (lab_ms_of (leaf_ids t)) v.
Proof.
  intros a rp t Hrep Hnd v Hv lcv Hlc. unfold c_label. eexists. split; [reflexivity|].
  pose proof (leaf_char a t rp Hrep Hnd v Hv lcv Hlc) as H.
  unfold lab_ms_of. destruct (lcv =? -1) eqn:E.
  - apply Z.eqb_eq in E. apply H in E. apply memb_true_iff in E. rewrite E. reflexivity.
  - apply Z.eqb_neq in E. destruct (memb v (leaf_ids t)) eqn:M; [|reflexivity].
    apply memb_true_iff in M. apply H in M. congruence.
Qed.

(* C writer with TSK_NEWICK_LEGACY_MS_LABELS = Python writer with {u: str(u+1) for leaves} *)
Theorem fast_general_ms :
  forall (Tm : Type) (tsub : Tm -> Tm -> Tm) (print_num : Z -> Tm -> str) (tm : Z -> Tm)
         (a : ctree) (N rp prec B : Z) (t : rtree),
    repb a rp t = true -> nodupb (ids t) = true -> memb rp (ids t) = false ->
    0 <= rid t < N ->
    zlen (py_build Tm tsub print_num tm (lab_ms_of (leaf_ids t)) true prec t) + 2 <= B ->
    c_newick Tm tsub print_num tm a N (rid t) true prec B
    = Ok (py_newick Tm tsub print_num tm (lab_ms_of (leaf_ids t)) true prec t).
Proof.
  intros. apply c_newick_sufficient with (rp := rp); auto.
  - apply nodupb_NoDup; auto.
  - apply memb_false; auto.
  - intros v Hv. eapply lab_ms_agrees; eauto. apply nodupb_NoDup; auto.
Qed.
