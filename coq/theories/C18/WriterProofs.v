(* C18 — the iterative C writer (tsk_newick_converter_run) produces exactly the string of the
   recursive Python writer (_build_newick) whenever the buffer suffices, and reports
   TSK_ERR_BUFFER_OVERFLOW otherwise. *)
From Coq Require Import List ZArith Bool Lia.
From TskVerif Require Import Base.Common Gen.Generated C18.Model C18.ParserProofs.
Import ListNotations.
Open Scope Z_scope.

(* ---------- small facts ---------- *)
Lemma zlen_app : forall {A} (x y : list A), zlen (x ++ y) = zlen x + zlen y.
Proof. intros. unfold zlen. rewrite app_length. lia. Qed.
Lemma zlen_nonneg : forall {A} (x : list A), 0 <= zlen x.
Proof. intros. unfold zlen. lia. Qed.
Lemma zlen_cons : forall {A} (c : A) x, zlen (c :: x) = 1 + zlen x.
Proof. intros. unfold zlen. simpl length. lia. Qed.

Lemma get_is_get : forall l i v, get_is l i v = true -> get l i = Ok v.
Proof.
  unfold get_is. intros l i v H. destruct (get l i); try discriminate.
  apply Z.eqb_eq in H. subst. reflexivity.
Qed.

Lemma get_ok_range : forall {A} (l : list A) i x, get l i = Ok x -> 0 <= i < zlen l.
Proof. intros. apply get_ok_iff. eauto. Qed.

Lemma pigeon : forall (l : list Z) (n : nat),
  NoDup l -> (forall x, In x l -> 0 <= x < Z.of_nat n) -> (length l <= n)%nat.
Proof.
  intros l n Hnd Hr.
  assert (Hnd' : NoDup (map Z.to_nat l)).
  { clear -Hnd Hr. induction l as [|x l IH]; simpl; constructor.
    - inversion Hnd; subst. intro Hin. apply in_map_iff in Hin as (y & Hy & Hin).
      assert (x = y).
      { pose proof (Hr x (or_introl eq_refl)). pose proof (Hr y (or_intror Hin)). lia. }
      subst. auto.
    - inversion Hnd; subst. apply IH; auto. intros; apply Hr; simpl; auto. }
  assert (Hincl : incl (map Z.to_nat l) (seq 0 n)).
  { intros y Hy. apply in_map_iff in Hy as (x & <- & Hx). apply in_seq. pose proof (Hr x Hx). lia. }
  pose proof (NoDup_incl_length Hnd' Hincl) as H. rewrite map_length, seq_length in H. exact H.
Qed.

Lemma nodupb_NoDup : forall l, nodupb l = true -> NoDup l.
Proof.
  induction l as [|x l IH]; simpl; intros H; constructor.
  - apply andb_true_iff in H as [H _]. apply negb_true_iff in H.
    intro Hin. assert (existsb (Z.eqb x) l = true).
    { apply existsb_exists. exists x. split; auto. apply Z.eqb_refl. }
    congruence.
  - apply andb_true_iff in H as [_ H]. auto.
Qed.

Lemma memb_false : forall x l, memb x l = false -> ~ In x l.
Proof.
  unfold memb. intros x l H Hin.
  assert (existsb (Z.eqb x) l = true).
  { apply existsb_exists. exists x. split; auto. apply Z.eqb_refl. }
  congruence.
Qed.

(* ---------- structure of a represented subtree ---------- *)
Lemma repb_unfold : forall a p v kids,
  repb a p (RN v kids) = true ->
  get (ct_par a) v = Ok p /\ get (ct_lc a) v = Ok (first_id kids) /\
  get (ct_rc a) v = Ok (last_id (-1) kids) /\ ls_ok a (-1) kids = true /\
  Forall (fun k => repb a v k = true) kids.
Proof.
  intros a p v kids H. cbn [repb] in H.
  repeat (apply andb_true_iff in H as [H ?]).
  repeat split; auto using get_is_get. apply Forall_forall. intros k Hk.
  rewrite forallb_forall in H0. auto.
Qed.

Lemma repb_par : forall a p t, repb a p t = true -> get (ct_par a) (rid t) = Ok p.
Proof. intros a p [v kids] H. apply repb_unfold in H. tauto. Qed.

Lemma repb_ids_range : forall a t p, repb a p t = true ->
  forall x, In x (ids t) -> 0 <= x < zlen (ct_par a).
Proof.
  induction t as [v kids IH] using rtree_ind'. intros p H x Hx.
  apply repb_unfold in H as (Hp & _ & _ & _ & Hk).
  simpl in Hx. destruct Hx as [<-|Hx].
  - eapply get_ok_range; eauto.
  - apply in_flat_map in Hx as (k & Hk1 & Hk2).
    rewrite Forall_forall in IH, Hk. eapply IH; eauto.
Qed.

Lemma rsize_ids : forall t, rsize t = length (ids t).
Proof.
  induction t as [v kids IH] using rtree_ind'. cbn [rsize ids length]. f_equal.
  induction kids as [|k ks IHk]; simpl; auto.
  inversion IH; subst. rewrite app_length. rewrite IHk; auto.
Qed.

Lemma last_id_in : forall ks x, ks <> [] -> In (last_id x ks) (map rid ks).
Proof.
  induction ks as [|k r IH]; intros x H; [congruence|].
  cbn [last_id map]. destruct r as [|k2 r'].
  - simpl. auto.
  - right. apply IH. discriminate.
Qed.

Lemma rid_in_ids : forall t, In (rid t) (ids t).
Proof. intros [v k]. simpl. auto. Qed.

Lemma map_rid_incl : forall ks x, In x (map rid ks) -> In x (flat_map ids ks).
Proof.
  intros ks x H. apply in_map_iff in H as (k & <- & Hk). apply in_flat_map.
  exists k. split; auto. apply rid_in_ids.
Qed.

(* the left_sib chain read from right_child gives the children right to left *)
Lemma sibs_chain : forall a ks prev f r,
  ls_ok a prev ks = true ->
  sibs f (ct_ls a) prev = Ok r ->
  sibs (f + length ks) (ct_ls a) (last_id prev ks) = Ok (rev (map rid ks) ++ r).
Proof.
  induction ks as [|k ks IH]; intros prev f r Hls Hs.
  - simpl. rewrite Nat.add_0_r. exact Hs.
  - cbn [ls_ok] in Hls. apply andb_true_iff in Hls as [H1 H2].
    apply get_is_get in H1.
    cbn [last_id map rev length].
    replace (f + S (length ks))%nat with (S f + length ks)%nat by lia.
    rewrite (IH (rid k) (S f) (rid k :: r)); auto.
    + rewrite <- app_assoc. reflexivity.
    + cbn [sibs]. pose proof (get_ok_range _ _ _ H1) as Hr.
      assert (E : (rid k =? -1) = false) by (apply Z.eqb_neq; lia).
      rewrite E, H1. cbn [bind]. rewrite Hs. reflexivity.
Qed.

Lemma sibs_mono : forall f g ls w r, sibs f ls w = Ok r -> (f <= g)%nat -> sibs g ls w = Ok r.
Proof.
  induction f as [|f IH]; intros g ls w r H Hle; [discriminate|].
  destruct g as [|g]; [lia|]. cbn [sibs] in *.
  destruct (w =? -1); auto.
  destruct (get ls w) as [nxt| | |]; try discriminate. cbn [bind] in *.
  destruct (sibs f ls nxt) as [r'| | |] eqn:E; try discriminate.
  rewrite (IH g ls nxt r' E) by lia. exact H.
Qed.

Lemma ls_ok_range : forall a ks prev, ls_ok a prev ks = true ->
  forall x, In x (map rid ks) -> 0 <= x < zlen (ct_ls a).
Proof.
  induction ks as [|k ks IH]; intros prev H x Hx; [destruct Hx|].
  cbn [ls_ok] in H. apply andb_true_iff in H as [H1 H2].
  destruct Hx as [<-|Hx]; [|eauto].
  apply get_is_get in H1. eapply get_ok_range; eauto.
Qed.

(* ---------- counting: distinct positions satisfying f are at most the number of such entries ---------- *)
Lemma count_positions : forall (f : Z -> bool) (l : list Z) (P : list nat),
  NoDup P -> (forall i, In i P -> exists x, nth_error l i = Some x /\ f x = true) ->
  (length P <= length (filter f l))%nat.
Proof.
  intros f l. induction l as [|x l IH]; intros P Hnd H.
  - destruct P as [|i P]; [simpl; lia|]. destruct (H i (or_introl eq_refl)) as (y & Hy & _).
    destruct i; discriminate.
  - set (P' := map Nat.pred (filter (fun i => negb (Nat.eqb i 0)) P)).
    assert (HndP' : NoDup P').
    { unfold P'. clear -Hnd. induction P as [|i P IHP]; simpl; [constructor|].
      inversion Hnd; subst. destruct i as [|i]; simpl; auto. constructor; auto.
      intro Hin. apply in_map_iff in Hin as (j & Hj & Hin). apply filter_In in Hin as [Hin Hj0].
      destruct j as [|j]; [discriminate|]. simpl in Hj. subst. auto. }
    assert (HP' : forall i, In i P' -> exists y, nth_error l i = Some y /\ f y = true).
    { intros i Hi. unfold P' in Hi. apply in_map_iff in Hi as (j & Hj & Hin).
      apply filter_In in Hin as [Hin Hj0]. destruct j as [|j]; [discriminate|]. simpl in Hj. subst.
      destruct (H (S i) Hin) as (y & Hy & Hf). exists y. auto. }
    specialize (IH P' HndP' HP').
    assert (Hlen : (length P <= length P' + (if existsb (Nat.eqb 0) P then 1 else 0))%nat).
    { unfold P'. rewrite map_length. clear -Hnd. induction P as [|i P IHP]; [simpl; lia|].
      inversion Hnd; subst. specialize (IHP H2).
      destruct i as [|i]; cbn [length filter existsb Nat.eqb negb orb].
      - assert (existsb (Nat.eqb 0) P = false).
        { destruct (existsb (Nat.eqb 0) P) eqn:E; auto. apply existsb_exists in E as (j & Hj & E).
          apply Nat.eqb_eq in E. subst. contradiction. }
        rewrite H in IHP. lia.
      - change (existsb (fun m : nat => match m with 0%nat => true | S _ => false end) P)
          with (existsb (Nat.eqb 0) P).
        destruct (existsb (Nat.eqb 0) P); lia. }
    cbn [filter]. destruct (existsb (Nat.eqb 0) P) eqn:E.
    + apply existsb_exists in E as (j & Hj & E). apply Nat.eqb_eq in E. subst j.
      destruct (H 0%nat Hj) as (y & Hy & Hf). simpl in Hy. inversion Hy; subst. rewrite Hf. simpl. lia.
    + destruct (f x); simpl; lia.
Qed.

Lemma count_if_ge : forall (f : Z -> bool) (l : list Z) (I : list Z),
  NoDup I -> (forall i, In i I -> exists x, get l i = Ok x /\ f x = true) ->
  zlen I <= count_if f l.
Proof.
  intros f l I Hnd H. unfold count_if, zlen.
  assert (Hr : forall i, In i I -> 0 <= i).
  { intros i Hi. destruct (H i Hi) as (x & Hx & _). pose proof (get_ok_range _ _ _ Hx). lia. }
  assert (HndP : NoDup (map Z.to_nat I)).
  { clear -Hnd Hr. induction I as [|x I IH]; simpl; constructor.
    - inversion Hnd; subst. intro Hin. apply in_map_iff in Hin as (y & Hy & Hin).
      assert (x = y) by (pose proof (Hr x (or_introl eq_refl)); pose proof (Hr y (or_intror Hin)); lia).
      subst. auto.
    - inversion Hnd; subst. apply IH; auto. intros; apply Hr; simpl; auto. }
  pose proof (count_positions f l (map Z.to_nat I) HndP) as Hc. rewrite map_length in Hc.
  apply Nat2Z.inj_le. apply Hc.
  intros n Hn. apply in_map_iff in Hn as (i & <- & Hi). destruct (H i Hi) as (x & Hx & Hf).
  exists x. split; auto. unfold get in Hx. destruct (i <? 0); [discriminate|].
  destruct (nth_error l (Z.to_nat i)); [inversion Hx; reflexivity | discriminate].
Qed.

Lemma rep_par_nonneg : forall a t p, repb a p t = true -> 0 <= p ->
  forall x, In x (ids t) -> exists q, get (ct_par a) x = Ok q /\ negb (q =? -1) = true.
Proof.
  induction t as [v kids IH] using rtree_ind'. intros p Hrep Hp x Hx.
  apply repb_unfold in Hrep as (Hpar & _ & _ & _ & Hk).
  cbn [ids] in Hx. destruct Hx as [<-|Hx].
  - exists p. split; auto. apply negb_true_iff, Z.eqb_neq. lia.
  - apply in_flat_map in Hx as (k & Hkin & Hxk). rewrite Forall_forall in IH, Hk.
    apply (IH k Hkin v (Hk k Hkin)); auto. pose proof (get_ok_range _ _ _ Hpar). lia.
Qed.

Lemma size_le_bound : forall a p t, repb a p t = true -> NoDup (ids t) ->
  Z.of_nat (rsize t) <= size_bound a.
Proof.
  intros a p [v kids] Hrep Hnd. rewrite rsize_ids. cbn [ids length].
  pose proof (repb_unfold _ _ _ _ Hrep) as (Hpar & _ & _ & _ & Hk).
  inversion Hnd as [|? ? Hv Hndk]; subst.
  assert (zlen (flat_map ids kids) <= num_edges_of a).
  { unfold num_edges_of. apply count_if_ge; auto. intros x Hx.
    apply in_flat_map in Hx as (k & Hkin & Hxk). rewrite Forall_forall in Hk.
    apply (rep_par_nonneg a k v (Hk k Hkin)); auto. pose proof (get_ok_range _ _ _ Hpar). lia. }
  unfold size_bound. assert (0 <= num_samples_of a) by (unfold num_samples_of, count_if; apply zlen_nonneg).
  unfold zlen in *. lia.
Qed.

Section Sim.
  Variable Tm : Type.
  Variable tsub : Tm -> Tm -> Tm.
  Variable print_num : Z -> Tm -> str.
  Variable tm : Z -> Tm.
  Variable a : ctree.
  Variable ms : bool.
  Variable prec B rp : Z.
  Variable lab : Z -> str.

  Notation pyb := (py_build Tm tsub print_num tm lab true prec).
  Notation tok := (btoken Tm tsub print_num tm prec).
  Notation step := (cstep Tm tsub print_num tm a ms prec B rp).
  Notation run := (fun f st => crun Tm tsub print_num tm f a ms prec B rp st).

  Definition olab (o : option str) : str := match o with Some l => l | None => [] end.

  (* the label the C code prints for v is the label the Python path looks up *)
  Definition lab_agrees (v : Z) : Prop :=
    forall lcv, get (ct_lc a) v = Ok lcv ->
      exists o, c_label a ms v lcv = Ok o /\ lab v = olab o.

  Definition sepc (last : bool) : Z := if last then 41 else 44.

  (* text emitted for the subtree t hanging below p *)
  Definition wtext (p : Z) (isroot last : bool) (t : rtree) : str :=
    pyb t ++ (if isroot then [] else 58 :: tok p (rid t) ++ [sepc last]).

  Fixpoint wkids (v : Z) (ks : list rtree) : str :=
    match ks with
    | [] => []
    | k :: r => wtext v false (match r with [] => true | _ => false end) k ++ wkids v r
    end.

  Fixpoint steps (t : rtree) : nat :=
    match t with
    | RN _ kids => match kids with [] => 1%nat | _ => (2 + list_sum (map steps kids))%nat end
    end.

  (* entries of the traversal stack a subtree needs, itself included *)
  Fixpoint occ (t : rtree) : Z :=
    match t with
    | RN _ kids =>
        1 + (fix go (l : list rtree) : Z :=
               match l with [] => 0 | k :: r => Z.max (occ k + zlen r) (go r) end) kids
    end.
  Definition occ_kids : list rtree -> Z :=
    fix go (l : list rtree) : Z :=
      match l with [] => 0 | k :: r => Z.max (occ k + zlen r) (go r) end.
  Lemma occ_unfold : forall v kids, occ (RN v kids) = 1 + occ_kids kids.
  Proof. reflexivity. Qed.
  Lemma occ_kids_cons : forall k r, occ_kids (k :: r) = Z.max (occ k + zlen r) (occ_kids r).
  Proof. reflexivity. Qed.
  Lemma occ_pos : forall t, 1 <= occ t.
  Proof.
    destruct t as [v kids]. rewrite occ_unfold.
    assert (0 <= occ_kids kids); [|lia].
    induction kids as [|k r IH]; [simpl; lia|]. rewrite occ_kids_cons. lia.
  Qed.
  Lemma occ_kids_len : forall ks, (forall k, In k ks -> 1 <= occ k) -> zlen ks <= occ_kids ks.
  Proof.
    induction ks as [|k r IH]; intros H; [simpl; unfold zlen; simpl; lia|].
    rewrite occ_kids_cons, zlen_cons. specialize (H k (or_introl eq_refl)). lia.
  Qed.

  Lemma occ_le_size : forall t, occ t <= Z.of_nat (rsize t).
  Proof.
    induction t as [v kids IH] using rtree_ind'. rewrite occ_unfold. cbn [rsize]. rewrite Nat2Z.inj_succ.
    assert (H : occ_kids kids <= Z.of_nat (list_sum (map rsize kids)) /\ zlen kids <= Z.of_nat (list_sum (map rsize kids))).
    { induction kids as [|k r IHr]; [simpl; unfold zlen; simpl; lia|].
      inversion IH; subst. specialize (IHr H2). rewrite occ_kids_cons, zlen_cons.
      change (list_sum (map rsize (k :: r))) with (rsize k + list_sum (map rsize r))%nat.
      rewrite Nat2Z.inj_add. pose proof (occ_pos k). lia. }
    lia.
  Qed.

  Lemma pyb_internal : forall v k ks,
    pyb (RN v (k :: ks)) = 40 :: wkids v (k :: ks) ++ lab v.
  Proof.
    intros v k ks. cbn [py_build].
    set (g := fun k0 : rtree => pyb k0 ++ (58 :: tok v (rid k0)) ++ [44]).
    assert (H : forall l, l <> [] ->
              removelast (concat (map g l)) ++ [41] = wkids v l).
    { induction l as [|x l IH]; [congruence|]. intros _.
      destruct l as [|y l'].
      - cbn [map concat wkids]. rewrite !app_nil_r.
        change (g x) with (pyb x ++ (58 :: tok v (rid x)) ++ [44]).
        rewrite !app_assoc. rewrite removelast_app_single. unfold wtext, sepc.
        rewrite <- !app_assoc. reflexivity.
      - change (wkids v (x :: y :: l')) with (wtext v false false x ++ wkids v (y :: l')).
        rewrite <- IH by discriminate.
        change (map g (x :: y :: l')) with (g x :: map g (y :: l')).
        cbn [concat]. rewrite removelast_app.
        + rewrite <- app_assoc. reflexivity.
        + cbn [map concat]. unfold g. intro Hc. apply app_eq_nil in Hc as [Hc _].
          apply app_eq_nil in Hc as [_ Hc]. apply app_eq_nil in Hc as [_ Hc]. discriminate. }
    change (removelast (40 :: concat (map g (k :: ks))))
      with (removelast ([40] ++ concat (map g (k :: ks)))).
    rewrite removelast_app.
    2:{ cbn [map concat]. unfold g. intro Hc. apply app_eq_nil in Hc as [Hc _].
        apply app_eq_nil in Hc as [_ Hc]. apply app_eq_nil in Hc as [_ Hc]. discriminate. }
    cbn [app]. f_equal.
    rewrite <- (H (k :: ks)) by discriminate. rewrite <- app_assoc. reflexivity.
  Qed.

  Lemma run_step : forall f v stk u out st',
    step (v :: stk, u, out) = Ok st' ->
    run (S f) (v :: stk, u, out) = run f st'.
  Proof. intros f v stk u out st' H. cbn [crun]. rewrite H. reflexivity. Qed.

  (* first visit of an internal node: '(' and its children pushed *)
  Lemma step_open : forall v kids stk u out,
    kids <> [] ->
    get (ct_lc a) v = Ok (first_id kids) ->
    get (ct_rc a) v = Ok (last_id (-1) kids) ->
    ls_ok a (-1) kids = true ->
    NoDup (map rid kids) ->
    v <> u -> zlen out < B ->
    zlen kids + 1 + zlen stk <= size_bound a ->
    step (v :: stk, u, out) = Ok (map rid kids ++ v :: stk, u, out ++ [40]).
  Proof.
    intros v kids stk u out Hne Hlc Hrc Hls Hnd Hvu HB Hcap.
    unfold cstep. rewrite Hlc. cbn [bind].
    assert (Hf : first_id kids <> -1).
    { destruct kids as [|k r]; [congruence|]. cbn [first_id].
      cbn [ls_ok] in Hls. apply andb_true_iff in Hls as [H1 _]. apply get_is_get in H1.
      pose proof (get_ok_range _ _ _ H1). lia. }
    replace (first_id kids =? -1) with false by (symmetry; apply Z.eqb_neq; auto).
    replace (v =? u) with false by (symmetry; apply Z.eqb_neq; auto).
    cbn [negb andb].
    replace (zlen out >=? B) with false by (symmetry; rewrite Z.geb_leb; apply Z.leb_gt; lia).
    rewrite Hrc. cbn [bind].
    assert (Hs : sibs (S (length (ct_ls a))) (ct_ls a) (last_id (-1) kids) = Ok (rev (map rid kids))).
    { assert (H1 : sibs (1 + length kids) (ct_ls a) (last_id (-1) kids) = Ok (rev (map rid kids) ++ [])).
      { apply sibs_chain; auto. }
      rewrite app_nil_r in H1. eapply sibs_mono; eauto.
      assert (length (map rid kids) <= length (ct_ls a))%nat.
      { apply pigeon; auto. intros x Hx. pose proof (ls_ok_range _ _ _ Hls x Hx). unfold zlen in *. lia. }
      rewrite map_length in H. lia. }
    rewrite Hs. cbn [bind]. rewrite rev_involutive.
    replace (zlen (map rid kids ++ v :: stk) >? size_bound a) with false; [reflexivity|].
    symmetry. rewrite Z.gtb_ltb. apply Z.ltb_ge. rewrite zlen_app, zlen_cons.
    unfold zlen in *. rewrite map_length. lia.
  Qed.

  Definition ctx_ok (p : Z) (isroot last : bool) (v : Z) : Prop :=
    if isroot then p = rp
    else p <> rp /\ exists rcu, get (ct_rc a) p = Ok rcu /\ last = (v =? rcu).

  (* leaving a node (leaf, or internal after its last child): label, branch, separator *)
  Lemma step_close : forall v lcv p stk u out isroot last,
    get (ct_lc a) v = Ok lcv -> (lcv = -1 \/ v = u) ->
    get (ct_par a) v = Ok p ->
    lab_agrees v ->
    ctx_ok p isroot last v ->
    zlen (out ++ lab v ++ (if isroot then [] else 58 :: tok p v ++ [sepc last])) < B ->
    step (v :: stk, u, out)
    = Ok (stk, p, out ++ lab v ++ (if isroot then [] else 58 :: tok p v ++ [sepc last])).
  Proof.
    intros v lcv p stk u out isroot last Hlc Hcond Hpar Hlab Hctx HB.
    unfold cstep. rewrite Hlc. cbn [bind].
    replace (negb (lcv =? -1) && negb (v =? u)) with false.
    2:{ symmetry. destruct Hcond as [->| ->]; [reflexivity|].
        rewrite Z.eqb_refl. apply andb_false_r. }
    rewrite Hpar. cbn [bind].
    destruct (Hlab lcv Hlc) as (o & Ho & Hl). rewrite Ho. cbn [bind]. rewrite Hl in *.
    rewrite !zlen_app in HB.
    pose proof (zlen_nonneg out). pose proof (zlen_nonneg (olab o)).
    set (tail := if isroot then [] else 58 :: tok p v ++ [sepc last]) in *.
    pose proof (zlen_nonneg tail).
    assert (E1 : (match o with
                  | None => @Ok str out
                  | Some l => if zlen out >=? B then ovf else
                              if zlen (out ++ l) >=? B then ovf else Ok (out ++ l)
                  end) = Ok (out ++ olab o)).
    { destruct o as [l|]; cbn [olab] in *.
      - replace (zlen out >=? B) with false by (symmetry; rewrite Z.geb_leb; apply Z.leb_gt; lia).
        rewrite zlen_app.
        replace (zlen out + zlen l >=? B) with false by (symmetry; rewrite Z.geb_leb; apply Z.leb_gt; lia).
        reflexivity.
      - rewrite app_nil_r. reflexivity. }
    rewrite E1. cbn [bind].
    destruct isroot.
    - unfold ctx_ok in Hctx. subst p. rewrite Z.eqb_refl. cbn [bind]. unfold tail. rewrite !app_nil_r. reflexivity.
    - unfold ctx_ok in Hctx. destruct Hctx as (Hne & rcu & Hrc & Hlast).
      replace (p =? rp) with false by (symmetry; apply Z.eqb_neq; auto).
      cbv zeta. unfold tail in *. rewrite zlen_cons, zlen_app in H1.
      rewrite zlen_cons, zlen_app in HB.
      assert (zlen [sepc last] = 1) by reflexivity.
      rewrite !zlen_app, !zlen_cons.
      replace (zlen out + zlen (olab o) + (1 + zlen (tok p v)) >=? B) with false
        by (symmetry; rewrite Z.geb_leb; apply Z.leb_gt; lia).
      rewrite Hrc. cbn [bind]. rewrite <- Hlast. unfold sepc.
      rewrite <- !app_assoc. cbn [app]. rewrite <- ?app_assoc. reflexivity.
  Qed.

  Definition sub_sim (t : rtree) : Prop :=
    forall p isroot last stk u out f,
      repb a p t = true -> NoDup (ids t) -> ~ In u (ids t) -> ~ In rp (ids t) ->
      (forall v, In v (ids t) -> lab_agrees v) ->
      ctx_ok p isroot last (rid t) ->
      zlen (out ++ wtext p isroot last t) < B ->
      occ t + zlen stk <= size_bound a ->
      run (steps t + f)%nat (rid t :: stk, u, out)
      = run f (stk, p, out ++ wtext p isroot last t).

  Lemma kids_sim : forall v ks, Forall sub_sim ks -> ks <> [] ->
    forall x u out f stk,
      Forall (fun k => repb a v k = true) ks ->
      NoDup (flat_map ids ks) -> ~ In u (flat_map ids ks) -> ~ In v (flat_map ids ks) ->
      ~ In rp (flat_map ids ks) -> v <> rp ->
      (forall w, In w (flat_map ids ks) -> lab_agrees w) ->
      get (ct_rc a) v = Ok (last_id x ks) ->
      zlen (out ++ wkids v ks) < B ->
      occ_kids ks + zlen stk <= size_bound a ->
      run (list_sum (map steps ks) + f)%nat (map rid ks ++ stk, u, out)
      = run f (stk, v, out ++ wkids v ks).
  Proof.
    induction ks as [|k r IH]; intros HF Hne x u out f stk Hrep Hnd Hu Hv Hrp Hvrp Hlab Hrc HB Hcap;
      [congruence|].
    rewrite occ_kids_cons in Hcap.
    inversion HF as [|? ? Hk Hr]; subst. inversion Hrep as [|? ? Hrk Hrr]; subst.
    cbn [flat_map] in *.
    assert (Hndk' : NoDup (ids k)).
    { clear -Hnd. induction (ids k) as [|y l IHl]; [constructor|].
      simpl in Hnd. inversion Hnd; subst. constructor.
      - intro Hin. apply H1. apply in_or_app. auto.
      - auto. }
    assert (Hndr : NoDup (flat_map ids r)).
    { clear -Hnd. induction (ids k) as [|y l IHl]; [exact Hnd|]. simpl in Hnd. inversion Hnd; auto. }
    assert (Hdisj : forall y, In y (ids k) -> ~ In y (flat_map ids r)).
    { clear -Hnd. induction (ids k) as [|y0 l IHl]; intros y Hy; [destruct Hy|].
      simpl in Hnd. inversion Hnd; subst. destruct Hy as [<-|Hy].
      - intro Hin. apply H1. apply in_or_app. auto.
      - apply IHl; auto. }
    cbn [map list_sum wkids app].
    set (lastk := match r with [] => true | _ => false end).
    change (list_sum (steps k :: map steps r)) with (steps k + list_sum (map steps r))%nat.
    rewrite <- Nat.add_assoc.
    assert (HBk : zlen (out ++ wtext v false lastk k) < B).
    { cbn [wkids] in HB. fold lastk in HB. rewrite app_assoc in HB. rewrite zlen_app in HB.
      pose proof (zlen_nonneg (wkids v r)). lia. }
    rewrite (Hk v false lastk); auto.
    - destruct r as [|k2 r'].
      + cbn [map list_sum wkids app]. rewrite app_nil_r. reflexivity.
      + cbn [wkids] in HB |- *. rewrite app_assoc.
        rewrite (IH Hr ltac:(discriminate) (rid k)); auto.
        all: try (intro Hin; apply Hv; apply in_or_app; auto; fail).
        all: try (intro Hin; apply Hrp; apply in_or_app; auto; fail).
        all: try (intros w Hw; apply Hlab; apply in_or_app; auto; fail).
        all: try (rewrite <- app_assoc; exact HB).
        all: try lia.
    - intro Hin. apply Hu. apply in_or_app. auto.
    - intro Hin. apply Hrp. apply in_or_app. auto.
    - intros w Hw. apply Hlab. apply in_or_app. auto.
    - unfold ctx_ok. split; auto. exists (last_id x (k :: r)). split; auto.
      cbn [last_id]. unfold lastk. destruct r as [|k2 r'].
      + cbn [last_id]. symmetry. apply Z.eqb_refl.
      + symmetry. apply Z.eqb_neq. intro E.
        apply (Hdisj (rid k) (rid_in_ids k)). rewrite E.
        apply map_rid_incl. apply last_id_in. discriminate.
    - rewrite zlen_app. assert (zlen (map rid r) = zlen r) by (unfold zlen; rewrite map_length; reflexivity). lia.
  Qed.

  Lemma sub_sim_all : forall t, sub_sim t.
  Proof.
    induction t as [v kids IH] using rtree_ind'.
    intros p isroot last stk u out f Hrep Hnd Hu Hrp Hlab Hctx HB Hcap.
    apply repb_unfold in Hrep as (Hpar & Hlc & Hrc & Hls & Hk).
    cbn [rid] in *. cbn [ids] in Hnd, Hu, Hrp.
    inversion Hnd as [|? ? Hvk Hndk]; subst.
    destruct kids as [|k ks].
    - (* leaf *)
      cbn [steps]. cbn [Nat.add]. unfold wtext in *. cbn [py_build rid] in *.
      erewrite run_step; [reflexivity|].
      eapply step_close; eauto.
      apply Hlab. simpl; auto.
    - (* internal *)
      assert (Hne : k :: ks <> []) by discriminate.
      unfold wtext in *. cbn [rid] in *. rewrite pyb_internal in *.
      assert (Hvu : v <> u) by (intro; subst; apply Hu; simpl; auto).
      assert (Hvrp : v <> rp) by (intro; subst; apply Hrp; simpl; auto).
      assert (Hndm : NoDup (map rid (k :: ks))).
      { clear -Hndk. revert Hndk. generalize (k :: ks). induction l as [|y l IHl]; intros H; simpl; constructor.
        - simpl in H. intro Hin. apply map_rid_incl in Hin.
          destruct y as [w wk]. simpl in H. inversion H; subst. apply H2. apply in_or_app. auto.
        - apply IHl. simpl in H. clear -H. induction (ids y) as [|z l0 IH0]; [exact H|].
          simpl in H. inversion H; auto. }
      set (tail := if isroot then [] else 58 :: tok p v ++ [sepc last]) in *.
      assert (HB1 : zlen out + 1 + zlen (wkids v (k :: ks)) + zlen (lab v) + zlen tail < B).
      { clear -HB. rewrite !zlen_app, zlen_cons, !zlen_app in HB. lia. }
      pose proof (zlen_nonneg (wkids v (k :: ks))). pose proof (zlen_nonneg (lab v)).
      pose proof (zlen_nonneg tail). pose proof (zlen_nonneg out).
      change (steps (RN v (k :: ks))) with (S (S (list_sum (map steps (k :: ks))))).
      cbn [Nat.add].
      assert (Hocc : zlen (k :: ks) <= occ_kids (k :: ks)) by (apply occ_kids_len; intros; apply occ_pos).
      rewrite occ_unfold in Hcap.
      erewrite run_step.
      2:{ apply step_open with (kids := k :: ks); auto; lia. }
      replace (S (list_sum (map steps (k :: ks)) + f))%nat
        with (list_sum (map steps (k :: ks)) + S f)%nat by lia.
      rewrite (kids_sim v (k :: ks) IH Hne (-1)); auto.
      + erewrite run_step; [|eapply step_close with (isroot := isroot) (last := last); eauto].
        * f_equal. f_equal. fold tail. repeat (progress (rewrite <- ?app_assoc; cbn [app])). reflexivity.
        * apply Hlab. simpl; auto.
        * fold tail. rewrite !zlen_app. assert (zlen [40] = 1) by reflexivity. lia.
      + intro Hin. apply Hu. simpl. auto.
      + intro Hin. apply Hrp. simpl. auto.
      + intros w Hw. apply Hlab. simpl. auto.
      + rewrite !zlen_app. assert (zlen [40] = 1) by reflexivity. lia.
      + rewrite zlen_cons. lia.
  Qed.

  Lemma steps_le : forall t, (steps t <= 2 * rsize t)%nat.
  Proof.
    induction t as [v kids IH] using rtree_ind'. cbn [steps rsize].
    assert (H : (list_sum (map steps kids) <= 2 * list_sum (map rsize kids))%nat).
    { induction kids as [|k ks IHk]; simpl; [lia|]. inversion IH; subst. specialize (IHk H2). lia. }
    destruct kids; simpl in *; lia.
  Qed.

  (* ---------- the theorem ---------- *)
  Theorem c_newick_sufficient : forall N t,
    repb a rp t = true -> NoDup (ids t) -> ~ In rp (ids t) ->
    0 <= rid t < N ->
    (forall v, In v (ids t) -> lab_agrees v) ->
    zlen (pyb t) + 2 <= B ->
    c_newick Tm tsub print_num tm a N (rid t) ms prec B
    = Ok (py_newick Tm tsub print_num tm lab true prec t).
  Proof.
    intros N t Hrep Hnd Hrp Hr Hlab HB.
    unfold c_newick.
    replace ((rid t <? 0) || (rid t >=? N)) with false.
    2:{ symmetry. apply orb_false_iff. split; [apply Z.ltb_ge; lia | rewrite Z.geb_leb; apply Z.leb_gt; lia]. }
    rewrite (repb_par _ _ _ Hrep). cbn [bind].
    assert (Hsz : (steps t + 1 <= 2 * length (ct_par a) + 2)%nat).
    { pose proof (steps_le t). rewrite rsize_ids in H.
      assert (length (ids t) <= length (ct_par a))%nat.
      { apply pigeon; auto. intros x Hx. pose proof (repb_ids_range _ _ _ Hrep x Hx). unfold zlen in *. lia. }
      lia. }
    remember (2 * length (ct_par a) + 2 - (steps t + 1))%nat as extra.
    replace (2 * length (ct_par a) + 2)%nat with (steps t + S extra)%nat by lia.
    pose proof (sub_sim_all t rp true true [] rp [] (S extra)) as Hs.
    cbn [app] in Hs. unfold wtext in Hs. rewrite app_nil_r in Hs.
    rewrite Hs; auto.
    - cbn [crun bind].
      replace (zlen (pyb t) + 1 >=? B) with false by (symmetry; rewrite Z.geb_leb; apply Z.leb_gt; lia).
      reflexivity.
    - reflexivity.
    - lia.
    - pose proof (occ_le_size t). pose proof (size_le_bound a rp t Hrep Hnd).
      assert (zlen (@nil Z) = 0) by reflexivity. lia.
  Qed.
End Sim.
