(* C18 — the exact rendering fragment: times that are integers or dyadic rationals (values
   x / 10^q with integer x), printed by [print_dec] (zero padding or round-half-even on the exact
   value).  For this fragment the two hypotheses the general theorems take about float rendering
   — no delimiter bytes, and "a longer branch never prints shorter" — are PROVED, so as_newick
   succeeds and parses back with nothing trusted about number rendering. *)
From Coq Require Import List ZArith Bool Lia.
From TskVerif Require Import Base.Common Gen.Generated C18.Model C18.ParserProofs C18.WriterProofs
  C18.BufferProofs C18.LabelProofs C18.FastaProofs C18.SafetyProofs C18.IterProofs C18.AsNewickProofs.
Import ListNotations.
Open Scope Z_scope.

(* ---------- bytes ---------- *)
Lemma digs_digits : forall k r acc,
  (forall x, In x acc -> 48 <= x <= 57) -> forall x, In x (digs k r acc) -> 48 <= x <= 57.
Proof.
  induction k as [|k IH]; intros r acc Hacc x Hx; cbn [digs] in Hx; auto.
  eapply IH; [|exact Hx]. intros y [<-|Hy]; auto.
  pose proof (Z.mod_pos_bound r 10 ltac:(lia)). lia.
Qed.

Lemma digs_len : forall k r acc, zlen (digs k r acc) = Z.of_nat k + zlen acc.
Proof.
  induction k as [|k IH]; intros r acc; cbn [digs]; [lia|].
  rewrite IH, zlen_cons. lia.
Qed.

Lemma print_fixed_clean : forall q x, cleanb (print_fixed q x) = true.
Proof.
  intros q x. unfold print_fixed, cleanb. rewrite forallb_app. apply andb_true_iff. split.
  - apply dec_clean.
  - destruct (q >? 0); [|reflexivity]. cbn [forallb]. apply andb_true_iff. split; [reflexivity|].
    apply (digits_clean (digs (Z.to_nat q) (x mod 10 ^ q) [])).
    apply digs_digits. intros y [].
Qed.

Lemma print_dec_clean : forall q p x, cleanb (print_dec q p x) = true.
Proof. intros. unfold print_dec. destruct (p >=? q); apply print_fixed_clean. Qed.

(* ---------- lengths ---------- *)
Lemma print_fixed_len : forall p x, 0 <= p ->
  zlen (print_fixed p x) = zlen (dec (x / 10 ^ p)) + (if p >? 0 then 1 + p else 0).
Proof.
  intros p x Hp. unfold print_fixed. rewrite zlen_app. f_equal.
  destruct (p >? 0); [|reflexivity]. rewrite zlen_cons, digs_len.
  assert (zlen (@nil Z) = 0) by reflexivity. lia.
Qed.

Lemma print_fixed_mono : forall p x y, 0 <= p -> 0 <= x <= y ->
  zlen (print_fixed p x) <= zlen (print_fixed p y).
Proof.
  intros p x y Hp Hxy. rewrite !print_fixed_len by assumption.
  assert (0 < 10 ^ p) by (apply Z.pow_pos_nonneg; lia).
  assert (0 <= x / 10 ^ p <= y / 10 ^ p).
  { split; [apply Z.div_pos; lia | apply Z.div_le_mono; lia]. }
  pose proof (dec_len_mono _ _ H0). lia.
Qed.

Lemma rhe_nonneg : forall x s, 0 < s -> 0 <= x -> 0 <= round_half_even x s.
Proof.
  intros x s Hs Hx. unfold round_half_even.
  assert (0 <= x / s) by (apply Z.div_pos; lia).
  destruct (_ || _); lia.
Qed.

Lemma rhe_mono : forall x y s, 0 < s -> x <= y -> round_half_even x s <= round_half_even y s.
Proof.
  intros x y s Hs Hxy. unfold round_half_even.
  pose proof (Z.div_mod x s ltac:(lia)) as Hx. pose proof (Z.mod_pos_bound x s Hs) as Hmx.
  pose proof (Z.div_mod y s ltac:(lia)) as Hy. pose proof (Z.mod_pos_bound y s Hs) as Hmy.
  assert (Hq : x / s <= y / s) by (apply Z.div_le_mono; lia).
  destruct (Z.eq_dec (x / s) (y / s)) as [E|E].
  - rewrite E in *. assert (x mod s <= y mod s) by nia.
    destruct ((2 * (x mod s) >? s) || ((2 * (x mod s) =? s) && Z.odd (y / s))) eqn:E1;
      destruct ((2 * (y mod s) >? s) || ((2 * (y mod s) =? s) && Z.odd (y / s))) eqn:E2; try lia.
    exfalso. apply orb_false_iff in E2 as [E2a E2b].
    apply orb_true_iff in E1 as [E1|E1].
    + apply Z.gtb_lt in E1. rewrite Z.gtb_ltb in E2a. apply Z.ltb_ge in E2a. lia.
    + apply andb_true_iff in E1 as [E1a E1b]. apply Z.eqb_eq in E1a. rewrite E1b in E2b.
      rewrite andb_true_r in E2b. apply Z.eqb_neq in E2b.
      rewrite Z.gtb_ltb in E2a. apply Z.ltb_ge in E2a. lia.
  - destruct (_ || _); destruct (_ || _); lia.
Qed.

Lemma print_dec_mono : forall q p x y, 0 <= q -> 0 <= p -> 0 <= x <= y ->
  zlen (print_dec q p x) <= zlen (print_dec q p y).
Proof.
  intros q p x y Hq Hp Hxy. unfold print_dec. destruct (p >=? q) eqn:E.
  - rewrite Z.geb_leb in E. apply Z.leb_le in E.
    assert (0 < 10 ^ (p - q)) by (apply Z.pow_pos_nonneg; lia).
    apply print_fixed_mono; auto. nia.
  - rewrite Z.geb_leb in E. apply Z.leb_gt in E.
    assert (0 < 10 ^ (q - p)) by (apply Z.pow_pos_nonneg; lia).
    apply print_fixed_mono; auto. split; [apply rhe_nonneg; lia | apply rhe_mono; lia].
Qed.

(* ---------- times along the tree ---------- *)
Lemma fold_min_le : forall l x, fold_left Z.min l x <= x /\ (forall y, In y l -> fold_left Z.min l x <= y).
Proof.
  induction l as [|a l IH]; intros x; cbn [fold_left]; [split; [lia | intros y []]|].
  destruct (IH (Z.min x a)) as [H1 H2]. split; [lia|].
  intros y [<-|Hy]; [lia | auto].
Qed.

Lemma list_min_le : forall l v x, get l v = Ok x -> list_min l <= x.
Proof.
  intros l v x H. unfold get in H. destruct (v <? 0); [discriminate|].
  destruct (nth_error l (Z.to_nat v)) eqn:E; [|discriminate]. inversion H; subst.
  apply nth_error_In in E. destruct l as [|a l]; [destruct E|]. cbn [list_min].
  destruct (fold_min_le l a) as [H1 H2]. destruct E as [<-|E]; auto.
Qed.

Lemma redges_parent_in : forall t p c, In (p, c) (redges t) -> In p (ids t) /\ In c (ids t).
Proof.
  induction t as [v kids IH] using rtree_ind'. intros p c H. cbn [redges ids] in *.
  apply in_app_or in H as [H|H].
  - apply in_map_iff in H as (k & E & Hk). inversion E; subst. split; [left; auto|].
    right. apply in_flat_map. exists k. split; auto. apply rid_in_ids.
  - apply in_flat_map in H as (k & Hk & H). rewrite Forall_forall in IH.
    destruct (IH k Hk p c H). split; right; apply in_flat_map; eauto.
Qed.

Lemma root_is_oldest : forall times t, times_increase times t = true ->
  forall v, In v (ids t) -> fx_tm times v <= fx_tm times (rid t).
Proof.
  intros times. induction t as [r kids IH] using rtree_ind'. intros Hinc v Hv.
  cbn [ids rid] in *. destruct Hv as [<-|Hv]; [lia|].
  apply in_flat_map in Hv as (k & Hk & Hv). rewrite Forall_forall in IH.
  unfold times_increase in *. rewrite forallb_forall in Hinc.
  assert (Hk1 : fx_tm times (rid k) < fx_tm times r).
  { specialize (Hinc (r, rid k)). cbn [fst snd] in Hinc. apply Z.ltb_lt. apply Hinc.
    cbn [redges]. apply in_or_app. left. apply in_map_iff. eauto. }
  assert (Hk2 : fx_tm times v <= fx_tm times (rid k)).
  { apply IH; auto. apply forallb_forall. intros e He. apply Hinc.
    cbn [redges]. apply in_or_app. right. apply in_flat_map. eauto. }
  lia.
Qed.

(* ---------- as_newick on the exact fragment: nothing trusted about number rendering ---------- *)
Theorem as_newick_exact :
  forall (q : Z) (times : list Z) (a : ctree) (N rp : Z) (t : rtree),
    0 <= q ->
    repb a rp t = true -> nodupb (ids t) = true -> memb rp (ids t) = false ->
    (forall v, In v (ids t) -> 0 <= v < N) ->
    (forall v, In v (ids t) -> exists f, get (ct_flags a) v = Ok f) ->
    (forall v, In v (ids t) -> exists x, get times v = Ok x) ->
    times_increase times t = true ->
    forall (l : labspec) (ibl : bool) (prec : Z),
      0 <= prec -> labels_clean t l ->
      let W := zlen (print_dec q prec (fx_tm times (rid t) - list_min times)) in
      let s := py_newick Z Z.sub (print_dec q) (fx_tm times) (lab_fn a t l) ibl prec t in
      as_newick Z Z.sub (print_dec q) (fx_tm times) a N t l ibl prec W = Ok s /\
      parse_newick s = Ok (ast_of Z Z.sub (print_dec q) (fx_tm times) (lab_fn a t l) ibl prec None t).
Proof.
  intros q times a N rp t Hq Hrep Hnd Hrp Hrange Hflags Htimes Hinc l ibl prec Hp Hclean W s.
  assert (HW : 0 <= W) by apply zlen_nonneg.
  assert (Htok : forall p c, In (p, c) (redges t) ->
            zlen (btoken Z Z.sub (print_dec q) (fx_tm times) prec p c) <= W).
  { intros p c Hpc. unfold btoken, W. apply print_dec_mono; auto.
    destruct (redges_parent_in t p c Hpc) as [Hpi Hci].
    pose proof (root_is_oldest times t Hinc p Hpi).
    destruct (Htimes c Hci) as (x & Hx). pose proof (list_min_le _ _ _ Hx).
    assert (fx_tm times c = x) by (unfold fx_tm; rewrite Hx; reflexivity).
    assert (fx_tm times c < fx_tm times p).
    { unfold times_increase in Hinc. rewrite forallb_forall in Hinc.
      specialize (Hinc (p, c) Hpc). cbn [fst snd] in Hinc. apply Z.ltb_lt. exact Hinc. }
    lia. }
  pose proof (as_newick_succeeds Z Z.sub (print_dec q) (fx_tm times) a N rp t Hrep Hnd Hrp Hrange Hflags
                l ibl prec W HW Htok) as E.
  split; [exact E|].
  eapply as_newick_parses_back; eauto. intros; apply print_dec_clean.
Qed.

(* "%.0f" of exact halves rounds to even; "%.1f" of 0.125 and 0.375 likewise *)
Example ex_print_dec :
  print_dec 1 0 5 = s2z "0" /\ print_dec 1 0 15 = s2z "2" /\ print_dec 1 0 25 = s2z "2" /\
  print_dec 3 2 125 = s2z "0.12" /\ print_dec 3 2 375 = s2z "0.38" /\
  print_dec 3 17 125 = s2z "0.12500000000000000" /\ print_dec 0 3 7 = s2z "7.000" /\
  print_dec 3 0 999500 = s2z "1000".
Proof. vm_compute. repeat split; reflexivity. Qed.

(* inside the documented precision range the argument checks change nothing *)
Lemma as_newick_guarded_in_range :
  forall (Tm : Type) (tsub : Tm -> Tm -> Tm) (print_num : Z -> Tm -> str) (tm : Z -> Tm)
         a N t l ibl prec W, 0 <= prec <= 17 ->
    as_newick_guarded Tm tsub print_num tm a N t l ibl prec W
    = as_newick Tm tsub print_num tm a N t l ibl prec W.
Proof.
  intros. unfold as_newick_guarded.
  replace (prec <? 0) with false by (symmetry; apply Z.ltb_ge; lia).
  replace (prec >? 17) with false by (symmetry; rewrite Z.gtb_ltb; apply Z.ltb_ge; lia).
  destruct ibl, l; reflexivity.
Qed.
