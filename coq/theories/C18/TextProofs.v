(* C18 — wrap_text (FASTA line wrapping) and the structure of the nexus TREES block. *)
From Coq Require Import List ZArith Bool Lia.
From TskVerif Require Import Base.Common Gen.Generated C18.Model C18.WriterProofs.
Import ListNotations.
Open Scope Z_scope.

(* ---------- wrap_text ---------- *)
Lemma chunks_spec : forall n w s ls r,
  chunks n w s = (ls, r) -> (n * w <= length s)%nat ->
  concat ls ++ r = s /\ Forall (fun l => length l = w) ls /\ length r = (length s - n * w)%nat.
Proof.
  induction n as [|n IH]; intros w s ls r H Hle.
  - simpl in H. inversion H; subst. simpl. repeat split; auto. lia.
  - cbn [chunks] in H. destruct (chunks n w (skipn w s)) as [l' r'] eqn:E.
    inversion H; subst. clear H.
    assert (Hw : (w <= length s)%nat) by lia.
    specialize (IH w (skipn w s) l' r E).
    rewrite skipn_length in IH. specialize (IH ltac:(lia)).
    destruct IH as (H1 & H2 & H3). repeat split.
    + cbn [concat]. rewrite <- app_assoc, H1. apply firstn_skipn.
    + constructor; auto. apply firstn_length_le. exact Hw.
    + lia.
Qed.

Definition line_ok (w : Z) (l : str) : Prop := 1 <= zlen l <= w.

Theorem wrap_text_spec : forall s w ls,
  0 <= w -> wrap_text s w = Ok ls ->
  concat ls = s /\
  (w = 0 -> ls = [s]) /\
  (0 < w -> Forall (fun l => zlen l = w) (removelast ls) /\ Forall (line_ok w) ls).
Proof.
  intros s w ls Hw H. unfold wrap_text in H.
  set (width := if w =? 0 then zlen s else w) in *.
  destruct (width =? 0) eqn:E0; [discriminate|]. apply Z.eqb_neq in E0.
  assert (Hwp : 0 < width).
  { unfold width in *. destruct (w =? 0) eqn:Ew; [pose proof (zlen_nonneg s); lia|].
    apply Z.eqb_neq in Ew. lia. }
  destruct (chunks (Z.to_nat (zlen s / width)) (Z.to_nat width) s) as [cl r] eqn:E.
  inversion H; subst ls. clear H.
  pose proof (Z.div_mod (zlen s) width ltac:(lia)) as Hdm.
  pose proof (Z.mod_pos_bound (zlen s) width Hwp) as Hmod.
  assert (Hq : 0 <= zlen s / width) by (apply Z.div_pos; [apply zlen_nonneg | lia]).
  assert (Hle : (Z.to_nat (zlen s / width) * Z.to_nat width <= length s)%nat).
  { unfold zlen in *. nia. }
  destruct (chunks_spec _ _ _ _ _ E Hle) as (H1 & H2 & H3).
  assert (Hr : zlen r = zlen s mod width).
  { unfold zlen in *. rewrite H3. nia. }
  assert (Hc : concat (cl ++ match r with [] => [] | _ => [r] end) = s).
  { rewrite concat_app. destruct r; simpl; rewrite ?app_nil_r in *; auto. }
  split; [exact Hc|]. split.
  - intros ->. unfold width in *. simpl in *.
    assert (Hs : zlen s / zlen s = 1) by (apply Z.div_same; lia).
    rewrite Hs in E. unfold zlen in E. rewrite Nat2Z.id in E.
    change (Z.to_nat 1) with 1%nat in E. cbn [chunks] in E.
    rewrite firstn_all, skipn_all in E. inversion E; subst. reflexivity.
  - intros Hpos. assert (width = w).
    { unfold width. destruct (w =? 0) eqn:Ew; auto. apply Z.eqb_eq in Ew. lia. }
    subst width. rewrite H in *.
    assert (Hcl : Forall (fun l => zlen l = w) cl).
    { eapply Forall_impl; [|exact H2]. intros l Hl. simpl in Hl. unfold zlen. lia. }
    split.
    + destruct r as [|c r'].
      * rewrite app_nil_r. clear -Hcl. induction cl as [|x cl IH]; simpl; auto.
        inversion Hcl; subst. destruct cl; auto.
      * rewrite removelast_app by discriminate. simpl. rewrite app_nil_r. exact Hcl.
    + apply Forall_app. split.
      * eapply Forall_impl; [|exact Hcl]. intros l Hl. simpl in Hl. unfold line_ok. lia.
      * destruct r as [|c r']; constructor; auto. unfold line_ok.
        rewrite Hr. rewrite zlen_cons in Hr. pose proof (zlen_nonneg r'). lia.
Qed.

Theorem wrap_text_total : forall s w, 0 <= w -> (s <> [] \/ w <> 0) ->
  exists ls, wrap_text s w = Ok ls.
Proof.
  intros s w Hw H. unfold wrap_text.
  set (width := if w =? 0 then zlen s else w).
  assert (width <> 0).
  { unfold width. destruct (w =? 0) eqn:E.
    - apply Z.eqb_eq in E. destruct H as [H|H]; [|lia].
      destruct s; [congruence|]. rewrite zlen_cons. pose proof (zlen_nonneg s). lia.
    - apply Z.eqb_neq in E. lia. }
  replace (width =? 0) with false by (symmetry; apply Z.eqb_neq; auto).
  destruct (chunks _ _ s). eauto.
Qed.

Example ex_wrap : wrap_text (s2z "ACGTACGTAC") 4 = Ok [s2z "ACGT"; s2z "ACGT"; s2z "AC"]
  /\ wrap_text (s2z "ACGTACGT") 4 = Ok [s2z "ACGT"; s2z "ACGT"]
  /\ wrap_text (s2z "ACGTACGTAC") 0 = Ok [s2z "ACGTACGTAC"]
  /\ wrap_text [] 0 = Err 0.
Proof. vm_compute. repeat split; reflexivity. Qed.

(* ---------- nexus: one TREE statement per marginal tree, in order ---------- *)
Definition no_byte (c : Z) (s : str) : Prop := forallb (fun x => negb (x =? c)) s = true.

Lemma split_at_app : forall c a b, no_byte c a -> split_at c (a ++ c :: b) = Some (a, b).
Proof.
  induction a as [|x a IH]; intros b H; cbn [app split_at].
  - rewrite Z.eqb_refl. reflexivity.
  - unfold no_byte in H. cbn [forallb] in H. apply andb_true_iff in H as [H1 H2].
    apply negb_true_iff in H1. rewrite H1. rewrite IH; auto.
Qed.

Lemma strip_prefix_app : forall p s, strip_prefix p (p ++ s) = Some s.
Proof. induction p as [|a p IH]; intros; cbn [app strip_prefix]; auto. rewrite Z.eqb_refl. auto. Qed.

Lemma read_tree_line_ok : forall l r nwk, no_byte 94 l -> no_byte 32 r ->
  read_tree_line (nexus_tree_line ((l, r), nwk)) = Some ((l, r), nwk).
Proof.
  intros l r nwk Hl Hr. unfold read_tree_line, nexus_tree_line.
  rewrite strip_prefix_app.
  cbn [app]. rewrite split_at_app by exact Hl.
  change (s2z " = [&R] " ++ nwk) with (32 :: (s2z "= [&R] " ++ nwk)).
  rewrite split_at_app by exact Hr.
  rewrite strip_prefix_app. reflexivity.
Qed.

Lemma filter_map_app : forall {A B} (f : A -> option B) x y,
  filter_map f (x ++ y) = filter_map f x ++ filter_map f y.
Proof.
  induction x as [|a x IH]; intros; simpl; auto. destruct (f a); simpl; rewrite IH; auto.
Qed.

Lemma filter_map_none : forall {A B} (f : A -> option B) l,
  Forall (fun x => f x = None) l -> filter_map f l = [].
Proof. induction l; intros H; simpl; auto. inversion H; subst. rewrite H2. auto. Qed.

Lemma filter_map_all : forall {A B} (f : A -> option B) (g : B -> A) l,
  Forall (fun y => f (g y) = Some y) l -> filter_map f (map g l) = l.
Proof. induction l; intros H; simpl; auto. inversion H; subst. rewrite H2, IHl; auto. Qed.

Definition intervals_ok (trees : list ((str * str) * str)) : Prop :=
  Forall (fun t => no_byte 94 (fst (fst t)) /\ no_byte 32 (snd (fst t))) trees.

Theorem nexus_trees_block : forall samples data trees,
  intervals_ok trees ->
  read_nexus_trees (nexus_lines samples data (Some trees)) = trees /\
  read_nexus_trees (nexus_lines samples data None) = [].
Proof.
  intros samples data trees Hok. unfold read_nexus_trees, nexus_lines.
  assert (Hhead : forall tl,
    filter_map read_tree_line
      ([s2z "#NEXUS"; s2z "BEGIN TAXA;";
        s2z "  DIMENSIONS NTAX=" ++ dec (zlen samples) ++ [59];
        s2z "  TAXLABELS " ++ join sp (map (fun u => c18_label_prefix ++ dec u) samples) ++ [59];
        s2z "END;"] ++ tl) = filter_map read_tree_line tl).
  { intros. reflexivity. }
  assert (Hdata : filter_map read_tree_line
            (match data with
             | None => []
             | Some (nchar, mdc, als) =>
                 [s2z "BEGIN DATA;";
                  s2z "  DIMENSIONS NCHAR=" ++ dec nchar ++ [59];
                  s2z "  FORMAT DATATYPE=DNA MISSING=" ++ mdc ++ [59];
                  s2z "  MATRIX"]
                 ++ map (fun ua => s2z "    " ++ c18_label_prefix ++ dec (fst ua) ++ [sp] ++ snd ua)
                        (combine samples als)
                 ++ [s2z "  ;"; s2z "END;"]
             end) = []).
  { destruct data as [[[nchar mdc] als]|]; [|reflexivity].
    apply filter_map_none. apply Forall_app. split; [repeat constructor|].
    apply Forall_app. split; [|repeat constructor].
    apply Forall_forall. intros x Hx. apply in_map_iff in Hx as (ua & <- & _). reflexivity. }
  split.
  - rewrite Hhead, filter_map_app, Hdata. cbn [app].
    change (filter_map read_tree_line (s2z "BEGIN TREES;" :: map nexus_tree_line trees ++ [s2z "END;"]))
      with (filter_map read_tree_line (map nexus_tree_line trees ++ [s2z "END;"])).
    rewrite filter_map_app. cbn [filter_map]. change (read_tree_line (s2z "END;")) with (@None ((str * str) * str)).
    rewrite app_nil_r. apply filter_map_all.
    eapply Forall_impl; [|exact Hok]. intros [[l r] nwk] [H1 H2]. apply read_tree_line_ok; auto.
  - rewrite Hhead, filter_map_app, Hdata. reflexivity.
Qed.

Example ex_nexus :
  nexus_lines [0; 1; 2] None (Some [((s2z "0", s2z "2"), s2z "(n0:3,(n1:2,n2:2):1);");
                                    ((s2z "2", s2z "10"), s2z "(n1:2,(n0:1,n2:1):1);")])
  = [s2z "#NEXUS"; s2z "BEGIN TAXA;"; s2z "  DIMENSIONS NTAX=3;"; s2z "  TAXLABELS n0 n1 n2;"; s2z "END;";
     s2z "BEGIN TREES;"; s2z "  TREE t0^2 = [&R] (n0:3,(n1:2,n2:2):1);";
     s2z "  TREE t2^10 = [&R] (n1:2,(n0:1,n2:1):1);"; s2z "END;"].
Proof. vm_compute. reflexivity. Qed.
