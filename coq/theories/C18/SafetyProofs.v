(* C18 — for EVERY buffer size the C writer returns either exactly the Python string or
   TSK_ERR_BUFFER_OVERFLOW (never a truncated / different string, never an out-of-bounds read in
   the model), and it succeeds exactly when the string, ';' and the NUL fit. *)
From Coq Require Import List ZArith Bool Lia.
From TskVerif Require Import Base.Common Gen.Generated C18.Model C18.ParserProofs C18.WriterProofs.
Import ListNotations.
Open Scope Z_scope.

Section Safety.
  Variable Tm : Type.
  Variable tsub : Tm -> Tm -> Tm.
  Variable print_num : Z -> Tm -> str.
  Variable tm : Z -> Tm.
  Variable a : ctree.
  Variable ms : bool.
  Variable prec rp : Z.

  Notation step := (fun B => cstep Tm tsub print_num tm a ms prec B rp).
  Notation run := (fun B f st => crun Tm tsub print_num tm f a ms prec B rp st).

  Lemma ovf_not_ok : forall {A} (x : A), @ovf A <> Ok x.
  Proof. intros. unfold ovf. discriminate. Qed.

  (* a smaller buffer changes nothing except that a step may report overflow *)
  Lemma cstep_shrink : forall B B' st st', B <= B' ->
    step B' st = Ok st' -> step B st = Ok st' \/ step B st = ovf.
  Proof.
    intros B B' [[stack u] out] st' Hle H. unfold cstep in *.
    destruct stack as [|v rest]; [left; exact H|].
    destruct (get (ct_lc a) v) as [lcv| | |]; cbn [bind] in *; try discriminate.
    destruct (negb (lcv =? -1) && negb (v =? u)).
    - destruct (zlen out >=? B') eqn:E'; [unfold ovf in *; cbn [bind] in *; discriminate|].
      destruct (zlen out >=? B) eqn:E; [right; reflexivity | left; exact H].
    - destruct (get (ct_par a) v) as [pv| | |]; cbn [bind] in *; try discriminate.
      destruct (c_label a ms v lcv) as [lab| | |]; cbn [bind] in *; try discriminate.
      assert (Htail : forall out1 : str,
        (do out2 <- (if pv =? rp then Ok out1 else
                     if zlen (out1 ++ 58 :: btoken Tm tsub print_num tm prec pv v) >=? B' then ovf else
                     do rcu <- get (ct_rc a) pv;
                     Ok ((out1 ++ 58 :: btoken Tm tsub print_num tm prec pv v) ++ [if v =? rcu then 41 else 44]));
         Ok (rest, pv, out2)) = Ok st' ->
        (do out2 <- (if pv =? rp then Ok out1 else
                     if zlen (out1 ++ 58 :: btoken Tm tsub print_num tm prec pv v) >=? B then ovf else
                     do rcu <- get (ct_rc a) pv;
                     Ok ((out1 ++ 58 :: btoken Tm tsub print_num tm prec pv v) ++ [if v =? rcu then 41 else 44]));
         Ok (rest, pv, out2)) = Ok st' \/
        (do out2 <- (if pv =? rp then Ok out1 else
                     if zlen (out1 ++ 58 :: btoken Tm tsub print_num tm prec pv v) >=? B then ovf else
                     do rcu <- get (ct_rc a) pv;
                     Ok ((out1 ++ 58 :: btoken Tm tsub print_num tm prec pv v) ++ [if v =? rcu then 41 else 44]));
         Ok (rest, pv, out2)) = @ovf cstate).
      { intros out1 H1. destruct (pv =? rp); [left; exact H1|].
        destruct (zlen (out1 ++ 58 :: btoken Tm tsub print_num tm prec pv v) >=? B') eqn:E';
          [unfold ovf in H1; cbn [bind] in H1; discriminate|].
        destruct (zlen (out1 ++ 58 :: btoken Tm tsub print_num tm prec pv v) >=? B) eqn:E;
          [right; reflexivity | left; exact H1]. }
      destruct lab as [l|].
      + destruct (zlen out >=? B') eqn:E1'; [unfold ovf in H; cbn [bind] in H; discriminate|].
        destruct (zlen out >=? B) eqn:E1; [right; reflexivity|].
        destruct (zlen (out ++ l) >=? B') eqn:E2'; [unfold ovf in H; cbn [bind] in H; discriminate|].
        destruct (zlen (out ++ l) >=? B) eqn:E2; [right; reflexivity|].
        cbn [bind] in *. apply Htail. exact H.
      + cbn [bind] in *. apply Htail. exact H.
  Qed.

  Lemma crun_shrink : forall B B' fuel st out, B <= B' ->
    run B' fuel st = Ok out -> run B fuel st = Ok out \/ run B fuel st = ovf.
  Proof.
    intros B B' fuel. induction fuel as [|f IH]; intros st out Hle H; [discriminate|].
    cbn [crun] in *. destruct st as [[stack u] o]. destruct stack as [|v rest]; [left; exact H|].
    destruct (cstep Tm tsub print_num tm a ms prec B' rp (v :: rest, u, o)) as [st'| | |] eqn:E;
      cbn [bind] in H; try discriminate.
    destruct (cstep_shrink B B' _ _ Hle E) as [E1|E1]; rewrite E1; cbn [bind].
    - apply IH; auto.
    - right. reflexivity.
  Qed.

  Variable lab : Z -> str.

  Theorem c_newick_any_buffer : forall N t B,
    repb a rp t = true -> NoDup (ids t) -> ~ In rp (ids t) ->
    0 <= rid t < N ->
    (forall v, In v (ids t) -> lab_agrees a ms lab v) ->
    c_newick Tm tsub print_num tm a N (rid t) ms prec B
    = if zlen (py_build Tm tsub print_num tm lab true prec t) + 2 <=? B
      then Ok (py_newick Tm tsub print_num tm lab true prec t)
      else Err c18_err_buffer_overflow.
  Proof.
    intros N t B Hrep Hnd Hrp Hr Hlab.
    set (need := zlen (py_build Tm tsub print_num tm lab true prec t) + 2).
    destruct (need <=? B) eqn:E.
    - apply Z.leb_le in E. eapply c_newick_sufficient; eauto.
    - apply Z.leb_gt in E.
      pose proof (c_newick_sufficient Tm tsub print_num tm a ms prec need rp lab N t
                    Hrep Hnd Hrp Hr Hlab ltac:(unfold need; lia)) as Hbig.
      unfold c_newick in *.
      destruct ((rid t <? 0) || (rid t >=? N)); [discriminate|].
      rewrite (repb_par _ _ _ Hrep) in *. cbn [bind] in *.
      destruct (crun Tm tsub print_num tm (2 * length (ct_par a) + 2) a ms prec need rp ([rid t], rp, []))
        as [out| | |] eqn:Er; cbn [bind] in Hbig; try discriminate.
      assert (Hout : out = py_build Tm tsub print_num tm lab true prec t).
      { destruct (zlen out + 1 >=? need); [unfold ovf in *; cbn [bind] in *; discriminate|].
        inversion Hbig as [Heq]. unfold py_newick in Heq. apply app_inj_tail in Heq. tauto. }
      destruct (crun_shrink B need _ _ _ ltac:(lia) Er) as [E1|E1]; rewrite E1; cbn [bind].
      + subst out.
        replace (zlen (py_build Tm tsub print_num tm lab true prec t) + 1 >=? B) with true; [reflexivity|].
        symmetry. rewrite Z.geb_leb. apply Z.leb_le. unfold need in E. lia.
      + reflexivity.
  Qed.
End Safety.
