(* C18 — the Newick text determines the tree: two well-formed Newick ASTs (topology, labels,
   branch-length tokens) that print to the same string are equal.  Corollary of
   parse_print_nw: "encodes faithfully" stated as injectivity of the printer. *)
From Coq Require Import List ZArith Bool.
From TskVerif Require Import Base.Common C18.Model C18.ParserProofs.
Import ListNotations.
Open Scope Z_scope.

Lemma print_newick_injective_proof (t1 t2 : nw) :
  wf_nw t1 -> wf_nw t2 -> print_newick t1 = print_newick t2 -> t1 = t2.
Proof.
  intros W1 W2 E. pose proof (parse_print_nw t1 W1) as R1. pose proof (parse_print_nw t2 W2) as R2.
  rewrite E in R1. rewrite R1 in R2. congruence.
Qed.
