(* C18 — reading the FASTA text back gives each sample's label and its alignment. *)
From Coq Require Import List ZArith Bool Lia.
From TskVerif Require Import Base.Common Gen.Generated C18.Model C18.WriterProofs C18.TextProofs.
Import ListNotations.
Open Scope Z_scope.

Lemma no_byte_app : forall c x y, no_byte c (x ++ y) <-> no_byte c x /\ no_byte c y.
Proof. intros. unfold no_byte. rewrite forallb_app, andb_true_iff. tauto. Qed.

Lemma no_byte_in : forall c s, no_byte c s <-> (forall x, In x s -> x <> c).
Proof.
  intros. unfold no_byte. rewrite forallb_forall. split; intros H x Hx.
  - specialize (H x Hx). apply negb_true_iff, Z.eqb_neq in H. exact H.
  - apply negb_true_iff, Z.eqb_neq. auto.
Qed.

Lemma dec_aux_digits : forall fuel n acc,
  (forall x, In x acc -> 48 <= x <= 57) -> forall x, In x (dec_aux fuel n acc) -> 48 <= x <= 57.
Proof.
  induction fuel as [|f IH]; intros n acc Hacc x Hx; cbn [dec_aux] in Hx; auto.
  assert (Hd : forall y, In y ((48 + n mod 10) :: acc) -> 48 <= y <= 57).
  { intros y [<-|Hy]; auto. pose proof (Z.mod_pos_bound n 10 ltac:(lia)). lia. }
  destruct (n <? 10); eauto.
Qed.

Lemma dec_digits : forall n x, In x (dec n) -> 48 <= x <= 57.
Proof. intros n x. unfold dec. apply dec_aux_digits. intros y []. Qed.

Lemma split_lines_aux_line : forall l rest cur, no_byte 10 l ->
  split_lines_aux (l ++ 10 :: rest) cur = (rev cur ++ l) :: split_lines_aux rest [].
Proof.
  induction l as [|c l IH]; intros rest cur H; cbn [app split_lines_aux].
  - rewrite Z.eqb_refl, app_nil_r. reflexivity.
  - unfold no_byte in H. cbn [forallb] in H. apply andb_true_iff in H as [H1 H2].
    apply negb_true_iff in H1. rewrite H1. rewrite IH by exact H2.
    cbn [rev]. rewrite <- app_assoc. reflexivity.
Qed.

Lemma split_lines_lines : forall ll rest, Forall (no_byte 10) ll ->
  split_lines (concat (map (fun l => l ++ [10]) ll) ++ rest) = ll ++ split_lines rest.
Proof.
  induction ll as [|l ll IH]; intros rest H; [reflexivity|].
  inversion H; subst. cbn [map concat]. rewrite <- !app_assoc. cbn [app].
  unfold split_lines at 1. rewrite split_lines_aux_line by assumption.
  cbn [rev app]. f_equal. apply IH; auto.
Qed.

(* the lines write_fasta prints *)
Fixpoint fasta_lines (w : Z) (recs : list (Z * str)) : res (list str) :=
  match recs with
  | [] => Ok []
  | (u, al) :: r =>
      do ls <- wrap_text al w;
      do rest <- fasta_lines w r;
      Ok ((62 :: c18_label_prefix ++ dec u) :: ls ++ rest)
  end.

Lemma fasta_text_lines : forall w recs text, fasta_text w recs = Ok text ->
  exists ll, fasta_lines w recs = Ok ll /\ text = concat (map (fun l => l ++ [10]) ll).
Proof.
  induction recs as [|[u al] r IH]; intros text H; cbn [fasta_text fasta_lines] in *.
  - inversion H. exists []. auto.
  - destruct (wrap_text al w) as [ls| | |]; try discriminate. cbn [bind] in *.
    destruct (fasta_text w r) as [rest| | |]; try discriminate. cbn [bind] in *.
    destruct (IH rest eq_refl) as (ll & Hll & ->). rewrite Hll. cbn [bind].
    eexists. split; [reflexivity|]. inversion H; subst.
    cbn [map concat]. rewrite map_app, concat_app. unfold nl.
    rewrite <- !app_assoc. reflexivity.
Qed.

Definition starts_gt (l : str) : Prop := match l with 62 :: _ => True | _ => False end.

Lemma records_seq_line : forall l more h sq, ~ starts_gt l ->
  fasta_records (l :: more) (Some (h, sq)) = fasta_records more (Some (h, sq ++ l)).
Proof.
  intros l more h sq H. destruct l as [|c l']; [reflexivity|].
  destruct c as [|p|p]; try reflexivity.
  do 6 (try (destruct p as [p|p|]; try reflexivity)). exfalso. apply H. exact I.
Qed.

Lemma records_seq_lines : forall ls more h sq, Forall (fun l => ~ starts_gt l) ls ->
  fasta_records (ls ++ more) (Some (h, sq)) = fasta_records more (Some (h, sq ++ concat ls)).
Proof.
  induction ls as [|l ls IH]; intros more h sq H; cbn [app concat].
  - rewrite app_nil_r. reflexivity.
  - inversion H; subst. rewrite records_seq_line by assumption. rewrite IH by assumption.
    rewrite app_assoc. reflexivity.
Qed.

Definition opt_list {A} (o : option A) : list A := match o with Some x => [x] | None => [] end.

Lemma records_header : forall h more cur,
  fasta_records ((62 :: h) :: more) cur = opt_list cur ++ fasta_records more (Some (h, [])).
Proof. intros. destruct cur; reflexivity. Qed.

Definition rec_ok (r : Z * str) : Prop := no_byte 10 (snd r) /\ no_byte 62 (snd r).

Lemma wrap_lines_sub : forall al w ls, 0 <= w -> wrap_text al w = Ok ls ->
  forall l x, In l ls -> In x l -> In x al.
Proof.
  intros al w ls Hw H l x Hl Hx. destruct (wrap_text_spec al w ls Hw H) as (Hc & _).
  rewrite <- Hc. apply in_concat. eauto.
Qed.

Lemma fasta_records_lines : forall w recs ll cur, 0 <= w ->
  fasta_lines w recs = Ok ll -> Forall rec_ok recs ->
  fasta_records ll cur
  = opt_list cur ++ map (fun r => (c18_label_prefix ++ dec (fst r), snd r)) recs.
Proof.
  induction recs as [|[u al] r IH]; intros ll cur Hw H Hok; cbn [fasta_lines] in H.
  - inversion H. destruct cur; reflexivity.
  - destruct (wrap_text al w) as [ls| | |] eqn:Ew; try discriminate. cbn [bind] in H.
    destruct (fasta_lines w r) as [rest| | |] eqn:Er; try discriminate. cbn [bind] in H.
    inversion H; subst ll. inversion Hok as [|? ? [H10 H62] Hrest]; subst. cbn [snd] in *.
    rewrite records_header.
    rewrite records_seq_lines.
    + rewrite (IH rest _ Hw eq_refl Hrest). cbn [opt_list map fst snd app].
      destruct (wrap_text_spec al w ls Hw Ew) as (Hc & _). rewrite Hc. reflexivity.
    + apply Forall_forall. intros l Hl Hs. destruct l as [|c l']; [exact Hs|].
      assert (c = 62).
      { unfold starts_gt in Hs. destruct c as [|p|p]; try contradiction.
        do 6 (try (destruct p as [p|p|]; try contradiction)). reflexivity. }
      subst c. pose proof (proj1 (no_byte_in 62 al) H62) as H62'. apply (H62' 62); auto.
      eapply wrap_lines_sub; eauto. simpl; auto.
Qed.

Lemma fasta_lines_no_nl : forall w recs ll, 0 <= w -> fasta_lines w recs = Ok ll ->
  Forall rec_ok recs -> Forall (no_byte 10) ll.
Proof.
  induction recs as [|[u al] r IH]; intros ll Hw H Hok; cbn [fasta_lines] in H.
  - inversion H. constructor.
  - destruct (wrap_text al w) as [ls| | |] eqn:Ew; try discriminate. cbn [bind] in H.
    destruct (fasta_lines w r) as [rest| | |] eqn:Er; try discriminate. cbn [bind] in H.
    inversion H; subst ll. inversion Hok as [|? ? [H10 H62] Hrest]; subst. cbn [snd] in *.
    constructor.
    + apply no_byte_in. intros x [<-|Hx]; [discriminate|].
      change (c18_label_prefix ++ dec u) with (110 :: dec u) in Hx.
      destruct Hx as [<-|Hx]; [discriminate|].
      pose proof (dec_digits u x Hx). lia.
    + apply Forall_app. split; [|eapply IH; eauto].
      apply Forall_forall. intros l Hl. apply no_byte_in. intros x Hx.
      pose proof (proj1 (no_byte_in 10 al) H10) as H10'. apply H10'. eapply wrap_lines_sub; eauto.
Qed.

Theorem fasta_roundtrip : forall w recs text,
  0 <= w -> fasta_text w recs = Ok text -> Forall rec_ok recs ->
  read_fasta text = map (fun r => (c18_label_prefix ++ dec (fst r), snd r)) recs.
Proof.
  intros w recs text Hw H Hok.
  destruct (fasta_text_lines w recs text H) as (ll & Hll & ->).
  unfold read_fasta.
  rewrite <- (app_nil_r (concat (map (fun l => l ++ [10]) ll))).
  rewrite split_lines_lines by (eapply fasta_lines_no_nl; eauto).
  change (split_lines []) with (@nil str). rewrite app_nil_r.
  rewrite (fasta_records_lines w recs ll None Hw Hll Hok). reflexivity.
Qed.

Example ex_fasta :
  fasta_text 4 [(0, s2z "ACGTAC"); (3, s2z "NNNNNN")]
  = Ok (s2z ">n0" ++ [10] ++ s2z "ACGT" ++ [10] ++ s2z "AC" ++ [10] ++ s2z ">n3" ++ [10] ++ s2z "NNNN" ++ [10] ++ s2z "NN" ++ [10])
  /\ read_fasta (s2z ">n0" ++ [10] ++ s2z "ACGT" ++ [10] ++ s2z "AC" ++ [10] ++ s2z ">n3" ++ [10] ++ s2z "NNNN" ++ [10] ++ s2z "NN" ++ [10])
     = [(s2z "n0", s2z "ACGTAC"); (s2z "n3", s2z "NNNNNN")].
Proof. vm_compute. split; reflexivity. Qed.
