(* C18 — the Newick reader inverts the Newick printer (central round trip). *)
From Coq Require Import List ZArith Bool Lia.
From TskVerif Require Import Base.Common C18.Model.
Import ListNotations.
Open Scope Z_scope.

(* ---------- induction principle for the nested type ---------- *)
Section NwInd.
  Variable P : nw -> Prop.
  Hypothesis H : forall kids name len, Forall P kids -> P (NW kids name len).
  Fixpoint nw_ind' (t : nw) : P t :=
    match t with
    | NW kids name len =>
        H kids name len
          ((fix go (l : list nw) : Forall P l :=
              match l with
              | [] => Forall_nil P
              | k :: r => Forall_cons k (nw_ind' k) (go r)
              end) kids)
    end.
End NwInd.

(* well-formed: names and lengths contain none of ( ) , : ; *)
Fixpoint wf_nw (t : nw) : Prop :=
  match t with
  | NW kids name len =>
      cleanb name = true /\
      match len with Some l => cleanb l = true | None => True end /\
      (fix all (l : list nw) : Prop := match l with [] => True | k :: r => wf_nw k /\ all r end) kids
  end.

Lemma wf_nw_kids : forall kids name len, wf_nw (NW kids name len) -> Forall wf_nw kids.
Proof.
  intros kids name len (_ & _ & H). induction kids as [|k r IH]; constructor; destruct H; auto.
Qed.

Fixpoint weight (t : nw) : nat :=
  match t with NW kids _ _ => S (list_sum (map (fun k => S (weight k)) kids)) end.

(* the set of bytes that may follow a complete Branch *)
Definition follow (s : str) : bool :=
  match s with [] => true | c :: _ => (c =? 41) || (c =? 44) || (c =? 59) end.

Definition starts_delim (s : str) : bool :=
  match s with [] => true | c :: _ => is_delim c end.

Lemma follow_starts_delim : forall s, follow s = true -> starts_delim s = true.
Proof.
  intros [|c r]; simpl; auto. unfold is_delim. intro H.
  repeat (apply orb_true_iff in H; destruct H as [H|H]); rewrite H; repeat rewrite orb_true_r; auto.
Qed.

Lemma follow_not_colon : forall c r, follow (c :: r) = true -> (c =? 58) = false.
Proof.
  intros c r H. simpl in H.
  repeat (apply orb_true_iff in H; destruct H as [H|H]); apply Z.eqb_eq in H; subst; reflexivity.
Qed.

Lemma follow_not_lpar : forall c r, follow (c :: r) = true -> c <> 40.
Proof.
  intros c r H. simpl in H.
  repeat (apply orb_true_iff in H; destruct H as [H|H]); apply Z.eqb_eq in H; subst; discriminate.
Qed.

Lemma take_run_app : forall a rest, cleanb a = true -> starts_delim rest = true ->
  take_run (a ++ rest) = (a, rest).
Proof.
  induction a as [|c a IH]; intros rest Hc Hr; simpl.
  - destruct rest as [|d r]; simpl in *; auto. rewrite Hr. reflexivity.
  - simpl in Hc. apply andb_true_iff in Hc as [Hc1 Hc2].
    apply negb_true_iff in Hc1. rewrite Hc1. rewrite (IH rest Hc2 Hr). reflexivity.
Qed.

Lemma parse_len_some : forall l rest, cleanb l = true -> starts_delim rest = true ->
  parse_len (58 :: l ++ rest) = (Some l, rest).
Proof.
  intros. unfold parse_len. rewrite Z.eqb_refl. rewrite take_run_app; auto.
Qed.

Lemma parse_len_none : forall rest, follow rest = true -> parse_len rest = (None, rest).
Proof.
  intros [|c r] H; simpl; auto. rewrite (follow_not_colon c r H). reflexivity.
Qed.

(* name and length of a node, followed by [rest] *)
Lemma name_len_step : forall name len rest,
  cleanb name = true -> match len with Some l => cleanb l = true | None => True end ->
  follow rest = true ->
  take_run (name ++ len_part len ++ rest) = (name, len_part len ++ rest) /\
  parse_len (len_part len ++ rest) = (len, rest).
Proof.
  intros name len rest Hn Hl Hf. split.
  - apply take_run_app; auto. destruct len; simpl; auto. apply follow_starts_delim; auto.
  - destruct len as [l|]; simpl len_part.
    + apply parse_len_some; auto. apply follow_starts_delim; auto.
    + apply parse_len_none; auto.
Qed.

Definition not_lpar (s : str) : Prop := match s with 40 :: _ => False | _ => True end.

Lemma head_not_lpar : forall name len rest,
  cleanb name = true -> follow rest = true ->
  not_lpar (name ++ len_part len ++ rest).
Proof.
  intros name len rest Hn Hf. unfold not_lpar.
  destruct name as [|c n]; simpl.
  - destruct len; simpl; auto.
    destruct rest as [|c r]; auto. pose proof (follow_not_lpar c r Hf) as Hc.
    destruct c as [|p|p]; auto.
    do 6 (try (destruct p as [p|p|]; auto)); try congruence.
  - simpl in Hn. apply andb_true_iff in Hn as [Hc _]. apply negb_true_iff in Hc.
    destruct c as [|p|p]; auto.
    do 6 (try (destruct p as [p|p|]; auto)); try discriminate.
Qed.

Lemma parse_sub_leaf : forall f s, not_lpar s ->
  parse_sub (S f) s =
  (let (nm, s1) := take_run s in let (ln, s2) := parse_len s1 in Ok (NW [] nm ln, s2)).
Proof.
  intros f s H. destruct s as [|c r]; [reflexivity|].
  destruct c as [|p|p]; try reflexivity.
  do 6 (try (destruct p as [p|p|]; try reflexivity)). destruct H.
Qed.

Lemma join_cons2 : forall sep x y r, join sep (x :: y :: r) = x ++ sep :: join sep (y :: r).
Proof. reflexivity. Qed.

Lemma print_nw_unfold : forall kids name len,
  print_nw (NW kids name len) =
  (match kids with [] => [] | _ => 40 :: join 44 (map print_nw kids) ++ [41] end)
  ++ name ++ len_part len.
Proof. intros. destruct kids; reflexivity. Qed.

Definition sub_ok (t : nw) : Prop :=
  forall fuel rest, follow rest = true -> (weight t <= fuel)%nat ->
    parse_sub fuel (print_nw t ++ rest) = Ok (t, rest).

Lemma parse_kids_ok : forall kids, kids <> [] -> Forall sub_ok kids ->
  forall fuel rest, (list_sum (map (fun k => S (weight k)) kids) <= fuel)%nat ->
    parse_kids fuel (join 44 (map print_nw kids) ++ 41 :: rest) = Ok (kids, rest).
Proof.
  induction kids as [|k ks IH]; intros Hne HF fuel rest Hfuel; [congruence|].
  inversion HF as [|? ? Hk Hks]; subst.
  simpl in Hfuel. destruct fuel as [|f]; [lia|].
  destruct ks as [|k2 ks'].
  - simpl join. cbn [parse_kids].
    rewrite (Hk f (41 :: rest)); [reflexivity | reflexivity | simpl in Hfuel; lia].
  - cbn [map]. rewrite join_cons2. rewrite <- app_assoc. cbn [app].
    cbn [parse_kids].
    rewrite (Hk f); [| reflexivity | simpl in Hfuel; lia].
    change (print_nw k2 :: map print_nw ks') with (map print_nw (k2 :: ks')).
    rewrite IH; [reflexivity | discriminate | assumption | simpl in *; lia].
Qed.

Lemma parse_sub_ok : forall t, wf_nw t -> sub_ok t.
Proof.
  induction t as [kids name len IH] using nw_ind'. intros Hwf.
  pose proof (wf_nw_kids _ _ _ Hwf) as Hwk.
  destruct Hwf as (Hn & Hl & _).
  assert (HS : Forall sub_ok kids).
  { clear -IH Hwk. induction kids; constructor; inversion IH; inversion Hwk; subst; auto. }
  intros fuel rest Hf Hfuel. cbn [weight] in Hfuel.
  destruct fuel as [|f]; [lia|].
  rewrite print_nw_unfold.
  destruct (name_len_step name len rest Hn Hl Hf) as [E1 E2].
  destruct kids as [|k ks].
  - cbn [app]. rewrite <- app_assoc. rewrite parse_sub_leaf by (apply head_not_lpar; auto).
    rewrite E1, E2. reflexivity.
  - rewrite <- !app_assoc. cbn [app]. cbn [parse_sub].
    rewrite <- app_assoc. cbn [app].
    rewrite parse_kids_ok; [| discriminate | assumption | lia].
    rewrite E1, E2. reflexivity.
Qed.

Lemma weight_le_print : forall t, (weight t <= 2 * length (print_nw t) + 1)%nat.
Proof.
  induction t as [kids name len IH] using nw_ind'.
  rewrite print_nw_unfold. cbn [weight]. rewrite !app_length.
  destruct kids as [|k ks]; [simpl; lia|].
  assert (H : (list_sum (map (fun k => S (weight k)) (k :: ks))
               <= 2 * length (join 44%Z (map print_nw (k :: ks)) ++ [41%Z]))%nat).
  { clear name len. revert IH. generalize (k :: ks) as l. clear k ks.
    induction l as [|x l IHl]; intros HF; [simpl; lia|].
    inversion HF as [|? ? Hx Hl]; subst. specialize (IHl Hl).
    destruct l as [|y l'].
    - simpl. rewrite app_length. simpl. lia.
    - assert (E : join 44 (map print_nw (x :: y :: l')) ++ [41]
                  = print_nw x ++ 44 :: (join 44 (map print_nw (y :: l')) ++ [41])).
      { cbn [map]. rewrite join_cons2. rewrite <- app_assoc. reflexivity. }
      rewrite E. rewrite app_length. cbn [length].
      change (list_sum (map (fun k => S (weight k)) (x :: y :: l')))
        with (S (weight x) + list_sum (map (fun k => S (weight k)) (y :: l')))%nat.
      lia. }
  cbn [length]. lia.
Qed.

Theorem parse_print_nw : forall t, wf_nw t -> parse_newick (print_newick t) = Ok t.
Proof.
  intros t Hwf. unfold parse_newick, print_newick.
  rewrite (parse_sub_ok t Hwf); [reflexivity | reflexivity |].
  rewrite app_length. simpl length. pose proof (weight_le_print t). lia.
Qed.

(* ---------- the Python writer prints the expected tree ---------- *)
Section RtInd.
  Variable P : rtree -> Prop.
  Hypothesis H : forall v kids, Forall P kids -> P (RN v kids).
  Fixpoint rtree_ind' (t : rtree) : P t :=
    match t with
    | RN v kids =>
        H v kids
          ((fix go (l : list rtree) : Forall P l :=
              match l with
              | [] => Forall_nil P
              | k :: r => Forall_cons k (rtree_ind' k) (go r)
              end) kids)
    end.
End RtInd.

Lemma removelast_app_single : forall {A} (l : list A) x, removelast (l ++ [x]) = l.
Proof. intros. rewrite removelast_app by discriminate. simpl. apply app_nil_r. Qed.

Lemma concat_sep_join : forall (l : list str), l <> [] ->
  removelast (concat (map (fun x => x ++ [44]) l)) = join 44 l.
Proof.
  induction l as [|x l IH]; [congruence|]. intros _.
  destruct l as [|y l'].
  - simpl. rewrite app_nil_r. apply removelast_app_single.
  - cbn [map concat]. rewrite join_cons2.
    rewrite removelast_app.
    + rewrite <- app_assoc. cbn [app]. f_equal. f_equal. apply IH. discriminate.
    + simpl. destruct (y ++ [44]) eqn:E; [destruct y; discriminate | discriminate].
Qed.

Section PyAst.
  Variable Tm : Type.
  Variable tsub : Tm -> Tm -> Tm.
  Variable print_num : Z -> Tm -> str.
  Variable tm : Z -> Tm.
  Variable lab : Z -> str.
  Variable ibl : bool.
  Variable prec : Z.

  Notation pyb := (py_build Tm tsub print_num tm lab ibl prec).
  Notation ast := (ast_of Tm tsub print_num tm lab ibl prec).
  Notation tok := (btoken Tm tsub print_num tm prec).

  Definition blen (up : option Z) (v : Z) : option str :=
    match up with Some p => if ibl then Some (tok p v) else None | None => None end.

  Lemma ast_unfold : forall up v kids,
    ast up (RN v kids) = NW (map (ast (Some v)) kids) (lab v) (blen up v).
  Proof. reflexivity. Qed.

  Lemma py_build_ast : forall t up,
    print_nw (ast up t) = pyb t ++ len_part (blen up (rid t)).
  Proof.
    induction t as [v kids IH] using rtree_ind'. intros up.
    rewrite ast_unfold, print_nw_unfold. cbn [rid].
    destruct kids as [|k ks].
    - reflexivity.
    - cbn [py_build].
      set (f := fun k0 : rtree => pyb k0 ++ (if ibl then 58 :: tok v (rid k0) else []) ++ [44]).
      assert (E : map f (k :: ks) =
                  map (fun x => x ++ [44]) (map print_nw (map (ast (Some v)) (k :: ks)))).
      { rewrite !map_map. apply map_ext_in. intros x Hx. unfold f.
        rewrite Forall_forall in IH. rewrite (IH x Hx (Some v)).
        unfold blen. destruct ibl; simpl; rewrite <- ?app_assoc; reflexivity. }
      change (removelast (40 :: concat (map f (k :: ks))))
        with (removelast ([40] ++ concat (map f (k :: ks)))).
      rewrite removelast_app.
      2:{ cbn [map concat]. unfold f. intro Hc.
          apply app_eq_nil in Hc as [Hc _]. apply app_eq_nil in Hc as [_ Hc].
          apply app_eq_nil in Hc as [_ Hc]. discriminate. }
      rewrite E. rewrite concat_sep_join by discriminate.
      cbn [map app]. rewrite <- !app_assoc. cbn [app]. reflexivity.
  Qed.

  Lemma py_newick_print : forall t,
    py_newick Tm tsub print_num tm lab ibl prec t = print_newick (ast None t).
  Proof.
    intros. unfold py_newick, print_newick. rewrite py_build_ast. simpl. rewrite app_nil_r. reflexivity.
  Qed.

  Hypothesis print_num_clean : forall p x, cleanb (print_num p x) = true.

  Lemma ast_wf : forall t up, (forall v, In v (ids t) -> cleanb (lab v) = true) -> wf_nw (ast up t).
  Proof.
    induction t as [v kids IH] using rtree_ind'. intros up Hl.
    rewrite ast_unfold. cbn [wf_nw]. split; [apply Hl; simpl; auto|]. split.
    - unfold blen. destruct up; auto. destruct ibl; auto. apply print_num_clean.
    - assert (Hk : forall k, In k kids -> forall w, In w (ids k) -> cleanb (lab w) = true).
      { intros k Hk w Hw. apply Hl. simpl. right. apply in_flat_map. eauto. }
      clear Hl. induction kids as [|k ks IHk]; cbn [map]; auto.
      inversion IH; subst. split.
      + apply H1. apply Hk. simpl; auto.
      + apply IHk; auto. intros; eapply Hk; simpl; eauto.
  Qed.

  Theorem newick_roundtrip : forall t,
    (forall v, In v (ids t) -> cleanb (lab v) = true) ->
    parse_newick (py_newick Tm tsub print_num tm lab ibl prec t) = Ok (ast None t).
  Proof.
    intros. rewrite py_newick_print. apply parse_print_nw. apply ast_wf; auto.
  Qed.
End PyAst.

(* ---------- non-vacuity ---------- *)
Example ex_nw : nw :=
  NW [NW [] (s2z "n0") (Some (s2z "2.50"));
      NW [NW [] (s2z "n1") (Some (s2z "1")); NW [] [] (Some (s2z "1")); NW [] (s2z "x y") None] [] (Some (s2z "1.5"))]
     (s2z "root") None.
Example ex_nw_wf : wf_nw ex_nw.
Proof. simpl. repeat split. Qed.
Example ex_nw_print : print_newick ex_nw = s2z "(n0:2.50,(n1:1,:1,x y):1.5)root;".
Proof. reflexivity. Qed.
Example ex_nw_parse : parse_newick (s2z "(n0:2.50,(n1:1,:1,x y):1.5)root;") = Ok ex_nw.
Proof. reflexivity. Qed.
(* the hypothesis is needed: a label containing a delimiter does not survive *)
Example ex_unclean : parse_newick (print_newick (NW [] (s2z "a,b") None)) <> Ok (NW [] (s2z "a,b") None).
Proof. vm_compute. discriminate. Qed.
