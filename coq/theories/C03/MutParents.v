(* C03 — model of the per-site part of tsk_table_collection_compute_mutation_parents
   (c/tskit/tables.c 12553-12595) on the abstract forest at the site.
   Pass 1 (12559-12566): a mutation on a node that already carries an earlier mutation gets that
   one as parent; afterwards bottom_mutation[u] = the LAST mutation on u  -> [prev_idx], [last_idx].
   Pass 2 (12572-12582): a mutation still without parent walks up the strict ancestors to the
   first node with a bottom mutation -> [up_mut].
   Check (12589): parent[j] > j is TSK_ERR_MUTATION_PARENT_AFTER_CHILD  -> the hypothesis of
   [parents_imply_order_ok].  Indices are relative to the first mutation of the site. *)
From Coq Require Import List ZArith Bool Lia.
From TskVerif Require Import Base.Common C03.Model C03.Spec.
Import ListNotations.
Open Scope Z_scope.

Fixpoint last_idx_from (i : nat) (nodes : list Z) (u : Z) : option nat :=
  match nodes with
  | [] => None
  | x :: r => match last_idx_from (S i) r u with
              | Some l => Some l
              | None => if x =? u then Some i else None
              end
  end.
Definition last_idx (nodes : list Z) (u : Z) : option nat := last_idx_from 0 nodes u.
Definition prev_idx (nodes : list Z) (j : nat) (u : Z) : option nat := last_idx (firstn j nodes) u.

(* outer None = out of fuel *)
Fixpoint up_mut (par : Z -> option Z) (fuel : nat) (nodes : list Z) (v : Z) : option (option nat) :=
  match last_idx nodes v with
  | Some l => Some (Some l)
  | None => match par v with
            | None => Some None
            | Some q => match fuel with O => None | S f => up_mut par f nodes q end
            end
  end.

Definition mut_parent (par : Z -> option Z) (fuel : nat) (nodes : list Z) (j : nat)
  : option (option nat) :=
  match nth_error nodes j with
  | None => None
  | Some u =>
      match prev_idx nodes j u with
      | Some i => Some (Some i)
      | None => match par u with
                | None => Some None
                | Some q => up_mut par fuel nodes q
                end
      end
  end.

(* all parents of a site, as tskit stores them (TSK_NULL = -1); None = out of fuel *)
Definition enc (p : option nat) : Z := match p with Some i => Z.of_nat i | None => NULL end.

Fixpoint mut_parents_list (par : Z -> option Z) (fuel : nat) (nodes : list Z) (js : list nat)
  : option (list Z) :=
  match js with
  | [] => Some []
  | j :: r => match mut_parent par fuel nodes j, mut_parents_list par fuel nodes r with
              | Some p, Some ps => Some (enc p :: ps)
              | _, _ => None
              end
  end.

Definition mut_parents (par : Z -> option Z) (fuel : nat) (nodes : list Z) : option (list Z) :=
  mut_parents_list par fuel nodes (seq 0 (length nodes)).

(* what tree_sequence()/compute_mutation_parents accept: computed parents = the stored column
   and every parent precedes its child *)
Definition parents_ok_b (par : Z -> option Z) (fuel : nat) (nodes : list Z) (column : list Z) : bool :=
  match mut_parents par fuel nodes with
  | Some ps => zlist_eqb ps column &&
               forallb (fun jp => snd jp <? Z.of_nat (fst jp)) (combine (seq 0 (length nodes)) ps)
  | None => false
  end.

(* correspondence helper: the parent column of a site against the model *)
Definition check_parents (parent : list Z) (t : tree) (s : site) (column : list Z) : bool :=
  parents_ok_b (par_of parent) (default_fuel t) (map fst (s_mutations s)) column.
