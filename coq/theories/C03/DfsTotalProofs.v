(* C03 — termination of tsk_variant_traverse within its resources: on a forest with N nodes
   (finite height, every parent a node) the explicit-stack pre-order walk pops at most N
   nodes and its stack never holds more than N entries.  Potential argument:
   size u = number of nodes below u; size u = 1 + sum of the sizes of the children. *)
From Coq Require Import List ZArith Bool Lia FinFun.
From TskVerif Require Import Base.Common C03.Model C03.Spec C03.ArrayProofs C03.PaintProofs
     C03.DecodeProofs C03.TraverseProofs C03.CheckProofs C03.TotalProofs.
Import ListNotations.
Open Scope Z_scope.

(* ---- counting with filters ------------------------------------------------------------- *)

Lemma filter_or_excl {A} (f g : A -> bool) (l : list A) :
  (forall x, In x l -> f x = true -> g x = true -> False) ->
  length (filter (fun x => f x || g x) l) = (length (filter f l) + length (filter g l))%nat.
Proof.
  induction l as [|x l IH]; intros E; simpl; [reflexivity|].
  assert (E' : forall y, In y l -> f y = true -> g y = true -> False) by (intros; eapply E; eauto; right; assumption).
  specialize (IH E').
  destruct (f x) eqn:F, (g x) eqn:G; simpl; try lia.
  exfalso. eapply (E x); auto. left. reflexivity.
Qed.

Lemma filter_ext_in_length {A} (f g : A -> bool) (l : list A) :
  (forall x, In x l -> f x = g x) -> length (filter f l) = length (filter g l).
Proof. intros H. rewrite (filter_ext_in _ _ _ H). reflexivity. Qed.

Lemma filter_len_le {A} (f : A -> bool) (l : list A) : (length (filter f l) <= length l)%nat.
Proof. induction l as [|x l IH]; simpl; [lia|]. destruct (f x); simpl; lia. Qed.

Fixpoint sum_nat (l : list nat) : nat := match l with [] => O | x :: r => (x + sum_nat r)%nat end.

Lemma sum_nat_app a b : sum_nat (a ++ b) = (sum_nat a + sum_nat b)%nat.
Proof. induction a; simpl; lia. Qed.

Lemma sum_nat_rev a : sum_nat (rev a) = sum_nat a.
Proof. induction a; simpl; [reflexivity|]. rewrite sum_nat_app. simpl. lia. Qed.

Lemma count_existsb_partition (P : Z -> Z -> bool) (L : list Z) : forall ks,
  NoDup ks ->
  (forall w c1 c2, In w L -> In c1 ks -> In c2 ks -> P c1 w = true -> P c2 w = true -> c1 = c2) ->
  length (filter (fun w => existsb (fun c => P c w) ks) L)
  = sum_nat (map (fun c => length (filter (P c) L)) ks).
Proof.
  induction ks as [|c ks IH]; intros ND EX; simpl.
  - clear. induction L as [|x L IHL]; simpl; [reflexivity | exact IHL].
  - inversion ND as [|? ? NI ND']; subst. rewrite filter_or_excl.
    + rewrite IH; [reflexivity | assumption|]. intros; eapply EX; eauto; right; assumption.
    + intros w Iw Pc Ex. apply existsb_exists in Ex as (c2 & I2 & P2).
      assert (c = c2) by (eapply EX; eauto; [left; reflexivity | right; assumption]).
      subst. contradiction.
Qed.

(* ---- the forest facts ---------------------------------------------------------------------- *)

Section Forest.
  Variable par : Z -> option Z.
  Variable N : Z.
  Variable h : nat.
  Hypothesis PD : par_dom par N.
  Hypothesis HT : forall u, depth_le par h u.

  Lemma self_loop_depth u : par u = Some u -> forall k, ~ depth_le par k u.
  Proof. intros P. induction k as [|k IH]; simpl; rewrite P; auto. Qed.

  (* no node is below one of its own children *)
  Lemma no_cycle_h : forall k u, depth_le par k u -> forall c, par c = Some u -> anc par c u -> False.
  Proof.
    induction k as [|k IH]; intros u D c Pc A; simpl in D.
    - destruct (par u) eqn:Pu; [contradiction|]. apply (anc_root par _ _ Pu) in A. subst. congruence.
    - destruct (par u) as [p|] eqn:Pu.
      + destruct (anc_up par _ _ _ Pu A) as [-> | A'].
        * assert (p = u) by congruence. subst. eapply self_loop_depth; eauto.
        * eapply (IH p D u Pu). eapply anc_child; eauto.
      + apply (anc_root par _ _ Pu) in A. subst. congruence.
  Qed.

  Lemma no_cycle u c : par c = Some u -> anc par c u -> False.
  Proof. intros. eapply no_cycle_h; eauto. Qed.

  (* the ancestors of a node form a chain *)
  Lemma anc_chain a b w : anc par a w -> anc par b w -> anc par a b \/ anc par b a.
  Proof.
    intros A. revert b. induction A as [|w p Pw A IH]; intros b B.
    - right. assumption.
    - destruct (anc_up par _ _ _ Pw B) as [-> | B'].
      + left. eapply anc_step; eauto.
      + apply IH. assumption.
  Qed.

  Lemma siblings_disjoint u c1 c2 w :
    par c1 = Some u -> par c2 = Some u -> anc par c1 w -> anc par c2 w -> c1 = c2.
  Proof.
    intros P1 P2 A1 A2. destruct (Z.eq_dec c1 c2) as [E | NE]; [assumption|]. exfalso.
    destruct (anc_chain _ _ _ A1 A2) as [A | A].
    - destruct (anc_up par _ _ _ P2 A) as [E | A']; [contradiction|]. exact (no_cycle u c1 P1 A').
    - destruct (anc_up par _ _ _ P1 A) as [E | A']; [congruence|]. exact (no_cycle u c2 P2 A').
  Qed.

  Definition below_b (u w : Z) : bool := anc_b par h u w.
  Definition size (u : Z) : nat := length (filter (below_b u) (zrange N)).

  Lemma below_b_iff u w : below_b u w = true <-> anc par u w.
  Proof. unfold below_b. split; [apply anc_b_sound | apply anc_b_complete; apply HT]. Qed.

  Lemma zrange_NoDup : NoDup (zrange N).
  Proof.
    unfold zrange. apply Injective_map_NoDup; [|apply seq_NoDup].
    intros a b E. lia.
  Qed.

  Lemma zrange_length : length (zrange N) = Z.to_nat N.
  Proof. unfold zrange. rewrite map_length, seq_length. reflexivity. Qed.

  Lemma count_eq_one u : 0 <= u < N -> length (filter (fun w => w =? u) (zrange N)) = 1%nat.
  Proof.
    intros R. pose proof zrange_NoDup as ND. apply zrange_In in R. revert ND R.
    generalize (zrange N) as L. induction L as [|x L IH]; intros ND I; [contradiction|].
    inversion ND as [|? ? NI ND']; subst. simpl. destruct (x =? u) eqn:E.
    - apply Z.eqb_eq in E. subst. simpl. f_equal.
      assert (X : filter (fun w => w =? u) L = []); [|rewrite X; reflexivity].
      clear -NI. induction L as [|y L IH]; simpl; [reflexivity|].
      destruct (y =? u) eqn:E; [apply Z.eqb_eq in E; subst; exfalso; apply NI; left; reflexivity|].
      apply IH. intro. apply NI. right. assumption.
    - apply Z.eqb_neq in E. destruct I as [-> | I]; [congruence|]. apply IH; assumption.
  Qed.

  (* size u = 1 + sum over the children *)
  Lemma size_children u ks : 0 <= u < N -> NoDup ks -> (forall c, In c ks <-> par c = Some u) ->
    size u = S (sum_nat (map size ks)).
  Proof.
    intros R ND K. unfold size.
    rewrite (filter_ext_in_length (below_b u)
               (fun w => (w =? u) || existsb (fun c => below_b c w) ks)).
    - rewrite filter_or_excl.
      + rewrite (count_eq_one u R). rewrite count_existsb_partition; [reflexivity | assumption|].
        intros w c1 c2 _ I1 I2 B1 B2. apply below_b_iff in B1, B2. apply K in I1, I2.
        eapply siblings_disjoint; eauto.
      + intros w _ E Ex. apply Z.eqb_eq in E. subst.
        apply existsb_exists in Ex as (c & Ic & Bc). apply below_b_iff in Bc. apply K in Ic.
        eapply no_cycle; eauto.
    - intros w _. destruct (below_b u w) eqn:B.
      + apply below_b_iff in B. destruct (anc_inv_top par _ _ B) as [-> | (c & Pc & Ac)].
        * rewrite Z.eqb_refl. reflexivity.
        * symmetry. apply orb_true_iff. right. apply existsb_exists. exists c.
          split; [apply K; assumption | apply below_b_iff; assumption].
      + symmetry. apply orb_false_iff. split.
        * apply Z.eqb_neq. intros ->. rewrite (proj2 (below_b_iff u u) (anc_refl par u)) in B. discriminate.
        * destruct (existsb (fun c => below_b c w) ks) eqn:Ex; [|reflexivity].
          apply existsb_exists in Ex as (c & Ic & Bc). apply below_b_iff in Bc. apply K in Ic.
          rewrite (proj2 (below_b_iff u w) (anc_child par _ _ _ Ic Bc)) in B. discriminate.
  Qed.

  Lemma size_pos u : 0 <= u < N -> (1 <= size u)%nat.
  Proof.
    intros R. unfold size. apply zrange_In in R.
    assert (I : In u (filter (below_b u) (zrange N))).
    { apply filter_In. split; [assumption | apply below_b_iff; apply anc_refl]. }
    destruct (filter (below_b u) (zrange N)); [contradiction | simpl; lia].
  Qed.

  Lemma size_le_N u : (size u <= Z.to_nat N)%nat.
  Proof. unfold size. rewrite <- zrange_length. apply filter_len_le. Qed.

  Definition potential (stack : list Z) : nat := sum_nat (map size stack).

  Lemma length_le_potential stack : (forall s, In s stack -> 0 <= s < N) ->
    (length stack <= potential stack)%nat.
  Proof.
    unfold potential. induction stack as [|s stack IH]; intros R; simpl; [lia|].
    pose proof (size_pos s (R s (or_introl eq_refl))).
    assert (length stack <= sum_nat (map size stack))%nat by (apply IH; intros; apply R; right; assumption).
    lia.
  Qed.

  (* ---- the walk ------------------------------------------------------------------------------ *)
  Variable t : tree.
  Variable cf : nat.
  Hypothesis KR : kids_rep par cf t N.

  Lemma dfs_total : forall fuel cap stack,
    (forall s, In s stack -> 0 <= s < N) ->
    (potential stack <= fuel)%nat -> Z.of_nat (potential stack) <= cap ->
    exists vis, dfs fuel cf t cap stack = Ok vis.
  Proof.
    induction fuel as [|f IH]; intros cap stack R PF PC.
    - destruct stack as [|u rest]; [simpl; eauto|]. exfalso.
      pose proof (length_le_potential _ R). simpl in H. lia.
    - destruct stack as [|u rest]; [simpl; eauto|]. simpl.
      assert (Ru : 0 <= u < N) by (apply R; left; reflexivity).
      destruct (KR u Ru) as (ks & CH & ND & K). rewrite CH. cbn [bind].
      assert (R' : forall s, In s (rev ks ++ rest) -> 0 <= s < N).
      { intros s I. apply in_app_or in I as [I | I].
        - apply in_rev in I. apply K in I. apply (PD _ _ I).
        - apply R. right. assumption. }
      assert (POT : potential (u :: rest) = S (potential (rev ks ++ rest))).
      { unfold potential. simpl. rewrite (size_children u ks Ru ND K).
        rewrite map_app, sum_nat_app, map_rev, sum_nat_rev. lia. }
      pose proof (length_le_potential _ R') as LL.
      destruct (cap <? zlen (rev ks ++ rest)) eqn:CAP.
      { apply Z.ltb_lt in CAP. unfold zlen in CAP. lia. }
      destruct (IH cap (rev ks ++ rest) R') as [vis D]; [lia | lia|].
      rewrite D. cbn [bind]. eauto.
  Qed.
End Forest.

Lemma indexes_of_ok map : forall nodes, (forall u, In u nodes -> 0 <= u < zlen map) ->
  exists idx, indexes_of map nodes = Ok idx.
Proof.
  induction nodes as [|u rest IH]; intros R; simpl; [eauto|].
  destruct (get_in_range map u (R u (or_introl eq_refl))) as [si G]. rewrite G. cbn [bind].
  destruct IH as [r I]; [intros; apply R; right; assumption|]. rewrite I. cbn [bind]. eauto.
Qed.

(* the assumption of decode_total_partial holds *)
Lemma traversal_ok_l par fuel t v N h s :
  tree_rep par fuel t v N -> (forall u, depth_le par h u) ->
  v_num_nodes v = N -> N <= Z.of_nat fuel -> muts_in_range N s ->
  traversal_ok fuel t v s.
Proof.
  intros (PD & (IMlen & IM1 & IM2) & KR & _ & _) HT VN FN MR BT n d I.
  pose proof (MR _ _ I) as Rn. unfold painted. rewrite BT, VN.
  destruct (N <? 1) eqn:E; [apply Z.ltb_lt in E; lia|].
  assert (R1 : forall s0, In s0 [n] -> 0 <= s0 < N) by (intros s0 [<- | []]; exact Rn).
  pose proof (size_le_N par N h n) as SZ.
  destruct (dfs_total par N h PD HT t fuel KR fuel N [n] R1) as [vis D].
  - unfold potential. simpl. lia.
  - unfold potential. simpl. lia.
  - rewrite D. cbn [bind]. apply indexes_of_ok. rewrite IMlen. intros u Iu.
    apply (dfs_spec par t N fuel PD KR fuel _ _ _ R1 D) in Iu as (s0 & [<- | []] & A).
    inversion A; subst; [assumption|]. apply (PD _ _ H).
Qed.

Theorem decode_total_l par fuel t v N h s :
  tree_rep par fuel t v N -> (forall u, depth_le par h u) ->
  v_num_nodes v = N -> N <= Z.of_nat fuel -> muts_in_range N s ->
  (exists r, decode fuel t v s = Ok r) \/
  (decode fuel t v s = Err ERR_ALLELE_NOT_FOUND /\ exists ua, v_user_alleles v = Some ua).
Proof.
  intros TR HT VN FN MR. apply (decode_total_partial_l par fuel t v N s TR MR).
  eapply traversal_ok_l; eauto.
Qed.
