(* C03 — the sample-list component of [tree_rep] derived from a LOCAL linked-array invariant
   (what tsk_tree_update_sample_lists, trees.c 6185-6217, maintains node by node): the list of a
   node is its own sample index (if it is a requested sample) together with the lists of its
   children.  With the child chains ([kids_rep]), the index map and a rank that grows towards the
   roots (node time: acyclicity) this gives the semantic statement the decode theorems use:
   the list of n holds exactly the sample indexes below n. *)
From Coq Require Import List ZArith Bool Lia.
From TskVerif Require Import Base.Common C03.Model C03.Spec C03.ArrayProofs C03.PaintProofs
     C03.CheckProofs.
Import ListNotations.
Open Scope Z_scope.

Definition sample_lists_local (fuel : nat) (t : tree) (N : Z) (map : list Z) : Prop :=
  forall u, 0 <= u < N -> exists l ks,
    sample_chain fuel t u = Ok l /\ children fuel t u = Ok ks /\
    forall k, In k l <->
      ((get map u = Ok k /\ k <> NULL) \/
       exists c lc, In c ks /\ sample_chain fuel t c = Ok lc /\ In k lc).

Section Local.
  Variable par : Z -> option Z.
  Variables (fuel : nat) (t : tree) (N : Z) (samples map : list Z).
  Variable rank : Z -> nat.
  Hypothesis PD : par_dom par N.
  Hypothesis KR : kids_rep par fuel t N.
  Hypothesis IM : index_map_rep N samples map.
  Hypothesis RK : forall c p, par c = Some p -> (rank c < rank p)%nat.
  Hypothesis LOC : sample_lists_local fuel t N map.

  Lemma sample_lists_by_rank : forall n u, (rank u < n)%nat -> 0 <= u < N ->
    exists l, sample_chain fuel t u = Ok l /\
      forall k, In k l <-> exists w, get samples k = Ok w /\ anc par u w.
  Proof.
    destruct IM as (IMlen & IM1 & IM2).
    induction n as [|n IH]; intros u Hr Ru; [lia|].
    destruct (LOC u Ru) as (l & ks & SC & CH & M).
    destruct (KR u Ru) as (ks' & CH' & _ & K). rewrite CH in CH'. inversion CH'; subst ks'.
    exists l. split; [assumption|]. intros k. rewrite M. split.
    - intros [[G Nk] | (c & lc & Ic & SCc & Ik)].
      + exists u. split; [apply IM1; assumption | apply anc_refl].
      + apply K in Ic. pose proof (RK _ _ Ic) as R. destruct (PD _ _ Ic) as [Rc _].
        destruct (IH c ltac:(lia) Rc) as (lc' & SCc' & Mc). rewrite SCc in SCc'. inversion SCc'; subst lc'.
        apply Mc in Ik as (w & Gw & A). exists w. split; [assumption | eapply anc_child; eauto].
    - intros (w & Gw & A). destruct (anc_inv_top par _ _ A) as [-> | (c & Pc & Ac)].
      + left. apply IM2. assumption.
      + right. pose proof (RK _ _ Pc) as R. destruct (PD _ _ Pc) as [Rc _].
        destruct (IH c ltac:(lia) Rc) as (lc & SCc & Mc). exists c, lc.
        split; [apply K; assumption|]. split; [assumption|]. apply Mc. eauto.
  Qed.

  Theorem sample_lists_from_local_l : sample_lists_rep par fuel t N samples.
  Proof. intros n Rn. exact (sample_lists_by_rank (S (rank n)) n ltac:(lia) Rn). Qed.
End Local.

(* boolean checker of the local invariant, and its soundness *)
Definition sample_lists_local_b (fuel : nat) (t : tree) (N : Z) (map : list Z) : bool :=
  forallb (fun u =>
    match sample_chain fuel t u, children fuel t u, get map u with
    | Ok l, Ok ks, Ok own =>
        forallb (fun c => match sample_chain fuel t c with Ok _ => true | _ => false end) ks &&
        let below := flat_map (fun c => match sample_chain fuel t c with Ok lc => lc | _ => [] end) ks in
        let all := (if own =? NULL then [] else [own]) ++ below in
        forallb (fun k => mem k all) l && forallb (fun k => mem k l) all
    | _, _, _ => false
    end) (zrange N).

Lemma sample_lists_local_b_sound fuel t N map :
  sample_lists_local_b fuel t N map = true -> sample_lists_local fuel t N map.
Proof.
  unfold sample_lists_local_b. rewrite forallb_forall. intros H u Ru.
  specialize (H u (proj2 (zrange_In _ _) Ru)).
  destruct (sample_chain fuel t u) as [l| | |]; try discriminate.
  destruct (children fuel t u) as [ks| | |]; try discriminate.
  destruct (get map u) as [own| | |] eqn:GO; try discriminate.
  apply andb_true_iff in H as [H1 H]. cbv zeta in H. apply andb_true_iff in H as [H2 H3].
  rewrite forallb_forall in H1, H2, H3.
  exists l, ks. split; [reflexivity|]. split; [reflexivity|]. intros k.
  assert (ALL : forall k, In k ((if own =? NULL then [] else [own]) ++
                  flat_map (fun c => match sample_chain fuel t c with Ok lc => lc | _ => [] end) ks) <->
                ((Ok own = Ok k /\ k <> NULL) \/
                 exists c lc, In c ks /\ sample_chain fuel t c = Ok lc /\ In k lc)).
  { intros k0. rewrite in_app_iff, in_flat_map. split.
    - intros [I | (c & Ic & I)].
      + left. destruct (own =? NULL) eqn:E; [contradiction|]. apply Z.eqb_neq in E.
        destruct I as [<- | []]. auto.
      + right. destruct (sample_chain fuel t c) as [lc| | |] eqn:SC; try contradiction. eauto.
    - intros [[E Nk] | (c & lc & Ic & SC & I)].
      + left. inversion E; subst. destruct (k0 =? NULL) eqn:E'; [apply Z.eqb_eq in E'; contradiction | left; reflexivity].
      + right. exists c. split; [assumption|]. rewrite SC. assumption. }
  rewrite <- ALL. split.
  - intros I. apply mem_In. apply H2. assumption.
  - intros I. apply mem_In. apply H3. assumption.
Qed.
