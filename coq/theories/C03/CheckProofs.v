(* C03 — the boolean checkers of Spec.v are sound: when [hyps_b] evaluates to true on concrete
   arrays, the hypotheses of the property theorems hold for them.  (Used for the non-vacuity
   examples, and it is what gives the per-case evaluation of [hyps_b] on the real tree arrays
   its meaning.) *)
From Coq Require Import List ZArith Bool Lia.
From TskVerif Require Import Base.Common C03.Model C03.Spec C03.ArrayProofs C03.PaintProofs
     C03.DecodeProofs.
Import ListNotations.
Open Scope Z_scope.

Lemma zrange_In N u : In u (zrange N) <-> 0 <= u < N.
Proof.
  unfold zrange. rewrite in_map_iff. split.
  - intros (x & <- & I). apply in_seq in I. lia.
  - intros H. exists (Z.to_nat u). split; [lia|]. apply in_seq. lia.
Qed.

Lemma mem_In x l : mem x l = true <-> In x l.
Proof.
  unfold mem. rewrite existsb_exists. split.
  - intros (y & I & E). apply Z.eqb_eq in E. subst. assumption.
  - intros I. exists x. split; [assumption | apply Z.eqb_refl].
Qed.

Lemma nodup_b_sound l : nodup_b l = true -> NoDup l.
Proof.
  induction l as [|x r IH]; simpl; intros H; [constructor|].
  apply andb_true_iff in H as [H1 H2]. constructor; [|auto].
  intro I. apply mem_In in I. rewrite I in H1. discriminate.
Qed.

Lemma opt_is_true o u : opt_is o u = true <-> o = Some u.
Proof.
  destruct o as [p|]; simpl; [|split; discriminate]. rewrite Z.eqb_eq. split; congruence.
Qed.

Lemma depth_le_b_sound par : forall h u, depth_le_b par h u = true -> depth_le par h u.
Proof.
  induction h as [|h IH]; intros u; simpl; destruct (par u); auto; discriminate.
Qed.

Lemma par_of_range parent c p : par_of parent c = Some p -> 0 <= c < zlen parent.
Proof.
  unfold par_of. destruct (get parent c) eqn:G; try discriminate. intros _. eapply get_range; eauto.
Qed.

Lemma index_map_rep_b_sound N samples map :
    index_map_rep_b N samples map = true -> index_map_rep N samples map.
  Proof.
    unfold index_map_rep_b. intros H. apply andb_true_iff in H as [H H3].
    apply andb_true_iff in H as [H1 H2]. apply Z.eqb_eq in H1.
    rewrite forallb_forall in H2, H3. split; [assumption|]. split.
    - intros u k G Nk. pose proof (get_range _ _ _ G) as R. rewrite H1 in R.
      specialize (H2 u (proj2 (zrange_In _ _) R)). rewrite G in H2.
      destruct (k =? NULL) eqn:E; [apply Z.eqb_eq in E; contradiction|]. simpl in H2.
      destruct (get samples k) as [u'| | |]; try discriminate. apply Z.eqb_eq in H2. congruence.
    - intros k u G. pose proof (get_range _ _ _ G) as R.
      specialize (H3 k (proj2 (zrange_In _ _) R)). rewrite G in H3.
      destruct (get map u) as [k'| | |]; try discriminate.
      apply andb_true_iff in H3 as [E1 E2]. apply Z.eqb_eq in E1. apply negb_true_iff, Z.eqb_neq in E2.
      subst. auto.
  Qed.


Section Sound.
  Variable par : Z -> option Z.
  Variable N : Z.
  Variable fuel : nat.
  Hypothesis PD : par_dom par N.
  Hypothesis HT : forall u, depth_le par fuel u.

  Lemma anc_b_iff a u : anc_b par fuel a u = true <-> anc par a u.
  Proof. split; [apply anc_b_sound | apply anc_b_complete; apply HT]. Qed.

  Lemma order_ok_b_sound muts : order_ok_b par fuel muts = true -> order_ok par muts.
  Proof.
    unfold order_ok_b. intros H ms1. revert muts H.
    induction ms1 as [|m ms1 IH]; intros muts H ni di ms2 nj dj E I A; subst muts; simpl in H.
    - apply andb_true_iff in H as [H _]. rewrite forallb_forall in H. specialize (H _ I).
      simpl in H. rewrite (proj2 (anc_b_iff nj ni) A) in H. simpl in H. apply Z.eqb_eq in H. exact H.
    - destruct m as [n0 d0]. apply andb_true_iff in H as [_ H]. eapply IH; eauto.
  Qed.

  Lemma kids_rep_b_sound t : kids_rep_b par fuel t N = true -> kids_rep par fuel t N.
  Proof.
    unfold kids_rep_b. intros H u R. rewrite forallb_forall in H.
    specialize (H u (proj2 (zrange_In _ _) R)).
    destruct (children fuel t u) as [ks| | |]; try discriminate. exists ks. split; [reflexivity|].
    apply andb_true_iff in H as [H1 H2]. apply andb_true_iff in H1 as [H0 H1].
    split; [apply nodup_b_sound; assumption|].
    rewrite forallb_forall in H1, H2. intros c. split.
    - intros I. apply opt_is_true. apply H1. assumption.
    - intros P. destruct (PD _ _ P) as [Rc _]. specialize (H2 c (proj2 (zrange_In _ _) Rc)).
      rewrite (proj2 (opt_is_true _ _) P) in H2. simpl in H2. apply mem_In. assumption.
  Qed.

  Lemma roots_rep_b_sound t map : zlen map = N ->
    roots_rep_b par fuel t N map = true -> roots_rep par fuel t N map.
  Proof.
    unfold roots_rep_b. intros LM H.
    destruct (children fuel t (virtual_root t)) as [rs| | |] eqn:CH; try discriminate.
    apply andb_true_iff in H as [H H3]. apply andb_true_iff in H as [H1 H2].
    exists rs. split; [exact CH|]. split; [apply nodup_b_sound; assumption|].
    rewrite forallb_forall in H2, H3. split.
    - intros r I. specialize (H2 r I). lia.
    - intros u k G Nk. pose proof (get_range _ _ _ G) as R. rewrite LM in R.
      specialize (H3 u (proj2 (zrange_In _ _) R)). rewrite G in H3.
      destruct (k =? NULL) eqn:E; [apply Z.eqb_eq in E; contradiction|]. simpl in H3.
      apply eqb_prop in H3. rewrite <- mem_In, H3. destruct (par u); split; congruence.
  Qed.

  Lemma sample_lists_rep_b_sound t samples :
    sample_lists_rep_b par fuel t N samples = true -> sample_lists_rep par fuel t N samples.
  Proof.
    unfold sample_lists_rep_b. intros H n R. rewrite forallb_forall in H.
    specialize (H n (proj2 (zrange_In _ _) R)).
    destruct (sample_chain fuel t n) as [l| | |]; try discriminate. exists l. split; [reflexivity|].
    apply andb_true_iff in H as [H1 H2]. rewrite forallb_forall in H1, H2. intros k. split.
    - intros I. specialize (H1 k I). destruct (get samples k) as [u| | |]; try discriminate.
      exists u. split; [reflexivity | apply anc_b_iff; assumption].
    - intros (u & G & A). pose proof (get_range _ _ _ G) as Rk.
      specialize (H2 k (proj2 (zrange_In _ _) Rk)). rewrite G in H2.
      rewrite (proj2 (anc_b_iff n u) A) in H2. simpl in H2. apply mem_In. assumption.
  Qed.
End Sound.

Lemma height_ok_b_sound parent h :
  height_ok_b (par_of parent) h (zlen parent) = true ->
  par_dom (par_of parent) (zlen parent) /\ forall u, depth_le (par_of parent) h u.
Proof.
  unfold height_ok_b. intros H. rewrite forallb_forall in H. split.
  - intros c p P. pose proof (par_of_range _ _ _ P) as R. split; [assumption|].
    specialize (H c (proj2 (zrange_In _ _) R)). apply andb_true_iff in H as [_ H]. rewrite P in H. lia.
  - intros u. destruct (par_of parent u) eqn:P.
    + pose proof (par_of_range _ _ _ P) as R. specialize (H u (proj2 (zrange_In _ _) R)).
      apply andb_true_iff in H as [H _]. apply depth_le_b_sound. assumption.
    + destruct h; simpl; rewrite P; exact I.
Qed.

Lemma muts_in_range_b_sound N s : muts_in_range_b N (s_mutations s) = true -> muts_in_range N s.
Proof.
  unfold muts_in_range_b, muts_in_range. rewrite forallb_forall. intros H n d I.
  specialize (H _ I). simpl in H. lia.
Qed.

(* everything [check_decode] evaluates before comparing results *)
Theorem hyps_b_sound parent t v s :
  hyps_b parent t v s = true ->
  let par := par_of parent in let N := zlen parent in let fuel := default_fuel t in
  tree_rep par fuel t v N /\ muts_in_range N s /\ order_ok par (s_mutations s) /\
  (forall u, depth_le par fuel u) /\ v_num_nodes v = N.
Proof.
  unfold hyps_b. intros H. cbv zeta.
  apply andb_true_iff in H as [H SL]. apply andb_true_iff in H as [H RR].
  apply andb_true_iff in H as [H KR]. apply andb_true_iff in H as [H IMb].
  apply andb_true_iff in H as [H OO]. apply andb_true_iff in H as [H MR].
  apply andb_true_iff in H as [H HH]. apply Z.eqb_eq in H.
  destruct (height_ok_b_sound _ _ HH) as [PD HT].
  pose proof IMb as IM. apply index_map_rep_b_sound in IM.
  split; [|split; [apply muts_in_range_b_sound; assumption|
           split; [eapply order_ok_b_sound; eauto | split; assumption]]].
  split; [assumption|]. split; [assumption|].
  split; [eapply kids_rep_b_sound; eauto|]. split.
  - intros IMP. rewrite IMP in RR. simpl in RR. eapply roots_rep_b_sound; eauto. apply IM.
  - intros BT. rewrite BT in SL. simpl in SL. eapply sample_lists_rep_b_sound; eauto.
Qed.
