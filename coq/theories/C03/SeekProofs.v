(* C03 — the seek inside tsk_variant_decode (genotypes.c 482: tsk_tree_seek(&self->tree,
   site.position)).  The variant owns a tree that earlier decodes left anywhere; decode first
   moves it to the tree covering the site's position.  The navigation itself is property C06;
   here it is an abstract function [seek cur x] with C06's contract as hypothesis [NAV]: from ANY
   current tree state the result represents the forest [par_at x] at the target position.
   Theorems: whatever sequence of decodes (successful or failed, in any order) came before, the
   next decode returns the rule evaluated on the tree of ITS OWN site. *)
From Coq Require Import List ZArith Bool Lia.
From TskVerif Require Import Base.Common C03.Model C03.Spec C03.ArrayProofs C03.PaintProofs
     C03.DecodeProofs C03.HistoryProofs C03.RuleProofs.
Import ListNotations.
Open Scope Z_scope.

Section Seek.
  Variable seek : tree -> Z -> tree.                 (* tsk_tree_seek, from any state *)
  Variable par_at : Z -> Z -> option Z.              (* forest at a position (edge definition) *)
  Variable on_error : vstate -> vstate.              (* what a failed decode leaves behind *)
  Variables (fuel : nat) (v : variant) (N : Z) (h : nat).

  Hypothesis NAV : forall cur x, tree_rep (par_at x) fuel (seek cur x) v N.
  Hypothesis HT : forall x u, depth_le (par_at x) h u.
  Hypothesis ERRLEN : forall st, length (st_genotypes (on_error st)) = length (st_genotypes st).

  (* the mutable variant object: its tree and its decode state *)
  Definition vobj := (tree * vstate)%type.

  (* one Variant.decode(site): seek, then tsk_variant_decode's painting *)
  Definition decode_obj (o : vobj) (p : Z * site) : vobj * res decode_result :=
    let t' := seek (fst o) (fst p) in
    let r := decode_st fuel t' v (snd o) (snd p) in
    ((t', match r with
          | Ok (g, al, hm) => mkState g al hm
          | _ => on_error (snd o)
          end), r).

  (* a history of decode calls *)
  Fixpoint run (o : vobj) (hist : list (Z * site)) : vobj :=
    match hist with
    | [] => o
    | p :: rest => run (fst (decode_obj o p)) rest
    end.

  Definition wf_obj (o : vobj) : Prop := length (st_genotypes (snd o)) = length (v_samples v).

  Lemma decode_obj_wf o p : muts_in_range N (snd p) -> wf_obj o -> wf_obj (fst (decode_obj o p)).
  Proof.
    intros MR W. unfold decode_obj, wf_obj in *. cbn [fst snd].
    destruct (decode_st fuel (seek (fst o) (fst p)) v (snd o) (snd p)) as [[[g al] hm]| | |] eqn:D;
      cbn [st_genotypes]; try (rewrite ERRLEN; exact W).
    rewrite (decode_st_history_independent _ _ _ _ _ W) in D.
    exact (genotypes_length_l _ _ _ _ _ _ (NAV (fst o) (fst p)) MR _ _ _ D).
  Qed.

  Lemma run_wf : forall hist o, Forall (fun p => muts_in_range N (snd p)) hist -> wf_obj o -> wf_obj (run o hist).
  Proof.
    induction hist as [|p rest IH]; intros o F W; [exact W|]. inversion F; subst. simpl.
    apply IH; [assumption|]. apply decode_obj_wf; assumption.
  Qed.

  (* after ANY history the next decode follows the rule on the tree of its own site *)
  Theorem decode_after_history_follows_rule_l hist o0 x s :
    wf_obj o0 -> Forall (fun p => muts_in_range N (snd p)) hist ->
    muts_in_range N s -> order_ok (par_at x) (s_mutations s) ->
    forall g al hm, snd (decode_obj (run o0 hist) (x, s)) = Ok (g, al, hm) ->
    forall k u, get (v_samples v) k = Ok u ->
    exists r, nearest (par_at x) (s_mutations s) u r /\
      let missing := v_impute v = false /\ isolated (par_at x) u /\ has_mut_on (s_mutations s) u = false in
      (missing /\ get g k = Ok MISSING) \/
      (~ missing /\ get g k = Ok (allele_index al (state_of (s_ancestral s) r)) /\
       get al (allele_index al (state_of (s_ancestral s) r)) = Ok (state_of (s_ancestral s) r)).
  Proof.
    intros W F MR OO g al hm D k u Hk. unfold decode_obj in D. cbn [fst snd] in D.
    rewrite (decode_st_history_independent _ _ _ _ _ (run_wf hist o0 F W)) in D.
    exact (decode_follows_rule_l (par_at x) fuel _ v N h s (NAV _ x) MR OO (HT x) g al hm D k u Hk).
  Qed.

  (* two arbitrary histories give the same result for the same site *)
  Theorem decode_history_and_position_independent_l hist1 o1 hist2 o2 x s r1 r2 :
    wf_obj o1 -> wf_obj o2 ->
    Forall (fun p => muts_in_range N (snd p)) hist1 -> Forall (fun p => muts_in_range N (snd p)) hist2 ->
    muts_in_range N s ->
    snd (decode_obj (run o1 hist1) (x, s)) = Ok r1 ->
    snd (decode_obj (run o2 hist2) (x, s)) = Ok r2 -> r1 = r2.
  Proof.
    intros W1 W2 F1 F2 MR D1 D2. unfold decode_obj in D1, D2. cbn [fst snd] in D1, D2.
    rewrite (decode_st_history_independent _ _ _ _ _ (run_wf hist1 o1 F1 W1)) in D1.
    rewrite (decode_st_history_independent _ _ _ _ _ (run_wf hist2 o2 F2 W2)) in D2.
    exact (decode_determined_l (par_at x) N h (HT x) s fuel _ v fuel _ v r1 r2 eq_refl eq_refl eq_refl
             (NAV _ x) (NAV _ x) MR D1 D2).
  Qed.
End Seek.
