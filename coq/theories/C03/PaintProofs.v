(* C03 — the abstract heart of (a) paint_nearest: painting subtrees in table order leaves on
   every node the derived state of the *last* mutation (table order) on an ancestor-or-self;
   under the order hypothesis that is the nearest one. *)
From Coq Require Import List ZArith Bool Lia.
From TskVerif Require Import Base.Common C03.Model C03.Spec.
Import ListNotations.
Open Scope Z_scope.

Section Abstract.
  Variable par : Z -> option Z.
  Notation anc := (anc par).
  Notation nearest := (nearest par).

  Lemma anc_root a u : par u = None -> anc a u -> a = u.
  Proof. intros H A. inversion A; subst; [reflexivity | congruence]. Qed.

  Lemma anc_up a u p : par u = Some p -> anc a u -> a = u \/ anc a p.
  Proof. intros H A. inversion A; subst; [left; reflexivity | right; congruence]. Qed.

  (* a child's descendants are the parent's *)
  Lemma anc_child c u w : par c = Some u -> anc c w -> anc u w.
  Proof.
    intros H A. induction A as [|w p Hp A IH].
    - eapply anc_step; [exact H | apply anc_refl].
    - eapply anc_step; eauto.
  Qed.

  Lemma anc_trans a b c : anc a b -> anc b c -> anc a c.
  Proof. intros AB BC. induction BC; [assumption | eapply anc_step; eauto]. Qed.

  (* view from the top: a descendant is the node itself or below one of its children *)
  Lemma anc_inv_top u w : anc u w -> w = u \/ exists c, par c = Some u /\ anc c w.
  Proof.
    intros A. induction A as [|w p Hp A IH]; [left; reflexivity|]. right.
    destruct IH as [-> | (c & Hc & Ac)].
    - exists w. split; [assumption | apply anc_refl].
    - exists c. split; [assumption | eapply anc_step; eauto].
  Qed.

  Lemma last_on_in muts u : forall a, last_on muts u = Some a -> In (u, a) muts.
  Proof.
    induction muts as [|[n d] rest IH]; simpl; intros a; [discriminate|].
    destruct (last_on rest u) eqn:E.
    - intros H; inversion H; subst. right. apply IH. reflexivity.
    - destruct (n =? u) eqn:N; [|discriminate]. apply Z.eqb_eq in N. intros H; inversion H; subst.
      left. reflexivity.
  Qed.

  Lemma last_on_none muts u : last_on muts u = None <-> forall d, ~ In (u, d) muts.
  Proof.
    induction muts as [|[n d] rest IH]; simpl.
    - split; auto.
    - destruct (last_on rest u) eqn:E.
      + split; [discriminate|]. intros H. exfalso. apply (H a). right. apply last_on_in. exact E.
      + destruct (n =? u) eqn:N.
        * apply Z.eqb_eq in N. subst. split; [discriminate|]. intros H. exfalso. apply (H d). left. reflexivity.
        * apply Z.eqb_neq in N. split; [|reflexivity]. intros _ d' [X | X].
          -- inversion X. congruence.
          -- apply (proj1 IH eq_refl d'). exact X.
  Qed.

  Lemma last_on_some muts u d : last_on muts u = Some d ->
    exists ms1 ms2, muts = ms1 ++ (u, d) :: ms2 /\ forall d', ~ In (u, d') ms2.
  Proof.
    induction muts as [|[n d0] rest IH]; simpl; [discriminate|].
    destruct (last_on rest u) eqn:E.
    - intros H; inversion H; subst. destruct (IH eq_refl) as (ms1 & ms2 & -> & N).
      exists ((n, d0) :: ms1), ms2. split; [reflexivity | assumption].
    - destruct (n =? u) eqn:N; [|discriminate]. apply Z.eqb_eq in N. intros H; inversion H; subst.
      exists [], rest. split; [reflexivity|]. apply last_on_none. assumption.
  Qed.

  (* no mutation at all on the path *)
  Lemma nearest_none muts u : nearest muts u None ->
    forall n d, In (n, d) muts -> ~ anc n u.
  Proof.
    intros H. remember None as r eqn:R. induction H as [u d L | u L P | u p r L P H IH]; subst.
    - discriminate.
    - intros n d I A. apply (anc_root _ _ P) in A. subst. eapply (proj1 (last_on_none _ _) L); eauto.
    - intros n d I A. destruct (anc_up _ _ _ P A) as [-> | A'].
      + eapply (proj1 (last_on_none _ _) L); eauto.
      + eapply IH; eauto.
  Qed.

  (* under the order hypothesis the nearest mutation is the last one (table order) among the
     mutations sitting on an ancestor-or-self *)
  Lemma nearest_is_last muts u d : order_ok par muts -> nearest muts u (Some d) ->
    exists ms1 n ms2, muts = ms1 ++ (n, d) :: ms2 /\ anc n u /\
      forall n' d', In (n', d') ms2 -> ~ anc n' u.
  Proof.
    intros O H. remember (Some d) as r eqn:R. revert d R.
    induction H as [u d0 L | u L P | u p r L P H IH]; intros d R; subst.
    - inversion R; subst. destruct (last_on_some _ _ _ L) as (ms1 & ms2 & E & N).
      exists ms1, u, ms2. split; [assumption|]. split; [apply anc_refl|].
      intros n' d' I A. pose proof (O _ _ _ _ _ _ E I A) as X. subst. eapply N; eauto.
    - discriminate.
    - destruct (IH d eq_refl) as (ms1 & n & ms2 & E & A & N).
      exists ms1, n, ms2. split; [assumption|]. split; [eapply anc_step; eauto|].
      intros n' d' I A'. destruct (anc_up _ _ _ P A') as [-> | A''].
      + eapply (proj1 (last_on_none _ _) L). rewrite E. apply in_or_app. right. right. exact I.
      + eapply N; eauto.
  Qed.

  (* the rule is a function *)
  Lemma nearest_functional muts u r1 r2 : nearest muts u r1 -> nearest muts u r2 -> r1 = r2.
  Proof.
    intros H1. revert r2. induction H1 as [u d L | u L P | u p r L P H IH]; intros r2 H2;
      inversion H2; subst; try congruence.
    apply IH. congruence.
  Qed.

  Lemma nearest_f_sound fuel muts u r : nearest_f par fuel muts u = Some r -> nearest muts u r.
  Proof.
    revert u. induction fuel as [|f IH]; intros u; simpl.
    - destruct (last_on muts u) eqn:L; [intros H; inversion H; apply near_here; assumption|].
      destruct (par u) eqn:P; [discriminate|]. intros H; inversion H. apply near_root; assumption.
    - destruct (last_on muts u) eqn:L; [intros H; inversion H; apply near_here; assumption|].
      destruct (par u) eqn:P.
      + intros H. eapply near_up; eauto.
      + intros H; inversion H. apply near_root; assumption.
  Qed.

  (* on a forest of height <= h the rule is defined for every node *)
  Lemma nearest_f_total muts : forall h u, depth_le par h u -> exists r, nearest_f par h muts u = Some r.
  Proof.
    induction h as [|h IH]; intros u D; simpl in *.
    - destruct (last_on muts u); [eauto|]. destruct (par u); [contradiction | eauto].
    - destruct (last_on muts u); [eauto|]. destruct (par u); [apply IH; assumption | eauto].
  Qed.

  Lemma anc_b_sound fuel a u : anc_b par fuel a u = true -> anc a u.
  Proof.
    revert u. induction fuel as [|f IH]; intros u; simpl.
    - destruct (a =? u) eqn:E; [apply Z.eqb_eq in E; subst; intros; apply anc_refl|].
      destruct (par u); discriminate.
    - destruct (a =? u) eqn:E; [apply Z.eqb_eq in E; subst; intros; apply anc_refl|].
      destruct (par u) eqn:P; [|discriminate]. intros H. eapply anc_step; eauto.
  Qed.

  Lemma anc_b_complete a : forall h u, depth_le par h u -> anc a u -> anc_b par h a u = true.
  Proof.
    induction h as [|h IH]; intros u D A; simpl in *.
    - destruct (a =? u) eqn:E; [reflexivity|]. apply Z.eqb_neq in E.
      destruct (par u) eqn:P; [contradiction|]. apply (anc_root _ _ P) in A. congruence.
    - destruct (a =? u) eqn:E; [reflexivity|]. apply Z.eqb_neq in E.
      destruct (par u) eqn:P.
      + destruct (anc_up _ _ _ P A) as [-> | A']; [congruence|]. apply IH; assumption.
      + apply (anc_root _ _ P) in A. congruence.
  Qed.
End Abstract.
