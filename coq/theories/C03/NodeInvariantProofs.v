(* C03 — the genotype decoded for a requested node does not depend on which other nodes are
   requested, in which order, nor on the update path or array representation: two variants over
   the same forest/site/options that both request node u report the same genotype for u (at its
   respective positions) and the same alleles. *)
From Coq Require Import List ZArith Bool Lia.
From TskVerif Require Import Base.Common C03.Model C03.Spec C03.ArrayProofs C03.AlleleProofs
     C03.PaintProofs C03.DecodeProofs C03.TraverseProofs C03.RuleProofs.
Import ListNotations.
Open Scope Z_scope.

Lemma decode_node_invariant_l par N h : (forall u, depth_le par h u) ->
  forall s fuel1 t1 v1 fuel2 t2 v2 g1 al1 hm1 g2 al2 hm2,
  v_impute v1 = v_impute v2 -> v_user_alleles v1 = v_user_alleles v2 ->
  tree_rep par fuel1 t1 v1 N -> tree_rep par fuel2 t2 v2 N -> muts_in_range N s ->
  decode fuel1 t1 v1 s = Ok (g1, al1, hm1) -> decode fuel2 t2 v2 s = Ok (g2, al2, hm2) ->
  al1 = al2 /\
  forall k1 k2 u, get (v_samples v1) k1 = Ok u -> get (v_samples v2) k2 = Ok u ->
    get g1 k1 = get g2 k2.
Proof.
  intros HT s fuel1 t1 v1 fuel2 t2 v2 g1 al1 hm1 g2 al2 hm2 EI EU TR1 TR2 MR D1 D2.
  assert (EA : al1 = al2).
  { pose proof (decode_alleles _ _ _ _ _ _ _ _ D1) as X1.
    pose proof (decode_alleles _ _ _ _ _ _ _ _ D2) as X2. rewrite <- EU in X2.
    destruct (v_user_alleles v1); [destruct X1 as [-> _]; destruct X2 as [-> _]; reflexivity | congruence]. }
  subst al2. split; [reflexivity|].
  pose proof (decode_spec par fuel1 t1 v1 N (tree_rep_painted _ _ _ _ _ TR1)
                (proj1 (proj2 TR1)) (proj1 (proj2 (proj2 TR1))) s g1 al1 hm1
                (proj1 (proj2 (proj2 (proj2 TR1)))) MR D1) as (_ & _ & _ & _ & _ & NONE1 & LAST1 & _).
  pose proof (decode_spec par fuel2 t2 v2 N (tree_rep_painted _ _ _ _ _ TR2)
                (proj1 (proj2 TR2)) (proj1 (proj2 (proj2 TR2))) s g2 al1 hm2
                (proj1 (proj2 (proj2 (proj2 TR2)))) MR D2) as (_ & _ & _ & _ & _ & NONE2 & LAST2 & _).
  intros k1 k2 u Hu1 Hu2.
  destruct (last_painter_dec par h HT (s_mutations s) u) as [NP | (ms1 & n & d & ms2 & E & A & NL)].
  - destruct (NONE1 k1 u Hu1 NP) as (b1 & B1 & G1). destruct (NONE2 k2 u Hu2 NP) as (b2 & B2 & G2).
    assert (b1 = b2).
    { destruct b1, b2; try reflexivity.
      - symmetry. apply B2, B1. reflexivity.
      - apply B1, B2. reflexivity. }
    subst. rewrite G1, G2, EI. reflexivity.
  - rewrite (LAST1 k1 u _ _ _ _ Hu1 E A NL), (LAST2 k2 u _ _ _ _ Hu2 E A NL). reflexivity.
Qed.
