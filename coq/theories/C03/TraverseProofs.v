(* C03 — the two genotype-update paths overwrite exactly the samples below the mutation's
   node: tsk_variant_traverse (explicit stack) from the child chains, and
   tsk_variant_update_genotypes_sample_list from the sample lists. *)
From Coq Require Import List ZArith Bool Lia.
From TskVerif Require Import Base.Common C03.Model C03.Spec C03.ArrayProofs C03.PaintProofs
     C03.DecodeProofs.
Import ListNotations.
Open Scope Z_scope.

Section Traverse.
  Variable par : Z -> option Z.
  Variable t : tree.
  Variable N : Z.
  Variable cf : nat.
  Hypothesis PD : par_dom par N.
  Hypothesis KR : kids_rep par cf t N.

  Lemma kids_of u ks : 0 <= u < N -> children cf t u = Ok ks -> forall c, In c ks <-> par c = Some u.
  Proof. intros R H. destruct (KR u R) as (ks' & H' & _ & K). rewrite H in H'. inversion H'; subst. exact K. Qed.

  (* the nodes popped by the stack loop are exactly the descendants of the stack entries *)
  Lemma dfs_spec : forall fuel cap stack vis,
    (forall s, In s stack -> 0 <= s < N) ->
    dfs fuel cf t cap stack = Ok vis ->
    forall w, In w vis <-> exists s, In s stack /\ anc par s w.
  Proof.
    induction fuel as [|f IH]; intros cap stack vis R H w.
    - destruct stack; simpl in H; [|discriminate]. inversion H; subst. simpl.
      split; [contradiction | intros (s & [] & _)].
    - destruct stack as [|u rest]; simpl in H.
      + inversion H; subst. simpl. split; [contradiction | intros (s & [] & _)].
      + destruct (children cf t u) as [kids| | |] eqn:CH; try discriminate. cbn [bind] in H.
        destruct (cap <? zlen (rev kids ++ rest)); [discriminate|].
        destruct (dfs f cf t cap (rev kids ++ rest)) as [r| | |] eqn:D; try discriminate.
        cbn [bind] in H. inversion H; subst. clear H.
        assert (Ru : 0 <= u < N) by (apply R; left; reflexivity).
        pose proof (kids_of u kids Ru CH) as K.
        assert (R' : forall s, In s (rev kids ++ rest) -> 0 <= s < N).
        { intros s I. apply in_app_or in I as [I | I].
          - apply in_rev in I. apply K in I. apply (PD _ _ I).
          - apply R. right. assumption. }
        specialize (IH cap _ _ R' D w). simpl. rewrite IH. split.
        * intros [<- | (s & I & A)].
          -- exists u. split; [left; reflexivity | apply anc_refl].
          -- apply in_app_or in I as [I | I].
             ++ apply in_rev in I. apply K in I. exists u. split; [left; reflexivity|].
                eapply anc_child; eauto.
             ++ exists s. split; [right; assumption | assumption].
        * intros (s & [<- | I] & A).
          -- destruct (anc_inv_top par _ _ A) as [-> | (c & Hc & Ac)]; [left; reflexivity|].
             right. exists c. split; [|assumption]. apply in_or_app. left. apply in_rev.
             rewrite rev_involutive. apply K. assumption.
          -- right. exists s. split; [apply in_or_app; right; assumption | assumption].
  Qed.

  Lemma indexes_of_spec map : forall nodes idx, indexes_of map nodes = Ok idx ->
    forall k, In k idx <-> exists u, In u nodes /\ get map u = Ok k /\ k <> NULL.
  Proof.
    induction nodes as [|u rest IH]; intros idx H k; simpl in H.
    - inversion H; subst. simpl. split; [contradiction | intros (u & [] & _)].
    - destruct (get map u) as [si| | |] eqn:G; try discriminate. cbn [bind] in H.
      destruct (indexes_of map rest) as [r| | |] eqn:I; try discriminate. cbn [bind] in H.
      inversion H; subst. clear H. specialize (IH r eq_refl k).
      destruct (si =? NULL) eqn:E.
      + apply Z.eqb_eq in E. rewrite IH. split.
        * intros (x & Ix & Gx & Nx). exists x. split; [right; assumption | auto].
        * intros (x & [<- | Ix] & Gx & Nx); [congruence|]. exists x. auto.
      + apply Z.eqb_neq in E. simpl. rewrite IH. split.
        * intros [<- | (x & Ix & Gx & Nx)].
          -- exists u. split; [left; reflexivity | auto].
          -- exists x. split; [right; assumption | auto].
        * intros (x & [<- | Ix] & Gx & Nx).
          -- left. congruence.
          -- right. exists x. auto.
  Qed.
End Traverse.

(* both update paths satisfy the interface [painted_rep] used by the decode proofs *)
Lemma painted_rep_traversal par fuel t v N :
  v_by_traversal v = true ->
  par_dom par N -> kids_rep par fuel t N ->
  index_map_rep N (v_samples v) (v_index_map v) ->
  painted_rep par fuel t v N.
Proof.
  intros BT PD KR (IMlen & IM1 & IM2) n l Rn H k. unfold painted in H. rewrite BT in H.
  destruct (v_num_nodes v <? 1); [discriminate|].
  destruct (dfs fuel fuel t (v_num_nodes v) [n]) as [vis| | |] eqn:D; try discriminate. cbn [bind] in H.
  assert (R1 : forall s, In s [n] -> 0 <= s < N) by (intros s [<- | []]; exact Rn).
  pose proof (dfs_spec par t N fuel PD KR fuel _ _ _ R1 D) as V.
  rewrite (indexes_of_spec _ _ _ H k). unfold below. split.
  - intros (u & Iu & Gu & Nk). exists u. split; [apply IM1; assumption|].
    apply V in Iu as (s & [<- | []] & A). exact A.
  - intros (u & Gu & A). exists u. destruct (IM2 _ _ Gu) as [M Nk].
    split; [|auto]. apply V. exists n. split; [left; reflexivity | assumption].
Qed.

Lemma painted_rep_sample_list par fuel t v N :
  v_by_traversal v = false ->
  sample_lists_rep par fuel t N (v_samples v) ->
  painted_rep par fuel t v N.
Proof.
  intros BT SL n l Rn H k. unfold painted in H. rewrite BT in H.
  destruct (SL n Rn) as (l' & H' & M). rewrite H in H'. inversion H'; subst. apply M.
Qed.
