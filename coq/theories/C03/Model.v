(* C03 — executable model of /repo/c/tskit/genotypes.c (variant decoding).

   Modelled functions (line numbers of c/tskit/genotypes.c at the pinned commit):
     variant_init_samples_and_index_map   90-132   -> [init_index_map]
     tsk_variant_init                     134-241  -> [variant_init]  (allocation failures and the
                                                     INT32_MAX allele limit are not modelled)
     tsk_variant_update_genotypes_sample_list 323-351 -> [sample_chain] + [paint]
     tsk_variant_traverse / _visit / _update_genotypes_traversal 361-417 -> [dfs] + [visit_all]
     tsk_variant_mark_missing             419-440  -> [mark_missing]
     tsk_variant_get_allele_index         442-456  -> [allele_index]
     tsk_variant_decode                   458-575  -> [decode_st] / [decode]
   The tree is the part of tsk_tree_t these functions read, *at the site's position*:
   left_child / right_sib (N+1 entries, entry N = virtual root), left_sample / right_sample
   (N entries), next_sample (one entry per sample of the tree sequence).  How the tree gets
   there (tsk_tree_seek) is property C06; that the arrays represent the edge-defined forest is
   C01.  Here both are hypotheses ([TreeRep] in C03/Spec.v) which the correspondence check
   evaluates on the arrays of the real tree for every case.

   Arrays are lists with checked access ([get]/[set] of Base.Common): reading or writing
   outside an array is the visible outcome [OOB], never a default value.  C loops that only
   *read* the tree arrays while writing the genotypes array are written as "walk the linked
   list into a list of visited entries, then fold the loop body over it" — the body never
   writes left_child/right_sib/next_sample, so this is the same loop. *)
From Coq Require Import List ZArith Bool Lia.
From TskVerif Require Import Base.Common.
Import ListNotations.
Open Scope Z_scope.

Definition NULL : Z := -1.              (* TSK_NULL *)
Definition MISSING : Z := -1.           (* TSK_MISSING_DATA, core.h:192 *)
Definition ERR_NODE_OUT_OF_BOUNDS : Z := -202.
Definition ERR_DUPLICATE_SAMPLE : Z := -600.
Definition ERR_MUST_IMPUTE_NON_SAMPLES : Z := -1100.
Definition ERR_ALLELE_NOT_FOUND : Z := -1101.
Definition ERR_ZERO_ALLELES : Z := -1103.

Definition allele := list Z.            (* bytes; compared by length + memcmp *)
Definition allele_eqb (a b : allele) : bool := list_eqb Z.eqb a b.

Record tree := mkTree {
  left_child : list Z;
  right_sib : list Z;
  left_sample : list Z;
  right_sample : list Z;
  next_sample : list Z;
  virtual_root : Z }.

(* The immutable configuration of a tsk_variant_t after tsk_variant_init. *)
Record variant := mkVariant {
  v_num_nodes : Z;                       (* capacity of traversal_stack *)
  v_samples : list Z;                    (* self->samples, num_samples = length *)
  v_index_map : list Z;                  (* self->sample_index_map, N entries *)
  v_by_traversal : bool;                 (* self->alt_samples != NULL *)
  v_impute : bool;                       (* options & TSK_ISOLATED_NOT_MISSING *)
  v_user_alleles : option (list allele) }.

Record site := mkSite {
  s_ancestral : allele;
  s_mutations : list (Z * allele) }.     (* (node, derived_state) in table order *)

(* ---- tsk_variant_init ------------------------------------------------------------- *)

(* variant_init_samples_and_index_map, lines 112-129: the reverse map, with the three
   checks in the order of the C loop. *)
Fixpoint init_index_map (flags : list Z) (impute : bool) (samples : list Z) (j : Z)
         (map : list Z) : res (list Z) :=
  match samples with
  | [] => Ok map
  | u :: rest =>
      if (u <? 0) || (zlen map <=? u) then Err ERR_NODE_OUT_OF_BOUNDS else
      do cur <- get map u;
      if negb (cur =? NULL) then Err ERR_DUPLICATE_SAMPLE else
      do fl <- get flags u;
      if negb impute && negb (Z.odd fl) then Err ERR_MUST_IMPUTE_NON_SAMPLES else
      do map' <- set map u j;
      init_index_map flags impute rest (j + 1) map'
  end.

(* tsk_variant_init: [flags] = node flags column, [ts_samples]/[ts_index_map] = the tree
   sequence's sample list and its reverse map; [samples = None] means samples == NULL. *)
Definition variant_init (flags ts_samples ts_index_map : list Z) (samples : option (list Z))
           (alleles : option (list allele)) (impute : bool) : res variant :=
  let n := zlen flags in
  do _ua <- (match alleles with
             | Some [] => Err ERR_ZERO_ALLELES
             | _ => Ok tt end);
  match samples with
  | None => Ok (mkVariant n ts_samples ts_index_map false impute alleles)
  | Some ss =>
      do map <- init_index_map flags impute ss 0 (repeat NULL (length flags));
      Ok (mkVariant n ss map true impute alleles)
  end.

(* ---- linked lists in the tree arrays ------------------------------------------------ *)

(* for (v = first; v != TSK_NULL; v = next[v]) : the entries visited *)
Fixpoint chain (fuel : nat) (next : list Z) (v : Z) : res (list Z) :=
  if v =? NULL then Ok [] else
  match fuel with
  | O => Fuel
  | S f => do n <- get next v; do r <- chain f next n; Ok (v :: r)
  end.

Definition children (fuel : nat) (t : tree) (u : Z) : res (list Z) :=
  do lc <- get (left_child t) u; chain fuel (right_sib t) lc.

(* lines 336-348: index = list_left[node]; while (true) { ...; if (index == stop) break;
   index = list_next[index]; } : the sample indexes visited *)
Fixpoint sample_walk (fuel : nat) (next : list Z) (stop index : Z) : res (list Z) :=
  match fuel with
  | O => Fuel
  | S f =>
      if index =? stop then Ok [index] else
      do n <- get next index; do r <- sample_walk f next stop n; Ok (index :: r)
  end.

Definition sample_chain (fuel : nat) (t : tree) (node : Z) : res (list Z) :=
  do index <- get (left_sample t) node;
  if index =? NULL then Ok [] else
  do stop <- get (right_sample t) node;
  sample_walk fuel (next_sample t) stop index.

(* ---- writing genotypes ---------------------------------------------------------------- *)

(* lines 341-342 and 406-407:  ret += genotypes[i] == TSK_MISSING_DATA; genotypes[i] = derived
   for every i of the list, in order; returns (genotypes, number of missing overwritten) *)
Fixpoint paint (idx : list Z) (derived : Z) (genos : list Z) (nlm : Z) : res (list Z * Z) :=
  match idx with
  | [] => Ok (genos, nlm)
  | i :: rest =>
      do g <- get genos i;
      do genos' <- set genos i derived;
      paint rest derived genos' (nlm + (if g =? MISSING then 1 else 0))
  end.

Definition update_sample_list (fuel : nat) (t : tree) (node derived : Z) (genos : list Z)
  : res (list Z * Z) :=
  do idx <- sample_chain fuel t node; paint idx derived genos 0.

(* tsk_variant_traverse, lines 374-391: explicit stack (head of the list = stack top; the
   array has v_num_nodes entries, a push beyond it is OOB).  Returns the nodes popped, in
   order. *)
Fixpoint dfs (fuel cfuel : nat) (t : tree) (cap : Z) (stack : list Z) : res (list Z) :=
  match stack with
  | [] => Ok []
  | u :: rest =>
      match fuel with
      | O => Fuel
      | S f =>
          do kids <- children cfuel t u;
          let stack' := rev kids ++ rest in
          if cap <? zlen stack' then OOB else
          do r <- dfs f cfuel t cap stack'; Ok (u :: r)
      end
  end.

(* lines 378-385: sample_index = sample_index_map[u]; if != NULL visit *)
Fixpoint indexes_of (map : list Z) (nodes : list Z) : res (list Z) :=
  match nodes with
  | [] => Ok []
  | u :: rest =>
      do si <- get map u; do r <- indexes_of map rest;
      Ok (if si =? NULL then r else si :: r)
  end.

Definition update_traversal (fuel : nat) (t : tree) (v : variant) (node derived : Z)
           (genos : list Z) : res (list Z * Z) :=
  if v_num_nodes v <? 1 then OOB else           (* stack[0] = node *)
  do visited <- dfs fuel fuel t (v_num_nodes v) [node];
  do idx <- indexes_of (v_index_map v) visited;
  paint idx derived genos 0.

Definition update_genotypes (fuel : nat) (t : tree) (v : variant) (node derived : Z)
           (genos : list Z) : res (list Z * Z) :=
  if v_by_traversal v then update_traversal fuel t v node derived genos
  else update_sample_list fuel t node derived genos.

(* tsk_variant_mark_missing, lines 430-438 *)
Fixpoint mark_roots (t : tree) (map : list Z) (roots : list Z) (genos : list Z) (nm : Z)
  : res (list Z * Z) :=
  match roots with
  | [] => Ok (genos, nm)
  | root :: rest =>
      do lc <- get (left_child t) root;
      if lc =? NULL then
        do si <- get map root;
        if negb (si =? NULL) then
          do genos' <- set genos si MISSING;
          mark_roots t map rest genos' (nm + 1)
        else mark_roots t map rest genos nm
      else mark_roots t map rest genos nm
  end.

Definition mark_missing (fuel : nat) (t : tree) (map : list Z) (genos : list Z)
  : res (list Z * Z) :=
  do roots <- children fuel t (virtual_root t);
  mark_roots t map roots genos 0.

(* ---- alleles ------------------------------------------------------------------------------ *)

(* tsk_variant_get_allele_index: first j with equal length and bytes, else -1 *)
Fixpoint allele_index_from (j : Z) (alleles : list allele) (a : allele) : Z :=
  match alleles with
  | [] => -1
  | x :: r => if allele_eqb a x then j else allele_index_from (j + 1) r a
  end.
Definition allele_index := allele_index_from 0.

(* ---- tsk_variant_decode ------------------------------------------------------------------- *)

(* The mutable part of tsk_variant_t that survives from one decode to the next. *)
Record vstate := mkState {
  st_genotypes : list Z;                 (* num_samples entries, never resized *)
  st_alleles : list allele;              (* alleles[0..num_alleles) *)
  st_has_missing : bool }.

Definition decode_result := (list Z * list allele * bool)%type.

(* lines 541-571, one mutation *)
Definition decode_mutation (fuel : nat) (t : tree) (v : variant)
           (acc : list Z * list allele * Z) (m : Z * allele) : res (list Z * list allele * Z) :=
  let '(genos, alleles, nm) := acc in
  let '(node, derived) := m in
  let i := allele_index alleles derived in
  do '(alleles', i') <-
     (if i =? -1 then
        match v_user_alleles v with
        | Some _ => Err ERR_ALLELE_NOT_FOUND
        | None => Ok (alleles ++ [derived], zlen alleles)
        end
      else Ok (alleles, i));
  do '(genos', nlm) <- update_genotypes fuel t v node i' genos;
  Ok (genos', alleles', nm - nlm).

Fixpoint decode_mutations (fuel : nat) (t : tree) (v : variant)
         (acc : list Z * list allele * Z) (ms : list (Z * allele))
  : res (list Z * list allele * Z) :=
  match ms with
  | [] => Ok acc
  | m :: rest => do acc' <- decode_mutation fuel t v acc m; decode_mutations fuel t v acc' rest
  end.

(* tsk_variant_decode lines 507-572 on the tree already positioned at the site.  [st] is the
   state left behind by whatever happened before (previous decodes, failed decodes).
   num_missing is a tsk_size_t that is only compared with 0: has_missing_data = (nm != 0)
   (|nm| stays far below 2^64, so the wrapped value is 0 iff nm = 0). *)
Definition decode_st (fuel : nat) (t : tree) (v : variant) (st : vstate) (s : site)
  : res decode_result :=
  do '(alleles, aidx) <-
     (match v_user_alleles v with
      | Some ua =>
          let i := allele_index ua (s_ancestral s) in
          if i =? -1 then Err ERR_ALLELE_NOT_FOUND else Ok (ua, i)
      | None => Ok ([s_ancestral s], 0)
      end);
  let genos := map (fun _ => aidx) (st_genotypes st) in     (* lines 531-533 *)
  do '(genos1, nm) <-
     (if v_impute v then Ok (genos, 0) else mark_missing fuel t (v_index_map v) genos);
  do '(genos2, alleles2, nm2) <- decode_mutations fuel t v (genos1, alleles, nm) (s_mutations s);
  Ok (genos2, alleles2, negb (nm2 =? 0)).

(* a freshly initialised variant: genotypes allocated (contents irrelevant), no alleles *)
Definition fresh_state (v : variant) : vstate :=
  mkState (map (fun _ => 0) (v_samples v)) [] false.

Definition decode (fuel : nat) (t : tree) (v : variant) (s : site) : res decode_result :=
  decode_st fuel t v (fresh_state v) s.

(* the fuel every caller uses: more than the number of entries of any of the arrays *)
Definition default_fuel (t : tree) : nat := S (S (length (left_child t))).

(* ---- comparison helpers for the correspondence checks ---------------------------------- *)
Definition alleles_eqb := list_eqb allele_eqb.
Definition result_eqb (a b : decode_result) : bool :=
  let '(g1, a1, h1) := a in let '(g2, a2, h2) := b in
  zlist_eqb g1 g2 && alleles_eqb a1 a2 && Bool.eqb h1 h2.

Definition res_eqb {A} (eqb : A -> A -> bool) (a b : res A) : bool :=
  match a, b with
  | Ok x, Ok y => eqb x y
  | Err c, Err d => c =? d
  | _, _ => false
  end.

Definition variant_eqb_cfg (a b : variant) : bool :=
  (v_num_nodes a =? v_num_nodes b) && zlist_eqb (v_samples a) (v_samples b)
  && zlist_eqb (v_index_map a) (v_index_map b)
  && Bool.eqb (v_by_traversal a) (v_by_traversal b) && Bool.eqb (v_impute a) (v_impute b).
