(* C03 — list-level model of the Python assembly code in python/tskit/trees.py
   (TreeSequence._check_genomic_range 5201-5220, variants 5453-5488 (site selection),
   _haplotypes_array 5222-5276, haplotypes 5365-5373, alignments 5674-5727) on top of the
   per-site decode results.  Python exceptions are error codes. *)
From Coq Require Import List ZArith Bool Lia.
From TskVerif Require Import Base.Common C03.Model.
Import ListNotations.
Open Scope Z_scope.

Definition PY_VALUE_ERROR : Z := 1.
Definition PY_TYPE_ERROR : Z := 2.

(* np.searchsorted(xs, x) (side="left") on a sorted array: the number of entries < x *)
Definition count_lt (xs : list Z) (x : Z) : Z := zlen (filter (fun p => p <? x) xs).

(* _check_genomic_range (coordinates on an integer lattice chosen by the caller) *)
Definition check_range (L left right : Z) : res (Z * Z) :=
  if (left <? 0) || (L <=? left) then Err PY_VALUE_ERROR else
  if (right <=? 0) || (L <? right) then Err PY_VALUE_ERROR else
  if right <=? left then Err PY_VALUE_ERROR else Ok (left, right).

(* variants(): start, stop = np.searchsorted(sites_position, interval); range(start, stop) *)
Definition sites_in (positions : list Z) (left right : Z) : list Z :=
  let start := count_lt positions left in
  let stop := count_lt positions right in
  map (fun i => start + Z.of_nat i) (seq 0 (Z.to_nat (stop - start))).

(* Variant.alleles as Python sees it (make_alleles in _tskitmodule.c): None appended iff
   has_missing_data *)
Definition py_alleles (r : decode_result) : list (option allele) :=
  let '(_, al, hm) := r in map Some al ++ (if hm then [None] else []).

(* numpy indexing with a possibly negative index *)
Definition py_getitem {A} (l : list A) (i : Z) : res A :=
  if i <? 0 then get l (zlen l + i) else get l i.

(* _haplotypes_array lines 5249-5274: one int8 code per entry of var.alleles *)
Definition allele_code (mdc : Z) (a : option allele) : res Z :=
  match a with
  | None => Ok mdc
  | Some [c] => if c =? mdc then Err PY_VALUE_ERROR else Ok c
  | Some _ => Err PY_TYPE_ERROR
  end.

Fixpoint mapM {A B} (f : A -> res B) (l : list A) : res (list B) :=
  match l with
  | [] => Ok []
  | x :: r => do y <- f x; do ys <- mapM f r; Ok (y :: ys)
  end.

(* line 5275: H[:, j] = alleles[var.genotypes] *)
Definition hap_column (mdc : Z) (r : decode_result) : res (list Z) :=
  do codes <- mapM (allele_code mdc) (py_alleles r);
  let '(g, _, _) := r in mapM (py_getitem codes) g.

(* haplotypes(): the rows of H, one per requested node *)
Definition haplotypes_model (mdc : Z) (nsamples : Z) (rs : list decode_result)
  : res (list (list Z)) :=
  do cols <- mapM (hap_column mdc) rs;
  mapM (fun k => mapM (fun col => get col k) cols) (map Z.of_nat (seq 0 (Z.to_nat nsamples))).

(* alignments() lines 5725-5727: the buffer [a] is shared by all rows:
   for h in H: a[site_pos - left] = h; yield a *)
Fixpoint overwrite (a : list Z) (left : Z) (pos : list Z) (h : list Z) : res (list Z) :=
  match pos, h with
  | p :: pos', c :: h' => do a' <- set a (p - left) c; overwrite a' left pos' h'
  | [], [] => Ok a
  | _, _ => OOB
  end.

Fixpoint alignments_loop (a : list Z) (left : Z) (pos : list Z) (rows : list (list Z))
  : res (list (list Z)) :=
  match rows with
  | [] => Ok []
  | h :: rest =>
      do a' <- overwrite a left pos h;
      do out <- alignments_loop a' left pos rest;
      Ok (a' :: out)
  end.

Definition alignments_model (ref : list Z) (left right : Z) (pos : list Z) (rows : list (list Z))
  : res (list (list Z)) :=
  if negb (zlen ref =? right - left) then Err PY_VALUE_ERROR else
  alignments_loop ref left pos rows.

Definition zll_eqb := list_eqb zlist_eqb.

(* ---- Variant.counts() (python/tskit/genotypes.py 277-297) -------------------------------------
   a collections.Counter, counts[None] assigned first when there is missing data, then
       for i, allele in enumerate(alleles): counts[allele] += (number of genotypes == i)
   (repaired code, /repo commit 8615230: "+=" — a missing key of a Counter reads as 0, so
   duplicated alleles accumulate).  The pinned code assigned with "=", so a later duplicate
   overwrote the value: [counts_model_pinned], kept as a historical record only. *)
Definition okey_eqb (a b : option allele) : bool := opt_eqb allele_eqb a b.

(* counts[k] += x *)
Fixpoint dict_add (d : list (option allele * Z)) (k : option allele) (x : Z)
  : list (option allele * Z) :=
  match d with
  | [] => [(k, x)]
  | (k', y) :: r => if okey_eqb k k' then (k', y + x) :: r else (k', y) :: dict_add r k x
  end.

(* counts[k] = x  (pinned code) *)
Fixpoint dict_set (d : list (option allele * Z)) (k : option allele) (x : Z)
  : list (option allele * Z) :=
  match d with
  | [] => [(k, x)]
  | (k', y) :: r => if okey_eqb k k' then (k', x) :: r else (k', y) :: dict_set r k x
  end.

Definition count_eq (g : list Z) (i : Z) : Z := zlen (filter (Z.eqb i) g).

Fixpoint counts_loop (upd : list (option allele * Z) -> option allele -> Z -> list (option allele * Z))
         (g : list Z) (i : Z) (al : list allele) (d : list (option allele * Z))
  : list (option allele * Z) :=
  match al with
  | [] => d
  | a :: r => counts_loop upd g (i + 1) r (upd d (Some a) (count_eq g i))
  end.

Definition counts_with upd (r : decode_result) : list (option allele * Z) :=
  let '(g, al, hm) := r in
  counts_loop upd g 0 al (if hm then [(None, count_eq g MISSING)] else []).

Definition counts_model := counts_with dict_add.            (* current /repo *)
Definition counts_model_pinned := counts_with dict_set.     (* before commit 8615230 *)

Fixpoint dict_get (d : list (option allele * Z)) (k : option allele) : option Z :=
  match d with
  | [] => None
  | (k', y) :: r => if okey_eqb k k' then Some y else dict_get r k
  end.

(* what counts() is documented to return: the number of samples possessing the allele *)
Definition carriers (r : decode_result) (a : allele) : Z :=
  let '(g, al, _) := r in
  zlen (filter (fun x => match get al x with Ok a' => allele_eqb a a' | _ => false end) g).

Definition counts_eqb (a b : list (option allele * Z)) : bool :=
  list_eqb (fun x y => okey_eqb (fst x) (fst y) && (snd x =? snd y)) a b.

(* ---- Variant.states(missing_data_string) (genotypes.py 248-275) --------------------------- *)
Definition states_model (mds : allele) (r : decode_result) : res (list allele) :=
  let '(g, al, hm) := r in
  if hm then
    if existsb (allele_eqb mds) al then Err PY_VALUE_ERROR      (* "in alleles" *)
    else mapM (py_getitem (al ++ [mds])) g                      (* alleles[:-1] + (mds,) *)
  else mapM (py_getitem al) g.

(* Variant.num_alleles = len(alleles) - has_missing_data ; num_missing = sum(genotypes == -1) *)
Definition num_alleles_model (r : decode_result) : Z :=
  let '(_, al, hm) := r in zlen (py_alleles r) - (if hm then 1 else 0).
Definition num_missing_model (r : decode_result) : Z :=
  let '(g, _, _) := r in count_eq g MISSING.

(* ---- TreeSequence.genotype_matrix (trees.py 5552-5566): one Variant, decode(site) for every
   site in order, row = genotypes; the first failing decode aborts with its error --------------- *)
Definition genotype_matrix_model (fuel : nat) (v : variant) (sites : list (tree * site))
  : res (list (list Z)) :=
  mapM (fun p => do r <- decode fuel (fst p) v (snd p); Ok (fst (fst r))) sites.

(* ---- TreeSequence.alignments, complete (trees.py 5667-5727) ----------------------------------
   Coordinates are given doubled (so that half-integers are representable): an integer
   coordinate is an even number. *)
Definition PY_LIBRARY_ERROR : Z := 3.

Record align_in := mkAlignIn {
  ai_discrete : bool;                      (* ts.discrete_genome *)
  ai_L2 : Z; ai_left2 : Z; ai_right2 : Z;  (* sequence length and interval, doubled *)
  ai_ref : option (list Z);                (* reference_sequence argument *)
  ai_embedded : option (list Z);           (* ts.reference_sequence.data if has_reference_sequence *)
  ai_mdc : Z;                              (* missing_data_character (default 'N') *)
  ai_isolated : bool;                      (* some tree has an isolated sample *)
  ai_init_error : bool;                    (* Variant(samples, isolated_as_missing=True) fails *)
  ai_nsamples : Z;
  ai_pos : list Z;                         (* integer positions of the sites in the interval *)
  ai_results : list decode_result }.       (* per-site decode results in the interval *)

Definition alignments_full (a : align_in) : res (list (list Z)) :=
  if negb (ai_discrete a) then Err PY_VALUE_ERROR else
  do _iv <- check_range (ai_L2 a) (ai_left2 a) (ai_right2 a);
  if negb (Z.even (ai_left2 a) && Z.even (ai_right2 a)) then Err PY_VALUE_ERROR else
  let left := ai_left2 a / 2 in let right := ai_right2 a / 2 in
  let L := right - left in
  let ref := match ai_ref a with
             | Some r => r
             | None => match ai_embedded a with
                       | Some d => firstn (Z.to_nat L) (skipn (Z.to_nat left) d)   (* data[left:right] *)
                       | None => repeat (ai_mdc a) (Z.to_nat L)
                       end
             end in
  if negb (zlen ref =? L) then Err PY_VALUE_ERROR else
  if ai_isolated a then Err PY_VALUE_ERROR else
  if ai_init_error a then Err PY_LIBRARY_ERROR else
  do rows <- haplotypes_model (ai_mdc a) (ai_nsamples a) (ai_results a);
  alignments_loop ref left (ai_pos a) rows.

Definition alleles_list_eqb := list_eqb allele_eqb.

(* ---- Variant.frequencies(remove_missing) (genotypes.py 299-330), over Q ------------------------
   total = len(samples) (- num_missing if remove_missing); every item of counts() except the
   None key when remove_missing; value count/total, or nan ([None]) when total = 0. *)
From Coq Require Import QArith.
Definition is_none_key (k : option allele) : bool := match k with None => true | Some _ => false end.

Definition frequencies_model (remove_missing : bool) (r : decode_result)
  : list (option allele * option Q) :=
  let '(g, al, hm) := r in
  let total := (zlen g - (if remove_missing then num_missing_model r else 0))%Z in
  map (fun kc => (fst kc, if (0 <? total)%Z then Some (snd kc # Z.to_pos total) else None))
      (filter (fun kc => negb (remove_missing && is_none_key (fst kc))) (counts_model r)).

Fixpoint fget {A} (d : list (option allele * A)) (k : option allele) : option A :=
  match d with
  | [] => None
  | (k', y) :: r => if okey_eqb k k' then Some y else fget r k
  end.

Definition oq_eqb (a b : option Q) : bool :=
  match a, b with Some x, Some y => Qeq_bool x y | None, None => true | _, _ => false end.
Definition freqs_eqb (a b : list (option allele * option Q)) : bool :=
  list_eqb (fun x y => okey_eqb (fst x) (fst y) && oq_eqb (snd x) (snd y)) a b.

(* ---- Variant.copy() = tsk_variant_restricted_copy (genotypes.c 577-628): every observable is
   copied, tree_sequence is set to NULL, and decode on the copy is refused (472-475) ---------- *)
Definition ERR_VARIANT_CANT_DECODE_COPY : Z := -808.
Record variant_copy := mkCopy {
  c_samples : list Z; c_genotypes : list Z; c_alleles : list allele; c_has_missing : bool }.
Definition restricted_copy (v : variant) (r : decode_result) : variant_copy :=
  let '(g, al, hm) := r in mkCopy (v_samples v) g al hm.
Definition decode_copy (c : variant_copy) (s : site) : res decode_result :=
  Err ERR_VARIANT_CANT_DECODE_COPY.
