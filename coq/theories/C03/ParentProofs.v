(* C03 — correctly parented mutations (the parents compute_mutation_parents produces, all
   preceding their children) are listed in an order that satisfies [order_ok]. *)
From Coq Require Import List ZArith Bool Lia.
From TskVerif Require Import Base.Common C03.Model C03.Spec C03.PaintProofs C03.MutParents.
Import ListNotations.
Open Scope Z_scope.

Lemma last_idx_from_spec nodes u : forall i,
  match last_idx_from i nodes u with
  | Some l => (i <= l)%nat /\ nth_error nodes (l - i) = Some u /\
              forall k, nth_error nodes k = Some u -> (i + k <= l)%nat
  | None => ~ In u nodes
  end.
Proof.
  induction nodes as [|x r IH]; intros i; simpl; [tauto|].
  specialize (IH (S i)). destruct (last_idx_from (S i) r u) as [l|].
  - destruct IH as (L & N & M). split; [lia|]. split.
    + replace (l - i)%nat with (S (l - S i)) by lia. exact N.
    + intros [|k] Hk; [lia|]. simpl in Hk. specialize (M k Hk). lia.
  - destruct (x =? u) eqn:E.
    + apply Z.eqb_eq in E. subst. split; [lia|]. split; [replace (i - i)%nat with O by lia; reflexivity|].
      intros [|k] Hk; [lia|]. simpl in Hk. exfalso. apply IH. eapply nth_error_In; eauto.
    + apply Z.eqb_neq in E. intros [X | X]; [congruence | contradiction].
Qed.

Lemma last_idx_some nodes u l : last_idx nodes u = Some l ->
  nth_error nodes l = Some u /\ forall k, nth_error nodes k = Some u -> (k <= l)%nat.
Proof.
  unfold last_idx. intros H. pose proof (last_idx_from_spec nodes u 0) as S. rewrite H in S.
  destruct S as (_ & N & M). replace (l - 0)%nat with l in N by lia. split; [assumption|].
  intros k Hk. specialize (M k Hk). lia.
Qed.

Lemma last_idx_none nodes u : last_idx nodes u = None <-> ~ In u nodes.
Proof.
  unfold last_idx. pose proof (last_idx_from_spec nodes u 0) as S.
  destruct (last_idx_from 0 nodes u) as [l|].
  - destruct S as (_ & N & _). split; [discriminate|]. intros X. exfalso. apply X. eapply nth_error_In; eauto.
  - tauto.
Qed.

Lemma last_idx_in nodes u : In u nodes -> exists l, last_idx nodes u = Some l.
Proof.
  intros I. destruct (last_idx nodes u) as [l|] eqn:E; [eauto|]. apply last_idx_none in E. contradiction.
Qed.

Lemma nth_error_firstn_inv {A} (l : list A) : forall j k x,
  nth_error (firstn j l) k = Some x -> (k < j)%nat /\ nth_error l k = Some x.
Proof.
  induction l as [|y l IH]; intros [|j] [|k] x H; simpl in *; try discriminate.
  - split; [lia | assumption].
  - destruct (IH _ _ _ H). split; [lia | assumption].
Qed.

(* first occurrence *)
Lemma in_first_occurrence (l : list Z) x : In x l ->
  exists f, nth_error l f = Some x /\ forall k, (k < f)%nat -> nth_error l k <> Some x.
Proof.
  induction l as [|y l IH]; intros I; [contradiction|].
  destruct (Z.eq_dec y x) as [-> | NE].
  - exists O. split; [reflexivity | intros; lia].
  - destruct I as [E | I]; [contradiction|]. destruct (IH I) as (f & N & M).
    exists (S f). split; [assumption|]. intros [|k] Hk; simpl; [congruence | apply M; lia].
Qed.

Lemma prev_idx_first nodes f u :
  (forall k, (k < f)%nat -> nth_error nodes k <> Some u) -> prev_idx nodes f u = None.
Proof.
  intros M. unfold prev_idx. apply last_idx_none. intros I.
  apply In_nth_error in I as [k Hk]. apply nth_error_firstn_inv in Hk as [Lt Hk]. eapply M; eauto.
Qed.

Section Parents.
  Variable par : Z -> option Z.
  Variable fuel : nat.
  Variable nodes : list Z.

  (* every mutation's computed parent exists (no fuel exhaustion) and precedes it *)
  Definition parents_precede : Prop :=
    forall j u, nth_error nodes j = Some u ->
      exists p, mut_parent par fuel nodes j = Some p /\ forall i, p = Some i -> (i < j)%nat.

  Hypothesis PP : parents_precede.

  (* walking up from p finds something below [bound]  ==>  every mutated ancestor-or-self a of
     p has all its mutations below [bound] *)
  Lemma up_mut_bounds a p : anc par a p -> In a nodes ->
    forall fl bound r, up_mut par fl nodes p = Some r -> (forall i, r = Some i -> (i < bound)%nat) ->
    exists l, last_idx nodes a = Some l /\ (l < bound)%nat.
  Proof.
    intros A. induction A as [|p q Pq A IH]; intros Ia fl bound r U B.
    - destruct (last_idx_in _ _ Ia) as [l L]. exists l. split; [assumption|].
      destruct fl; simpl in U; rewrite L in U; inversion U; subst; apply B; reflexivity.
    - destruct (last_idx nodes p) as [lp|] eqn:Lp.
      + (* p carries mutations: use the parent of its first one *)
        assert (r = Some lp) by (destruct fl; simpl in U; rewrite Lp in U; inversion U; reflexivity).
        subst r. specialize (B lp eq_refl).
        destruct (last_idx_some _ _ _ Lp) as [Np Mp].
        destruct (in_first_occurrence nodes p (nth_error_In _ _ Np)) as (f & Nf & Mf).
        destruct (PP f p Nf) as (pf & MPf & Bf).
        unfold mut_parent in MPf. rewrite Nf, (prev_idx_first _ _ _ Mf), Pq in MPf.
        destruct (IH Ia fuel f pf MPf Bf) as (l & L & Lt).
        exists l. split; [assumption|]. specialize (Mp f Nf). lia.
      + destruct fl as [|fl]; simpl in U; rewrite Lp, Pq in U; [discriminate|].
        eapply IH; eauto.
  Qed.
End Parents.

(* the mutation.parent-column form of the order hypothesis *)
Theorem parents_imply_order_ok_l par fuel (muts : list (Z * allele)) :
  parents_precede par fuel (map fst muts) -> order_ok par muts.
Proof.
  intros PP ms1 ni di ms2 nj dj E I A.
  destruct (Z.eq_dec nj ni) as [EQ | NE]; [assumption|]. exfalso.
  set (nodes := map fst muts) in *.
  assert (Ni : nth_error nodes (length ms1) = Some ni).
  { unfold nodes. rewrite E, map_app, nth_error_app2 by (rewrite map_length; lia).
    rewrite map_length, Nat.sub_diag. reflexivity. }
  (* nj occurs after position |ms1| *)
  apply In_nth_error in I as [k Hk].
  assert (Nj : nth_error nodes (S (length ms1 + k)) = Some nj).
  { unfold nodes. rewrite E, map_app, nth_error_app2 by (rewrite map_length; lia).
    rewrite map_length. replace (S (length ms1 + k) - length ms1)%nat with (S k) by lia.
    simpl. rewrite nth_error_map, Hk. reflexivity. }
  (* first mutation on ni and its parent *)
  destruct (in_first_occurrence nodes ni (nth_error_In _ _ Ni)) as (f & Nf & Mf).
  assert (Ff : (f <= length ms1)%nat).
  { destruct (Nat.le_gt_cases f (length ms1)); [assumption|]. exfalso. eapply Mf; eauto. }
  inversion A as [|? q Pq Aq]; subst; [contradiction|].
  destruct (PP f ni Nf) as (pf & MPf & Bf).
  unfold mut_parent in MPf. rewrite Nf, (prev_idx_first _ _ _ Mf), Pq in MPf.
  destruct (up_mut_bounds par fuel nodes PP nj q Aq (nth_error_In _ _ Nj) fuel f pf MPf Bf) as (l & L & Lt).
  destruct (last_idx_some _ _ _ L) as [_ M]. specialize (M _ Nj). lia.
Qed.

(* the boolean check evaluated on every correspondence case is sound *)
Lemma mut_parents_list_spec par fuel nodes : forall js ps,
  mut_parents_list par fuel nodes js = Some ps ->
  forall idx j, nth_error js idx = Some j ->
    exists p, mut_parent par fuel nodes j = Some p /\ nth_error (combine js ps) idx = Some (j, enc p).
Proof.
  induction js as [|j0 r IH]; intros ps H idx j N.
  - destruct idx; discriminate.
  - simpl in H. destruct (mut_parent par fuel nodes j0) as [p0|] eqn:M; [|discriminate].
    destruct (mut_parents_list par fuel nodes r) as [ps'|] eqn:G; [|discriminate].
    inversion H; subst. destruct idx as [|idx]; simpl in N.
    + inversion N; subst. exists p0. split; [assumption | reflexivity].
    + destruct (IH ps' eq_refl idx j N) as (p & Mp & C). exists p. split; [assumption | exact C].
Qed.

Lemma parents_ok_b_sound par fuel nodes column :
  parents_ok_b par fuel nodes column = true -> parents_precede par fuel nodes.
Proof.
  unfold parents_ok_b, mut_parents.
  destruct (mut_parents_list par fuel nodes (seq 0 (length nodes))) as [ps|] eqn:G; [|discriminate].
  intros H. apply andb_true_iff in H as [_ H]. rewrite forallb_forall in H.
  intros j u Nu.
  assert (Lt : (j < length nodes)%nat) by (apply nth_error_Some; congruence).
  assert (Ns : nth_error (seq 0 (length nodes)) j = Some j).
  { rewrite nth_error_nth' with (d := O) by (rewrite seq_length; assumption). rewrite seq_nth by assumption. reflexivity. }
  destruct (mut_parents_list_spec par fuel nodes _ _ G j j Ns) as (p & Mp & C).
  exists p. split; [assumption|]. intros i ->. specialize (H _ (nth_error_In _ _ C)). simpl in H. lia.
Qed.
