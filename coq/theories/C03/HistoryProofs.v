(* C03 — decode does not depend on what the variant object did before. *)
From Coq Require Import List ZArith Bool Lia.
From TskVerif Require Import Base.Common C03.Model.
Import ListNotations.
Open Scope Z_scope.

Lemma map_const_length {A B} (c : B) (l1 l2 : list A) :
  length l1 = length l2 -> map (fun _ => c) l1 = map (fun _ => c) l2.
Proof.
  revert l2; induction l1 as [|x l1 IH]; intros [|y l2] H; simpl in *; try discriminate; auto.
  f_equal. apply IH. lia.
Qed.

(* Whatever state earlier decodes (successful or failed) left in the variant — any genotypes
   array of the allocated size, any alleles, any has_missing flag — the next decode returns
   what a fresh variant returns. *)
Lemma decode_st_history_independent fuel t v st s :
  length (st_genotypes st) = length (v_samples v) ->
  decode_st fuel t v st s = decode fuel t v s.
Proof.
  intros H. unfold decode, decode_st, fresh_state. cbn [st_genotypes].
  destruct (v_user_alleles v) as [ua|].
  - destruct (allele_index ua (s_ancestral s) =? -1); [reflexivity|].
    cbn [bind]. rewrite (map_const_length _ (st_genotypes st) (map (fun _ => 0) (v_samples v)))
      by (rewrite map_length; exact H). reflexivity.
  - cbn [bind]. rewrite (map_const_length _ (st_genotypes st) (map (fun _ => 0) (v_samples v)))
      by (rewrite map_length; exact H). reflexivity.
Qed.
