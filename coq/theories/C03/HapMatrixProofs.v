(* C03 — haplotypes() rows are the columns of the per-site decode results, for any requested
   node list: entry j of the string of requested node k is the character of that node's genotype
   at the j-th site of the interval (missing-data character iff MISSING). *)
From Coq Require Import List ZArith Bool Lia.
From TskVerif Require Import Base.Common C03.Model C03.ArrayProofs C03.AlleleProofs C03.PyViews
     C03.ViewsProofs.
Import ListNotations.
Open Scope Z_scope.

Lemma get_zseq n k : 0 <= k < n -> get (map Z.of_nat (seq 0 (Z.to_nat n))) k = Ok k.
Proof.
  intros H. apply get_nth_error. split; [lia|]. rewrite nth_error_map.
  assert (L : (Z.to_nat k < Z.to_nat n)%nat) by lia.
  rewrite nth_error_nth' with (d := O) by (rewrite seq_length; exact L).
  rewrite seq_nth by exact L. simpl. f_equal. lia.
Qed.

(* transposition: rows[k][j] = cols[j][k] *)
Lemma haplotypes_entry_l mdc n rs rows :
  haplotypes_model mdc n rs = Ok rows ->
  length rows = Z.to_nat n /\
  forall k j r, 0 <= k < n -> get rs j = Ok r ->
    exists row col c, get rows k = Ok row /\ hap_column mdc r = Ok col /\
                      get row j = Ok c /\ get col k = Ok c /\ length row = length rs.
Proof.
  unfold haplotypes_model. intros H.
  destruct (mapM (hap_column mdc) rs) as [cols| | |] eqn:MC; try discriminate. cbn [bind] in H.
  destruct (mapM_spec _ _ _ MC) as [LC PC]. destruct (mapM_spec _ _ _ H) as [LR PR].
  split; [rewrite LR, map_length, seq_length; reflexivity|].
  intros k j r Rk G. destruct (PC _ _ G) as (col & HC & GC).
  destruct (PR _ _ (get_zseq n k Rk)) as (row & MR & GR).
  destruct (mapM_spec _ _ _ MR) as [LRow PRow]. destruct (PRow _ _ GC) as (c & Gck & Grj).
  exists row, col, c. repeat split; try assumption. congruence.
Qed.

(* with what has_missing_data_exact guarantees about each decode result: the haplotype of
   requested node k reads, at site j, the missing-data character iff the genotype is MISSING and
   otherwise the single character of the decoded allele — for ANY order of the requested nodes *)
Lemma haplotypes_follow_genotypes_l mdc n rs rows :
  haplotypes_model mdc n rs = Ok rows ->
  forall k j g al hm gk, 0 <= k < n -> get rs j = Ok (g, al, hm) ->
    (hm = true <-> exists i, get g i = Ok MISSING) ->
    get g k = Ok gk ->
    exists row, get rows k = Ok row /\
      (gk = MISSING -> get row j = Ok mdc) /\
      (forall a, gk <> MISSING -> get al gk = Ok a -> exists c, a = [c] /\ c <> mdc /\ get row j = Ok c).
Proof.
  intros H k j g al hm gk Rk G HM Gk.
  destruct (haplotypes_entry_l _ _ _ _ H) as [_ E].
  destruct (E k j _ Rk G) as (row & col & c & GR & HC & Grj & Gck & _).
  destruct (hap_column_correct_l _ _ _ _ _ HM HC) as [_ P]. destruct (P _ _ Gk) as [PM PA].
  exists row. split; [assumption|]. split.
  - intros M. rewrite Grj, <- Gck. apply PM. assumption.
  - intros a NM GA. destruct (PA a NM GA) as (c' & -> & Nc & Gc'). exists c'.
    split; [reflexivity|]. split; [assumption|]. congruence.
Qed.
