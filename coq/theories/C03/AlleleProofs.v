(* C03 — tsk_variant_get_allele_index and the growth of the allele list. *)
From Coq Require Import List ZArith Bool Lia.
From TskVerif Require Import Base.Common C03.Model C03.ArrayProofs.
Import ListNotations.
Open Scope Z_scope.

Lemma allele_eqb_eq a b : allele_eqb a b = true <-> a = b.
Proof. unfold allele_eqb. apply list_eqb_eq. intros x y. apply Z.eqb_eq. Qed.

Lemma allele_eqb_refl a : allele_eqb a a = true.
Proof. apply allele_eqb_eq. reflexivity. Qed.

Lemma get_cons_succ {A} (x : A) l k : 0 <= k -> get (x :: l) (k + 1) = get l k.
Proof.
  intros H. unfold get. destruct (k + 1 <? 0) eqn:E1; [apply Z.ltb_lt in E1; lia|].
  destruct (k <? 0) eqn:E2; [apply Z.ltb_lt in E2; lia|].
  replace (Z.to_nat (k + 1)) with (S (Z.to_nat k)) by lia. reflexivity.
Qed.

Lemma get_cons_pos {A} (x : A) l k : 0 < k -> get (x :: l) k = get l (k - 1).
Proof. intros H. replace k with (k - 1 + 1) at 1 by lia. apply get_cons_succ. lia. Qed.

(* result of the search: -1 and absent, or the first position *)
Lemma allele_index_from_spec al : forall j a, 0 <= j ->
  (allele_index_from j al a = -1 /\ ~ In a al) \/
  (exists i, allele_index_from j al a = j + i /\ 0 <= i < zlen al /\ get al i = Ok a /\
             forall i', 0 <= i' < i -> get al i' <> Ok a).
Proof.
  induction al as [|x r IH]; intros j a Hj; simpl.
  - left. split; auto.
  - destruct (allele_eqb a x) eqn:E.
    + apply allele_eqb_eq in E. subst. right. exists 0. unfold zlen; simpl.
      split; [lia|]. split; [lia|]. split; [reflexivity|]. intros; lia.
    + destruct (IH (j + 1) a ltac:(lia)) as [[H N] | (i & H & R & G & F)].
      * left. split; [assumption|]. intros [X | X]; [|contradiction].
        subst. rewrite allele_eqb_refl in E. discriminate.
      * right. exists (i + 1). unfold zlen in *; simpl length.
        split; [lia|]. split; [lia|]. split; [rewrite get_cons_succ by lia; assumption|].
        intros i' Hi'. destruct (Z.eq_dec i' 0) as [-> | Nz].
        -- unfold get; simpl. intro X. inversion X; subst. rewrite allele_eqb_refl in E. discriminate.
        -- rewrite get_cons_pos by lia. apply F. lia.
Qed.

Lemma allele_index_spec al a :
  (allele_index al a = -1 /\ ~ In a al) \/
  (0 <= allele_index al a < zlen al /\ get al (allele_index al a) = Ok a /\
   forall i', 0 <= i' < allele_index al a -> get al i' <> Ok a).
Proof.
  unfold allele_index. destruct (allele_index_from_spec al 0 a ltac:(lia)) as [H | (i & H & R & G & F)].
  - left. assumption.
  - right. rewrite H. simpl. repeat split; try lia; auto.
Qed.

Lemma allele_index_absent al a : allele_index al a = -1 <-> ~ In a al.
Proof.
  destruct (allele_index_spec al a) as [[H N] | (R & G & _)].
  - tauto.
  - split; [lia|]. intros N. exfalso. apply N. eapply get_In; eauto.
Qed.

Lemma allele_index_found al a : allele_index al a <> -1 ->
  0 <= allele_index al a < zlen al /\ get al (allele_index al a) = Ok a.
Proof. destruct (allele_index_spec al a) as [[H N] | (R & G & _)]; [contradiction | auto]. Qed.

Lemma allele_index_ge al a : -1 <= allele_index al a.
Proof. destruct (allele_index_spec al a) as [[H N] | (R & G & _)]; lia. Qed.

Lemma allele_index_from_app al : forall j a ext, allele_index_from j al a <> -1 ->
  allele_index_from j (al ++ ext) a = allele_index_from j al a.
Proof.
  induction al as [|x r IH]; intros j a ext H; simpl in *; [congruence|].
  destruct (allele_eqb a x); [reflexivity | apply IH; assumption].
Qed.

Lemma allele_index_app al a ext : allele_index al a <> -1 ->
  allele_index (al ++ ext) a = allele_index al a.
Proof. apply allele_index_from_app. Qed.

Lemma allele_index_from_snoc al : forall j a, allele_index_from j al a = -1 -> 0 <= j ->
  allele_index_from j (al ++ [a]) a = j + zlen al.
Proof.
  induction al as [|x r IH]; intros j a H Hj; simpl in *.
  - rewrite allele_eqb_refl. unfold zlen; simpl; lia.
  - destruct (allele_eqb a x).
    + lia.
    + rewrite IH by (assumption || lia). unfold zlen; simpl length. lia.
Qed.

Lemma allele_index_snoc al a : allele_index al a = -1 -> allele_index (al ++ [a]) a = zlen al.
Proof. intros H. unfold allele_index. rewrite allele_index_from_snoc by (assumption || lia). lia. Qed.

(* the allele list the non-user mode builds: first occurrences, in order *)
Definition add_allele (al : list allele) (d : allele) : list allele :=
  if allele_index al d =? -1 then al ++ [d] else al.

Definition alleles_of (anc_state : allele) (derived : list allele) : list allele :=
  fold_left add_allele derived [anc_state].

Lemma add_allele_ext al d : exists ext, add_allele al d = al ++ ext.
Proof.
  unfold add_allele. destruct (allele_index al d =? -1); [eauto|]. exists []. rewrite app_nil_r. reflexivity.
Qed.

Lemma NoDup_snoc {A} (l : list A) x : NoDup l -> ~ In x l -> NoDup (l ++ [x]).
Proof.
  induction l as [|y l IH]; intros H N; simpl.
  - constructor; [auto | constructor].
  - inversion H; subst. constructor.
    + intro X. apply in_app_or in X as [X | [X | []]]; [contradiction|]. subst. apply N. left. reflexivity.
    + apply IH; [assumption|]. intro. apply N. right. assumption.
Qed.

Lemma add_allele_NoDup al d : NoDup al -> NoDup (add_allele al d).
Proof.
  intros H. unfold add_allele. destruct (allele_index al d =? -1) eqn:E; [|assumption].
  apply Z.eqb_eq in E. apply allele_index_absent in E. apply NoDup_snoc; assumption.
Qed.

Lemma add_allele_In al d a : In a (add_allele al d) <-> In a al \/ a = d.
Proof.
  unfold add_allele. destruct (allele_index al d =? -1) eqn:E.
  - rewrite in_app_iff. simpl. intuition.
  - apply Z.eqb_neq in E. split; [tauto|]. intros [H | ->]; [assumption|].
    destruct (allele_index_found _ _ E) as [_ G]. eapply get_In; eauto.
Qed.

Lemma fold_add_NoDup ds : forall al, NoDup al -> NoDup (fold_left add_allele ds al).
Proof. induction ds as [|d ds IH]; intros al H; simpl; [assumption|]. apply IH. apply add_allele_NoDup. assumption. Qed.

Lemma fold_add_In ds : forall al a, In a (fold_left add_allele ds al) <-> In a al \/ In a ds.
Proof.
  induction ds as [|d ds IH]; intros al a; simpl; [tauto|].
  rewrite IH, add_allele_In. intuition.
Qed.

Lemma fold_add_ext ds : forall al, exists ext, fold_left add_allele ds al = al ++ ext.
Proof.
  induction ds as [|d ds IH]; intros al; simpl.
  - exists []. rewrite app_nil_r. reflexivity.
  - destruct (add_allele_ext al d) as [e1 E1]. destruct (IH (add_allele al d)) as [e2 E2].
    exists (e1 ++ e2). rewrite E2, E1, app_assoc. reflexivity.
Qed.

Lemma alleles_of_head a ds : exists ext, alleles_of a ds = a :: ext.
Proof. unfold alleles_of. destruct (fold_add_ext ds [a]) as [e E]. exists e. rewrite E. reflexivity. Qed.

Lemma alleles_of_NoDup a ds : NoDup (alleles_of a ds).
Proof. apply fold_add_NoDup. constructor; [simpl; tauto | constructor]. Qed.

Lemma alleles_of_In a ds x : In x (alleles_of a ds) <-> x = a \/ In x ds.
Proof. unfold alleles_of. rewrite fold_add_In. simpl. intuition. Qed.
