(* C03 — (B) the Python assembly agrees with the per-site decode: interval selection,
   haplotype columns (incl. the alleles[-1] trick for missing data), alignment rows. *)
From Coq Require Import List ZArith Bool Lia Sorting.Sorted QArith.
From TskVerif Require Import Base.Common C03.Model C03.ArrayProofs C03.AlleleProofs C03.PyViews.
Import ListNotations.
Open Scope Z_scope.

(* ---- interval selection ------------------------------------------------------------------ *)

Lemma filter_lt_nil x r : Forall (fun z => x <= z) r -> filter (fun p => p <? x) r = [].
Proof.
  induction 1 as [|z r Hz _ IH]; simpl; [reflexivity|].
  destruct (z <? x) eqn:E; [apply Z.ltb_lt in E; lia | assumption].
Qed.

Lemma count_lt_spec x xs : StronglySorted Z.le xs ->
  forall j a, get xs j = Ok a -> (j < count_lt xs x <-> a < x).
Proof.
  induction 1 as [|y r SS IH FA]; intros j a G.
  - unfold get in G. destruct (j <? 0); [discriminate|]. destruct (Z.to_nat j); discriminate.
  - pose proof (get_range _ _ _ G) as R. unfold count_lt in *. simpl filter.
    destruct (Z.eq_dec j 0) as [-> | Nj].
    + unfold get in G; simpl in G. inversion G; subst.
      destruct (a <? x) eqn:E.
      * apply Z.ltb_lt in E. unfold zlen; simpl length. split; lia.
      * apply Z.ltb_ge in E. rewrite filter_lt_nil.
        -- unfold zlen; simpl. split; lia.
        -- eapply Forall_impl; [|exact FA]. simpl. intros; lia.
    + rewrite get_cons_pos in G by lia. specialize (IH _ _ G).
      destruct (y <? x) eqn:E.
      * unfold zlen in *; simpl length. rewrite <- IH. lia.
      * apply Z.ltb_ge in E. rewrite filter_lt_nil in *.
        -- unfold zlen in *; simpl in *. rewrite <- IH. lia.
        -- eapply Forall_impl; [|exact FA]. simpl. intros; lia.
        -- eapply Forall_impl; [|exact FA]. simpl. intros; lia.
Qed.

(* variants(left=, right=) visits exactly the sites with left <= position < right *)
Lemma sites_in_interval_l positions left right :
  StronglySorted Z.le positions ->
  forall j a, get positions j = Ok a ->
  (In j (sites_in positions left right) <-> left <= a < right).
Proof.
  intros SS j a G. unfold sites_in.
  pose proof (count_lt_spec left _ SS j a G) as L. pose proof (count_lt_spec right _ SS j a G) as Rr.
  set (start := count_lt positions left) in *. set (stop := count_lt positions right) in *.
  rewrite in_map_iff. split.
  - intros (i & <- & I). apply in_seq in I. lia.
  - intros H. exists (Z.to_nat (j - start)). split; [lia|]. apply in_seq. lia.
Qed.

(* ---- mapM ------------------------------------------------------------------------------------ *)

Lemma mapM_spec {A B} (f : A -> res B) : forall l r, mapM f l = Ok r ->
  length r = length l /\
  forall i x, get l i = Ok x -> exists y, f x = Ok y /\ get r i = Ok y.
Proof.
  induction l as [|x0 l IH]; intros r H; simpl in H.
  - inversion H; subst. split; [reflexivity|]. intros i x G. unfold get in G.
    destruct (i <? 0); [discriminate|]. destruct (Z.to_nat i); discriminate.
  - destruct (f x0) as [y0| | |] eqn:F; try discriminate. cbn [bind] in H.
    destruct (mapM f l) as [ys| | |] eqn:M; try discriminate. cbn [bind] in H. inversion H; subst.
    destruct (IH _ eq_refl) as [L P]. split; [simpl; congruence|].
    intros i x G. pose proof (get_range _ _ _ G) as R. destruct (Z.eq_dec i 0) as [-> | Ni].
    + unfold get in G; simpl in G. inversion G; subst. exists y0. split; [assumption | reflexivity].
    + rewrite get_cons_pos in G by lia. destruct (P _ _ G) as (y & Fy & Gy).
      exists y. split; [assumption|]. rewrite get_cons_pos by lia. assumption.
Qed.

Lemma get_app_l {A} (l1 l2 : list A) i : 0 <= i < zlen l1 -> get (l1 ++ l2) i = get l1 i.
Proof.
  intros H. unfold get. destruct (i <? 0) eqn:E; [reflexivity|].
  rewrite nth_error_app1; [reflexivity|]. unfold zlen in H. lia.
Qed.

Lemma get_app_r {A} (l1 l2 : list A) i : zlen l1 <= i -> get (l1 ++ l2) i = get l2 (i - zlen l1).
Proof.
  intros H. unfold get, zlen in *. destruct (i <? 0) eqn:E; [apply Z.ltb_lt in E; lia|].
  destruct (i - Z.of_nat (length l1) <? 0) eqn:E2; [apply Z.ltb_lt in E2; lia|].
  rewrite nth_error_app2 by lia. replace (Z.to_nat (i - Z.of_nat (length l1))) with (Z.to_nat i - length l1)%nat by lia.
  reflexivity.
Qed.

Lemma get_map {A B} (f : A -> B) l i a : get l i = Ok a -> get (map f l) i = Ok (f a).
Proof.
  intros G. apply get_nth_error in G as [P G]. apply get_nth_error. split; [assumption|].
  rewrite nth_error_map, G. reflexivity.
Qed.

(* ---- haplotype columns ------------------------------------------------------------------- *)

(* Given what has_missing_data_exact guarantees about a decode result, the column that
   _haplotypes_array writes for a site holds the missing-data character exactly at the
   MISSING genotypes and otherwise the single character of the decoded allele.  (Python
   reads alleles[-1] for a missing genotype: that is the None marker only because
   has_missing_data is exact.) *)
Lemma hap_column_correct_l mdc g al hm col :
  (hm = true <-> exists k, get g k = Ok MISSING) ->
  hap_column mdc (g, al, hm) = Ok col ->
  length col = length g /\
  forall k gk, get g k = Ok gk ->
    (gk = MISSING -> get col k = Ok mdc) /\
    (forall a, gk <> MISSING -> get al gk = Ok a ->
       exists c, a = [c] /\ c <> mdc /\ get col k = Ok c).
Proof.
  intros HM H. unfold hap_column, py_alleles in H.
  destruct (mapM (allele_code mdc) (map Some al ++ (if hm then [None] else []))) as [codes| | |] eqn:MC;
    try discriminate.
  cbn [bind] in H. destruct (mapM_spec _ _ _ MC) as [LC PC]. destruct (mapM_spec _ _ _ H) as [L P].
  split; [assumption|]. intros k gk G. destruct (P _ _ G) as (y & PY & GY). rewrite GY. split.
  - intros ->. assert (hm = true) by (apply HM; eauto). subst hm.
    unfold py_getitem in PY. simpl in PY.
    assert (LZ : zlen codes = zlen al + 1).
    { unfold zlen. rewrite LC, app_length, map_length. simpl. lia. }
    assert (GN : get (map Some al ++ [None]) (zlen al) = Ok None).
    { rewrite get_app_r by (unfold zlen; rewrite map_length; lia).
      replace (zlen al - zlen (map Some al)) with 0 by (unfold zlen; rewrite map_length; lia). reflexivity. }
    destruct (PC _ _ GN) as (y' & C' & G'). simpl in C'. inversion C'; subst y'.
    unfold MISSING in PY. replace (zlen codes + -1) with (zlen al) in PY by lia. congruence.
  - intros a NM GA. pose proof (get_range _ _ _ GA) as R.
    unfold py_getitem in PY. destruct (gk <? 0) eqn:E; [apply Z.ltb_lt in E; lia|].
    assert (GS : get (map Some al ++ (if hm then [None] else [])) gk = Ok (Some a)).
    { rewrite get_app_l by (unfold zlen in *; rewrite map_length; lia). apply get_map. assumption. }
    destruct (PC _ _ GS) as (c & C & GC). rewrite GC in PY. inversion PY; subst y.
    simpl in C. destruct a as [|c0 [|? ?]]; try discriminate.
    destruct (c0 =? mdc) eqn:E0; [discriminate|]. inversion C; subst. apply Z.eqb_neq in E0.
    exists c. auto.
Qed.

(* ---- alignments ---------------------------------------------------------------------------- *)

Lemma overwrite_spec : forall pos h a left a',
  overwrite a left pos h = Ok a' ->
  length a' = length a /\ length h = length pos /\
  (forall p, In p pos -> 0 <= p - left < zlen a) /\
  (forall j, ~ In (j + left) pos -> get a' j = get a j) /\
  (NoDup pos -> forall i p c, get pos i = Ok p -> get h i = Ok c -> get a' (p - left) = Ok c).
Proof.
  induction pos as [|p0 pos IH]; intros h a left a' H; destruct h as [|c0 h]; simpl in H; try discriminate.
  - inversion H; subst. repeat split; auto; try (intros; contradiction).
    intros _ i p c G. unfold get in G. destruct (i <? 0); [discriminate|]. destruct (Z.to_nat i); discriminate.
  - destruct (set a (p0 - left) c0) as [a1| | |] eqn:S; try discriminate. cbn [bind] in H.
    destruct (set_spec _ _ _ _ S) as (L1 & R1 & G1 & O1).
    destruct (IH _ _ _ _ H) as (L & LH & R & O & V).
    split; [congruence|]. split; [simpl; congruence|]. split.
    { intros p [<- | I]; [assumption|]. rewrite <- (zlen_length a1 a) by assumption. auto. }
    split.
    { intros j NI. rewrite O by (intro; apply NI; right; assumption).
      apply O1. intro. apply NI. left. lia. }
    intros ND i p c GP GC. inversion ND as [|? ? NI ND']; subst.
    pose proof (get_range _ _ _ GP) as Ri. destruct (Z.eq_dec i 0) as [-> | Ni].
    + unfold get in GP, GC; simpl in GP, GC. inversion GP; inversion GC; subst.
      rewrite O; [assumption|]. replace (p - left + left) with p by lia. assumption.
    + rewrite get_cons_pos in GP, GC by lia. eapply V; eauto.
Qed.

(* the buffer shared between the rows does no harm: every row overwrites the same positions *)
Lemma overwrite_absorb pos left : NoDup pos -> forall a h1 a1 h2 a2 b2,
  overwrite a left pos h1 = Ok a1 -> overwrite a1 left pos h2 = Ok a2 ->
  overwrite a left pos h2 = Ok b2 -> a2 = b2.
Proof.
  intros ND a h1 a1 h2 a2 b2 H1 H2 H3.
  destruct (overwrite_spec _ _ _ _ _ H1) as (L1 & _ & _ & O1 & _).
  destruct (overwrite_spec _ _ _ _ _ H2) as (L2 & LH2 & _ & O2 & V2).
  destruct (overwrite_spec _ _ _ _ _ H3) as (L3 & _ & _ & O3 & V3).
  apply list_ext_get; [congruence|]. intros j _.
  destruct (in_dec Z.eq_dec (j + left) pos) as [I | NI].
  - apply In_nth_error in I as [n Hn].
    assert (GP : get pos (Z.of_nat n) = Ok (j + left)).
    { apply get_nth_error. split; [lia|]. rewrite Nat2Z.id. assumption. }
    destruct (get_in_range h2 (Z.of_nat n)) as [c GC].
    { pose proof (get_range _ _ _ GP). unfold zlen in *. lia. }
    pose proof (V2 ND _ _ _ GP GC) as X2. pose proof (V3 ND _ _ _ GP GC) as X3.
    replace (j + left - left) with j in * by lia. congruence.
  - rewrite (O2 _ NI), (O1 _ NI), (O3 _ NI). reflexivity.
Qed.

Lemma overwrite_ok : forall pos h a left,
  length h = length pos -> (forall p, In p pos -> 0 <= p - left < zlen a) ->
  exists a', overwrite a left pos h = Ok a'.
Proof.
  induction pos as [|p0 pos IH]; intros h a left L R; destruct h as [|c0 h]; simpl in L; try discriminate.
  - simpl. eauto.
  - simpl. destruct (set_ok a (p0 - left) c0) as [a1 S]; [apply R; left; reflexivity|].
    rewrite S. cbn [bind]. apply IH; [lia|]. intros p I.
    destruct (set_spec _ _ _ _ S) as (L1 & _). rewrite (zlen_length a1 a) by assumption.
    apply R. right. assumption.
Qed.

(* alignments(): although the buffer is reused from one sample to the next, row i is the
   reference sequence overwritten at the site positions with haplotype row i *)
Lemma alignment_rows_l left pos : NoDup pos -> forall rows a out,
  alignments_loop a left pos rows = Ok out ->
  forall i h, get rows i = Ok h -> exists row, get out i = Ok row /\ overwrite a left pos h = Ok row.
Proof.
  intros ND. induction rows as [|h0 rest IH]; intros a out H i h G.
  - unfold get in G. destruct (i <? 0); [discriminate|]. destruct (Z.to_nat i); discriminate.
  - simpl in H. destruct (overwrite a left pos h0) as [a1| | |] eqn:O1; try discriminate. cbn [bind] in H.
    destruct (alignments_loop a1 left pos rest) as [out'| | |] eqn:AL; try discriminate.
    cbn [bind] in H. inversion H; subst. pose proof (get_range _ _ _ G) as R.
    destruct (Z.eq_dec i 0) as [-> | Ni].
    + unfold get in G; simpl in G. inversion G; subst. exists a1. split; [reflexivity | assumption].
    + rewrite get_cons_pos in G by lia. destruct (IH _ _ AL _ _ G) as (row & GR & OR).
      exists row. split; [rewrite get_cons_pos by lia; assumption|].
      destruct (overwrite_spec _ _ _ _ _ O1) as (_ & _ & R1 & _).
      destruct (overwrite_spec _ _ _ _ _ OR) as (_ & LH & _).
      destruct (overwrite_ok pos h a left LH R1) as [b2 OB].
      rewrite OB. f_equal. symmetry. exact (overwrite_absorb pos left ND a h0 a1 h row b2 O1 OR OB).
Qed.

(* ---- Variant.counts() ------------------------------------------------------------------------ *)

(* historical record: the pinned code (assignment instead of +=).  With the user allele list
   ("A","C","A") and genotypes [1;0] (one sample carries "A", encoded as index 0) it reported 0
   carriers of "A".  Repaired by /repo commit 8615230. *)
Lemma counts_duplicate_pinned_refuted_w :
  exists (r : decode_result) (a : allele),
    carriers r a = 1 /\ dict_get (counts_model_pinned r) (Some a) = Some 0 /\
    dict_get (counts_model r) (Some a) = Some 1.
Proof. exists ([1; 0], [[65]; [67]; [65]], false), [65]. repeat split; vm_compute; reflexivity. Qed.

Lemma okey_some_eqb a b : okey_eqb (Some a) (Some b) = allele_eqb a b.
Proof. reflexivity. Qed.

Lemma dict_get_add_same d k x :
  dict_get (dict_add d k x) k = Some (match dict_get d k with Some y => y + x | None => x end).
Proof.
  induction d as [|[k' y] r IH]; simpl.
  - unfold okey_eqb, opt_eqb. destruct k; [rewrite allele_eqb_refl|]; reflexivity.
  - destruct (okey_eqb k k') eqn:E; simpl; rewrite E; [reflexivity | assumption].
Qed.

Lemma okey_eqb_trans_false k k0 k' : okey_eqb k k0 = true -> okey_eqb k' k0 = true -> okey_eqb k' k = true.
Proof.
  unfold okey_eqb, opt_eqb. destruct k, k0, k'; try discriminate; try reflexivity.
  intros E E'. apply allele_eqb_eq in E, E'. subst. apply allele_eqb_refl.
Qed.

Lemma dict_get_add_other d k k' x : okey_eqb k' k = false -> dict_get (dict_add d k x) k' = dict_get d k'.
Proof.
  intros N. induction d as [|[k0 y] r IH]; simpl.
  - rewrite N. reflexivity.
  - destruct (okey_eqb k k0) eqn:E; simpl.
    + destruct (okey_eqb k' k0) eqn:E'; [|reflexivity]. exfalso.
      rewrite (okey_eqb_trans_false _ _ _ E E') in N. discriminate.
    + destruct (okey_eqb k' k0); [reflexivity | assumption].
Qed.

(* sum over the positions j of [al] holding allele a of (number of genotypes == i + j) *)
Fixpoint sum_idx (g : list Z) (a : allele) (i : Z) (al : list allele) : Z :=
  match al with
  | [] => 0
  | x :: r => (if allele_eqb a x then count_eq g i else 0) + sum_idx g a (i + 1) r
  end.

Lemma counts_loop_add g a : forall al i d,
  dict_get (counts_loop dict_add g i al d) (Some a) =
  match dict_get d (Some a) with
  | Some b => Some (b + sum_idx g a i al)
  | None => if existsb (allele_eqb a) al then Some (sum_idx g a i al) else None
  end.
Proof.
  induction al as [|x r IH]; intros i d; simpl.
  - destruct (dict_get d (Some a)); [f_equal; lia | reflexivity].
  - rewrite IH. destruct (allele_eqb a x) eqn:E.
    + apply allele_eqb_eq in E. subst x. rewrite dict_get_add_same.
      destruct (dict_get d (Some a)); simpl; f_equal; lia.
    + rewrite dict_get_add_other by (rewrite okey_some_eqb; assumption).
      destruct (dict_get d (Some a)); simpl; [f_equal; lia | reflexivity].
Qed.

Lemma count_eq_cons x g i : count_eq (x :: g) i = (if i =? x then 1 else 0) + count_eq g i.
Proof. unfold count_eq, zlen. simpl. destruct (i =? x); simpl length; lia. Qed.

Lemma sum_idx_cons x g a : forall al i,
  sum_idx (x :: g) a i al = sum_idx [x] a i al + sum_idx g a i al.
Proof.
  induction al as [|y r IH]; intros i; simpl; [reflexivity|]. rewrite IH.
  destruct (allele_eqb a y); [|lia]. rewrite (count_eq_cons x g i), (count_eq_cons x [] i).
  unfold count_eq at 2. simpl. unfold zlen. simpl. lia.
Qed.

Lemma sum_idx_point x a : forall al i,
  sum_idx [x] a i al =
  if match get al (x - i) with Ok a' => allele_eqb a a' | _ => false end then 1 else 0.
Proof.
  induction al as [|y r IH]; intros i; simpl.
  - rewrite get_not_ok by (unfold zlen; simpl; lia). reflexivity.
  - rewrite IH. rewrite (count_eq_cons x [] i). unfold count_eq, zlen. simpl.
    destruct (Z.eq_dec i x) as [-> | NE].
    + rewrite Z.eqb_refl. replace (x - x) with 0 by lia. unfold get at 2. simpl.
      rewrite (get_not_ok r (x - (x + 1))) by lia. destruct (allele_eqb a y); reflexivity.
    + destruct (i =? x) eqn:E; [apply Z.eqb_eq in E; contradiction|].
      replace (x - (i + 1)) with (x - i - 1) by lia.
      destruct (Z_lt_dec (x - i) 0) as [LT | GE].
      * rewrite (get_not_ok (y :: r)) by lia. rewrite (get_not_ok r) by lia.
        destruct (allele_eqb a y); reflexivity.
      * rewrite (get_cons_pos y r (x - i)) by lia. destruct (allele_eqb a y); reflexivity.
Qed.

Lemma sum_idx_carriers a al : forall g,
  sum_idx g a 0 al =
  zlen (filter (fun x => match get al x with Ok a' => allele_eqb a a' | _ => false end) g).
Proof.
  induction g as [|x g IH].
  - unfold zlen; simpl. generalize 0 at 1. induction al as [|y r IHr]; intros i; simpl; [reflexivity|].
    rewrite IHr. unfold count_eq, zlen. simpl. destruct (allele_eqb a y); reflexivity.
  - rewrite sum_idx_cons, IH, sum_idx_point. replace (x - 0) with x by lia. simpl filter.
    destruct (match get al x with Ok a' => allele_eqb a a' | _ => false end); unfold zlen; simpl length; lia.
Qed.

(* The repaired counts(): every allele of the list — duplicated or not, whatever the
   genotypes — is mapped to the number of samples whose genotype reads as that allele. *)
Lemma counts_correct_l g al hm a :
  In a al -> dict_get (counts_model (g, al, hm)) (Some a) = Some (carriers (g, al, hm) a).
Proof.
  intros I. unfold counts_model, counts_with, carriers. rewrite counts_loop_add.
  assert (E : existsb (allele_eqb a) al = true).
  { apply existsb_exists. exists a. split; [assumption | apply allele_eqb_refl]. }
  assert (D : dict_get (if hm then [(None, count_eq g MISSING)] else []) (Some a) = None)
    by (destruct hm; reflexivity).
  rewrite D, E, sum_idx_carriers. reflexivity.
Qed.

(* ---- Variant.states / num_missing / genotype_matrix ----------------------------------------- *)

Lemma states_correct_l mds g al hm st :
  (hm = true <-> exists k, get g k = Ok MISSING) ->
  states_model mds (g, al, hm) = Ok st ->
  length st = length g /\
  forall k gk, get g k = Ok gk ->
    (gk = MISSING -> get st k = Ok mds) /\
    (forall a, gk <> MISSING -> get al gk = Ok a -> get st k = Ok a).
Proof.
  intros HM H. unfold states_model in H. destruct hm.
  - destruct (existsb (allele_eqb mds) al); [discriminate|].
    destruct (mapM_spec _ _ _ H) as [L P]. split; [assumption|]. intros k gk G.
    destruct (P _ _ G) as (y & PY & GY). rewrite GY. unfold py_getitem in PY. split.
    + intros ->. simpl in PY. unfold MISSING in PY.
      replace (zlen (al ++ [mds]) + -1) with (zlen al) in PY by (unfold zlen; rewrite app_length; simpl; lia).
      rewrite get_app_r in PY by lia. replace (zlen al - zlen al) with 0 in PY by lia.
      unfold get in PY; simpl in PY. congruence.
    + intros a NM GA. pose proof (get_range _ _ _ GA) as R.
      destruct (gk <? 0) eqn:E; [apply Z.ltb_lt in E; lia|].
      rewrite get_app_l in PY by assumption. congruence.
  - destruct (mapM_spec _ _ _ H) as [L P]. split; [assumption|]. intros k gk G.
    destruct (P _ _ G) as (y & PY & GY). rewrite GY. unfold py_getitem in PY. split.
    + intros ->. exfalso. assert (false = true) by (apply HM; eauto). discriminate.
    + intros a NM GA. pose proof (get_range _ _ _ GA) as R.
      destruct (gk <? 0) eqn:E; [apply Z.ltb_lt in E; lia|]. congruence.
Qed.

Lemma count_eq_pos_iff g x : 0 < count_eq g x <-> exists k, get g k = Ok x.
Proof.
  unfold count_eq, zlen. split.
  - intros H. destruct (filter (Z.eqb x) g) as [|y r] eqn:F; [simpl in H; lia|].
    assert (I : In y (filter (Z.eqb x) g)) by (rewrite F; left; reflexivity).
    apply filter_In in I as [I E]. apply Z.eqb_eq in E. subst y.
    apply In_nth_error in I as [n Hn]. exists (Z.of_nat n). apply get_nth_error.
    split; [lia|]. rewrite Nat2Z.id. assumption.
  - intros [k G]. apply get_In in G.
    assert (I : In x (filter (Z.eqb x) g)) by (apply filter_In; split; [assumption | apply Z.eqb_refl]).
    destruct (filter (Z.eqb x) g); [contradiction | simpl; lia].
Qed.

(* num_missing > 0 iff some genotype is MISSING (so, by has_missing_data_exact, iff has_missing_data) *)
Lemma num_missing_pos_l g al hm :
  0 < num_missing_model (g, al, hm) <-> exists k, get g k = Ok MISSING.
Proof. apply count_eq_pos_iff. Qed.

Lemma num_alleles_l g al hm : num_alleles_model (g, al, hm) = zlen al.
Proof.
  unfold num_alleles_model, py_alleles, zlen. rewrite app_length, map_length.
  destruct hm; simpl; lia.
Qed.

(* every row of genotype_matrix is the genotypes of the decode of that site *)
Lemma genotype_matrix_rows_l fuel v sites m :
  genotype_matrix_model fuel v sites = Ok m ->
  length m = length sites /\
  forall i t s, get sites i = Ok (t, s) ->
    exists row al hm, get m i = Ok row /\ decode fuel t v s = Ok (row, al, hm).
Proof.
  intros H. destruct (mapM_spec _ _ _ H) as [L P]. split; [assumption|].
  intros i t s G. destruct (P _ _ G) as (row & D & GR). simpl in D.
  destruct (decode fuel t v s) as [[[g al] hm]| | |]; try discriminate. cbn [bind] in D.
  inversion D; subst. do 3 eexists. split; [exact GR | reflexivity].
Qed.

(* ---- alignments(), complete model ------------------------------------------------------------- *)
Definition selected_reference (a : align_in) : list Z :=
  let left := ai_left2 a / 2 in let right := ai_right2 a / 2 in
  match ai_ref a with
  | Some r => r
  | None => match ai_embedded a with
            | Some d => firstn (Z.to_nat (right - left)) (skipn (Z.to_nat left) d)
            | None => repeat (ai_mdc a) (Z.to_nat (right - left))
            end
  end.

(* A successful alignments() call: the genome is discrete, the interval is a valid integer
   interval, no tree has an isolated sample, the reference (argument, else embedded slice, else
   missing-data characters) has the length of the interval, and row i is that reference
   overwritten at the site positions with haplotype row i. *)
Lemma alignments_full_spec_l a out :
  alignments_full a = Ok out -> NoDup (ai_pos a) ->
  ai_discrete a = true /\ ai_isolated a = false /\
  (exists iv, check_range (ai_L2 a) (ai_left2 a) (ai_right2 a) = Ok iv) /\
  Z.even (ai_left2 a) = true /\ Z.even (ai_right2 a) = true /\
  zlen (selected_reference a) = ai_right2 a / 2 - ai_left2 a / 2 /\
  exists rows, haplotypes_model (ai_mdc a) (ai_nsamples a) (ai_results a) = Ok rows /\
    forall i h, get rows i = Ok h ->
      exists row, get out i = Ok row /\
                  overwrite (selected_reference a) (ai_left2 a / 2) (ai_pos a) h = Ok row.
Proof.
  unfold alignments_full. intros H ND. fold (selected_reference a) in H.
  destruct (ai_discrete a); [|discriminate]. simpl in H.
  destruct (check_range (ai_L2 a) (ai_left2 a) (ai_right2 a)) as [iv| | |] eqn:CR; try discriminate.
  cbn [bind] in H.
  destruct (Z.even (ai_left2 a)) eqn:E1; [|discriminate].
  destruct (Z.even (ai_right2 a)) eqn:E2; [|discriminate]. simpl in H.
  destruct (zlen (selected_reference a) =? ai_right2 a / 2 - ai_left2 a / 2) eqn:EL; [|discriminate].
  apply Z.eqb_eq in EL. simpl in H.
  destruct (ai_isolated a); [discriminate|].
  destruct (ai_init_error a); [discriminate|].
  destruct (haplotypes_model (ai_mdc a) (ai_nsamples a) (ai_results a)) as [rows| | |] eqn:HM; try discriminate.
  cbn [bind] in H.
  repeat (split; [first [reflexivity | assumption | eauto]|]).
  exists rows. split; [reflexivity|]. intros i h G.
  exact (alignment_rows_l _ _ ND _ _ _ H i h G).
Qed.

(* ---- error classes of haplotypes()/alignments() ----------------------------------------------- *)
(* The only failures of the per-allele encoding are TypeError (an allele that is not a single
   character) and ValueError (an allele equal to the missing-data character), decided by the
   FIRST offending entry of var.alleles. *)
Lemma allele_codes_error_l mdc : forall l c,
  mapM (allele_code mdc) l = Err c ->
  exists pre a post codes, l = pre ++ a :: post /\ mapM (allele_code mdc) pre = Ok codes /\
    ((c = PY_TYPE_ERROR /\ exists s, a = Some s /\ length s <> 1%nat) \/
     (c = PY_VALUE_ERROR /\ a = Some [mdc])).
Proof.
  induction l as [|x l IH]; intros c H; simpl in H; [discriminate|].
  destruct (allele_code mdc x) as [y| | |] eqn:AC.
  - cbn [bind] in H. destruct (mapM (allele_code mdc) l) as [ys| | |] eqn:M; try discriminate.
    cbn [bind] in H. inversion H; subst.
    destruct (IH c eq_refl) as (pre & a & post & codes & -> & MP & CL).
    exists (x :: pre), a, post, (y :: codes). split; [reflexivity|]. split; [|assumption].
    simpl. rewrite AC, MP. reflexivity.
  - cbn [bind] in H. inversion H; subst.
    exists [], x, l, []. split; [reflexivity|]. split; [reflexivity|].
    unfold allele_code in AC. destruct x as [[|c0 [|c1 s]]|]; try discriminate.
    + inversion AC; subst. left. split; [reflexivity|]. exists []. split; [reflexivity | simpl; lia].
    + destruct (c0 =? mdc) eqn:E; [|discriminate]. apply Z.eqb_eq in E. subst.
      inversion AC; subst. right. auto.
    + inversion AC; subst. left. split; [reflexivity|]. exists (c0 :: c1 :: s). split; [reflexivity | simpl; lia].
  - exfalso. destruct x as [[|c0 [|c1 s]]|]; simpl in AC; try discriminate;
      try (destruct (c0 =? mdc); discriminate).
  - exfalso. destruct x as [[|c0 [|c1 s]]|]; simpl in AC; try discriminate;
      try (destruct (c0 =? mdc); discriminate).
Qed.

Lemma mapM_no_err {A B} (f : A -> res B) :
  (forall x c, f x <> Err c) -> forall l c, mapM f l <> Err c.
Proof.
  intros F. induction l as [|x l IH]; intros c; simpl; [discriminate|].
  destruct (f x) as [y| c' | |] eqn:E; cbn [bind]; try discriminate.
  - destruct (mapM f l) as [ys| c'' | |] eqn:M; cbn [bind]; try discriminate.
    intros X. inversion X; subst. exact (IH c eq_refl).
  - exfalso. exact (F x c' E).
Qed.

Lemma py_getitem_no_err {A} (l : list A) x c : py_getitem l x <> Err c.
Proof.
  unfold py_getitem. destruct (x <? 0).
  - destruct (get_cases l (zlen l + x)) as [[y E] | E]; rewrite E; discriminate.
  - destruct (get_cases l x) as [[y E] | E]; rewrite E; discriminate.
Qed.

Lemma hap_column_error_class_l mdc g al hm c :
  hap_column mdc (g, al, hm) = Err c ->
  exists pre a post codes, py_alleles (g, al, hm) = pre ++ a :: post /\
    mapM (allele_code mdc) pre = Ok codes /\
    ((c = PY_TYPE_ERROR /\ exists s, a = Some s /\ length s <> 1%nat) \/
     (c = PY_VALUE_ERROR /\ a = Some [mdc])).
Proof.
  unfold hap_column. intros H.
  destruct (mapM (allele_code mdc) (py_alleles (g, al, hm))) as [codes| | |] eqn:M.
  - cbn [bind] in H. exfalso. exact (mapM_no_err _ (py_getitem_no_err codes) g c H).
  - cbn [bind] in H. inversion H; subst. apply allele_codes_error_l. assumption.
  - discriminate.
  - discriminate.
Qed.

(* ---- frequencies() -------------------------------------------------------------------------------- *)
Lemma fget_map_filter (f : Z -> option Q) (p : option allele * Z -> bool) a : forall d,
  (forall kc, fst kc = Some a -> p kc = true) ->
  (forall k, okey_eqb (Some a) k = true -> k = Some a) ->
  fget (map (fun kc => (fst kc, f (snd kc))) (filter p d)) (Some a)
  = option_map f (dict_get d (Some a)).
Proof.
  intros d P E. induction d as [|[k x] d IH]; [reflexivity|].
  cbn [filter dict_get]. destruct (okey_eqb (Some a) k) eqn:EK.
  - pose proof (E k EK). subst k. rewrite (P (Some a, x) eq_refl). cbn [map fst snd fget]. rewrite EK. reflexivity.
  - destruct (p (k, x)); cbn [map fst snd fget]; [rewrite EK|]; exact IH.
Qed.

(* every allele of the list is mapped to carriers/total (no missing-data removal, some samples) *)
Lemma frequencies_correct_l g al hm a :
  In a al -> 0 < zlen g ->
  fget (frequencies_model false (g, al, hm)) (Some a)
  = Some (Some (carriers (g, al, hm) a # Z.to_pos (zlen g))).
Proof.
  intros I T. unfold frequencies_model. replace (zlen g - 0) with (zlen g) by lia.
  rewrite (fget_map_filter (fun c => if 0 <? zlen g then Some (c # Z.to_pos (zlen g)) else None)).
  - rewrite (counts_correct_l g al hm a I). simpl.
    destruct (0 <? zlen g) eqn:E; [reflexivity | apply Z.ltb_ge in E; lia].
  - intros kc _. reflexivity.
  - intros k EK. destruct k as [b|]; [|discriminate]. rewrite okey_some_eqb in EK.
    apply allele_eqb_eq in EK. subst. reflexivity.
Qed.

(* copy(): the copy shows what the variant showed when it was taken, and refuses to decode *)
Lemma copy_spec_l v g al hm s :
  let c := restricted_copy v (g, al, hm) in
  c_samples c = v_samples v /\ c_genotypes c = g /\ c_alleles c = al /\ c_has_missing c = hm /\
  decode_copy c s = Err ERR_VARIANT_CANT_DECODE_COPY.
Proof. cbv. repeat split; reflexivity. Qed.
