(* C03 — tsk_variant_decode: the mutation loop, mark_missing, and the final characterisation
   of the decoded genotypes. *)
From Coq Require Import List ZArith Bool Lia.
From TskVerif Require Import Base.Common C03.Model C03.Spec C03.ArrayProofs C03.AlleleProofs
     C03.PaintProofs.
Import ListNotations.
Open Scope Z_scope.

(* The sample indexes whose genotype one mutation overwrites (either update path). *)
Definition painted (fuel : nat) (t : tree) (v : variant) (node : Z) : res (list Z) :=
  if v_by_traversal v then
    if v_num_nodes v <? 1 then OOB else
    do visited <- dfs fuel fuel t (v_num_nodes v) [node];
    indexes_of (v_index_map v) visited
  else sample_chain fuel t node.

Lemma update_painted fuel t v node d g :
  update_genotypes fuel t v node d g = (do idx <- painted fuel t v node; paint idx d g 0).
Proof.
  unfold update_genotypes, painted, update_traversal, update_sample_list.
  destruct (v_by_traversal v); [|reflexivity].
  destruct (v_num_nodes v <? 1); [reflexivity|].
  destruct (dfs fuel fuel t (v_num_nodes v) [node]); reflexivity.
Qed.

Section Decode.
  Variable par : Z -> option Z.
  Variable fuel : nat.
  Variable t : tree.
  Variable v : variant.
  Variable N : Z.

  (* sample index k is below node n *)
  Definition below (n k : Z) : Prop := exists u, get (v_samples v) k = Ok u /\ anc par n u.

  (* what both update paths must satisfy: the painted indexes are the samples below the node *)
  Definition painted_rep : Prop :=
    forall n l, 0 <= n < N -> painted fuel t v n = Ok l -> forall k, In k l <-> below n k.

  Hypothesis PR : painted_rep.

  Definition user_mode : bool := match v_user_alleles v with Some _ => true | None => false end.

  Lemma decode_mutations_spec : forall ms g0 al0 nm0 g1 al1 nm1,
    (forall n d, In (n, d) ms -> 0 <= n < N) ->
    decode_mutations fuel t v (g0, al0, nm0) ms = Ok (g1, al1, nm1) ->
    length g1 = length g0 /\
    (exists ext, al1 = al0 ++ ext) /\
    (user_mode = false -> al1 = fold_left add_allele (map snd ms) al0) /\
    (user_mode = true -> al1 = al0) /\
    (forall n d, In (n, d) ms -> allele_index al1 d <> -1) /\
    (forall k, (forall n d, In (n, d) ms -> ~ below n k) -> get g1 k = get g0 k) /\
    (forall k ms1 n d ms2, ms = ms1 ++ (n, d) :: ms2 -> below n k ->
        (forall n' d', In (n', d') ms2 -> ~ below n' k) -> get g1 k = Ok (allele_index al1 d)) /\
    nm0 - nm1 = cm g0 - cm g1.
  Proof.
    induction ms as [|[n d] rest IH]; intros g0 al0 nm0 g1 al1 nm1 R H.
    - simpl in H. inversion H; subst.
      split; [reflexivity|]. split; [exists []; rewrite app_nil_r; reflexivity|].
      split; [reflexivity|]. split; [reflexivity|]. split; [intros ? ? []|].
      split; [reflexivity|]. split; [|lia].
      intros k ms1 n d ms2 E. destruct ms1; discriminate.
    - simpl in H.
      (* one mutation *)
      set (i := allele_index al0 d) in *.
      assert (STEP : exists al' i', (* new allele list and index *)
                 (al' = al0 /\ i <> -1 /\ i' = i \/
                  al' = al0 ++ [d] /\ i = -1 /\ i' = zlen al0 /\ user_mode = false) /\
                 (do '(g', nlm) <- update_genotypes fuel t v n i' g0;
                  decode_mutations fuel t v (g', al', nm0 - nlm) rest) = Ok (g1, al1, nm1)).
      { destruct (i =? -1) eqn:E.
        - apply Z.eqb_eq in E. unfold user_mode. destruct (v_user_alleles v); [discriminate|].
          cbn [bind] in H. exists (al0 ++ [d]), (zlen al0). split; [right; auto|].
          destruct (update_genotypes fuel t v n (zlen al0) g0) as [[g' nlm]| | |]; try discriminate.
          exact H.
        - apply Z.eqb_neq in E. cbn [bind] in H. exists al0, i. split; [left; auto|].
          destruct (update_genotypes fuel t v n i g0) as [[g' nlm]| | |]; try discriminate.
          exact H. }
      clear H. destruct STEP as (al' & i' & CASE & H).
      assert (Hi' : i' = allele_index al' d /\ i' <> -1 /\ exists e, al' = al0 ++ e).
      { destruct CASE as [(-> & Hn & ->) | (-> & Hn & -> & _)].
        - split; [reflexivity|]. split; [assumption|]. exists []. rewrite app_nil_r. reflexivity.
        - split; [symmetry; apply allele_index_snoc; assumption|].
          split; [unfold zlen; lia | eauto]. }
      destruct Hi' as (Ei' & Ni' & (e0 & Eal')).
      rewrite update_painted in H.
      destruct (painted fuel t v n) as [idx| | |] eqn:PT; try discriminate. cbn [bind] in H.
      destruct (paint idx i' g0 0) as [[g' nlm]| | |] eqn:PA; try discriminate. cbn [bind] in H.
      assert (Rn : 0 <= n < N) by (eapply R; left; reflexivity).
      pose proof (PR n idx Rn PT) as MEM.
      destruct (paint_spec _ _ _ _ _ _ PA) as (L' & _ & IN' & OUT' & CNT').
      assert (Hm : i' <> MISSING).
      { unfold MISSING. assumption. }
      specialize (CNT' Hm).
      destruct (IH g' al' (nm0 - nlm) g1 al1 nm1) as (L1 & (e1 & EX1) & AUTO1 & USER1 & FOUND1 & KEEP1 & LAST1 & CNT1);
        [intros; eapply R; right; eassumption | exact H |].
      split; [congruence|].
      split; [exists (e0 ++ e1); rewrite EX1, Eal', app_assoc; reflexivity|].
      split.
      { intros UM. rewrite (AUTO1 UM). simpl. f_equal. unfold add_allele. fold i.
        destruct CASE as [(-> & Hn & _) | (-> & Hn & _)].
        - destruct (i =? -1) eqn:E; [apply Z.eqb_eq in E; contradiction | reflexivity].
        - rewrite Hn. reflexivity. }
      split.
      { intros UM. rewrite (USER1 UM). destruct CASE as [(-> & _) | (_ & _ & _ & UM')]; [reflexivity | congruence]. }
      assert (STABLE : allele_index al1 d = i').
      { rewrite EX1. rewrite allele_index_app; [symmetry; assumption | congruence]. }
      split.
      { intros n0 d0 [X | X]; [inversion X; subst; congruence | eapply FOUND1; eauto]. }
      split.
      { intros k NB. rewrite KEEP1 by (intros; eapply NB; right; eassumption).
        apply OUT'. intro X. apply MEM in X. eapply NB; [left; reflexivity | exact X]. }
      split.
      { intros k ms1 n0 d0 ms2 E B NB. destruct ms1 as [|m1 ms1]; simpl in E.
        - inversion E; subst. rewrite KEEP1 by assumption. rewrite STABLE.
          apply IN'. apply MEM. exact B.
        - inversion E; subst. eapply LAST1; eauto. }
      lia.
  Qed.

  (* ---- mark_missing --------------------------------------------------------------------- *)

  Hypothesis IM : index_map_rep N (v_samples v) (v_index_map v).

  Lemma mark_roots_spec : forall roots g nm g' nm',
    NoDup roots ->
    mark_roots t (v_index_map v) roots g nm = Ok (g', nm') ->
    (forall r k, In r roots -> get (v_index_map v) r = Ok k -> k <> NULL -> get g k <> Ok MISSING) ->
    length g' = length g /\
    (forall k u, get (v_samples v) k = Ok u ->
       get g' k = if (existsb (Z.eqb u) roots &&
                      match get (left_child t) u with Ok lc => lc =? NULL | _ => false end)%bool
                  then Ok MISSING else get g k) /\
    nm' - nm = cm g' - cm g.
  Proof.
    destruct IM as (IMlen & IM1 & IM2).
    induction roots as [|r rest IH]; intros g nm g' nm' ND H FRESH; simpl in H.
    - inversion H; subst. split; [reflexivity|]. split; [intros; reflexivity | lia].
    - inversion ND as [|? ? NI ND']; subst.
      destruct (get (left_child t) r) as [lc| | |] eqn:LC; try discriminate. cbn [bind] in H.
      assert (SKIP : forall g0 nm0, mark_roots t (v_index_map v) rest g0 nm0 = Ok (g', nm') ->
                (forall r k, In r rest -> get (v_index_map v) r = Ok k -> k <> NULL -> get g0 k <> Ok MISSING) ->
                (forall k u, get (v_samples v) k = Ok u -> u = r ->
                    get g0 k = if (match get (left_child t) u with Ok lc => lc =? NULL | _ => false end)
                               then Ok MISSING else get g k) ->
                (forall k u, get (v_samples v) k = Ok u -> u <> r -> get g0 k = get g k) ->
                length g0 = length g -> nm0 - nm = cm g0 - cm g ->
                length g' = length g /\
                (forall k u, get (v_samples v) k = Ok u ->
                   get g' k = if (existsb (Z.eqb u) (r :: rest) &&
                                  match get (left_child t) u with Ok lc => lc =? NULL | _ => false end)%bool
                              then Ok MISSING else get g k) /\
                nm' - nm = cm g' - cm g).
      { intros g0 nm0 H0 FR0 AT OTHER L0 C0.
        destruct (IH _ _ _ _ ND' H0 FR0) as (L1 & V1 & C1).
        split; [congruence|]. split; [|lia].
        intros k u Hk. rewrite (V1 k u Hk). simpl existsb.
        destruct (Z.eq_dec u r) as [-> | Nur].
        - rewrite Z.eqb_refl. simpl orb.
          assert (X : existsb (Z.eqb r) rest = false).
          { destruct (existsb (Z.eqb r) rest) eqn:X; [|reflexivity]. exfalso. apply NI.
            apply existsb_exists in X as (y & Iy & Ey). apply Z.eqb_eq in Ey. subst. assumption. }
          rewrite X. simpl andb. rewrite (AT k r Hk eq_refl).
          destruct (get (left_child t) r) as [lc0| | |]; try reflexivity.
        - assert (X : (u =? r) = false) by (apply Z.eqb_neq; assumption). rewrite X. simpl orb.
          rewrite (OTHER k u Hk Nur). reflexivity. }
      destruct (lc =? NULL) eqn:ELC.
      + destruct (get (v_index_map v) r) as [si| | |] eqn:SI; try discriminate. cbn [bind] in H.
        destruct (negb (si =? NULL)) eqn:ESI.
        * apply negb_true_iff in ESI. apply Z.eqb_neq in ESI.
          destruct (set g si MISSING) as [g0| | |] eqn:SET; try discriminate. cbn [bind] in H.
          destruct (set_spec _ _ _ _ SET) as (L0 & R0 & G0 & O0).
          pose proof (IM1 _ _ SI ESI) as SR.
          apply (SKIP g0 (nm + 1) H).
          -- intros r' k' I' M' Nk'. rewrite O0.
             ++ eapply FRESH; [right; exact I' | exact M' | exact Nk'].
             ++ intro. subst k'. pose proof (IM1 _ _ M' Nk') as SR'. rewrite SR in SR'. inversion SR'. subst. contradiction.
          -- intros k u Hk ->. rewrite LC, ELC.
             destruct (IM2 _ _ Hk) as [M _]. rewrite SI in M. inversion M; subst. exact G0.
          -- intros k u Hk Nur. apply O0. intro. subst k. rewrite SR in Hk. inversion Hk. congruence.
          -- exact L0.
          -- destruct (get_in_range g si R0) as [old OLD].
             rewrite (cm_set _ _ _ _ _ SET OLD).
             assert (old <> MISSING).
             { intro. subst old. eapply FRESH; [left; reflexivity | exact SI | exact ESI | exact OLD]. }
             unfold bm. rewrite Z.eqb_refl. destruct (old =? MISSING) eqn:EO; [apply Z.eqb_eq in EO; contradiction | lia].
        * apply negb_false_iff in ESI. apply Z.eqb_eq in ESI. subst si.
          apply (SKIP g nm H).
          -- intros; eapply FRESH; eauto. right; assumption.
          -- intros k u Hk ->. destruct (IM2 _ _ Hk) as [M Nk]. rewrite SI in M. inversion M. congruence.
          -- reflexivity.
          -- reflexivity.
          -- lia.
      + apply (SKIP g nm H).
        -- intros; eapply FRESH; eauto. right; assumption.
        -- intros k u Hk ->. rewrite LC, ELC. reflexivity.
        -- reflexivity.
        -- reflexivity.
        -- lia.
  Qed.

  (* ---- leaves of the representation ---------------------------------------------------- *)

  Hypothesis KR : kids_rep par fuel t N.

  Lemma chain_null fl next : chain fl next NULL = Ok [].
  Proof. destruct fl; reflexivity. Qed.

  Lemma chain_nonnull fl next x ks : x <> NULL -> chain fl next x = Ok ks -> exists r, ks = x :: r.
  Proof.
    intros Hx H. destruct fl as [|f]; simpl in H.
    - destruct (x =? NULL) eqn:E; [apply Z.eqb_eq in E; contradiction | discriminate].
    - destruct (x =? NULL) eqn:E; [apply Z.eqb_eq in E; contradiction|].
      destruct (get next x) as [n| | |]; try discriminate. cbn [bind] in H.
      destruct (chain f next n) as [r| | |]; try discriminate. cbn [bind] in H. inversion H. eauto.
  Qed.

  (* left_child[u] == TSK_NULL iff u has no children *)
  Lemma lc_null_iff u : 0 <= u < N ->
    exists lc, get (left_child t) u = Ok lc /\ (lc = NULL <-> forall c, par c <> Some u).
  Proof.
    intros R. destruct (KR u R) as (ks & CH & _ & K). unfold children in CH.
    destruct (get (left_child t) u) as [lc| | |]; try discriminate. cbn [bind] in CH.
    exists lc. split; [reflexivity|]. split.
    - intros ->. rewrite chain_null in CH. inversion CH; subst. intros c Hc. apply K in Hc. contradiction.
    - intros NC. destruct (Z.eq_dec lc NULL) as [E | E]; [assumption|]. exfalso.
      destruct (chain_nonnull _ _ _ _ E CH) as [r ->]. apply (NC lc). apply K. left. reflexivity.
  Qed.

  Lemma sample_node_range k u : get (v_samples v) k = Ok u -> 0 <= u < N.
  Proof.
    intros H. destruct IM as (IMlen & _ & IM2). destruct (IM2 _ _ H) as [M _].
    rewrite <- IMlen. eapply get_range; eauto.
  Qed.

  Lemma mark_missing_spec g g' nm :
    roots_rep par fuel t N (v_index_map v) ->
    (forall k, get g k <> Ok MISSING) ->
    mark_missing fuel t (v_index_map v) g = Ok (g', nm) ->
    length g' = length g /\ nm = cm g' - cm g /\
    forall k u, get (v_samples v) k = Ok u ->
      exists b : bool, (b = true <-> isolated par u) /\
                       get g' k = if b then Ok MISSING else get g k.
  Proof.
    intros (rs & CH & ND & RR & RI) FRESH H. unfold mark_missing in H. rewrite CH in H. cbn [bind] in H.
    destruct (mark_roots_spec _ _ _ _ _ ND H) as (L & V & C); [intros; apply FRESH|].
    split; [assumption|]. split; [lia|].
    intros k u Hk. rewrite (V k u Hk).
    pose proof (sample_node_range _ _ Hk) as Ru.
    destruct (lc_null_iff u Ru) as (lc & LC & LCI). rewrite LC.
    destruct IM as (_ & _ & IM2). destruct (IM2 _ _ Hk) as [M Nk].
    exists (existsb (Z.eqb u) rs && (lc =? NULL))%bool. split; [|reflexivity].
    unfold isolated. rewrite andb_true_iff, Z.eqb_eq, LCI, <- (RI u k M Nk).
    rewrite existsb_exists. split.
    - intros [(x & Ix & Ex) NC]. apply Z.eqb_eq in Ex. subst. tauto.
    - intros [I NC]. split; [|assumption]. exists u. split; [assumption | apply Z.eqb_refl].
  Qed.

  (* ---- tsk_variant_decode ------------------------------------------------------------------ *)

  Definition muts_in_range (s : site) : Prop := forall n d, In (n, d) (s_mutations s) -> 0 <= n < N.

  (* The decoded result, characterised without any assumption on the order of the mutation
     list: "last painter wins". *)
  Theorem decode_spec s g al hm :
    (v_impute v = false -> roots_rep par fuel t N (v_index_map v)) ->
    muts_in_range s ->
    decode fuel t v s = Ok (g, al, hm) ->
    let a0 := allele_index al (s_ancestral s) in
    length g = length (v_samples v) /\
    a0 <> -1 /\
    (user_mode = false -> al = alleles_of (s_ancestral s) (map snd (s_mutations s))) /\
    (forall ua, v_user_alleles v = Some ua -> al = ua) /\
    (forall n d, In (n, d) (s_mutations s) -> allele_index al d <> -1) /\
    (forall k u, get (v_samples v) k = Ok u ->
       (forall n d, In (n, d) (s_mutations s) -> ~ anc par n u) ->
       exists b : bool, (b = true <-> isolated par u) /\
         get g k = Ok (if (negb (v_impute v) && b)%bool then MISSING else a0)) /\
    (forall k u ms1 n d ms2, get (v_samples v) k = Ok u ->
       s_mutations s = ms1 ++ (n, d) :: ms2 -> anc par n u ->
       (forall n' d', In (n', d') ms2 -> ~ anc par n' u) ->
       get g k = Ok (allele_index al d)) /\
    (hm = true <-> exists k, get g k = Ok MISSING).
  Proof.
    intros RR MR H a0. unfold decode, decode_st in H. cbn [fresh_state st_genotypes] in H.
    (* alleles at entry *)
    assert (ENTRY : exists al_in aidx,
              (match v_user_alleles v with
               | Some ua => al_in = ua /\ aidx = allele_index ua (s_ancestral s) /\ aidx <> -1
               | None => al_in = [s_ancestral s] /\ aidx = 0 end) /\
              aidx = allele_index al_in (s_ancestral s) /\ aidx <> -1 /\
              (do '(genos1, nm) <-
                  (if v_impute v then Ok (map (fun _ => aidx) (map (fun _ => 0) (v_samples v)), 0)
                   else mark_missing fuel t (v_index_map v) (map (fun _ => aidx) (map (fun _ => 0) (v_samples v))));
               do '(genos2, alleles2, nm2) <- decode_mutations fuel t v (genos1, al_in, nm) (s_mutations s);
               Ok (genos2, alleles2, negb (nm2 =? 0))) = Ok (g, al, hm)).
    { destruct (v_user_alleles v) as [ua|].
      - destruct (allele_index ua (s_ancestral s) =? -1) eqn:E; [discriminate|]. apply Z.eqb_neq in E.
        cbn [bind] in H. exists ua, (allele_index ua (s_ancestral s)). auto.
      - cbn [bind] in H. exists [s_ancestral s], 0.
        assert (X : allele_index [s_ancestral s] (s_ancestral s) = 0).
        { unfold allele_index. simpl. rewrite allele_eqb_refl. reflexivity. }
        rewrite X. repeat split; auto; lia. }
    clear H. destruct ENTRY as (al_in & aidx & MODE & EA & NA & H).
    set (gin := map (fun _ => aidx) (map (fun _ : Z => 0) (v_samples v))) in *.
    assert (Lin : length gin = length (v_samples v)) by (unfold gin; rewrite !map_length; reflexivity).
    assert (Gin : forall k, 0 <= k < zlen (v_samples v) -> get gin k = Ok aidx).
    { intros k Hk. unfold gin. apply get_map_const. unfold zlen in *. rewrite map_length. exact Hk. }
    assert (Fin : forall k, get gin k <> Ok MISSING).
    { intros k X. pose proof (get_range _ _ _ X) as Rk. rewrite (zlen_length gin (v_samples v)) in Rk by assumption.
      rewrite (Gin k Rk) in X. inversion X. pose proof (allele_index_ge al_in (s_ancestral s)).
      unfold MISSING in *. lia. }
    assert (Cin : cm gin = 0).
    { unfold gin. apply cm_const. unfold MISSING. pose proof (allele_index_ge al_in (s_ancestral s)). lia. }
    (* mark_missing *)
    assert (MARK : exists g1 nm1,
              (if v_impute v then Ok (gin, 0) else mark_missing fuel t (v_index_map v) gin) = Ok (g1, nm1) /\
              length g1 = length gin /\ nm1 = cm g1 /\
              (forall k u, get (v_samples v) k = Ok u ->
                 exists b : bool, (b = true <-> isolated par u) /\
                   get g1 k = Ok (if (negb (v_impute v) && b)%bool then MISSING else aidx))).
    { destruct (v_impute v) eqn:IMP.
      - exists gin, 0. split; [reflexivity|]. split; [reflexivity|]. split; [lia|].
        intros k u Hk. pose proof (sample_node_range _ _ Hk) as Ru.
        destruct (lc_null_iff u Ru) as (lc & LC & LCI).
        (* isolated is decidable here only via the arrays; in impute mode b is irrelevant *)
        assert (D : exists b : bool, b = true <-> isolated par u).
        { unfold isolated. destruct (par u) eqn:P.
          - exists false. split; [discriminate | intros [X _]; discriminate].
          - exists (lc =? NULL). rewrite Z.eqb_eq, LCI. tauto. }
        destruct D as [b Hb]. exists b. split; [assumption|]. simpl. apply Gin. eapply get_range; eauto.
      - destruct (mark_missing fuel t (v_index_map v) gin) as [[g1 nm1]| | |] eqn:MM; try discriminate.
        destruct (mark_missing_spec _ _ _ (RR eq_refl) Fin MM) as (L1 & C1 & V1).
        exists g1, nm1. split; [reflexivity|]. split; [assumption|]. split; [lia|].
        intros k u Hk. destruct (V1 k u Hk) as (b & Hb & Gb). exists b. split; [assumption|].
        rewrite Gb. simpl. destruct b; [reflexivity|]. apply Gin. eapply get_range; eauto. }
    destruct MARK as (g1 & nm1 & MM & L1 & C1 & V1). rewrite MM in H. cbn [bind] in H.
    destruct (decode_mutations fuel t v (g1, al_in, nm1) (s_mutations s)) as [[[g2 al2] nm2]| | |] eqn:DM;
      try discriminate.
    cbn [bind] in H. inversion H; subst g2 al2 hm. clear H.
    destruct (decode_mutations_spec _ _ _ _ _ _ _ MR DM)
      as (L2 & (ext & EXT) & AUTO & USER & FOUND & KEEP & LAST & CNT).
    assert (A0 : a0 = aidx).
    { unfold a0. rewrite EXT, allele_index_app; congruence. }
    split; [congruence|].
    split; [congruence|].
    split.
    { intros UM. rewrite (AUTO UM). unfold user_mode in UM. destruct (v_user_alleles v); [discriminate|].
      destruct MODE as [-> _]. reflexivity. }
    split.
    { intros ua Hua. rewrite Hua in MODE. destruct MODE as (-> & _). apply USER. unfold user_mode. rewrite Hua. reflexivity. }
    split; [assumption|].
    split.
    { intros k u Hk NONE. destruct (V1 k u Hk) as (b & Hb & Gb). exists b. split; [assumption|].
      rewrite A0, <- Gb. apply KEEP. intros n d I (u' & Hu' & A). rewrite Hk in Hu'. inversion Hu'; subst.
      eapply NONE; eauto. }
    split.
    { intros k u ms1 n d ms2 Hk E A NONE. eapply LAST; eauto.
      - exists u. split; assumption.
      - intros n' d' I (u' & Hu' & A'). rewrite Hk in Hu'. inversion Hu'; subst. eapply NONE; eauto. }
    assert (nm2 = cm g) by lia. subst nm2. rewrite <- cm_pos_iff. pose proof (cm_nonneg g).
    rewrite negb_true_iff, Z.eqb_neq. lia.
  Qed.
End Decode.
