(* C03 — facts about checked arrays, the genotype-writing loop [paint] and the missing count. *)
From Coq Require Import List ZArith Bool Lia.
From TskVerif Require Import Base.Common C03.Model.
Import ListNotations.
Open Scope Z_scope.

(* ---- get / set ------------------------------------------------------------------------- *)

Lemma get_nth_error {A} (l : list A) i a :
  get l i = Ok a <-> 0 <= i /\ nth_error l (Z.to_nat i) = Some a.
Proof.
  unfold get. destruct (i <? 0) eqn:E.
  - apply Z.ltb_lt in E. split; [discriminate | lia].
  - apply Z.ltb_ge in E. destruct (nth_error l (Z.to_nat i)) eqn:N; split; intros H.
    + inversion H; subst; auto.
    + destruct H as [_ H]. inversion H; reflexivity.
    + discriminate.
    + destruct H; discriminate.
Qed.

Lemma get_range {A} (l : list A) i a : get l i = Ok a -> 0 <= i < zlen l.
Proof. intros H. apply get_ok_iff. eauto. Qed.

Lemma get_in_range {A} (l : list A) i : 0 <= i < zlen l -> exists a, get l i = Ok a.
Proof. intros H. apply get_ok_iff. exact H. Qed.

Lemma get_In {A} (l : list A) i a : get l i = Ok a -> In a l.
Proof. intros H. apply get_nth_error in H as [_ H]. eapply nth_error_In; eauto. Qed.

Lemma get_not_ok {A} (l : list A) i : ~ (0 <= i < zlen l) -> get l i = OOB.
Proof.
  intros H. unfold get. destruct (i <? 0) eqn:E; [reflexivity|].
  apply Z.ltb_ge in E. destruct (nth_error l (Z.to_nat i)) eqn:N; [|reflexivity].
  exfalso. apply H. unfold zlen.
  assert (Z.to_nat i < length l)%nat by (apply nth_error_Some; congruence). lia.
Qed.

Lemma get_cases {A} (l : list A) i : (exists a, get l i = Ok a) \/ get l i = OOB.
Proof.
  destruct (Z_lt_dec i 0); [right; apply get_not_ok; lia|].
  destruct (Z_lt_dec i (zlen l)); [left; apply get_in_range; lia | right; apply get_not_ok; lia].
Qed.

Lemma set_nat_spec {A} (l : list A) i a l' :
  set_nat l i a = Some l' ->
  length l' = length l /\ nth_error l' i = Some a /\
  forall j, j <> i -> nth_error l' j = nth_error l j.
Proof.
  revert i l'; induction l as [|h t IH]; intros [|i] l' H; simpl in H; try discriminate.
  - inversion H; subst. repeat split. intros [|j] Hj; [congruence | reflexivity].
  - destruct (set_nat t i a) eqn:E; [|discriminate]. inversion H; subst.
    destruct (IH _ _ E) as (L & G & O). repeat split; simpl; auto.
    intros [|j] Hj; simpl; auto.
Qed.

Lemma set_nat_ok {A} (l : list A) i a : (i < length l)%nat -> exists l', set_nat l i a = Some l'.
Proof.
  revert i; induction l as [|h t IH]; intros [|i] H; simpl in *; try lia; eauto.
  destruct (IH i) as [l' E]; [lia|]. rewrite E. eauto.
Qed.

Lemma set_spec {A} (l : list A) i a l' :
  set l i a = Ok l' ->
  length l' = length l /\ 0 <= i < zlen l /\ get l' i = Ok a /\
  forall j, j <> i -> get l' j = get l j.
Proof.
  unfold set. destruct (i <? 0) eqn:E; [discriminate|]. apply Z.ltb_ge in E.
  destruct (set_nat l (Z.to_nat i) a) eqn:S; [|discriminate]. intros H; inversion H; subst.
  destruct (set_nat_spec _ _ _ _ S) as (L & G & O).
  assert (R : 0 <= i < zlen l).
  { unfold zlen. assert (Z.to_nat i < length l')%nat by (apply nth_error_Some; congruence). lia. }
  repeat split; try lia; auto.
  - apply get_nth_error. auto.
  - intros j Hj. unfold get. destruct (j <? 0) eqn:Ej; [reflexivity|]. apply Z.ltb_ge in Ej.
    rewrite O; [reflexivity|]. intro. apply Hj. lia.
Qed.

Lemma set_ok {A} (l : list A) i a : 0 <= i < zlen l -> exists l', set l i a = Ok l'.
Proof.
  intros H. unfold set. destruct (i <? 0) eqn:E; [apply Z.ltb_lt in E; lia|].
  destruct (set_nat_ok l (Z.to_nat i) a) as [l' S]; [unfold zlen in H; lia|]. rewrite S. eauto.
Qed.

Lemma zlen_length {A B} (l : list A) (l' : list B) : length l = length l' -> zlen l = zlen l'.
Proof. unfold zlen. intros ->. reflexivity. Qed.

Lemma list_ext_get {A} (l1 l2 : list A) :
  length l1 = length l2 -> (forall k, 0 <= k < zlen l1 -> get l1 k = get l2 k) -> l1 = l2.
Proof.
  revert l2; induction l1 as [|x l1 IH]; intros [|y l2] L H; simpl in L; try discriminate; auto.
  f_equal.
  - specialize (H 0). unfold get in H. simpl in H. assert (Ok x = Ok y) by (apply H; unfold zlen; simpl; lia).
    congruence.
  - apply IH; [lia|]. intros k Hk. specialize (H (k + 1)).
    assert (E : forall (l : list A) z, get (z :: l) (k + 1) = get l k).
    { intros l z. unfold get. destruct (k + 1 <? 0) eqn:E1; [apply Z.ltb_lt in E1; lia|].
      destruct (k <? 0) eqn:E2; [apply Z.ltb_lt in E2; lia|].
      replace (Z.to_nat (k + 1)) with (S (Z.to_nat k)) by lia. reflexivity. }
    rewrite !E in H. apply H. unfold zlen in *. simpl. lia.
Qed.

(* ---- the number of MISSING entries ------------------------------------------------------ *)

Definition bm (x : Z) : Z := if x =? MISSING then 1 else 0.

Fixpoint cm (g : list Z) : Z :=
  match g with [] => 0 | x :: r => bm x + cm r end.

Lemma cm_nonneg g : 0 <= cm g.
Proof. induction g as [|x r IH]; simpl; unfold bm in *; [lia|]. destruct (x =? MISSING); lia. Qed.

Lemma cm_set_nat g i d g' old :
  set_nat g i d = Some g' -> nth_error g i = Some old -> cm g' = cm g - bm old + bm d.
Proof.
  revert i g'; induction g as [|h t IH]; intros [|i] g' S N; simpl in *; try discriminate.
  - inversion S; inversion N; subst. simpl. lia.
  - destruct (set_nat t i d) eqn:E; [|discriminate]. inversion S; subst. simpl.
    rewrite (IH _ _ E N). lia.
Qed.

Lemma cm_set g i d g' old :
  set g i d = Ok g' -> get g i = Ok old -> cm g' = cm g - bm old + bm d.
Proof.
  unfold set. intros S G. apply get_nth_error in G as [P G].
  destruct (i <? 0); [discriminate|].
  destruct (set_nat g (Z.to_nat i) d) eqn:E; [|discriminate]. inversion S; subst.
  eapply cm_set_nat; eauto.
Qed.

Lemma cm_pos_iff g : 0 < cm g <-> exists k, get g k = Ok MISSING.
Proof.
  split.
  - induction g as [|x r IH]; simpl; [lia|]. unfold bm. destruct (x =? MISSING) eqn:E.
    + intros _. exists 0. apply Z.eqb_eq in E. subst. reflexivity.
    + intros H. destruct IH as [k Hk]; [lia|]. exists (k + 1).
      apply get_nth_error in Hk as [P Hk]. apply get_nth_error. split; [lia|].
      replace (Z.to_nat (k + 1)) with (S (Z.to_nat k)) by lia. exact Hk.
  - intros [k Hk]. apply get_In in Hk. induction g as [|x r IH]; simpl in *; [contradiction|].
    destruct Hk as [-> | Hk].
    + unfold bm. rewrite Z.eqb_refl. pose proof (cm_nonneg r). lia.
    + specialize (IH Hk). unfold bm. destruct (x =? MISSING); lia.
Qed.

Lemma cm_const c n : c <> MISSING -> cm (map (fun _ : Z => c) n) = 0.
Proof.
  intros H. induction n as [|x r IH]; simpl; [reflexivity|]. unfold bm.
  destruct (c =? MISSING) eqn:E; [apply Z.eqb_eq in E; contradiction|]. lia.
Qed.

Lemma get_map_const {A} (c : Z) (l : list A) k : 0 <= k < zlen l -> get (map (fun _ => c) l) k = Ok c.
Proof.
  intros H. destruct (get_in_range (map (fun _ => c) l) k) as [a Ha].
  { unfold zlen in *. rewrite map_length. exact H. }
  rewrite Ha. f_equal. apply get_In in Ha. apply in_map_iff in Ha as (x & E & _). congruence.
Qed.

(* ---- paint -------------------------------------------------------------------------------- *)

Lemma paint_spec idx : forall d g nlm g' nlm',
  paint idx d g nlm = Ok (g', nlm') ->
  length g' = length g /\
  (forall i, In i idx -> 0 <= i < zlen g) /\
  (forall k, In k idx -> get g' k = Ok d) /\
  (forall k, ~ In k idx -> get g' k = get g k) /\
  (d <> MISSING -> nlm' - nlm = cm g - cm g').
Proof.
  induction idx as [|i rest IH]; intros d g nlm g' nlm' H; simpl in H.
  - inversion H; subst. split; [|split; [|split; [|split]]]; auto; try (intros; contradiction). intros; lia.
  - destruct (get g i) as [old| | |] eqn:G; try discriminate. cbn [bind] in H.
    destruct (set g i d) as [g1| | |] eqn:S; try discriminate. cbn [bind] in H.
    destruct (IH _ _ _ _ _ H) as (L & R & P & O & C).
    destruct (set_spec _ _ _ _ S) as (L1 & R1 & G1 & O1).
    split; [|split; [|split; [|split]]].
    + congruence.
    + intros j [<- | Hj]; [exact R1|]. specialize (R j Hj). rewrite (zlen_length g1 g) in R; auto.
    + intros k [<- | Hk]; [|auto].
      destruct (in_dec Z.eq_dec i rest) as [I | I]; [auto|]. rewrite (O _ I). exact G1.
    + intros k Hk. rewrite O by (intro; apply Hk; right; assumption).
      apply O1. intro; apply Hk; left; congruence.
    + intros Hd. specialize (C Hd). rewrite (cm_set _ _ _ _ _ S G) in C.
      assert (bm d = 0) by (unfold bm; destruct (d =? MISSING) eqn:E; [apply Z.eqb_eq in E; contradiction | reflexivity]).
      fold (bm old) in C. lia.
Qed.

Lemma paint_ok idx : forall d g nlm,
  (forall i, In i idx -> 0 <= i < zlen g) -> exists g' nlm', paint idx d g nlm = Ok (g', nlm').
Proof.
  induction idx as [|i rest IH]; intros d g nlm H; simpl; [eauto|].
  destruct (get_in_range g i) as [old G]; [apply H; left; reflexivity|]. rewrite G. cbn [bind].
  destruct (set_ok g i d) as [g1 S]; [apply H; left; reflexivity|]. rewrite S. cbn [bind].
  apply IH. intros j Hj. destruct (set_spec _ _ _ _ S) as (L1 & _).
  rewrite (zlen_length g1 g) by assumption. apply H. right. assumption.
Qed.

(* the result of [paint] depends on the index list only as a set *)
Lemma paint_ext idx1 idx2 d g n g1 n1 g2 n2 :
  d <> MISSING ->
  (forall k, In k idx1 <-> In k idx2) ->
  paint idx1 d g n = Ok (g1, n1) -> paint idx2 d g n = Ok (g2, n2) -> g1 = g2 /\ n1 = n2.
Proof.
  intros Hd E P1 P2.
  destruct (paint_spec _ _ _ _ _ _ P1) as (L1 & _ & I1 & O1 & C1).
  destruct (paint_spec _ _ _ _ _ _ P2) as (L2 & _ & I2 & O2 & C2).
  assert (g1 = g2).
  { apply list_ext_get; [congruence|]. intros k _.
    destruct (in_dec Z.eq_dec k idx1) as [I | I].
    - rewrite (I1 _ I), (I2 _ (proj1 (E k) I)). reflexivity.
    - rewrite (O1 _ I). rewrite O2; [reflexivity|]. intro. apply I. apply E. assumption. }
  subst. split; [reflexivity|]. specialize (C1 Hd). specialize (C2 Hd). lia.
Qed.
