(* C03 — the property theorems about the model of tsk_variant_decode. *)
From Coq Require Import List ZArith Bool Lia.
From TskVerif Require Import Base.Common C03.Model C03.Spec C03.ArrayProofs C03.AlleleProofs
     C03.PaintProofs C03.DecodeProofs C03.TraverseProofs.
Import ListNotations.
Open Scope Z_scope.

Lemma tree_rep_painted par fuel t v N : tree_rep par fuel t v N -> painted_rep par fuel t v N.
Proof.
  intros (PD & IM & KR & RR & SL). destruct (v_by_traversal v) eqn:BT.
  - apply painted_rep_traversal; assumption.
  - apply painted_rep_sample_list; auto.
Qed.

Lemma has_mut_on_false muts u : has_mut_on muts u = false <-> forall d, ~ In (u, d) muts.
Proof.
  unfold has_mut_on. split.
  - intros H d I. assert (X : existsb (fun m => fst m =? u) muts = true).
    { apply existsb_exists. exists (u, d). split; [assumption | apply Z.eqb_refl]. }
    congruence.
  - intros H. destruct (existsb (fun m => fst m =? u) muts) eqn:E; [|reflexivity].
    apply existsb_exists in E as ([n d] & I & En). simpl in En. apply Z.eqb_eq in En. subst.
    exfalso. eapply H; eauto.
Qed.

(* ---- (a) + (b): the decoded genotypes follow the rule ---------------------------------- *)

Section Rule.
  Variable par : Z -> option Z.
  Variable fuel : nat.
  Variable t : tree.
  Variable v : variant.
  Variable N : Z.
  Variable s : site.
  Hypothesis TR : tree_rep par fuel t v N.
  Hypothesis MR : muts_in_range N s.
  Hypothesis OO : order_ok par (s_mutations s).

  Variables (g : list Z) (al : list allele) (hm : bool).
  Hypothesis DEC : decode fuel t v s = Ok (g, al, hm).

  Let SPEC := decode_spec par fuel t v N (tree_rep_painted _ _ _ _ _ TR)
                (proj1 (proj2 TR)) (proj1 (proj2 (proj2 TR))) s g al hm
                (proj1 (proj2 (proj2 (proj2 TR)))) MR DEC.

  (* (a) every non-missing genotype is the (first) index of the state the rule prescribes *)
  Lemma paint_nearest_l k u r :
    get (v_samples v) k = Ok u -> nearest par (s_mutations s) u r ->
    exists gk, get g k = Ok gk /\
      (gk = MISSING \/
       (gk = allele_index al (state_of (s_ancestral s) r) /\
        get al gk = Ok (state_of (s_ancestral s) r))).
  Proof.
    intros Hk NR. destruct SPEC as (_ & A0 & _ & _ & FOUND & NONE & LAST & _). clear SPEC.
    destruct r as [d|]; simpl.
    - destruct (nearest_is_last par _ _ _ OO NR) as (ms1 & n & ms2 & E & A & NL).
      exists (allele_index al d). split; [eapply LAST; eauto|]. right. split; [reflexivity|].
      apply allele_index_found. apply (FOUND n d). rewrite E. apply in_or_app. right. left. reflexivity.
    - destruct (NONE k u Hk (nearest_none par _ _ NR)) as (b & _ & G).
      destruct (negb (v_impute v) && b)%bool.
      + exists MISSING. split; [assumption | left; reflexivity].
      + exists (allele_index al (s_ancestral s)). split; [assumption|]. right. split; [reflexivity|].
        apply allele_index_found. assumption.
  Qed.

  (* (b) exactly the isolated requested samples without a mutation on them are missing *)
  Lemma missing_exact_l k u r :
    get (v_samples v) k = Ok u -> nearest par (s_mutations s) u r ->
    (get g k = Ok MISSING <->
     v_impute v = false /\ isolated par u /\ has_mut_on (s_mutations s) u = false).
  Proof.
    intros Hk NR. destruct SPEC as (_ & A0 & _ & _ & FOUND & NONE & LAST & _). clear SPEC.
    destruct r as [d|].
    - destruct (nearest_is_last par _ _ _ OO NR) as (ms1 & n & ms2 & E & A & NL).
      rewrite (LAST k u ms1 n d ms2 Hk E A NL). split.
      + intros X. inversion X as [X']. exfalso. apply (FOUND n d); [|exact X'].
        rewrite E. apply in_or_app. right. left. reflexivity.
      + intros (_ & [P _] & HM). exfalso. inversion NR; subst; [|congruence].
        rewrite has_mut_on_false in HM. eapply HM. eapply last_on_in. eassumption.
    - pose proof (nearest_none par _ _ NR) as NA.
      destruct (NONE k u Hk NA) as (b & Hb & G). rewrite G.
      assert (HM : has_mut_on (s_mutations s) u = false).
      { apply has_mut_on_false. intros d I. apply (NA u d I). apply anc_refl. }
      destruct (v_impute v); simpl.
      + split; [intros X; inversion X; contradiction | intros (X & _); discriminate].
      + destruct b; split.
        * intros _. split; [reflexivity|]. split; [apply Hb; reflexivity | assumption].
        * reflexivity.
        * intros X; inversion X; contradiction.
        * intros (_ & I & _). apply Hb in I. discriminate.
  Qed.

  Lemma has_missing_l : hm = true <-> exists k, get g k = Ok MISSING.
  Proof. destruct SPEC as (_ & _ & _ & _ & _ & _ & _ & X). exact X. Qed.

  Lemma genotypes_length_l : length g = length (v_samples v).
  Proof. destruct SPEC as (X & _). exact X. Qed.
End Rule.

(* ---- (c) the allele list --------------------------------------------------------------- *)

Lemma decode_mutations_alleles fuel t v : forall ms g0 al0 nm0 g1 al1 nm1,
  decode_mutations fuel t v (g0, al0, nm0) ms = Ok (g1, al1, nm1) ->
  match v_user_alleles v with
  | Some _ => al1 = al0 /\ forall d, In d (map snd ms) -> allele_index al0 d <> -1
  | None => al1 = fold_left add_allele (map snd ms) al0
  end.
Proof.
  induction ms as [|[n d] rest IH]; intros g0 al0 nm0 g1 al1 nm1 H; simpl in H.
  - inversion H; subst. destruct (v_user_alleles v); [split; [reflexivity | intros ? []] | reflexivity].
  - destruct (allele_index al0 d =? -1) eqn:E.
    + destruct (v_user_alleles v) eqn:U; [discriminate|]. cbn [bind] in H.
      destruct (update_genotypes fuel t v n (zlen al0) g0) as [[g' nlm]| | |]; try discriminate.
      cbn [bind] in H. specialize (IH _ _ _ _ _ _ H). rewrite IH. simpl.
      f_equal. unfold add_allele. rewrite E. reflexivity.
    + cbn [bind] in H.
      destruct (update_genotypes fuel t v n (allele_index al0 d) g0) as [[g' nlm]| | |]; try discriminate.
      cbn [bind] in H. specialize (IH _ _ _ _ _ _ H). apply Z.eqb_neq in E.
      destruct (v_user_alleles v).
      * destruct IH as [-> F]. split; [reflexivity|]. intros d' [<- | I]; [assumption | auto].
      * rewrite IH. simpl. f_equal. unfold add_allele.
        destruct (allele_index al0 d =? -1) eqn:E'; [apply Z.eqb_eq in E'; contradiction | reflexivity].
Qed.

(* no hypothesis on the tree at all: the alleles depend on the site (and the user list) only *)
Lemma decode_alleles fuel t v st s g al hm :
  decode_st fuel t v st s = Ok (g, al, hm) ->
  match v_user_alleles v with
  | Some ua => al = ua /\ allele_index ua (s_ancestral s) <> -1 /\
               forall d, In d (map snd (s_mutations s)) -> allele_index ua d <> -1
  | None => al = alleles_of (s_ancestral s) (map snd (s_mutations s))
  end.
Proof.
  unfold decode_st. intros H.
  destruct (v_user_alleles v) as [ua|] eqn:U.
  - destruct (allele_index ua (s_ancestral s) =? -1) eqn:E; [discriminate|]. apply Z.eqb_neq in E.
    cbn [bind] in H.
    destruct (if v_impute v then _ else _) as [[g1 nm]| | |]; try discriminate. cbn [bind] in H.
    destruct (decode_mutations fuel t v (g1, ua, nm) (s_mutations s)) as [[[g2 al2] nm2]| | |] eqn:DM;
      try discriminate.
    cbn [bind] in H. inversion H; subst. pose proof (decode_mutations_alleles _ _ _ _ _ _ _ _ _ _ DM) as X.
    rewrite U in X. destruct X as [-> F]. auto.
  - cbn [bind] in H.
    destruct (if v_impute v then _ else _) as [[g1 nm]| | |]; try discriminate. cbn [bind] in H.
    destruct (decode_mutations fuel t v (g1, [s_ancestral s], nm) (s_mutations s)) as [[[g2 al2] nm2]| | |] eqn:DM;
      try discriminate.
    cbn [bind] in H. inversion H; subst. pose proof (decode_mutations_alleles _ _ _ _ _ _ _ _ _ _ DM) as X.
    rewrite U in X. exact X.
Qed.

Lemma alleles_first_is_ancestral_l fuel t v st s g al hm :
  v_user_alleles v = None ->
  decode_st fuel t v st s = Ok (g, al, hm) ->
  al = alleles_of (s_ancestral s) (map snd (s_mutations s)) /\
  (exists rest, al = s_ancestral s :: rest) /\
  NoDup al /\
  (forall a, In a al <-> a = s_ancestral s \/ In a (map snd (s_mutations s))).
Proof.
  intros U H. pose proof (decode_alleles _ _ _ _ _ _ _ _ H) as X. rewrite U in X. subst al.
  split; [reflexivity|]. split; [apply alleles_of_head|]. split; [apply alleles_of_NoDup|].
  apply alleles_of_In.
Qed.

Lemma user_alleles_l fuel t v st s ua :
  v_user_alleles v = Some ua ->
  (* an absent ancestral state is the error TSK_ERR_ALLELE_NOT_FOUND *)
  (~ In (s_ancestral s) ua -> decode_st fuel t v st s = Err ERR_ALLELE_NOT_FOUND) /\
  (* success returns the user's list unchanged, and every state of the site is in it *)
  (forall g al hm, decode_st fuel t v st s = Ok (g, al, hm) ->
     al = ua /\ In (s_ancestral s) ua /\ forall d, In d (map snd (s_mutations s)) -> In d ua).
Proof.
  intros U. split.
  - intros NI. unfold decode_st. rewrite U. apply allele_index_absent in NI. rewrite NI. reflexivity.
  - intros g al hm H. pose proof (decode_alleles _ _ _ _ _ _ _ _ H) as X. rewrite U in X.
    destruct X as (-> & A & F). split; [reflexivity|]. split.
    + destruct (in_dec (list_eq_dec Z.eq_dec) (s_ancestral s) ua) as [I | I]; [assumption|].
      apply allele_index_absent in I. contradiction.
    + intros d Hd. destruct (in_dec (list_eq_dec Z.eq_dec) d ua) as [I | I]; [assumption|].
      apply allele_index_absent in I. exfalso. eapply F; eauto.
Qed.

(* ---- (d) + (e): the result is determined by the abstract forest, the site and the options -- *)

Section Determined.
  Variable par : Z -> option Z.
  Variable N : Z.
  Variable h : nat.
  Hypothesis HT : forall u, depth_le par h u.

  Lemma anc_dec a u : {anc par a u} + {~ anc par a u}.
  Proof.
    destruct (anc_b par h a u) eqn:E.
    - left. eapply anc_b_sound; eauto.
    - right. intro A. rewrite (anc_b_complete par a h u (HT u) A) in E. discriminate.
  Qed.

  (* either nothing paints u, or there is a last painter *)
  Lemma last_painter_dec (muts : list (Z * allele)) u :
    (forall n d, In (n, d) muts -> ~ anc par n u) \/
    (exists ms1 n d ms2, muts = ms1 ++ (n, d) :: ms2 /\ anc par n u /\
       forall n' d', In (n', d') ms2 -> ~ anc par n' u).
  Proof.
    induction muts as [|[n d] rest IH].
    - left. intros ? ? [].
    - destruct IH as [NONE | (ms1 & n0 & d0 & ms2 & E & A & NL)].
      + destruct (anc_dec n u) as [A | NA].
        * right. exists [], n, d, rest. auto.
        * left. intros n' d' [X | X]; [inversion X; subst; assumption | eauto].
      + right. exists ((n, d) :: ms1), n0, d0, ms2. rewrite E. auto.
  Qed.

  Lemma decode_determined_l s fuel1 t1 v1 fuel2 t2 v2 r1 r2 :
    v_samples v1 = v_samples v2 -> v_impute v1 = v_impute v2 ->
    v_user_alleles v1 = v_user_alleles v2 ->
    tree_rep par fuel1 t1 v1 N -> tree_rep par fuel2 t2 v2 N -> muts_in_range N s ->
    decode fuel1 t1 v1 s = Ok r1 -> decode fuel2 t2 v2 s = Ok r2 -> r1 = r2.
  Proof.
    intros ES EI EU TR1 TR2 MR D1 D2.
    destruct r1 as [[g1 al1] hm1]. destruct r2 as [[g2 al2] hm2].
    assert (EA : al1 = al2).
    { pose proof (decode_alleles _ _ _ _ _ _ _ _ D1) as X1.
      pose proof (decode_alleles _ _ _ _ _ _ _ _ D2) as X2. rewrite <- EU in X2.
      destruct (v_user_alleles v1); [destruct X1 as [-> _]; destruct X2 as [-> _]; reflexivity | congruence]. }
    subst al2.
    pose proof (decode_spec par fuel1 t1 v1 N (tree_rep_painted _ _ _ _ _ TR1)
                  (proj1 (proj2 TR1)) (proj1 (proj2 (proj2 TR1))) s g1 al1 hm1
                  (proj1 (proj2 (proj2 (proj2 TR1)))) MR D1) as (L1 & _ & _ & _ & _ & NONE1 & LAST1 & HM1).
    pose proof (decode_spec par fuel2 t2 v2 N (tree_rep_painted _ _ _ _ _ TR2)
                  (proj1 (proj2 TR2)) (proj1 (proj2 (proj2 TR2))) s g2 al1 hm2
                  (proj1 (proj2 (proj2 (proj2 TR2)))) MR D2) as (L2 & _ & _ & _ & _ & NONE2 & LAST2 & HM2).
    assert (EG : g1 = g2).
    { apply list_ext_get; [congruence|]. intros k Rk.
      rewrite (zlen_length g1 (v_samples v1)) in Rk by assumption.
      destruct (get_in_range _ _ Rk) as [u Hu]. pose proof Hu as Hu2. rewrite ES in Hu2.
      destruct (last_painter_dec (s_mutations s) u) as [NP | (ms1 & n & d & ms2 & E & A & NL)].
      - destruct (NONE1 k u Hu NP) as (b1 & B1 & G1). destruct (NONE2 k u Hu2 NP) as (b2 & B2 & G2).
        assert (b1 = b2).
        { destruct b1, b2; try reflexivity.
          - symmetry. apply B2, B1. reflexivity.
          - apply B1, B2. reflexivity. }
        subst. rewrite G1, G2, EI. reflexivity.
      - rewrite (LAST1 k u _ _ _ _ Hu E A NL), (LAST2 k u _ _ _ _ Hu2 E A NL). reflexivity. }
    subst g2. f_equal. destruct hm1, hm2; try reflexivity.
    - symmetry. apply HM2, HM1. reflexivity.
    - apply HM1, HM2. reflexivity.
  Qed.
End Determined.

Lemma rule_total_l par muts h u : depth_le par h u -> exists r, nearest par muts u r.
Proof.
  intros D. destruct (nearest_f_total par muts h u D) as [r E].
  exists r. exact (nearest_f_sound par h muts u r E).
Qed.

Lemma has_missing_data_exact_l par fuel t v N s :
  tree_rep par fuel t v N -> muts_in_range N s ->
  forall g al hm, decode fuel t v s = Ok (g, al, hm) ->
  length g = length (v_samples v) /\ (hm = true <-> exists k, get g k = Ok MISSING).
Proof.
  intros TR MR g al hm D.
  split; [exact (genotypes_length_l par fuel t v N s TR MR g al hm D)
         | exact (has_missing_l par fuel t v N s TR MR g al hm D)].
Qed.

Lemma traversal_equals_sample_list_l par N h : (forall u, depth_le par h u) ->
  forall s fuel t v1 v2 r1 r2,
  v_by_traversal v1 = false -> v_by_traversal v2 = true ->
  v_samples v1 = v_samples v2 -> v_impute v1 = v_impute v2 ->
  v_user_alleles v1 = v_user_alleles v2 ->
  tree_rep par fuel t v1 N -> tree_rep par fuel t v2 N -> muts_in_range N s ->
  decode fuel t v1 s = Ok r1 -> decode fuel t v2 s = Ok r2 -> r1 = r2.
Proof.
  intros HT s fuel t v1 v2 r1 r2 _ _.
  exact (decode_determined_l par N h HT s fuel t v1 fuel t v2 r1 r2).
Qed.

(* (a)+(b) together, with the rule's value supplied by [rule_total] *)
Lemma decode_follows_rule_l par fuel t v N h s :
  tree_rep par fuel t v N -> muts_in_range N s -> order_ok par (s_mutations s) ->
  (forall u, depth_le par h u) ->
  forall g al hm, decode fuel t v s = Ok (g, al, hm) ->
  forall k u, get (v_samples v) k = Ok u ->
  exists r, nearest par (s_mutations s) u r /\
    let missing := v_impute v = false /\ isolated par u /\ has_mut_on (s_mutations s) u = false in
    (missing /\ get g k = Ok MISSING) \/
    (~ missing /\ get g k = Ok (allele_index al (state_of (s_ancestral s) r)) /\
     get al (allele_index al (state_of (s_ancestral s) r)) = Ok (state_of (s_ancestral s) r)).
Proof.
  intros TR MR OO HT g al hm D k u Hk.
  destruct (rule_total_l par (s_mutations s) h u (HT u)) as [r NR]. exists r. split; [assumption|].
  cbv zeta.
  pose proof (missing_exact_l par fuel t v N s TR MR OO g al hm D k u r Hk NR) as ME.
  destruct (paint_nearest_l par fuel t v N s TR MR OO g al hm D k u r Hk NR) as (gk & G & [M | [E GA]]).
  - subst gk. left. split; [apply ME; assumption | assumption].
  - right. split; [|subst gk; split; assumption].
    intros C. apply ME in C. rewrite G in C. inversion C as [C'].
    pose proof (get_range _ _ _ GA). unfold MISSING in C'. lia.
Qed.
