(* C03 — the property text as definitions, the representation hypotheses that tie the tree
   arrays to the abstract forest, and their boolean checkers (evaluated by the correspondence
   check on the arrays of the real tree for every case).  Definitions only; proofs are in
   PaintProofs.v / ArrayProofs.v / DecodeProofs.v / CheckProofs.v. *)
From Coq Require Import List ZArith Bool Lia.
From TskVerif Require Import Base.Common C03.Model.
Import ListNotations.
Open Scope Z_scope.

(* ---- the abstract forest -------------------------------------------------------------- *)
Section Forest.
  Variable par : Z -> option Z.          (* parent of a node at the site's position *)

  (* [anc a u] : a is u or an ancestor of u *)
  Inductive anc (a : Z) : Z -> Prop :=
  | anc_refl : anc a a
  | anc_step u p : par u = Some p -> anc a p -> anc a u.

  Definition isolated (u : Z) : Prop := par u = None /\ forall v, par v <> Some u.

  (* every walk towards the root ends within [h] steps (acyclic, finite height) *)
  Fixpoint depth_le (h : nat) (u : Z) : Prop :=
    match par u with
    | None => True
    | Some p => match h with O => False | S h' => depth_le h' p end
    end.

  (* derived state of the last mutation (table order) sitting on node u *)
  Fixpoint last_on (muts : list (Z * allele)) (u : Z) : option allele :=
    match muts with
    | [] => None
    | (n, d) :: rest =>
        match last_on rest u with
        | Some d' => Some d'
        | None => if n =? u then Some d else None
        end
    end.

  (* THE RULE: the derived state of the nearest mutation on the path from u towards its root
     (the latest in table order among several on the same node), [None] if there is none. *)
  Inductive nearest (muts : list (Z * allele)) : Z -> option allele -> Prop :=
  | near_here u d : last_on muts u = Some d -> nearest muts u (Some d)
  | near_root u : last_on muts u = None -> par u = None -> nearest muts u None
  | near_up u p r : last_on muts u = None -> par u = Some p -> nearest muts p r ->
                    nearest muts u r.

  (* executable version of the rule ([None] = out of fuel) *)
  Fixpoint nearest_f (fuel : nat) (muts : list (Z * allele)) (u : Z) : option (option allele) :=
    match last_on muts u with
    | Some d => Some (Some d)
    | None =>
        match par u with
        | None => Some None
        | Some p => match fuel with O => None | S f => nearest_f f muts p end
        end
    end.

  (* The order hypothesis on the mutation list of a site ("parents precede children"): no
     mutation sits on a proper ancestor of the node of an *earlier* mutation. *)
  Definition order_ok (muts : list (Z * allele)) : Prop :=
    forall ms1 ni di ms2 nj dj,
      muts = ms1 ++ (ni, di) :: ms2 -> In (nj, dj) ms2 -> anc nj ni -> nj = ni.

  (* ---- representation hypotheses (what C01 / C06 establish about the tree arrays) -------- *)

  (* only nodes 0..N-1 take part in the forest *)
  Definition par_dom (N : Z) : Prop :=
    forall c p, par c = Some p -> 0 <= c < N /\ 0 <= p < N.

  (* left_child / right_sib chains list exactly the children *)
  Definition kids_rep (fuel : nat) (t : tree) (N : Z) : Prop :=
    forall u, 0 <= u < N -> exists ks, children fuel t u = Ok ks /\ NoDup ks /\
      forall v, In v ks <-> par v = Some u.

  (* the chain under the virtual root lists, among the requested nodes, exactly the parentless *)
  Definition roots_rep (fuel : nat) (t : tree) (N : Z) (map : list Z) : Prop :=
    exists rs, children fuel t (virtual_root t) = Ok rs /\
      NoDup rs /\
      (forall r, In r rs -> 0 <= r < N) /\
      forall u k, get map u = Ok k -> k <> NULL -> (In u rs <-> par u = None).

  (* sample lists: left_sample[n] .. right_sample[n] lists exactly the sample indexes below n *)
  Definition sample_lists_rep (fuel : nat) (t : tree) (N : Z) (samples : list Z) : Prop :=
    forall n, 0 <= n < N -> exists l, sample_chain fuel t n = Ok l /\
      forall k, In k l <-> exists u, get samples k = Ok u /\ anc n u.

  (* sample_index_map is the reverse of samples *)
  Definition index_map_rep (N : Z) (samples map : list Z) : Prop :=
    zlen map = N /\
    (forall u k, get map u = Ok k -> k <> NULL -> get samples k = Ok u) /\
    (forall k u, get samples k = Ok u -> get map u = Ok k /\ k <> NULL).
End Forest.

(* ---- the expected decode result according to the rule -------------------------------------- *)

Definition state_of (anc_state : allele) (r : option allele) : allele :=
  match r with Some d => d | None => anc_state end.

Definition has_mut_on (muts : list (Z * allele)) (u : Z) : bool :=
  existsb (fun m => fst m =? u) muts.

(* ---- boolean checkers ---------------------------------------------------------------------- *)

Definition par_of (parent : list Z) (u : Z) : option Z :=
  match get parent u with
  | Ok p => if p =? NULL then None else Some p
  | _ => None
  end.

Definition zrange (n : Z) : list Z := map Z.of_nat (seq 0 (Z.to_nat n)).

Fixpoint anc_b (par : Z -> option Z) (fuel : nat) (a u : Z) : bool :=
  if a =? u then true else
  match par u with
  | None => false
  | Some p => match fuel with O => false | S f => anc_b par f a p end
  end.

Fixpoint depth_le_b (par : Z -> option Z) (h : nat) (u : Z) : bool :=
  match par u with
  | None => true
  | Some p => match h with O => false | S h' => depth_le_b par h' p end
  end.

Definition mem (x : Z) (l : list Z) : bool := existsb (Z.eqb x) l.

Fixpoint nodup_b (l : list Z) : bool :=
  match l with [] => true | x :: r => negb (mem x r) && nodup_b r end.

Definition opt_is (o : option Z) (u : Z) : bool :=
  match o with Some p => p =? u | None => false end.

Definition kids_rep_b (par : Z -> option Z) (fuel : nat) (t : tree) (N : Z) : bool :=
  forallb (fun u =>
    match children fuel t u with
    | Ok ks => nodup_b ks && forallb (fun v => opt_is (par v) u) ks &&
               forallb (fun v => implb (opt_is (par v) u) (mem v ks)) (zrange N)
    | _ => false
    end) (zrange N).

Definition roots_rep_b (par : Z -> option Z) (fuel : nat) (t : tree) (N : Z) (map : list Z) : bool :=
  match children fuel t (virtual_root t) with
  | Ok rs =>
      nodup_b rs &&
      forallb (fun r => (0 <=? r) && (r <? N)) rs &&
      forallb (fun u => match get map u with
                        | Ok k => (k =? NULL) ||
                                  Bool.eqb (mem u rs) (match par u with None => true | _ => false end)
                        | _ => true end) (zrange N)
  | _ => false
  end.

Definition sample_lists_rep_b (par : Z -> option Z) (fuel : nat) (t : tree) (N : Z)
           (samples : list Z) : bool :=
  forallb (fun n =>
    match sample_chain fuel t n with
    | Ok l =>
        forallb (fun k => match get samples k with Ok u => anc_b par fuel n u | _ => false end) l &&
        forallb (fun k => match get samples k with
                          | Ok u => implb (anc_b par fuel n u) (mem k l)
                          | _ => true end) (zrange (zlen samples))
    | _ => false
    end) (zrange N).

Definition index_map_rep_b (N : Z) (samples map : list Z) : bool :=
  (zlen map =? N) &&
  forallb (fun u => match get map u with
                    | Ok k => (k =? NULL) || match get samples k with Ok u' => u' =? u | _ => false end
                    | _ => false end) (zrange N) &&
  forallb (fun k => match get samples k with
                    | Ok u => match get map u with Ok k' => (k' =? k) && negb (k =? NULL) | _ => false end
                    | _ => false end) (zrange (zlen samples)).

Definition height_ok_b (par : Z -> option Z) (h : nat) (N : Z) : bool :=
  forallb (fun u => depth_le_b par h u &&
                    match par u with Some p => (0 <=? p) && (p <? N) | None => true end) (zrange N).

Definition order_ok_b (par : Z -> option Z) (fuel : nat) (muts : list (Z * allele)) : bool :=
  (fix go (ms : list (Z * allele)) : bool :=
     match ms with
     | [] => true
     | (ni, _) :: rest =>
         forallb (fun m => implb (anc_b par fuel (fst m) ni) (fst m =? ni)) rest && go rest
     end) muts.

Definition muts_in_range_b (N : Z) (muts : list (Z * allele)) : bool :=
  forallb (fun m => (0 <=? fst m) && (fst m <? N)) muts.

(* all the hypotheses of the C03 theorems, on concrete data *)
Definition hyps_b (parent : list Z) (t : tree) (v : variant) (s : site) : bool :=
  let par := par_of parent in
  let N := zlen parent in
  let fuel := default_fuel t in
  (v_num_nodes v =? N) &&
  height_ok_b par fuel N &&
  muts_in_range_b N (s_mutations s) &&
  order_ok_b par fuel (s_mutations s) &&
  index_map_rep_b N (v_samples v) (v_index_map v) &&
  kids_rep_b par fuel t N &&
  (v_impute v || roots_rep_b par fuel t N (v_index_map v)) &&
  (v_by_traversal v || sample_lists_rep_b par fuel t N (v_samples v)).

(* the rule, evaluated: expected allele state of every requested node; None = missing.
   Outer None = out of fuel / sample out of range. *)
Definition isolated_b (par : Z -> option Z) (N : Z) (u : Z) : bool :=
  match par u with
  | None => forallb (fun v => negb (opt_is (par v) u)) (zrange N)
  | Some _ => false
  end.

Definition rule_row (parent : list Z) (fuel : nat) (v : variant) (s : site)
  : option (list (option allele)) :=
  let par := par_of parent in
  let N := zlen parent in
  (fix go (nodes : list Z) : option (list (option allele)) :=
     match nodes with
     | [] => Some []
     | u :: rest =>
         match nearest_f par fuel (s_mutations s) u, go rest with
         | Some r, Some row =>
             if negb (v_impute v) && isolated_b par N u && negb (has_mut_on (s_mutations s) u)
             then Some (None :: row)
             else Some (Some (state_of (s_ancestral s) r) :: row)
         | _, _ => None
         end
     end) (v_samples v).

(* the decoded row as allele states *)
Definition decoded_row (r : decode_result) : option (list (option allele)) :=
  let '(genos, alleles, _) := r in
  (fix go (gs : list Z) : option (list (option allele)) :=
     match gs with
     | [] => Some []
     | g :: rest =>
         match go rest with
         | None => None
         | Some row =>
             if g =? MISSING then Some (None :: row) else
             match get alleles g with Ok a => Some (Some a :: row) | _ => None end
         end
     end) genos.

Definition row_eqb (a b : option (list (option allele))) : bool :=
  opt_eqb (list_eqb (opt_eqb allele_eqb)) a b.

(* one correspondence case: hypotheses hold on the real arrays; the model's decode equals the
   implementation's observation; and (when decoding succeeded) the model's result reads as
   the rule says — the last is what the theorems prove, re-evaluated here on real cases. *)
Definition check_decode (parent : list Z) (t : tree) (v : variant) (s : site)
           (observed : res decode_result) : bool :=
  let fuel := default_fuel t in
  let r := decode fuel t v s in
  hyps_b parent t v s &&
  res_eqb result_eqb r observed &&
  match r with
  | Ok dr => row_eqb (decoded_row dr) (rule_row parent fuel v s)
  | _ => true
  end.

(* ---- all representation hypotheses of the C03 theorems, bundled ---------------------------- *)
Definition tree_rep (par : Z -> option Z) (fuel : nat) (t : tree) (v : variant) (N : Z) : Prop :=
  par_dom par N /\
  index_map_rep N (v_samples v) (v_index_map v) /\
  kids_rep par fuel t N /\
  (v_impute v = false -> roots_rep par fuel t N (v_index_map v)) /\
  (v_by_traversal v = false -> sample_lists_rep par fuel t N (v_samples v)).
