(* C03 — non-vacuity: concrete inputs meeting every hypothesis of the property theorems
   (checked through the sound boolean checkers), with non-trivial conclusions. *)
From Coq Require Import List ZArith Bool Lia.
From TskVerif Require Import Base.Common C03.Model C03.Spec C03.ArrayProofs C03.AlleleProofs
     C03.PaintProofs C03.DecodeProofs C03.TraverseProofs C03.RuleProofs C03.CheckProofs C03.TotalProofs
     C03.DfsTotalProofs C03.MutParents C03.ParentProofs C03.SeekProofs C03.SampleListProofs C03.NodeInvariantProofs.
Import ListNotations.
Open Scope Z_scope.

(* 7 nodes: samples 0,1,2 under 4 -> 5 (0,1 below 4; 4,2 below 5); 3 and 6 are isolated
   samples.  Site with ancestral "A" (65) and, in table order, mutations
   5:"C", 4:"G", 4:"T" (second mutation on the same node), 0:"C" (recurrent), 6:"G"
   (above an isolated sample). *)
Definition ex_parent : list Z := [4; 4; 5; -1; 5; -1; -1].
Definition ex_tree : tree :=
  mkTree [-1; -1; -1; -1; 0; 4; -1; 5]      (* left_child, entry 7 = virtual root *)
         [1; -1; -1; 6; 2; 3; -1; -1]       (* right_sib: roots 5 -> 3 -> 6 *)
         [0; 1; 2; 3; 0; 0; 4]              (* left_sample *)
         [0; 1; 2; 3; 1; 2; 4]              (* right_sample *)
         [1; 2; -1; -1; -1]                 (* next_sample *)
         7.
Definition A := [65]. Definition C := [67]. Definition G := [71]. Definition T := [84].
Definition ex_site : site := mkSite A [(5, C); (4, G); (4, T); (0, C); (6, G)].
Definition ex_flags : list Z := [1; 1; 1; 1; 0; 0; 1].

(* default samples, isolated_as_missing: sample-list path *)
Definition ex_v1 : variant :=
  mkVariant 7 [0; 1; 2; 3; 6] [0; 1; 2; 3; -1; -1; 4] false false None.
(* requested nodes incl. the non-sample 4, isolated_as_missing=False: traversal path *)
Definition ex_v2 : variant :=
  mkVariant 7 [4; 6; 1; 3] [-1; 2; -1; 3; 0; -1; 1] true true None.
(* the same samples as ex_v1 through the traversal path, user alleles with a duplicate *)
Definition ex_v3 : variant :=
  mkVariant 7 [0; 1; 2; 3; 6] [0; 1; 2; 3; -1; -1; 4] true false (Some [T; G; T; C; A]).

Example ex_init1 : variant_init ex_flags [0; 1; 2; 3; 6] [0; 1; 2; 3; -1; -1; 4] None None false = Ok ex_v1.
Proof. reflexivity. Qed.
Example ex_init2 : variant_init ex_flags [0; 1; 2; 3; 6] [0; 1; 2; 3; -1; -1; 4] (Some [4; 6; 1; 3]) None true = Ok ex_v2.
Proof. reflexivity. Qed.
Example ex_init_err : variant_init ex_flags [0; 1; 2; 3; 6] [0; 1; 2; 3; -1; -1; 4] (Some [4; 6]) None false
                      = Err ERR_MUST_IMPUTE_NON_SAMPLES.
Proof. reflexivity. Qed.

Example ex_hyps1 : hyps_b ex_parent ex_tree ex_v1 ex_site = true. Proof. vm_compute. reflexivity. Qed.
Example ex_hyps2 : hyps_b ex_parent ex_tree ex_v2 ex_site = true. Proof. vm_compute. reflexivity. Qed.
Example ex_hyps3 : hyps_b ex_parent ex_tree ex_v3 ex_site = true. Proof. vm_compute. reflexivity. Qed.

Definition ex_fuel := default_fuel ex_tree.

Example ex_decode1 : decode ex_fuel ex_tree ex_v1 ex_site = Ok ([1; 3; 1; -1; 2], [A; C; G; T], true).
Proof. vm_compute. reflexivity. Qed.
Example ex_decode2 : decode ex_fuel ex_tree ex_v2 ex_site = Ok ([3; 2; 3; 0], [A; C; G; T], false).
Proof. vm_compute. reflexivity. Qed.
Example ex_decode3 : decode ex_fuel ex_tree ex_v3 ex_site = Ok ([3; 0; 3; -1; 1], [T; G; T; C; A], true).
Proof. vm_compute. reflexivity. Qed.

(* the rule on this forest: node 1 inherits the *second* mutation on node 4; node 3 has no
   mutation on its path *)
Example ex_rule_1 : nearest (par_of ex_parent) (s_mutations ex_site) 1 (Some T).
Proof. apply (nearest_f_sound _ 5). vm_compute. reflexivity. Qed.
Example ex_rule_3 : nearest (par_of ex_parent) (s_mutations ex_site) 3 None.
Proof. apply (nearest_f_sound _ 5). vm_compute. reflexivity. Qed.

(* all hypotheses of paint_nearest / missing_exact hold here (non-vacuity), and the
   conclusions are the non-trivial facts one expects *)
Example ex_paint_nearest :
  tree_rep (par_of ex_parent) ex_fuel ex_tree ex_v1 7 /\
  muts_in_range 7 ex_site /\ order_ok (par_of ex_parent) (s_mutations ex_site) /\
  exists gk, get [1; 3; 1; -1; 2] 1 = Ok gk /\ get [A; C; G; T] gk = Ok T.
Proof.
  destruct (hyps_b_sound _ _ _ _ ex_hyps1) as (TR & MR & OO & _).
  split; [exact TR|]. split; [exact MR|]. split; [exact OO|].
  destruct (paint_nearest_l _ _ _ _ _ _ TR MR OO _ _ _ ex_decode1 1 1 (Some T) eq_refl ex_rule_1)
    as (gk & G1 & [M | [_ G2]]).
  - exfalso. vm_compute in G1. inversion G1. subst. discriminate.
  - exists gk. split; assumption.
Qed.

Example ex_missing_exact :
  get [1; 3; 1; -1; 2] 3 = Ok MISSING /\
  (v_impute ex_v1 = false /\ isolated (par_of ex_parent) 3 /\ has_mut_on (s_mutations ex_site) 3 = false).
Proof.
  destruct (hyps_b_sound _ _ _ _ ex_hyps1) as (TR & MR & OO & _).
  pose proof (missing_exact_l _ _ _ _ _ _ TR MR OO _ _ _ ex_decode1 3 3 None eq_refl ex_rule_3) as X.
  split; [reflexivity|]. apply X. reflexivity.
Qed.

(* an order violating the hypothesis: the mutation on the ancestor 5 listed after the one on 4 *)
Example ex_order_violation :
  order_ok_b (par_of ex_parent) 9 [(4, G); (5, C)] = false /\
  ~ order_ok (par_of ex_parent) [(4, G); (5, C)].
Proof.
  split; [vm_compute; reflexivity|]. intros O.
  assert (X : 5 = 4); [|discriminate].
  apply (O [] 4 G [(5, C)] 5 C eq_refl); [left; reflexivity|].
  eapply anc_step; [vm_compute; reflexivity | apply anc_refl].
Qed.

(* user alleles: an absent ancestral state is the error; duplicates resolve to the first *)
Example ex_user_absent :
  decode ex_fuel ex_tree (mkVariant 7 [0; 1] [0; 1; -1; -1; -1; -1; -1] true true (Some [C; G; T])) ex_site
  = Err ERR_ALLELE_NOT_FOUND.
Proof. vm_compute. reflexivity. Qed.
Example ex_user_absent_derived :
  decode ex_fuel ex_tree (mkVariant 7 [0; 1] [0; 1; -1; -1; -1; -1; -1] true true (Some [A; C; G])) ex_site
  = Err ERR_ALLELE_NOT_FOUND.
Proof. vm_compute. reflexivity. Qed.

(* the two update paths: same samples, same options, different code path *)
Example ex_two_paths :
  decode ex_fuel ex_tree (mkVariant 7 [0; 1; 2; 3; 6] [0; 1; 2; 3; -1; -1; 4] true false None) ex_site
  = decode ex_fuel ex_tree ex_v1 ex_site.
Proof. vm_compute. reflexivity. Qed.

(* a different representation of the same forest (children and roots in another order,
   sample lists threaded differently) decodes to the same result *)
Definition ex_tree' : tree :=
  mkTree [-1; -1; -1; -1; 1; 2; -1; 6]
         [-1; 0; 4; 5; -1; -1; 3; -1]       (* 4: 1 -> 0; 5: 2 -> 4; roots 6 -> 3 -> 5 *)
         [0; 1; 2; 3; 1; 2; 4]
         [0; 1; 2; 3; 0; 0; 4]
         [-1; 0; 1; -1; -1]
         7.
Example ex_hyps1' : hyps_b ex_parent ex_tree' ex_v1 ex_site = true. Proof. vm_compute. reflexivity. Qed.
Example ex_hyps3' : hyps_b ex_parent ex_tree' ex_v3 ex_site = true. Proof. vm_compute. reflexivity. Qed.
Example ex_decode1' : decode ex_fuel ex_tree' ex_v1 ex_site = Ok ([1; 3; 1; -1; 2], [A; C; G; T], true).
Proof. vm_compute. reflexivity. Qed.

(* decode_determined applies: both representations meet tree_rep for the same forest *)
Example ex_determined : forall r1 r2,
  decode ex_fuel ex_tree ex_v1 ex_site = Ok r1 -> decode ex_fuel ex_tree' ex_v1 ex_site = Ok r2 -> r1 = r2.
Proof.
  destruct (hyps_b_sound _ _ _ _ ex_hyps1) as (TR & MR & _ & HT & _).
  destruct (hyps_b_sound _ _ _ _ ex_hyps1') as (TR' & _).
  intros r1 r2 D1 D2.
  exact (decode_determined_l (par_of ex_parent) (zlen ex_parent) (default_fuel ex_tree) HT ex_site
           (default_fuel ex_tree) ex_tree ex_v1 (default_fuel ex_tree') ex_tree' ex_v1 r1 r2
           eq_refl eq_refl eq_refl TR TR' MR D1 D2).
Qed.

(* decode_total applies to the traversal-path variant (and the result is the Ok of ex_decode2) *)
Example ex_total :
  (exists r, decode ex_fuel ex_tree ex_v2 ex_site = Ok r) \/
  (decode ex_fuel ex_tree ex_v2 ex_site = Err ERR_ALLELE_NOT_FOUND /\ exists ua, v_user_alleles ex_v2 = Some ua).
Proof.
  destruct (hyps_b_sound _ _ _ _ ex_hyps2) as (TR & MR & _ & HT & VN).
  apply (decode_total_l (par_of ex_parent) (default_fuel ex_tree) ex_tree ex_v2 (zlen ex_parent)
           (default_fuel ex_tree) ex_site TR HT VN); [vm_compute; discriminate | exact MR].
Qed.

(* the mutation.parent column of ex_site as compute_mutation_parents gives it; it satisfies the
   premise of parents_imply_order_ok, so order_ok follows without looking at the order *)
Example ex_parents : check_parents ex_parent ex_tree ex_site [-1; 0; 1; 2; -1] = true.
Proof. vm_compute. reflexivity. Qed.
Example ex_parents_order_ok : order_ok (par_of ex_parent) (s_mutations ex_site).
Proof. apply (parents_imply_order_ok_l _ (default_fuel ex_tree)). eapply parents_ok_b_sound. exact ex_parents. Qed.
(* listing the mutation on the ancestor 5 after the one on 4 gives 4's mutation a *later* parent:
   TSK_ERR_MUTATION_PARENT_AFTER_CHILD, the premise fails *)
Example ex_parents_violation :
  mut_parents (par_of ex_parent) 9 [4; 5] = Some [1; -1] /\
  parents_ok_b (par_of ex_parent) 9 [4; 5] [1; -1] = false.
Proof. split; vm_compute; reflexivity. Qed.

(* the local sample-list invariant holds on the example arrays, and with the node-time rank it
   yields the semantic sample_lists_rep (sample_lists_from_local is not vacuous) *)
Example ex_local : sample_lists_local_b ex_fuel ex_tree 7 (v_index_map ex_v1) = true.
Proof. vm_compute. reflexivity. Qed.
Definition ex_rank (u : Z) : nat := if u =? 5 then 2%nat else if u =? 4 then 1%nat else 0%nat.
Example ex_rank_ok : forall c p, par_of ex_parent c = Some p -> (ex_rank c < ex_rank p)%nat.
Proof.
  intros c p H. pose proof (par_of_range _ _ _ H) as R. unfold zlen in R. simpl in R.
  assert (C : c = 0 \/ c = 1 \/ c = 2 \/ c = 3 \/ c = 4 \/ c = 5 \/ c = 6) by lia.
  destruct C as [-> | [-> | [-> | [-> | [-> | [-> | ->]]]]]]; vm_compute in H; inversion H; subst; vm_compute; lia.
Qed.
Example ex_sample_lists_from_local :
  sample_lists_rep (par_of ex_parent) ex_fuel ex_tree 7 (v_samples ex_v1).
Proof.
  destruct (hyps_b_sound _ _ _ _ ex_hyps1) as ((PD & IM & KR & _) & _).
  exact (sample_lists_from_local_l (par_of ex_parent) ex_fuel ex_tree 7 _ _ ex_rank PD KR IM ex_rank_ok
           (sample_lists_local_b_sound _ _ _ _ ex_local)).
Qed.

(* the seek theorems: a (trivial, one-tree) navigation satisfying C06's contract, a history with a
   failed decode in it, and then a decode whose result is the rule's *)
Example ex_seek_history :
  let seek := fun (_ : tree) (_ : Z) => ex_tree in
  let on_error := fun st : vstate => st in
  let o0 : vobj := (ex_tree', mkState [9; 9; 9; 9; 9] [[1]] true) in
  let hist := [(0, ex_site); (0, mkSite A [(99, C)])] in      (* the second one fails: OOB node *)
  snd (decode_obj seek on_error ex_fuel ex_v1 (run seek on_error ex_fuel ex_v1 o0 hist) (0, ex_site))
  = Ok ([1; 3; 1; -1; 2], [A; C; G; T], true).
Proof. vm_compute. reflexivity. Qed.

(* decode_node_invariant is not vacuous: ex_v1 (all samples, sample lists) and a traversal
   variant requesting [6; 1] in another order agree on nodes 1 and 6 *)
Definition ex_v4 : variant := mkVariant 7 [6; 1] [-1; 1; -1; -1; -1; -1; 0] true false None.
Example ex_hyps4 : hyps_b ex_parent ex_tree ex_v4 ex_site = true. Proof. vm_compute. reflexivity. Qed.
Example ex_decode4 : decode ex_fuel ex_tree ex_v4 ex_site = Ok ([2; 3], [A; C; G; T], false).
Proof. vm_compute. reflexivity. Qed.
Example ex_node_invariant :
  get [1; 3; 1; -1; 2] 1 = get [2; 3] 1 /\ get [1; 3; 1; -1; 2] 4 = get [2; 3] 0.
Proof.
  destruct (hyps_b_sound _ _ _ _ ex_hyps1) as (TR1 & MR & _ & HT & _).
  destruct (hyps_b_sound _ _ _ _ ex_hyps4) as (TR4 & _).
  destruct (decode_node_invariant_l (par_of ex_parent) (zlen ex_parent) (default_fuel ex_tree) HT ex_site
              _ _ ex_v1 _ _ ex_v4 _ _ _ _ _ _ eq_refl eq_refl TR1 TR4 MR ex_decode1 ex_decode4) as [_ X].
  split; [exact (X 1 1 1 eq_refl eq_refl) | exact (X 4 0 6 eq_refl eq_refl)].
Qed.
