(* C03 — tsk_variant_init with an explicit samples list establishes the index-map part of
   [tree_rep]: sample_index_map is the inverse of the requested nodes, which are distinct, in
   range and (unless isolated_as_missing is off) sample nodes. *)
From Coq Require Import List ZArith Bool Lia.
From TskVerif Require Import Base.Common C03.Model C03.Spec C03.ArrayProofs C03.ViewsProofs.
Import ListNotations.
Open Scope Z_scope.

Lemma get_repeat {A} (x : A) n k : 0 <= k < Z.of_nat n -> get (repeat x n) k = Ok x.
Proof.
  intros H. destruct (get_in_range (repeat x n) k) as [a G]; [unfold zlen; rewrite repeat_length; exact H|].
  rewrite G. f_equal. apply get_In in G. apply repeat_spec in G. assumption.
Qed.

Lemma get_snoc {A} (l : list A) x : get (l ++ [x]) (zlen l) = Ok x.
Proof. rewrite get_app_r by lia. replace (zlen l - zlen l) with 0 by lia. reflexivity. Qed.

Lemma init_index_map_spec flags impute : forall ss done map map',
  zlen map = zlen flags ->
  (forall u k, get map u = Ok k -> k <> NULL -> get done k = Ok u) ->
  (forall k u, get done k = Ok u -> get map u = Ok k /\ k <> NULL) ->
  init_index_map flags impute ss (zlen done) map = Ok map' ->
  zlen map' = zlen flags /\
  (forall u k, get map' u = Ok k -> k <> NULL -> get (done ++ ss) k = Ok u) /\
  (forall k u, get (done ++ ss) k = Ok u -> get map' u = Ok k /\ k <> NULL) /\
  (impute = false -> forall u, In u ss -> exists fl, get flags u = Ok fl /\ Z.odd fl = true).
Proof.
  induction ss as [|u ss IH]; intros done map map' LM I1 I2 H; simpl in H.
  - inversion H; subst. rewrite app_nil_r. split; [assumption|]. split; [assumption|]. split; [assumption|].
    intros _ ? [].
  - destruct ((u <? 0) || (zlen map <=? u)) eqn:OOBc; [discriminate|].
    apply orb_false_iff in OOBc as [B1 B2]. apply Z.ltb_ge in B1. apply Z.leb_gt in B2.
    destruct (get map u) as [cur| | |] eqn:GM; try discriminate. cbn [bind] in H.
    destruct (negb (cur =? NULL)) eqn:DUP; [discriminate|].
    apply negb_false_iff, Z.eqb_eq in DUP. subst cur.
    destruct (get flags u) as [fl| | |] eqn:GF; try discriminate. cbn [bind] in H.
    destruct (negb impute && negb (Z.odd fl))%bool eqn:NS; [discriminate|].
    destruct (set map u (zlen done)) as [map1| | |] eqn:SET; try discriminate. cbn [bind] in H.
    destruct (set_spec _ _ _ _ SET) as (L1 & R1 & G1 & O1).
    assert (LD : zlen (done ++ [u]) = zlen done + 1) by (unfold zlen; rewrite app_length; simpl; lia).
    rewrite <- LD in H.
    assert (ND : zlen done <> NULL) by (unfold NULL, zlen; lia).
    destruct (IH (done ++ [u]) map1 map') as (LM' & J1 & J2 & J3).
    + rewrite (zlen_length map1 map); assumption.
    + intros w k G Nk. destruct (Z.eq_dec w u) as [-> | NE].
      * rewrite G1 in G. inversion G; subst. apply get_snoc.
      * rewrite O1 in G by assumption. rewrite get_app_l; [eauto|]. eapply get_range; eauto.
    + intros k w G. destruct (Z_lt_dec k (zlen done)) as [LT | GE].
      * pose proof (get_range _ _ _ G). rewrite get_app_l in G by lia.
        destruct (I2 _ _ G) as [M Nk]. split; [|assumption]. rewrite O1; [assumption|].
        intros ->. rewrite GM in M. inversion M. congruence.
      * pose proof (get_range _ _ _ G) as R. rewrite LD in R. assert (k = zlen done) by lia. subst k.
        rewrite get_snoc in G. inversion G; subst. split; assumption.
    + exact H.
    + rewrite <- app_assoc in J1, J2. simpl in J1, J2. split; [assumption|]. split; [assumption|].
      split; [assumption|]. intros IMP w [<- | Iw]; [|auto].
      exists fl. split; [exact GF|]. subst impute. simpl in NS. apply negb_false_iff in NS. assumption.
Qed.

Theorem variant_init_index_map_l flags ts_samples ts_map ss alleles impute v :
  variant_init flags ts_samples ts_map (Some ss) alleles impute = Ok v ->
  v_samples v = ss /\ v_by_traversal v = true /\ v_impute v = impute /\ v_num_nodes v = zlen flags /\
  index_map_rep (zlen flags) ss (v_index_map v) /\
  (impute = false -> forall u, In u ss -> exists fl, get flags u = Ok fl /\ Z.odd fl = true).
Proof.
  unfold variant_init. intros H.
  destruct (match alleles with Some [] => Err ERR_ZERO_ALLELES | _ => Ok tt end); try discriminate.
  cbn [bind] in H.
  destruct (init_index_map flags impute ss 0 (repeat NULL (length flags))) as [map| | |] eqn:IM; try discriminate.
  cbn [bind] in H. inversion H; subst. simpl.
  destruct (init_index_map_spec flags impute ss [] (repeat NULL (length flags)) map) as (LM & J1 & J2 & J3).
  - unfold zlen. rewrite repeat_length. reflexivity.
  - intros u k G Nk. pose proof (get_range _ _ _ G) as R. unfold zlen in R. rewrite repeat_length in R.
    rewrite get_repeat in G by assumption. inversion G. congruence.
  - intros k u G. unfold get in G. destruct (k <? 0); [discriminate|]. destruct (Z.to_nat k); discriminate.
  - exact IM.
  - simpl in J1, J2. split; [reflexivity|]. split; [reflexivity|]. split; [reflexivity|]. split; [reflexivity|].
    split; [|assumption]. split; [assumption|]. split; assumption.
Qed.
