(* C03 — the model's decode never reads or writes outside an array and never runs out of fuel
   (so the "decode = Ok ..." premises of the property theorems are not satisfied vacuously):
   under the representation hypotheses it returns a result, or TSK_ERR_ALLELE_NOT_FOUND when a
   user allele list lacks a state of the site.
   PARTIAL for the traversal path: that the explicit-stack loop of tsk_variant_traverse
   terminates within the fuel and within the N-entry stack is assumed ([traversal_ok]); for the
   sample-list path (samples=None) nothing is assumed. *)
From Coq Require Import List ZArith Bool Lia.
From TskVerif Require Import Base.Common C03.Model C03.Spec C03.ArrayProofs C03.AlleleProofs
     C03.PaintProofs C03.DecodeProofs C03.TraverseProofs C03.RuleProofs.
Import ListNotations.
Open Scope Z_scope.

Definition traversal_ok (fuel : nat) (t : tree) (v : variant) (s : site) : Prop :=
  v_by_traversal v = true ->
  forall n d, In (n, d) (s_mutations s) -> exists l, painted fuel t v n = Ok l.

Section Total.
  Variable par : Z -> option Z.
  Variable fuel : nat.
  Variable t : tree.
  Variable v : variant.
  Variable N : Z.
  Hypothesis IM : index_map_rep N (v_samples v) (v_index_map v).
  Hypothesis KR : kids_rep par fuel t N.
  Hypothesis RRh : v_impute v = false -> roots_rep par fuel t N (v_index_map v).
  Hypothesis SLh : v_by_traversal v = false -> sample_lists_rep par fuel t N (v_samples v).
  Hypothesis PR : painted_rep par fuel t v N.

  Lemma mark_roots_ok : forall roots g nm,
    (forall r, In r roots -> 0 <= r < N) -> length g = length (v_samples v) ->
    exists g' nm', mark_roots t (v_index_map v) roots g nm = Ok (g', nm').
  Proof.
    destruct IM as (IMlen & IM1 & IM2).
    induction roots as [|r rest IH]; intros g nm R L; simpl; [eauto|].
    assert (Rr : 0 <= r < N) by (apply R; left; reflexivity).
    destruct (lc_null_iff par fuel t N KR r Rr) as (lc & LC & _). rewrite LC. cbn [bind].
    assert (R' : forall r', In r' rest -> 0 <= r' < N) by (intros; apply R; right; assumption).
    destruct (lc =? NULL); [|apply IH; assumption].
    destruct (get_in_range (v_index_map v) r) as [si SI]; [rewrite IMlen; assumption|].
    rewrite SI. cbn [bind]. destruct (si =? NULL) eqn:E; simpl; [apply IH; assumption|].
    apply Z.eqb_neq in E. pose proof (IM1 _ _ SI E) as GS. pose proof (get_range _ _ _ GS) as Rs.
    destruct (set_ok g si MISSING) as [g1 S]; [rewrite (zlen_length g (v_samples v)); assumption|].
    rewrite S. cbn [bind]. apply IH; [assumption|].
    destruct (set_spec _ _ _ _ S) as (L1 & _). congruence.
  Qed.

  Lemma mark_missing_ok g :
    v_impute v = false -> length g = length (v_samples v) ->
    exists g' nm, mark_missing fuel t (v_index_map v) g = Ok (g', nm).
  Proof.
    intros IMP L. destruct (RRh IMP) as (rs & CH & _ & RR & _).
    unfold mark_missing. rewrite CH. cbn [bind]. apply mark_roots_ok; assumption.
  Qed.

  Lemma update_ok n d g :
    0 <= n < N -> (exists l, painted fuel t v n = Ok l) -> length g = length (v_samples v) ->
    exists g' nlm, update_genotypes fuel t v n d g = Ok (g', nlm) /\ length g' = length g.
  Proof.
    intros Rn (l & PT) L. rewrite update_painted, PT. cbn [bind].
    destruct (paint_ok l d g 0) as (g' & nlm & PA).
    - intros k I. apply (PR n l Rn PT) in I as (u & GU & _).
      rewrite (zlen_length g (v_samples v)) by assumption. eapply get_range; eauto.
    - exists g', nlm. split; [assumption|]. apply (paint_spec _ _ _ _ _ _ PA).
  Qed.

  Lemma painted_ok_of s : traversal_ok fuel t v s -> muts_in_range N s ->
    forall n d, In (n, d) (s_mutations s) -> exists l, painted fuel t v n = Ok l.
  Proof.
    intros TO MR n d I. destruct (v_by_traversal v) eqn:BT; [eapply TO; eauto|].
    destruct (SLh eq_refl n (MR _ _ I)) as (l & SC & _).
    exists l. unfold painted. rewrite BT. assumption.
  Qed.

  Lemma decode_mutations_ok : forall ms g al nm,
    (forall n d, In (n, d) ms -> 0 <= n < N /\ exists l, painted fuel t v n = Ok l) ->
    length g = length (v_samples v) ->
    (exists r, decode_mutations fuel t v (g, al, nm) ms = Ok r) \/
    (decode_mutations fuel t v (g, al, nm) ms = Err ERR_ALLELE_NOT_FOUND /\
     exists ua, v_user_alleles v = Some ua).
  Proof.
    induction ms as [|[n d] rest IH]; intros g al nm P L; simpl; [left; eauto|].
    destruct (P n d (or_introl eq_refl)) as [Rn PT].
    assert (P' : forall n' d', In (n', d') rest -> 0 <= n' < N /\ exists l, painted fuel t v n' = Ok l)
      by (intros n' d' I'; apply (P n' d'); right; assumption).
    destruct (allele_index al d =? -1).
    - destruct (v_user_alleles v) eqn:U; [right; split; [reflexivity | eauto]|]. cbn [bind].
      destruct (update_ok n (zlen al) g Rn PT L) as (g' & nlm & UP & L'). rewrite UP. cbn [bind].
      apply IH; [assumption | congruence].
    - cbn [bind].
      destruct (update_ok n (allele_index al d) g Rn PT L) as (g' & nlm & UP & L'). rewrite UP. cbn [bind].
      apply IH; [assumption | congruence].
  Qed.

  Lemma decode_total_sect s :
    muts_in_range N s -> traversal_ok fuel t v s ->
    (exists r, decode fuel t v s = Ok r) \/
    (decode fuel t v s = Err ERR_ALLELE_NOT_FOUND /\ exists ua, v_user_alleles v = Some ua).
  Proof.
    intros MR TO. unfold decode, decode_st. cbn [fresh_state st_genotypes].
    assert (ENTRY : forall al aidx,
      (exists r, (do '(genos1, nm) <-
                    (if v_impute v then Ok (map (fun _ => aidx) (map (fun _ : Z => 0) (v_samples v)), 0)
                     else mark_missing fuel t (v_index_map v) (map (fun _ => aidx) (map (fun _ : Z => 0) (v_samples v))));
                  do '(genos2, alleles2, nm2) <- decode_mutations fuel t v (genos1, al, nm) (s_mutations s);
                  Ok (genos2, alleles2, negb (nm2 =? 0))) = Ok r) \/
      ((do '(genos1, nm) <-
          (if v_impute v then Ok (map (fun _ => aidx) (map (fun _ : Z => 0) (v_samples v)), 0)
           else mark_missing fuel t (v_index_map v) (map (fun _ => aidx) (map (fun _ : Z => 0) (v_samples v))));
        do '(genos2, alleles2, nm2) <- decode_mutations fuel t v (genos1, al, nm) (s_mutations s);
        Ok (genos2, alleles2, negb (nm2 =? 0))) = Err ERR_ALLELE_NOT_FOUND /\
       exists ua, v_user_alleles v = Some ua)).
    { intros al aidx.
      set (gin := map (fun _ => aidx) (map (fun _ : Z => 0) (v_samples v))).
      assert (Lin : length gin = length (v_samples v)) by (unfold gin; rewrite !map_length; reflexivity).
      assert (MARK : exists g1 nm1, (if v_impute v then Ok (gin, 0) else mark_missing fuel t (v_index_map v) gin) = Ok (g1, nm1)
                                    /\ length g1 = length (v_samples v)).
      { pose proof (mark_missing_ok gin) as MMO. destruct (v_impute v) eqn:IMP; [eauto|].
        destruct (MMO eq_refl Lin) as (g1 & nm1 & MM). exists g1, nm1. split; [assumption|].
        unfold mark_missing in MM. destruct (children fuel t (virtual_root t)) as [rs| | |]; try discriminate.
        cbn [bind] in MM.
        assert (X : forall roots g nm g' nm', mark_roots t (v_index_map v) roots g nm = Ok (g', nm') -> length g' = length g).
        { induction roots as [|r rest IHr]; intros g nm g' nm' H; simpl in H; [inversion H; reflexivity|].
          destruct (get (left_child t) r) as [lc| | |]; try discriminate. cbn [bind] in H.
          destruct (lc =? NULL); [|eauto].
          destruct (get (v_index_map v) r) as [si| | |]; try discriminate. cbn [bind] in H.
          destruct (negb (si =? NULL)); [|eauto].
          destruct (set g si MISSING) as [g0| | |] eqn:S; try discriminate. cbn [bind] in H.
          destruct (set_spec _ _ _ _ S) as (L0 & _). rewrite (IHr _ _ _ _ H). assumption. }
        rewrite (X _ _ _ _ _ MM). assumption. }
      destruct MARK as (g1 & nm1 & MM & L1). rewrite MM. cbn [bind].
      destruct (decode_mutations_ok (s_mutations s) g1 al nm1) as [[[[g2 al2] nm2] DM] | [DM U]].
      - intros n d I. split; [eapply MR; eauto | eapply painted_ok_of; eauto].
      - assumption.
      - left. rewrite DM. cbn [bind]. eauto.
      - right. rewrite DM. auto. }
    destruct (v_user_alleles v) as [ua|] eqn:U.
    - destruct (allele_index ua (s_ancestral s) =? -1); [right; split; [reflexivity | eauto]|].
      cbn [bind]. apply ENTRY.
    - cbn [bind]. apply ENTRY.
  Qed.
End Total.

Theorem decode_total_partial_l par fuel t v N s :
  tree_rep par fuel t v N -> muts_in_range N s -> traversal_ok fuel t v s ->
  (exists r, decode fuel t v s = Ok r) \/
  (decode fuel t v s = Err ERR_ALLELE_NOT_FOUND /\ exists ua, v_user_alleles v = Some ua).
Proof.
  intros TR. pose proof (tree_rep_painted _ _ _ _ _ TR) as PR.
  destruct TR as (PD & IM & KR & RR & SL).
  eapply decode_total_sect; eauto.
Qed.

