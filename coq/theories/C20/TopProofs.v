(* C20 — the property theorems on the rose-tree layer [mm_rose]. *)
From Coq Require Import List ZArith NArith Bool Lia Arith.
From TskVerif Require Import Base.Common C20.Model C20.Spec C20.SetProofs C20.HartiganProofs
  C20.AssignProofs C20.VisitProofs C20.PlaceProofs.
Import ListNotations.

(* ---- what mm_rose returns ---- *)
Definition anc_ok (K : nat) (anc : option N) : Prop :=
  match anc with Some x => (x < N.of_nat K)%N | None => True end.

Lemma mm_rose_inv K roots anc a tr : mm_rose K roots anc = Some (a, tr) ->
  forallb (sets_nonzero K) roots = true /\
  tr = assign_children K roots a (-1) 0 /\
  match anc with
  | Some x => a = x
  | None => N.testbit (hartigan_set K (map (opt_set K) roots)) a = true
  end.
Proof.
  unfold mm_rose. destruct (forallb (sets_nonzero K) roots) eqn:NZ; simpl; [|discriminate].
  destruct anc as [x|].
  - intros H. inversion H; subst. auto.
  - destruct (hartigan_set K (map (opt_set K) roots)) as [|p] eqn:E; simpl; [discriminate|].
    intros H. inversion H; subst. split; [reflexivity|]. split; [reflexivity|].
    apply ctz_testbit.
Qed.

Lemma mm_rose_anc_lt K roots anc a tr : anc_ok K anc -> mm_rose K roots anc = Some (a, tr) ->
  (a < N.of_nat K)%N.
Proof.
  intros HA H. apply mm_rose_inv in H as [_ [_ H]]. destruct anc as [x|].
  - subst. exact HA.
  - apply hartigan_set_lt in H. exact H.
Qed.

Lemma mm_rose_total K roots anc : okK K -> forallb (obs_lt K) roots = true ->
  exists a tr, mm_rose K roots anc = Some (a, tr).
Proof.
  intros HK HO. unfold mm_rose.
  assert (NZ : forallb (sets_nonzero K) roots = true).
  { rewrite forallb_forall in *. intros c Hc. apply sets_nonzero_ok; [exact HK | apply HO; exact Hc]. }
  rewrite NZ. simpl. destruct anc as [x|]; [eauto|].
  rewrite (get_smallest_some _ (hartigan_set_nonzero K _ (proj1 HK))). eauto.
Qed.

Lemma nodupb_NoDup l : nodupb l = true <-> NoDup l.
Proof.
  induction l as [|x r IH]; simpl; split; intros H; try reflexivity; try constructor.
  - apply andb_true_iff in H as [H1 H2]. apply negb_true_iff in H1. intros X.
    assert (existsb (Z.eqb x) r = true) by (apply existsb_exists; exists x; split; [exact X | apply Z.eqb_refl]).
    congruence.
  - apply IH. apply andb_true_iff in H. tauto.
  - inversion H; subst. apply andb_true_iff. split; [|apply IH; assumption].
    apply negb_true_iff. destruct (existsb (Z.eqb x) r) eqn:E; [|reflexivity].
    apply existsb_exists in E. destruct E as [y [Hy Ey]]. apply Z.eqb_eq in Ey. subst. contradiction.
Qed.

Lemma forest_visit K roots a : NoDup (forest_ids roots) ->
  Forall (fun c => visit K (assign_children K roots a (-1) 0) c a (-1)) roots.
Proof.
  intros ND.
  pose proof (visit_children K roots) as V.
  specialize (V (proj2 (Forall_forall _ _) (fun c _ => visit_assign K c)) ND a (-1)%Z 0%Z [] []).
  cbn [app] in V. rewrite app_nil_r in V. apply V; try reflexivity; intros m [].
Qed.

(* ---- (b) painting reproduces every non-missing observation ---- *)
Lemma mm_reproduces_lemma K roots anc a tr :
  nodupb (forest_ids roots) = true ->
  mm_rose K roots anc = Some (a, tr) ->
  consistent_list roots (map (fun r => paint tr r a) roots) = true.
Proof.
  intros ND H. apply nodupb_NoDup in ND. apply mm_rose_inv in H as [_ [-> _]].
  pose proof (forest_visit K roots a ND) as V. rewrite Forall_forall in V.
  apply consistent_list_map. apply Forall_forall. intros c Hc.
  rewrite (paint_visit K _ c a (-1)%Z (V c Hc)). apply assigned_consistent.
Qed.

(* ---- (c) the number of transitions is the minimum over all labelings ---- *)
Lemma length_assign_forest K roots a : forallb (sets_nonzero K) roots = true ->
  length (assign_children K roots a (-1) 0) =
  sumf (fun c => (if hitb K c a then 0 else 1) + changes (assigned K c a))%nat roots.
Proof.
  intros NZ. rewrite forallb_forall in NZ. rewrite length_assign_children.
  - apply sumf_ext. intros c Hc. apply length_assign. apply NZ. exact Hc.
  - intros c Hc tp k. rewrite !length_assign by (apply NZ; exact Hc). reflexivity.
Qed.

Lemma forest_changes_assigned K roots a : forallb (sets_nonzero K) roots = true ->
  forest_changes a (map (fun c => assigned K c a) roots) = length (assign_children K roots a (-1) 0).
Proof.
  intros NZ. rewrite length_assign_forest by exact NZ. unfold forest_changes.
  rewrite changes_node, sumf_map. apply sumf_ext. intros c Hc.
  rewrite lroot_assigned. rewrite neq_next_state; [reflexivity|].
  rewrite forallb_forall in NZ. specialize (NZ c Hc). destruct c as [cu co cch].
  rewrite sets_nonzero_node in NZ. apply andb_true_iff in NZ as [Z _].
  apply negb_true_iff in Z. apply N.eqb_neq in Z. exact Z.
Qed.

Lemma mm_optimal_lemma K roots anc a tr :
  okK K -> forallb (obs_lt K) roots = true -> forallb no_internal_missing roots = true ->
  anc_ok K anc -> mm_rose K roots anc = Some (a, tr) ->
  (forall a' ls, match anc with Some x => a' = x | None => True end ->
      consistent_list roots ls = true -> (length tr <= forest_changes a' ls)%nat) /\
  (exists ls, consistent_list roots ls = true /\ forest_changes a ls = length tr).
Proof.
  intros HK HO HM HA H. pose proof (mm_rose_anc_lt K roots anc a tr HA H) as Ha.
  apply mm_rose_inv in H as [NZ [-> Hanc]]. split.
  - intros a' ls Ha' Hcons.
    rewrite length_assign_forest by exact NZ.
    assert (LBs : Forall (LB K) roots).
    { apply Forall_forall. intros c Hc. rewrite forallb_forall in HO, HM.
      apply hartigan_lower; [exact HK | apply HO; exact Hc | apply HM; exact Hc]. }
    pose proof (LB_children K roots LBs ls a' Hcons) as B.
    unfold forest_changes. rewrite changes_node.
    assert (E : sumf (fun c => (if hitb K c a then 0 else 1) + changes (assigned K c a))%nat roots =
                (sumf (mcost K) roots + (length roots - count a (map (opt_set K) roots)))%nat).
    { rewrite sumf_plus, sumf_indicator. rewrite count_map.
      rewrite (sumf_ext (fun c => changes (assigned K c a)) (mcost K)); [unfold hitb, bit_is_set; lia|].
      intros c Hc. rewrite forallb_forall in HO, HM.
      apply changes_assigned; [exact HK | apply HO; exact Hc | apply HM; exact Hc | exact Ha]. }
    rewrite E.
    pose proof (max_count_le_length K (map (opt_set K) roots)) as ML. rewrite map_length in ML.
    destruct anc as [x|].
    + subst. rewrite cntx_low in B by exact Ha. exact B.
    + apply hartigan_set_count in Hanc. rewrite Hanc.
      pose proof (cntx_le_max K roots a' (proj1 HK)). lia.
  - exists (map (fun c => assigned K c a) roots). split.
    + apply consistent_list_map. apply Forall_forall. intros c _. apply assigned_consistent.
    + apply forest_changes_assigned. exact NZ.
Qed.

(* ---- (e) order ---- *)
Lemma parents_before_app l1 l2 i :
  parents_before (l1 ++ l2) i = parents_before l1 i && parents_before l2 (i + zlen l1).
Proof.
  revert i. induction l1 as [|x r IH]; intros i.
  - simpl. unfold zlen. simpl. rewrite Z.add_0_r. reflexivity.
  - cbn [app parents_before]. rewrite IH.
    replace (i + 1 + zlen r)%Z with (i + zlen (x :: r))%Z by (unfold zlen; simpl length; lia).
    rewrite !andb_assoc. reflexivity.
Qed.

Lemma parents_before_assign K t : forall s tp k, (-1 <= tp < k)%Z ->
  parents_before (assign K t s tp k) k = true.
Proof.
  induction t as [u o ch IH] using tree_ind'. intros s tp k Htp.
  rewrite assign_eq. rewrite parents_before_app. apply andb_true_iff.
  assert (G : forall cs, Forall (fun c => forall s tp k, (-1 <= tp < k)%Z -> parents_before (assign K c s tp k) k = true) cs ->
              forall s tp k, (-1 <= tp < k)%Z -> parents_before (assign_children K cs s tp k) k = true).
  { clear. induction 1 as [|c r Hc Hr IHr]; intros s tp k Htp; [reflexivity|].
    cbn [assign_children]. rewrite parents_before_app. apply andb_true_iff. split; [apply IHr; exact Htp|].
    apply Hc. unfold zlen. lia. }
  destruct (hitb K (Node u o ch) s).
  - split; [reflexivity|]. unfold zlen. simpl length. rewrite Z.add_0_r. apply G; assumption.
  - split.
    + cbn [parents_before tr_parent fst snd]. apply andb_true_iff. split; [|reflexivity].
      apply andb_true_iff. split; [apply Z.leb_le | apply Z.ltb_lt]; lia.
    + unfold zlen. simpl length. apply G; [exact IH | lia].
Qed.

Lemma parents_before_forest K roots a : parents_before (assign_children K roots a (-1) 0) 0 = true.
Proof.
  assert (G : forall cs s tp k, (-1 <= tp < k)%Z -> parents_before (assign_children K cs s tp k) k = true).
  { induction cs as [|c r IHr]; intros s tp k Htp; [reflexivity|].
    cbn [assign_children]. rewrite parents_before_app. apply andb_true_iff. split; [apply IHr; exact Htp|].
    apply parents_before_assign. unfold zlen. lia. }
  apply G. lia.
Qed.

Lemma NoDup_app_intro {A} (l1 l2 : list A) :
  NoDup l1 -> NoDup l2 -> (forall x, In x l1 -> ~ In x l2) -> NoDup (l1 ++ l2).
Proof.
  induction l1 as [|x r IH]; intros H1 H2 D; [exact H2|]. inversion H1; subst. simpl. constructor.
  - intros X. apply in_app_or in X. destruct X as [X|X]; [contradiction|]. apply (D x); [left; reflexivity | exact X].
  - apply IH; [assumption | assumption |]. intros y Hy. apply D. right. exact Hy.
Qed.

Lemma in_map_nodes (l : list trans) x : In x (map tr_node l) -> exists m, In m l /\ tr_node m = x.
Proof. intros H. apply in_map_iff in H. destruct H as [m [E Hm]]. eauto. Qed.

Lemma assign_children_nodup K cs :
  Forall (fun c => NoDup (ids c) -> forall s tp k, NoDup (map tr_node (assign K c s tp k))) cs ->
  NoDup (forest_ids cs) -> forall s tp k, NoDup (map tr_node (assign_children K cs s tp k)).
Proof.
  induction 1 as [|c r Hc Hr IHr]; intros ND s tp k; [constructor|].
  rewrite forest_ids_cons in ND. cbn [assign_children]. rewrite map_app. apply NoDup_app_intro.
  - apply IHr. eapply NoDup_app_r; eassumption.
  - apply Hc. eapply NoDup_app_l; eassumption.
  - intros x H1 H2. apply in_map_nodes in H1 as [m1 [M1 E1]]. apply in_map_nodes in H2 as [m2 [M2 E2]].
    apply assign_children_nodes in M1. apply assign_nodes in M2. rewrite E1 in M1. rewrite E2 in M2.
    eapply NoDup_app_disj; eassumption.
Qed.

Lemma assign_nodup K t : NoDup (ids t) -> forall s tp k, NoDup (map tr_node (assign K t s tp k)).
Proof.
  induction t as [u o ch IH] using tree_ind'. intros ND s tp k.
  rewrite ids_node in ND. inversion ND as [|? ? Hu NDch]; subst.
  rewrite assign_eq, map_app. apply NoDup_app_intro.
  - destruct (hitb K (Node u o ch) s); simpl; repeat constructor. intros [].
  - apply assign_children_nodup; assumption.
  - intros x H1 H2. destruct (hitb K (Node u o ch) s); [contradiction|].
    destruct H1 as [<-|[]]. cbn [tr_node fst] in H2.
    apply in_map_nodes in H2 as [m [M E]]. apply assign_children_nodes in M. rewrite E in M. contradiction.
Qed.

Lemma mm_order_valid_lemma K roots anc a tr :
  nodupb (forest_ids roots) = true ->
  mm_rose K roots anc = Some (a, tr) ->
  parents_before tr 0 = true /\
  forallb (fun r => parents_ok tr r (-1)) roots = true /\
  nodupb (map tr_node tr) = true.
Proof.
  intros ND H. apply nodupb_NoDup in ND. apply mm_rose_inv in H as [_ [-> _]]. split; [|split].
  - apply parents_before_forest.
  - pose proof (forest_visit K roots a ND) as V. rewrite Forall_forall in V.
    apply forallb_forall. intros c Hc. apply (parents_ok_visit K _ c a). apply V. exact Hc.
  - apply nodupb_NoDup. apply assign_children_nodup; [|exact ND].
    apply Forall_forall. intros c _. apply assign_nodup.
Qed.

(* ---- (f) oldest node of a unary chain ---- *)
Lemma mm_oldest_lemma K roots anc a tr (strict : bool) :
  okK K -> forallb (obs_lt K) roots = true -> anc_ok K anc ->
  nodupb (forest_ids roots) = true ->
  (strict = true \/ forallb no_internal_missing roots = true) ->
  mm_rose K roots anc = Some (a, tr) ->
  forallb (unary_ok strict tr) roots = true.
Proof.
  intros HK HO HA ND HS H. pose proof (mm_rose_anc_lt K roots anc a tr HA H) as Ha.
  apply nodupb_NoDup in ND. apply mm_rose_inv in H as [_ [-> _]].
  pose proof (forest_visit K roots a ND) as V. rewrite Forall_forall in V.
  rewrite forallb_forall in HO. apply forallb_forall. intros c Hc.
  apply (unary_ok_visit K _ strict HK c a (-1)%Z); [apply V; exact Hc | apply HO; exact Hc | exact Ha |].
  destruct HS as [->|HM]; [left; reflexivity | right]. rewrite forallb_forall in HM. apply HM. exact Hc.
Qed.
