(* C20 — the result does not depend on how the nodes are numbered: renaming the node ids of
   the tree by ANY function f renames the nodes of the returned transitions by f and changes
   nothing else (ancestral state, order, parent indices, derived states).  In particular no
   relation between node ids and the tree order (children before parents, samples first) is
   used anywhere. *)
From Coq Require Import List ZArith NArith Bool Lia Arith.
From TskVerif Require Import Base.Common Gen.Generated C20.Model C20.Spec C20.SetProofs C20.HartiganProofs
  C20.AssignProofs C20.VisitProofs C20.FixProofs C20.CurrentProofs.
Import ListNotations.

Fixpoint rename (f : Z -> Z) (t : tree) : tree :=
  match t with Node u o ch => Node (f u) o (map (rename f) ch) end.

Definition ren_tr (f : Z -> Z) (m : trans) : trans := (f (tr_node m), tr_parent m, tr_state m).

Lemma rename_node f u o ch : rename f (Node u o ch) = Node (f u) o (map (rename f) ch).
Proof. reflexivity. Qed.

Lemma opt_set_rename K f t : opt_set K (rename f t) = opt_set K t.
Proof.
  induction t as [u o ch IH] using tree_ind'. rewrite rename_node. destruct o; try reflexivity.
  rewrite !opt_set_notsample. f_equal. rewrite map_map. apply map_ext_in.
  rewrite Forall_forall in IH. exact IH.
Qed.

Lemma hitb_rename K f t s : hitb K (rename f t) s = hitb K t s.
Proof. unfold hitb. rewrite opt_set_rename. reflexivity. Qed.

Lemma next_state_rename K f t s : next_state K (rename f t) s = next_state K t s.
Proof. unfold next_state. rewrite hitb_rename, opt_set_rename. reflexivity. Qed.

Lemma zlen_map {A B} (g : A -> B) l : zlen (map g l) = zlen l.
Proof. unfold zlen. rewrite map_length. reflexivity. Qed.

Lemma assign_children_rename K f cs :
  Forall (fun c => forall s tp k, assign K (rename f c) s tp k = map (ren_tr f) (assign K c s tp k)) cs ->
  forall s tp k, assign_children K (map (rename f) cs) s tp k = map (ren_tr f) (assign_children K cs s tp k).
Proof.
  induction 1 as [|c r Hc Hr IH]; intros s tp k; [reflexivity|].
  cbn [map assign_children]. rewrite IH, Hc, map_app, zlen_map. reflexivity.
Qed.

Lemma assign_rename K f t : forall s tp k,
  assign K (rename f t) s tp k = map (ren_tr f) (assign K t s tp k).
Proof.
  induction t as [u o ch IH] using tree_ind'. intros s tp k.
  rewrite rename_node, !assign_eq. rewrite <- !rename_node. rewrite hitb_rename, next_state_rename.
  rewrite map_app. rewrite (assign_children_rename K f ch IH).
  destruct (hitb K (Node u o ch) s); reflexivity.
Qed.

Lemma sets_nonzero_rename K f t : sets_nonzero K (rename f t) = sets_nonzero K t.
Proof.
  induction t as [u o ch IH] using tree_ind'. rewrite rename_node, !sets_nonzero_node.
  rewrite <- rename_node, opt_set_rename. f_equal.
  induction IH as [|c r Hc Hr IHr]; simpl; [reflexivity|]. rewrite Hc, IHr. reflexivity.
Qed.

Definition ren_result (f : Z -> Z) (r : N * list trans) : N * list trans := (fst r, map (ren_tr f) (snd r)).

Lemma mm_rose_rename K f roots anc :
  mm_rose K (map (rename f) roots) anc = option_map (ren_result f) (mm_rose K roots anc).
Proof.
  unfold mm_rose.
  assert (E1 : map (opt_set K) (map (rename f) roots) = map (opt_set K) roots).
  { rewrite map_map. apply map_ext. intros. apply opt_set_rename. }
  assert (E2 : forallb (sets_nonzero K) (map (rename f) roots) = forallb (sets_nonzero K) roots).
  { apply forallb_map_ext. intros. apply sets_nonzero_rename. }
  assert (E3 : forall a, assign_children K (map (rename f) roots) a (-1) 0 = map (ren_tr f) (assign_children K roots a (-1) 0)).
  { intros a. apply assign_children_rename. apply Forall_forall. intros c _. apply assign_rename. }
  rewrite E1, E2. destruct (negb (forallb (sets_nonzero K) roots)); [reflexivity|].
  destruct anc as [a|]; [rewrite E3; reflexivity|].
  destruct (get_smallest_set_bit (hartigan_set K (map (opt_set K) roots))); [rewrite E3; reflexivity | reflexivity].
Qed.

Lemma demote_rename f t : demote (rename f t) = rename f (demote t).
Proof.
  induction t as [u o ch IH] using tree_ind'. rewrite rename_node, !demote_node, rename_node. f_equal.
  rewrite !map_map. apply map_ext_in. rewrite Forall_forall in IH. exact IH.
Qed.

(* the model of the code under test *)
Lemma mm_model_rename_lemma K f roots anc :
  mm_model K (map (rename f) roots) anc = option_map (ren_result f) (mm_model K roots anc).
Proof.
  rewrite !mm_model_fixed. rewrite map_map.
  rewrite (map_ext (fun t => demote (rename f t)) (fun t => rename f (demote t))) by (intros; apply demote_rename).
  rewrite <- (map_map demote (rename f)). apply mm_rose_rename.
Qed.

(* non-vacuity: reversing the ids of the F2 tree (4 - u: the root becomes node 0) *)
Example mm_model_rename_nonvacuous :
  let f := fun u => (4 - u)%Z in
  mm_rose 3 (map (rename f) [Node 4 NotSample [Node 0 (Obs 0) []; Node 3 (Obs 2) [Node 1 (Obs 1) []; Node 2 (Obs 1) []]]]) None
  = Some (0%N, [(1, -1, 2%N); (2, 0, 1%N); (3, 0, 1%N)]%Z).
Proof. vm_compute. reflexivity. Qed.
