(* C20 — which inputs are rejected, and with which exception class.
   Python layer (trees.py 2923-2936, _tskitmodule.c 12593-12616) and the entry checks of
   tsk_tree_map_mutations (trees.c 7252-7283). *)
From Coq Require Import List ZArith NArith Bool Lia Arith.
From TskVerif Require Import Base.Common Gen.Generated C20.Model C20.Spec C20.SetProofs C20.ArrayProofs
  C20.EndToEnd C20.PyProofs.
Import ListNotations.
Open Scope Z_scope.

Definition int8_ok (x : Z) : Prop := - 2 ^ (c20_py_genotype_bits - 1) <= x <= 2 ^ (c20_py_genotype_bits - 1) - 1.

Definition max_with (a0 : option Z) (g0 : Z) (gs : list Z) : Z :=
  match a0 with Some i => Z.max i (fold_left Z.max gs g0) | None => fold_left Z.max gs g0 end.

Lemma existsb_int8 g : existsb (fun x => (x <? - 2 ^ (c20_py_genotype_bits - 1)) || (x >? 2 ^ (c20_py_genotype_bits - 1) - 1)) g = true
  <-> Exists (fun x => ~ int8_ok x) g.
Proof.
  rewrite existsb_exists, Exists_exists. unfold int8_ok. split; intros [x [Hx B]]; exists x; (split; [exact Hx|]).
  - apply orb_true_iff in B as [B|B]; [apply Z.ltb_lt in B | apply Z.gtb_lt in B]; lia.
  - apply orb_true_iff.
    destruct (Z_lt_dec x (- 2 ^ (c20_py_genotype_bits - 1))); [left; apply Z.ltb_lt; assumption|].
    right. apply Z.gtb_lt. lia.
Qed.

(* the decision sequence of the wrapper, one clause per exception class / stage *)
Lemma py_exception_classes_lemma core ta g anc alleles :
  let r := py_map_mutations core ta g anc alleles in
  (* OverflowError: some genotype does not fit int8 (checked first) *)
  (Exists (fun x => ~ int8_ok x) g -> r = MErr EOverflow) /\
  (Forall int8_ok g ->
     (* ValueError: empty genotypes (np.max) *)
     (g = [] -> r = MErr EValue) /\
     forall g0 gs, g = g0 :: gs ->
       (* ValueError: ancestral_state string not an allele / int out of range *)
       (forall c, resolve_anc anc alleles = Err c -> r = MErr EValue) /\
       forall a0, resolve_anc anc alleles = Ok a0 ->
         (* ValueError: 64 or more states *)
         (max_with a0 g0 gs >= c20_py_max_alleles -> r = MErr EValue) /\
         (max_with a0 g0 gs < c20_py_max_alleles ->
            (* ValueError: wrong number of genotypes *)
            (zlen g <> zlen (ta_samples ta) -> r = MErr EValue) /\
            (zlen g = zlen (ta_samples ta) ->
               (* LibraryError: the C function rejects *)
               (forall c, core ta g a0 = Err c -> r = MErr ELibrary) /\
               (* IndexError: an allele index beyond the alleles list; otherwise a result *)
               (forall a tr, core ta g a0 = Ok (a, tr) ->
                  (translate alleles a tr = None -> r = MErr EIndex) /\
                  (forall sa muts, translate alleles a tr = Some (sa, muts) -> r = MOk sa muts))))).
Proof.
  cbv zeta. unfold py_map_mutations. split.
  - intros H. apply existsb_int8 in H. rewrite H. reflexivity.
  - intros H.
    assert (E : existsb (fun x => (x <? - 2 ^ (c20_py_genotype_bits - 1)) || (x >? 2 ^ (c20_py_genotype_bits - 1) - 1)) g = false).
    { destruct (existsb _ g) eqn:X; [|reflexivity]. apply existsb_int8 in X. apply Exists_exists in X.
      destruct X as [x [Hx B]]. rewrite Forall_forall in H. exfalso. apply B. apply H. exact Hx. }
    rewrite E. split; [intros ->; reflexivity|].
    intros g0 gs ->. split; [intros c Hc; rewrite Hc; reflexivity|].
    intros a0 Ha. rewrite Ha. unfold max_with. split.
    + intros M. assert (X : (match a0 with Some i => Z.max i (fold_left Z.max gs g0) | None => fold_left Z.max gs g0 end >=? c20_py_max_alleles) = true)
        by (rewrite Z.geb_leb; apply Z.leb_le; lia). rewrite X. reflexivity.
    + intros M. assert (X : (match a0 with Some i => Z.max i (fold_left Z.max gs g0) | None => fold_left Z.max gs g0 end >=? c20_py_max_alleles) = false)
        by (rewrite Z.geb_leb; apply Z.leb_gt; lia). rewrite X. split.
      * intros L. assert (Y : negb (zlen (g0 :: gs) =? zlen (ta_samples ta)) = true)
          by (apply negb_true_iff; apply Z.eqb_neq; exact L). rewrite Y. reflexivity.
      * intros L. assert (Y : negb (zlen (g0 :: gs) =? zlen (ta_samples ta)) = false)
          by (apply negb_false_iff; apply Z.eqb_eq; exact L). rewrite Y. split.
        -- intros c Hc. rewrite Hc. reflexivity.
        -- intros a tr Hc. rewrite Hc. split; [intros T; rewrite T; reflexivity|].
           intros sa muts T. rewrite T. reflexivity.
Qed.

(* ---- the entry checks of the C function ---- *)
(* a genotype >= 64 or < -1 among the first num_samples entries: TSK_ERR_BAD_GENOTYPE *)
Lemma init_sets_bad fx : forall samples g os na nm,
  length g = length samples -> Forall (fun u => 0 <= u < zlen os) samples ->
  Exists (fun x => x >= c20_hartigan_max_alleles \/ x < c20_tsk_missing_data) g ->
  init_sets fx samples g os na nm = Err ERR_BAD_GENOTYPE.
Proof.
  induction samples as [|s rest IH]; intros g os na nm Hl Hs Hb.
  - destruct g; [inversion Hb | discriminate].
  - destruct g as [|g0 g']; [discriminate|]. inversion Hs as [|? ? Hs0 Hs']; subst. cbn [init_sets].
    destruct ((g0 >=? c20_hartigan_max_alleles) || (g0 <? c20_tsk_missing_data)) eqn:E; [reflexivity|].
    apply orb_false_iff in E as [E1 E2]. rewrite Z.geb_leb in E1. apply Z.leb_gt in E1. apply Z.ltb_ge in E2.
    inversion Hb as [? ? B|? ? B]; subst; [lia|].
    apply get_ok_iff in Hs0. destruct Hs0 as [cur Hcur].
    destruct (g0 =? c20_tsk_missing_data).
    + assert (X : exists os1, (if fx then (do _ <- get os s; Ok os) else set os s UINT64_MAX) = Ok os1 /\ zlen os1 = zlen os).
      { destruct fx; [rewrite Hcur; cbn [bind]; eauto|]. destruct (set_ok os s UINT64_MAX _ Hcur) as [os1 E].
        exists os1. split; [exact E | eapply set_zlen; eassumption]. }
      destruct X as [os1 [E L1]]. rewrite E. cbn [bind]. apply IH; [simpl in Hl; lia | rewrite L1; exact Hs' | exact B].
    + rewrite Hcur. cbn [bind]. destruct (set_ok os s (set_bit cur (Z.to_N g0)) _ Hcur) as [os1 E]. rewrite E. cbn [bind].
      apply IH; [simpl in Hl; lia | rewrite (set_zlen _ _ _ _ E); exact Hs' | exact B].
Qed.

Lemma init_sets_all_missing fx : forall samples g os na nm,
  length g = length samples -> Forall (fun u => 0 <= u < zlen os) samples ->
  Forall (fun x => x = c20_tsk_missing_data) g ->
  exists os', init_sets fx samples g os na nm = Ok (os', na, nm).
Proof.
  induction samples as [|s rest IH]; intros g os na nm Hl Hs Hm.
  - destruct g; [eexists; reflexivity | discriminate].
  - destruct g as [|g0 g']; [discriminate|]. inversion Hs as [|? ? Hs0 Hs']; subst. inversion Hm as [|? ? M0 M']; subst.
    cbn [init_sets]. unfold c20_hartigan_max_alleles, c20_tsk_missing_data. cbn [Z.geb Z.ltb Z.compare orb Z.eqb].
    apply get_ok_iff in Hs0. destruct Hs0 as [cur Hcur].
    assert (X : exists os1, (if fx then (do _ <- get os s; Ok os) else set os s UINT64_MAX) = Ok os1 /\ zlen os1 = zlen os).
    { destruct fx; [rewrite Hcur; cbn [bind]; eauto|]. destruct (set_ok os s UINT64_MAX _ Hcur) as [os1 E].
      exists os1. split; [exact E | eapply set_zlen; eassumption]. }
    destruct X as [os1 [E L1]]. rewrite E. cbn [bind]. apply IH; [simpl in Hl; lia | rewrite L1; exact Hs' | exact M'].
Qed.

Definition samples_in_range (ta : tree_arrays) : Prop :=
  Forall (fun u => 0 <= u < zlen (repeat 0%N (S (length (ta_flags ta))))) (ta_samples ta).

(* LibraryError inputs of the C function: bad genotype; all missing; bad ancestral state *)
Lemma c_entry_checks_lemma fx ta g anc :
  length g = length (ta_samples ta) -> samples_in_range ta ->
  (Exists (fun x => x >= c20_hartigan_max_alleles \/ x < c20_tsk_missing_data) g ->
     c_map_mutations_gen fx ta g anc = Err ERR_BAD_GENOTYPE) /\
  (Forall (fun x => x = c20_tsk_missing_data) g ->
     c_map_mutations_gen fx ta g anc = Err ERR_GENOTYPES_ALL_MISSING) /\
  (Forall (fun x => -1 <= x < c20_hartigan_max_alleles) g -> (exists x, In x g /\ x <> -1) ->
     forall a, anc = Some a -> (a < 0 \/ a >= c20_hartigan_max_alleles) ->
     c_map_mutations_gen fx ta g anc = Err ERR_BAD_ANCESTRAL_STATE).
Proof.
  intros Hl Hs. unfold c_map_mutations_gen. split; [|split].
  - intros B. rewrite (init_sets_bad fx _ _ _ _ _ Hl Hs B). reflexivity.
  - intros M. destruct (init_sets_all_missing fx _ _ _ 0 0 Hl Hs M) as [os' E]. rewrite E. reflexivity.
  - intros V NM a -> Ha.
    destruct (init_sets_succeeds fx _ _ _ 0 0 Hl V Hs) as [os' [na' [nm' [E [_ P]]]]]. rewrite E. cbn [bind].
    assert (nm' <> 0) by (specialize (P NM); lia).
    assert (X : (nm' =? 0) = false) by (apply Z.eqb_neq; assumption). rewrite X.
    assert (Y : (a <? 0) || (a >=? c20_hartigan_max_alleles) = true).
    { apply orb_true_iff. destruct Ha; [left; apply Z.ltb_lt | right; rewrite Z.geb_leb; apply Z.leb_le]; lia. }
    rewrite Y. reflexivity.
Qed.
