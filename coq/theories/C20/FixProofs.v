(* C20 — (1) Hartigan's invariant assembled; (2) the proposed repair of finding F2:
   a sample whose genotype is missing goes through the Hartigan step like a non-sample
   node.  On the rose-tree layer that is [mm_rose] run on the tree in which every Missing
   node is relabelled NotSample; the optimality and unary-chain theorems then hold for
   every tree, with no hypothesis about internal samples. *)
From Coq Require Import List ZArith NArith Bool Lia Arith.
From TskVerif Require Import Base.Common Gen.Generated C20.Model C20.Spec C20.SetProofs C20.HartiganProofs
  C20.AssignProofs C20.VisitProofs C20.PlaceProofs C20.TopProofs.
Import ListNotations.

Lemma hartigan_invariant_lemma K t :
  (1 <= K <= 64)%nat -> obs_lt K t = true -> no_internal_missing t = true ->
  (forall l, consistent t l = true ->
     (mcost K t + (if memx K (opt_set K t) (lroot l) then 0 else 1) <= changes l)%nat) /\
  (forall s, (s < N.of_nat K)%N -> N.testbit (opt_set K t) s = true ->
     exists l, consistent t l = true /\ lroot l = s /\ changes l = mcost K t).
Proof.
  intros HK HO HM. split.
  - apply hartigan_lower; assumption.
  - intros s Hs T. exists (assigned K t s). split; [apply assigned_consistent|]. split.
    + rewrite lroot_assigned. unfold next_state, hitb, bit_is_set. rewrite T. reflexivity.
    + apply changes_assigned; assumption.
Qed.

(* ---- the repair ---- *)
Lemma forallb_map_ext {A B} (f : B -> bool) (g : A -> bool) (h : A -> B) l :
  (forall x, f (h x) = g x) -> forallb f (map h l) = forallb g l.
Proof. intros E. induction l; simpl; [reflexivity|]. rewrite E, IHl. reflexivity. Qed.

Lemma forallb_map {A B} (f : B -> bool) (h : A -> B) l : forallb f (map h l) = forallb (fun x => f (h x)) l.
Proof. apply forallb_map_ext. reflexivity. Qed.

Lemma demote_node u o ch :
  demote (Node u o ch) = Node u (match o with Missing => NotSample | _ => o end) (map demote ch).
Proof. reflexivity. Qed.

Lemma consistent_demote t : forall l, consistent (demote t) l = consistent t l.
Proof.
  induction t as [u o ch IH] using tree_ind'. intros [s ls].
  rewrite demote_node, !consistent_node. f_equal; [destruct o; reflexivity|].
  revert ls. induction IH as [|c r Hc Hr IHr]; intros [|l ls]; simpl; try reflexivity.
  rewrite Hc, IHr. reflexivity.
Qed.

Lemma consistent_list_demote cs : forall ls, consistent_list (map demote cs) ls = consistent_list cs ls.
Proof.
  induction cs as [|c r IH]; intros [|l ls]; simpl; try reflexivity.
  rewrite consistent_demote, IH. reflexivity.
Qed.

Lemma obs_lt_demote K t : obs_lt K (demote t) = obs_lt K t.
Proof.
  induction t as [u o ch IH] using tree_ind'. rewrite demote_node, !obs_lt_node.
  f_equal; [destruct o; reflexivity|]. rewrite forallb_map.
  induction IH as [|c r Hc Hr IHr]; simpl; [reflexivity|]. rewrite Hc, IHr. reflexivity.
Qed.

Lemma no_internal_missing_demote t : no_internal_missing (demote t) = true.
Proof.
  induction t as [u o ch IH] using tree_ind'. rewrite demote_node, no_internal_missing_node.
  apply andb_true_iff. split; [destruct o; destruct (map demote ch); reflexivity|].
  rewrite forallb_map. apply forallb_forall. rewrite Forall_forall in IH. exact IH.
Qed.

Lemma ids_demote t : ids (demote t) = ids t.
Proof.
  induction t as [u o ch IH] using tree_ind'. rewrite demote_node, !ids_node. f_equal.
  unfold forest_ids. induction IH as [|c r Hc Hr IHr]; simpl; [reflexivity|]. rewrite Hc, IHr. reflexivity.
Qed.

Lemma forest_ids_demote cs : forest_ids (map demote cs) = forest_ids cs.
Proof.
  unfold forest_ids. induction cs as [|c r IH]; simpl; [reflexivity|]. rewrite ids_demote, IH. reflexivity.
Qed.

Lemma tid_demote t : tid (demote t) = tid t.
Proof. destruct t. reflexivity. Qed.

Lemma unary_ok_demote ms t : unary_ok true ms (demote t) = unary_ok false ms t.
Proof.
  induction t as [u o ch IH] using tree_ind'. rewrite demote_node, !unary_ok_eq. f_equal.
  - destruct o; destruct ch as [|c [|c2 r]]; simpl; try reflexivity; rewrite tid_demote; reflexivity.
  - rewrite forallb_map. induction IH as [|c r Hc Hr IHr]; simpl; [reflexivity|]. rewrite Hc, IHr. reflexivity.
Qed.

Lemma mm_fixed_optimal_lemma K roots anc a tr :
  (1 <= K <= 64)%nat -> forallb (obs_lt K) roots = true ->
  match anc with Some x => (x < N.of_nat K)%N | None => True end ->
  mm_rose_fixed K roots anc = Some (a, tr) ->
  (forall a' ls, match anc with Some x => a' = x | None => True end ->
      consistent_list roots ls = true -> (length tr <= forest_changes a' ls)%nat) /\
  (exists ls, consistent_list roots ls = true /\ forest_changes a ls = length tr).
Proof.
  intros HK HO HA H. unfold mm_rose_fixed in H.
  assert (HO' : forallb (obs_lt K) (map demote roots) = true).
  { rewrite (forallb_map_ext _ (obs_lt K)); [exact HO | apply obs_lt_demote]. }
  assert (HM' : forallb no_internal_missing (map demote roots) = true).
  { rewrite (forallb_map_ext _ (fun _ => true)); [|apply no_internal_missing_demote].
    apply forallb_forall. reflexivity. }
  destruct (mm_optimal_lemma K (map demote roots) anc a tr HK HO' HM' HA H) as [L [ls [C E]]].
  split.
  - intros a' ls' Ha' C'. apply L; [exact Ha'|]. rewrite consistent_list_demote. exact C'.
  - exists ls. rewrite consistent_list_demote in C. auto.
Qed.

Lemma mm_fixed_oldest_lemma K roots anc a tr :
  (1 <= K <= 64)%nat -> forallb (obs_lt K) roots = true ->
  match anc with Some x => (x < N.of_nat K)%N | None => True end ->
  nodupb (forest_ids roots) = true ->
  mm_rose_fixed K roots anc = Some (a, tr) ->
  forallb (unary_ok false tr) roots = true.
Proof.
  intros HK HO HA ND H. unfold mm_rose_fixed in H.
  assert (HO' : forallb (obs_lt K) (map demote roots) = true).
  { rewrite (forallb_map_ext _ (obs_lt K)); [exact HO | apply obs_lt_demote]. }
  rewrite <- forest_ids_demote in ND.
  pose proof (mm_oldest_lemma K (map demote roots) anc a tr true HK HO' HA ND (or_introl eq_refl) H) as U.
  rewrite (forallb_map_ext _ (unary_ok false tr)) in U; [exact U | intros; apply unary_ok_demote].
Qed.

Lemma mm_fixed_reproduces_lemma K roots anc a tr :
  nodupb (forest_ids roots) = true ->
  mm_rose_fixed K roots anc = Some (a, tr) ->
  consistent_list roots (map (fun r => paint tr r a) roots) = true.
Proof.
  intros ND H. unfold mm_rose_fixed in H. rewrite <- forest_ids_demote in ND.
  pose proof (mm_reproduces_lemma K (map demote roots) anc a tr ND H) as R.
  rewrite consistent_list_demote in R. rewrite map_map in R.
  assert (P : forall t s, paint tr (demote t) s = paint tr t s).
  { induction t as [u o ch IH] using tree_ind'. intros s. rewrite demote_node, !paint_eq. f_equal.
    rewrite map_map. apply map_ext_in. rewrite Forall_forall in IH. intros c Hc. apply IH. exact Hc. }
  rewrite (map_ext _ (fun r => paint tr r a)) in R; [exact R | intros; apply P].
Qed.

(* ---- the variant the code under test has ---- *)
Lemma mm_current_optimal_lemma K roots anc a tr :
  (1 <= K <= 64)%nat -> forallb (obs_lt K) roots = true ->
  (c20_missing_through_hartigan = true \/ forallb no_internal_missing roots = true) ->
  match anc with Some x => (x < N.of_nat K)%N | None => True end ->
  mm_model K roots anc = Some (a, tr) ->
  (forall a' ls, match anc with Some x => a' = x | None => True end ->
      consistent_list roots ls = true -> (length tr <= forest_changes a' ls)%nat) /\
  (exists ls, consistent_list roots ls = true /\ forest_changes a ls = length tr).
Proof.
  unfold mm_model. intros HK HO HF HA H. destruct c20_missing_through_hartigan.
  - apply (mm_fixed_optimal_lemma K roots anc a tr); assumption.
  - destruct HF as [HF|HF]; [discriminate|]. apply (mm_optimal_lemma K roots anc a tr); assumption.
Qed.

Lemma mm_current_oldest_lemma K roots anc a tr :
  (1 <= K <= 64)%nat -> forallb (obs_lt K) roots = true ->
  (c20_missing_through_hartigan = true \/ forallb no_internal_missing roots = true) ->
  match anc with Some x => (x < N.of_nat K)%N | None => True end ->
  nodupb (forest_ids roots) = true ->
  mm_model K roots anc = Some (a, tr) ->
  forallb (unary_ok false tr) roots = true.
Proof.
  unfold mm_model. intros HK HO HF HA ND H. destruct c20_missing_through_hartigan.
  - apply (mm_fixed_oldest_lemma K roots anc a tr); assumption.
  - destruct HF as [HF|HF]; [discriminate|].
    apply (mm_oldest_lemma K roots anc a tr false); try assumption. right. exact HF.
Qed.

Lemma mm_current_reproduces_lemma K roots anc a tr :
  nodupb (forest_ids roots) = true ->
  mm_model K roots anc = Some (a, tr) ->
  consistent_list roots (map (fun r => paint tr r a) roots) = true.
Proof.
  unfold mm_model. intros ND H. destruct c20_missing_through_hartigan.
  - apply (mm_fixed_reproduces_lemma K roots anc a tr); assumption.
  - apply (mm_reproduces_lemma K roots anc a tr); assumption.
Qed.
