(* C20 — the number of transitions never exceeds the number of samples with a non-missing
   observation (the C code allocates num_samples transitions, trees.c 7237-7238).  Holds
   without the "no internal sample is missing" hypothesis. *)
From Coq Require Import List ZArith NArith Bool Lia Arith.
From TskVerif Require Import Base.Common C20.Model C20.Spec C20.SetProofs C20.HartiganProofs
  C20.AssignProofs C20.VisitProofs C20.TopProofs.
Import ListNotations.

Lemma num_obs_node u o ch :
  num_obs (Node u o ch) = ((match o with Obs _ => 1 | _ => 0 end) + sumf num_obs ch)%nat.
Proof. reflexivity. Qed.

Lemma fullb_false_exists K v : fullb K v = false ->
  exists b, (b < N.of_nat K)%N /\ N.testbit v b = false.
Proof.
  intros M. unfold fullb in M.
  destruct (existsb (fun a => negb (N.testbit v a)) (allele_list K)) eqn:X.
  - apply existsb_exists in X. destruct X as [b [Hb Tb]]. exists b. split; [apply in_allele_list; exact Hb|].
    apply negb_true_iff in Tb. exact Tb.
  - exfalso. assert (F : forallb (fun a => N.testbit v a) (allele_list K) = true).
    { apply forallb_forall. intros a Ha. destruct (N.testbit v a) eqn:T; [reflexivity|].
      assert (existsb (fun a => negb (N.testbit v a)) (allele_list K) = true).
      { apply existsb_exists. exists a. split; [exact Ha | rewrite T; reflexivity]. }
      congruence. }
    congruence.
Qed.

Lemma sumf_le {A} (f g : A -> nat) l : (forall x, In x l -> (f x <= g x)%nat) -> (sumf f l <= sumf g l)%nat.
Proof.
  induction l as [|x r IH]; intros H; [apply Nat.le_refl|]. rewrite !sumf_cons.
  pose proof (H x (or_introl eq_refl)). assert (sumf f r <= sumf g r)%nat by (apply IH; intros; apply H; right; assumption). lia.
Qed.

Lemma sumf_in_le {A} (b : A -> nat) l x : In x l -> (b x <= sumf b l)%nat.
Proof.
  induction l as [|y r IH]; intros H; [contradiction|]. rewrite sumf_cons. destruct H as [->|H]; [lia|].
  specialize (IH H). lia.
Qed.

Lemma sumf_le_strict {A} (f b g : A -> nat) l :
  (forall x, In x l -> (f x + b x <= g x)%nat) -> (exists x, In x l /\ (1 <= b x)%nat) ->
  (sumf f l + 1 <= sumf g l)%nat.
Proof.
  intros H [x [Hx Bx]].
  pose proof (sumf_le (fun y => f y + b y)%nat g l H) as L. rewrite sumf_plus in L.
  pose proof (sumf_in_le b l x Hx). lia.
Qed.

Definition slack (K : nat) (t : tree) (s : N) : nat :=
  if hitb K t s && negb (fullb K (opt_set K t)) then 1%nat else O.

Lemma fullb_uint64_max K : okK K -> fullb K UINT64_MAX = true.
Proof.
  intros [H1 H2]. apply fullb_spec. intros a Ha. rewrite testbit_uint64_max. apply N.ltb_lt. lia.
Qed.

(* a child whose set has a but not b: it is entered with a "hit" and is not full *)
Lemma exists_slack_child K ch a b : (b < N.of_nat K)%N ->
  (count b (map (opt_set K) ch) < count a (map (opt_set K) ch))%nat ->
  exists c, In c ch /\ (1 <= slack K c a)%nat.
Proof.
  intros Hb H. apply count_lt_exists in H. destruct H as [x [Hx [Ta Tb]]].
  apply in_map_iff in Hx. destruct Hx as [c [E Hc]]. subst x. exists c. split; [exact Hc|].
  unfold slack, hitb, bit_is_set. rewrite Ta.
  destruct (fullb K (opt_set K c)) eqn:F; [|simpl; lia].
  apply fullb_spec with (a := b) in F; [congruence | exact Hb].
Qed.

Lemma bounded_tree K : okK K -> forall t, obs_lt K t = true -> forall s, (s < N.of_nat K)%N ->
  (length (assign K t s 0 0) + slack K t s <= num_obs t)%nat.
Proof.
  intros HK. induction t as [u o ch IH] using tree_ind'. intros HO s Hs.
  destruct (next_state_lt K _ s HK HO Hs) as [Hs' Ts'].
  pose proof (sets_nonzero_ok K _ HK HO) as NZ.
  rewrite sets_nonzero_node in NZ. apply andb_true_iff in NZ as [_ NZ]. rewrite forallb_forall in NZ.
  pose proof HO as HO0. rewrite obs_lt_node in HO. apply andb_true_iff in HO as [HO1 HO2].
  rewrite forallb_forall in HO2. rewrite Forall_forall in IH.
  rewrite assign_eq, app_length. set (s' := next_state K (Node u o ch) s) in *.
  rewrite length_assign_children
    by (intros c Hc tp0 k0; rewrite !length_assign by (apply NZ; exact Hc); reflexivity).
  rewrite num_obs_node.
  set (T := fun c => length (assign K c s' 0 0)).
  assert (B : forall c, In c ch -> (T c + slack K c s' <= num_obs c)%nat).
  { intros c Hc. apply IH; [exact Hc | apply HO2; exact Hc | exact Hs']. }
  assert (B0 : (sumf T ch <= sumf num_obs ch)%nat).
  { apply sumf_le. intros c Hc. specialize (B c Hc). lia. }
  unfold slack at 1.
  destruct o as [| |g].
  - (* non-sample *)
    rewrite opt_set_notsample in *.
    set (sets := map (opt_set K) ch) in *.
    pose proof (hartigan_set_count K sets s' Ts') as Cs'.
    destruct (hitb K (Node u NotSample ch) s) eqn:H.
    + assert (NS : s' = s) by (unfold s', next_state; rewrite H; reflexivity).
      destruct (fullb K (hartigan_set K sets)) eqn:F; simpl; [lia|].
      apply fullb_false_exists in F. destruct F as [b [Hb Tb]].
      rewrite hartigan_set_spec in Tb. apply N.ltb_lt in Hb. rewrite Hb in Tb. simpl in Tb.
      apply N.ltb_lt in Hb. apply Nat.eqb_neq in Tb.
      pose proof (max_count_ge K sets b Hb).
      assert (E : exists c, In c ch /\ (1 <= slack K c s')%nat).
      { apply exists_slack_child with (b := b); [exact Hb | fold sets; lia]. }
      pose proof (sumf_le_strict T (fun c => slack K c s') num_obs ch B E). lia.
    + simpl.
      assert (Cs : (count s sets < count s' sets)%nat).
      { unfold hitb, bit_is_set in H. rewrite opt_set_notsample in H. fold sets in H.
        rewrite hartigan_set_spec in H. apply N.ltb_lt in Hs. rewrite Hs in H. simpl in H.
        apply Nat.eqb_neq in H. apply N.ltb_lt in Hs. pose proof (max_count_ge K sets s Hs). lia. }
      assert (E : exists c, In c ch /\ (1 <= slack K c s')%nat).
      { apply exists_slack_child with (b := s); [exact Hs | exact Cs]. }
      pose proof (sumf_le_strict T (fun c => slack K c s') num_obs ch B E). lia.
  - (* missing sample: always a hit, set is full *)
    rewrite opt_set_missing. rewrite (fullb_uint64_max K HK). rewrite andb_false_r.
    destruct (hitb K (Node u Missing ch) s) eqn:H; simpl; [lia|].
    unfold hitb, bit_is_set in H. rewrite opt_set_missing, testbit_uint64_max in H.
    apply N.ltb_ge in H. destruct HK. lia.
  - (* observed sample *)
    destruct (hitb K (Node u (Obs g) ch) s);
      destruct (negb (fullb K (opt_set K (Node u (Obs g) ch)))); simpl; lia.
Qed.

Lemma transitions_bounded_lemma K roots anc a tr :
  okK K -> forallb (obs_lt K) roots = true -> anc_ok K anc ->
  mm_rose K roots anc = Some (a, tr) ->
  (length tr <= forest_num_obs roots)%nat.
Proof.
  intros HK HO HA H. pose proof (mm_rose_anc_lt K roots anc a tr HA H) as Ha.
  apply mm_rose_inv in H as [NZ [-> _]]. rewrite forallb_forall in NZ, HO.
  rewrite length_assign_children
    by (intros c Hc tp0 k0; rewrite !length_assign by (apply NZ; exact Hc); reflexivity).
  change (forest_num_obs roots) with (sumf num_obs roots). apply sumf_le.
  intros c Hc. pose proof (bounded_tree K HK c (HO c Hc) a Ha). lia.
Qed.
