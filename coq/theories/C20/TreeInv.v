(* C20 — the bridge: from the representation invariant of a quintuply linked tskit tree
   (in the style of C01's links_consistent: the child chains are the children of the parent
   map, the virtual root's chain are the roots, the parent map is acyclic because node times
   increase towards the roots, the sample list is the duplicate-free list of flagged nodes)
   to the existence of the rose tree ([rose_of_arrays] terminates within its fuel) and to the
   executable input check [arrays_okb] that the L2 theorems assume. *)
From Coq Require Import List ZArith NArith Bool Lia Arith.
From TskVerif Require Import Base.Common Gen.Generated C20.Model C20.Spec C20.SetProofs C20.HartiganProofs
  C20.AssignProofs C20.VisitProofs C20.StackProofs C20.TopProofs C20.ArrayProofs C20.EndToEnd.
Import ListNotations.
Open Scope Z_scope.

Definition flagged (ta : tree_arrays) (u : Z) : Prop :=
  exists f, get (ta_flags ta) u = Ok f /\ Z.odd (f / c20_tsk_node_is_sample) = true.

Record tree_inv (ta : tree_arrays) (K : Z -> list Z) (h : Z -> nat) : Prop := {
  (* left_child[p], right_sib, ... walks K p; right_child[p], left_sib, ... walks it backwards
     (p a node or the virtual root N = number of nodes) *)
  inv_lc : forall p, 0 <= p <= zlen (ta_flags ta) ->
           exists lc, get (ta_left_child ta) p = Ok lc /\ sibs (ta_right_sib ta) lc (K p);
  inv_rc : forall p, 0 <= p <= zlen (ta_flags ta) ->
           exists rc, get (ta_right_child ta) p = Ok rc /\ sibs (ta_left_sib ta) rc (rev (K p));
  (* K p are exactly the nodes whose parent is p *)
  inv_child : forall p c, 0 <= p < zlen (ta_flags ta) ->
              (In c (K p) <-> 0 <= c < zlen (ta_flags ta) /\ get (ta_parent ta) c = Ok p);
  (* the virtual root's children are parentless nodes *)
  inv_root : forall c, In c (K (zlen (ta_flags ta))) ->
             0 <= c < zlen (ta_flags ta) /\ get (ta_parent ta) c = Ok (-1);
  (* acyclic: a rank (the node time) grows from child to parent *)
  inv_rank : forall p c, 0 <= p < zlen (ta_flags ta) -> In c (K p) -> (h c < h p)%nat;
  (* tree_sequence->samples: the flagged nodes, once each *)
  inv_samples_nodup : NoDup (ta_samples ta);
  inv_samples : forall u, In u (ta_samples ta) <-> 0 <= u < zlen (ta_flags ta) /\ flagged ta u
}.

Section Bridge.
Variable ta : tree_arrays.
Variable K : Z -> list Z.
Variable h : Z -> nat.
Variable g : list Z.
Hypothesis INV : tree_inv ta K h.
Hypothesis GLEN : length g = length (ta_samples ta).

Let Nn := zlen (ta_flags ta).

Definition obs_at (u : Z) : obs := match obs_of ta g u with Ok o => o | _ => NotSample end.

Fixpoint mkt (f : nat) (u : Z) : tree :=
  Node u (obs_at u) (match f with O => [] | S f' => map (mkt f') (K u) end).

Definition T (u : Z) : tree := mkt (S (h u)) u.

Lemma tid_mkt f u : tid (mkt f u) = u.
Proof. destruct f; reflexivity. Qed.

Lemma child_range p c : 0 <= p < Nn -> In c (K p) -> 0 <= c < Nn.
Proof. intros Hp Hc. apply (inv_child _ _ _ INV p c Hp) in Hc. tauto. Qed.

Lemma mkt_irrel : forall f f' u, 0 <= u < Nn -> (h u < f)%nat -> (h u < f')%nat -> mkt f u = mkt f' u.
Proof.
  induction f as [|f IH]; intros f' u Hu H1 H2; [lia|]. destruct f' as [|f']; [lia|].
  cbn [mkt]. f_equal. apply map_ext_in. intros c Hc.
  pose proof (inv_rank _ _ _ INV u c Hu Hc). apply IH; [eapply child_range; eassumption | lia | lia].
Qed.

Lemma T_unfold u : 0 <= u < Nn -> T u = Node u (obs_at u) (map T (K u)).
Proof.
  intros Hu. unfold T at 1. cbn [mkt]. f_equal. apply map_ext_in. intros c Hc.
  pose proof (inv_rank _ _ _ INV u c Hu Hc). unfold T. apply mkt_irrel; [eapply child_range; eassumption | lia | lia].
Qed.

Lemma tid_T u : tid (T u) = u.
Proof. apply tid_mkt. Qed.

Lemma map_tid_T l : map tid (map T l) = l.
Proof. rewrite map_map. rewrite <- (map_id l) at 2. apply map_ext. intros. apply tid_T. Qed.

(* ---- observations are defined on every node ---- *)
Lemma obs_total u : 0 <= u < Nn -> obs_of ta g u = Ok (obs_at u).
Proof.
  intros Hu. unfold obs_at.
  assert (X : exists o, obs_of ta g u = Ok o); [|destruct X as [o E]; rewrite E; reflexivity].
  unfold obs_of. destruct (proj2 (get_ok_iff (ta_flags ta) u) Hu) as [f Ef]. rewrite Ef. cbn [bind].
  destruct (Z.odd (f / c20_tsk_node_is_sample)) eqn:Eo; [|eauto].
  assert (Hin : In u (ta_samples ta)) by (apply (inv_samples _ _ _ INV); split; [exact Hu | exists f; auto]).
  destruct (index_of_in _ _ Hin) as [j Ej]. rewrite Ej. pose proof (index_of_lt _ _ _ _ Ej) as Lj.
  destruct (nth_error g j) as [gj|] eqn:En; [eauto|]. apply nth_error_None in En. lia.
Qed.

(* ---- descendants; ids of the constructed trees ---- *)
Inductive Desc (c : Z) : Z -> Prop :=
| D_refl : Desc c c
| D_step : forall x q, get (ta_parent ta) x = Ok q -> 0 <= q < Nn -> Desc c q -> Desc c x.

Lemma Desc_trans a b c : Desc b c -> Desc a b -> Desc a c.
Proof. induction 1 as [|x q Hp Hq D IH]; intros Hab; [exact Hab | eapply D_step; eauto]. Qed.

Lemma Desc_rank c x : 0 <= x < Nn -> Desc c x -> (h x <= h c)%nat.
Proof.
  intros Hx D. induction D as [|x q Hp Hq D IH]; [lia|].
  assert (In x (K q)) by (apply (inv_child _ _ _ INV q x Hq); auto).
  pose proof (inv_rank _ _ _ INV q x Hq H). specialize (IH Hq). lia.
Qed.

Lemma Desc_comparable c1 c2 x : Desc c1 x -> Desc c2 x -> Desc c2 c1 \/ Desc c1 c2.
Proof.
  induction 1 as [|x q Hp Hq D IH]; intros D2; [left; exact D2|].
  inversion D2 as [|? q' Hp' Hq' D2']; subst.
  - right. eapply D_step; eauto.
  - assert (q' = q) by congruence. subst. apply IH. exact D2'.
Qed.

Lemma ids_T_desc : forall n u, (h u < n)%nat -> 0 <= u < Nn ->
  forall x, In x (ids (T u)) -> Desc u x /\ 0 <= x < Nn.
Proof.
  induction n as [|n IH]; intros u Hn Hu x Hx; [lia|].
  rewrite (T_unfold u Hu) in Hx. rewrite ids_node in Hx. destruct Hx as [<-|Hx]; [split; [constructor | exact Hu]|].
  unfold forest_ids in Hx. apply in_flat_map in Hx. destruct Hx as [t [Ht Hx]].
  apply in_map_iff in Ht. destruct Ht as [c [<- Hc]].
  pose proof (inv_rank _ _ _ INV u c Hu Hc) as R. pose proof (child_range u c Hu Hc) as Rc.
  destruct (IH c ltac:(lia) Rc x Hx) as [D Rx]. split; [|exact Rx].
  apply (Desc_trans u c x D). apply (D_step u c u); [|exact Hu|constructor].
  apply (inv_child _ _ _ INV u c Hu) in Hc. tauto.
Qed.

Lemma NoDup_flat_map {A} (f : A -> list Z) l :
  NoDup l -> (forall a, In a l -> NoDup (f a)) ->
  (forall a b x, In a l -> In b l -> a <> b -> In x (f a) -> In x (f b) -> False) ->
  NoDup (flat_map f l).
Proof.
  induction l as [|a r IH]; intros ND H1 H2; [constructor|]. inversion ND; subst. cbn [flat_map].
  apply NoDup_app_intro.
  - apply H1. left. reflexivity.
  - apply IH; [assumption | intros; apply H1; right; assumption |].
    intros a0 b x Ha Hb. apply H2; right; assumption.
  - intros x Hx Hin. apply in_flat_map in Hin. destruct Hin as [b [Hb Hxb]].
    apply (H2 a b x); [left; reflexivity | right; exact Hb | intros ->; contradiction | exact Hx | exact Hxb].
Qed.

(* two different nodes hanging at the same place have disjoint subtrees *)
Lemma siblings_disjoint c1 c2 x (pp : Z) :
  0 <= c1 < Nn -> 0 <= c2 < Nn -> c1 <> c2 ->
  get (ta_parent ta) c1 = Ok pp -> get (ta_parent ta) c2 = Ok pp ->
  (pp = -1 \/ (0 <= pp < Nn)) ->
  In x (ids (T c1)) -> In x (ids (T c2)) -> False.
Proof.
  intros R1 R2 NE P1 P2 Hpp X1 X2.
  destruct (ids_T_desc (S (h c1)) c1 ltac:(lia) R1 x X1) as [D1 _].
  destruct (ids_T_desc (S (h c2)) c2 ltac:(lia) R2 x X2) as [D2 _].
  assert (G : forall a b, 0 <= a < Nn -> 0 <= b < Nn -> a <> b -> get (ta_parent ta) a = Ok pp ->
              get (ta_parent ta) b = Ok pp -> Desc b a -> False).
  { intros a b Ra Rb Nab Pa Pb D. inversion D as [|? q Hq Rq Dq]; subst; [congruence|].
    assert (q = pp) by congruence. subst q. destruct Hpp as [->|Rp]; [lia|].
    pose proof (Desc_rank b pp Rp Dq).
    assert (In b (K pp)) by (apply (inv_child _ _ _ INV pp b Rp); auto).
    pose proof (inv_rank _ _ _ INV pp b Rp H0). lia. }
  destruct (Desc_comparable c1 c2 x D1 D2) as [D|D].
  - apply (G c1 c2); auto.
  - apply (G c2 c1); auto.
Qed.

Lemma sibs_K_nodup p : 0 <= p <= Nn -> NoDup (K p).
Proof. intros Hp. destruct (inv_lc _ _ _ INV p Hp) as [lc [_ S]]. eapply sibs_nodup; eassumption. Qed.

Lemma T_nodup : forall n u, (h u < n)%nat -> 0 <= u < Nn -> NoDup (ids (T u)).
Proof.
  induction n as [|n IH]; intros u Hn Hu; [lia|].
  rewrite (T_unfold u Hu), ids_node. constructor.
  - intros X. unfold forest_ids in X. apply in_flat_map in X. destruct X as [t [Ht Hx]].
    apply in_map_iff in Ht. destruct Ht as [c [<- Hc]].
    pose proof (inv_rank _ _ _ INV u c Hu Hc) as R. pose proof (child_range u c Hu Hc) as Rc.
    destruct (ids_T_desc (S (h c)) c ltac:(lia) Rc u Hx) as [D _].
    pose proof (Desc_rank c u Hu D). lia.
  - unfold forest_ids. rewrite flat_map_concat_map, map_map, <- flat_map_concat_map.
    apply NoDup_flat_map.
    + apply sibs_K_nodup. lia.
    + intros c Hc. pose proof (inv_rank _ _ _ INV u c Hu Hc). apply (IH c); [lia | eapply child_range; eassumption].
    + intros a b x Ha Hb Nab Xa Xb.
      pose proof (proj1 (inv_child _ _ _ INV u a Hu) Ha) as [Ra Pa].
      pose proof (proj1 (inv_child _ _ _ INV u b Hu) Hb) as [Rb Pb].
      apply (siblings_disjoint a b x u Ra Rb Nab Pa Pb (or_intror Hu) Xa Xb).
Qed.

Definition the_roots : list tree := map T (K Nn).

Lemma roots_nodup : NoDup (forest_ids the_roots).
Proof.
  unfold the_roots, forest_ids. rewrite flat_map_concat_map, map_map, <- flat_map_concat_map.
  apply NoDup_flat_map.
  - apply sibs_K_nodup. unfold Nn, zlen. lia.
  - intros c Hc. destruct (inv_root _ _ _ INV c Hc) as [Rc _]. apply (T_nodup (S (h c))); [lia | exact Rc].
  - intros a b x Ha Hb Nab Xa Xb.
    destruct (inv_root _ _ _ INV a Ha) as [Ra Pa]. destruct (inv_root _ _ _ INV b Hb) as [Rb Pb].
    apply (siblings_disjoint a b x (-1) Ra Rb Nab Pa Pb (or_introl eq_refl) Xa Xb).
Qed.

Lemma roots_ids_range x : In x (forest_ids the_roots) -> 0 <= x < Nn.
Proof.
  unfold the_roots, forest_ids. intros X. apply in_flat_map in X. destruct X as [t [Ht Hx]].
  apply in_map_iff in Ht. destruct Ht as [c [<- Hc]]. destruct (inv_root _ _ _ INV c Hc) as [Rc _].
  apply (ids_T_desc (S (h c)) c ltac:(lia) Rc x Hx).
Qed.

Lemma length_ids t : length (ids t) = tsize t.
Proof.
  induction t as [u o ch IH] using tree_ind'. rewrite ids_node. cbn [length tsize]. f_equal.
  unfold forest_ids. induction IH as [|c r Hc Hr IHr]; [reflexivity|]. cbn [flat_map fold_right].
  rewrite app_length, Hc, IHr. reflexivity.
Qed.

Lemma length_forest_ids ts : length (forest_ids ts) = fsize ts.
Proof.
  unfold forest_ids, fsize. induction ts as [|c r IH]; [reflexivity|]. cbn [flat_map fold_right].
  rewrite app_length, length_ids, IH. reflexivity.
Qed.

Lemma roots_fsize : (fsize the_roots <= length (ta_flags ta))%nat.
Proof.
  rewrite <- length_forest_ids.
  assert (I : incl (forest_ids the_roots) (map Z.of_nat (seq 0 (length (ta_flags ta))))).
  { intros x Hx. apply roots_ids_range in Hx. unfold Nn, zlen in Hx. apply in_map_iff. exists (Z.to_nat x).
    split; [lia | apply in_seq; lia]. }
  pose proof (NoDup_incl_length roots_nodup I) as L. rewrite map_length, seq_length in L. exact L.
Qed.

(* ---- rose_of_arrays terminates within its fuel and returns the constructed forest ---- *)
Lemma fsize_cons t ts : fsize (t :: ts) = (tsize t + fsize ts)%nat.
Proof. reflexivity. Qed.

Lemma rose_chain_T : forall fuel v l, sibs (ta_right_sib ta) v l -> (forall c, In c l -> 0 <= c < Nn) ->
  (fsize (map T l) < fuel)%nat -> rose_chain fuel ta g v = Ok (map T l).
Proof.
  induction fuel as [|f IH]; intros v l S R Hf; [lia|].
  inversion S as [|? n r Hv Hn Sr]; subst; cbn [rose_chain]; unfold tsk_null.
  - reflexivity.
  - assert (E : (v =? -1) = false) by (apply Z.eqb_neq; exact Hv). rewrite E.
    assert (Rv : 0 <= v < Nn) by (apply R; left; reflexivity).
    rewrite (obs_total v Rv). cbn [bind].
    destruct (inv_lc _ _ _ INV v ltac:(fold Nn; lia)) as [lc [Hlc Slc]]. rewrite Hlc. cbn [bind].
    cbn [map] in Hf. rewrite fsize_cons in Hf. rewrite (T_unfold v Rv) in Hf. rewrite tsize_node in Hf.
    rewrite (IH lc (K v) Slc); [|intros c Hc; eapply child_range; eassumption | lia]. cbn [bind].
    rewrite Hn. cbn [bind]. rewrite (IH n r Sr); [|intros c Hc; apply R; right; exact Hc | lia]. cbn [bind map].
    rewrite (T_unfold v Rv). reflexivity.
Qed.

Lemma left_child_length : length (ta_left_child ta) = S (length (ta_flags ta)) \/ (length (ta_flags ta) < length (ta_left_child ta))%nat.
Proof.
  right. destruct (inv_lc _ _ _ INV Nn ltac:(unfold Nn, zlen; lia)) as [lc [Hlc _]].
  assert (X : exists a, get (ta_left_child ta) Nn = Ok a) by eauto. apply get_ok_iff in X. unfold Nn, zlen in X. lia.
Qed.

Lemma rose_of_arrays_T : rose_of_arrays ta g = Ok the_roots.
Proof.
  unfold rose_of_arrays. fold Nn.
  destruct (inv_lc _ _ _ INV Nn ltac:(unfold Nn, zlen; lia)) as [lc [Hlc Slc]]. rewrite Hlc. cbn [bind].
  apply rose_chain_T; [exact Slc | intros c Hc; apply (inv_root _ _ _ INV c Hc) |].
  fold the_roots. pose proof roots_fsize. destruct left_child_length; lia.
Qed.

(* ---- the executable input check holds ---- *)
Lemma zlist_eqb_refl l : zlist_eqb l l = true.
Proof. apply list_eqb_eq; [intros x y; apply Z.eqb_eq | reflexivity]. Qed.

Lemma chain_rev_K p : 0 <= p <= Nn -> exists rc, get (ta_right_child ta) p = Ok rc /\
  chain (S (length (ta_left_sib ta))) (ta_left_sib ta) rc = Ok (rev (K p)).
Proof.
  intros Hp. destruct (inv_rc _ _ _ INV p Hp) as [rc [Hrc S]]. exists rc. split; [exact Hrc|].
  apply chain_sibs; [exact S|]. pose proof (sibs_width _ _ _ S). lia.
Qed.

Lemma links_okb_T : forall n u, (h u < n)%nat -> 0 <= u < Nn -> (exists q, get (ta_parent ta) u = Ok q) ->
  links_okb ta (T u) = true.
Proof.
  induction n as [|n IH]; intros u Hn Hu [q Hq]; [lia|].
  rewrite (T_unfold u Hu). cbn [links_okb].
  destruct (chain_rev_K u ltac:(lia)) as [rc [Hrc Hch]]. rewrite Hrc, Hq, Hch. rewrite map_tid_T, zlist_eqb_refl.
  cbn [andb]. apply andb_true_iff. split.
  - apply forallb_forall. intros t Ht. apply in_map_iff in Ht. destruct Ht as [c [<- Hc]]. rewrite tid_T.
    apply (inv_child _ _ _ INV u c Hu) in Hc. destruct Hc as [_ Pc]. rewrite Pc. apply Z.eqb_refl.
  - apply forallb_forall. intros t Ht. apply in_map_iff in Ht. destruct Ht as [c [<- Hc]].
    pose proof (inv_rank _ _ _ INV u c Hu Hc). apply (IH c); [lia | eapply child_range; eassumption |].
    apply (inv_child _ _ _ INV u c Hu) in Hc. destruct Hc as [_ Pc]. eauto.
Qed.

Lemma arrays_okb_T : arrays_okb ta the_roots = true.
Proof.
  unfold arrays_okb. fold Nn.
  destruct (chain_rev_K Nn ltac:(unfold Nn, zlen; lia)) as [rc [Hrc Hch]]. rewrite Hrc, Hch.
  unfold the_roots at 1. rewrite map_tid_T, zlist_eqb_refl. cbn [andb].
  repeat (apply andb_true_iff; split).
  - apply forallb_forall. intros t Ht. apply in_map_iff in Ht. destruct Ht as [c [<- Hc]]. rewrite tid_T.
    destruct (inv_root _ _ _ INV c Hc) as [_ Pc]. rewrite Pc. reflexivity.
  - apply forallb_forall. intros t Ht. apply in_map_iff in Ht. destruct Ht as [c [<- Hc]].
    destruct (inv_root _ _ _ INV c Hc) as [Rc Pc]. apply (links_okb_T (S (h c))); [lia | exact Rc | eauto].
  - apply nodupb_NoDup. apply (inv_samples_nodup _ _ _ INV).
  - apply forallb_forall. intros s Hs. apply (inv_samples _ _ _ INV) in Hs. destruct Hs as [_ [f [Ef Eo]]].
    rewrite Ef. exact Eo.
  - apply nodupb_NoDup. exact roots_nodup.
  - apply Nat.ltb_lt. pose proof roots_fsize. destruct left_child_length; lia.
Qed.

End Bridge.

(* a tskit tree, by its representation invariant: the rose tree exists, rose_of_arrays
   computes it within its fuel, and the executable input check of the L2 theorems holds *)
Lemma tree_inv_arrays_ok_lemma ta K h g :
  tree_inv ta K h -> length g = length (ta_samples ta) ->
  exists roots, rose_of_arrays ta g = Ok roots /\ arrays_okb ta roots = true /\
                map tid roots = K (zlen (ta_flags ta)).
Proof.
  intros INV GL. exists (the_roots ta K h g). split; [apply rose_of_arrays_T; assumption|].
  split; [apply arrays_okb_T; assumption | apply map_tid_T].
Qed.
