(* C20 — finding F2: a faithful model of tsk_tree_map_mutations is NOT most parsimonious
   (and does not use the oldest node of a unary chain) when an INTERNAL sample has a
   missing genotype: trees.c 7258-7260 gives such a node the set "all bits" and 7298 then
   skips the Hartigan step for it, so the sets of its children never reach its parent.
   Witnesses replayed on the real code by the `single` family (first cases). *)
From Coq Require Import List ZArith NArith Bool Lia.
From TskVerif Require Import Base.Common C20.Model C20.Spec.
Import ListNotations.
Open Scope Z_scope.

(* leaves 0,1,2; internal sample 3 over 1,2; root 4 over 0,3; genotypes [0,1,1,missing] *)
Definition f2_arrays : tree_arrays :=
  mkTreeArrays [-1; -1; -1; 1; 0; 4] [3; 2; -1; -1; -1; -1] [-1; -1; -1; 2; 3; 4]
               [-1; -1; 1; 0; -1; -1] [4; 3; 3; 4; -1; -1] [1; 1; 1; 1; 0] [0; 1; 2; 3].
Definition f2_genotypes : list Z := [0; 1; 1; -1].
Definition f2_roots : list tree :=
  [Node 4 NotSample [Node 0 (Obs 0) []; Node 3 Missing [Node 1 (Obs 1) []; Node 2 (Obs 1) []]]].
(* one change (on the edge above node 3) explains the data *)
Definition f2_better : list ltree :=
  [LNode 0 [LNode 0 []; LNode 1 [LNode 1 []; LNode 1 []]]].

Lemma f2_witness :
  rose_of_arrays f2_arrays f2_genotypes = Ok f2_roots /\
  c_map_mutations_gen false f2_arrays f2_genotypes None = Ok (0, [(2, -1, 1%N); (1, -1, 1%N)]) /\
  c_map_mutations_gen true f2_arrays f2_genotypes None = Ok (0, [(3, -1, 1%N)]) /\
  mm_rose 2 f2_roots None = Some (0%N, [(2, -1, 1%N); (1, -1, 1%N)]) /\
  forallb (obs_lt 2) f2_roots = true /\ nodupb (forest_ids f2_roots) = true /\
  forallb no_internal_missing f2_roots = false /\
  consistent_list f2_roots f2_better = true /\
  forest_changes 0 f2_better = 1%nat.
Proof. vm_compute. repeat split; reflexivity. Qed.

Lemma mm_optimal_internal_missing_refuted_lemma :
  exists (K : nat) (roots : list tree) (a : N) (tr : list trans) (ls : list ltree),
    forallb (obs_lt K) roots = true /\ nodupb (forest_ids roots) = true /\
    mm_rose K roots None = Some (a, tr) /\
    consistent_list roots ls = true /\
    (forest_changes a ls < length tr)%nat.
Proof.
  exists 2%nat, f2_roots, 0%N, [(2, -1, 1%N); (1, -1, 1%N)], f2_better.
  repeat split; try (vm_compute; reflexivity).
Qed.

(* unary chain: leaf 0, leaf 1 under the unary internal sample 2 (missing), root 3 over
   0 and 2; genotypes [0,1,missing]: the mutation is put on node 1 although it could sit
   on node 2, the older node of the unary chain 2-1. *)
Definition f2u_arrays : tree_arrays :=
  mkTreeArrays [-1; -1; 1; 0; 3] [2; -1; -1; -1; -1] [-1; -1; 1; 2; 3] [-1; -1; 0; -1; -1]
               [3; 2; 3; -1; -1] [1; 1; 1; 0] [0; 1; 2].
Definition f2u_roots : list tree :=
  [Node 3 NotSample [Node 0 (Obs 0) []; Node 2 Missing [Node 1 (Obs 1) []]]].

Lemma mm_oldest_internal_missing_refuted_lemma :
  exists (K : nat) (roots : list tree) (a : N) (tr : list trans),
    forallb (obs_lt K) roots = true /\ nodupb (forest_ids roots) = true /\
    mm_rose K roots None = Some (a, tr) /\
    forallb (unary_ok false tr) roots = false.
Proof.
  exists 2%nat, f2u_roots, 0%N, [(1, -1, 1%N)]. vm_compute. repeat split; reflexivity.
Qed.

Lemma f2u_witness :
  rose_of_arrays f2u_arrays [0; 1; -1] = Ok f2u_roots /\
  c_map_mutations_gen false f2u_arrays [0; 1; -1] None = Ok (0, [(1, -1, 1%N)]) /\
  c_map_mutations_gen true f2u_arrays [0; 1; -1] None = Ok (0, [(2, -1, 1%N)]).
Proof. vm_compute. repeat split; reflexivity. Qed.
