(* C20 — the Python layer: Tree.map_mutations (trees.py 2923-2948) around the C function.
   ancestral_state resolution (str through alleles.index / int), range checks, and the
   translation of the result back through the alleles list; exception classes.  The wrapper
   was tied only differentially before; here: what it returns is the core's result through
   the allele map, and on every valid input it returns a result (no exception). *)
From Coq Require Import List ZArith NArith Bool Lia Arith.
From TskVerif Require Import Base.Common Gen.Generated C20.Model C20.Spec C20.SetProofs C20.HartiganProofs
  C20.AssignProofs C20.VisitProofs C20.PlaceProofs C20.TopProofs C20.BoundProofs C20.FixProofs
  C20.ArrayProofs C20.EndToEnd C20.CurrentProofs.
Import ListNotations.

(* ---- ancestral_state resolution ---- *)
Lemma index_of_first x l : forall i j, index_of x l i = Some j ->
  (i <= j)%nat /\ nth_error l (j - i) = Some x /\ forall k, (k < j - i)%nat -> nth_error l k <> Some x.
Proof.
  induction l as [|y r IH]; intros i j H; [discriminate|]. cbn [index_of] in H.
  destruct (Z.eqb_spec x y) as [E|NE].
  - inversion H; subst. rewrite Nat.sub_diag. split; [lia|]. split; [reflexivity|]. intros k Hk. lia.
  - destruct (IH _ _ H) as [L [N1 N2]]. split; [lia|].
    replace (j - i)%nat with (S (j - S i)) by lia. split; [exact N1|].
    intros [|k] Hk; simpl; [congruence|]. apply N2. lia.
Qed.

(* a str is looked up with alleles.index: the FIRST position holding that string; it is never
   interpreted as a number.  An int is taken as it is, after the range check. *)
Lemma resolve_anc_spec anc alleles a0 : resolve_anc anc alleles = Ok a0 ->
  match anc, a0 with
  | ANone, None => True
  | AInt k, Some i => i = k /\ (0 <= k < zlen alleles)%Z
  | AStr s, Some i => (0 <= i < zlen alleles)%Z /\ nth_error alleles (Z.to_nat i) = Some s /\
                      forall k, (k < Z.to_nat i)%nat -> nth_error alleles k <> Some s
  | _, _ => False
  end.
Proof.
  destruct anc as [|k|s]; cbn [resolve_anc].
  - intros H; inversion H; exact I.
  - destruct ((k <? 0) || (k >=? zlen alleles))%Z eqn:E; [discriminate|]. intros H; inversion H; subst.
    apply orb_false_iff in E as [E1 E2]. apply Z.ltb_ge in E1. rewrite Z.geb_leb in E2. apply Z.leb_gt in E2. auto.
  - destruct (index_of s alleles 0) as [j|] eqn:E; [|discriminate]. intros H; inversion H; subst.
    destruct (index_of_first _ _ _ _ E) as [_ [N1 N2]]. rewrite Nat.sub_0_r in *. rewrite Nat2Z.id.
    split; [|split; assumption]. unfold zlen. split; [lia|].
    assert (j < length alleles)%nat by (apply nth_error_Some; congruence). lia.
Qed.

Lemma resolve_anc_err anc alleles c : resolve_anc anc alleles = Err c ->
  match anc with
  | ANone => False
  | AInt k => (k < 0 \/ zlen alleles <= k)%Z                 (* ValueError: not between 0 and num_alleles-1 *)
  | AStr s => ~ In s alleles                                   (* ValueError from list.index *)
  end.
Proof.
  destruct anc as [|k|s]; cbn [resolve_anc]; [discriminate| |].
  - destruct ((k <? 0) || (k >=? zlen alleles))%Z eqn:E; [|discriminate]. intros _.
    apply orb_true_iff in E as [E|E]; [apply Z.ltb_lt in E | rewrite Z.geb_leb in E; apply Z.leb_le in E]; lia.
  - destruct (index_of s alleles 0) as [j|] eqn:E; [discriminate|]. intros _ Hin.
    destruct (index_of_in _ _ Hin) as [j Ej]. congruence.
Qed.

Lemma option_map_some {A B} (f : A -> B) (o : option A) (b : B) :
  option_map f o = Some b -> exists a, o = Some a /\ Some (f a) = Some b.
Proof. destruct o; simpl; intros H; [eauto | discriminate]. Qed.

(* ---- translation of the result ---- *)
Definition tr_map (alleles : list Z) (d : Z) (m : trans) : Z * Z * Z :=
  (tr_node m, nth (Z.to_nat (Z.of_N (tr_state m))) alleles d, tr_parent m).

Lemma get_nth_default {A} (l : list A) i x d : get l i = Ok x -> nth (Z.to_nat i) l d = x.
Proof. intros H. apply get_nth in H as [_ H]. apply nth_error_nth. exact H. Qed.

(* the wrapper's result is the core's result through the allele map: same nodes, same
   parent indices, same length and order; states replaced by alleles[state] *)
Lemma translate_spec alleles a tr sa muts d : translate alleles a tr = Some (sa, muts) ->
  get alleles a = Ok sa /\ muts = map (tr_map alleles d) tr /\
  Forall (fun m => (0 <= Z.of_N (tr_state m) < zlen alleles)%Z) tr.
Proof.
  unfold translate. destruct (get alleles a) as [x| | |] eqn:Ea; try discriminate.
  intros H. apply option_map_some in H. destruct H as [l [Hl E]]. inversion E; subst. split; [reflexivity|].
  clear E Ea. revert muts Hl. induction tr as [|m r IH]; intros muts H.
  - inversion H; subst. split; [reflexivity | constructor].
  - destruct (get alleles (Z.of_N (tr_state m))) as [sd| | |] eqn:Em; try discriminate.
    match type of H with match ?X with _ => _ end = _ => destruct X as [r'|] eqn:Er; [|discriminate] end.
    inversion H; subst. destruct (IH r' eq_refl) as [E F]. split.
    + cbn [map]. unfold tr_map at 1. rewrite (get_nth_default _ _ _ d Em). rewrite E. reflexivity.
    + constructor; [|exact F]. apply get_ok_iff. eauto.
Qed.

Lemma translate_total alleles a tr : (0 <= a < zlen alleles)%Z ->
  Forall (fun m => (0 <= Z.of_N (tr_state m) < zlen alleles)%Z) tr ->
  exists sa muts, translate alleles a tr = Some (sa, muts).
Proof.
  intros Ha F. unfold translate. apply get_ok_iff in Ha. destruct Ha as [sa Ha]. rewrite Ha.
  assert (G : exists l, (fix go (l : list trans) : option (list (Z * Z * Z)) :=
         match l with
         | [] => Some []
         | m :: r => match get alleles (Z.of_N (tr_state m)), go r with
                     | Ok sd, Some r' => Some ((tr_node m, sd, tr_parent m) :: r')
                     | _, _ => None
                     end
         end) tr = Some l).
  { induction F as [|m r Hm Hr IH]; [eexists; reflexivity|]. destruct IH as [l El].
    apply get_ok_iff in Hm. destruct Hm as [sd Hsd]. rewrite Hsd, El. eexists; reflexivity. }
  destruct G as [l El]. rewrite El. simpl. eauto.
Qed.

(* ---- the wrapper returns a result only through a successful core call ---- *)
Lemma py_ok_inv core ta g anc alleles sa muts :
  py_map_mutations core ta g anc alleles = MOk sa muts ->
  exists a0 a tr,
    resolve_anc anc alleles = Ok a0 /\
    Forall (fun x => (- 2 ^ (c20_py_genotype_bits - 1) <= x <= 2 ^ (c20_py_genotype_bits - 1) - 1)%Z) g /\
    g <> [] /\ zlen g = zlen (ta_samples ta) /\
    core ta g a0 = Ok (a, tr) /\
    get alleles a = Ok sa /\ muts = map (tr_map alleles 0%Z) tr.
Proof.
  unfold py_map_mutations.
  destruct (existsb _ g) eqn:Eo; [discriminate|].
  destruct g as [|g0 gs]; [discriminate|].
  destruct (resolve_anc anc alleles) as [a0| | |] eqn:Er; try discriminate.
  destruct (_ >=? c20_py_max_alleles)%Z; [discriminate|].
  destruct (negb _) eqn:El; [discriminate|].
  destruct (core ta (g0 :: gs) a0) as [[a tr]| | |] eqn:Ec; try discriminate.
  destruct (translate alleles a tr) as [[sa' muts']|] eqn:Et; [|discriminate].
  intros H; inversion H; subst. destruct (translate_spec _ _ _ _ _ 0%Z Et) as [T1 [T2 _]].
  exists a0, a, tr. repeat split; try assumption; try discriminate.
  - apply Forall_forall. intros x Hx.
    destruct (Z_lt_dec x (- 2 ^ (c20_py_genotype_bits - 1))) as [L|L];
      [|destruct (Z_gt_dec x (2 ^ (c20_py_genotype_bits - 1) - 1)) as [G|G]]; [| |lia].
    + exfalso. assert (X : existsb (fun g => (g <? - 2 ^ (c20_py_genotype_bits - 1)) || (g >? 2 ^ (c20_py_genotype_bits - 1) - 1))%Z (g0 :: gs) = true).
      { apply existsb_exists. exists x. split; [exact Hx|]. apply orb_true_iff. left. apply Z.ltb_lt. exact L. }
      congruence.
    + exfalso. assert (X : existsb (fun g => (g <? - 2 ^ (c20_py_genotype_bits - 1)) || (g >? 2 ^ (c20_py_genotype_bits - 1) - 1))%Z (g0 :: gs) = true).
      { apply existsb_exists. exists x. split; [exact Hx|]. apply orb_true_iff. right. apply Z.gtb_lt. lia. }
      congruence.
  - apply negb_false_iff in El. apply Z.eqb_eq in El. exact El.
Qed.

(* ---- every state the preorder loop hands down or emits is an allele < K ---- *)
Lemma assign_states_lt K : okK K -> forall t, obs_lt K t = true -> forall s tp k,
  (s < N.of_nat K)%N -> forall m, In m (assign K t s tp k) -> (tr_state m < N.of_nat K)%N.
Proof.
  intros HK. induction t as [u o ch IH] using tree_ind'. intros HO s tp k Hs m Hm.
  destruct (next_state_lt K _ s HK HO Hs) as [Hs' _].
  rewrite obs_lt_node in HO. apply andb_true_iff in HO as [_ HO]. rewrite forallb_forall in HO.
  rewrite assign_eq in Hm. apply in_app_or in Hm. destruct Hm as [Hm|Hm].
  - destruct (hitb K (Node u o ch) s); [contradiction|]. destruct Hm as [<-|[]]. exact Hs'.
  - rewrite Forall_forall in IH.
    assert (G : forall cs, (forall c, In c cs -> In c ch) -> forall tp' k',
              In m (assign_children K cs (next_state K (Node u o ch) s) tp' k') -> (tr_state m < N.of_nat K)%N).
    { induction cs as [|c r IHr]; intros Sub tp' k' Hin; [contradiction|].
      cbn [assign_children] in Hin. apply in_app_or in Hin. destruct Hin as [Hin|Hin].
      - apply (IHr (fun x Hx => Sub x (or_intror Hx)) tp' k' Hin).
      - pose proof (Sub c (or_introl eq_refl)) as Hc.
        apply (IH c Hc (HO c Hc) _ _ _ Hs' m Hin). }
    apply (G ch (fun c Hc => Hc) _ _ Hm).
Qed.

Lemma assign_children_states_lt K cs s tp k m : okK K -> forallb (obs_lt K) cs = true ->
  (s < N.of_nat K)%N -> In m (assign_children K cs s tp k) -> (tr_state m < N.of_nat K)%N.
Proof.
  intros HK HO Hs. rewrite forallb_forall in HO. revert k. induction cs as [|c r IH]; intros k Hm; [contradiction|].
  cbn [assign_children] in Hm. apply in_app_or in Hm. destruct Hm as [Hm|Hm].
  - apply (IH (fun x Hx => HO x (or_intror Hx)) k Hm).
  - apply (assign_states_lt K HK c (HO c (or_introl eq_refl)) _ _ _ Hs m Hm).
Qed.

(* ---- the initialisation loop accepts every genotype vector the wrapper lets through ---- *)
Lemma set_zlen {A} (l : list A) i a l' : set l i a = Ok l' -> zlen l' = zlen l.
Proof.
  unfold set. destruct (i <? 0)%Z; [discriminate|]. destruct (set_nat l (Z.to_nat i) a) eqn:E; [|discriminate].
  intros H; inversion H; subst. unfold zlen. rewrite (set_nat_length _ _ _ _ E). reflexivity.
Qed.

Lemma init_sets_succeeds fx : forall samples g os na nm,
  length g = length samples ->
  Forall (fun x => (-1 <= x < c20_hartigan_max_alleles)%Z) g ->
  Forall (fun u => (0 <= u < zlen os)%Z) samples ->
  exists os' na' nm', init_sets fx samples g os na nm = Ok (os', na', nm') /\
    (nm <= nm')%Z /\ ((exists x, In x g /\ x <> (-1)%Z) -> (nm < nm')%Z).
Proof.
  unfold c20_hartigan_max_alleles.
  induction samples as [|s rest IH]; intros g os na nm Hl Hg Hs.
  - destruct g; [|discriminate]. exists os, na, nm. split; [reflexivity|]. split; [lia|]. intros [x [[] _]].
  - destruct g as [|g0 g']; [discriminate|]. inversion Hg as [|? ? Hg0 Hg']; subst. inversion Hs as [|? ? Hs0 Hs']; subst.
    cbn [init_sets]. unfold c20_hartigan_max_alleles, c20_tsk_missing_data.
    assert (E : ((g0 >=? 64) || (g0 <? -1))%Z = false).
    { apply orb_false_iff. split; [rewrite Z.geb_leb; apply Z.leb_gt | apply Z.ltb_ge]; lia. }
    rewrite E. apply get_ok_iff in Hs0. destruct Hs0 as [cur Hcur].
    destruct (Z.eqb_spec g0 (-1)%Z) as [Em|Em].
    + assert (X : exists os1, (if fx then (do _ <- get os s; Ok os) else set os s UINT64_MAX) = Ok os1 /\ zlen os1 = zlen os).
      { destruct fx; [rewrite Hcur; cbn [bind]; eauto|]. destruct (set_ok os s UINT64_MAX _ Hcur) as [os1 E1].
        exists os1. split; [exact E1 | eapply set_zlen; eassumption]. }
      destruct X as [os1 [E1 L1]]. rewrite E1. cbn [bind].
      destruct (IH g' os1 na nm) as [os' [na' [nm' [R [B1 B2]]]]]; [simpl in Hl; lia | exact Hg' | rewrite L1; exact Hs'|].
      exists os', na', nm'. split; [exact R|]. split; [exact B1|].
      intros [x [[ E0 | Hx ] Hne]]; [congruence|]. apply B2. eauto.
    + rewrite Hcur. cbn [bind]. destruct (set_ok os s (set_bit cur (Z.to_N g0)) _ Hcur) as [os1 E1]. rewrite E1. cbn [bind].
      destruct (IH g' os1 (Z.max g0 na) (nm + 1)%Z) as [os' [na' [nm' [R [B1 B2]]]]];
        [simpl in Hl; lia | exact Hg' | rewrite (set_zlen _ _ _ _ E1); exact Hs'|].
      exists os', na', nm'. split; [exact R|]. split; lia.
Qed.

(* ---- on every valid input the wrapper returns the core's result, translated ---- *)
Definition valid_genotypes (ta : tree_arrays) (g : list Z) (alleles : list Z) : Prop :=
  g <> [] /\ zlen g = zlen (ta_samples ta) /\
  Forall (fun x => (-1 <= x < zlen alleles)%Z /\ (x < c20_py_max_alleles)%Z) g /\
  exists x, In x g /\ x <> (-1)%Z.

Lemma fold_max_bound l : forall a b, (a < b)%Z -> Forall (fun x => (x < b)%Z) l -> (fold_left Z.max l a < b)%Z.
Proof.
  induction l as [|y r IH]; intros a b Ha F; simpl; [exact Ha|]. inversion F; subst. apply IH; [lia | assumption].
Qed.

Lemma py_map_mutations_valid_lemma ta g anc alleles a0 roots :
  valid_genotypes ta g alleles ->
  resolve_anc anc alleles = Ok a0 ->
  match a0 with Some i => (i < c20_py_max_alleles)%Z | None => True end ->
  rose_of_arrays ta g = Ok roots ->
  arrays_okb ta roots = true ->
  exists a tr,
    c_map_mutations ta g a0 = Ok (Z.of_N a, tr) /\
    py_map_mutations c_map_mutations ta g anc alleles =
      MOk (nth (N.to_nat a) alleles 0%Z) (map (tr_map alleles 0%Z) tr).
Proof.
  intros [Hne [Hlen [Hg [x0 [Hx0 Hx0ne]]]]] Hres Ha0 Hrose HA.
  unfold c20_py_max_alleles in *.
  (* a0 is in range *)
  assert (Ha0r : match a0 with Some i => (0 <= i < zlen alleles)%Z | None => True end).
  { pose proof (resolve_anc_spec _ _ _ Hres) as S. destruct anc, a0; try contradiction; try exact I; [destruct S as [-> S]; exact S | tauto]. }
  (* the initialisation loop succeeds *)
  assert (Asamp : Forall (fun u => (0 <= u < zlen (repeat 0%N (S (length (ta_flags ta)))))%Z) (ta_samples ta)).
  { unfold arrays_okb in HA. repeat (apply andb_true_iff in HA as [HA ?]).
    match goal with H : forallb _ (ta_samples ta) = true |- _ => rename H into Af end.
    rewrite forallb_forall in Af. apply Forall_forall. intros s Hs. specialize (Af s Hs).
    destruct (get (ta_flags ta) s) as [f| | |] eqn:Ef; try discriminate.
    assert (X : exists a, get (ta_flags ta) s = Ok a) by eauto. apply get_ok_iff in X.
    unfold zlen in *. rewrite repeat_length. lia. }
  assert (Hl : length g = length (ta_samples ta)) by (unfold zlen in Hlen; lia).
  assert (Hg64 : Forall (fun x => (-1 <= x < c20_hartigan_max_alleles)%Z) g).
  { unfold c20_hartigan_max_alleles. rewrite Forall_forall in *. intros x Hx. specialize (Hg x Hx). lia. }
  destruct (init_sets_succeeds c20_missing_through_hartigan _ _ _ 0%Z 0%Z Hl Hg64 Asamp) as [os0 [na0 [nm [Hinit [_ Hnm]]]]].
  assert (Hnm0 : nm <> 0%Z) by (assert (0 < nm)%Z by (apply Hnm; eauto); lia).
  assert (Hanc : match a0 with Some a => (0 <= a < c20_hartigan_max_alleles)%Z | None => True end).
  { unfold c20_hartigan_max_alleles. destruct a0; [lia | exact I]. }
  (* the core, through the rose-tree model *)
  set (fx := c20_missing_through_hartigan) in *.
  set (K := Z.to_nat (final_num_alleles na0 a0)).
  assert (H0 : (0 <= 0 < c20_hartigan_max_alleles)%Z) by (unfold c20_hartigan_max_alleles; lia).
  destruct (init_sets_bounds fx _ _ _ _ _ _ _ _ Hinit H0) as [Bna [_ Bg]]. unfold c20_hartigan_max_alleles in *.
  assert (HK : okK K).
  { unfold okK, K, final_num_alleles. destruct a0 as [a|]; [destruct (a >=? na0 + 1)%Z eqn:E|]; lia. }
  assert (HKg : forall j gj, (j < length (ta_samples ta))%nat -> nth_error g j = Some gj -> (-1 <= gj < Z.of_nat K)%Z).
  { intros j gj Hj Hn. specialize (Bg j gj Hj Hn). unfold K, final_num_alleles.
    destruct a0 as [a|]; [destruct (a >=? na0 + 1)%Z eqn:E; [rewrite Z.geb_leb in E; apply Z.leb_le in E|]|]; lia. }
  assert (HAnc : anc_ok K (option_map Z.to_N a0)).
  { destruct a0 as [a|]; [|exact I]. cbn [option_map anc_ok]. unfold K, final_num_alleles.
    destruct (a >=? na0 + 1)%Z eqn:E; [|rewrite Z.geb_leb in E; apply Z.leb_gt in E]; lia. }
  destruct (rose_of_arrays_rep ta g roots Hrose) as [lc [Hlc [Hsibs [Hwide HR]]]].
  assert (HO : Forall (RepO ta g) roots).
  { unfold rose_of_arrays in Hrose. rewrite Hlc in Hrose. cbn [bind] in Hrose. eapply rose_chain_repO; eassumption. }
  assert (Hobs : forallb (obs_lt K) roots = true).
  { apply forallb_forall. rewrite Forall_forall in HO. intros c Hc. apply (RepO_obs_lt ta g K); auto. }
  set (roots' := if fx then map demote roots else roots).
  assert (Hobs' : forallb (obs_lt K) roots' = true).
  { unfold roots'. destruct fx; [|exact Hobs]. rewrite (forallb_map_ext _ (obs_lt K)); [exact Hobs | apply obs_lt_demote]. }
  assert (NZ : forallb (sets_nonzero K) roots' = true).
  { rewrite forallb_forall in *. intros c Hc. apply sets_nonzero_ok; [exact HK | apply Hobs'; exact Hc]. }
  pose proof (c_map_mutations_eq_rose_lemma fx ta g a0 os0 na0 nm roots Hinit Hnm0 Hanc Hrose HA NZ) as EQ.
  fold K in EQ.
  destruct (mm_rose_total K roots' (option_map Z.to_N a0) HK Hobs') as [a [tr Hmm]].
  assert (Hmm' : (if fx then mm_rose_fixed else mm_rose) K roots (option_map Z.to_N a0) = Some (a, tr)).
  { unfold roots' in Hmm. destruct fx; exact Hmm. }
  rewrite Hmm' in EQ. exists a, tr. split; [exact EQ|].
  (* K <= number of alleles, so every index can be translated *)
  pose proof (mm_rose_anc_lt K roots' _ a tr HAnc Hmm) as HaK.
  assert (HtrK : Forall (fun m => (tr_state m < N.of_nat K)%N) tr).
  { apply mm_rose_inv in Hmm as [_ [-> _]]. apply Forall_forall. intros m Hm.
    apply (assign_children_states_lt K roots' a (-1)%Z 0%Z m HK Hobs' HaK Hm). }
  assert (HKn : (Z.of_nat K <= zlen alleles)%Z).
  { unfold K, final_num_alleles.
    assert (Gna : (na0 + 1 <= zlen alleles)%Z).
    { (* na0 is the largest genotype seen: some genotype equals it, or it is 0 and alleles is non-empty *)
      clear -Hinit Hg Hl Hx0 Hx0ne. 
      assert (G : forall samples g os na nm os' na' nm', init_sets fx samples g os na nm = Ok (os', na', nm') ->
                length g = length samples -> (na' = na \/ In na' g)).
      { induction samples as [|s rest IH]; intros g1 os na nm1 os' na' nm' H L.
        - destruct g1; simpl in H; inversion H; auto.
        - destruct g1 as [|g0 g']; [discriminate|]. cbn [init_sets] in H.
          destruct ((g0 >=? c20_hartigan_max_alleles) || (g0 <? c20_tsk_missing_data))%Z; [discriminate|].
          destruct (g0 =? c20_tsk_missing_data)%Z.
          + destruct (if fx then _ else _) as [os1| | |]; cbn [bind] in H; try discriminate.
            destruct (IH _ _ _ _ _ _ _ H) as [E|E]; [simpl in L; lia | auto | right; right; exact E].
          + destruct (get os s) as [cur| | |]; cbn [bind] in H; try discriminate.
            destruct (set os s _) as [os1| | |]; cbn [bind] in H; try discriminate.
            destruct (IH _ _ _ _ _ _ _ H) as [E|E]; [simpl in L; lia | | right; right; exact E].
            rewrite E. destruct (Z.max_spec g0 na) as [[_ ->]|[_ ->]]; [auto | right; left; reflexivity]. }
      destruct (G _ _ _ _ _ _ _ _ Hinit Hl) as [E|E].
      - subst na0. rewrite Forall_forall in Hg. specialize (Hg x0 Hx0). lia.
      - rewrite Forall_forall in Hg. specialize (Hg na0 E). lia. }
    destruct a0 as [i|]; [destruct (i >=? na0 + 1)%Z|]; lia. }
  destruct (translate_total alleles (Z.of_N a) tr) as [sa [muts Et]].
  { lia. }
  { rewrite Forall_forall in *. intros m Hm. specialize (HtrK m Hm). lia. }
  destruct (translate_spec _ _ _ _ _ 0%Z Et) as [T1 [T2 _]].
  (* unfold the wrapper *)
  unfold py_map_mutations.
  assert (Eo : existsb (fun g1 => (g1 <? - 2 ^ (c20_py_genotype_bits - 1)) || (g1 >? 2 ^ (c20_py_genotype_bits - 1) - 1))%Z g = false).
  { destruct (existsb _ g) eqn:X; [|reflexivity]. apply existsb_exists in X. destruct X as [x [Hx Bx]].
    rewrite Forall_forall in Hg. specialize (Hg x Hx). unfold c20_py_genotype_bits in Bx.
    apply orb_true_iff in Bx as [B|B]; [apply Z.ltb_lt in B | apply Z.gtb_lt in B]; simpl in B; lia. }
  rewrite Eo. destruct g as [|g0 gs]; [congruence|]. rewrite Hres.
  assert (Emax : ((match a0 with Some i => Z.max i (fold_left Z.max gs g0) | None => fold_left Z.max gs g0 end) >=? 64)%Z = false).
  { rewrite Z.geb_leb. apply Z.leb_gt.
    assert (fold_left Z.max gs g0 < 64)%Z.
    { inversion Hg as [|? ? Hg0 Hgs]; subst. apply fold_max_bound; [lia|].
      apply Forall_forall. intros x Hx. rewrite Forall_forall in Hgs. specialize (Hgs x Hx). lia. }
    destruct a0; lia. }
  unfold c20_py_max_alleles. rewrite Emax.
  assert (El : negb (zlen (g0 :: gs) =? zlen (ta_samples ta))%Z = false) by (apply negb_false_iff; apply Z.eqb_eq; exact Hlen).
  rewrite El. unfold fx in EQ. unfold c_map_mutations. rewrite EQ. rewrite Et. f_equal; [|exact T2].
  rewrite <- (get_nth_default _ _ _ 0%Z T1). f_equal. lia.
Qed.
