(* C20 — consequences of [visit]: painting reproduces the constructed labeling, parent
   links name the nearest transition above, mutations sit on the oldest node of a unary
   chain. *)
From Coq Require Import List ZArith NArith Bool Lia Arith.
From TskVerif Require Import Base.Common C20.Model C20.Spec C20.SetProofs C20.HartiganProofs
  C20.AssignProofs C20.VisitProofs.
Import ListNotations.

(* ---- last_on / last_index_on ---- *)
Lemma last_on_none u l : (forall m, In m l -> tr_node m <> u) -> last_on u l = None.
Proof.
  induction l as [|x r IH]; intros H; [reflexivity|]. cbn [last_on].
  rewrite IH by (intros m Hm; apply H; right; exact Hm).
  destruct (Z.eqb_spec (tr_node x) u) as [E|NE]; [|reflexivity].
  exfalso. apply (H x); [left; reflexivity | exact E].
Qed.

Lemma last_on_unique u l : forall j m, nth_error l j = Some m -> tr_node m = u ->
  (forall i m', nth_error l i = Some m' -> tr_node m' = u -> i = j) ->
  last_on u l = Some (tr_state m).
Proof.
  induction l as [|x r IH]; intros j m Hn Hu Uq; [destruct j; discriminate|].
  cbn [last_on]. destruct j as [|j'].
  - simpl in Hn. inversion Hn; subst x.
    rewrite last_on_none.
    + rewrite Hu, Z.eqb_refl. reflexivity.
    + intros m' Hm' E. apply In_nth_error in Hm'. destruct Hm' as [i Hi].
      specialize (Uq (S i) m' Hi E). discriminate.
  - simpl in Hn. rewrite (IH j' m Hn Hu); [reflexivity|].
    intros i m' Hi E. specialize (Uq (S i) m' Hi E). lia.
Qed.

Lemma last_index_on_none u l : forall i0, (forall m, In m l -> tr_node m <> u) -> last_index_on u l i0 = None.
Proof.
  induction l as [|x r IH]; intros i0 H; [reflexivity|]. cbn [last_index_on].
  rewrite IH by (intros m Hm; apply H; right; exact Hm).
  destruct (Z.eqb_spec (tr_node x) u) as [E|NE]; [|reflexivity].
  exfalso. apply (H x); [left; reflexivity | exact E].
Qed.

Lemma last_index_on_unique u l : forall i0 j m, nth_error l j = Some m -> tr_node m = u ->
  (forall i m', nth_error l i = Some m' -> tr_node m' = u -> i = j) ->
  last_index_on u l i0 = Some (i0 + Z.of_nat j)%Z.
Proof.
  induction l as [|x r IH]; intros i0 j m Hn Hu Uq; [destruct j; discriminate|].
  cbn [last_index_on]. destruct j as [|j'].
  - simpl in Hn. inversion Hn; subst x.
    rewrite last_index_on_none.
    + rewrite Hu, Z.eqb_refl. f_equal. lia.
    + intros m' Hm' E. apply In_nth_error in Hm'. destruct Hm' as [i Hi].
      specialize (Uq (S i) m' Hi E). discriminate.
  - simpl in Hn. rewrite (IH (i0 + 1)%Z j' m Hn Hu); [f_equal; lia|].
    intros i m' Hi E. specialize (Uq (S i) m' Hi E). lia.
Qed.

(* ---- painting ---- *)
Lemma paint_eq ms u o ch above :
  paint ms (Node u o ch) above =
  LNode (match last_on u ms with Some d => d | None => above end)
        (map (fun c => paint ms c (match last_on u ms with Some d => d | None => above end)) ch).
Proof. reflexivity. Qed.

Lemma paint_visit K tr t : forall s tp, visit K tr t s tp -> paint tr t s = assigned K t s.
Proof.
  induction t as [u o ch IH] using tree_ind'. intros s tp V.
  rewrite paint_eq, assigned_eq. rewrite Forall_forall in IH.
  inversion V as [? ? ? ? ? H Hno Hch | ? ? ? ? ? j H Hn Uq Hch]; subst.
  - rewrite last_on_none by exact Hno.
    assert (NS : next_state K (Node u o ch) s = s) by (unfold next_state; rewrite H; reflexivity).
    rewrite NS. f_equal. apply map_ext_in. intros c Hc. rewrite Forall_forall in Hch.
    apply (IH c Hc s tp). apply Hch. exact Hc.
  - rewrite (last_on_unique u tr j _ Hn eq_refl Uq). cbn [tr_state snd].
    f_equal. apply map_ext_in. intros c Hc. rewrite Forall_forall in Hch.
    apply (IH c Hc (next_state K (Node u o ch) s) (Z.of_nat j)). apply Hch. exact Hc.
Qed.

(* ---- parent links ---- *)
Lemma parents_ok_eq ms u o ch above :
  parents_ok ms (Node u o ch) above =
  forallb (fun m => negb (tr_node m =? u)%Z || (tr_parent m =? above)%Z) ms &&
  forallb (fun c => parents_ok ms c (match last_index_on u ms 0 with Some j => j | None => above end)) ch.
Proof. reflexivity. Qed.

Lemma parents_ok_visit K tr t : forall s tp, visit K tr t s tp -> parents_ok tr t tp = true.
Proof.
  induction t as [u o ch IH] using tree_ind'. intros s tp V.
  rewrite parents_ok_eq. rewrite Forall_forall in IH.
  inversion V as [? ? ? ? ? H Hno Hch | ? ? ? ? ? j H Hn Uq Hch]; subst; apply andb_true_iff; split.
  - apply forallb_forall. intros m Hm. specialize (Hno m Hm).
    apply Z.eqb_neq in Hno. rewrite Hno. reflexivity.
  - rewrite last_index_on_none by exact Hno. apply forallb_forall. intros c Hc.
    rewrite Forall_forall in Hch. apply (IH c Hc s tp). apply Hch. exact Hc.
  - apply forallb_forall. intros m Hm.
    destruct (Z.eqb_spec (tr_node m) u) as [E|NE]; [|reflexivity]. simpl.
    apply In_nth_error in Hm. destruct Hm as [i Hi].
    pose proof (Uq i m Hi E) as Ei. subst i. rewrite Hn in Hi. inversion Hi; subst m.
    cbn [tr_parent fst snd]. apply Z.eqb_refl.
  - rewrite (last_index_on_unique u tr 0%Z j _ Hn eq_refl Uq). rewrite Z.add_0_l.
    apply forallb_forall. intros c Hc.
    rewrite Forall_forall in Hch. apply (IH c Hc (next_state K (Node u o ch) s) (Z.of_nat j)). apply Hch. exact Hc.
Qed.

(* ---- oldest node of a unary chain ---- *)
Lemma unary_ok_eq strict ms u o ch :
  unary_ok strict ms (Node u o ch) =
  (match o, ch with
   | NotSample, [c] => negb (on_node ms (tid c))
   | Missing, [c] => strict || negb (on_node ms (tid c))
   | _, _ => true
   end) && forallb (unary_ok strict ms) ch.
Proof. reflexivity. Qed.

Lemma count_single a x : count a [x] = (if N.testbit x a then 1 else 0)%nat.
Proof. unfold count, bit_is_set. simpl. destruct (N.testbit x a); reflexivity. Qed.

(* the only child of a non-sample node never needs a transition of its own *)
Lemma unary_child_hit K u c s : okK K -> obs_lt K c = true -> (s < N.of_nat K)%N ->
  hitb K c (next_state K (Node u NotSample [c]) s) = true.
Proof.
  intros HK HO Hs.
  assert (HOu : obs_lt K (Node u NotSample [c]) = true).
  { rewrite obs_lt_node. simpl. rewrite HO. reflexivity. }
  destruct (next_state_lt K _ s HK HOu Hs) as [Hlt T].
  rewrite opt_set_notsample in T. apply hartigan_set_count in T. simpl map in T.
  destruct (set_has_low K c HK HO) as [a [Ha Ta]].
  pose proof (max_count_ge K [opt_set K c] a Ha) as G. rewrite count_single, Ta in G.
  rewrite count_single in T. unfold hitb, bit_is_set.
  destruct (N.testbit (opt_set K c) (next_state K (Node u NotSample [c]) s)); [reflexivity | lia].
Qed.

Lemma on_node_false ms u : (forall m, In m ms -> tr_node m <> u) -> on_node ms u = false.
Proof.
  intros H. unfold on_node. destruct (existsb (fun m => (tr_node m =? u)%Z) ms) eqn:E; [|reflexivity].
  apply existsb_exists in E. destruct E as [m [Hm Em]]. apply Z.eqb_eq in Em.
  exfalso. exact (H m Hm Em).
Qed.

Lemma unary_ok_visit K tr strict : okK K -> forall t s tp,
  visit K tr t s tp -> obs_lt K t = true -> (s < N.of_nat K)%N ->
  (strict = true \/ no_internal_missing t = true) ->
  unary_ok strict tr t = true.
Proof.
  intros HK. induction t as [u o ch IH] using tree_ind'. intros s tp V HO Hs HS.
  rewrite unary_ok_eq. rewrite Forall_forall in IH.
  destruct (next_state_lt K _ s HK HO Hs) as [Hs' _].
  pose proof HO as HO0.
  rewrite obs_lt_node in HO. apply andb_true_iff in HO as [_ HO]. rewrite forallb_forall in HO.
  assert (HS' : forall c, In c ch -> strict = true \/ no_internal_missing c = true).
  { intros c Hc. destruct HS as [->|HM]; [left; reflexivity|]. right.
    rewrite no_internal_missing_node in HM. apply andb_true_iff in HM as [_ HM].
    rewrite forallb_forall in HM. apply HM. exact Hc. }
  (* the children are visited with the state handed down *)
  assert (VC : exists tp', Forall (fun c => visit K tr c (next_state K (Node u o ch) s) tp') ch).
  { inversion V as [? ? ? ? ? H Hno Hch | ? ? ? ? ? j H Hn Uq Hch]; subst.
    - exists tp. assert (NS : next_state K (Node u o ch) s = s) by (unfold next_state; rewrite H; reflexivity).
      rewrite NS. exact Hch.
    - exists (Z.of_nat j). exact Hch. }
  destruct VC as [tp' VC]. rewrite Forall_forall in VC.
  apply andb_true_iff. split.
  - destruct o as [| |g]; [| |reflexivity].
    + destruct ch as [|c [|c2 r]]; try reflexivity.
      assert (Hc : In c [c]) by (left; reflexivity).
      pose proof (unary_child_hit K u c s HK (HO c Hc) Hs) as Hit.
      specialize (VC c Hc). apply negb_true_iff. apply on_node_false.
      inversion VC as [? ? ? ? ? H Hno Hch | ? ? ? ? ? j H Hn Uq Hch]; subst.
      * exact Hno.
      * cbn [tid] in *. congruence.
    + destruct ch as [|c [|c2 r]]; try reflexivity.
      destruct HS as [->|HM]; [reflexivity|].
      rewrite no_internal_missing_node in HM. discriminate.
  - apply forallb_forall. intros c Hc.
    apply (IH c Hc (next_state K (Node u o ch) s) tp'); [apply VC; exact Hc | apply HO; exact Hc | exact Hs' | apply HS'; exact Hc].
Qed.
