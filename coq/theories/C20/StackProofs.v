(* C20 — L1 = L0: the explicit preorder stack of trees.c 7319-7340 computes the same
   transition list as the structural recursion [assign]. *)
From Coq Require Import List ZArith NArith Bool Lia Arith.
From TskVerif Require Import Base.Common C20.Model C20.Spec C20.SetProofs C20.HartiganProofs
  C20.AssignProofs C20.VisitProofs.
Import ListNotations.

(* what the loop does with a whole stack: top first *)
Fixpoint run_stack (K : nat) (stack : list (tree * Z * N)) (k : Z) : list trans :=
  match stack with
  | [] => []
  | (t, tp, s) :: rest => let o := assign K t s tp k in o ++ run_stack K rest (k + zlen o)
  end.

Definition stack_size (stack : list (tree * Z * N)) : nat :=
  fold_right (fun e n => (tsize (fst (fst e)) + n)%nat) O stack.

Definition stack_nonzero (K : nat) (stack : list (tree * Z * N)) : bool :=
  forallb (fun e => sets_nonzero K (fst (fst e))) stack.

Lemma run_stack_push K ch s tp : forall rest k,
  run_stack K (rev (map (fun c => (c, tp, s)) ch) ++ rest) k =
  assign_children K ch s tp k ++ run_stack K rest (k + zlen (assign_children K ch s tp k)).
Proof.
  induction ch as [|c r IH]; intros rest k.
  - simpl. unfold zlen. simpl. rewrite Z.add_0_r. reflexivity.
  - cbn [map rev]. rewrite <- app_assoc. cbn [app]. rewrite IH. cbn [run_stack assign_children].
    rewrite <- app_assoc. rewrite zlen_app. rewrite Z.add_assoc. reflexivity.
Qed.

Lemma stack_size_push ch (tp : Z) (s : N) rest :
  stack_size (rev (map (fun c => (c, tp, s)) ch) ++ rest) = (fsize ch + stack_size rest)%nat.
Proof.
  unfold stack_size, fsize. induction ch as [|c r IH]; [reflexivity|].
  cbn [map rev]. rewrite <- app_assoc. cbn [app].
  assert (G : forall l rest', fold_right (fun e n => (tsize (fst (fst e)) + n)%nat) O (l ++ (c, tp, s) :: rest')
               = (tsize c + fold_right (fun e n => (tsize (fst (fst e)) + n)%nat) O (l ++ rest'))%nat).
  { induction l as [|e l IHl]; intros rest'; cbn [app fold_right]; [reflexivity|]. rewrite IHl. simpl. lia. }
  rewrite G. rewrite IH. cbn [fold_right]. lia.
Qed.

Lemma stack_nonzero_push K ch (tp : Z) (s : N) rest :
  stack_nonzero K (rev (map (fun c => (c, tp, s)) ch) ++ rest) =
  forallb (sets_nonzero K) ch && stack_nonzero K rest.
Proof.
  unfold stack_nonzero. rewrite forallb_app.
  f_equal. induction ch as [|c r IH]; [reflexivity|].
  cbn [map rev]. rewrite forallb_app. rewrite IH. cbn [forallb fst]. rewrite andb_true_r. apply andb_comm.
Qed.

Lemma tsize_node u o ch : tsize (Node u o ch) = S (fsize ch).
Proof. reflexivity. Qed.

Lemma assign_stack_correct K : forall fuel stack k,
  stack_nonzero K stack = true -> (stack_size stack < fuel)%nat ->
  assign_stack K fuel stack k = Ok (run_stack K stack k).
Proof.
  induction fuel as [|f IH]; intros stack k NZ Hf; [lia|].
  destruct stack as [|[[t tp] s] rest]; [reflexivity|].
  destruct t as [u o ch]. cbn [assign_stack run_stack].
  unfold stack_nonzero in NZ. cbn [forallb fst] in NZ. apply andb_true_iff in NZ as [NZt NZr].
  pose proof NZt as NZt0. rewrite sets_nonzero_node in NZt. apply andb_true_iff in NZt as [NZu NZc].
  apply negb_true_iff in NZu. apply N.eqb_neq in NZu.
  unfold stack_size in Hf. cbn [fold_right fst] in Hf. rewrite tsize_node in Hf. fold (stack_size rest) in Hf.
  rewrite assign_eq. unfold hitb, next_state, hitb.
  destruct (bit_is_set (opt_set K (Node u o ch)) s) eqn:H.
  - rewrite IH.
    + cbn [bind app]. rewrite run_stack_push. reflexivity.
    + rewrite stack_nonzero_push. rewrite NZc. exact NZr.
    + rewrite stack_size_push. lia.
  - rewrite (get_smallest_some _ NZu). rewrite IH.
    + cbn [bind app]. rewrite run_stack_push.
      assert (ZL : forall (m : trans) X, (k + 1 + zlen X = k + zlen (m :: X))%Z)
        by (intros; unfold zlen; simpl length; lia).
      rewrite (ZL (u, tp, smallest (opt_set K (Node u o ch)))). reflexivity.
    + rewrite stack_nonzero_push. rewrite NZc. exact NZr.
    + rewrite stack_size_push. lia.
Qed.

Lemma mm_stack_eq_lemma K roots anc r :
  mm_rose K roots anc = Some r -> mm_stack K roots anc = Ok r.
Proof.
  unfold mm_rose, mm_stack. cbv zeta. destruct (forallb (sets_nonzero K) roots) eqn:NZ; simpl negb; cbv iota; [|discriminate].
  assert (G : forall a, assign_stack K (S (fsize roots)) (rev (map (fun r => (r, (-1)%Z, a)) roots)) 0
                        = Ok (assign_children K roots a (-1) 0)).
  { intros a. pose proof (assign_stack_correct K (S (fsize roots)) (rev (map (fun r => (r, (-1)%Z, a)) roots) ++ []) 0) as C.
    rewrite app_nil_r in C. rewrite C.
    - pose proof (run_stack_push K roots a (-1)%Z [] 0%Z) as P. rewrite app_nil_r in P. rewrite P.
      cbn [run_stack]. rewrite app_nil_r. reflexivity.
    - pose proof (stack_nonzero_push K roots (-1)%Z a []) as P. rewrite app_nil_r in P. rewrite P, NZ. reflexivity.
    - pose proof (stack_size_push roots (-1)%Z a []) as P. rewrite app_nil_r in P. rewrite P.
      unfold stack_size. simpl. lia. }
  destruct anc as [x|].
  - intros E. inversion E; subst. rewrite G. reflexivity.
  - destruct (get_smallest_set_bit (hartigan_set K (map (opt_set K) roots))) as [a|]; [|discriminate].
    intros E. inversion E; subst. rewrite G. reflexivity.
Qed.
