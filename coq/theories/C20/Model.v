(* C20 — executable model of map_mutations.

   Three layers, all executable, all evaluated against the implementation by the
   correspondence families of harness/props/c20.py:

   L2  [c_map_mutations]   the C function tsk_tree_map_mutations (/repo/c/tskit/trees.c
                           lines 7209-7359) over the tree's arrays (left_child, right_sib,
                           right_child, left_sib, parent), node flags and the sample list:
                           entry checks, optimal_set initialisation, tsk_tree_postorder_from
                           (lines 6842-6902), the Hartigan loop, the ancestral state choice
                           and the explicit preorder stack with transition_parent.
   L1  [assign_stack]      the same preorder stack loop, over rose trees.
   L0  [mm_rose]           structural recursion over rose trees ([opt_set], [assign]); this is
                           the layer the theorems of Props/C20.v are stated and proved on.
                           L1 = L0 is proved (C20/StackProofs.v); L2 is tied to L0 through
                           [rose_of_arrays] (the rose tree the arrays represent) and
                           [check_case], which demands that L2, L0 and the implementation
                           agree on every generated case.

   [py_map_mutations] models Tree.map_mutations of /repo/python/tskit/trees.py
   (lines 2923-2948) and the argument handling of Tree_map_mutations in
   /repo/python/_tskitmodule.c (lines 12566-12629) around either core. *)
From Coq Require Import List ZArith NArith Bool Lia.
From TskVerif Require Import Base.Common Gen.Generated.
Import ListNotations.
Open Scope Z_scope.

(* ------------------------------------------------------------------------- *)
(* Bit sets: uint64_t as N (all values stay below 2^64: bits are only set at   *)
(* positions < HARTIGAN_MAX_ALLELES = 64, or the value is UINT64_MAX).         *)
(* trees.c 7167-7195                                                           *)
(* ------------------------------------------------------------------------- *)
Definition UINT64_MAX : N := 18446744073709551615%N.

(* set_bit: value | (1ULL << bit) *)
Definition set_bit (value bit : N) : N := N.lor value (N.shiftl 1 bit).
(* bit_is_set: (value & (1ULL << bit)) != 0 *)
Definition bit_is_set (value bit : N) : bool := N.testbit value bit.

(* get_smallest_set_bit: t = 1, r = 0; while ((v & t) == 0) { t <<= 1; r++; }
   = number of trailing zeros.  For v = 0 the C loop never terminates (the assert is
   compiled out with NDEBUG): [None]. *)
Fixpoint ctz (p : positive) : N :=
  match p with xO p' => N.succ (ctz p') | _ => 0%N end.
Definition get_smallest_set_bit (v : N) : option N :=
  match v with N0 => None | Npos p => Some (ctz p) end.
(* total version used by L0; L0's driver checks separately that no visited set is 0 *)
Definition smallest (v : N) : N := match v with N0 => 0%N | Npos p => ctz p end.

(* ------------------------------------------------------------------------- *)
(* L0: rose trees                                                              *)
(* ------------------------------------------------------------------------- *)
Inductive obs : Type :=
| NotSample                 (* node_flags[u] & TSK_NODE_IS_SAMPLE == 0 (or the virtual root) *)
| Missing                   (* sample with genotype TSK_MISSING_DATA *)
| Obs (g : N).              (* sample observed in state g *)

Inductive tree : Type := Node (id : Z) (o : obs) (ch : list tree).

Definition tid (t : tree) : Z := match t with Node u _ _ => u end.
Definition tobs (t : tree) : obs := match t with Node _ o _ => o end.
Definition tch (t : tree) : list tree := match t with Node _ _ c => c end.

(* alleles 0 .. K-1 where K = num_alleles *)
Definition allele_list (K : nat) : list N := map N.of_nat (seq 0 K).

(* allele_count[allele] = number of children whose optimal set has the bit (7292-7296) *)
Definition count (a : N) (sets : list N) : nat :=
  length (filter (fun s => bit_is_set s a) sets).
(* max_allele_count (7299-7302) *)
Definition max_count (K : nat) (sets : list N) : nat :=
  fold_right (fun a m => Nat.max (count a sets) m) O (allele_list K).
(* 7303-7307: every allele < num_alleles whose count is the maximum *)
Definition hartigan_set (K : nat) (sets : list N) : N :=
  let mc := max_count K sets in
  fold_right (fun a acc => if Nat.eqb (count a sets) mc then set_bit acc a else acc)
             0%N (allele_list K).

(* optimal_set[u] after the postorder loop.  Sample nodes keep their initial value and
   IGNORE their children (7298); a missing sample is "all bits set" (7258-7260). *)
Fixpoint opt_set (K : nat) (t : tree) : N :=
  match t with
  | Node _ (Obs g) _ => set_bit 0 g
  | Node _ Missing _ => UINT64_MAX
  | Node _ NotSample ch => hartigan_set K (map (opt_set K) ch)
  end.

(* a state transition: (node, parent = index of the transition above or -1, new state) *)
Definition trans : Type := (Z * Z * N)%type.
Definition tr_node (m : trans) : Z := fst (fst m).
Definition tr_parent (m : trans) : Z := snd (fst m).
Definition tr_state (m : trans) : N := snd m.

(* The preorder loop 7323-7340 as a recursion: the element popped is (t, tp, s); children
   are pushed left to right, hence popped right to left, each subtree completely before
   the next sibling.  k = num_transitions on entry. *)
Fixpoint assign (K : nat) (t : tree) (s : N) (tp : Z) (k : Z) {struct t} : list trans :=
  match t with
  | Node u o ch =>
      let Su := opt_set K (Node u o ch) in
      let hit := bit_is_set Su s in
      let s' := if hit then s else smallest Su in
      let tp' := if hit then tp else k in
      let k' := if hit then k else k + 1 in
      (if hit then [] else [(u, tp, s')]) ++
      (fix go (cs : list tree) : list trans :=
         match cs with
         | [] => []
         | c :: r => let o1 := go r in o1 ++ assign K c s' tp' (k' + zlen o1)
         end) ch
  end.

Fixpoint assign_children (K : nat) (cs : list tree) (s : N) (tp : Z) (k : Z) : list trans :=
  match cs with
  | [] => []
  | c :: r => let o1 := assign_children K r s tp k in o1 ++ assign K c s tp (k + zlen o1)
  end.

(* every set consulted by the preorder loop is non-empty (otherwise get_smallest_set_bit
   does not terminate on the node where the incoming state is not in the set; a zero
   set contains no state, so that is every visited node with a zero set) *)
Fixpoint sets_nonzero (K : nat) (t : tree) : bool :=
  match t with
  | Node u o ch => negb (N.eqb (opt_set K (Node u o ch)) 0) && forallb (sets_nonzero K) ch
  end.

(* The virtual root is a non-sample node above the roots (7298 "the virtual root has no
   flags defined"); 7310-7314: free ancestral state = smallest bit of its set, fixed
   ancestral state = its set is overwritten with UINT64_MAX (so it never gets a
   transition).  Result: ancestral state and the transitions; None = non-termination. *)
Definition mm_rose (K : nat) (roots : list tree) (anc : option N) : option (N * list trans) :=
  let Sv := hartigan_set K (map (opt_set K) roots) in
  if negb (forallb (sets_nonzero K) roots) then None else
  match anc with
  | Some a => Some (a, assign_children K roots a (-1) 0)
  | None =>
      match get_smallest_set_bit Sv with
      | None => None
      | Some a => Some (a, assign_children K roots a (-1) 0)
      end
  end.

(* The repaired handling of missing samples (proposed fix of finding F2): a sample whose
   genotype is missing goes through the Hartigan step like a non-sample node.  On rose
   trees: relabel every Missing node NotSample. *)
Fixpoint demote (t : tree) : tree :=
  match t with
  | Node u o ch => Node u (match o with Missing => NotSample | _ => o end) (map demote ch)
  end.

Definition mm_rose_fixed (K : nat) (roots : list tree) (anc : option N) : option (N * list trans) :=
  mm_rose K (map demote roots) anc.

(* the variant the code under test has (fact re-extracted from trees.c on every run) *)
Definition mm_model (K : nat) (roots : list tree) (anc : option N) : option (N * list trans) :=
  if c20_missing_through_hartigan then mm_rose_fixed K roots anc else mm_rose K roots anc.

(* ------------------------------------------------------------------------- *)
(* L1: the explicit stack over rose trees (7319-7340)                          *)
(* ------------------------------------------------------------------------- *)
Fixpoint assign_stack (K : nat) (fuel : nat) (stack : list (tree * Z * N)) (k : Z) : res (list trans) :=
  match fuel with
  | O => Fuel
  | S f =>
      match stack with
      | [] => Ok []                                              (* stack_top < 0 *)
      | (Node u o ch, tp, s) :: rest =>                          (* s = preorder_stack[stack_top--] *)
          let Su := opt_set K (Node u o ch) in
          if bit_is_set Su s then
            do out <- assign_stack K f (rev (map (fun c => (c, tp, s)) ch) ++ rest) k;
            Ok out
          else
            match get_smallest_set_bit Su with
            | None => Fuel                                       (* the C loop does not terminate *)
            | Some s' =>
                do out <- assign_stack K f (rev (map (fun c => (c, k, s')) ch) ++ rest) (k + 1);
                Ok ((u, tp, s') :: out)
            end
      end
  end.

Fixpoint tsize (t : tree) : nat :=
  match t with Node _ _ ch => S (fold_right (fun c n => (tsize c + n)%nat) O ch) end.
Definition fsize (ts : list tree) : nat := fold_right (fun c n => (tsize c + n)%nat) O ts.

(* 7310-7340 with the first iteration (the virtual root, whose set contains the ancestral
   state in both modes, so it never gets a transition and its children are pushed with
   transition_parent = TSK_NULL) done by hand. *)
Definition mm_stack (K : nat) (roots : list tree) (anc : option N) : res (N * list trans) :=
  let go a := do tr <- assign_stack K (S (fsize roots)) (rev (map (fun r => (r, -1, a)) roots)) 0;
              Ok (a, tr) in
  match anc with
  | Some a => go a
  | None => match get_smallest_set_bit (hartigan_set K (map (opt_set K) roots)) with
            | None => Fuel
            | Some a => go a
            end
  end.

(* ------------------------------------------------------------------------- *)
(* L2: the C function over the tree arrays                                     *)
(* ------------------------------------------------------------------------- *)
Record tree_arrays : Type := mkTreeArrays {
  ta_left_child : list Z;      (* length N+1, index N = virtual root *)
  ta_right_sib : list Z;
  ta_right_child : list Z;
  ta_left_sib : list Z;
  ta_parent : list Z;
  ta_flags : list Z;           (* tables->nodes.flags, length N *)
  ta_samples : list Z          (* tree_sequence->samples *)
}.

Definition ERR_BAD_GENOTYPE : Z := 1.
Definition ERR_GENOTYPES_ALL_MISSING : Z := 2.
Definition ERR_BAD_ANCESTRAL_STATE : Z := 3.
Definition ERR_NONTERMINATION : Z := 99.   (* get_smallest_set_bit(0) *)

(* 7252-7266: returns (optimal_set, num_alleles (max genotype), non_missing) *)
Fixpoint init_sets (fx : bool) (samples genotypes : list Z) (os : list N) (num_alleles : Z) (non_missing : Z)
  : res (list N * Z * Z) :=
  match samples, genotypes with
  | u :: samples', g :: genotypes' =>
      if (g >=? c20_hartigan_max_alleles) || (g <? c20_tsk_missing_data) then Err ERR_BAD_GENOTYPE else
      if g =? c20_tsk_missing_data then
        (* fx = false, the pinned code: "All bits set"; fx = true, the repaired code:
           optimal_set[u] stays 0 *)
        do os' <- (if fx then (do _ <- get os u; Ok os) else set os u UINT64_MAX);
        init_sets fx samples' genotypes' os' num_alleles non_missing
      else
        do cur <- get os u;
        do os' <- set os u (set_bit cur (Z.to_N g));
        init_sets fx samples' genotypes' os' (Z.max g num_alleles) (non_missing + 1)
  | [], _ => Ok (os, num_alleles, non_missing)      (* for (j = 0; j < num_samples; j++) *)
  | _ :: _, [] => OOB                                (* genotypes shorter than num_samples: excluded by the caller *)
  end.

(* for (v = right_child[u]; v != TSK_NULL; v = left_sib[v]) push v — and the same
   shape with left_child/right_sib; returns the chain in visiting order *)
Fixpoint chain (fuel : nat) (next : list Z) (v : Z) : res (list Z) :=
  match fuel with
  | O => Fuel
  | S f => if v =? tsk_null then Ok [] else
           do n <- get next v; do r <- chain f next n; Ok (v :: r)
  end.

(* tsk_tree_postorder_from(self, virtual_root, ...) 6842-6902.  stack: head = top. *)
Fixpoint postorder_loop (fuel : nat) (ta : tree_arrays) (stack : list Z) (postorder_parent : Z)
         (acc : list Z) : res (list Z) :=
  match fuel with
  | O => Fuel
  | S f =>
      match stack with
      | [] => Ok (rev acc)
      | u :: rest =>
          do rc <- get (ta_right_child ta) u;
          if negb (rc =? tsk_null) && negb (u =? postorder_parent) then
            do c <- chain (S (length (ta_left_sib ta))) (ta_left_sib ta) rc;
            postorder_loop f ta (rev c ++ stack) postorder_parent acc
          else
            do p <- get (ta_parent ta) u;
            postorder_loop f ta rest p (u :: acc)
      end
  end.

Definition postorder_from_virtual_root (ta : tree_arrays) : res (list Z) :=
  let N := zlen (ta_flags ta) in
  do rc <- get (ta_right_child ta) N;
  do c <- chain (S (length (ta_left_sib ta))) (ta_left_sib ta) rc;
  (* every node is pushed once and visited at most twice *)
  do nodes <- postorder_loop (S (2 * S (length (ta_left_child ta)))) ta (rev c) tsk_null [];
  Ok (nodes ++ [N]).

(* 7289-7309 *)
Fixpoint hartigan_loop (fx : bool) (ta : tree_arrays) (K : nat) (nodes : list Z) (os : list N) : res (list N) :=
  match nodes with
  | [] => Ok os
  | u :: nodes' =>
      let N := zlen (ta_flags ta) in
      do lc <- get (ta_left_child ta) u;
      do cs <- chain (S (length (ta_right_sib ta))) (ta_right_sib ta) lc;
      do sets <- fold_right (fun v acc => do l <- acc; do s <- get os v; Ok (s :: l)) (Ok []) cs;
      do is_sample <- (if u =? N then Ok false else
                       do f <- get (ta_flags ta) u; Ok (Z.odd (f / c20_tsk_node_is_sample)));
      do cur <- get os u;
      if negb is_sample || (fx && N.eqb cur 0) then
        do os' <- set os u (N.lor cur (hartigan_set K sets));
        hartigan_loop fx ta K nodes' os'
      else hartigan_loop fx ta K nodes' os
  end.

(* 7319-7340; stack elements (node, transition_parent, state), head = top *)
Fixpoint preorder_loop (fuel : nat) (ta : tree_arrays) (os : list N) (stack : list (Z * Z * N))
         (k : Z) (acc : list trans) : res (list trans) :=
  match fuel with
  | O => Fuel
  | S f =>
      match stack with
      | [] => Ok (rev acc)
      | (u, tp, s) :: rest =>
          do Su <- get os u;
          do lc <- get (ta_left_child ta) u;
          do cs <- chain (S (length (ta_right_sib ta))) (ta_right_sib ta) lc;
          if bit_is_set Su s then
            preorder_loop f ta os (rev (map (fun v => (v, tp, s)) cs) ++ rest) k acc
          else
            match get_smallest_set_bit Su with
            | None => Err ERR_NONTERMINATION
            | Some s' =>
                preorder_loop f ta os (rev (map (fun v => (v, k, s')) cs) ++ rest) (k + 1)
                              ((u, tp, s') :: acc)
            end
      end
  end.

(* tsk_tree_map_mutations; [anc] = Some a iff TSK_MM_FIXED_ANCESTRAL_STATE.
   Precondition of the C interface (established by Tree_map_mutations 12594-12599):
   length genotypes = num_samples. *)
Definition c_map_mutations_gen (fx : bool) (ta : tree_arrays) (genotypes : list Z) (anc : option Z)
  : res (Z * list trans) :=
  let N := zlen (ta_flags ta) in
  do '(os, na, non_missing) <- init_sets fx (ta_samples ta) genotypes (repeat 0%N (S (length (ta_flags ta)))) 0 0;
  if non_missing =? 0 then Err ERR_GENOTYPES_ALL_MISSING else
  let na := na + 1 in
  do na <- match anc with
           | None => Ok na
           | Some a => if (a <? 0) || (a >=? c20_hartigan_max_alleles) then Err ERR_BAD_ANCESTRAL_STATE
                       else Ok (if a >=? na then a + 1 else na)
           end;
  do nodes <- postorder_from_virtual_root ta;
  do os <- hartigan_loop fx ta (Z.to_nat na) nodes os;
  do '(a, os) <- match anc with
                 | None => do Sv <- get os N;
                           match get_smallest_set_bit Sv with
                           | None => Err ERR_NONTERMINATION
                           | Some a => Ok (Z.of_N a, os)
                           end
                 | Some a => do os' <- set os N UINT64_MAX; Ok (a, os')
                 end;
  do tr <- preorder_loop (S (length (ta_left_child ta))) ta os [(N, tsk_null, Z.to_N a)] 0 [];
  Ok (a, tr).

(* the variant the code under test has: the fact is re-extracted from trees.c on every run
   (translator/facts_c20.py; false on the pinned commit, true once F2 is repaired) *)
Definition c_map_mutations := c_map_mutations_gen c20_missing_through_hartigan.

(* Proposed repair of finding F14 (fixes/C20-F14-reject-samples-below-no-root.diff, not
   applied; the fact c20_rejects_unvisited_samples is re-extracted on every run and is false
   on the current code): the Hartigan loop counts the sample nodes it visits and the function
   fails with TSK_ERR_UNSUPPORTED_OPERATION when that is not num_samples (root_threshold > 1:
   a sample under no root).  The check sits after the entry checks, so it is reached exactly
   when the unguarded function returns a result. *)
Definition ERR_UNSUPPORTED_OPERATION : Z := 4.

Definition all_samples_visited (ta : tree_arrays) : res bool :=
  let N := zlen (ta_flags ta) in
  do nodes <- postorder_from_virtual_root ta;
  do cnt <- fold_right (fun u acc =>
              do c <- acc;
              if u =? N then Ok c else
              do f <- get (ta_flags ta) u;
              Ok (if Z.odd (f / c20_tsk_node_is_sample) then c + 1 else c)) (Ok 0) nodes;
  Ok (cnt =? zlen (ta_samples ta)).

Definition guarded (core : tree_arrays -> list Z -> option Z -> res (Z * list trans))
           (ta : tree_arrays) (genotypes : list Z) (anc : option Z) : res (Z * list trans) :=
  if c20_rejects_unvisited_samples then
    match core ta genotypes anc with
    | Ok r => do b <- all_samples_visited ta; if b then Ok r else Err ERR_UNSUPPORTED_OPERATION
    | e => e
    end
  else core ta genotypes anc.

(* ------------------------------------------------------------------------- *)
(* The rose tree the arrays represent                                          *)
(* ------------------------------------------------------------------------- *)
Fixpoint index_of (x : Z) (l : list Z) (i : nat) : option nat :=
  match l with [] => None | y :: r => if x =? y then Some i else index_of x r (S i) end.

Definition obs_of (ta : tree_arrays) (genotypes : list Z) (u : Z) : res obs :=
  do f <- get (ta_flags ta) u;
  if Z.odd (f / c20_tsk_node_is_sample) then
    match index_of u (ta_samples ta) O with
    | None => OOB
    | Some j => match nth_error genotypes j with
                | None => OOB
                | Some g => Ok (if g =? c20_tsk_missing_data then Missing else Obs (Z.to_N g))
                end
    end
  else Ok NotSample.

(* children of a node = the chain left_child, right_sib, ... *)
Fixpoint rose_chain (fuel : nat) (ta : tree_arrays) (genotypes : list Z) (v : Z) : res (list tree) :=
  match fuel with
  | O => Fuel
  | S f =>
      if v =? tsk_null then Ok [] else
      do o <- obs_of ta genotypes v;
      do lc <- get (ta_left_child ta) v;
      do ch <- rose_chain f ta genotypes lc;
      do rs <- get (ta_right_sib ta) v;
      do rest <- rose_chain f ta genotypes rs;
      Ok (Node v o ch :: rest)
  end.

Definition rose_of_arrays (ta : tree_arrays) (genotypes : list Z) : res (list tree) :=
  do lc <- get (ta_left_child ta) (zlen (ta_flags ta));
  rose_chain (S (length (ta_left_child ta))) ta genotypes lc.

(* num_alleles as computed at 7252-7283 *)
Definition num_alleles_of (genotypes : list Z) (anc : option Z) : Z :=
  let na := fold_left (fun m g => Z.max g m) genotypes 0 + 1 in
  match anc with Some a => if a >=? na then a + 1 else na | None => na end.

(* tsk_tree_map_mutations with the two loops replaced by L0 *)
Definition c_map_mutations_rose (ta : tree_arrays) (genotypes : list Z) (anc : option Z)
  : res (Z * list trans) :=
  if existsb (fun g => (g >=? c20_hartigan_max_alleles) || (g <? c20_tsk_missing_data))
             (firstn (length (ta_samples ta)) genotypes) then Err ERR_BAD_GENOTYPE else
  if forallb (fun g => g =? c20_tsk_missing_data) (firstn (length (ta_samples ta)) genotypes)
  then Err ERR_GENOTYPES_ALL_MISSING else
  do _ <- match anc with
          | Some a => if (a <? 0) || (a >=? c20_hartigan_max_alleles) then Err ERR_BAD_ANCESTRAL_STATE else Ok tt
          | None => Ok tt
          end;
  do roots <- rose_of_arrays ta genotypes;
  match mm_model (Z.to_nat (num_alleles_of (firstn (length (ta_samples ta)) genotypes) anc)) roots
                (option_map Z.to_N anc) with
  | None => Err ERR_NONTERMINATION
  | Some (a, tr) => Ok (Z.of_N a, tr)
  end.

(* ------------------------------------------------------------------------- *)
(* Tree.map_mutations (python/tskit/trees.py 2923-2948) + Tree_map_mutations   *)
(* ------------------------------------------------------------------------- *)
(* The alleles argument is a list of strings; a string is modelled by a token (an integer),
   equal tokens = equal strings (duplicates allowed).  [AStr s] is the ancestral_state
   argument given as the string with token s. *)
Inductive anc_arg : Type := ANone | AInt (i : Z) | AStr (s : Z).
Inductive mm_err : Type := EValue | ELibrary | EIndex | EOverflow | EType.
Inductive mm_obs : Type :=
| MOk (ancestral_state : Z) (mutations : list (Z * Z * Z))   (* allele string, (node, derived_state string, parent) *)
| MErr (e : mm_err).

(* ancestral_state resolution (trees.py 2925-2931): a str goes through alleles.index (first
   occurrence; ValueError when absent), then the range check against len(alleles) *)
Definition resolve_anc (anc : anc_arg) (alleles : list Z) : res (option Z) :=
  match anc with
  | ANone => Ok None
  | AStr s => match index_of s alleles O with
              | Some i => Ok (Some (Z.of_nat i))       (* always inside the range *)
              | None => Err 0
              end
  | AInt i => if (i <? 0) || (i >=? zlen alleles) then Err 0 else Ok (Some i)
  end.

(* alleles[ancestral_state], [alleles[derived_state] ...] (2938-2947): IndexError when an
   index is outside the list (the indices are never negative) *)
Definition translate (alleles : list Z) (a : Z) (tr : list trans) : option (Z * list (Z * Z * Z)) :=
  match get alleles a with
  | Ok sa =>
      option_map (fun l => (sa, l))
      ((fix go (l : list trans) : option (list (Z * Z * Z)) :=
         match l with
         | [] => Some []
         | m :: r => match get alleles (Z.of_N (tr_state m)), go r with
                     | Ok sd, Some r' => Some ((tr_node m, sd, tr_parent m) :: r')
                     | _, _ => None
                     end
         end) tr)

  | _ => None
  end.

Definition py_map_mutations
    (core : tree_arrays -> list Z -> option Z -> res (Z * list trans))
    (ta : tree_arrays) (genotypes : list Z) (anc : anc_arg) (alleles : list Z) : mm_obs :=
  let bits := c20_py_genotype_bits in
  (* util.safe_np_int_cast(genotypes, np.int8): size 0 is let through *)
  if existsb (fun g => (g <? - 2 ^ (bits - 1)) || (g >? 2 ^ (bits - 1) - 1)) genotypes then MErr EOverflow else
  (* np.max of an empty array *)
  match genotypes with
  | [] => MErr EValue
  | g0 :: gs =>
      let max_alleles := fold_left Z.max gs g0 in
      match resolve_anc anc alleles with
      | Ok a =>
          let max_alleles := match a with Some i => Z.max i max_alleles | None => max_alleles end in
          if max_alleles >=? c20_py_max_alleles then MErr EValue else
          (* Tree_map_mutations: shape[0] != num_samples -> ValueError *)
          if negb (zlen genotypes =? zlen (ta_samples ta)) then MErr EValue else
          match core ta genotypes a with
          | Ok (a, tr) =>
              match translate alleles a tr with
              | Some (sa, muts) => MOk sa muts
              | None => MErr EIndex
              end
          | Err _ => MErr ELibrary         (* handle_library_error -> tskit.LibraryError *)
          | OOB => MErr EType              (* never observed: reported as a disagreement *)
          | Fuel => MErr EType
          end
      | _ => MErr EValue
      end
  end.

Definition mm_err_eqb (a b : mm_err) : bool :=
  match a, b with
  | EValue, EValue | ELibrary, ELibrary | EIndex, EIndex | EOverflow, EOverflow | EType, EType => true
  | _, _ => false
  end.

Definition triple_eqb (x y : Z * Z * Z) : bool :=
  let '(a, b, c) := x in let '(d, e, f) := y in (a =? d) && (b =? e) && (c =? f).

Definition mm_obs_eqb (a b : mm_obs) : bool :=
  match a, b with
  | MOk x l, MOk y m => (x =? y) && list_eqb triple_eqb l m
  | MErr e, MErr f => mm_err_eqb e f
  | _, _ => false
  end.

