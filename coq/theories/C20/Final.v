(* C20 — the property for tskit trees given by their representation invariant, the
   per-sample reading of "reproduces", and the exact boundary of finding F14
   (root_threshold > 1: samples under no root). *)
From Coq Require Import List ZArith NArith Bool Lia Arith.
From TskVerif Require Import Base.Common Gen.Generated C20.Model C20.Spec C20.SetProofs C20.HartiganProofs
  C20.AssignProofs C20.VisitProofs C20.TopProofs C20.ArrayProofs C20.EndToEnd C20.CurrentProofs C20.PyProofs
  C20.TreeInv.
Import ListNotations.
Open Scope Z_scope.

(* ---- the state a labeling of the forest gives node u ---- *)
Fixpoint label_of (u : Z) (t : tree) (l : ltree) : option N :=
  match t, l with
  | Node v _ ch, LNode s ls =>
      if v =? u then Some s else
      (fix go (cs : list tree) (ls : list ltree) : option N :=
         match cs, ls with
         | c :: cs', l' :: ls' => match label_of u c l' with Some x => Some x | None => go cs' ls' end
         | _, _ => None
         end) ch ls
  end.

Fixpoint label_in (u : Z) (cs : list tree) (ls : list ltree) : option N :=
  match cs, ls with
  | c :: cs', l' :: ls' => match label_of u c l' with Some x => Some x | None => label_in u cs' ls' end
  | _, _ => None
  end.

Lemma label_of_node u v o ch s ls :
  label_of u (Node v o ch) (LNode s ls) = if v =? u then Some s else label_in u ch ls.
Proof.
  cbn [label_of]. destruct (v =? u); [reflexivity|].
  revert ls. induction ch as [|c r IH]; intros [|l' ls']; try reflexivity. cbn [label_in]. rewrite IH. reflexivity.
Qed.

Lemma label_of_notin u t : forall l, ~ In u (ids t) -> label_of u t l = None.
Proof.
  induction t as [v o ch IH] using tree_ind'. intros [s ls] H. rewrite label_of_node. rewrite ids_node in H.
  destruct (Z.eqb_spec v u) as [E|NE]; [exfalso; apply H; left; exact E|].
  assert (Hc : ~ In u (forest_ids ch)) by (intros X; apply H; right; exact X). clear H.
  revert ls. induction IH as [|c r Hcc Hr IHr]; intros [|l' ls']; try reflexivity. cbn [label_in].
  rewrite forest_ids_cons in Hc.
  rewrite Hcc by (intros X; apply Hc; apply in_or_app; left; exact X).
  apply IHr. intros X; apply Hc; apply in_or_app; right; exact X.
Qed.

(* a labeling consistent with the data gives every observed sample of the forest its
   observed state *)
Lemma consistent_label ta g u x : forall t l,
  RepO ta g t -> consistent t l = true -> In u (ids t) -> obs_of ta g u = Ok (Obs x) ->
  label_of u t l = Some x.
Proof.
  induction t as [v o ch IH] using tree_ind'. intros [s ls] HR HC Hin Ho.
  inversion HR as [? ? ? Hov HRc]; subst. rewrite consistent_node in HC. apply andb_true_iff in HC as [C1 C2].
  rewrite label_of_node. destruct (Z.eqb_spec v u) as [E|NE].
  - subst v. rewrite Hov in Ho. inversion Ho; subst o. apply N.eqb_eq in C1. subst. reflexivity.
  - rewrite ids_node in Hin. destruct Hin as [E|Hin]; [congruence|].
    clear C1 Hov HR. revert ls C2 HRc Hin.
    induction IH as [|c r Hc Hr IHr]; intros [|l' ls'] C2 HRc Hin; simpl in C2; try discriminate.
    + contradiction.
    + apply andb_true_iff in C2 as [Cc Cr]. inversion HRc as [|? ? HRc1 HRcr]; subst. cbn [label_in].
      rewrite forest_ids_cons in Hin. apply in_app_or in Hin. destruct Hin as [Hin|Hin].
      * rewrite (Hc l' HRc1 Cc Hin Ho). reflexivity.
      * destruct (label_of u c l') as [y|] eqn:E.
        -- (* u also in c? then the same argument gives x *)
           destruct (in_dec Z.eq_dec u (ids c)) as [I|I]; [rewrite (Hc l' HRc1 Cc I Ho) in E; congruence|].
           rewrite (label_of_notin u c l' I) in E. discriminate.
        -- apply IHr; assumption.
Qed.

Lemma consistent_label_forest ta g u x : forall cs ls,
  Forall (RepO ta g) cs -> consistent_list cs ls = true -> In u (forest_ids cs) ->
  obs_of ta g u = Ok (Obs x) -> label_in u cs ls = Some x.
Proof.
  induction cs as [|c r IH]; intros [|l' ls'] HR HC Hin Ho; simpl in HC; try discriminate; [contradiction|].
  apply andb_true_iff in HC as [Cc Cr]. inversion HR as [|? ? HR1 HRr]; subst. cbn [label_in].
  rewrite forest_ids_cons in Hin. apply in_app_or in Hin. destruct Hin as [Hin|Hin].
  - rewrite (consistent_label ta g u x c l' HR1 Cc Hin Ho). reflexivity.
  - destruct (label_of u c l') as [y|] eqn:E.
    + destruct (in_dec Z.eq_dec u (ids c)) as [I|I]; [rewrite (consistent_label ta g u x c l' HR1 Cc I Ho) in E; congruence|].
      rewrite (label_of_notin u c l' I) in E. discriminate.
    + apply IH; assumption.
Qed.

(* the observation of the j-th sample *)
Lemma obs_of_sample ta g j s gj :
  NoDup (ta_samples ta) -> nth_error (ta_samples ta) j = Some s -> nth_error g j = Some gj ->
  flagged ta s -> gj <> c20_tsk_missing_data ->
  obs_of ta g s = Ok (Obs (Z.to_N gj)).
Proof.
  intros ND Hs Hg [f [Ef Eo]] Hne. unfold obs_of. rewrite Ef. cbn [bind]. rewrite Eo.
  assert (Ej : index_of s (ta_samples ta) 0 = Some j).
  { destruct (index_of_in s (ta_samples ta)) as [j' Ej']; [eapply nth_error_In; eassumption|].
    destruct (index_of_first _ _ _ _ Ej') as [_ [N1 _]]. rewrite Nat.sub_0_r in N1.
    assert (j' = j); [|subst; exact Ej'].
    assert (Lj : (j < length (ta_samples ta))%nat) by (apply nth_error_Some; congruence).
    assert (Lj' : (j' < length (ta_samples ta))%nat) by (apply nth_error_Some; congruence).
    eapply (proj1 (NoDup_nth_error (ta_samples ta)) ND j' j Lj'). congruence. }
  rewrite Ej, Hg. assert (X : (gj =? c20_tsk_missing_data) = false) by (apply Z.eqb_neq; exact Hne). rewrite X. reflexivity.
Qed.

(* ---- the property for tskit trees (representation invariant), any root_threshold ---- *)
Lemma c_map_mutations_on_trees_lemma ta K h g anc :
  tree_inv ta K h ->
  length g = length (ta_samples ta) ->
  Forall (fun x => -1 <= x < c20_hartigan_max_alleles) g -> (exists x, In x g /\ x <> -1) ->
  match anc with Some a => 0 <= a < c20_hartigan_max_alleles | None => True end ->
  exists roots a tr,
    rose_of_arrays ta g = Ok roots /\ map tid roots = K (zlen (ta_flags ta)) /\
    c_map_mutations ta g anc = Ok (Z.of_N a, tr) /\
    match anc with Some x => Z.of_N a = x | None => True end /\
    (* every sample that is a node of the forest under the virtual root (for root_threshold = 1:
       every sample) and has a non-missing observation is painted with its observed state *)
    (forall j s gj, nth_error (ta_samples ta) j = Some s -> nth_error g j = Some gj -> gj <> -1 ->
       In s (forest_ids roots) ->
       label_in s roots (map (fun r => paint tr r a) roots) = Some (Z.to_N gj)) /\
    parents_before tr 0 = true /\ forallb (fun r => parents_ok tr r (-1)) roots = true /\
    nodupb (map tr_node tr) = true /\
    forallb (unary_ok false tr) roots = true /\
    (length tr <= forest_num_obs roots)%nat /\
    (* minimal among all labelings of that forest consistent with its samples' observations *)
    (forall a' ls, match anc with Some x => a' = Z.to_N x | None => True end ->
        consistent_list roots ls = true -> (length tr <= forest_changes a' ls)%nat) /\
    (exists ls, consistent_list roots ls = true /\ forest_changes a ls = length tr).
Proof.
  intros INV GL Hg Hnm Hanc.
  destruct (tree_inv_arrays_ok_lemma ta K h g INV GL) as [roots [Hrose [HA HK]]].
  assert (Asamp : Forall (fun u => 0 <= u < zlen (repeat 0%N (S (length (ta_flags ta))))) (ta_samples ta)).
  { apply Forall_forall. intros s Hs. apply (inv_samples _ _ _ INV) in Hs. destruct Hs as [R _].
    unfold zlen in *. rewrite repeat_length. lia. }
  destruct (init_sets_succeeds c20_missing_through_hartigan _ _ _ 0 0 GL Hg Asamp) as [os0 [na0 [nm [Hinit [_ Hnm']]]]].
  assert (Hnm0 : nm <> 0) by (specialize (Hnm' Hnm); lia).
  destruct (c_map_mutations_property_lemma ta g anc os0 na0 nm roots Hinit Hnm0 Hanc Hrose HA)
    as [a [tr [E [A1 [A2 [A3 [A4 [A5 [A6 [A7 [A8 A9]]]]]]]]]]].
  exists roots, a, tr. repeat (split; [assumption|]). split; [|repeat (split; try assumption)].
  intros j s gj Hs Hgj Hne Hin.
  destruct (rose_of_arrays_rep ta g roots Hrose) as [lc [Hlc _]].
  assert (HO : Forall (RepO ta g) roots).
  { unfold rose_of_arrays in Hrose. rewrite Hlc in Hrose. cbn [bind] in Hrose. eapply rose_chain_repO; eassumption. }
  apply (consistent_label_forest ta g s (Z.to_N gj) roots _ HO A2 Hin).
  apply (obs_of_sample ta g j s gj (inv_samples_nodup _ _ _ INV) Hs Hgj); [|exact Hne].
  apply (inv_samples _ _ _ INV). eapply nth_error_In; eassumption.
Qed.

(* ---- F14: the boundary is exact.  Tree with root_threshold = 2: nodes 0,1 under 3, sample 2
   isolated (not under the virtual root).  The invariant-style facts hold, the function returns
   (0, []), sample 2 is observed in state 1, is not a node of the forest, carries no transition
   and has no parent, so the nearest-mutation rule paints it with the ancestral state 0. *)
Definition f14_arrays : tree_arrays :=
  mkTreeArrays [-1; -1; -1; 0; 3] [1; -1; -1; -1; -1] [-1; -1; -1; 1; 3] [-1; 0; -1; -1; -1]
               [3; 3; -1; -1; -1] [1; 1; 1; 0] [0; 1; 2].

Lemma f14_boundary_witness :
  exists roots,
    rose_of_arrays f14_arrays [0; 0; 1] = Ok roots /\ arrays_okb f14_arrays roots = true /\
    c_map_mutations f14_arrays [0; 0; 1] None = Ok (0, []) /\
    nth_error (ta_samples f14_arrays) 2 = Some 2 /\ nth_error [0; 0; 1] 2 = Some 1 /\
    existsb (Z.eqb 2) (forest_ids roots) = false /\
    get (ta_parent f14_arrays) 2 = Ok (-1).
Proof. eexists. vm_compute. repeat split; reflexivity. Qed.

(* ---- non-vacuity of [tree_inv]: the arrays of the F14 tree satisfy it ---- *)
Definition f14_K (p : Z) : list Z := if p =? 3 then [0; 1] else if p =? 4 then [3] else [].
Definition f14_h (p : Z) : nat := if p =? 3 then 1%nat else O.

Example f14_tree_inv : tree_inv f14_arrays f14_K f14_h.
Proof.
  constructor.
  - intros p Hp. change (zlen (ta_flags f14_arrays)) with 4 in Hp.
    assert (C : p = 0 \/ p = 1 \/ p = 2 \/ p = 3 \/ p = 4) by lia.
    destruct C as [-> | [-> | [-> | [-> | ->]]]]; eexists; (split; [reflexivity|]); cbn;
      repeat (first [apply sibs_nil | eapply sibs_cons; [lia | reflexivity |]]).
  - intros p Hp. change (zlen (ta_flags f14_arrays)) with 4 in Hp.
    assert (C : p = 0 \/ p = 1 \/ p = 2 \/ p = 3 \/ p = 4) by lia.
    destruct C as [-> | [-> | [-> | [-> | ->]]]]; eexists; (split; [reflexivity|]); cbn;
      repeat (first [apply sibs_nil | eapply sibs_cons; [lia | reflexivity |]]).
  - intros p c Hp. change (zlen (ta_flags f14_arrays)) with 4 in *.
    assert (C : p = 0 \/ p = 1 \/ p = 2 \/ p = 3) by lia.
    destruct C as [-> | [-> | [-> | ->]]]; cbn; split; intros Hx.
    all: match type of Hx with
         | False => contradiction
         | _ \/ _ => destruct Hx as [ <- | [ <- | []]]; (split; [lia | reflexivity])
         | _ /\ _ => destruct Hx as [Hc Hg]; assert (D : c = 0 \/ c = 1 \/ c = 2 \/ c = 3) by lia;
                     destruct D as [ -> | [ -> | [ -> | ->]]]; cbn in Hg; try discriminate;
                     try (inversion Hg; fail); auto
         end.
  - intros c. change (zlen (ta_flags f14_arrays)) with 4. cbn. intros [<- | []]. split; [lia | reflexivity].
  - intros p c Hp. change (zlen (ta_flags f14_arrays)) with 4 in Hp.
    assert (C : p = 0 \/ p = 1 \/ p = 2 \/ p = 3) by lia.
    destruct C as [-> | [-> | [-> | ->]]]; cbn; intros Hx;
      match type of Hx with
      | False => contradiction
      | _ => destruct Hx as [ <- | [ <- | []]]; cbn; lia
      end.
  - cbn. repeat constructor; cbn; intuition lia.
  - intros u. change (zlen (ta_flags f14_arrays)) with 4. unfold flagged. cbn. split.
    + intros [<- | [<- | [<- | []]]]; (split; [lia|]); eexists; split; reflexivity.
    + intros [Hu [f [Ef Eo]]]. assert (D : u = 0 \/ u = 1 \/ u = 2 \/ u = 3) by lia.
      destruct D as [-> | [-> | [-> | ->]]]; auto. cbn in Ef. inversion Ef; subst. cbn in Eo. discriminate.
Qed.
