(* C20 — the theorems for [mm_model] / [c_map_mutations], the variant of the algorithm the
   code under test has.  The fact [c20_missing_through_hartigan] is re-extracted from
   /repo/c/tskit/trees.c on every run; since the repair of finding F2 (fix commit a5ef628:
   a sample with missing data keeps optimal_set[u] == 0 and goes through the Hartigan step)
   it is [true], and [current_is_repaired] below is proved by computation on the regenerated
   constant — if the code falls back to the pinned shape, this file no longer compiles and
   ./check reports the property as no longer shown. *)
From Coq Require Import List ZArith NArith Bool Lia Arith.
From TskVerif Require Import Base.Common Gen.Generated C20.Model C20.Spec C20.SetProofs C20.HartiganProofs
  C20.AssignProofs C20.VisitProofs C20.PlaceProofs C20.TopProofs C20.BoundProofs C20.FixProofs
  C20.ArrayProofs C20.EndToEnd.
Import ListNotations.

Lemma current_is_repaired : c20_missing_through_hartigan = true.
Proof. reflexivity. Qed.

Lemma mm_model_fixed K roots anc : mm_model K roots anc = mm_rose K (map demote roots) anc.
Proof. unfold mm_model. rewrite current_is_repaired. reflexivity. Qed.

Lemma obs_lt_demote_forest K roots : forallb (obs_lt K) (map demote roots) = forallb (obs_lt K) roots.
Proof. apply forallb_map_ext. apply obs_lt_demote. Qed.

(* Hartigan's invariant for the sets the current code computes: every tree, no proviso *)
Lemma hartigan_invariant_current K t :
  (1 <= K <= 64)%nat -> obs_lt K t = true ->
  (forall l, consistent t l = true ->
     (mcost K (demote t) + (if memx K (opt_set K (demote t)) (lroot l) then 0 else 1) <= changes l)%nat) /\
  (forall s, (s < N.of_nat K)%N -> N.testbit (opt_set K (demote t)) s = true ->
     exists l, consistent t l = true /\ lroot l = s /\ changes l = mcost K (demote t)).
Proof.
  intros HK HO. rewrite <- obs_lt_demote in HO.
  destruct (hartigan_invariant_lemma K (demote t) HK HO (no_internal_missing_demote t)) as [L U]. split.
  - intros l C. apply L. rewrite consistent_demote. exact C.
  - intros s Hs T. destruct (U s Hs T) as [l [C R]]. exists l. rewrite consistent_demote in C. auto.
Qed.

Lemma mm_total_current K roots anc : (1 <= K <= 64)%nat -> forallb (obs_lt K) roots = true ->
  exists a tr, mm_model K roots anc = Some (a, tr).
Proof.
  intros HK HO. rewrite mm_model_fixed. apply mm_rose_total; [exact HK|]. rewrite obs_lt_demote_forest. exact HO.
Qed.

Lemma mm_reproduces_current K roots anc a tr :
  nodupb (forest_ids roots) = true -> mm_model K roots anc = Some (a, tr) ->
  consistent_list roots (map (fun r => paint tr r a) roots) = true.
Proof. apply mm_current_reproduces_lemma. Qed.

Lemma mm_optimal_current K roots anc a tr :
  (1 <= K <= 64)%nat -> forallb (obs_lt K) roots = true ->
  match anc with Some x => (x < N.of_nat K)%N | None => True end ->
  mm_model K roots anc = Some (a, tr) ->
  (forall a' ls, match anc with Some x => a' = x | None => True end ->
      consistent_list roots ls = true -> (length tr <= forest_changes a' ls)%nat) /\
  (exists ls, consistent_list roots ls = true /\ forest_changes a ls = length tr).
Proof.
  intros HK HO HA H. apply (mm_current_optimal_lemma K roots anc a tr HK HO (or_introl current_is_repaired) HA H).
Qed.

Lemma mm_order_valid_current K roots anc a tr :
  nodupb (forest_ids roots) = true -> mm_model K roots anc = Some (a, tr) ->
  parents_before tr 0 = true /\
  forallb (fun r => parents_ok tr r (-1)) roots = true /\
  nodupb (map tr_node tr) = true.
Proof.
  intros ND H. rewrite mm_model_fixed in H. rewrite <- forest_ids_demote in ND.
  destruct (mm_order_valid_lemma K _ anc a tr ND H) as [P1 [P2 P3]]. split; [exact P1|]. split; [|exact P3].
  rewrite (forallb_map_ext _ (fun r => parents_ok tr r (-1))) in P2; [exact P2 | intros; apply parents_ok_demote].
Qed.

Lemma mm_oldest_current K roots anc a tr :
  (1 <= K <= 64)%nat -> forallb (obs_lt K) roots = true ->
  match anc with Some x => (x < N.of_nat K)%N | None => True end ->
  nodupb (forest_ids roots) = true ->
  mm_model K roots anc = Some (a, tr) ->
  forallb (unary_ok false tr) roots = true.
Proof.
  intros HK HO HA ND H.
  apply (mm_current_oldest_lemma K roots anc a tr HK HO (or_introl current_is_repaired) HA ND H).
Qed.

Lemma transitions_bounded_current K roots anc a tr :
  (1 <= K <= 64)%nat -> forallb (obs_lt K) roots = true ->
  match anc with Some x => (x < N.of_nat K)%N | None => True end ->
  mm_model K roots anc = Some (a, tr) ->
  (length tr <= forest_num_obs roots)%nat.
Proof.
  intros HK HO HA H. rewrite mm_model_fixed in H. rewrite <- obs_lt_demote_forest in HO.
  pose proof (transitions_bounded_lemma K _ anc a tr HK HO HA H) as B.
  rewrite forest_num_obs_demote in B. exact B.
Qed.

Lemma mm_stack_eq_current K roots anc r :
  mm_model K roots anc = Some r -> mm_stack K (map demote roots) anc = Ok r.
Proof. rewrite mm_model_fixed. apply StackProofs.mm_stack_eq_lemma. Qed.

(* the array function the correspondence evaluates, end to end, no proviso *)
Lemma c_map_mutations_property_lemma ta g anc os0 na0 nm roots :
  init_sets c20_missing_through_hartigan (ta_samples ta) g (repeat 0%N (S (length (ta_flags ta)))) 0 0
    = Ok (os0, na0, nm) ->
  nm <> 0%Z ->
  match anc with Some a => (0 <= a < c20_hartigan_max_alleles)%Z | None => True end ->
  rose_of_arrays ta g = Ok roots ->
  arrays_okb ta roots = true ->
  exists a tr,
    c_map_mutations ta g anc = Ok (Z.of_N a, tr) /\
    match anc with Some x => Z.of_N a = x | None => True end /\
    consistent_list roots (map (fun r => paint tr r a) roots) = true /\
    parents_before tr 0 = true /\ forallb (fun r => parents_ok tr r (-1)) roots = true /\
    nodupb (map tr_node tr) = true /\
    forallb (unary_ok false tr) roots = true /\
    (length tr <= forest_num_obs roots)%nat /\
    (forall a' ls, match anc with Some x => a' = Z.to_N x | None => True end ->
        consistent_list roots ls = true -> (length tr <= forest_changes a' ls)%nat) /\
    (exists ls, consistent_list roots ls = true /\ forest_changes a ls = length tr).
Proof.
  intros Hinit Hnm Hanc Hrose HA.
  destruct (c_map_mutations_sound_lemma _ ta g anc os0 na0 nm roots Hinit Hnm Hanc Hrose HA)
    as [a [tr [E [A1 [A2 [A3 [A4 [A5 [_ [A7 A8]]]]]]]]]].
  destruct (A8 (or_introl current_is_repaired)) as [B1 [B2 B3]].
  exists a, tr. unfold c_map_mutations. repeat split; assumption.
Qed.

(* the proposed F14 guard only ever turns a result into a rejection *)
Lemma guarded_ok core ta g anc r : guarded core ta g anc = Ok r -> core ta g anc = Ok r.
Proof.
  unfold guarded. destruct c20_rejects_unvisited_samples; [|auto].
  destruct (core ta g anc) as [r'| | |]; try discriminate.
  destruct (all_samples_visited ta) as [[|]| | |]; cbn [bind]; try discriminate. auto.
Qed.

Lemma guarded_off core ta g anc : c20_rejects_unvisited_samples = false -> guarded core ta g anc = core ta g anc.
Proof. unfold guarded. intros ->. reflexivity. Qed.

Lemma guarded_pass core ta g anc : all_samples_visited ta = Ok true -> guarded core ta g anc = core ta g anc.
Proof.
  unfold guarded. intros H. destruct c20_rejects_unvisited_samples; [|reflexivity].
  destruct (core ta g anc); try reflexivity. rewrite H. reflexivity.
Qed.

Lemma guarded_only_rejects_lemma :
  forall (core : tree_arrays -> list Z -> option Z -> res (Z * list trans))
         (ta : tree_arrays) (g : list Z) (anc : option Z) (r : Z * list trans),
  (guarded core ta g anc = Ok r -> core ta g anc = Ok r) /\
  (c20_rejects_unvisited_samples = false -> guarded core ta g anc = core ta g anc) /\
  (all_samples_visited ta = Ok true -> guarded core ta g anc = core ta g anc).
Proof.
  intros core ta g anc r.
  exact (conj (guarded_ok core ta g anc r) (conj (guarded_off core ta g anc) (guarded_pass core ta g anc))).
Qed.
