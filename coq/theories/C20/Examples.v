(* C20 — non-vacuity: concrete inputs meeting the hypotheses of every theorem of
   Props/C20.v, with non-trivial outputs (all by vm_compute). *)
From Coq Require Import List ZArith NArith Bool Lia.
From TskVerif Require Import Base.Common Gen.Generated C20.Model C20.Spec C20.HartiganProofs C20.FixProofs C20.Refuted.
Import ListNotations.
Open Scope Z_scope.

(* two roots; root 8 is a polytomy over a leaf, a leaf, a unary node 6, an internal
   observed sample 7 (over a leaf and a missing leaf) and a non-sample leaf 5; root 9 is an
   isolated sample. 3 alleles. *)
Definition ex_roots : list tree :=
  [Node 8 NotSample
     [Node 0 (Obs 0) []; Node 1 (Obs 1) [];
      Node 6 NotSample [Node 2 (Obs 1) []];
      Node 7 (Obs 2) [Node 3 (Obs 2) []; Node 4 Missing []];
      Node 5 NotSample []];
   Node 9 (Obs 1) []].
Definition ex_tree : tree := Node 10 NotSample ex_roots.

Example ex_hypotheses :
  forallb (obs_lt 3) ex_roots = true /\ forallb no_internal_missing ex_roots = true /\
  nodupb (forest_ids ex_roots) = true /\ forest_num_obs ex_roots = 6%nat.
Proof. vm_compute. repeat split; reflexivity. Qed.

(* hartigan_invariant: the set of the polytomy is {1}, m = 2; a consistent labeling with the
   root in state 0 (not in the set) needs 3 changes, one with the root in state 1 needs 2 *)
Example hartigan_invariant_nonvacuous :
  let t := hd (Node 0 NotSample []) ex_roots in
  obs_lt 3 t = true /\ no_internal_missing t = true /\
  opt_set 3 t = 2%N /\ mcost 3 t = 2%nat /\
  (let l0 := LNode 0 [LNode 0 []; LNode 1 []; LNode 1 [LNode 1 []]; LNode 2 [LNode 2 []; LNode 2 []]; LNode 0 []] in
   consistent t l0 = true /\ memx 3 (opt_set 3 t) (lroot l0) = false /\ changes l0 = 3%nat) /\
  (let l1 := LNode 1 [LNode 0 []; LNode 1 []; LNode 1 [LNode 1 []]; LNode 2 [LNode 2 []; LNode 2 []]; LNode 1 []] in
   consistent t l1 = true /\ memx 3 (opt_set 3 t) (lroot l1) = true /\ changes l1 = 2%nat).
Proof. vm_compute. repeat split; reflexivity. Qed.

(* free ancestral state: 1, two transitions (node 7 -> 2 and node 0 -> 0, in that order:
   children are popped right to left) *)
Example mm_free_nonvacuous :
  mm_rose 3 ex_roots None = Some (1%N, [(7, -1, 2%N); (0, -1, 0%N)]).
Proof. vm_compute. reflexivity. Qed.

(* fixed ancestral state 2: transitions above both roots, then below; parents are indices *)
Example mm_fixed_anc_nonvacuous :
  mm_rose 3 ex_roots (Some 2%N) = Some (2%N, [(9, -1, 1%N); (8, -1, 1%N); (7, 1, 2%N); (0, 1, 0%N)]).
Proof. vm_compute. reflexivity. Qed.

Example mm_reproduces_nonvacuous :
  map (fun r => paint [(9, -1, 1%N); (8, -1, 1%N); (7, 1, 2%N); (0, 1, 0%N)] r 2%N) ex_roots =
  [LNode 1 [LNode 0 []; LNode 1 []; LNode 1 [LNode 1 []]; LNode 2 [LNode 2 []; LNode 2 []]; LNode 1 []];
   LNode 1 []].
Proof. vm_compute. reflexivity. Qed.

Example mm_order_valid_nonvacuous :
  let tr := [(9, -1, 1%N); (8, -1, 1%N); (7, 1, 2%N); (0, 1, 0%N)] in
  parents_before tr 0 = true /\ forallb (fun r => parents_ok tr r (-1)) ex_roots = true /\
  (* a wrong parent link is rejected by the predicate *)
  forallb (fun r => parents_ok [(9, -1, 1%N); (8, -1, 1%N); (7, -1, 2%N); (0, 1, 0%N)] r (-1)) ex_roots = false.
Proof. vm_compute. repeat split; reflexivity. Qed.

(* unary chain 6 - 2: with ancestral state 0 fixed the transition to 1 goes on 8, never on 2;
   the predicate rejects a placement on node 2 *)
Example mm_oldest_nonvacuous :
  forallb (unary_ok false [(2, -1, 1%N)]) ex_roots = false /\
  forallb (unary_ok false [(6, -1, 1%N)]) ex_roots = true.
Proof. vm_compute. split; reflexivity. Qed.

(* the stack layer on the same input *)
Example mm_stack_nonvacuous :
  mm_stack 3 ex_roots (Some 2%N) = Ok (2%N, [(9, -1, 1%N); (8, -1, 1%N); (7, 1, 2%N); (0, 1, 0%N)]).
Proof. vm_compute. reflexivity. Qed.

(* the repaired algorithm on the F2 witnesses: one mutation, on the internal sample *)
Example mm_fixed_on_f2 :
  mm_rose_fixed 2 f2_roots None = Some (0%N, [(3, -1, 1%N)]) /\
  mm_rose_fixed 2 f2u_roots None = Some (0%N, [(2, -1, 1%N)]).
Proof. vm_compute. split; reflexivity. Qed.

(* c_map_mutations_eq_rose: all hypotheses hold on the arrays of the F2 tree with
   genotypes [0,1,1,2] and a fixed ancestral state, and both sides are a non-trivial result *)
Example c_map_mutations_eq_rose_nonvacuous :
  let g := [0; 1; 1; 2] in
  exists os0 roots,
    init_sets false (ta_samples f2_arrays) g (repeat 0%N (S (length (ta_flags f2_arrays)))) 0 0 = Ok (os0, 2, 4) /\
    rose_of_arrays f2_arrays g = Ok roots /\
    forallb (init_okb false os0) roots = true /\
    get os0 (zlen (ta_flags f2_arrays)) = Ok 0%N /\
    postorder_from_virtual_root f2_arrays = Ok (flat_map post_ids roots ++ [zlen (ta_flags f2_arrays)]) /\
    nodupb (forest_ids roots) = true /\
    (fsize roots <? length (ta_left_child f2_arrays))%nat = true /\
    forallb (sets_nonzero (Z.to_nat (final_num_alleles 2 (Some 1)))) roots = true /\
    c_map_mutations_gen false f2_arrays g (Some 1) = Ok (1, [(4, -1, 0%N); (3, 0, 2%N); (2, 1, 1%N); (1, 1, 1%N)]) /\
    arrays_okb f2_arrays roots = true /\
    l2_side_conditions false f2_arrays g = true /\
    (* the repaired variant on the F2 witness: hypotheses hold, one mutation on node 3 *)
    (exists os1, init_sets true (ta_samples f2_arrays) f2_genotypes (repeat 0%N (S (length (ta_flags f2_arrays)))) 0 0 = Ok (os1, 1, 3)) /\
    forallb (sets_nonzero (Z.to_nat (final_num_alleles 1 None))) (map demote f2_roots) = true /\
    arrays_okb f2_arrays f2_roots = true /\
    c_map_mutations_gen true f2_arrays f2_genotypes None = Ok (0, [(3, -1, 1%N)]) /\
    (* the checker rejects inconsistent arrays: parent of node 1 changed from 3 to 4 *)
    arrays_okb (mkTreeArrays (ta_left_child f2_arrays) (ta_right_sib f2_arrays) (ta_right_child f2_arrays)
                  (ta_left_sib f2_arrays) [4; 4; 3; 4; -1; -1] (ta_flags f2_arrays) (ta_samples f2_arrays)) roots = false.
Proof.
  eexists. eexists. vm_compute. repeat split; try reflexivity. eexists. reflexivity.
Qed.

(* the Python layer: alleles ("T","G","A") as tokens [20;7;1]; ancestral_state given as the
   string "G" (token 7) resolves to index 1 by lookup; the result is translated back *)
Example py_map_mutations_nonvacuous :
  resolve_anc (AStr 7) [20; 7; 1] = Ok (Some 1) /\
  resolve_anc (AStr 1) [20; 7; 1] = Ok (Some 2) /\       (* the string whose token is 1 is NOT index 1 *)
  resolve_anc (AStr 5) [20; 7; 1] = Err 0 /\ resolve_anc (AInt 3) [20; 7; 1] = Err 0 /\
  py_map_mutations (c_map_mutations_gen true) f2_arrays [0; 1; 1; 2] (AStr 7) [20; 7; 1] =
    MOk 7 [(4, 20, -1); (3, 1, 0); (2, 7, 1); (1, 7, 1)] /\
  py_map_mutations (c_map_mutations_gen true) f2_arrays [0; 1; 1; 2] (AStr 7) [20; 7] = MErr EIndex /\
  py_map_mutations (c_map_mutations_gen true) f2_arrays [0; 1; 1; 128] ANone [20; 7; 1] = MErr EOverflow /\
  py_map_mutations (c_map_mutations_gen true) f2_arrays [0; 1; 1; -2] ANone [20; 7; 1] = MErr ELibrary /\
  py_map_mutations (c_map_mutations_gen true) f2_arrays [0; 1; 1] ANone [20; 7; 1] = MErr EValue.
Proof. vm_compute. repeat split; reflexivity. Qed.
