(* C20 — lemmas about the uint64 bit sets and the Hartigan set of a node. *)
From Coq Require Import List ZArith NArith Bool Lia Arith.
From TskVerif Require Import Base.Common C20.Model C20.Spec.
Import ListNotations.

Lemma testbit_set_bit v b a : N.testbit (set_bit v b) a = N.testbit v a || N.eqb b a.
Proof.
  unfold set_bit. rewrite N.lor_spec, N.shiftl_1_l, N.pow2_bits_eqb. reflexivity.
Qed.

Lemma testbit_single g a : N.testbit (set_bit 0 g) a = N.eqb g a.
Proof. rewrite testbit_set_bit. rewrite N.bits_0. reflexivity. Qed.

Lemma uint64_max_ones : UINT64_MAX = N.ones 64.
Proof. reflexivity. Qed.

Lemma testbit_uint64_max a : N.testbit UINT64_MAX a = (a <? 64)%N.
Proof.
  rewrite uint64_max_ones. destruct (a <? 64)%N eqn:E.
  - apply N.ltb_lt in E. apply N.ones_spec_low. lia.
  - apply N.ltb_ge in E. apply N.ones_spec_high. lia.
Qed.

Lemma ctz_testbit p : N.testbit (Npos p) (ctz p) = true.
Proof.
  induction p as [p IH | p IH |]; simpl ctz; try reflexivity.
  change (N.pos p~0) with (N.double (N.pos p)).
  rewrite N.double_bits_succ. exact IH.
Qed.

Lemma smallest_testbit v : v <> 0%N -> N.testbit v (smallest v) = true.
Proof. destruct v as [|p]; [congruence | intros _; apply ctz_testbit]. Qed.

Lemma get_smallest_some v : v <> 0%N -> get_smallest_set_bit v = Some (smallest v).
Proof. destruct v; [congruence | reflexivity]. Qed.

Lemma testbit_nonzero v a : N.testbit v a = true -> v <> 0%N.
Proof. intros H E; subst. rewrite N.bits_0 in H. discriminate. Qed.

(* ---- allele_list ---- *)
Lemma in_allele_list K a : In a (allele_list K) <-> (a < N.of_nat K)%N.
Proof.
  unfold allele_list. rewrite in_map_iff. split.
  - intros [x [E H]]. apply in_seq in H. lia.
  - intros H. exists (N.to_nat a). split; [lia | apply in_seq; lia].
Qed.

(* ---- count / max_count ---- *)
Lemma count_le_length a sets : (count a sets <= length sets)%nat.
Proof. unfold count. induction sets; simpl; [lia | destruct (bit_is_set _ _); simpl; lia]. Qed.

Lemma max_count_ge K sets a : (a < N.of_nat K)%N -> (count a sets <= max_count K sets)%nat.
Proof.
  intros H. apply in_allele_list in H. unfold max_count. induction (allele_list K) as [|x l IH]; simpl in *.
  - contradiction.
  - destruct H as [-> | H]; [lia | specialize (IH H); lia].
Qed.

Lemma max_count_attained K sets : (1 <= K)%nat ->
  exists a, (a < N.of_nat K)%N /\ count a sets = max_count K sets.
Proof.
  intros HK.
  assert (G : forall l, l <> [] -> exists a, In a l /\
            count a sets = fold_right (fun a m => Nat.max (count a sets) m) O l).
  { induction l as [|x l IH]; [congruence | intros _].
    destruct l as [|y l'].
    - exists x. simpl. split; [auto | lia].
    - destruct IH as [a [Ha Ea]]; [congruence|].
      remember (y :: l') as l2.
      change (fold_right (fun a m => Nat.max (count a sets) m) O (x :: l2))
        with (Nat.max (count x sets) (fold_right (fun a m => Nat.max (count a sets) m) O l2)).
      destruct (Nat.le_ge_cases (count x sets) (fold_right (fun a m => Nat.max (count a sets) m) O l2)).
      + exists a. split; [right; exact Ha | rewrite Ea; lia].
      + exists x. split; [left; reflexivity | lia]. }
  destruct (G (allele_list K)) as [a [Ha Ea]].
  - unfold allele_list. destruct K; [lia | simpl; congruence].
  - exists a. split; [apply in_allele_list; exact Ha | exact Ea].
Qed.

Lemma max_count_le_length K sets : (max_count K sets <= length sets)%nat.
Proof.
  unfold max_count. induction (allele_list K); simpl; [lia|].
  pose proof (count_le_length a sets). lia.
Qed.

(* ---- hartigan_set ---- *)
Lemma hartigan_set_spec K sets a :
  N.testbit (hartigan_set K sets) a =
  (a <? N.of_nat K)%N && Nat.eqb (count a sets) (max_count K sets).
Proof.
  unfold hartigan_set. cbv zeta.
  set (mc := max_count K sets).
  assert (G : forall l, N.testbit (fold_right (fun a acc => if Nat.eqb (count a sets) mc then set_bit acc a else acc) 0%N l) a
                        = existsb (N.eqb a) l && Nat.eqb (count a sets) mc).
  { induction l as [|x l IH]; simpl.
    - rewrite ?N.bits_0. reflexivity.
    - destruct (Nat.eqb (count x sets) mc) eqn:E.
      + rewrite testbit_set_bit, IH. destruct (N.eqb_spec x a) as [->|Hn].
        * rewrite N.eqb_refl. simpl. rewrite E. rewrite orb_true_r. reflexivity.
        * assert (N.eqb a x = false) by (apply N.eqb_neq; congruence). rewrite H. simpl.
          rewrite orb_false_r. reflexivity.
      + rewrite IH. destruct (N.eqb_spec a x) as [->|Hn]; simpl; [|reflexivity].
        rewrite E. rewrite andb_false_r. reflexivity. }
  rewrite G. f_equal.
  destruct (a <? N.of_nat K)%N eqn:E.
  - apply N.ltb_lt in E. apply in_allele_list in E. apply existsb_exists. exists a. split; [exact E | apply N.eqb_refl].
  - apply N.ltb_ge in E. destruct (existsb (N.eqb a) (allele_list K)) eqn:X; [|reflexivity].
    apply existsb_exists in X. destruct X as [x [Hx Ex]]. apply N.eqb_eq in Ex. subst.
    apply in_allele_list in Hx. lia.
Qed.

Lemma hartigan_set_nonzero K sets : (1 <= K)%nat -> hartigan_set K sets <> 0%N.
Proof.
  intros HK. destruct (max_count_attained K sets HK) as [a [Ha Ea]].
  apply (testbit_nonzero _ a). rewrite hartigan_set_spec.
  apply andb_true_iff. split; [apply N.ltb_lt; exact Ha | apply Nat.eqb_eq; exact Ea].
Qed.

Lemma hartigan_set_lt K sets a : N.testbit (hartigan_set K sets) a = true -> (a < N.of_nat K)%N.
Proof. rewrite hartigan_set_spec. intros H. apply andb_true_iff in H. apply N.ltb_lt. tauto. Qed.

Lemma hartigan_set_count K sets a : N.testbit (hartigan_set K sets) a = true -> count a sets = max_count K sets.
Proof. rewrite hartigan_set_spec. intros H. apply andb_true_iff in H. apply Nat.eqb_eq. tauto. Qed.

(* if b is in fewer sets than a, some set has a but not b *)
Lemma count_lt_exists a b sets : (count b sets < count a sets)%nat ->
  exists x, In x sets /\ N.testbit x a = true /\ N.testbit x b = false.
Proof.
  unfold count, bit_is_set. induction sets as [|x l IH]; simpl; [lia|].
  destruct (N.testbit x a) eqn:A, (N.testbit x b) eqn:B; simpl; intros H.
  - destruct IH as [y [Hy Ty]]; [lia | exists y; tauto].
  - exists x. tauto.
  - destruct IH as [y [Hy Ty]]; [lia | exists y; tauto].
  - destruct IH as [y [Hy Ty]]; [lia | exists y; tauto].
Qed.
