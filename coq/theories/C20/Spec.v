(* C20 — specification side: labelings of a tree, number of state changes, consistency
   with the observations, painting by the nearest-mutation rule, and the checkable
   predicates used in the statements of Props/C20.v.  All executable. *)
From Coq Require Import List ZArith NArith Bool Lia.
From TskVerif Require Import Base.Common Gen.Generated C20.Model.
Import ListNotations.
Open Scope Z_scope.

(* A labeling of a tree: one state per node, same shape. *)
Inductive ltree : Type := LNode (s : N) (ch : list ltree).
Definition lroot (l : ltree) : N := match l with LNode s _ => s end.
Definition lch (l : ltree) : list ltree := match l with LNode _ c => c end.

Definition neq_cost (a b : N) : nat := if N.eqb a b then O else 1%nat.

(* number of parent-child edges whose end points carry different states *)
Fixpoint changes (l : ltree) : nat :=
  match l with
  | LNode s ch => fold_right (fun c n => (neq_cost s (lroot c) + changes c + n)%nat) O ch
  end.

(* l has the shape of t and every observed sample carries its observed state *)
Fixpoint consistent (t : tree) (l : ltree) : bool :=
  match t, l with
  | Node _ o ch, LNode s ls =>
      (match o with Obs g => N.eqb s g | _ => true end) &&
      (fix go (cs : list tree) (ls : list ltree) : bool :=
         match cs, ls with
         | [], [] => true
         | c :: cs', l' :: ls' => consistent c l' && go cs' ls'
         | _, _ => false
         end) ch ls
  end.

Fixpoint consistent_list (cs : list tree) (ls : list ltree) : bool :=
  match cs, ls with
  | [], [] => true
  | c :: cs', l' :: ls' => consistent c l' && consistent_list cs' ls'
  | _, _ => false
  end.

(* A forest (the roots of the tree) under an ancestral state a: the state changes are
   those inside the trees plus one for every root whose state is not a. *)
Definition forest_changes (a : N) (ls : list ltree) : nat := changes (LNode a ls).

(* --- painting: the nearest-mutation rule --------------------------------------- *)
(* derived state of the last-listed mutation on node u *)
Fixpoint last_on (u : Z) (ms : list trans) : option N :=
  match ms with
  | [] => None
  | m :: r => match last_on u r with
              | Some d => Some d
              | None => if tr_node m =? u then Some (tr_state m) else None
              end
  end.

(* state of a node = derived state of the nearest mutation at or above it, else the
   ancestral state; computed top-down *)
Fixpoint paint (ms : list trans) (t : tree) (above : N) : ltree :=
  match t with
  | Node u _ ch =>
      let s := match last_on u ms with Some d => d | None => above end in
      LNode s (map (fun c => paint ms c s) ch)
  end.

(* --- well-formedness predicates (checkable) -------------------------------------- *)
Fixpoint ids (t : tree) : list Z :=
  match t with Node u _ ch => u :: flat_map ids ch end.
Definition forest_ids (ts : list tree) : list Z := flat_map ids ts.

Fixpoint nodupb (l : list Z) : bool :=
  match l with [] => true | x :: r => negb (existsb (Z.eqb x) r) && nodupb r end.

(* every observed state is an allele < K *)
Fixpoint obs_lt (K : nat) (t : tree) : bool :=
  match t with
  | Node _ o ch => (match o with Obs g => (g <? N.of_nat K)%N | _ => true end) && forallb (obs_lt K) ch
  end.

(* no INTERNAL sample has a missing genotype: a Missing node has no children *)
Fixpoint no_internal_missing (t : tree) : bool :=
  match t with
  | Node _ o ch => (match o, ch with Missing, _ :: _ => false | _, _ => true end)
                   && forallb no_internal_missing ch
  end.

(* number of samples with a non-missing observation *)
Fixpoint num_obs (t : tree) : nat :=
  match t with
  | Node _ o ch => ((match o with Obs _ => 1 | _ => 0 end) + fold_right (fun c n => num_obs c + n) 0 ch)%nat
  end.
Definition forest_num_obs (ts : list tree) : nat := fold_right (fun c n => (num_obs c + n)%nat) O ts.

(* --- order / parent links -------------------------------------------------------- *)
(* index of the last-listed mutation on node u *)
Fixpoint last_index_on (u : Z) (ms : list trans) (i : Z) : option Z :=
  match ms with
  | [] => None
  | m :: r => match last_index_on u r (i + 1) with
              | Some j => Some j
              | None => if tr_node m =? u then Some i else None
              end
  end.

(* Walking down from the root, [above] is the index of the last-listed mutation on the
   nearest strict ancestor that carries one (-1 if none): every mutation on the node
   must name exactly that index as its parent. *)
Fixpoint parents_ok (ms : list trans) (t : tree) (above : Z) : bool :=
  match t with
  | Node u _ ch =>
      forallb (fun m => negb (tr_node m =? u) || (tr_parent m =? above)) ms &&
      let above' := match last_index_on u ms 0 with Some j => j | None => above end in
      forallb (fun c => parents_ok ms c above') ch
  end.

(* parents precede children in the list *)
Fixpoint parents_before (ms : list trans) (i : Z) : bool :=
  match ms with
  | [] => true
  | m :: r => (-1 <=? tr_parent m) && (tr_parent m <? i) && parents_before r (i + 1)
  end.

(* --- oldest node of a unary chain -------------------------------------------------- *)
Definition on_node (ms : list trans) (u : Z) : bool := existsb (fun m => tr_node m =? u) ms.

(* no mutation sits on the only child of a node whose own state is unconstrained
   ([strict] = true: only non-sample parents count as unconstrained;
    [strict] = false: a sample with a missing observation is unconstrained too) *)
Fixpoint unary_ok (strict : bool) (ms : list trans) (t : tree) : bool :=
  match t with
  | Node _ o ch =>
      (match o, ch with
       | NotSample, [c] => negb (on_node ms (tid c))
       | Missing, [c] => strict || negb (on_node ms (tid c))
       | _, _ => true
       end) && forallb (unary_ok strict ms) ch
  end.

(* --- Hartigan cost and the labeling the algorithm constructs ---------------------- *)
Definition sumf {A} (f : A -> nat) (l : list A) : nat := fold_right (fun c n => (f c + n)%nat) O l.

(* m(v): the number of state changes Hartigan's recursion attributes to the subtree *)
Fixpoint mcost (K : nat) (t : tree) : nat :=
  match t with
  | Node _ o ch =>
      let sub := fold_right (fun c n => (mcost K c + n)%nat) O ch in
      let sets := map (opt_set K) ch in
      match o with
      | NotSample => (sub + (length ch - max_count K sets))%nat
      | Obs g => (sub + (length ch - count g sets))%nat
      | Missing => sub
      end
  end.

(* membership of a state in an optimal set, extended to states >= K (never observed and
   not the fixed ancestral state): such a state is free of extra cost only where every
   allele is *)
Definition fullb (K : nat) (v : N) : bool := forallb (fun a => N.testbit v a) (allele_list K).
Definition memx (K : nat) (v : N) (s : N) : bool :=
  if (s <? N.of_nat K)%N then N.testbit v s else fullb K v.

(* the state the preorder loop gives every node when it enters t with state s *)
Fixpoint assigned (K : nat) (t : tree) (s : N) : ltree :=
  match t with
  | Node u o ch =>
      let Su := opt_set K (Node u o ch) in
      let s' := if bit_is_set Su s then s else smallest Su in
      LNode s' (map (fun c => assigned K c s') ch)
  end.

(* --- consistency of the arrays with the forest (a C01-type invariant of the inputs) ---- *)
(* right_child / left_sib / parent of one node and, recursively, its subtree *)
Fixpoint links_okb (ta : tree_arrays) (t : tree) : bool :=
  match t with
  | Node u _ ch =>
      (match get (ta_right_child ta) u, get (ta_parent ta) u with
       | Ok rc, Ok _ =>
           match chain (S (length (ta_left_sib ta))) (ta_left_sib ta) rc with
           | Ok l => zlist_eqb l (rev (map tid ch))
           | _ => false
           end
       | _, _ => false
       end) &&
      forallb (fun c => match get (ta_parent ta) (tid c) with Ok p => p =? u | _ => false end) ch &&
      forallb (links_okb ta) ch
  end.

(* the whole input: the virtual root's links, every subtree, the sample list (no duplicates,
   every listed node flagged), distinct node ids that fit the arrays *)
Definition arrays_okb (ta : tree_arrays) (roots : list tree) : bool :=
  let Nn := zlen (ta_flags ta) in
  (match get (ta_right_child ta) Nn with
   | Ok rc => match chain (S (length (ta_left_sib ta))) (ta_left_sib ta) rc with
              | Ok l => zlist_eqb l (rev (map tid roots))
              | _ => false
              end
   | _ => false
   end) &&
  forallb (fun r => match get (ta_parent ta) (tid r) with Ok p => p =? -1 | _ => false end) roots &&
  forallb (links_okb ta) roots &&
  nodupb (ta_samples ta) &&
  forallb (fun s => match get (ta_flags ta) s with Ok f => Z.odd (f / c20_tsk_node_is_sample) | _ => false end)
          (ta_samples ta) &&
  nodupb (forest_ids roots) &&
  (fsize roots <? length (ta_left_child ta))%nat.

(* --- L2 self-consistency: the two facts about the array code that are tied only
   differentially (C20/ArrayProofs.v proves the rest of L2 = L0 from them) ------------- *)
(* left-to-right postorder of a tree, as tsk_tree_postorder_from produces it *)
Fixpoint post_ids (t : tree) : list Z :=
  match t with Node u _ ch => flat_map post_ids ch ++ [u] end.

(* optimal_set[u] after the initialisation loop 7252-7266 (fx: repaired variant) *)
Definition init_set (fx : bool) (o : obs) : N :=
  match o with
  | NotSample => 0%N
  | Missing => if fx then 0%N else UINT64_MAX
  | Obs g => set_bit 0 g
  end.

Fixpoint init_okb (fx : bool) (os : list N) (t : tree) : bool :=
  match t with
  | Node u o ch =>
      (match get os u with Ok x => N.eqb x (init_set fx o) | _ => false end) && forallb (init_okb fx os) ch
  end.

Definition l2_side_conditions (fx : bool) (ta : tree_arrays) (genotypes : list Z) : bool :=
  let Nn := zlen (ta_flags ta) in
  if negb (zlen genotypes =? zlen (ta_samples ta)) then true else
  match init_sets fx (ta_samples ta) genotypes (repeat 0%N (S (length (ta_flags ta)))) 0 0 with
  | Err _ => true                       (* rejected genotypes: nothing to check *)
  | Ok (os0, _, _) =>
      match rose_of_arrays ta genotypes, postorder_from_virtual_root ta with
      | Ok roots, Ok nodes =>
          arrays_okb ta roots &&
          forallb (init_okb fx os0) roots &&
          (match get os0 Nn with Ok x => N.eqb x 0 | _ => false end) &&
          list_eqb Z.eqb nodes (flat_map post_ids roots ++ [Nn]) &&
          nodupb (forest_ids roots) &&
          (fsize roots <? length (ta_left_child ta))%nat
      | _, _ => false
      end
  | _ => false
  end.

(* num_alleles after 7272-7283, from the maximum genotype na0 of the initialisation loop *)
Definition final_num_alleles (na0 : Z) (anc : option Z) : Z :=
  match anc with
  | None => na0 + 1
  | Some a => if (a >=? na0 + 1)%Z then a + 1 else na0 + 1
  end%Z.

(* correspondence term: both cores must reproduce the implementation's observation, and
   the side conditions of the L2 = L0 theorem must hold on this input *)
Definition check_case (ta : tree_arrays) (genotypes : list Z) (anc : anc_arg) (alleles : list Z) (o : mm_obs) : bool :=
  mm_obs_eqb (py_map_mutations (guarded c_map_mutations) ta genotypes anc alleles) o &&
  mm_obs_eqb (py_map_mutations (guarded c_map_mutations_rose) ta genotypes anc alleles) o &&
  l2_side_conditions c20_missing_through_hartigan ta genotypes.
