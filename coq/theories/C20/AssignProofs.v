(* C20 — the preorder assignment: the labeling it constructs, the number of transitions,
   equality with Hartigan's cost. *)
From Coq Require Import List ZArith NArith Bool Lia Arith.
From TskVerif Require Import Base.Common C20.Model C20.Spec C20.SetProofs C20.HartiganProofs.
Import ListNotations.

Definition hitb (K : nat) (t : tree) (s : N) : bool := bit_is_set (opt_set K t) s.
Definition next_state (K : nat) (t : tree) (s : N) : N :=
  if hitb K t s then s else smallest (opt_set K t).

Lemma assign_eq K u o ch s tp k :
  assign K (Node u o ch) s tp k =
  (if hitb K (Node u o ch) s then [] else [(u, tp, next_state K (Node u o ch) s)]) ++
  assign_children K ch (next_state K (Node u o ch) s)
                  (if hitb K (Node u o ch) s then tp else k)
                  (if hitb K (Node u o ch) s then k else (k + 1)%Z).
Proof.
  unfold hitb, next_state, hitb.
  cbn [assign]. f_equal.
  generalize (if bit_is_set (opt_set K (Node u o ch)) s then s else smallest (opt_set K (Node u o ch))) as s'.
  generalize (if bit_is_set (opt_set K (Node u o ch)) s then tp else k) as tp'.
  generalize (if bit_is_set (opt_set K (Node u o ch)) s then k else (k + 1)%Z) as k'.
  intros k' tp' s'. induction ch as [|c r IH]; [reflexivity|].
  cbn [assign_children]. rewrite <- IH. reflexivity.
Qed.

Lemma assigned_eq K u o ch s :
  assigned K (Node u o ch) s =
  LNode (next_state K (Node u o ch) s) (map (fun c => assigned K c (next_state K (Node u o ch) s)) ch).
Proof. reflexivity. Qed.

Lemma lroot_assigned K t s : lroot (assigned K t s) = next_state K t s.
Proof. destruct t. reflexivity. Qed.

Lemma sumf_cons {A} (f : A -> nat) x l : sumf f (x :: l) = (f x + sumf f l)%nat.
Proof. reflexivity. Qed.
Lemma sumf_nil {A} (f : A -> nat) : sumf f [] = O.
Proof. reflexivity. Qed.

Lemma sumf_map {A B} (f : B -> nat) (g : A -> B) l : sumf f (map g l) = sumf (fun x => f (g x)) l.
Proof. induction l; [reflexivity | cbn [map]; rewrite !sumf_cons, IHl; reflexivity]. Qed.

Lemma sumf_ext {A} (f g : A -> nat) l : (forall x, In x l -> f x = g x) -> sumf f l = sumf g l.
Proof.
  induction l; intros H; [reflexivity|]. rewrite !sumf_cons. rewrite H by (left; reflexivity).
  rewrite IHl; [reflexivity|]. intros x Hx. apply H. right. exact Hx.
Qed.

Lemma sumf_plus {A} (f g : A -> nat) l : sumf (fun x => f x + g x)%nat l = (sumf f l + sumf g l)%nat.
Proof. induction l; [reflexivity | rewrite !sumf_cons, IHl; lia]. Qed.

Lemma sumf_indicator {A} (p : A -> bool) l :
  sumf (fun x => if p x then 0 else 1)%nat l = (length l - length (filter p l))%nat.
Proof.
  induction l; [reflexivity|]. rewrite sumf_cons, IHl. pose proof (filter_length_le p l).
  cbn [filter length]. destruct (p a); cbn [length]; lia.
Qed.

Lemma length_assign_children K ch s tp k :
  (forall c, In c ch -> forall tp k, length (assign K c s tp k) = length (assign K c s 0%Z 0%Z)) ->
  length (assign_children K ch s tp k) = sumf (fun c => length (assign K c s 0%Z 0%Z)) ch.
Proof.
  induction ch as [|c r IH]; intros H; [reflexivity|].
  cbn [assign_children]. rewrite app_length. rewrite IH by (intros; apply H; right; assumption).
  rewrite (H c (or_introl eq_refl)). rewrite sumf_cons. lia.
Qed.

(* ---- the constructed labeling is consistent with the observations ---- *)
Lemma next_state_obs K u g ch s : next_state K (Node u (Obs g) ch) s = g.
Proof.
  unfold next_state, hitb, bit_is_set. rewrite opt_set_obs. rewrite testbit_single.
  destruct (N.eqb_spec g s) as [E|NE]; [congruence|].
  assert (T : N.testbit (set_bit 0 g) (smallest (set_bit 0 g)) = true).
  { apply smallest_testbit. apply (testbit_nonzero _ g). rewrite testbit_single. apply N.eqb_refl. }
  rewrite testbit_single in T. apply N.eqb_eq in T. congruence.
Qed.

Lemma consistent_list_map ch (f : tree -> ltree) :
  Forall (fun c => consistent c (f c) = true) ch -> consistent_list ch (map f ch) = true.
Proof. induction 1; simpl; [reflexivity | apply andb_true_iff; split; assumption]. Qed.

Lemma assigned_consistent K t : forall s, consistent t (assigned K t s) = true.
Proof.
  induction t as [u o ch IH] using tree_ind'. intros s.
  rewrite assigned_eq, consistent_node. apply andb_true_iff. split.
  - destruct o; try reflexivity. rewrite next_state_obs. apply N.eqb_refl.
  - apply consistent_list_map. rewrite Forall_forall in *. intros c Hc. apply IH. exact Hc.
Qed.

(* ---- number of transitions = number of state changes of the constructed labeling ---- *)
Lemma sets_nonzero_node K u o ch :
  sets_nonzero K (Node u o ch) = negb (N.eqb (opt_set K (Node u o ch)) 0) && forallb (sets_nonzero K) ch.
Proof. reflexivity. Qed.

Lemma neq_next_state K c s : opt_set K c <> 0%N ->
  neq_cost s (next_state K c s) = (if hitb K c s then 0 else 1)%nat.
Proof.
  intros NZ. unfold next_state, neq_cost. destruct (hitb K c s) eqn:H.
  - rewrite N.eqb_refl. reflexivity.
  - destruct (N.eqb_spec s (smallest (opt_set K c))) as [E|NE]; [|reflexivity].
    exfalso. unfold hitb, bit_is_set in H. rewrite E in H.
    rewrite smallest_testbit in H by exact NZ. discriminate.
Qed.

Lemma length_assign K t : sets_nonzero K t = true -> forall s tp k,
  length (assign K t s tp k) = ((if hitb K t s then 0 else 1) + changes (assigned K t s))%nat.
Proof.
  induction t as [u o ch IH] using tree_ind'. intros NZ s tp k.
  rewrite sets_nonzero_node in NZ. apply andb_true_iff in NZ as [NZ1 NZ2].
  rewrite forallb_forall in NZ2. rewrite Forall_forall in IH.
  rewrite assign_eq, app_length.
  set (s' := next_state K (Node u o ch) s).
  rewrite length_assign_children.
  2:{ intros c Hc tp0 k0. rewrite (IH c Hc (NZ2 c Hc)). rewrite (IH c Hc (NZ2 c Hc) s' 0%Z 0%Z). reflexivity. }
  rewrite assigned_eq. fold s'. rewrite changes_node, sumf_map.
  assert (E : sumf (fun c => length (assign K c s' 0%Z 0%Z)) ch =
              sumf (fun x => neq_cost s' (lroot (assigned K x s')) + changes (assigned K x s'))%nat ch).
  { apply sumf_ext. intros c Hc. rewrite (IH c Hc (NZ2 c Hc)). rewrite lroot_assigned.
    rewrite neq_next_state; [reflexivity|].
    specialize (NZ2 c Hc). destruct c as [cu co cch]. rewrite sets_nonzero_node in NZ2.
    apply andb_true_iff in NZ2 as [Z _]. apply negb_true_iff in Z. apply N.eqb_neq in Z. exact Z. }
  rewrite E. destruct (hitb K (Node u o ch) s); reflexivity.
Qed.

(* every optimal set contains an allele < K *)
Lemma set_has_low K t : okK K -> obs_lt K t = true ->
  exists a, (a < N.of_nat K)%N /\ N.testbit (opt_set K t) a = true.
Proof.
  intros [H1 H2] HO. destruct t as [u [| |g] ch].
  - rewrite opt_set_notsample. destruct (max_count_attained K (map (opt_set K) ch) H1) as [a [Ha Ea]].
    exists a. split; [exact Ha|]. rewrite hartigan_set_spec. apply andb_true_iff.
    split; [apply N.ltb_lt; exact Ha | apply Nat.eqb_eq; exact Ea].
  - exists 0%N. split; [lia|]. rewrite opt_set_missing. reflexivity.
  - rewrite obs_lt_node in HO. apply andb_true_iff in HO as [HO _]. apply N.ltb_lt in HO.
    exists g. split; [exact HO|]. rewrite opt_set_obs, testbit_single. apply N.eqb_refl.
Qed.

Lemma sets_nonzero_ok K t : okK K -> obs_lt K t = true -> sets_nonzero K t = true.
Proof.
  intros HK. induction t as [u o ch IH] using tree_ind'. intros HO.
  rewrite sets_nonzero_node. apply andb_true_iff. split.
  - destruct (set_has_low K (Node u o ch) HK HO) as [a [_ Ta]].
    apply negb_true_iff. apply N.eqb_neq. apply (testbit_nonzero _ a). exact Ta.
  - rewrite obs_lt_node in HO. apply andb_true_iff in HO as [_ HO]. rewrite forallb_forall in *.
    rewrite Forall_forall in IH. intros c Hc. apply IH; [exact Hc | apply HO; exact Hc].
Qed.

(* the state handed down is always an allele < K *)
Lemma next_state_lt K t s : okK K -> obs_lt K t = true -> (s < N.of_nat K)%N ->
  (next_state K t s < N.of_nat K)%N /\ N.testbit (opt_set K t) (next_state K t s) = true.
Proof.
  intros HK HO Hs. unfold next_state, hitb, bit_is_set.
  destruct (N.testbit (opt_set K t) s) eqn:T; [split; assumption|].
  destruct (set_has_low K t HK HO) as [a [Ha Ta]].
  assert (NZ : opt_set K t <> 0%N) by (apply (testbit_nonzero _ a); exact Ta).
  pose proof (smallest_testbit _ NZ) as TS. split; [|exact TS].
  destruct t as [u [| |g] ch].
  - rewrite opt_set_notsample in TS. apply hartigan_set_lt in TS. rewrite opt_set_notsample. exact TS.
  - rewrite opt_set_missing in T. rewrite testbit_uint64_max in T. apply N.ltb_ge in T.
    destruct HK. lia.
  - rewrite obs_lt_node in HO. apply andb_true_iff in HO as [HO _]. apply N.ltb_lt in HO.
    rewrite opt_set_obs in *. rewrite testbit_single in TS. apply N.eqb_eq in TS. rewrite <- TS. exact HO.
Qed.

(* ---- the constructed labeling has exactly Hartigan's cost ---- *)
Lemma changes_assigned K : okK K -> forall t,
  obs_lt K t = true -> no_internal_missing t = true ->
  forall s, (s < N.of_nat K)%N -> changes (assigned K t s) = mcost K t.
Proof.
  intros HK. induction t as [u o ch IH] using tree_ind'. intros HO HM s Hs.
  pose proof (next_state_lt K (Node u o ch) s HK HO Hs) as [Hs' Ts'].
  pose proof (sets_nonzero_ok K _ HK HO) as NZ.
  rewrite sets_nonzero_node in NZ. apply andb_true_iff in NZ as [_ NZ]. rewrite forallb_forall in NZ.
  rewrite obs_lt_node in HO. rewrite no_internal_missing_node in HM.
  apply andb_true_iff in HO as [HO1 HO2]. apply andb_true_iff in HM as [HM1 HM2].
  rewrite forallb_forall in HO2, HM2. rewrite Forall_forall in IH.
  rewrite assigned_eq. set (s' := next_state K (Node u o ch) s) in *.
  rewrite changes_node, sumf_map.
  assert (E : sumf (fun x => neq_cost s' (lroot (assigned K x s')) + changes (assigned K x s'))%nat ch =
              sumf (fun x => (if N.testbit (opt_set K x) s' then 0 else 1) + mcost K x)%nat ch).
  { apply sumf_ext. intros c Hc. rewrite (IH c Hc (HO2 c Hc) (HM2 c Hc) s' Hs').
    rewrite lroot_assigned. rewrite neq_next_state; [reflexivity|].
    specialize (NZ c Hc). destruct c as [cu co cch]. rewrite sets_nonzero_node in NZ.
    apply andb_true_iff in NZ as [Z _]. apply negb_true_iff in Z. apply N.eqb_neq in Z. exact Z. }
  rewrite E. rewrite sumf_plus. rewrite sumf_indicator. rewrite <- count_map.
  rewrite mcost_node. destruct o as [| |g].
  - rewrite opt_set_notsample in Ts'. apply hartigan_set_count in Ts'. rewrite Ts'. lia.
  - destruct ch; [reflexivity | discriminate].
  - unfold s'. rewrite next_state_obs. lia.
Qed.
