(* C20 — end to end: the whole property for the C function over the arrays
   ([c_map_mutations_gen fx]), obtained from L2 = L0 ([c_map_mutations_eq_rose]) and the
   theorems on the rose-tree layer.  The only hypotheses are about the INPUT: the genotypes
   pass the entry checks, the ancestral state (if fixed) is in range, and the arrays are
   those of a tree ([arrays_okb]). *)
From Coq Require Import List ZArith NArith Bool Lia Arith.
From TskVerif Require Import Base.Common Gen.Generated C20.Model C20.Spec C20.SetProofs C20.HartiganProofs
  C20.AssignProofs C20.VisitProofs C20.PlaceProofs C20.TopProofs C20.BoundProofs C20.FixProofs C20.ArrayProofs.
Import ListNotations.

(* ---- what the initialisation loop accepts ---- *)
Lemma init_sets_bounds fx : forall samples g os na nm os' na' nm',
  init_sets fx samples g os na nm = Ok (os', na', nm') -> (0 <= na < c20_hartigan_max_alleles)%Z ->
  (0 <= na' < c20_hartigan_max_alleles)%Z /\ (na <= na')%Z /\
  forall j gj, (j < length samples)%nat -> nth_error g j = Some gj -> (-1 <= gj <= na')%Z.
Proof.
  unfold c20_hartigan_max_alleles.
  induction samples as [|s rest IH]; intros g os na nm os' na' nm' H Hna.
  - destruct g; simpl in H; inversion H; subst; (split; [lia|]; split; [lia|]; intros j gj Hj; simpl in Hj; lia).
  - destruct g as [|g0 g']; [simpl in H; discriminate|]. cbn [init_sets] in H.
    unfold c20_hartigan_max_alleles, c20_tsk_missing_data in H.
    destruct ((g0 >=? 64)%Z || (g0 <? -1)%Z) eqn:Eb; [discriminate|].
    apply orb_false_iff in Eb as [E1 E2]. rewrite Z.geb_leb in E1. apply Z.leb_gt in E1. apply Z.ltb_ge in E2.
    destruct (g0 =? -1)%Z eqn:Em.
    + apply Z.eqb_eq in Em.
      destruct (if fx then (do _ <- get os s; Ok os) else set os s UINT64_MAX) as [os1| | |]; cbn [bind] in H; try discriminate.
      destruct (IH _ _ _ _ _ _ _ H Hna) as [B1 [B2 B3]]. split; [exact B1|]. split; [exact B2|].
      intros [|j] gj Hj Hn; simpl in Hn.
      * inversion Hn; subst. lia.
      * apply (B3 j gj); [simpl in Hj; lia | exact Hn].
    + apply Z.eqb_neq in Em.
      destruct (get os s) as [cur| | |]; cbn [bind] in H; try discriminate.
      destruct (set os s (set_bit cur (Z.to_N g0))) as [os1| | |]; cbn [bind] in H; try discriminate.
      destruct (IH _ _ _ _ _ _ _ H) as [B1 [B2 B3]]; [lia|]. split; [exact B1|]. split; [lia|].
      intros [|j] gj Hj Hn; simpl in Hn.
      * inversion Hn; subst. lia.
      * apply (B3 j gj); [simpl in Hj; lia | exact Hn].
Qed.

Lemma index_of_lt x l : forall i j, index_of x l i = Some j -> (i <= j < i + length l)%nat.
Proof.
  induction l as [|y r IH]; intros i j H; [discriminate|]. cbn [index_of] in H.
  destruct (x =? y)%Z; [inversion H; subst; simpl; lia|]. apply IH in H. simpl. lia.
Qed.

Lemma obs_of_obs ta g u x : obs_of ta g u = Ok (Obs x) ->
  exists j gj, (j < length (ta_samples ta))%nat /\ nth_error g j = Some gj /\ gj <> (-1)%Z /\ x = Z.to_N gj.
Proof.
  unfold obs_of. destruct (get (ta_flags ta) u) as [f| | |]; cbn [bind]; try discriminate.
  destruct (Z.odd (f / c20_tsk_node_is_sample)); [|discriminate].
  destruct (index_of u (ta_samples ta) 0) as [j|] eqn:Ej; [|discriminate].
  destruct (nth_error g j) as [gj|] eqn:Eg; [|discriminate].
  unfold c20_tsk_missing_data. destruct (Z.eqb_spec gj (-1)%Z) as [E|NE]; [discriminate|].
  intros H. inversion H; subst. apply index_of_lt in Ej. exists j, gj. repeat split; try assumption; lia.
Qed.

Lemma RepO_obs_lt ta g K t :
  (forall j gj, (j < length (ta_samples ta))%nat -> nth_error g j = Some gj -> (-1 <= gj < Z.of_nat K)%Z) ->
  RepO ta g t -> obs_lt K t = true.
Proof.
  intros B. induction t as [u o ch IH] using tree_ind'. intros H. inversion H; subst.
  rewrite obs_lt_node. apply andb_true_iff. split.
  - destruct o as [| |x]; try reflexivity.
    destruct (obs_of_obs ta g u x H2) as [j [gj [Hj [Hn [Hne ->]]]]]. specialize (B j gj Hj Hn).
    apply N.ltb_lt. lia.
  - apply forallb_forall. rewrite Forall_forall in *. intros c Hc. apply IH; auto.
Qed.

(* ---- invariance of the structural predicates under demote ---- *)
Lemma parents_ok_demote ms t : forall above, parents_ok ms (demote t) above = parents_ok ms t above.
Proof.
  induction t as [u o ch IH] using tree_ind'. intros above. rewrite demote_node, !parents_ok_eq. f_equal.
  rewrite forallb_map.
  generalize (match last_index_on u ms 0 with Some j => j | None => above end) as a2. intros a2.
  induction IH as [|c r Hc Hr IHr]; simpl; [reflexivity|]. rewrite Hc, IHr. reflexivity.
Qed.

Lemma num_obs_demote t : num_obs (demote t) = num_obs t.
Proof.
  induction t as [u o ch IH] using tree_ind'. rewrite demote_node, !num_obs_node. f_equal; [destruct o; reflexivity|].
  rewrite sumf_map. apply sumf_ext. rewrite Forall_forall in IH. exact IH.
Qed.

Lemma forest_num_obs_demote ts : forest_num_obs (map demote ts) = forest_num_obs ts.
Proof.
  change (sumf num_obs (map demote ts) = sumf num_obs ts). rewrite sumf_map. apply sumf_ext.
  intros. apply num_obs_demote.
Qed.

Lemma unary_ok_weaken ms t : unary_ok false ms t = true -> unary_ok true ms t = true.
Proof.
  induction t as [u o ch IH] using tree_ind'. rewrite !unary_ok_eq. intros H.
  apply andb_true_iff in H as [H1 H2]. apply andb_true_iff. split.
  - destruct o; destruct ch as [|c [|c2 r]]; try reflexivity; exact H1.
  - rewrite forallb_forall in *. rewrite Forall_forall in IH. intros c Hc. apply IH; auto.
Qed.

(* ---- the property, for the array code ---- *)
Definition provisos (fx : bool) (roots : list tree) : Prop :=
  fx = true \/ forallb no_internal_missing roots = true.

Lemma c_map_mutations_sound_lemma fx ta g anc os0 na0 nm roots :
  init_sets fx (ta_samples ta) g (repeat 0%N (S (length (ta_flags ta)))) 0 0 = Ok (os0, na0, nm) ->
  nm <> 0%Z ->
  match anc with Some a => (0 <= a < c20_hartigan_max_alleles)%Z | None => True end ->
  rose_of_arrays ta g = Ok roots ->
  arrays_okb ta roots = true ->
  exists a tr,
    c_map_mutations_gen fx ta g anc = Ok (Z.of_N a, tr) /\
    match anc with Some x => Z.of_N a = x | None => True end /\
    (* reproduces every non-missing observation *)
    consistent_list roots (map (fun r => paint tr r a) roots) = true /\
    (* order valid for a mutation table, parent links *)
    parents_before tr 0 = true /\ forallb (fun r => parents_ok tr r (-1)) roots = true /\
    nodupb (map tr_node tr) = true /\
    (* oldest node of a unary chain (non-sample parents) *)
    forallb (unary_ok true tr) roots = true /\
    (* the C buffer of num_samples transitions suffices *)
    (length tr <= forest_num_obs roots)%nat /\
    (* most parsimonious; unary chains below missing samples: with the F2 proviso *)
    (provisos fx roots ->
       (forall a' ls, match anc with Some x => a' = Z.to_N x | None => True end ->
           consistent_list roots ls = true -> (length tr <= forest_changes a' ls)%nat) /\
       (exists ls, consistent_list roots ls = true /\ forest_changes a ls = length tr) /\
       forallb (unary_ok false tr) roots = true).
Proof.
  intros Hinit Hnm Hanc Hrose HA.
  set (K := Z.to_nat (final_num_alleles na0 anc)).
  (* bounds *)
  assert (H0 : (0 <= 0 < c20_hartigan_max_alleles)%Z) by (unfold c20_hartigan_max_alleles; lia).
  destruct (init_sets_bounds fx _ _ _ _ _ _ _ _ Hinit H0) as [Bna [_ Bg]].
  unfold c20_hartigan_max_alleles in *.
  assert (HK : okK K).
  { unfold okK, K, final_num_alleles. destruct anc as [a|]; [destruct (a >=? na0 + 1)%Z eqn:E|]; lia. }
  assert (HKg : forall j gj, (j < length (ta_samples ta))%nat -> nth_error g j = Some gj -> (-1 <= gj < Z.of_nat K)%Z).
  { intros j gj Hj Hn. specialize (Bg j gj Hj Hn). unfold K, final_num_alleles.
    destruct anc as [a|]; [destruct (a >=? na0 + 1)%Z eqn:E; [rewrite Z.geb_leb in E; apply Z.leb_le in E|]|]; lia. }
  assert (HAnc : anc_ok K (option_map Z.to_N anc)).
  { destruct anc as [a|]; [|exact I]. cbn [option_map anc_ok]. unfold K, final_num_alleles.
    destruct (a >=? na0 + 1)%Z eqn:E; [|rewrite Z.geb_leb in E; apply Z.leb_gt in E]; lia. }
  (* the forest *)
  destruct (rose_of_arrays_rep ta g roots Hrose) as [lc [Hlc [Hsibs [Hwide HR]]]].
  assert (HO : Forall (RepO ta g) roots).
  { unfold rose_of_arrays in Hrose. rewrite Hlc in Hrose. cbn [bind] in Hrose. eapply rose_chain_repO; eassumption. }
  assert (Hobs : forallb (obs_lt K) roots = true).
  { apply forallb_forall. rewrite Forall_forall in HO. intros c Hc. apply (RepO_obs_lt ta g K); auto. }
  assert (ND : nodupb (forest_ids roots) = true).
  { unfold arrays_okb in HA. apply andb_true_iff in HA as [HA _]. apply andb_true_iff in HA as [_ HA]. exact HA. }
  set (roots' := if fx then map demote roots else roots).
  assert (Hobs' : forallb (obs_lt K) roots' = true).
  { unfold roots'. destruct fx; [|exact Hobs]. rewrite (forallb_map_ext _ (obs_lt K)); [exact Hobs | apply obs_lt_demote]. }
  assert (NZ : forallb (sets_nonzero K) roots' = true).
  { rewrite forallb_forall in *. intros c Hc. apply sets_nonzero_ok; [exact HK | apply Hobs'; exact Hc]. }
  pose proof (c_map_mutations_eq_rose_lemma fx ta g anc os0 na0 nm roots Hinit Hnm Hanc Hrose HA NZ) as EQ.
  fold K in EQ.
  destruct (mm_rose_total K roots' (option_map Z.to_N anc) HK Hobs') as [a [tr Hmm]].
  assert (Hmm' : (if fx then mm_rose_fixed else mm_rose) K roots (option_map Z.to_N anc) = Some (a, tr)).
  { unfold roots' in Hmm. destruct fx; exact Hmm. }
  rewrite Hmm' in EQ. exists a, tr. split; [exact EQ|].
  assert (ND' : nodupb (forest_ids roots') = true).
  { unfold roots'. destruct fx; [rewrite forest_ids_demote|]; exact ND. }
  split.
  { destruct anc as [x|]; [|exact I]. apply mm_rose_inv in Hmm as [_ [_ E]]. cbn [option_map] in E. subst a.
    destruct Hanc. rewrite Z2N.id; lia. }
  (* the structural facts, on roots' and transported to roots *)
  pose proof (mm_order_valid_lemma K roots' _ a tr ND' Hmm) as [PB [PO NDn]].
  pose proof (transitions_bounded_lemma K roots' _ a tr HK Hobs' HAnc Hmm) as TB.
  pose proof (mm_oldest_lemma K roots' _ a tr true HK Hobs' HAnc ND' (or_introl eq_refl) Hmm) as UO.
  assert (REP : consistent_list roots (map (fun r => paint tr r a) roots) = true).
  { destruct fx.
    - apply (mm_fixed_reproduces_lemma K roots _ a tr ND Hmm').
    - apply (mm_reproduces_lemma K roots _ a tr ND Hmm'). }
  split; [exact REP|]. split; [exact PB|].
  split.
  { unfold roots' in PO. destruct fx; [|exact PO].
    rewrite (forallb_map_ext _ (fun r => parents_ok tr r (-1))) in PO; [exact PO | intros; apply parents_ok_demote]. }
  split; [exact NDn|].
  split.
  { unfold roots' in UO. destruct fx; [|exact UO].
    rewrite (forallb_map_ext _ (unary_ok false tr)) in UO; [|intros; apply unary_ok_demote].
    rewrite forallb_forall in *. intros c Hc. apply unary_ok_weaken. apply UO. exact Hc. }
  split.
  { unfold roots' in TB. destruct fx; [rewrite forest_num_obs_demote in TB|]; exact TB. }
  intros PV. destruct fx.
  - destruct (mm_fixed_optimal_lemma K roots _ a tr HK Hobs HAnc Hmm') as [L X].
    split; [|split; [exact X|]].
    + intros a' ls Ha' C. apply L; [|exact C]. destruct anc; [cbn [option_map]; exact Ha' | exact I].
    + apply (mm_fixed_oldest_lemma K roots _ a tr HK Hobs HAnc ND Hmm').
  - destruct PV as [PV|PV]; [discriminate|].
    destruct (mm_optimal_lemma K roots _ a tr HK Hobs PV HAnc Hmm') as [L X].
    split; [|split; [exact X|]].
    + intros a' ls Ha' C. apply L; [|exact C]. destruct anc; [cbn [option_map]; exact Ha' | exact I].
    + apply (mm_oldest_lemma K roots _ a tr false HK Hobs HAnc ND (or_intror PV) Hmm').
Qed.
