(* C20 — Hartigan's invariant for the sets computed by tsk_tree_map_mutations (on the
   rose-tree layer), for polytomies, unary nodes, non-sample leaves, missing leaf samples
   and internal samples with known state. *)
From Coq Require Import List ZArith NArith Bool Lia Arith.
From TskVerif Require Import Base.Common C20.Model C20.Spec C20.SetProofs.
Import ListNotations.

Lemma tree_ind' (P : tree -> Prop) :
  (forall u o ch, Forall P ch -> P (Node u o ch)) -> forall t, P t.
Proof.
  intros H. fix IH 1. intros [u o ch]. apply H.
  induction ch; constructor; [apply IH | assumption].
Qed.

(* ---- unfolding lemmas ---- *)
Lemma consistent_node u o ch s ls :
  consistent (Node u o ch) (LNode s ls) =
  (match o with Obs g => N.eqb s g | _ => true end) && consistent_list ch ls.
Proof.
  assert (G : forall cs ls,
    (fix go (cs : list tree) (ls : list ltree) : bool :=
       match cs, ls with
       | [], [] => true
       | c :: cs', l' :: ls' => consistent c l' && go cs' ls'
       | _, _ => false
       end) cs ls = consistent_list cs ls).
  { induction cs as [|c cs IH]; intros [|l' ls']; simpl; auto; try (rewrite IH; reflexivity). }
  simpl. rewrite G. reflexivity.
Qed.

Lemma changes_node s ls :
  changes (LNode s ls) = sumf (fun l => neq_cost s (lroot l) + changes l)%nat ls.
Proof. reflexivity. Qed.

Lemma mcost_node K u o ch :
  mcost K (Node u o ch) =
  match o with
  | NotSample => (sumf (mcost K) ch + (length ch - max_count K (map (opt_set K) ch)))%nat
  | Obs g => (sumf (mcost K) ch + (length ch - count g (map (opt_set K) ch)))%nat
  | Missing => sumf (mcost K) ch
  end.
Proof. reflexivity. Qed.

Lemma opt_set_obs K u g ch : opt_set K (Node u (Obs g) ch) = set_bit 0 g.
Proof. reflexivity. Qed.
Lemma opt_set_missing K u ch : opt_set K (Node u Missing ch) = UINT64_MAX.
Proof. reflexivity. Qed.
Lemma opt_set_notsample K u ch : opt_set K (Node u NotSample ch) = hartigan_set K (map (opt_set K) ch).
Proof. reflexivity. Qed.

Lemma consistent_list_length cs ls : consistent_list cs ls = true -> length cs = length ls.
Proof.
  revert ls; induction cs as [|c cs IH]; intros [|l ls]; simpl; try discriminate; auto.
  intros H. apply andb_true_iff in H. f_equal. apply IH. tauto.
Qed.

Lemma filter_length_le {A} (f : A -> bool) l : (length (filter f l) <= length l)%nat.
Proof. induction l; simpl; [lia | destruct (f a); simpl; lia]. Qed.

Lemma count_map K a (ch : list tree) :
  count a (map (opt_set K) ch) = length (filter (fun c => N.testbit (opt_set K c) a) ch).
Proof.
  unfold count, bit_is_set. induction ch as [|c ch IH]; simpl; [reflexivity|].
  destruct (N.testbit (opt_set K c) a); simpl; rewrite IH; reflexivity.
Qed.

(* ---- memx against the counts ---- *)
Lemma fullb_spec K v : fullb K v = true <-> forall a, (a < N.of_nat K)%N -> N.testbit v a = true.
Proof.
  unfold fullb. rewrite forallb_forall. split; intros H a Ha; apply H; apply in_allele_list; exact Ha.
Qed.

Lemma memx_low K v s : (s < N.of_nat K)%N -> memx K v s = N.testbit v s.
Proof. intros H. unfold memx. apply N.ltb_lt in H. rewrite H. reflexivity. Qed.

Lemma memx_high K v s : (N.of_nat K <= s)%N -> memx K v s = fullb K v.
Proof. intros H. unfold memx. apply N.ltb_ge in H. rewrite H. reflexivity. Qed.

Definition cntx K (ch : list tree) (s : N) : nat :=
  length (filter (fun c => memx K (opt_set K c) s) ch).

Lemma cntx_low K ch s : (s < N.of_nat K)%N -> cntx K ch s = count s (map (opt_set K) ch).
Proof.
  intros H. rewrite count_map. unfold cntx. f_equal. apply filter_ext.
  intros c. apply memx_low. exact H.
Qed.

Lemma cntx_high_le K ch s a : (N.of_nat K <= s)%N -> (a < N.of_nat K)%N ->
  (cntx K ch s <= count a (map (opt_set K) ch))%nat.
Proof.
  intros Hs Ha. rewrite count_map. unfold cntx.
  induction ch as [|c ch IH]; simpl; [lia|].
  rewrite (memx_high K _ s Hs).
  destruct (fullb K (opt_set K c)) eqn:F.
  - apply fullb_spec with (a := a) in F; [|exact Ha]. rewrite F. simpl. lia.
  - destruct (N.testbit (opt_set K c) a); simpl; lia.
Qed.

Lemma cntx_le_max K ch s : (1 <= K)%nat -> (cntx K ch s <= max_count K (map (opt_set K) ch))%nat.
Proof.
  intros HK. destruct (N.lt_ge_cases s (N.of_nat K)) as [L|G].
  - rewrite cntx_low by exact L. apply max_count_ge. exact L.
  - destruct (max_count_attained K (map (opt_set K) ch) HK) as [a [Ha Ea]].
    rewrite <- Ea. apply cntx_high_le; assumption.
Qed.

(* a state that is not (extended-)member of the Hartigan set is in strictly fewer child sets *)
Lemma cntx_lt_max K ch s : (1 <= K)%nat ->
  memx K (hartigan_set K (map (opt_set K) ch)) s = false ->
  (cntx K ch s < max_count K (map (opt_set K) ch))%nat.
Proof.
  intros HK M. destruct (N.lt_ge_cases s (N.of_nat K)) as [L|G].
  - rewrite memx_low in M by exact L. rewrite hartigan_set_spec in M.
    apply N.ltb_lt in L. rewrite L in M. simpl in M. apply Nat.eqb_neq in M.
    apply N.ltb_lt in L. rewrite cntx_low by exact L.
    pose proof (max_count_ge K (map (opt_set K) ch) s L). lia.
  - rewrite memx_high in M by exact G.
    assert (E : exists b, (b < N.of_nat K)%N /\ N.testbit (hartigan_set K (map (opt_set K) ch)) b = false).
    { unfold fullb in M. destruct (forallb_forall (fun a => N.testbit (hartigan_set K (map (opt_set K) ch)) a) (allele_list K)) as [_ B].
      destruct (existsb (fun a => negb (N.testbit (hartigan_set K (map (opt_set K) ch)) a)) (allele_list K)) eqn:X.
      - apply existsb_exists in X. destruct X as [b [Hb Tb]]. exists b. split; [apply in_allele_list; exact Hb|].
        apply negb_true_iff in Tb. exact Tb.
      - exfalso. rewrite B in M; [discriminate|]. intros a Ha.
        destruct (N.testbit (hartigan_set K (map (opt_set K) ch)) a) eqn:T; [reflexivity|].
        assert (existsb (fun a => negb (N.testbit (hartigan_set K (map (opt_set K) ch)) a)) (allele_list K) = true).
        { apply existsb_exists. exists a. split; [exact Ha | rewrite T; reflexivity]. }
        congruence. }
    destruct E as [b [Hb Tb]]. rewrite hartigan_set_spec in Tb.
    apply N.ltb_lt in Hb. rewrite Hb in Tb. simpl in Tb. apply Nat.eqb_neq in Tb. apply N.ltb_lt in Hb.
    pose proof (cntx_high_le K ch s b G Hb).
    pose proof (max_count_ge K (map (opt_set K) ch) b Hb). lia.
Qed.

(* ---- the lower bound ---- *)
Definition LB (K : nat) (t : tree) : Prop :=
  forall l, consistent t l = true ->
    (mcost K t + (if memx K (opt_set K t) (lroot l) then 0 else 1) <= changes l)%nat.

Lemma LB_children K ch : Forall (LB K) ch ->
  forall ls s, consistent_list ch ls = true ->
    (sumf (mcost K) ch + (length ch - cntx K ch s)
     <= sumf (fun l => neq_cost s (lroot l) + changes l) ls)%nat.
Proof.
  unfold cntx. induction 1 as [|c ch Hc Hch IH]; intros [|l ls] s Hcons; simpl in Hcons; try discriminate.
  - simpl. lia.
  - apply andb_true_iff in Hcons as [C1 C2]. specialize (IH ls s C2). specialize (Hc l C1).
    simpl sumf. simpl filter. simpl length.
    pose proof (filter_length_le (fun c0 => memx K (opt_set K c0) s) ch) as FL.
    assert (NC : neq_cost s (lroot l) = (if N.eqb s (lroot l) then 0 else 1)%nat) by reflexivity.
    rewrite NC. clear NC. destruct (N.eqb_spec s (lroot l)) as [E|NE].
    + rewrite <- E in Hc. destruct (memx K (opt_set K c) s); simpl length; lia.
    + destruct (memx K (opt_set K c) s); destruct (memx K (opt_set K c) (lroot l)); simpl length; lia.
Qed.

Definition okK (K : nat) : Prop := (1 <= K <= 64)%nat.

Lemma memx_uint64_max K s : okK K -> memx K UINT64_MAX s = true.
Proof.
  intros [H1 H2]. unfold memx. destruct (s <? N.of_nat K)%N eqn:E.
  - rewrite testbit_uint64_max. apply N.ltb_lt in E. apply N.ltb_lt. lia.
  - apply fullb_spec. intros a Ha. rewrite testbit_uint64_max. apply N.ltb_lt. lia.
Qed.

Lemma no_internal_missing_node u o ch :
  no_internal_missing (Node u o ch) =
  (match o, ch with Missing, _ :: _ => false | _, _ => true end) && forallb no_internal_missing ch.
Proof. reflexivity. Qed.

Lemma obs_lt_node K u o ch :
  obs_lt K (Node u o ch) =
  (match o with Obs g => (g <? N.of_nat K)%N | _ => true end) && forallb (obs_lt K) ch.
Proof. reflexivity. Qed.

Lemma hartigan_lower K : okK K -> forall t,
  obs_lt K t = true -> no_internal_missing t = true -> LB K t.
Proof.
  intros HK. induction t as [u o ch IH] using tree_ind'. intros HO HM.
  rewrite obs_lt_node in HO. rewrite no_internal_missing_node in HM.
  apply andb_true_iff in HO as [HO1 HO2]. apply andb_true_iff in HM as [HM1 HM2].
  assert (IH' : Forall (LB K) ch).
  { rewrite Forall_forall in *. intros c Hc. apply IH; [exact Hc | |].
    - rewrite forallb_forall in HO2. apply HO2. exact Hc.
    - rewrite forallb_forall in HM2. apply HM2. exact Hc. }
  intros [s ls] Hcons. rewrite consistent_node in Hcons. apply andb_true_iff in Hcons as [C1 C2].
  rewrite changes_node. simpl lroot. rewrite mcost_node.
  pose proof (LB_children K ch IH' ls s C2) as B.
  destruct o as [| |g].
  - (* non-sample: Hartigan step *)
    rewrite opt_set_notsample.
    pose proof (cntx_le_max K ch s (proj1 HK)) as LE.
    pose proof (max_count_le_length K (map (opt_set K) ch)) as ML. rewrite map_length in ML.
    destruct (memx K (hartigan_set K (map (opt_set K) ch)) s) eqn:M.
    + lia.
    + pose proof (cntx_lt_max K ch s (proj1 HK) M). lia.
  - (* missing leaf *)
    destruct ch as [|c ch]; [|discriminate]. rewrite opt_set_missing. rewrite memx_uint64_max by exact HK.
    simpl. lia.
  - (* observed sample, possibly internal *)
    apply N.eqb_eq in C1. subst s. apply N.ltb_lt in HO1.
    rewrite opt_set_obs. rewrite memx_low by exact HO1. rewrite testbit_single, N.eqb_refl.
    rewrite cntx_low in B by exact HO1. lia.
Qed.
