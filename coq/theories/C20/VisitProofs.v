(* C20 — where the transitions of the preorder loop sit in the output list: for every node
   of the tree, either the incoming state is in its set and no returned transition is on
   it, or exactly one transition is, at a known index, with the incoming transition_parent.
   Painting, parent links and the unary-chain property are read off this description. *)
From Coq Require Import List ZArith NArith Bool Lia Arith.
From TskVerif Require Import Base.Common C20.Model C20.Spec C20.SetProofs C20.HartiganProofs C20.AssignProofs.
Import ListNotations.

Inductive visit (K : nat) (tr : list trans) : tree -> N -> Z -> Prop :=
| visit_hit : forall u o ch s tp,
    hitb K (Node u o ch) s = true ->
    (forall m, In m tr -> tr_node m <> u) ->
    Forall (fun c => visit K tr c s tp) ch ->
    visit K tr (Node u o ch) s tp
| visit_miss : forall u o ch s tp j,
    hitb K (Node u o ch) s = false ->
    nth_error tr j = Some (u, tp, next_state K (Node u o ch) s) ->
    (forall i m, nth_error tr i = Some m -> tr_node m = u -> i = j) ->
    Forall (fun c => visit K tr c (next_state K (Node u o ch) s) (Z.of_nat j)) ch ->
    visit K tr (Node u o ch) s tp.

Definition away (l : list trans) (I : list Z) : Prop := forall m, In m l -> ~ In (tr_node m) I.

Lemma away_app l1 l2 I : away l1 I -> away l2 I -> away (l1 ++ l2) I.
Proof. intros H1 H2 m Hm. apply in_app_or in Hm. destruct Hm; [apply H1 | apply H2]; assumption. Qed.

Lemma away_sub l I J : away l I -> (forall x, In x J -> In x I) -> away l J.
Proof. intros H S m Hm Hin. apply (H m Hm). apply S. exact Hin. Qed.

Lemma ids_node u o ch : ids (Node u o ch) = u :: forest_ids ch.
Proof. reflexivity. Qed.

Lemma forest_ids_cons c r : forest_ids (c :: r) = ids c ++ forest_ids r.
Proof. reflexivity. Qed.

(* transitions emitted in a subtree sit on nodes of that subtree *)
Lemma assign_nodes K t : forall s tp k m, In m (assign K t s tp k) -> In (tr_node m) (ids t).
Proof.
  induction t as [u o ch IH] using tree_ind'. intros s tp k m Hm.
  rewrite assign_eq in Hm. rewrite ids_node. apply in_app_or in Hm. destruct Hm as [Hm|Hm].
  - destruct (hitb K (Node u o ch) s); [contradiction|]. destruct Hm as [<-|[]]. left. reflexivity.
  - right.
    revert Hm. generalize (next_state K (Node u o ch) s) as s'.
    generalize (if hitb K (Node u o ch) s then tp else k) as tp'.
    generalize (if hitb K (Node u o ch) s then k else (k + 1)%Z) as k'.
    clear -IH. induction ch as [|c r IHr]; intros k' tp' s' Hm; [contradiction|].
    cbn [assign_children] in Hm. rewrite forest_ids_cons. apply in_or_app.
    inversion IH as [|? ? Hc Hr]; subst.
    apply in_app_or in Hm. destruct Hm as [Hm|Hm].
    + right. eapply IHr; eassumption.
    + left. eapply Hc; eassumption.
Qed.

Lemma assign_children_nodes K ch s tp k m :
  In m (assign_children K ch s tp k) -> In (tr_node m) (forest_ids ch).
Proof.
  revert k. induction ch as [|c r IH]; intros k Hm; [contradiction|].
  cbn [assign_children] in Hm. rewrite forest_ids_cons. apply in_or_app.
  apply in_app_or in Hm. destruct Hm as [Hm|Hm].
  - right. eapply IH; eassumption.
  - left. eapply assign_nodes; eassumption.
Qed.

Lemma NoDup_app_l {A} (l1 l2 : list A) : NoDup (l1 ++ l2) -> NoDup l1.
Proof. induction l1; simpl; intros H; [constructor|]. inversion H; subst. constructor; [|auto].
  intros X. apply H2. apply in_or_app. left. exact X. Qed.
Lemma NoDup_app_r {A} (l1 l2 : list A) : NoDup (l1 ++ l2) -> NoDup l2.
Proof. induction l1; simpl; intros H; [exact H|]. inversion H; subst. auto. Qed.
Lemma NoDup_app_disj {A} (l1 l2 : list A) x : NoDup (l1 ++ l2) -> In x l1 -> In x l2 -> False.
Proof. induction l1; simpl; intros H H1 H2; [contradiction|]. inversion H; subst. destruct H1 as [->|H1].
  - apply H4. apply in_or_app. right. exact H2.
  - eauto. Qed.

Lemma zlen_app {A} (l1 l2 : list A) : zlen (l1 ++ l2) = (zlen l1 + zlen l2)%Z.
Proof. unfold zlen. rewrite app_length. lia. Qed.

Lemma nth_error_mid {A} (pre : list A) x post : nth_error (pre ++ x :: post) (length pre) = Some x.
Proof. induction pre; simpl; auto. Qed.

(* an element of l that is the only one on node u *)
Lemma unique_index_app (pre post : list trans) (x : trans) u :
  (forall m, In m pre -> tr_node m <> u) -> (forall m, In m post -> tr_node m <> u) ->
  forall i m, nth_error (pre ++ x :: post) i = Some m -> tr_node m = u -> i = length pre.
Proof.
  intros Hpre Hpost i m Hn Hu.
  destruct (Nat.lt_trichotomy i (length pre)) as [L|[E|G]]; [|exact E|].
  - exfalso. rewrite nth_error_app1 in Hn by exact L. apply nth_error_In in Hn. exact (Hpre m Hn Hu).
  - exfalso. rewrite nth_error_app2 in Hn by lia.
    destruct (i - length pre)%nat as [|d] eqn:D; [lia|]. simpl in Hn.
    apply nth_error_In in Hn. exact (Hpost m Hn Hu).
Qed.

Section Visit.
Variable K : nat.

(* the tree part *)
Definition VisitP (t : tree) : Prop :=
  NoDup (ids t) -> forall s tp k pre post,
    away pre (ids t) -> away post (ids t) -> k = zlen pre ->
    visit K (pre ++ assign K t s tp k ++ post) t s tp.

Lemma visit_children ch : Forall VisitP ch -> NoDup (forest_ids ch) ->
  forall s tp k pre post, away pre (forest_ids ch) -> away post (forest_ids ch) -> k = zlen pre ->
  Forall (fun c => visit K (pre ++ assign_children K ch s tp k ++ post) c s tp) ch.
Proof.
  induction 1 as [|c r Hc Hr IH]; intros ND s tp k pre post Apre Apost Hk; [constructor|].
  rewrite forest_ids_cons in *. cbn [assign_children].
  set (ACr := assign_children K r s tp k).
  constructor.
  - (* c itself: pre ++ ACr is before it *)
    replace (pre ++ (ACr ++ assign K c s tp (k + zlen ACr)) ++ post)
      with ((pre ++ ACr) ++ assign K c s tp (k + zlen ACr) ++ post)
      by (rewrite <- !app_assoc; reflexivity).
    apply Hc.
    + eapply NoDup_app_l; eassumption.
    + apply away_app.
      * eapply away_sub; [exact Apre|]. intros x Hx. apply in_or_app. left. exact Hx.
      * intros m Hm Hin. apply assign_children_nodes in Hm.
        eapply NoDup_app_disj; eassumption.
    + eapply away_sub; [exact Apost|]. intros x Hx. apply in_or_app. left. exact Hx.
    + rewrite zlen_app. lia.
  - (* the earlier siblings: the output of c is after theirs *)
    replace (pre ++ (ACr ++ assign K c s tp (k + zlen ACr)) ++ post)
      with (pre ++ ACr ++ (assign K c s tp (k + zlen ACr) ++ post))
      by (rewrite <- !app_assoc; reflexivity).
    apply IH.
    + eapply NoDup_app_r; eassumption.
    + eapply away_sub; [exact Apre|]. intros x Hx. apply in_or_app. right. exact Hx.
    + apply away_app.
      * intros m Hm Hin. apply assign_nodes in Hm. eapply NoDup_app_disj; eassumption.
      * eapply away_sub; [exact Apost|]. intros x Hx. apply in_or_app. right. exact Hx.
    + exact Hk.
Qed.

Lemma visit_assign : forall t, VisitP t.
Proof.
  induction t as [u o ch IH] using tree_ind'. intros ND s tp k pre post Apre Apost Hk.
  rewrite ids_node in *. inversion ND as [|? ? Hu NDch]; subst.
  rewrite assign_eq.
  assert (PreU : forall m, In m pre -> tr_node m <> u).
  { intros m Hm E. apply (Apre m Hm). left. symmetry. exact E. }
  assert (PostU : forall m, In m post -> tr_node m <> u).
  { intros m Hm E. apply (Apost m Hm). left. symmetry. exact E. }
  assert (PreC : away pre (forest_ids ch)).
  { eapply away_sub; [exact Apre|]. intros x Hx. right. exact Hx. }
  assert (PostC : away post (forest_ids ch)).
  { eapply away_sub; [exact Apost|]. intros x Hx. right. exact Hx. }
  destruct (hitb K (Node u o ch) s) eqn:H.
  - assert (NS : next_state K (Node u o ch) s = s) by (unfold next_state; rewrite H; reflexivity).
    rewrite NS. cbn [app]. apply visit_hit; [exact H | |].
    + intros m Hm. apply in_app_or in Hm. destruct Hm as [Hm|Hm]; [apply PreU; exact Hm|].
      apply in_app_or in Hm. destruct Hm as [Hm|Hm]; [|apply PostU; exact Hm].
      apply assign_children_nodes in Hm. intros E. apply Hu. rewrite <- E. exact Hm.
    + apply visit_children; try assumption; try exact IH; reflexivity.
  - set (s' := next_state K (Node u o ch) s).
    set (AC := assign_children K ch s' (zlen pre) (zlen pre + 1)%Z).
    assert (ACU : forall m, In m (AC ++ post) -> tr_node m <> u).
    { intros m Hm. apply in_app_or in Hm. destruct Hm as [Hm|Hm]; [|apply PostU; exact Hm].
      apply assign_children_nodes in Hm. intros E. apply Hu. rewrite <- E. exact Hm. }
    assert (EQ1 : pre ++ ([(u, tp, s')] ++ AC) ++ post = pre ++ (u, tp, s') :: (AC ++ post))
      by (cbn [app]; rewrite <- ?app_assoc; reflexivity).
    assert (EQ2 : pre ++ (u, tp, s') :: (AC ++ post) = (pre ++ [(u, tp, s')]) ++ AC ++ post)
      by (rewrite <- app_assoc; reflexivity).
    change (visit K (pre ++ ([(u, tp, s')] ++ AC) ++ post) (Node u o ch) s tp).
    rewrite EQ1.
    apply visit_miss with (j := length pre); [exact H | apply nth_error_mid | |].
    + apply unique_index_app; assumption.
    + change (Forall (fun c => visit K (pre ++ (u, tp, s') :: (AC ++ post)) c s' (zlen pre)) ch).
      rewrite EQ2. unfold AC.
      apply visit_children; try assumption; try exact IH.
      * apply away_app; [exact PreC|]. intros m [<-|[]] Hin. apply Hu. exact Hin.
      * rewrite zlen_app. reflexivity.
Qed.

End Visit.
