(* C20 — L2 = L0 for the two loops of tsk_tree_map_mutations that carry the algorithm:
   the preorder loop with its explicit stack and transition_parent (trees.c 7319-7340)
   and the Hartigan loop over a postorder node list (7289-7309), both over the tree arrays,
   against the rose-tree definitions the property theorems are about.
   What stays tied differentially only (evaluated by [check_case] on every generated case):
   that tsk_tree_postorder_from yields the left-to-right postorder of the represented forest
   and that the initialisation loop 7252-7266 gives every node its initial set. *)
From Coq Require Import List ZArith NArith Bool Lia Arith.
From TskVerif Require Import Base.Common Gen.Generated C20.Model C20.Spec C20.SetProofs C20.HartiganProofs
  C20.AssignProofs C20.VisitProofs C20.StackProofs C20.TopProofs.
Import ListNotations.

(* ---- checked arrays ---- *)
Lemma get_nth {A} (l : list A) i x : get l i = Ok x <-> (0 <= i)%Z /\ nth_error l (Z.to_nat i) = Some x.
Proof.
  unfold get. destruct (i <? 0)%Z eqn:E.
  - split; [discriminate | intros [H _]; apply Z.ltb_lt in E; lia].
  - apply Z.ltb_ge in E. destruct (nth_error l (Z.to_nat i)); split; intros H.
    + inversion H; auto. + destruct H as [_ H]; inversion H; reflexivity.
    + discriminate. + destruct H; discriminate.
Qed.

Lemma set_nat_nth_same {A} (l : list A) : forall i a l', set_nat l i a = Some l' -> nth_error l' i = Some a.
Proof.
  induction l as [|h t IH]; intros [|i] a l' H; simpl in H; try discriminate.
  - inversion H; reflexivity.
  - destruct (set_nat t i a) eqn:E; [|discriminate]. inversion H; subst. simpl. eauto.
Qed.

Lemma set_nat_nth_other {A} (l : list A) : forall i j a l', set_nat l i a = Some l' -> i <> j ->
  nth_error l' j = nth_error l j.
Proof.
  induction l as [|h t IH]; intros [|i] j a l' H NE; simpl in H; try discriminate.
  - inversion H; subst. destruct j; [congruence | reflexivity].
  - destruct (set_nat t i a) eqn:E; [|discriminate]. inversion H; subst.
    destruct j; [reflexivity|]. simpl. eapply IH; [eassumption | congruence].
Qed.

Lemma set_nat_some {A} (l : list A) : forall i a, (i < length l)%nat -> exists l', set_nat l i a = Some l'.
Proof.
  induction l as [|h t IH]; intros [|i] a H; simpl in *; try lia; eauto.
  destruct (IH i a) as [l' E]; [lia|]. rewrite E. eauto.
Qed.

Lemma get_set_same {A} (l : list A) i a l' : set l i a = Ok l' -> get l' i = Ok a.
Proof.
  unfold set, get. destruct (i <? 0)%Z; [discriminate|].
  destruct (set_nat l (Z.to_nat i) a) eqn:E; [|discriminate]. intros H; inversion H; subst.
  rewrite (set_nat_nth_same _ _ _ _ E). reflexivity.
Qed.

Lemma get_set_other {A} (l : list A) i j a l' : set l i a = Ok l' -> i <> j -> get l' j = get l j.
Proof.
  unfold set, get. destruct (i <? 0)%Z eqn:Ei; [discriminate|].
  destruct (set_nat l (Z.to_nat i) a) eqn:E; [|discriminate]. intros H NE; inversion H; subst.
  destruct (j <? 0)%Z eqn:Ej; [reflexivity|].
  rewrite (set_nat_nth_other _ _ (Z.to_nat j) _ _ E); [reflexivity|].
  apply Z.ltb_ge in Ei. apply Z.ltb_ge in Ej. lia.
Qed.

Lemma set_ok {A} (l : list A) i a x : get l i = Ok x -> exists l', set l i a = Ok l'.
Proof.
  intros H. apply get_nth in H as [H0 H]. unfold set.
  assert (E : (i <? 0)%Z = false) by (apply Z.ltb_ge; lia). rewrite E.
  destruct (set_nat_some l (Z.to_nat i) a) as [l' E']; [apply nth_error_Some; congruence|].
  rewrite E'. eauto.
Qed.

(* ---- sibling chains ---- *)
Inductive sibs (next : list Z) : Z -> list Z -> Prop :=
| sibs_nil : sibs next (-1)%Z []
| sibs_cons : forall v n r, v <> (-1)%Z -> get next v = Ok n -> sibs next n r -> sibs next v (v :: r).

Lemma chain_sibs next : forall l v fuel, sibs next v l -> (length l < fuel)%nat -> chain fuel next v = Ok l.
Proof.
  induction l as [|x r IH]; intros v fuel H Hf; inversion H; subst; destruct fuel as [|f]; try (simpl in Hf; lia).
  - reflexivity.
  - cbn [chain]. unfold tsk_null.
    assert (E : (x =? -1)%Z = false) by (apply Z.eqb_neq; assumption). rewrite E.
    rewrite H4. cbn [bind]. rewrite (IH n f H5); [reflexivity | simpl in Hf; lia].
Qed.

(* ---- the arrays represent a rose tree (structure only) ---- *)
Inductive RepS (ta : tree_arrays) : tree -> Prop :=
| RepS_node : forall u o ch lc,
    get (ta_left_child ta) u = Ok lc ->
    sibs (ta_right_sib ta) lc (map tid ch) ->
    (length ch <= length (ta_right_sib ta))%nat ->
    Forall (RepS ta) ch ->
    RepS ta (Node u o ch).

(* optimal_set[] holds the set of every node of the tree *)
Inductive OsOk (K : nat) (os : list N) : tree -> Prop :=
| OsOk_node : forall u o ch,
    get os u = Ok (opt_set K (Node u o ch)) ->
    Forall (OsOk K os) ch ->
    OsOk K os (Node u o ch).

Definition abs_stack (st : list (tree * Z * N)) : list (Z * Z * N) :=
  map (fun e => (tid (fst (fst e)), snd (fst e), snd e)) st.

Lemma abs_stack_push ch (tp : Z) (s : N) rest :
  rev (map (fun v => (v, tp, s)) (map tid ch)) ++ abs_stack rest =
  abs_stack (rev (map (fun c => (c, tp, s)) ch) ++ rest).
Proof.
  unfold abs_stack. rewrite map_app, map_rev, !map_map. reflexivity.
Qed.

Lemma Forall_push {P : tree * Z * N -> Prop} ch (tp : Z) (s : N) rest :
  Forall (fun c => P (c, tp, s)) ch -> Forall P rest ->
  Forall P (rev (map (fun c => (c, tp, s)) ch) ++ rest).
Proof.
  intros H1 H2. apply Forall_app. split; [|exact H2].
  apply Forall_rev. apply Forall_map. exact H1.
Qed.

Section Preorder.
Variable K : nat.
Variable ta : tree_arrays.
Variable os : list N.

(* the preorder loop over the arrays does what the preorder loop over rose trees does *)
Lemma preorder_loop_sim : forall fuel st k acc,
  Forall (fun e => RepS ta (fst (fst e))) st ->
  Forall (fun e => OsOk K os (fst (fst e))) st ->
  stack_nonzero K st = true -> (stack_size st < fuel)%nat ->
  preorder_loop fuel ta os (abs_stack st) k acc = Ok (rev acc ++ run_stack K st k).
Proof.
  induction fuel as [|f IH]; intros st k acc HR HO NZ Hf; [lia|].
  destruct st as [|[[t tp] s] rest].
  - cbn [abs_stack map preorder_loop run_stack]. rewrite app_nil_r. reflexivity.
  - destruct t as [u o ch].
    inversion HR as [|? ? HRt HRr]; subst. inversion HO as [|? ? HOt HOr]; subst.
    cbn [fst snd] in HRt, HOt.
    inversion HRt as [? ? ? lc Hlc Hsibs Hwide HRc]; subst.
    inversion HOt as [? ? ? Hos HOc]; subst.
    unfold stack_nonzero in NZ. cbn [forallb fst] in NZ. apply andb_true_iff in NZ as [NZt NZr].
    pose proof NZt as NZt0. rewrite sets_nonzero_node in NZt. apply andb_true_iff in NZt as [NZu NZc].
    apply negb_true_iff in NZu. apply N.eqb_neq in NZu.
    unfold stack_size in Hf. cbn [fold_right fst] in Hf. rewrite tsize_node in Hf. fold (stack_size rest) in Hf.
    cbn [abs_stack map fst snd tid preorder_loop]. rewrite Hos. cbn [bind]. rewrite Hlc. cbn [bind].
    rewrite (chain_sibs _ _ _ _ Hsibs) by (rewrite map_length; lia). cbn [bind].
    cbn [run_stack]. rewrite assign_eq. unfold hitb, next_state, hitb.
    fold (abs_stack rest).
    destruct (bit_is_set (opt_set K (Node u o ch)) s) eqn:H.
    + rewrite abs_stack_push. rewrite IH.
      * cbn [app]. rewrite run_stack_push. reflexivity.
      * apply Forall_push; [|exact HRr]. cbn [fst]. exact HRc.
      * apply Forall_push; [|exact HOr]. cbn [fst]. exact HOc.
      * rewrite stack_nonzero_push. rewrite NZc. exact NZr.
      * rewrite stack_size_push. lia.
    + rewrite (get_smallest_some _ NZu). rewrite abs_stack_push. rewrite IH.
      * cbn [rev]. rewrite run_stack_push. rewrite <- !app_assoc. cbn [app].
        assert (ZL : forall (m : trans) X, (k + 1 + zlen X = k + zlen (m :: X))%Z)
          by (intros; unfold zlen; simpl length; lia).
        rewrite (ZL (u, tp, smallest (opt_set K (Node u o ch)))). reflexivity.
      * apply Forall_push; [|exact HRr]. cbn [fst]. exact HRc.
      * apply Forall_push; [|exact HOr]. cbn [fst]. exact HOc.
      * rewrite stack_nonzero_push. rewrite NZc. exact NZr.
      * rewrite stack_size_push. lia.
Qed.

End Preorder.

(* the whole preorder phase, from the virtual root (first iteration: the ancestral state is
   in the virtual root's set in both modes, 7310-7314) *)
Lemma c_preorder_eq_rose_lemma K ta os roots a Sv lc :
  get (ta_left_child ta) (zlen (ta_flags ta)) = Ok lc ->
  sibs (ta_right_sib ta) lc (map tid roots) ->
  (length roots <= length (ta_right_sib ta))%nat ->
  Forall (RepS ta) roots -> Forall (OsOk K os) roots ->
  get os (zlen (ta_flags ta)) = Ok Sv -> bit_is_set Sv a = true ->
  forallb (sets_nonzero K) roots = true ->
  (fsize roots < length (ta_left_child ta))%nat ->
  preorder_loop (S (length (ta_left_child ta))) ta os [(zlen (ta_flags ta), tsk_null, a)] 0 [] =
  Ok (assign_children K roots a (-1) 0).
Proof.
  intros Hlc Hsibs Hwide HR HO HSv Hbit NZ Hsize.
  cbn [preorder_loop]. rewrite HSv. cbn [bind]. rewrite Hlc. cbn [bind].
  rewrite (chain_sibs _ _ _ _ Hsibs) by (rewrite map_length; lia). cbn [bind]. rewrite Hbit.
  change (@nil (Z * Z * N)) with (abs_stack []) at 1. unfold tsk_null.
  rewrite abs_stack_push. rewrite (preorder_loop_sim K ta os).
  - cbn [rev app]. rewrite run_stack_push. cbn [run_stack]. rewrite app_nil_r. reflexivity.
  - apply Forall_push; [|constructor]. cbn [fst]. exact HR.
  - apply Forall_push; [|constructor]. cbn [fst]. exact HO.
  - rewrite stack_nonzero_push. rewrite NZ. reflexivity.
  - rewrite stack_size_push. unfold stack_size. simpl. lia.
Qed.

(* ------------------------------------------------------------------------- *)
(* the Hartigan loop                                                          *)
(* ------------------------------------------------------------------------- *)
(* structure + flags *)
Inductive RepF (ta : tree_arrays) : tree -> Prop :=
| RepF_node : forall u o ch lc f,
    get (ta_left_child ta) u = Ok lc ->
    sibs (ta_right_sib ta) lc (map tid ch) ->
    (length ch <= length (ta_right_sib ta))%nat ->
    get (ta_flags ta) u = Ok f ->
    Z.odd (f / c20_tsk_node_is_sample) = (match o with NotSample => false | _ => true end) ->
    Forall (RepF ta) ch ->
    RepF ta (Node u o ch).

(* the tree whose sets the Hartigan loop computes: with the repaired handling (fx = true) a
   missing sample is treated as a non-sample node *)
Definition lab (fx : bool) (o : obs) : obs :=
  match o with Missing => if fx then NotSample else Missing | _ => o end.
Fixpoint relabel (fx : bool) (t : tree) : tree :=
  match t with Node u o ch => Node u (lab fx o) (map (relabel fx) ch) end.

Lemma relabel_node fx u o ch : relabel fx (Node u o ch) = Node u (lab fx o) (map (relabel fx) ch).
Proof. reflexivity. Qed.
Lemma tid_relabel fx t : tid (relabel fx t) = tid t.
Proof. destruct t. reflexivity. Qed.
Lemma map_tid_relabel fx ch : map tid (map (relabel fx) ch) = map tid ch.
Proof. rewrite map_map. apply map_ext. intros. apply tid_relabel. Qed.
Lemma relabel_false t : relabel false t = t.
Proof.
  induction t as [u o ch IH] using tree_ind'. rewrite relabel_node. f_equal; [destruct o; reflexivity|].
  induction IH as [|c r Hc Hr IHr]; simpl; [reflexivity|]. rewrite Hc, IHr. reflexivity.
Qed.
Lemma relabel_true t : relabel true t = demote t.
Proof.
  induction t as [u o ch IH] using tree_ind'. rewrite relabel_node. cbn [demote].
  assert (E : map (relabel true) ch = map demote ch).
  { induction IH as [|c r Hc Hr IHr]; simpl; [reflexivity|]. rewrite Hc, IHr. reflexivity. }
  rewrite E. destruct o; reflexivity.
Qed.
Lemma ids_relabel fx t : ids (relabel fx t) = ids t.
Proof.
  induction t as [u o ch IH] using tree_ind'. rewrite relabel_node, !ids_node. f_equal.
  unfold forest_ids. induction IH as [|c r Hc Hr IHr]; simpl; [reflexivity|]. rewrite Hc, IHr. reflexivity.
Qed.
Lemma forest_ids_relabel fx cs : forest_ids (map (relabel fx) cs) = forest_ids cs.
Proof. unfold forest_ids. induction cs as [|c r IH]; simpl; [reflexivity|]. rewrite ids_relabel, IH. reflexivity. Qed.
Lemma tsize_relabel fx t : tsize (relabel fx t) = tsize t.
Proof.
  induction t as [u o ch IH] using tree_ind'. rewrite relabel_node. cbn [tsize]. f_equal.
  induction IH as [|c r Hc Hr IHr]; simpl; [reflexivity|]. rewrite Hc, IHr. reflexivity.
Qed.
Lemma fsize_relabel fx cs : fsize (map (relabel fx) cs) = fsize cs.
Proof. unfold fsize. induction cs as [|c r IH]; simpl; [reflexivity|]. rewrite tsize_relabel, IH. reflexivity. Qed.

(* optimal_set[] after the initialisation loop 7252-7266 *)
Inductive InitOk (fx : bool) (os : list N) : tree -> Prop :=
| InitOk_node : forall u o ch,
    get os u = Ok (init_set fx o) -> Forall (InitOk fx os) ch -> InitOk fx os (Node u o ch).

Lemma RepF_RepS ta t : RepF ta t -> RepS ta t.
Proof.
  induction t as [u o ch IH] using tree_ind'. intros H. inversion H; subst.
  econstructor; try eassumption. rewrite Forall_forall in *. intros c Hc. apply IH; auto.
Qed.

Lemma RepS_relabel fx ta t : RepS ta t -> RepS ta (relabel fx t).
Proof.
  induction t as [u o ch IH] using tree_ind'. intros H. inversion H; subst. rewrite relabel_node.
  econstructor; [eassumption | rewrite map_tid_relabel; eassumption | rewrite map_length; assumption |].
  apply Forall_map. rewrite Forall_forall in *. intros c Hc. apply IH; auto.
Qed.

Lemma InitOk_ext fx os os' t : (forall v, In v (ids t) -> get os' v = get os v) -> InitOk fx os t -> InitOk fx os' t.
Proof.
  induction t as [u o ch IH] using tree_ind'. intros E H. inversion H; subst. constructor.
  - rewrite E; [assumption | left; reflexivity].
  - rewrite Forall_forall in *. intros c Hc. apply IH; [exact Hc | | auto].
    intros v Hv. apply E. rewrite ids_node. right. unfold forest_ids. apply in_flat_map. eauto.
Qed.

Lemma OsOk_ext K os os' t : (forall v, In v (ids t) -> get os' v = get os v) -> OsOk K os t -> OsOk K os' t.
Proof.
  induction t as [u o ch IH] using tree_ind'. intros E H. inversion H; subst. constructor.
  - rewrite E; [assumption | left; reflexivity].
  - rewrite Forall_forall in *. intros c Hc. apply IH; [exact Hc | | auto].
    intros v Hv. apply E. rewrite ids_node. right. unfold forest_ids. apply in_flat_map. eauto.
Qed.

(* one iteration of the loop 7289-7309 *)
Definition hartigan_step (fx : bool) (ta : tree_arrays) (K : nat) (u : Z) (os : list N) : res (list N) :=
  do lc <- get (ta_left_child ta) u;
  do cs <- chain (S (length (ta_right_sib ta))) (ta_right_sib ta) lc;
  do sets <- fold_right (fun v acc => do l <- acc; do s <- get os v; Ok (s :: l)) (Ok []) cs;
  do is_sample <- (if (u =? zlen (ta_flags ta))%Z then Ok false else
                   do f <- get (ta_flags ta) u; Ok (Z.odd (f / c20_tsk_node_is_sample)));
  do cur <- get os u;
  if negb is_sample || (fx && N.eqb cur 0) then set os u (N.lor cur (hartigan_set K sets)) else Ok os.

Lemma hartigan_loop_cons fx ta K u nodes os :
  hartigan_loop fx ta K (u :: nodes) os = do os' <- hartigan_step fx ta K u os; hartigan_loop fx ta K nodes os'.
Proof.
  cbn [hartigan_loop]. unfold hartigan_step.
  destruct (get (ta_left_child ta) u); try reflexivity. cbn [bind].
  destruct (chain _ _ _); try reflexivity. cbn [bind].
  destruct (fold_right _ _ _); try reflexivity. cbn [bind].
  destruct (if (u =? zlen (ta_flags ta))%Z then _ else _); try reflexivity. cbn [bind].
  destruct (get os u); try reflexivity. cbn [bind].
  destruct (negb a2 || (fx && N.eqb a3 0)); reflexivity.
Qed.

Lemma hartigan_loop_app fx ta K l1 : forall l2 os,
  hartigan_loop fx ta K (l1 ++ l2) os = do os' <- hartigan_loop fx ta K l1 os; hartigan_loop fx ta K l2 os'.
Proof.
  induction l1 as [|u r IH]; intros l2 os; [reflexivity|].
  cbn [app]. rewrite !hartigan_loop_cons. destruct (hartigan_step fx ta K u os); try reflexivity.
  cbn [bind]. apply IH.
Qed.

Lemma child_sets K os ch : Forall (OsOk K os) ch ->
  fold_right (fun v acc => do l <- acc; do s <- get os v; Ok (s :: l)) (Ok []) (map tid ch) =
  Ok (map (opt_set K) ch).
Proof.
  induction 1 as [|c r Hc Hr IH]; [reflexivity|]. cbn [map fold_right]. rewrite IH. cbn [bind].
  inversion Hc; subst. cbn [tid]. rewrite H. reflexivity.
Qed.

Lemma RepF_id_lt ta t : RepF ta t -> (tid t <> zlen (ta_flags ta)).
Proof.
  intros H. inversion H; subst. cbn [tid]. intros E.
  assert (X : exists a, get (ta_flags ta) u = Ok a) by eauto. apply get_ok_iff in X. lia.
Qed.

Lemma set_bit_nonzero g : set_bit 0 g <> 0%N.
Proof. apply (testbit_nonzero _ g). rewrite testbit_single. apply N.eqb_refl. Qed.

Section Hartigan.
Variable K : nat.
Variable ta : tree_arrays.
Variable fx : bool.

Definition HartP (t : tree) : Prop :=
  RepF ta t -> NoDup (ids t) -> forall os, InitOk fx os t ->
  exists os', hartigan_loop fx ta K (post_ids t) os = Ok os' /\ OsOk K os' (relabel fx t) /\
              (forall v, ~ In v (ids t) -> get os' v = get os v).

Lemma hartigan_forest ch : Forall HartP ch -> Forall (RepF ta) ch -> NoDup (forest_ids ch) ->
  forall os, Forall (InitOk fx os) ch ->
  exists os', hartigan_loop fx ta K (flat_map post_ids ch) os = Ok os' /\
              Forall (OsOk K os') (map (relabel fx) ch) /\
              (forall v, ~ In v (forest_ids ch) -> get os' v = get os v).
Proof.
  induction 1 as [|c r Hc Hr IH]; intros HR ND os HI.
  - exists os. split; [reflexivity|]. split; [constructor | auto].
  - inversion HR as [|? ? HRc HRr]; subst. inversion HI as [|? ? HIc HIr]; subst.
    rewrite forest_ids_cons in ND. cbn [flat_map]. rewrite hartigan_loop_app.
    destruct (Hc HRc (NoDup_app_l _ _ ND) os HIc) as [os1 [E1 [O1 U1]]]. rewrite E1. cbn [bind].
    assert (HIr1 : Forall (InitOk fx os1) r).
    { rewrite Forall_forall in *. intros x Hx. apply (InitOk_ext fx os); [|auto].
      intros v Hv. apply U1. intros Hin. eapply NoDup_app_disj; [exact ND | exact Hin |].
      unfold forest_ids. apply in_flat_map. eauto. }
    destruct (IH HRr (NoDup_app_r _ _ ND) os1 HIr1) as [os2 [E2 [O2 U2]]].
    exists os2. split; [exact E2|]. split.
    + cbn [map]. constructor; [|exact O2]. apply (OsOk_ext K os1); [|exact O1].
      intros v Hv. rewrite ids_relabel in Hv. apply U2. intros Hin.
      eapply NoDup_app_disj; [exact ND | exact Hv | exact Hin].
    + intros v Hv. rewrite forest_ids_cons in Hv. rewrite U2, U1; [reflexivity | |];
        intros X; apply Hv; apply in_or_app; [left | right]; exact X.
Qed.

Lemma hartigan_tree : forall t, HartP t.
Proof.
  induction t as [u o ch IH] using tree_ind'. intros HR ND os HI.
  inversion HR as [? ? ? lc f Hlc Hsibs Hwide Hf Hodd HRc]; subst.
  inversion HI as [? ? ? Hinit HIc]; subst.
  rewrite ids_node in ND. inversion ND as [|? ? Hu NDc]; subst.
  destruct (hartigan_forest ch IH HRc NDc os HIc) as [os2 [E2 [O2 U2]]].
  cbn [post_ids]. rewrite hartigan_loop_app, E2. cbn [bind]. rewrite hartigan_loop_cons.
  cbn [hartigan_loop].
  assert (Hu2 : get os2 u = Ok (init_set fx o)) by (rewrite U2; assumption).
  assert (NEu : (u =? zlen (ta_flags ta))%Z = false).
  { apply Z.eqb_neq. apply (RepF_id_lt ta (Node u o ch) HR). }
  unfold hartigan_step. rewrite Hlc. cbn [bind].
  rewrite (chain_sibs _ _ _ _ Hsibs) by (rewrite map_length; lia). cbn [bind].
  rewrite <- (map_tid_relabel fx ch). rewrite (child_sets K os2 _ O2). cbn [bind].
  rewrite NEu, Hf. cbn [bind]. rewrite Hodd, Hu2. cbn [bind]. rewrite relabel_node.
  (* the branch with the Hartigan step *)
  assert (STEP : forall cur, get os2 u = Ok cur -> cur = 0%N ->
            exists os', set os2 u (N.lor cur (hartigan_set K (map (opt_set K) (map (relabel fx) ch)))) = Ok os' /\
              OsOk K os' (Node u NotSample (map (relabel fx) ch)) /\
              (forall v, ~ In v (u :: forest_ids ch) -> get os' v = get os v)).
  { intros cur Hcur ->. destruct (set_ok os2 u (N.lor 0 (hartigan_set K (map (opt_set K) (map (relabel fx) ch)))) _ Hcur) as [os3 E3].
    exists os3. split; [exact E3|]. split.
    - constructor.
      + rewrite (get_set_same _ _ _ _ E3). rewrite N.lor_0_l. reflexivity.
      + rewrite Forall_forall in *. intros c Hc. apply (OsOk_ext K os2); [|auto].
        intros v Hv. apply (get_set_other _ _ _ _ _ E3). intros X; subst v. apply Hu.
        apply in_map_iff in Hc. destruct Hc as [c0 [Ec0 Hc0]]. subst c. rewrite ids_relabel in Hv.
        unfold forest_ids. apply in_flat_map. eauto.
    - intros v Hv. rewrite (get_set_other _ _ _ _ _ E3) by (intros X; apply Hv; left; exact X).
      apply U2. intros X. apply Hv. right. exact X. }
  assert (SKIP : get os2 u = Ok (opt_set K (Node u (lab fx o) (map (relabel fx) ch))) ->
            exists os', Ok os2 = Ok os' /\ OsOk K os' (Node u (lab fx o) (map (relabel fx) ch)) /\
              (forall v, ~ In v (u :: forest_ids ch) -> get os' v = get os v)).
  { intros Hg. exists os2. split; [reflexivity|]. split; [constructor; assumption|].
    intros v Hv. apply U2. intros X. apply Hv. right. exact X. }
  rewrite ids_node.
  destruct o as [| |g]; cbn [negb orb init_set lab] in *.
  - destruct (STEP _ Hu2 eq_refl) as [os' [E' R]]. rewrite E'. exists os'. split; [reflexivity | exact R].
  - destruct fx; cbn [andb].
    + rewrite N.eqb_refl. destruct (STEP _ Hu2 eq_refl) as [os' [E' R]]. rewrite E'. exists os'. split; [reflexivity | exact R].
    + apply SKIP. exact Hu2.
  - assert (NZ : N.eqb (set_bit 0 g) 0 = false) by (apply N.eqb_neq; apply set_bit_nonzero).
    rewrite NZ, andb_false_r. apply SKIP. exact Hu2.
Qed.

(* the whole Hartigan phase on the postorder of the forest followed by the virtual root *)
Lemma c_hartigan_eq_rose_lemma roots os lc :
  get (ta_left_child ta) (zlen (ta_flags ta)) = Ok lc ->
  sibs (ta_right_sib ta) lc (map tid roots) ->
  (length roots <= length (ta_right_sib ta))%nat ->
  Forall (RepF ta) roots -> NoDup (forest_ids roots) ->
  Forall (InitOk fx os) roots -> get os (zlen (ta_flags ta)) = Ok 0%N ->
  exists os', hartigan_loop fx ta K (flat_map post_ids roots ++ [zlen (ta_flags ta)]) os = Ok os' /\
              Forall (OsOk K os') (map (relabel fx) roots) /\
              get os' (zlen (ta_flags ta)) = Ok (hartigan_set K (map (opt_set K) (map (relabel fx) roots))).
Proof.
  intros Hlc Hsibs Hwide HR ND HI HN.
  assert (P : Forall HartP roots) by (apply Forall_forall; intros; apply hartigan_tree).
  destruct (hartigan_forest roots P HR ND os HI) as [os2 [E2 [O2 U2]]].
  rewrite hartigan_loop_app, E2. cbn [bind]. rewrite hartigan_loop_cons. cbn [hartigan_loop].
  assert (NotIn : ~ In (zlen (ta_flags ta)) (forest_ids roots)).
  { intros X. unfold forest_ids in X. apply in_flat_map in X. destruct X as [r [Hr Hin]].
    rewrite Forall_forall in HR. specialize (HR r Hr).
    clear -HR Hin. revert Hin. induction r as [u o ch IH] using tree_ind'. intros Hin.
    rewrite ids_node in Hin. destruct Hin as [E|Hin].
    - apply (RepF_id_lt ta _ HR). cbn [tid]. exact E.
    - inversion HR; subst. unfold forest_ids in Hin. apply in_flat_map in Hin. destruct Hin as [c [Hc Hin]].
      rewrite Forall_forall in *. eapply IH; eauto. }
  assert (HN2 : get os2 (zlen (ta_flags ta)) = Ok 0%N) by (rewrite U2; assumption).
  unfold hartigan_step. rewrite Hlc. cbn [bind].
  rewrite (chain_sibs _ _ _ _ Hsibs) by (rewrite map_length; lia). cbn [bind].
  rewrite <- (map_tid_relabel fx roots). rewrite (child_sets K os2 _ O2). cbn [bind].
  rewrite Z.eqb_refl. cbn [bind]. rewrite HN2. cbn [bind negb orb].
  destruct (set_ok os2 (zlen (ta_flags ta)) (N.lor 0 (hartigan_set K (map (opt_set K) (map (relabel fx) roots)))) _ HN2) as [os3 E3].
  rewrite E3. cbn [bind]. exists os3. split; [reflexivity|]. split.
  - rewrite Forall_forall in *. intros c Hc. apply (OsOk_ext K os2); [|auto].
    intros v Hv. apply (get_set_other _ _ _ _ _ E3). intros X; subst v. apply NotIn.
    apply in_map_iff in Hc. destruct Hc as [c0 [Ec0 Hc0]]. subst c. rewrite ids_relabel in Hv.
    unfold forest_ids. apply in_flat_map. eauto.
  - rewrite (get_set_same _ _ _ _ E3). rewrite N.lor_0_l. reflexivity.
Qed.

End Hartigan.

(* ------------------------------------------------------------------------- *)
(* [rose_of_arrays] succeeds only on arrays that represent the forest it returns *)
(* ------------------------------------------------------------------------- *)
Lemma sibs_det next : forall v l1 l2, sibs next v l1 -> sibs next v l2 -> l1 = l2.
Proof.
  intros v l1. revert v. induction l1 as [|x r IH]; intros v l2 H1 H2; inversion H1; subst; inversion H2; subst;
    try reflexivity; try congruence.
  f_equal. assert (n = n0) by congruence. subst. eapply IH; eassumption.
Qed.

Lemma sibs_suffix next : forall l v x, sibs next v l -> In x l ->
  exists pre l', l = pre ++ l' /\ sibs next x l' /\ l' <> [].
Proof.
  induction l as [|y r IH]; intros v x H Hin; [contradiction|]. inversion H; subst.
  destruct Hin as [->|Hin].
  - exists [], (x :: r). repeat split; [exact H | discriminate].
  - destruct (IH n x H5 Hin) as [pre [l' [E [S NE]]]]. exists (y :: pre), l'. subst r. repeat split; assumption.
Qed.

Lemma sibs_nodup next : forall l v, sibs next v l -> NoDup l.
Proof.
  induction l as [|y r IH]; intros v H; [constructor|]. inversion H; subst. constructor; [|eapply IH; eassumption].
  intros Hin. destruct (sibs_suffix next r n y H5 Hin) as [pre [l' [E [S NE]]]].
  pose proof (sibs_det next y _ _ H S) as D. subst r.
  assert (length (y :: pre ++ l') = length l') by (rewrite D; reflexivity).
  simpl in H0. rewrite app_length in H0. lia.
Qed.

Lemma sibs_valid next : forall l v, sibs next v l -> forall x, In x l -> (0 <= x < zlen next)%Z.
Proof.
  induction l as [|y r IH]; intros v H x Hin; [contradiction|]. inversion H; subst.
  destruct Hin as [->|Hin]; [|eapply IH; eassumption].
  apply get_ok_iff. eauto.
Qed.

Lemma sibs_width next l v : sibs next v l -> (length l <= length next)%nat.
Proof.
  intros H. pose proof (sibs_nodup next l v H) as ND. pose proof (sibs_valid next l v H) as V.
  assert (I : incl l (map Z.of_nat (seq 0 (length next)))).
  { intros x Hx. specialize (V x Hx). unfold zlen in V. apply in_map_iff. exists (Z.to_nat x).
    split; [lia | apply in_seq; lia]. }
  pose proof (NoDup_incl_length ND I) as L. rewrite map_length, seq_length in L. exact L.
Qed.

Lemma obs_of_flags ta g u o : obs_of ta g u = Ok o ->
  exists f, get (ta_flags ta) u = Ok f /\
            Z.odd (f / c20_tsk_node_is_sample) = (match o with NotSample => false | _ => true end).
Proof.
  unfold obs_of. destruct (get (ta_flags ta) u) as [f| | |]; cbn [bind]; try discriminate.
  destruct (Z.odd (f / c20_tsk_node_is_sample)) eqn:E.
  - destruct (index_of u (ta_samples ta) 0); [|discriminate]. destruct (nth_error g n); [|discriminate].
    intros H. exists f. split; [reflexivity|]. rewrite E.
    destruct (z =? c20_tsk_missing_data)%Z; inversion H; reflexivity.
  - intros H. exists f. split; [reflexivity|]. rewrite E. inversion H; reflexivity.
Qed.

Lemma rose_chain_rep ta g : forall fuel v ts, rose_chain fuel ta g v = Ok ts ->
  sibs (ta_right_sib ta) v (map tid ts) /\ Forall (RepF ta) ts.
Proof.
  induction fuel as [|f IH]; intros v ts H; [discriminate|]. cbn [rose_chain] in H. unfold tsk_null in H.
  destruct (v =? -1)%Z eqn:Ev.
  - inversion H; subst. apply Z.eqb_eq in Ev. subst. split; constructor.
  - apply Z.eqb_neq in Ev.
    destruct (obs_of ta g v) as [o| | |] eqn:Eo; cbn [bind] in H; try discriminate.
    destruct (get (ta_left_child ta) v) as [lc| | |] eqn:Elc; cbn [bind] in H; try discriminate.
    destruct (rose_chain f ta g lc) as [ch| | |] eqn:Ech; cbn [bind] in H; try discriminate.
    destruct (get (ta_right_sib ta) v) as [rs| | |] eqn:Ers; cbn [bind] in H; try discriminate.
    destruct (rose_chain f ta g rs) as [rest| | |] eqn:Erest; cbn [bind] in H; try discriminate.
    inversion H; subst. destruct (IH lc ch Ech) as [S1 R1]. destruct (IH rs rest Erest) as [S2 R2].
    destruct (obs_of_flags ta g v o Eo) as [fl [Hf Hodd]].
    split.
    + cbn [map tid]. econstructor; eassumption.
    + constructor; [|exact R2]. econstructor; try eassumption.
      pose proof (sibs_width _ _ _ S1) as W. rewrite map_length in W. exact W.
Qed.

Lemma rose_of_arrays_rep ta g roots : rose_of_arrays ta g = Ok roots ->
  exists lc, get (ta_left_child ta) (zlen (ta_flags ta)) = Ok lc /\
             sibs (ta_right_sib ta) lc (map tid roots) /\
             (length roots <= length (ta_right_sib ta))%nat /\
             Forall (RepF ta) roots.
Proof.
  unfold rose_of_arrays. destruct (get (ta_left_child ta) (zlen (ta_flags ta))) as [lc| | |]; cbn [bind]; try discriminate.
  intros H. apply rose_chain_rep in H as [S R]. exists lc. repeat split; try assumption.
  pose proof (sibs_width _ _ _ S) as W. rewrite map_length in W. exact W.
Qed.

(* ------------------------------------------------------------------------- *)
(* L2 = L0, assembled                                                          *)
(* ------------------------------------------------------------------------- *)
Lemma init_okb_InitOk fx os t : init_okb fx os t = true -> InitOk fx os t.
Proof.
  induction t as [u o ch IH] using tree_ind'. cbn [init_okb]. intros H.
  apply andb_true_iff in H as [H1 H2]. constructor.
  - destruct (get os u) as [x| | |]; try discriminate. apply N.eqb_eq in H1. subst. reflexivity.
  - rewrite forallb_forall in H2. rewrite Forall_forall in *. intros c Hc. apply IH; auto.
Qed.

Lemma RepF_not_root ta roots : Forall (RepF ta) roots -> ~ In (zlen (ta_flags ta)) (forest_ids roots).
Proof.
  intros HR X. unfold forest_ids in X. apply in_flat_map in X. destruct X as [r [Hr Hin]].
  rewrite Forall_forall in HR. specialize (HR r Hr).
  clear -HR Hin. revert Hin. induction r as [u o ch IH] using tree_ind'. intros Hin.
  rewrite ids_node in Hin. destruct Hin as [E|Hin].
  - apply (RepF_id_lt ta _ HR). cbn [tid]. exact E.
  - inversion HR; subst. unfold forest_ids in Hin. apply in_flat_map in Hin. destruct Hin as [c [Hc Hin]].
    rewrite Forall_forall in *. eapply IH; eauto.
Qed.

(* The C function over the arrays returns what the rose-tree model returns on the forest
   the arrays represent — given the two facts that are only evaluated, not proved:
   the initialisation loop gives every node its initial set ([init_okb], and 0 at the
   virtual root) and tsk_tree_postorder_from yields the left-to-right postorder. *)
Lemma c_map_mutations_core fx ta g anc os0 na0 nm roots :
  init_sets fx (ta_samples ta) g (repeat 0%N (S (length (ta_flags ta)))) 0 0 = Ok (os0, na0, nm) ->
  nm <> 0%Z ->
  match anc with Some a => (0 <= a < c20_hartigan_max_alleles)%Z | None => True end ->
  rose_of_arrays ta g = Ok roots ->
  Forall (InitOk fx os0) roots ->
  get os0 (zlen (ta_flags ta)) = Ok 0%N ->
  postorder_from_virtual_root ta = Ok (flat_map post_ids roots ++ [zlen (ta_flags ta)]) ->
  NoDup (forest_ids roots) ->
  (fsize roots < length (ta_left_child ta))%nat ->
  forallb (sets_nonzero (Z.to_nat (final_num_alleles na0 anc))) (map (relabel fx) roots) = true ->
  c_map_mutations_gen fx ta g anc =
  match mm_rose (Z.to_nat (final_num_alleles na0 anc)) (map (relabel fx) roots) (option_map Z.to_N anc) with
  | Some (a, tr) => Ok (Z.of_N a, tr)
  | None => Err ERR_NONTERMINATION
  end.
Proof.
  intros Hinit Hnm Hanc Hrose HI HN0 Hpost ND Hsize NZ.
  set (K := Z.to_nat (final_num_alleles na0 anc)) in *.
  set (roots' := map (relabel fx) roots) in *.
  destruct (rose_of_arrays_rep ta g roots Hrose) as [lc [Hlc [Hsibs [Hwide HR]]]].
  destruct (c_hartigan_eq_rose_lemma K ta fx roots os0 lc Hlc Hsibs Hwide HR ND HI HN0) as [os1 [E1 [O1 HSv]]].
  fold roots' in O1, HSv.
  pose proof (RepF_not_root ta roots HR) as NotIn.
  assert (HRs : Forall (RepS ta) roots').
  { unfold roots'. apply Forall_map. rewrite Forall_forall in *. intros c Hc. apply RepS_relabel. apply RepF_RepS. auto. }
  assert (Hsibs' : sibs (ta_right_sib ta) lc (map tid roots')) by (unfold roots'; rewrite map_tid_relabel; exact Hsibs).
  assert (Hwide' : (length roots' <= length (ta_right_sib ta))%nat) by (unfold roots'; rewrite map_length; exact Hwide).
  assert (Hsize' : (fsize roots' < length (ta_left_child ta))%nat) by (unfold roots'; rewrite fsize_relabel; exact Hsize).
  assert (NotIn' : ~ In (zlen (ta_flags ta)) (forest_ids roots')) by (unfold roots'; rewrite forest_ids_relabel; exact NotIn).
  unfold c_map_mutations_gen. rewrite Hinit. cbn [bind].
  assert (Enm : (nm =? 0)%Z = false) by (apply Z.eqb_neq; exact Hnm). rewrite Enm.
  unfold mm_rose. rewrite NZ. cbn [negb].
  destruct anc as [a|].
  - (* fixed ancestral state *)
    destruct Hanc as [Ha0 Ha1].
    assert (Eg : ((a <? 0) || (a >=? c20_hartigan_max_alleles))%Z = false).
    { apply orb_false_iff. split; [apply Z.ltb_ge; lia | rewrite Z.geb_leb; apply Z.leb_gt; lia]. }
    rewrite Eg. cbn [bind]. rewrite Hpost. cbn [bind].
    change (Z.to_nat (if (a >=? na0 + 1)%Z then a + 1 else na0 + 1)%Z) with K.
    rewrite E1. cbn [bind].
    assert (X : exists x, get os1 (zlen (ta_flags ta)) = Ok x) by eauto.
    destruct X as [x Hx]. destruct (set_ok os1 _ UINT64_MAX _ Hx) as [os2 E2]. rewrite E2. cbn [bind].
    assert (O2 : Forall (OsOk K os2) roots').
    { rewrite Forall_forall in *. intros c Hc. apply (OsOk_ext K os1); [|auto].
      intros v Hv. apply (get_set_other _ _ _ _ _ E2). intros Y; subst v. apply NotIn'.
      unfold forest_ids. apply in_flat_map. eauto. }
    rewrite (c_preorder_eq_rose_lemma K ta os2 roots' (Z.to_N a) UINT64_MAX lc Hlc Hsibs' Hwide' HRs O2
               (get_set_same _ _ _ _ E2)); [| | exact NZ | exact Hsize'].
    + cbn [bind option_map]. rewrite Z2N.id by lia. reflexivity.
    + unfold bit_is_set. rewrite testbit_uint64_max. apply N.ltb_lt.
      unfold c20_hartigan_max_alleles in Ha1. lia.
  - (* free ancestral state *)
    cbn [bind]. rewrite Hpost. cbn [bind].
    change (Z.to_nat (na0 + 1)%Z) with K.
    rewrite E1. cbn [bind]. rewrite HSv. cbn [bind option_map].
    destruct (get_smallest_set_bit (hartigan_set K (map (opt_set K) roots'))) as [a|] eqn:Ea; [|reflexivity].
    cbn [bind]. rewrite N2Z.id.
    rewrite (c_preorder_eq_rose_lemma K ta os1 roots' a _ lc Hlc Hsibs' Hwide' HRs O1 HSv); [| | exact NZ | exact Hsize'].
    + reflexivity.
    + destruct (hartigan_set K (map (opt_set K) roots')) as [|p]; [discriminate|].
      inversion Ea; subst. apply ctz_testbit.
Qed.

(* ------------------------------------------------------------------------- *)
(* tsk_tree_postorder_from (6842-6902): explicit stack + postorder_parent      *)
(* ------------------------------------------------------------------------- *)
(* the other three arrays of the quintuply linked tree agree with the forest *)
Inductive RepP (ta : tree_arrays) : tree -> Prop :=
| RepP_node : forall u o ch rc p,
    get (ta_right_child ta) u = Ok rc ->
    sibs (ta_left_sib ta) rc (rev (map tid ch)) ->
    get (ta_parent ta) u = Ok p ->
    (forall c, In c ch -> get (ta_parent ta) (tid c) = Ok u) ->
    Forall (RepP ta) ch ->
    RepP ta (Node u o ch).

(* loop iterations spent on a subtree: one to expand an internal node, one to emit *)
Fixpoint iters (t : tree) : nat :=
  match t with
  | Node _ _ ch => ((match ch with [] => 1 | _ => 2 end) + fold_right (fun c n => iters c + n) 0 ch)%nat
  end.
Definition fiters (ts : list tree) : nat := fold_right (fun c n => (iters c + n)%nat) O ts.

Lemma iters_le t : (iters t <= 2 * tsize t)%nat.
Proof.
  induction t as [u o ch IH] using tree_ind'. cbn [iters tsize].
  assert (G : (fold_right (fun c n => iters c + n) 0 ch <= 2 * fold_right (fun c n => tsize c + n) 0 ch)%nat).
  { induction IH as [|c r Hc Hr IHr]; simpl; [lia|]. simpl in IHr. lia. }
  destruct ch; simpl in *; lia.
Qed.

Lemma fiters_le ts : (fiters ts <= 2 * fsize ts)%nat.
Proof.
  unfold fiters, fsize. induction ts as [|c r IH]; simpl; [lia|]. pose proof (iters_le c). simpl in IH. lia.
Qed.

Lemma post_ids_node u o ch : post_ids (Node u o ch) = flat_map post_ids ch ++ [u].
Proof. reflexivity. Qed.

Section Postorder.
Variable ta : tree_arrays.

Definition PostP (t : tree) : Prop :=
  RepP ta t -> NoDup (ids t) -> forall rest pp acc f, ~ In pp (ids t) ->
  exists p, get (ta_parent ta) (tid t) = Ok p /\
    postorder_loop (iters t + f) ta (tid t :: rest) pp acc =
    postorder_loop f ta rest p (rev (post_ids t) ++ acc).

Lemma post_forest ch u : Forall PostP ch -> Forall (RepP ta) ch -> NoDup (forest_ids ch) ->
  (forall c, In c ch -> get (ta_parent ta) (tid c) = Ok u) -> ~ In u (forest_ids ch) ->
  forall rest pp acc f, ~ In pp (forest_ids ch) ->
  postorder_loop (fiters ch + f) ta (map tid ch ++ rest) pp acc =
  postorder_loop f ta rest (match ch with [] => pp | _ => u end) (rev (flat_map post_ids ch) ++ acc).
Proof.
  induction 1 as [|c r Hc Hr IH]; intros HR ND Hpar Hu rest pp acc f Hpp; [reflexivity|].
  inversion HR as [|? ? HRc HRr]; subst. rewrite forest_ids_cons in *.
  cbn [map app fiters fold_right]. fold (fiters r). rewrite <- Nat.add_assoc.
  destruct (Hc HRc (NoDup_app_l _ _ ND) (map tid r ++ rest) pp acc (fiters r + f)%nat) as [p [Hp E]].
  { intros X. apply Hpp. apply in_or_app. left. exact X. }
  rewrite E. rewrite (Hpar c (or_introl eq_refl)) in Hp. inversion Hp; subst p.
  rewrite IH; try assumption.
  - cbn [flat_map]. rewrite rev_app_distr. rewrite <- app_assoc. destruct r; reflexivity.
  - eapply NoDup_app_r; eassumption.
  - intros x Hx. apply Hpar. right. exact Hx.
  - intros X. apply Hu. apply in_or_app. right. exact X.
  - intros X. apply Hu. apply in_or_app. right. exact X.
Qed.

Lemma post_tree : forall t, PostP t.
Proof.
  induction t as [u o ch IH] using tree_ind'. intros HR ND rest pp acc f Hpp.
  inversion HR as [? ? ? rc p Hrc Hsibs Hp Hpar HRc]; subst.
  rewrite ids_node in *. inversion ND as [|? ? Hu NDc]; subst.
  exists p. split; [exact Hp|]. cbn [tid]. rewrite post_ids_node, rev_app_distr. cbn [rev app].
  destruct ch as [|c0 r0].
  - (* leaf: right_child = NULL, emitted at once *)
    cbn [map rev] in Hsibs. inversion Hsibs; subst.
    cbn [iters fold_right Nat.add postorder_loop]. rewrite Hrc. cbn [bind]. unfold tsk_null. cbn [Z.eqb negb andb].
    rewrite Hp. cbn [bind flat_map rev app]. reflexivity.
  - (* internal node: expand, children, then u == postorder_parent *)
    set (ch := c0 :: r0) in *.
    assert (Hne : rc <> (-1)%Z).
    { intros X. subst rc. inversion Hsibs as [E|]; [|congruence].
      match goal with H : [] = _ |- _ => apply (f_equal (@length Z)) in H; simpl in H;
        rewrite ?app_length, ?rev_length, ?map_length in H; simpl in H; lia end. }
    assert (Hupp : u <> pp) by (intros X; apply Hpp; left; exact X).
    change (iters (Node u o ch)) with (S (S (fiters ch))).
    replace (S (S (fiters ch)) + f)%nat with (S (fiters ch + S f))%nat by lia.
    remember (fiters ch + S f)%nat as F1 eqn:EF1.
    cbn [postorder_loop]. rewrite Hrc. cbn [bind]. unfold tsk_null.
    assert (E1 : (rc =? -1)%Z = false) by (apply Z.eqb_neq; exact Hne).
    assert (E2 : (u =? pp)%Z = false) by (apply Z.eqb_neq; exact Hupp).
    rewrite E1, E2. cbn [negb andb].
    rewrite (chain_sibs _ _ _ _ Hsibs).
    2:{ pose proof (sibs_width _ _ _ Hsibs). lia. }
    cbn [bind]. rewrite rev_involutive. subst F1.
    rewrite (post_forest ch u IH HRc NDc Hpar Hu (u :: rest) pp acc (S f)).
    2:{ intros X. apply Hpp. right. exact X. }
    unfold ch at 1. cbn [postorder_loop]. rewrite Hrc. cbn [bind]. unfold tsk_null. rewrite E1, Z.eqb_refl.
    cbn [negb andb]. rewrite Hp. cbn [bind]. reflexivity.
Qed.

(* the whole traversal from the virtual root *)
Lemma postorder_from_virtual_root_spec roots rc :
  get (ta_right_child ta) (zlen (ta_flags ta)) = Ok rc ->
  sibs (ta_left_sib ta) rc (rev (map tid roots)) ->
  Forall (RepP ta) roots -> NoDup (forest_ids roots) ->
  (forall r, In r roots -> get (ta_parent ta) (tid r) = Ok (-1)%Z) ->
  (forall x, In x (forest_ids roots) -> (0 <= x)%Z) ->
  (fsize roots < length (ta_left_child ta))%nat ->
  postorder_from_virtual_root ta = Ok (flat_map post_ids roots ++ [zlen (ta_flags ta)]).
Proof.
  intros Hrc Hsibs HR ND Hpar Hpos Hsize. unfold postorder_from_virtual_root.
  rewrite Hrc. cbn [bind]. rewrite (chain_sibs _ _ _ _ Hsibs).
  2:{ pose proof (sibs_width _ _ _ Hsibs). lia. }
  cbn [bind]. rewrite rev_involutive.
  assert (Neg : ~ In (-1)%Z (forest_ids roots)) by (intros X; specialize (Hpos _ X); lia).
  pose proof (fiters_le roots) as FL.
  set (F := S (2 * S (length (ta_left_child ta)))).
  assert (EF : F = (fiters roots + S (F - fiters roots - 1))%nat) by (unfold F; lia).
  rewrite EF. unfold tsk_null.
  pose proof (post_forest roots (-1)%Z (proj2 (Forall_forall _ _) (fun t _ => post_tree t)) HR ND Hpar Neg
                [] (-1)%Z [] (S (F - fiters roots - 1)) Neg) as E.
  rewrite app_nil_r in E. rewrite E. cbn [postorder_loop]. rewrite app_nil_r, rev_involutive. reflexivity.
Qed.

End Postorder.

(* ------------------------------------------------------------------------- *)
(* the initialisation loop 7252-7266                                           *)
(* ------------------------------------------------------------------------- *)
Lemma index_of_shift x l : forall i, index_of x l (S i) = option_map S (index_of x l i).
Proof.
  induction l as [|y r IH]; intros i; [reflexivity|]. cbn [index_of].
  destruct (x =? y)%Z; [reflexivity | apply IH].
Qed.

Lemma index_of_notin x l i : ~ In x l -> index_of x l i = None.
Proof.
  revert i. induction l as [|y r IH]; intros i H; [reflexivity|]. cbn [index_of].
  destruct (Z.eqb_spec x y) as [E|NE]; [exfalso; apply H; left; auto|]. apply IH. intros X. apply H. right. exact X.
Qed.

Lemma index_of_in x l : In x l -> exists j, index_of x l O = Some j.
Proof.
  induction l as [|y r IH]; intros H; [contradiction|]. cbn [index_of].
  destruct (Z.eqb_spec x y) as [E|NE]; [eauto|]. destruct H as [H|H]; [congruence|].
  destruct (IH H) as [j Ej]. rewrite index_of_shift, Ej. simpl. eauto.
Qed.

Lemma init_sets_get fx : forall samples g os na nm os' na' nm',
  init_sets fx samples g os na nm = Ok (os', na', nm') -> NoDup samples ->
  forall u,
    get os' u =
    match index_of u samples O with
    | None => get os u
    | Some j =>
        match nth_error g j with
        | Some gj => if (gj =? c20_tsk_missing_data)%Z then (if fx then get os u else Ok UINT64_MAX)
                     else do cur <- get os u; Ok (set_bit cur (Z.to_N gj))
        | None => OOB
        end
    end.
Proof.
  induction samples as [|s rest IH]; intros g os na nm os' na' nm' H ND u.
  - destruct g; simpl in H; inversion H; subst; reflexivity.
  - destruct g as [|gj g']; [simpl in H; discriminate|]. cbn [init_sets] in H.
    inversion ND as [|? ? Hs NDr]; subst.
    destruct ((gj >=? c20_hartigan_max_alleles)%Z || (gj <? c20_tsk_missing_data)%Z); [discriminate|].
    cbn [index_of]. destruct (Z.eqb_spec u s) as [E|NE].
    + subst u. cbn [nth_error].
      destruct (gj =? c20_tsk_missing_data)%Z.
      * destruct fx.
        -- destruct (get os s) as [cur| | |] eqn:Ec; cbn [bind] in H; try discriminate.
           rewrite (IH _ _ _ _ _ _ _ H NDr s). rewrite (index_of_notin s rest O Hs). exact Ec.
        -- destruct (set os s UINT64_MAX) as [os1| | |] eqn:E1; cbn [bind] in H; try discriminate.
           rewrite (IH _ _ _ _ _ _ _ H NDr s). rewrite (index_of_notin s rest O Hs).
           apply (get_set_same _ _ _ _ E1).
      * destruct (get os s) as [cur| | |] eqn:Ec; cbn [bind] in H; try discriminate.
        destruct (set os s (set_bit cur (Z.to_N gj))) as [os1| | |] eqn:E1; cbn [bind] in H; try discriminate.
        rewrite (IH _ _ _ _ _ _ _ H NDr s). rewrite (index_of_notin s rest O Hs). cbn [bind].
        apply (get_set_same _ _ _ _ E1).
    + rewrite index_of_shift.
      destruct (gj =? c20_tsk_missing_data)%Z.
      * destruct fx.
        -- destruct (get os s) as [cur| | |] eqn:Ec; cbn [bind] in H; try discriminate.
           rewrite (IH _ _ _ _ _ _ _ H NDr u). destruct (index_of u rest 0); reflexivity.
        -- destruct (set os s UINT64_MAX) as [os1| | |] eqn:E1; cbn [bind] in H; try discriminate.
           rewrite (IH _ _ _ _ _ _ _ H NDr u). rewrite (get_set_other _ _ _ _ _ E1) by congruence.
           destruct (index_of u rest 0); reflexivity.
      * destruct (get os s) as [cur| | |] eqn:Ec; cbn [bind] in H; try discriminate.
        destruct (set os s (set_bit cur (Z.to_N gj))) as [os1| | |] eqn:E1; cbn [bind] in H; try discriminate.
        rewrite (IH _ _ _ _ _ _ _ H NDr u). rewrite (get_set_other _ _ _ _ _ E1) by congruence.
        destruct (index_of u rest 0); reflexivity.
Qed.

Lemma get_repeat_zero n u : (0 <= u < Z.of_nat n)%Z -> get (repeat 0%N n) u = Ok 0%N.
Proof.
  intros H. apply get_nth. split; [lia|].
  assert (L : (Z.to_nat u < n)%nat) by lia.
  rewrite (nth_error_nth' _ 0%N) by (rewrite repeat_length; exact L).
  f_equal. apply nth_repeat.
Qed.

(* what the sample list must satisfy (a tree-sequence invariant): no duplicates, and every
   listed node carries the sample flag *)
Definition samples_ok (ta : tree_arrays) : Prop :=
  NoDup (ta_samples ta) /\
  forall s, In s (ta_samples ta) -> exists f, get (ta_flags ta) s = Ok f /\ Z.odd (f / c20_tsk_node_is_sample) = true.

Lemma init_value fx ta g os0 na0 nm u o :
  init_sets fx (ta_samples ta) g (repeat 0%N (S (length (ta_flags ta)))) 0 0 = Ok (os0, na0, nm) ->
  samples_ok ta -> obs_of ta g u = Ok o -> get os0 u = Ok (init_set fx o).
Proof.
  intros Hinit [ND SF] Ho. rewrite (init_sets_get fx _ _ _ _ _ _ _ _ Hinit ND u).
  unfold obs_of in Ho. destruct (get (ta_flags ta) u) as [f| | |] eqn:Ef; cbn [bind] in Ho; try discriminate.
  assert (Hu : (0 <= u < Z.of_nat (S (length (ta_flags ta))))%Z).
  { assert (X : exists a, get (ta_flags ta) u = Ok a) by eauto. apply get_ok_iff in X. unfold zlen in X. lia. }
  destruct (Z.odd (f / c20_tsk_node_is_sample)) eqn:Eo.
  - destruct (index_of u (ta_samples ta) 0) as [j|]; [|discriminate].
    destruct (nth_error g j) as [gj|]; [|discriminate]. inversion Ho; subst.
    destruct (gj =? c20_tsk_missing_data)%Z.
    + cbn [init_set]. destruct fx; [apply get_repeat_zero; exact Hu | reflexivity].
    + rewrite (get_repeat_zero _ _ Hu). cbn [bind init_set]. reflexivity.
  - inversion Ho; subst. cbn [init_set].
    rewrite index_of_notin; [apply get_repeat_zero; exact Hu|].
    intros X. destruct (SF u X) as [f' [Ef' Eo']]. congruence.
Qed.

Lemma init_value_root fx ta g os0 na0 nm :
  init_sets fx (ta_samples ta) g (repeat 0%N (S (length (ta_flags ta)))) 0 0 = Ok (os0, na0, nm) ->
  samples_ok ta -> get os0 (zlen (ta_flags ta)) = Ok 0%N.
Proof.
  intros Hinit [ND SF]. rewrite (init_sets_get fx _ _ _ _ _ _ _ _ Hinit ND).
  rewrite index_of_notin.
  - apply get_repeat_zero. unfold zlen. lia.
  - intros X. destruct (SF _ X) as [f [Ef _]].
    assert (Y : exists a, get (ta_flags ta) (zlen (ta_flags ta)) = Ok a) by eauto. apply get_ok_iff in Y. lia.
Qed.

(* observations of the forest returned by rose_of_arrays *)
Inductive RepO (ta : tree_arrays) (g : list Z) : tree -> Prop :=
| RepO_node : forall u o ch, obs_of ta g u = Ok o -> Forall (RepO ta g) ch -> RepO ta g (Node u o ch).

Lemma rose_chain_repO ta g : forall fuel v ts, rose_chain fuel ta g v = Ok ts -> Forall (RepO ta g) ts.
Proof.
  induction fuel as [|f IH]; intros v ts H; [discriminate|]. cbn [rose_chain] in H.
  destruct (v =? tsk_null)%Z.
  - inversion H; subst. constructor.
  - destruct (obs_of ta g v) as [o| | |] eqn:Eo; cbn [bind] in H; try discriminate.
    destruct (get (ta_left_child ta) v) as [lc| | |] eqn:Elc; cbn [bind] in H; try discriminate.
    destruct (rose_chain f ta g lc) as [ch| | |] eqn:Ech; cbn [bind] in H; try discriminate.
    destruct (get (ta_right_sib ta) v) as [rs| | |] eqn:Ers; cbn [bind] in H; try discriminate.
    destruct (rose_chain f ta g rs) as [rest| | |] eqn:Erest; cbn [bind] in H; try discriminate.
    inversion H; subst. constructor; [|eapply IH; eassumption]. constructor; [exact Eo | eapply IH; eassumption].
Qed.

Lemma RepO_InitOk fx ta g os0 na0 nm t :
  init_sets fx (ta_samples ta) g (repeat 0%N (S (length (ta_flags ta)))) 0 0 = Ok (os0, na0, nm) ->
  samples_ok ta -> RepO ta g t -> InitOk fx os0 t.
Proof.
  intros Hinit SO. induction t as [u o ch IH] using tree_ind'. intros H. inversion H; subst. constructor.
  - eapply init_value; eassumption.
  - rewrite Forall_forall in *. intros c Hc. apply IH; auto.
Qed.

(* ------------------------------------------------------------------------- *)
(* L2 = L0 from the consistency of the input arrays alone                      *)
(* ------------------------------------------------------------------------- *)
Lemma chain_sibs_inv next : forall fuel v l, chain fuel next v = Ok l -> sibs next v l.
Proof.
  induction fuel as [|f IH]; intros v l H; [discriminate|]. cbn [chain] in H. unfold tsk_null in H.
  destruct (Z.eqb_spec v (-1)%Z) as [E|NE].
  - inversion H; subst. constructor.
  - destruct (get next v) as [n| | |] eqn:En; cbn [bind] in H; try discriminate.
    destruct (chain f next n) as [r| | |] eqn:Er; cbn [bind] in H; try discriminate.
    inversion H; subst. econstructor; [exact NE | exact En | apply IH; exact Er].
Qed.

Lemma zlist_eqb_eq a b : zlist_eqb a b = true -> a = b.
Proof. apply list_eqb_eq. intros x y. apply Z.eqb_eq. Qed.

Lemma links_okb_RepP ta t : links_okb ta t = true -> RepP ta t.
Proof.
  induction t as [u o ch IH] using tree_ind'. cbn [links_okb]. intros H.
  apply andb_true_iff in H as [H H3]. apply andb_true_iff in H as [H1 H2].
  destruct (get (ta_right_child ta) u) as [rc| | |] eqn:Erc; try discriminate.
  destruct (get (ta_parent ta) u) as [p| | |] eqn:Ep; try discriminate.
  destruct (chain (S (length (ta_left_sib ta))) (ta_left_sib ta) rc) as [l| | |] eqn:El; try discriminate.
  apply zlist_eqb_eq in H1. subst l. apply chain_sibs_inv in El.
  econstructor; [exact Erc | exact El | exact Ep | |].
  - rewrite forallb_forall in H2. intros c Hc. specialize (H2 c Hc).
    destruct (get (ta_parent ta) (tid c)) as [q| | |]; try discriminate. apply Z.eqb_eq in H2. subst. reflexivity.
  - rewrite forallb_forall in H3. rewrite Forall_forall in *. intros c Hc. apply IH; auto.
Qed.

Lemma RepF_ids_nonneg ta t : RepF ta t -> forall x, In x (ids t) -> (0 <= x)%Z.
Proof.
  induction t as [u o ch IH] using tree_ind'. intros H x Hx. inversion H; subst.
  rewrite ids_node in Hx. destruct Hx as [<-|Hx].
  - assert (X : exists a, get (ta_flags ta) u = Ok a) by eauto. apply get_ok_iff in X. lia.
  - unfold forest_ids in Hx. apply in_flat_map in Hx. destruct Hx as [c [Hc Hx]].
    rewrite Forall_forall in *. eapply IH; eauto.
Qed.

Lemma c_map_mutations_eq_relabel fx ta g anc os0 na0 nm roots :
  init_sets fx (ta_samples ta) g (repeat 0%N (S (length (ta_flags ta)))) 0 0 = Ok (os0, na0, nm) ->
  nm <> 0%Z ->
  match anc with Some a => (0 <= a < c20_hartigan_max_alleles)%Z | None => True end ->
  rose_of_arrays ta g = Ok roots ->
  arrays_okb ta roots = true ->
  forallb (sets_nonzero (Z.to_nat (final_num_alleles na0 anc))) (map (relabel fx) roots) = true ->
  c_map_mutations_gen fx ta g anc =
  match mm_rose (Z.to_nat (final_num_alleles na0 anc)) (map (relabel fx) roots) (option_map Z.to_N anc) with
  | Some (a, tr) => Ok (Z.of_N a, tr)
  | None => Err ERR_NONTERMINATION
  end.
Proof.
  intros Hinit Hnm Hanc Hrose HA NZ.
  unfold arrays_okb in HA.
  repeat match type of HA with (_ && _ = true) => let H := fresh "A" in apply andb_true_iff in HA as [HA H] end.
  rename A into Asize, A0 into Aids, A1 into Aflags, A2 into Asamp, A3 into Alinks, A4 into Apar.
  destruct (get (ta_right_child ta) (zlen (ta_flags ta))) as [rc| | |] eqn:Erc; try discriminate.
  destruct (chain (S (length (ta_left_sib ta))) (ta_left_sib ta) rc) as [l| | |] eqn:El; try discriminate.
  apply zlist_eqb_eq in HA. subst l. apply chain_sibs_inv in El.
  apply Nat.ltb_lt in Asize. apply nodupb_NoDup in Aids. apply nodupb_NoDup in Asamp.
  assert (SO : samples_ok ta).
  { split; [exact Asamp|]. rewrite forallb_forall in Aflags. intros s Hs. specialize (Aflags s Hs).
    destruct (get (ta_flags ta) s) as [f| | |]; try discriminate. eauto. }
  assert (HP : Forall (RepP ta) roots).
  { rewrite forallb_forall in Alinks. apply Forall_forall. intros c Hc. apply links_okb_RepP. auto. }
  assert (Hpar : forall r, In r roots -> get (ta_parent ta) (tid r) = Ok (-1)%Z).
  { rewrite forallb_forall in Apar. intros r Hr. specialize (Apar r Hr).
    destruct (get (ta_parent ta) (tid r)) as [q| | |]; try discriminate. apply Z.eqb_eq in Apar. subst. reflexivity. }
  destruct (rose_of_arrays_rep ta g roots Hrose) as [lc [Hlc [Hsibs [Hwide HR]]]].
  assert (HO : Forall (RepO ta g) roots).
  { unfold rose_of_arrays in Hrose. rewrite Hlc in Hrose. cbn [bind] in Hrose. eapply rose_chain_repO; eassumption. }
  apply (c_map_mutations_core fx ta g anc os0 na0 nm roots); try assumption.
  - rewrite Forall_forall in *. intros c Hc. eapply RepO_InitOk; eauto.
  - eapply init_value_root; eassumption.
  - apply (postorder_from_virtual_root_spec ta roots rc); try assumption.
    intros x Hx. unfold forest_ids in Hx. apply in_flat_map in Hx. destruct Hx as [c [Hc Hx]].
    rewrite Forall_forall in HR. eapply RepF_ids_nonneg; eauto.
Qed.

Lemma map_relabel_false roots : map (relabel false) roots = roots.
Proof. induction roots as [|c r IH]; simpl; [reflexivity|]. rewrite relabel_false, IH. reflexivity. Qed.
Lemma map_relabel_true roots : map (relabel true) roots = map demote roots.
Proof. induction roots as [|c r IH]; simpl; [reflexivity|]. rewrite relabel_true, IH. reflexivity. Qed.

(* both variants of the code: the pinned one computes mm_rose, the repaired one mm_rose_fixed *)
Lemma c_map_mutations_eq_rose_lemma fx ta g anc os0 na0 nm roots :
  init_sets fx (ta_samples ta) g (repeat 0%N (S (length (ta_flags ta)))) 0 0 = Ok (os0, na0, nm) ->
  nm <> 0%Z ->
  match anc with Some a => (0 <= a < c20_hartigan_max_alleles)%Z | None => True end ->
  rose_of_arrays ta g = Ok roots ->
  arrays_okb ta roots = true ->
  forallb (sets_nonzero (Z.to_nat (final_num_alleles na0 anc))) (if fx then map demote roots else roots) = true ->
  c_map_mutations_gen fx ta g anc =
  match (if fx then mm_rose_fixed else mm_rose) (Z.to_nat (final_num_alleles na0 anc)) roots (option_map Z.to_N anc) with
  | Some (a, tr) => Ok (Z.of_N a, tr)
  | None => Err ERR_NONTERMINATION
  end.
Proof.
  intros Hinit Hnm Hanc Hrose HA NZ.
  rewrite (c_map_mutations_eq_relabel fx ta g anc os0 na0 nm roots Hinit Hnm Hanc Hrose HA).
  - destruct fx; [rewrite map_relabel_true | rewrite map_relabel_false]; reflexivity.
  - destruct fx; [rewrite map_relabel_true | rewrite map_relabel_false]; exact NZ.
Qed.
