(* C20 — L2 = L0 for the two loops of tsk_tree_map_mutations that carry the algorithm:
   the preorder loop with its explicit stack and transition_parent (trees.c 7319-7340)
   and the Hartigan loop over a postorder node list (7289-7309), both over the tree arrays,
   against the rose-tree definitions the property theorems are about.
   What stays tied differentially only (evaluated by [check_case] on every generated case):
   that tsk_tree_postorder_from yields the left-to-right postorder of the represented forest
   and that the initialisation loop 7252-7266 gives every node its initial set. *)
From Coq Require Import List ZArith NArith Bool Lia Arith.
From TskVerif Require Import Base.Common Gen.Generated C20.Model C20.Spec C20.SetProofs C20.HartiganProofs
  C20.AssignProofs C20.VisitProofs C20.StackProofs C20.TopProofs.
Import ListNotations.

(* ---- checked arrays ---- *)
Lemma get_nth {A} (l : list A) i x : get l i = Ok x <-> (0 <= i)%Z /\ nth_error l (Z.to_nat i) = Some x.
Proof.
  unfold get. destruct (i <? 0)%Z eqn:E.
  - split; [discriminate | intros [H _]; apply Z.ltb_lt in E; lia].
  - apply Z.ltb_ge in E. destruct (nth_error l (Z.to_nat i)); split; intros H.
    + inversion H; auto. + destruct H as [_ H]; inversion H; reflexivity.
    + discriminate. + destruct H; discriminate.
Qed.

Lemma set_nat_nth_same {A} (l : list A) : forall i a l', set_nat l i a = Some l' -> nth_error l' i = Some a.
Proof.
  induction l as [|h t IH]; intros [|i] a l' H; simpl in H; try discriminate.
  - inversion H; reflexivity.
  - destruct (set_nat t i a) eqn:E; [|discriminate]. inversion H; subst. simpl. eauto.
Qed.

Lemma set_nat_nth_other {A} (l : list A) : forall i j a l', set_nat l i a = Some l' -> i <> j ->
  nth_error l' j = nth_error l j.
Proof.
  induction l as [|h t IH]; intros [|i] j a l' H NE; simpl in H; try discriminate.
  - inversion H; subst. destruct j; [congruence | reflexivity].
  - destruct (set_nat t i a) eqn:E; [|discriminate]. inversion H; subst.
    destruct j; [reflexivity|]. simpl. eapply IH; [eassumption | congruence].
Qed.

Lemma set_nat_some {A} (l : list A) : forall i a, (i < length l)%nat -> exists l', set_nat l i a = Some l'.
Proof.
  induction l as [|h t IH]; intros [|i] a H; simpl in *; try lia; eauto.
  destruct (IH i a) as [l' E]; [lia|]. rewrite E. eauto.
Qed.

Lemma get_set_same {A} (l : list A) i a l' : set l i a = Ok l' -> get l' i = Ok a.
Proof.
  unfold set, get. destruct (i <? 0)%Z; [discriminate|].
  destruct (set_nat l (Z.to_nat i) a) eqn:E; [|discriminate]. intros H; inversion H; subst.
  rewrite (set_nat_nth_same _ _ _ _ E). reflexivity.
Qed.

Lemma get_set_other {A} (l : list A) i j a l' : set l i a = Ok l' -> i <> j -> get l' j = get l j.
Proof.
  unfold set, get. destruct (i <? 0)%Z eqn:Ei; [discriminate|].
  destruct (set_nat l (Z.to_nat i) a) eqn:E; [|discriminate]. intros H NE; inversion H; subst.
  destruct (j <? 0)%Z eqn:Ej; [reflexivity|].
  rewrite (set_nat_nth_other _ _ (Z.to_nat j) _ _ E); [reflexivity|].
  apply Z.ltb_ge in Ei. apply Z.ltb_ge in Ej. lia.
Qed.

Lemma set_ok {A} (l : list A) i a x : get l i = Ok x -> exists l', set l i a = Ok l'.
Proof.
  intros H. apply get_nth in H as [H0 H]. unfold set.
  assert (E : (i <? 0)%Z = false) by (apply Z.ltb_ge; lia). rewrite E.
  destruct (set_nat_some l (Z.to_nat i) a) as [l' E']; [apply nth_error_Some; congruence|].
  rewrite E'. eauto.
Qed.

(* ---- sibling chains ---- *)
Inductive sibs (next : list Z) : Z -> list Z -> Prop :=
| sibs_nil : sibs next (-1)%Z []
| sibs_cons : forall v n r, v <> (-1)%Z -> get next v = Ok n -> sibs next n r -> sibs next v (v :: r).

Lemma chain_sibs next : forall l v fuel, sibs next v l -> (length l < fuel)%nat -> chain fuel next v = Ok l.
Proof.
  induction l as [|x r IH]; intros v fuel H Hf; inversion H; subst; destruct fuel as [|f]; try (simpl in Hf; lia).
  - reflexivity.
  - cbn [chain]. unfold tsk_null.
    assert (E : (x =? -1)%Z = false) by (apply Z.eqb_neq; assumption). rewrite E.
    rewrite H4. cbn [bind]. rewrite (IH n f H5); [reflexivity | simpl in Hf; lia].
Qed.

(* ---- the arrays represent a rose tree (structure only) ---- *)
Inductive RepS (ta : tree_arrays) : tree -> Prop :=
| RepS_node : forall u o ch lc,
    get (ta_left_child ta) u = Ok lc ->
    sibs (ta_right_sib ta) lc (map tid ch) ->
    (length ch <= length (ta_right_sib ta))%nat ->
    Forall (RepS ta) ch ->
    RepS ta (Node u o ch).

(* optimal_set[] holds the set of every node of the tree *)
Inductive OsOk (K : nat) (os : list N) : tree -> Prop :=
| OsOk_node : forall u o ch,
    get os u = Ok (opt_set K (Node u o ch)) ->
    Forall (OsOk K os) ch ->
    OsOk K os (Node u o ch).

Definition abs_stack (st : list (tree * Z * N)) : list (Z * Z * N) :=
  map (fun e => (tid (fst (fst e)), snd (fst e), snd e)) st.

Lemma abs_stack_push ch (tp : Z) (s : N) rest :
  rev (map (fun v => (v, tp, s)) (map tid ch)) ++ abs_stack rest =
  abs_stack (rev (map (fun c => (c, tp, s)) ch) ++ rest).
Proof.
  unfold abs_stack. rewrite map_app, map_rev, !map_map. reflexivity.
Qed.

Lemma Forall_push {P : tree * Z * N -> Prop} ch (tp : Z) (s : N) rest :
  Forall (fun c => P (c, tp, s)) ch -> Forall P rest ->
  Forall P (rev (map (fun c => (c, tp, s)) ch) ++ rest).
Proof.
  intros H1 H2. apply Forall_app. split; [|exact H2].
  apply Forall_rev. apply Forall_map. exact H1.
Qed.

Section Preorder.
Variable K : nat.
Variable ta : tree_arrays.
Variable os : list N.

(* the preorder loop over the arrays does what the preorder loop over rose trees does *)
Lemma preorder_loop_sim : forall fuel st k acc,
  Forall (fun e => RepS ta (fst (fst e))) st ->
  Forall (fun e => OsOk K os (fst (fst e))) st ->
  stack_nonzero K st = true -> (stack_size st < fuel)%nat ->
  preorder_loop fuel ta os (abs_stack st) k acc = Ok (rev acc ++ run_stack K st k).
Proof.
  induction fuel as [|f IH]; intros st k acc HR HO NZ Hf; [lia|].
  destruct st as [|[[t tp] s] rest].
  - cbn [abs_stack map preorder_loop run_stack]. rewrite app_nil_r. reflexivity.
  - destruct t as [u o ch].
    inversion HR as [|? ? HRt HRr]; subst. inversion HO as [|? ? HOt HOr]; subst.
    cbn [fst snd] in HRt, HOt.
    inversion HRt as [? ? ? lc Hlc Hsibs Hwide HRc]; subst.
    inversion HOt as [? ? ? Hos HOc]; subst.
    unfold stack_nonzero in NZ. cbn [forallb fst] in NZ. apply andb_true_iff in NZ as [NZt NZr].
    pose proof NZt as NZt0. rewrite sets_nonzero_node in NZt. apply andb_true_iff in NZt as [NZu NZc].
    apply negb_true_iff in NZu. apply N.eqb_neq in NZu.
    unfold stack_size in Hf. cbn [fold_right fst] in Hf. rewrite tsize_node in Hf. fold (stack_size rest) in Hf.
    cbn [abs_stack map fst snd tid preorder_loop]. rewrite Hos. cbn [bind]. rewrite Hlc. cbn [bind].
    rewrite (chain_sibs _ _ _ _ Hsibs) by (rewrite map_length; lia). cbn [bind].
    cbn [run_stack]. rewrite assign_eq. unfold hitb, next_state, hitb.
    fold (abs_stack rest).
    destruct (bit_is_set (opt_set K (Node u o ch)) s) eqn:H.
    + rewrite abs_stack_push. rewrite IH.
      * cbn [app]. rewrite run_stack_push. reflexivity.
      * apply Forall_push; [|exact HRr]. cbn [fst]. exact HRc.
      * apply Forall_push; [|exact HOr]. cbn [fst]. exact HOc.
      * rewrite stack_nonzero_push. rewrite NZc. exact NZr.
      * rewrite stack_size_push. lia.
    + rewrite (get_smallest_some _ NZu). rewrite abs_stack_push. rewrite IH.
      * cbn [rev]. rewrite run_stack_push. rewrite <- !app_assoc. cbn [app].
        assert (ZL : forall (m : trans) X, (k + 1 + zlen X = k + zlen (m :: X))%Z)
          by (intros; unfold zlen; simpl length; lia).
        rewrite (ZL (u, tp, smallest (opt_set K (Node u o ch)))). reflexivity.
      * apply Forall_push; [|exact HRr]. cbn [fst]. exact HRc.
      * apply Forall_push; [|exact HOr]. cbn [fst]. exact HOc.
      * rewrite stack_nonzero_push. rewrite NZc. exact NZr.
      * rewrite stack_size_push. lia.
Qed.

End Preorder.

(* the whole preorder phase, from the virtual root (first iteration: the ancestral state is
   in the virtual root's set in both modes, 7310-7314) *)
Lemma c_preorder_eq_rose_lemma K ta os roots a Sv lc :
  get (ta_left_child ta) (zlen (ta_flags ta)) = Ok lc ->
  sibs (ta_right_sib ta) lc (map tid roots) ->
  (length roots <= length (ta_right_sib ta))%nat ->
  Forall (RepS ta) roots -> Forall (OsOk K os) roots ->
  get os (zlen (ta_flags ta)) = Ok Sv -> bit_is_set Sv a = true ->
  forallb (sets_nonzero K) roots = true ->
  (fsize roots < length (ta_left_child ta))%nat ->
  preorder_loop (S (length (ta_left_child ta))) ta os [(zlen (ta_flags ta), tsk_null, a)] 0 [] =
  Ok (assign_children K roots a (-1) 0).
Proof.
  intros Hlc Hsibs Hwide HR HO HSv Hbit NZ Hsize.
  cbn [preorder_loop]. rewrite HSv. cbn [bind]. rewrite Hlc. cbn [bind].
  rewrite (chain_sibs _ _ _ _ Hsibs) by (rewrite map_length; lia). cbn [bind]. rewrite Hbit.
  change (@nil (Z * Z * N)) with (abs_stack []) at 1. unfold tsk_null.
  rewrite abs_stack_push. rewrite (preorder_loop_sim K ta os).
  - cbn [rev app]. rewrite run_stack_push. cbn [run_stack]. rewrite app_nil_r. reflexivity.
  - apply Forall_push; [|constructor]. cbn [fst]. exact HR.
  - apply Forall_push; [|constructor]. cbn [fst]. exact HO.
  - rewrite stack_nonzero_push. rewrite NZ. reflexivity.
  - rewrite stack_size_push. unfold stack_size. simpl. lia.
Qed.

(* ------------------------------------------------------------------------- *)
(* the Hartigan loop                                                          *)
(* ------------------------------------------------------------------------- *)
(* structure + flags *)
Inductive RepF (ta : tree_arrays) : tree -> Prop :=
| RepF_node : forall u o ch lc f,
    get (ta_left_child ta) u = Ok lc ->
    sibs (ta_right_sib ta) lc (map tid ch) ->
    (length ch <= length (ta_right_sib ta))%nat ->
    get (ta_flags ta) u = Ok f ->
    Z.odd (f / c20_tsk_node_is_sample) = (match o with NotSample => false | _ => true end) ->
    Forall (RepF ta) ch ->
    RepF ta (Node u o ch).

(* optimal_set[] after the initialisation loop 7252-7266 *)
Inductive InitOk (os : list N) : tree -> Prop :=
| InitOk_node : forall u o ch,
    get os u = Ok (init_set false o) -> Forall (InitOk os) ch -> InitOk os (Node u o ch).

Lemma RepF_RepS ta t : RepF ta t -> RepS ta t.
Proof.
  induction t as [u o ch IH] using tree_ind'. intros H. inversion H; subst.
  econstructor; try eassumption. rewrite Forall_forall in *. intros c Hc. apply IH; auto.
Qed.

Lemma InitOk_ext os os' t : (forall v, In v (ids t) -> get os' v = get os v) -> InitOk os t -> InitOk os' t.
Proof.
  induction t as [u o ch IH] using tree_ind'. intros E H. inversion H; subst. constructor.
  - rewrite E; [assumption | left; reflexivity].
  - rewrite Forall_forall in *. intros c Hc. apply IH; [exact Hc | | auto].
    intros v Hv. apply E. rewrite ids_node. right. unfold forest_ids. apply in_flat_map. eauto.
Qed.

Lemma OsOk_ext K os os' t : (forall v, In v (ids t) -> get os' v = get os v) -> OsOk K os t -> OsOk K os' t.
Proof.
  induction t as [u o ch IH] using tree_ind'. intros E H. inversion H; subst. constructor.
  - rewrite E; [assumption | left; reflexivity].
  - rewrite Forall_forall in *. intros c Hc. apply IH; [exact Hc | | auto].
    intros v Hv. apply E. rewrite ids_node. right. unfold forest_ids. apply in_flat_map. eauto.
Qed.

(* one iteration of the loop 7289-7309 *)
Definition hartigan_step (fx : bool) (ta : tree_arrays) (K : nat) (u : Z) (os : list N) : res (list N) :=
  do lc <- get (ta_left_child ta) u;
  do cs <- chain (S (length (ta_right_sib ta))) (ta_right_sib ta) lc;
  do sets <- fold_right (fun v acc => do l <- acc; do s <- get os v; Ok (s :: l)) (Ok []) cs;
  do is_sample <- (if (u =? zlen (ta_flags ta))%Z then Ok false else
                   do f <- get (ta_flags ta) u; Ok (Z.odd (f / c20_tsk_node_is_sample)));
  do cur <- get os u;
  if negb is_sample || (fx && N.eqb cur 0) then set os u (N.lor cur (hartigan_set K sets)) else Ok os.

Lemma hartigan_loop_cons fx ta K u nodes os :
  hartigan_loop fx ta K (u :: nodes) os = do os' <- hartigan_step fx ta K u os; hartigan_loop fx ta K nodes os'.
Proof.
  cbn [hartigan_loop]. unfold hartigan_step.
  destruct (get (ta_left_child ta) u); try reflexivity. cbn [bind].
  destruct (chain _ _ _); try reflexivity. cbn [bind].
  destruct (fold_right _ _ _); try reflexivity. cbn [bind].
  destruct (if (u =? zlen (ta_flags ta))%Z then _ else _); try reflexivity. cbn [bind].
  destruct (get os u); try reflexivity. cbn [bind].
  destruct (negb a2 || (fx && N.eqb a3 0)); reflexivity.
Qed.

Lemma hartigan_loop_app fx ta K l1 : forall l2 os,
  hartigan_loop fx ta K (l1 ++ l2) os = do os' <- hartigan_loop fx ta K l1 os; hartigan_loop fx ta K l2 os'.
Proof.
  induction l1 as [|u r IH]; intros l2 os; [reflexivity|].
  cbn [app]. rewrite !hartigan_loop_cons. destruct (hartigan_step fx ta K u os); try reflexivity.
  cbn [bind]. apply IH.
Qed.

Lemma child_sets K os ch : Forall (OsOk K os) ch ->
  fold_right (fun v acc => do l <- acc; do s <- get os v; Ok (s :: l)) (Ok []) (map tid ch) =
  Ok (map (opt_set K) ch).
Proof.
  induction 1 as [|c r Hc Hr IH]; [reflexivity|]. cbn [map fold_right]. rewrite IH. cbn [bind].
  inversion Hc; subst. cbn [tid]. rewrite H. reflexivity.
Qed.

Lemma RepF_id_lt ta t : RepF ta t -> (tid t <> zlen (ta_flags ta)).
Proof.
  intros H. inversion H; subst. cbn [tid]. intros E.
  assert (X : exists a, get (ta_flags ta) u = Ok a) by eauto. apply get_ok_iff in X. lia.
Qed.

Section Hartigan.
Variable K : nat.
Variable ta : tree_arrays.

Definition HartP (t : tree) : Prop :=
  RepF ta t -> NoDup (ids t) -> forall os, InitOk os t ->
  exists os', hartigan_loop false ta K (post_ids t) os = Ok os' /\ OsOk K os' t /\
              (forall v, ~ In v (ids t) -> get os' v = get os v).

Lemma hartigan_forest ch : Forall HartP ch -> Forall (RepF ta) ch -> NoDup (forest_ids ch) ->
  forall os, Forall (InitOk os) ch ->
  exists os', hartigan_loop false ta K (flat_map post_ids ch) os = Ok os' /\ Forall (OsOk K os') ch /\
              (forall v, ~ In v (forest_ids ch) -> get os' v = get os v).
Proof.
  induction 1 as [|c r Hc Hr IH]; intros HR ND os HI.
  - exists os. split; [reflexivity|]. split; [constructor | auto].
  - inversion HR as [|? ? HRc HRr]; subst. inversion HI as [|? ? HIc HIr]; subst.
    rewrite forest_ids_cons in ND. cbn [flat_map]. rewrite hartigan_loop_app.
    destruct (Hc HRc (NoDup_app_l _ _ ND) os HIc) as [os1 [E1 [O1 U1]]]. rewrite E1. cbn [bind].
    assert (HIr1 : Forall (InitOk os1) r).
    { rewrite Forall_forall in *. intros x Hx. apply (InitOk_ext os); [|auto].
      intros v Hv. apply U1. intros Hin. eapply NoDup_app_disj; [exact ND | exact Hin |].
      unfold forest_ids. apply in_flat_map. eauto. }
    destruct (IH HRr (NoDup_app_r _ _ ND) os1 HIr1) as [os2 [E2 [O2 U2]]].
    exists os2. split; [exact E2|]. split.
    + constructor; [|exact O2]. apply (OsOk_ext K os1); [|exact O1].
      intros v Hv. apply U2. intros Hin. eapply NoDup_app_disj; [exact ND | exact Hv | exact Hin].
    + intros v Hv. rewrite forest_ids_cons in Hv. rewrite U2, U1; [reflexivity | |];
        intros X; apply Hv; apply in_or_app; [left | right]; exact X.
Qed.

Lemma hartigan_tree : forall t, HartP t.
Proof.
  induction t as [u o ch IH] using tree_ind'. intros HR ND os HI.
  inversion HR as [? ? ? lc f Hlc Hsibs Hwide Hf Hodd HRc]; subst.
  inversion HI as [? ? ? Hinit HIc]; subst.
  rewrite ids_node in ND. inversion ND as [|? ? Hu NDc]; subst.
  destruct (hartigan_forest ch IH HRc NDc os HIc) as [os2 [E2 [O2 U2]]].
  cbn [post_ids]. rewrite hartigan_loop_app, E2. cbn [bind]. rewrite hartigan_loop_cons.
  cbn [hartigan_loop].
  assert (Hu2 : get os2 u = Ok (init_set false o)) by (rewrite U2; assumption).
  assert (NEu : (u =? zlen (ta_flags ta))%Z = false).
  { apply Z.eqb_neq. apply (RepF_id_lt ta (Node u o ch) HR). }
  unfold hartigan_step. rewrite Hlc. cbn [bind].
  rewrite (chain_sibs _ _ _ _ Hsibs) by (rewrite map_length; lia). cbn [bind].
  rewrite (child_sets K os2 ch O2). cbn [bind]. rewrite NEu, Hf. cbn [bind]. rewrite Hodd, Hu2. cbn [bind andb].
  destruct o as [| |g]; cbn [negb orb init_set].
  - (* non-sample: the Hartigan step *)
    destruct (set_ok os2 u (N.lor 0 (hartigan_set K (map (opt_set K) ch))) _ Hu2) as [os3 E3].
    rewrite E3. cbn [bind]. exists os3. split; [reflexivity|]. split.
    + constructor.
      * rewrite (get_set_same _ _ _ _ E3). rewrite N.lor_0_l. reflexivity.
      * rewrite Forall_forall in *. intros c Hc. apply (OsOk_ext K os2); [|auto].
        intros v Hv. apply (get_set_other _ _ _ _ _ E3). intros X; subst v. apply Hu.
        unfold forest_ids. apply in_flat_map. eauto.
    + intros v Hv. rewrite ids_node in Hv.
      rewrite (get_set_other _ _ _ _ _ E3) by (intros X; apply Hv; left; exact X).
      apply U2. intros X. apply Hv. right. exact X.
  - exists os2. split; [reflexivity|]. split; [constructor; assumption|].
    intros v Hv. apply U2. intros X. apply Hv. rewrite ids_node. right. exact X.
  - exists os2. split; [reflexivity|]. split; [constructor; assumption|].
    intros v Hv. apply U2. intros X. apply Hv. rewrite ids_node. right. exact X.
Qed.

(* the whole Hartigan phase on the postorder of the forest followed by the virtual root *)
Lemma c_hartigan_eq_rose_lemma roots os lc :
  get (ta_left_child ta) (zlen (ta_flags ta)) = Ok lc ->
  sibs (ta_right_sib ta) lc (map tid roots) ->
  (length roots <= length (ta_right_sib ta))%nat ->
  Forall (RepF ta) roots -> NoDup (forest_ids roots) ->
  Forall (InitOk os) roots -> get os (zlen (ta_flags ta)) = Ok 0%N ->
  exists os', hartigan_loop false ta K (flat_map post_ids roots ++ [zlen (ta_flags ta)]) os = Ok os' /\
              Forall (OsOk K os') roots /\
              get os' (zlen (ta_flags ta)) = Ok (hartigan_set K (map (opt_set K) roots)).
Proof.
  intros Hlc Hsibs Hwide HR ND HI HN.
  assert (P : Forall HartP roots) by (apply Forall_forall; intros; apply hartigan_tree).
  destruct (hartigan_forest roots P HR ND os HI) as [os2 [E2 [O2 U2]]].
  rewrite hartigan_loop_app, E2. cbn [bind]. rewrite hartigan_loop_cons. cbn [hartigan_loop].
  assert (NotIn : ~ In (zlen (ta_flags ta)) (forest_ids roots)).
  { intros X. unfold forest_ids in X. apply in_flat_map in X. destruct X as [r [Hr Hin]].
    rewrite Forall_forall in HR. specialize (HR r Hr).
    clear -HR Hin. revert Hin. induction r as [u o ch IH] using tree_ind'. intros Hin.
    rewrite ids_node in Hin. destruct Hin as [E|Hin].
    - apply (RepF_id_lt ta _ HR). cbn [tid]. exact E.
    - inversion HR; subst. unfold forest_ids in Hin. apply in_flat_map in Hin. destruct Hin as [c [Hc Hin]].
      rewrite Forall_forall in *. eapply IH; eauto. }
  assert (HN2 : get os2 (zlen (ta_flags ta)) = Ok 0%N) by (rewrite U2; assumption).
  unfold hartigan_step. rewrite Hlc. cbn [bind].
  rewrite (chain_sibs _ _ _ _ Hsibs) by (rewrite map_length; lia). cbn [bind].
  rewrite (child_sets K os2 roots O2). cbn [bind]. rewrite Z.eqb_refl. cbn [bind]. rewrite HN2. cbn [bind negb orb].
  destruct (set_ok os2 (zlen (ta_flags ta)) (N.lor 0 (hartigan_set K (map (opt_set K) roots))) _ HN2) as [os3 E3].
  rewrite E3. cbn [bind]. exists os3. split; [reflexivity|]. split.
  - rewrite Forall_forall in *. intros c Hc. apply (OsOk_ext K os2); [|auto].
    intros v Hv. apply (get_set_other _ _ _ _ _ E3). intros X; subst v. apply NotIn.
    unfold forest_ids. apply in_flat_map. eauto.
  - rewrite (get_set_same _ _ _ _ E3). rewrite N.lor_0_l. reflexivity.
Qed.

End Hartigan.

(* ------------------------------------------------------------------------- *)
(* [rose_of_arrays] succeeds only on arrays that represent the forest it returns *)
(* ------------------------------------------------------------------------- *)
Lemma sibs_det next : forall v l1 l2, sibs next v l1 -> sibs next v l2 -> l1 = l2.
Proof.
  intros v l1. revert v. induction l1 as [|x r IH]; intros v l2 H1 H2; inversion H1; subst; inversion H2; subst;
    try reflexivity; try congruence.
  f_equal. assert (n = n0) by congruence. subst. eapply IH; eassumption.
Qed.

Lemma sibs_suffix next : forall l v x, sibs next v l -> In x l ->
  exists pre l', l = pre ++ l' /\ sibs next x l' /\ l' <> [].
Proof.
  induction l as [|y r IH]; intros v x H Hin; [contradiction|]. inversion H; subst.
  destruct Hin as [->|Hin].
  - exists [], (x :: r). repeat split; [exact H | discriminate].
  - destruct (IH n x H5 Hin) as [pre [l' [E [S NE]]]]. exists (y :: pre), l'. subst r. repeat split; assumption.
Qed.

Lemma sibs_nodup next : forall l v, sibs next v l -> NoDup l.
Proof.
  induction l as [|y r IH]; intros v H; [constructor|]. inversion H; subst. constructor; [|eapply IH; eassumption].
  intros Hin. destruct (sibs_suffix next r n y H5 Hin) as [pre [l' [E [S NE]]]].
  pose proof (sibs_det next y _ _ H S) as D. subst r.
  assert (length (y :: pre ++ l') = length l') by (rewrite D; reflexivity).
  simpl in H0. rewrite app_length in H0. lia.
Qed.

Lemma sibs_valid next : forall l v, sibs next v l -> forall x, In x l -> (0 <= x < zlen next)%Z.
Proof.
  induction l as [|y r IH]; intros v H x Hin; [contradiction|]. inversion H; subst.
  destruct Hin as [->|Hin]; [|eapply IH; eassumption].
  apply get_ok_iff. eauto.
Qed.

Lemma sibs_width next l v : sibs next v l -> (length l <= length next)%nat.
Proof.
  intros H. pose proof (sibs_nodup next l v H) as ND. pose proof (sibs_valid next l v H) as V.
  assert (I : incl l (map Z.of_nat (seq 0 (length next)))).
  { intros x Hx. specialize (V x Hx). unfold zlen in V. apply in_map_iff. exists (Z.to_nat x).
    split; [lia | apply in_seq; lia]. }
  pose proof (NoDup_incl_length ND I) as L. rewrite map_length, seq_length in L. exact L.
Qed.

Lemma obs_of_flags ta g u o : obs_of ta g u = Ok o ->
  exists f, get (ta_flags ta) u = Ok f /\
            Z.odd (f / c20_tsk_node_is_sample) = (match o with NotSample => false | _ => true end).
Proof.
  unfold obs_of. destruct (get (ta_flags ta) u) as [f| | |]; cbn [bind]; try discriminate.
  destruct (Z.odd (f / c20_tsk_node_is_sample)) eqn:E.
  - destruct (index_of u (ta_samples ta) 0); [|discriminate]. destruct (nth_error g n); [|discriminate].
    intros H. exists f. split; [reflexivity|]. rewrite E.
    destruct (z =? c20_tsk_missing_data)%Z; inversion H; reflexivity.
  - intros H. exists f. split; [reflexivity|]. rewrite E. inversion H; reflexivity.
Qed.

Lemma rose_chain_rep ta g : forall fuel v ts, rose_chain fuel ta g v = Ok ts ->
  sibs (ta_right_sib ta) v (map tid ts) /\ Forall (RepF ta) ts.
Proof.
  induction fuel as [|f IH]; intros v ts H; [discriminate|]. cbn [rose_chain] in H. unfold tsk_null in H.
  destruct (v =? -1)%Z eqn:Ev.
  - inversion H; subst. apply Z.eqb_eq in Ev. subst. split; constructor.
  - apply Z.eqb_neq in Ev.
    destruct (obs_of ta g v) as [o| | |] eqn:Eo; cbn [bind] in H; try discriminate.
    destruct (get (ta_left_child ta) v) as [lc| | |] eqn:Elc; cbn [bind] in H; try discriminate.
    destruct (rose_chain f ta g lc) as [ch| | |] eqn:Ech; cbn [bind] in H; try discriminate.
    destruct (get (ta_right_sib ta) v) as [rs| | |] eqn:Ers; cbn [bind] in H; try discriminate.
    destruct (rose_chain f ta g rs) as [rest| | |] eqn:Erest; cbn [bind] in H; try discriminate.
    inversion H; subst. destruct (IH lc ch Ech) as [S1 R1]. destruct (IH rs rest Erest) as [S2 R2].
    destruct (obs_of_flags ta g v o Eo) as [fl [Hf Hodd]].
    split.
    + cbn [map tid]. econstructor; eassumption.
    + constructor; [|exact R2]. econstructor; try eassumption.
      pose proof (sibs_width _ _ _ S1) as W. rewrite map_length in W. exact W.
Qed.

Lemma rose_of_arrays_rep ta g roots : rose_of_arrays ta g = Ok roots ->
  exists lc, get (ta_left_child ta) (zlen (ta_flags ta)) = Ok lc /\
             sibs (ta_right_sib ta) lc (map tid roots) /\
             (length roots <= length (ta_right_sib ta))%nat /\
             Forall (RepF ta) roots.
Proof.
  unfold rose_of_arrays. destruct (get (ta_left_child ta) (zlen (ta_flags ta))) as [lc| | |]; cbn [bind]; try discriminate.
  intros H. apply rose_chain_rep in H as [S R]. exists lc. repeat split; try assumption.
  pose proof (sibs_width _ _ _ S) as W. rewrite map_length in W. exact W.
Qed.

(* ------------------------------------------------------------------------- *)
(* L2 = L0, assembled                                                          *)
(* ------------------------------------------------------------------------- *)
Lemma init_okb_InitOk os t : init_okb false os t = true -> InitOk os t.
Proof.
  induction t as [u o ch IH] using tree_ind'. cbn [init_okb]. intros H.
  apply andb_true_iff in H as [H1 H2]. constructor.
  - destruct (get os u) as [x| | |]; try discriminate. apply N.eqb_eq in H1. subst. reflexivity.
  - rewrite forallb_forall in H2. rewrite Forall_forall in *. intros c Hc. apply IH; auto.
Qed.

Lemma RepF_not_root ta roots : Forall (RepF ta) roots -> ~ In (zlen (ta_flags ta)) (forest_ids roots).
Proof.
  intros HR X. unfold forest_ids in X. apply in_flat_map in X. destruct X as [r [Hr Hin]].
  rewrite Forall_forall in HR. specialize (HR r Hr).
  clear -HR Hin. revert Hin. induction r as [u o ch IH] using tree_ind'. intros Hin.
  rewrite ids_node in Hin. destruct Hin as [E|Hin].
  - apply (RepF_id_lt ta _ HR). cbn [tid]. exact E.
  - inversion HR; subst. unfold forest_ids in Hin. apply in_flat_map in Hin. destruct Hin as [c [Hc Hin]].
    rewrite Forall_forall in *. eapply IH; eauto.
Qed.

(* The C function over the arrays returns what the rose-tree model returns on the forest
   the arrays represent — given the two facts that are only evaluated, not proved:
   the initialisation loop gives every node its initial set ([init_okb], and 0 at the
   virtual root) and tsk_tree_postorder_from yields the left-to-right postorder. *)
Lemma c_map_mutations_eq_rose_partial_lemma ta g anc os0 na0 nm roots :
  init_sets false (ta_samples ta) g (repeat 0%N (S (length (ta_flags ta)))) 0 0 = Ok (os0, na0, nm) ->
  nm <> 0%Z ->
  match anc with Some a => (0 <= a < c20_hartigan_max_alleles)%Z | None => True end ->
  rose_of_arrays ta g = Ok roots ->
  forallb (init_okb false os0) roots = true ->
  get os0 (zlen (ta_flags ta)) = Ok 0%N ->
  postorder_from_virtual_root ta = Ok (flat_map post_ids roots ++ [zlen (ta_flags ta)]) ->
  nodupb (forest_ids roots) = true ->
  (fsize roots < length (ta_left_child ta))%nat ->
  forallb (sets_nonzero (Z.to_nat (final_num_alleles na0 anc))) roots = true ->
  c_map_mutations_gen false ta g anc =
  match mm_rose (Z.to_nat (final_num_alleles na0 anc)) roots (option_map Z.to_N anc) with
  | Some (a, tr) => Ok (Z.of_N a, tr)
  | None => Err ERR_NONTERMINATION
  end.
Proof.
  intros Hinit Hnm Hanc Hrose Hiok HN0 Hpost ND Hsize NZ.
  set (K := Z.to_nat (final_num_alleles na0 anc)) in *.
  destruct (rose_of_arrays_rep ta g roots Hrose) as [lc [Hlc [Hsibs [Hwide HR]]]].
  apply nodupb_NoDup in ND.
  assert (HI : Forall (InitOk os0) roots).
  { rewrite forallb_forall in Hiok. apply Forall_forall. intros c Hc. apply init_okb_InitOk. auto. }
  destruct (c_hartigan_eq_rose_lemma K ta roots os0 lc Hlc Hsibs Hwide HR ND HI HN0) as [os1 [E1 [O1 HSv]]].
  pose proof (RepF_not_root ta roots HR) as NotIn.
  assert (HRs : Forall (RepS ta) roots).
  { rewrite Forall_forall in *. intros c Hc. apply RepF_RepS. auto. }
  unfold c_map_mutations_gen. rewrite Hinit. cbn [bind].
  assert (Enm : (nm =? 0)%Z = false) by (apply Z.eqb_neq; exact Hnm). rewrite Enm.
  unfold mm_rose. rewrite NZ. cbn [negb].
  destruct anc as [a|].
  - (* fixed ancestral state *)
    destruct Hanc as [Ha0 Ha1].
    assert (Eg : ((a <? 0) || (a >=? c20_hartigan_max_alleles))%Z = false).
    { apply orb_false_iff. split; [apply Z.ltb_ge; lia | rewrite Z.geb_leb; apply Z.leb_gt; lia]. }
    rewrite Eg. cbn [bind]. rewrite Hpost. cbn [bind].
    change (Z.to_nat (if (a >=? na0 + 1)%Z then a + 1 else na0 + 1)%Z) with K.
    rewrite E1. cbn [bind].
    assert (X : exists x, get os1 (zlen (ta_flags ta)) = Ok x) by eauto.
    destruct X as [x Hx]. destruct (set_ok os1 _ UINT64_MAX _ Hx) as [os2 E2]. rewrite E2. cbn [bind].
    assert (O2 : Forall (OsOk K os2) roots).
    { rewrite Forall_forall in *. intros c Hc. apply (OsOk_ext K os1); [|auto].
      intros v Hv. apply (get_set_other _ _ _ _ _ E2). intros Y; subst v. apply NotIn.
      unfold forest_ids. apply in_flat_map. eauto. }
    rewrite (c_preorder_eq_rose_lemma K ta os2 roots (Z.to_N a) UINT64_MAX lc Hlc Hsibs Hwide HRs O2
               (get_set_same _ _ _ _ E2)); [| | exact NZ | exact Hsize].
    + cbn [bind option_map]. rewrite Z2N.id by lia. reflexivity.
    + unfold bit_is_set. rewrite testbit_uint64_max. apply N.ltb_lt.
      unfold c20_hartigan_max_alleles in Ha1. lia.
  - (* free ancestral state *)
    cbn [bind]. rewrite Hpost. cbn [bind].
    change (Z.to_nat (na0 + 1)%Z) with K.
    rewrite E1. cbn [bind]. rewrite HSv. cbn [bind option_map].
    destruct (get_smallest_set_bit (hartigan_set K (map (opt_set K) roots))) as [a|] eqn:Ea; [|reflexivity].
    cbn [bind]. rewrite N2Z.id.
    rewrite (c_preorder_eq_rose_lemma K ta os1 roots a _ lc Hlc Hsibs Hwide HRs O1 HSv); [| | exact NZ | exact Hsize].
    + reflexivity.
    + destruct (hartigan_set K (map (opt_set K) roots)) as [|p]; [discriminate|].
      inversion Ea; subst. apply ctz_testbit.
Qed.
