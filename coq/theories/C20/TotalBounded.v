(* C20 — totality and the size bound in one statement: on every admissible input the current
   map_mutations model returns a placement, and that placement has at most one transition per
   observed sample.  Corollary of mm_total_current and transitions_bounded_current. *)
From Coq Require Import List ZArith NArith Bool.
From TskVerif Require Import Base.Common Gen.Generated C20.Model C20.Spec C20.CurrentProofs.
Import ListNotations.

Lemma mm_total_bounded_proof (K : nat) (roots : list tree) (anc : option N) :
  (1 <= K <= 64)%nat -> forallb (obs_lt K) roots = true ->
  match anc with Some x => (x < N.of_nat K)%N | None => True end ->
  exists a tr, mm_model K roots anc = Some (a, tr) /\ (length tr <= forest_num_obs roots)%nat.
Proof.
  intros HK Ho Ha. destruct (mm_total_current K roots anc HK Ho) as (a & tr & E).
  exists a, tr. split; [exact E|]. exact (transitions_bounded_current K roots anc a tr HK Ho Ha E).
Qed.
