(* Property C01 — statements only.  Each theorem is closed by [exact] of a lemma proved in
   the C01/ files; Print Assumptions is evaluated by ./check on every run. *)
From Coq Require Import List ZArith Bool Sorting.Sorted.
From TskVerif Require Import Base.Common.
From TskVerif Require Import C01.Model.
From TskVerif Require Import C01.SpanProofs.
From TskVerif Require Import C01.SweepProofs.
From TskVerif Require Import C01.TreeProofs.
From TskVerif Require Import C01.IndexProofs.
From TskVerif Require Import C01.QueryProofs.
From TskVerif Require Import C01.EdgeProofs.
From TskVerif Require Import C01.LinkProofs.
From TskVerif Require Import C01.RepProofs.
From TskVerif Require Import C01.TraversalProofs.
From TskVerif Require Import C01.ClosedProofs.
From TskVerif Require Import C01.NumEdgesProofs.
From TskVerif Require Import C01.OrderProofs.
From TskVerif Require Import C01.PostorderProofs.
From TskVerif Require Import C01.ViewsProofs.
From TskVerif Require Import C01.Theorems.
From TskVerif Require Import C01.ReverseProofs.
From TskVerif Require Import C01.SitesProofs.
From TskVerif Require Import C01.MutEdgeProofs.
From TskVerif Require Import C01.TotalProofs.
From TskVerif Require Import C01.ReverseTop.
From TskVerif Require Import C01.LevelProofs.
From TskVerif Require Import C01.CoiterProofs.
From TskVerif Require Import C01.NavModel.
From TskVerif Require Import C01.NavPosProofs.
From TskVerif Require Import C01.NavProofs.
From TskVerif Require Import C01.NavTop.
Import ListNotations.
Open Scope Z_scope.

(* the cursor loop `while (j < M && cond(order[j])) j++` consumes exactly the longest prefix
   on which the condition holds *)
Theorem span_cursor : forall (A : Type) (p : A -> bool) (l : list A),
  fst (span p l) ++ snd (span p l) = l /\
  (forall x, In x (fst (span p l)) -> p x = true) /\
  match snd (span p l) with [] => True | x :: _ => p x = false end.
Proof. exact (@span_cursor_exact). Qed.

(* parent_at (the executable definition used below) means: p is the parent of u at x iff an
   edge (l, r, p, u) with l <= x < r exists *)
Theorem parent_at_spec : forall L ns es x u p,
  valid_edgesb L ns es = true ->
  (parent_at es x u = p /\ p <> NULL) <->
  (exists e, In e es /\ echild e = u /\ eparent e = p /\ eleft e <= x < eright e).
Proof. exact parent_at_spec_lemma. Qed.

(* tsk_table_collection_build_index yields permutations of the edge ids sorted by left / by
   right, and loading a valid table collection never fails (no OOB, no fuel exhaustion in
   the sweep that computes breakpoints and num_trees) *)
Theorem build_index_sorted_perm : forall L ns es Ins Rem,
  valid_edgesb L ns es = true -> build_index ns es = Ok (Ins, Rem) -> index_sorted es Ins Rem.
Proof. exact build_index_sorted_b. Qed.

Theorem load_total : forall L ns es,
  valid_edgesb L ns es = true -> exists q, load L ns es = Ok q.
Proof. exact load_total_lemma. Qed.

(* (a) For every valid edge table, every pair of index arrays that are permutations sorted by
   left / right, every tree option o and every k: if first(); next()^k returns a tree, then it
   is tree k, its interval is [bps[k], bps[k+1]) and for EVERY x in that interval and every
   node u, parent[u] = parent_at x u. *)
Theorem sweep_parent_exact : forall L ns es Ins Rem q,
  valid_edgesb L ns es = true -> index_sorted es Ins Rem ->
  mk_tseq L ns es Ins Rem = Ok q ->
  forall o k t, tree_at_index q o k = Ok t ->
  exists l r,
    get (q_bps q) (Z.of_nat k) = Ok l /\ get (q_bps q) (Z.of_nat k + 1) = Ok r /\
    p_index (t_pos t) = Z.of_nat k /\ p_left (t_pos t) = l /\ p_right (t_pos t) = r /\ l < r /\
    forall x, l <= x < r -> forall u, 0 <= u < zlen ns ->
      get (t_parent t) u = Ok (parent_at es x u).
Proof. exact sweep_parent_exact_lemma. Qed.

(* (b) breakpoints are strictly increasing from 0 to L, there are num_trees + 1 of them, and
   they are exactly 0, L and the edge end-points *)
Theorem breakpoints_partition : forall L ns es Ins Rem q,
  valid_edgesb L ns es = true -> index_sorted es Ins Rem ->
  mk_tseq L ns es Ins Rem = Ok q ->
  Sorted Z.lt (q_bps q) /\ hd 0 (q_bps q) = 0 /\ last (q_bps q) 0 = L /\
  zlen (q_bps q) = q_ntrees q + 1 /\ 0 < q_ntrees q /\
  forall x, In x (q_bps q) <->
    x = 0 \/ x = L \/ exists e, In e es /\ (x = eleft e \/ x = eright e).
Proof. exact breakpoints_partition_lemma. Qed.

(* (c) edge_diffs (forward; with and without the terminal entry) has one entry per tree whose
   interval is the tree's, edges_out / edges_in are exactly the edges (in index order) with
   right = left_k / left = left_k, and replaying them on the parent array from the empty
   forest never fails and reproduces parent_at x for every x of every interval *)
Theorem edge_diffs_replay : forall L ns es Ins Rem q,
  valid_edgesb L ns es = true -> index_sorted es Ins Rem ->
  mk_tseq L ns es Ins Rem = Ok q ->
  exists steps Ps,
    edge_diffs_forward L (q_I q) (q_O q) false = Ok (map diff_of_step steps) /\
    edge_diffs_forward L (q_I q) (q_O q) true =
      Ok (map diff_of_step steps ++
          [(L, L, map fst (filter (fun ie => iright ie =? L) (q_O q)), [])]) /\
    zlen steps = q_ntrees q /\
    (forall k s, nth_error steps k = Some s ->
       get (q_bps q) (Z.of_nat k) = Ok (s_left s) /\ get (q_bps q) (Z.of_nat k + 1) = Ok (s_right s) /\
       s_out s = filter (fun ie => iright ie =? s_left s) (q_O q) /\
       s_in s = filter (fun ie => ileft ie =? s_left s) (q_I q)) /\
    par_steps (repeat NULL (Z.to_nat (zlen ns + 1))) steps = Ok Ps /\
    Forall2 (fun s P => forall x, s_left s <= x < s_right s ->
               forall u, 0 <= u < zlen ns -> get P u = Ok (parent_at es x u)) steps Ps.
Proof. exact edge_diffs_replay_lemma. Qed.

(* (a), (b) for the load path: the indexes are the ones tsk_table_collection_build_index builds *)
Theorem load_parent_exact : forall L ns es q o k t,
  valid_edgesb L ns es = true -> load L ns es = Ok q -> tree_at_index q o k = Ok t ->
  exists l r,
    get (q_bps q) (Z.of_nat k) = Ok l /\ get (q_bps q) (Z.of_nat k + 1) = Ok r /\
    p_index (t_pos t) = Z.of_nat k /\ p_left (t_pos t) = l /\ p_right (t_pos t) = r /\ l < r /\
    forall x, l <= x < r -> forall u, 0 <= u < zlen ns ->
      get (t_parent t) u = Ok (parent_at es x u).
Proof. exact load_parent_exact_lemma. Qed.

Theorem load_breakpoints_partition : forall L ns es q,
  valid_edgesb L ns es = true -> load L ns es = Ok q ->
  Sorted Z.lt (q_bps q) /\ hd 0 (q_bps q) = 0 /\ last (q_bps q) 0 = L /\
  zlen (q_bps q) = q_ntrees q + 1 /\ 0 < q_ntrees q /\
  forall x, In x (q_bps q) <->
    x = 0 \/ x = L \/ exists e, In e es /\ (x = eleft e \/ x = eright e).
Proof. exact load_breakpoints_lemma. Qed.

(* (d, counts) in every tree of the sweep, for every node u:
     num_samples[u]         = [u is a sample]         + sum of num_samples[c] over the children c of u
     num_tracked_samples[u] = [u is a tracked sample] + sum of num_tracked_samples[c] over children
   where the children of u are the nodes c with parent[c] = u (and parent[] is parent_at by
   sweep_parent_exact); since parents are strictly older this determines the counts uniquely as
   the number of (tracked) samples in the subtree of u. *)
Theorem counts_local : forall L ns es Ins Rem q,
  valid_edgesb L ns es = true -> index_sorted es Ins Rem -> mk_tseq L ns es Ins Rem = Ok q ->
  forall o k t, tree_at_index q o k = Ok t ->
  forall u, 0 <= u < zlen ns ->
    exists a b,
      get (t_ns t) u = Ok a /\ a = ind (q_samples q) u + csum (t_parent t) (t_ns t) u /\
      get (t_nt t) u = Ok b /\ b = ind (o_tracked o) u + csum (t_parent t) (t_nt t) u.
Proof. exact counts_local_lemma. Qed.

(* (d, queries) in every tree of the sweep: every node has a finite ancestor path (parents are
   real nodes and strictly older, so no cycles); tsk_tree_get_depth returns the number of proper
   ancestors (-1 for the virtual root); tsk_tree_is_descendant(u, v) is true iff v is on the
   path from u upwards; tsk_tree_get_mrca returns the youngest common element of the two
   ancestor paths, or NULL iff there is none. *)
Theorem queries_correct : forall L ns es Ins Rem q,
  valid_edgesb L ns es = true -> index_sorted es Ins Rem -> mk_tseq L ns es Ins Rem = Ok q ->
  forall o k t, tree_at_index q o k = Ok t ->
  let N := zlen ns in let P := t_parent t in
  (forall u, 0 <= u <= N -> exists l, path P u l) /\
  (forall u p, get P u = Ok p -> p <> NULL -> 0 <= u < N /\ 0 <= p < N /\ tmq q u < tmq q p) /\
  (forall u r, depth N t u = Ok r ->
     (u = N /\ r = -1) \/ (u <> N /\ exists l, path P u (u :: l) /\ r = zlen l)) /\
  (forall u v b l, 0 <= u <= N -> 0 <= v <= N -> path P u l ->
     is_descendant N t u v = Ok b -> (b = true <-> In v l)) /\
  (forall u v m lu lv, 0 <= u < N -> 0 <= v < N -> path P u lu -> path P v lv ->
     mrca q t u v = Ok m ->
     (m <> NULL -> In m lu /\ In m lv /\ forall a, In a lu -> In a lv -> tmq q m <= tmq q a) /\
     (m = NULL -> forall a, In a lu -> ~ In a lv)).
Proof. exact queries_correct_lemma. Qed.

(* (d, edge array) in every tree of the sweep and for every x of its interval, edge[u] is the
   id i of the edge row with child u that covers x (get es i = that row), or NULL if there is
   none; [es_id es] is the edge table with the parent column replaced by the row id. *)
Theorem edge_id_spec : forall L ns es x u i,
  valid_edgesb L ns es = true ->
  (parent_at (es_id es) x u = i /\ i <> NULL) <->
  (exists e, get es i = Ok e /\ echild e = u /\ eleft e <= x < eright e).
Proof. exact edge_id_spec_lemma. Qed.

Theorem edge_array_exact : forall L ns es Ins Rem q,
  valid_edgesb L ns es = true -> index_sorted es Ins Rem -> mk_tseq L ns es Ins Rem = Ok q ->
  forall o k t, tree_at_index q o k = Ok t ->
  forall x, p_left (t_pos t) <= x < p_right (t_pos t) ->
  forall u, 0 <= u < zlen ns -> get (t_edge t) u = Ok (parent_at (es_id es) x u).
Proof. exact edge_array_exact_lemma. Qed.

(* (d, sibling lists — partial for links_consistent)  [Chain t p l]: walking
   left_child[p], right_sib, ... visits exactly the list l and ends at NULL, left_sib /
   right_child[p] describe the same list backwards.
   tsk_tree_insert_branch(p, c) appends c to the list of p and leaves every other parent's list
   (that shares no node with it) unchanged; tsk_tree_remove_branch(p, c) deletes c from the list
   of p, anywhere in the list, and leaves the others unchanged.
   Missing for the full links_consistent: the global invariant (each node in at most one list,
   list of p = {c | parent c = p}, list of the virtual root = roots under the threshold,
   num_children) carried through remove_edge / insert_edge; tied by exact correspondence. *)
Theorem insert_branch_appends : forall t p c t' l,
  insert_branch t p c = Ok t' -> Chain t p l -> NoDup l -> ~ In c l -> c <> NULL ->
  Chain t' p (l ++ [c]) /\
  (forall p' l', p' <> p -> Chain t p' l' -> ~ In c l' -> (forall x, In x l -> ~ In x l') -> Chain t' p' l').
Proof. exact insert_branch_chain. Qed.

Theorem remove_branch_unlinks : forall t p c t' l1 l2,
  remove_branch t p c = Ok t' -> Chain t p (l1 ++ c :: l2) -> NoDup (l1 ++ c :: l2) ->
  Chain t' p (l1 ++ l2) /\
  (forall p' l', p' <> p -> Chain t p' l' -> (forall x, In x (l1 ++ c :: l2) -> ~ In x l') -> Chain t' p' l').
Proof. exact remove_branch_chain. Qed.

(* (d, links_consistent + roots) in every tree of the sweep (any root_threshold >= 1) there are
   lists K p, one per node p and one for the virtual root N, such that
   - walking left_child[p], right_sib, ... yields exactly K p (and left_sib / right_child[p] the
     reverse), K p has no duplicates, num_children[p] = |K p|, and the model's child walk
     [children_of] (the loop of Tree.children / the traversals) returns K p without running
     out of fuel;
   - for a real node p: c is in K p  iff  parent[c] = p;
   - for the virtual root: c is in K N  iff  c has no parent and num_samples[c] >= root_threshold
     (so [roots] are exactly the parentless nodes that are ancestral to at least
     root_threshold samples). *)
Theorem links_consistent : forall L ns es Ins Rem q,
  valid_edgesb L ns es = true -> index_sorted es Ins Rem -> mk_tseq L ns es Ins Rem = Ok q ->
  forall o, 1 <= o_thr o -> forall k t, tree_at_index q o k = Ok t ->
  let N := zlen ns in
  exists K : Z -> list Z,
    (forall p, 0 <= p <= N ->
       Chain t p (K p) /\ NoDup (K p) /\ get (t_nc t) p = Ok (zlen (K p)) /\
       children_of t p = Ok (K p)) /\
    (forall p c, 0 <= p < N -> (In c (K p) <-> 0 <= c < N /\ get (t_parent t) c = Ok p)) /\
    (forall c, In c (K N) <->
       0 <= c < N /\ get (t_parent t) c = Ok NULL /\
       exists n, get (t_ns t) c = Ok n /\ o_thr o <= n).
Proof. exact links_consistent_top. Qed.

(* (d, preorder) [Pre K u l] is the recursive definition: l = u followed by the preorders of
   the children of u in list order.  A recursive preorder starts with u and contains exactly
   the descendants of u.  In every tree of the sweep tsk_tree_preorder_from(root) (the explicit
   stack loop) returns the recursive preorder of root over the child lists K of
   links_consistent (for root = -1: the concatenation over the roots in root order; for the
   virtual root: the virtual root followed by that). *)
Theorem preorder_members : forall K u l,
  Pre K u l -> hd NULL l = u /\ forall x, In x l <-> Desc K u x.
Proof. exact Pre_members. Qed.

Theorem preorder_correct : forall L ns es Ins Rem q,
  valid_edgesb L ns es = true -> index_sorted es Ins Rem -> mk_tseq L ns es Ins Rem = Ok q ->
  forall o, 1 <= o_thr o -> forall k t, tree_at_index q o k = Ok t ->
  let N := zlen ns in
  exists K : Z -> list Z,
    (forall p c, 0 <= p < N -> (In c (K p) <-> 0 <= c < N /\ get (t_parent t) c = Ok p)) /\
    (forall c, In c (K N) <->
       0 <= c < N /\ get (t_parent t) c = Ok NULL /\
       exists n, get (t_ns t) c = Ok n /\ o_thr o <= n) /\
    (forall p, 0 <= p <= N -> children_of t p = Ok (K p)) /\
    forall root out, preorder_from N t root = Ok out ->
      (root = -1 /\ exists ls, Forall2 (Pre K) (K N) ls /\ out = concat ls) \/
      (0 <= root <= N /\ Pre K root out).
Proof. exact preorder_correct_lemma. Qed.

(* (d, closed form of the counts) [sub_counts fuel P smp] evaluates, from scratch on a parent
   array, count(u) = smp u + sum of count(c) over the children c of u, to recursion depth fuel.
   In every tree of the sweep num_samples[u] / num_tracked_samples[u] equal that naive count of
   (tracked) sample nodes in the whole subtree of u (depth N+1 exhausts every subtree because
   parents are strictly older). *)
Theorem counts_closed_form : forall L ns es Ins Rem q,
  valid_edgesb L ns es = true -> index_sorted es Ins Rem -> mk_tseq L ns es Ins Rem = Ok q ->
  forall o k t, tree_at_index q o k = Ok t ->
  let N := zlen ns in
  forall u, 0 <= u < N ->
    get (t_ns t) u = get (sub_counts (S (Z.to_nat N)) (t_parent t) (ind (q_samples q))) u /\
    get (t_nt t) u = get (sub_counts (S (Z.to_nat N)) (t_parent t) (ind (o_tracked o))) u.
Proof. exact counts_closed_form_lemma. Qed.

(* (d, num_edges) num_edges is the number of nodes that have a parent *)
Theorem num_edges_exact : forall L ns es Ins Rem q,
  valid_edgesb L ns es = true -> index_sorted es Ins Rem -> mk_tseq L ns es Ins Rem = Ok q ->
  forall o k t, tree_at_index q o k = Ok t -> t_num_edges t = nparents (t_parent t).
Proof. exact num_edges_exact_lemma. Qed.

(* (d, roots) Tree.roots (left_root, right_sib, ...) returns, without running out of fuel, a
   duplicate-free list of exactly the parentless nodes with >= root_threshold samples below
   them, and num_roots is its length *)
Theorem roots_correct : forall L ns es Ins Rem q,
  valid_edgesb L ns es = true -> index_sorted es Ins Rem -> mk_tseq L ns es Ins Rem = Ok q ->
  forall o, 1 <= o_thr o -> forall k t, tree_at_index q o k = Ok t ->
  exists rs, roots_of (zlen ns) t = Ok rs /\ NoDup rs /\ get (t_nc t) (zlen ns) = Ok (zlen rs) /\
    forall c, In c rs <->
      0 <= c < zlen ns /\ get (t_parent t) c = Ok NULL /\ exists n, get (t_ns t) c = Ok n /\ o_thr o <= n.
Proof. exact roots_correct_lemma. Qed.

(* (d, timeasc / timedesc) for any tree and start node: Tree.timeasc is a permutation of the
   preorder whose keys (virtual root last, then time, then id) are sorted; timedesc is its
   reverse *)
Theorem timeasc_sorted_perm : forall q t root l,
  timeasc q t root = Ok l ->
  exists pre ks,
    preorder_from (q_N q) t root = Ok pre /\ Permutation.Permutation l pre /\
    Forall2 (fun u k => tkey q u = Ok k) l ks /\ StronglySorted kle ks.
Proof. exact timeasc_spec. Qed.

Theorem timedesc_is_reverse : forall q t root l,
  timedesc q t root = Ok l -> exists a, timeasc q t root = Ok a /\ l = rev a.
Proof. exact timedesc_spec. Qed.

(* (d, postorder) [Post K u l]: l = the postorders of the children of u in list order, then u.
   In every tree of the sweep tsk_tree_postorder_from(root) (explicit stack + the
   postorder_parent test `u != postorder_parent`) returns the recursive postorder over the child
   lists: of root itself; for root = -1 the concatenation over the roots; for the virtual root
   that concatenation followed by the virtual root. *)
Theorem postorder_correct : forall L ns es Ins Rem q,
  valid_edgesb L ns es = true -> index_sorted es Ins Rem -> mk_tseq L ns es Ins Rem = Ok q ->
  forall o, 1 <= o_thr o -> forall k t, tree_at_index q o k = Ok t ->
  let N := zlen ns in
  exists K : Z -> list Z,
    (forall p, 0 <= p <= N -> children_of t p = Ok (K p)) /\
    forall root out, postorder_from N t root = Ok out ->
      (root = -1 /\ exists ls, Forall2 (Post K) (K N) ls /\ out = concat ls) \/
      (root = N /\ exists ls, Forall2 (Post K) (K N) ls /\ out = concat ls ++ [N]) \/
      (0 <= root < N /\ Post K root out).
Proof. exact postorder_correct_lemma. Qed.

(* (d, Python-only orders) in every tree of the sweep Tree._inorder_traversal is the recursive
   inorder over the child lists ([InO]: the first |children|/2 subtrees, the node, the rest) and
   Tree._levelorder_traversal is the queue algorithm over the child lists ([BFS]: pop the head,
   append its children), started from the roots (root = None) or from the given node. *)
Theorem pyviews_correct : forall L ns es Ins Rem q,
  valid_edgesb L ns es = true -> index_sorted es Ins Rem -> mk_tseq L ns es Ins Rem = Ok q ->
  forall o, 1 <= o_thr o -> forall k t, tree_at_index q o k = Ok t ->
  let N := zlen ns in
  exists K : Z -> list Z,
    (forall p, 0 <= p <= N -> children_of t p = Ok (K p)) /\
    (forall root out, root = -1 \/ 0 <= root <= N ->
       let starts := if root =? -1 then K N else [root] in
       (inorder N t root = Ok out -> exists ls, Forall2 (InO K) starts ls /\ out = concat ls) /\
       (levelorder N t root = Ok out -> BFS K starts out)).
Proof. exact pyviews_correct_lemma. Qed.

(* (c, reverse) Python _edge_diffs_reverse (direction=REVERSE, without the terminal entry): the
   right-to-left loop returns one entry per step of the forward sweep of the mirrored table
   (x -> L - x); entry (left, right) = (L - s_right, L - s_left) is non-empty, its edges_out /
   edges_in are (in reverse index order) exactly the edges with left = right_k / right = right_k,
   and replaying the entries from the empty forest never fails and gives parent_at x for every x
   of every reported interval. *)
Theorem edge_diffs_reverse_replay : forall L ns es Ins Rem q,
  valid_edgesb L ns es = true -> index_sorted es Ins Rem -> mk_tseq L ns es Ins Rem = Ok q ->
  exists steps Ps,
    edge_diffs_reverse L (q_I q) (q_O q) false = Ok (map (rdiff L) steps) /\
    (forall s, In s steps ->
       s_left s < s_right s /\
       map fst (s_out s) = map fst (filter (fun ie => ileft ie =? L - s_left s) (rev (q_I q))) /\
       map fst (s_in s) = map fst (filter (fun ie => iright ie =? L - s_left s) (rev (q_O q)))) /\
    par_steps (repeat NULL (Z.to_nat (zlen ns + 1))) steps = Ok Ps /\
    Forall2 (fun s P => forall x, L - s_right s <= x < L - s_left s ->
               forall u, 0 <= u < zlen ns -> get P u = Ok (parent_at es x u)) steps Ps.
Proof. exact edge_diffs_reverse_replay_lemma. Qed.

(* (per-tree sites) tsk_treeseq_init_trees: for sites sorted by position, the site list of
   tree k (tree_sites[k], tree_sites_length[k]) consists of exactly the sites whose position lies
   in [bps[k], bps[k+1]), in id order — whatever the mutations are. *)
Theorem tree_sites_exact : forall L ns es Ins Rem q,
  valid_edgesb L ns es = true -> index_sorted es Ins Rem -> mk_tseq L ns es Ins Rem = Ok q ->
  forall positions muts nem steps Oend ids mes,
  sorted_by spos (enum_from 0 positions) -> (forall p, In p positions -> 0 <= p) ->
  sweep L (q_I q) (q_O q) = Ok (steps, Oend) ->
  init_trees_sites steps nem (enum_from 0 positions) muts = Ok (ids, mes) ->
  Forall2 (fun s l => l = map fst (filter (in_tree s) (enum_from 0 positions))) steps ids /\
  (forall k s, nth_error steps k = Some s ->
     get (q_bps q) (Z.of_nat k) = Ok (s_left s) /\ get (q_bps q) (Z.of_nat k + 1) = Ok (s_right s)).
Proof. exact tree_sites_exact_lemma. Qed.

(* (mutation.edge) tsk_treeseq_init_trees: every mutation the loop assigns (the mutations are
   taken in table order, site by site; [consumed] is the assigned prefix) gets
   edge = node_edge_map[node] = the id of the edge row with child = the mutation's node that
   covers the position of the mutation's site, or NULL if there is none ([edge_id_spec] reads
   parent_at (es_id es)).  That every mutation is assigned when the table is sorted by site is
   not part of this theorem (correspondence). *)
Theorem mutation_edge_exact : forall L ns es Ins Rem q,
  valid_edgesb L ns es = true -> index_sorted es Ins Rem -> mk_tseq L ns es Ins Rem = Ok q ->
  forall positions muts steps Oend ids mes,
  sorted_by spos (enum_from 0 positions) -> (forall p, In p positions -> 0 <= p) ->
  (forall m, In m muts -> 0 <= snd m < zlen ns) ->
  sweep L (q_I q) (q_O q) = Ok (steps, Oend) ->
  init_trees_sites steps (repeat NULL (length ns)) (enum_from 0 positions) muts = Ok (ids, mes) ->
  exists consumed rest, muts = consumed ++ rest /\
    Forall2 (fun m e => exists pos, In (fst m, pos) (enum_from 0 positions) /\
                                    e = parent_at (es_id es) pos (snd m)) consumed mes.
Proof. exact mutation_edge_exact_lemma. Qed.

(* (levelorder depth order) tag every queue entry of the breadth-first algorithm [BFS] with its
   depth (start nodes 0, a child one more than the node it was appended for): the output of
   levelorder (which is a [BFS] run by pyviews_correct) lists the nodes in non-decreasing depth. *)
Theorem levelorder_depth_sorted : forall K starts out, BFS K starts out ->
  exists out2, BFS2 K (map (fun v => (v, 0)) starts) out2 /\ map fst out2 = out /\ nondecr (map snd out2).
Proof. exact levelorder_depth_sorted_lemma. Qed.

(* (coiterate) TreeSequence.coiterate on two breakpoint lists 0 :: b1 and 0 :: b2 that increase
   strictly to L: it never fails or runs past the last tree, every yielded row
   [left; right; k1; lo1; hi1; k2; lo2; hi2] has left < right and is covered by the yielded tree
   of each side (lo <= left, right <= hi), the rows are consecutive from 0, and their right ends
   are exactly the sorted union of b1 and b2 (so the intervals split [0, L) at the union of the
   two breakpoint sets; breakpoints are compared with ==). *)
Theorem coiterate_partition : forall L b1 b2,
  incr_to L 0 b1 -> incr_to L 0 b2 ->
  exists rows, coiterate L (0 :: b1) (0 :: b2) = Ok rows /\
    Forall row_ok rows /\ consecutive 0 rows /\
    map (fun row => nth 1 row 0) rows = umerge (S (S (length b1 + length b2))) b1 b2.
Proof. exact coiterate_partition_lemma. Qed.

(* (totality) On valid input, without sample lists and with tracked samples that are node ids,
   the FULL model (all arrays, counts, roots; every checked array access, every fuel-bounded
   loop) returns a tree for every k < num_trees: no OOB, no fuel exhaustion, no error.  Hence
   sweep_parent_exact — and with it every theorem above of the form "if first(); next()^k returns
   t then ..." — is unconditional for these options.  (With sample_lists=True totality of
   tsk_tree_update_sample_lists is still tied by the correspondence only.) *)
Theorem full_model_total : forall L ns es Ins Rem q,
  valid_edgesb L ns es = true -> index_sorted es Ins Rem -> mk_tseq L ns es Ins Rem = Ok q ->
  forall o, o_lists o = false -> (forall s, In s (o_tracked o) -> 0 <= s < zlen ns) ->
  forall k, Z.of_nat k < q_ntrees q ->
  exists t l r,
    tree_at_index q o k = Ok t /\
    get (q_bps q) (Z.of_nat k) = Ok l /\ get (q_bps q) (Z.of_nat k + 1) = Ok r /\
    p_index (t_pos t) = Z.of_nat k /\ p_left (t_pos t) = l /\ p_right (t_pos t) = r /\ l < r /\
    forall x, l <= x < r -> forall u, 0 <= u < zlen ns ->
      get (t_parent t) u = Ok (parent_at es x u).
Proof. exact full_model_total_lemma. Qed.

(* (mutation.edge, all mutations) for sites sorted by position inside [0, L) and mutations sorted
   by site (the table requirements), tsk_treeseq_init_trees assigns EVERY mutation, and
   mutation j gets edge = the id of the edge row with child = its node that covers the position
   of its site, or NULL if there is none. *)
Theorem mutation_edge_all : forall L ns es Ins Rem q,
  valid_edgesb L ns es = true -> index_sorted es Ins Rem -> mk_tseq L ns es Ins Rem = Ok q ->
  forall positions muts steps Oend ids mes,
  sorted_by spos (enum_from 0 positions) -> (forall p, In p positions -> 0 <= p < L) ->
  sorted_by msite muts ->
  (forall m, In m muts -> 0 <= fst m < zlen positions /\ 0 <= snd m < zlen ns) ->
  sweep L (q_I q) (q_O q) = Ok (steps, Oend) ->
  init_trees_sites steps (repeat NULL (length ns)) (enum_from 0 positions) muts = Ok (ids, mes) ->
  Forall2 (fun m e => exists pos, get positions (fst m) = Ok pos /\ e = parent_at (es_id es) pos (snd m)) muts mes.
Proof. exact mutation_edge_all_lemma. Qed.

(* (reverse order) the k-th entry of the reverse edge diffs is tree num_trees - 1 - k: its
   interval (L - s_right, L - s_left) is [bps[num_trees-1-k], bps[num_trees-k]), and there are
   exactly num_trees entries. *)
Theorem reverse_entry_is_tree : forall L ns es Ins Rem q,
  valid_edgesb L ns es = true -> index_sorted es Ins Rem -> mk_tseq L ns es Ins Rem = Ok q ->
  exists steps,
    edge_diffs_reverse L (q_I q) (q_O q) false = Ok (map (rdiff L) steps) /\
    zlen steps = q_ntrees q /\
    forall k s, nth_error steps k = Some s ->
      get (q_bps q) (q_ntrees q - 1 - Z.of_nat k) = Ok (L - s_right s) /\
      get (q_bps q) (q_ntrees q - Z.of_nat k) = Ok (L - s_left s).
Proof. exact reverse_intervals_lemma. Qed.

(* ---- navigation: arbitrary histories on one tskit.Tree (C01.NavModel) ----
   [nav_run] applies any list of next / prev / first / last / clear / seek(x) / seek_index(k)
   to a fresh tree; [hist_spec] is the index each operation is documented to reach; [PosAt q p i]
   says that p is on tree i with interval [bps[i], bps[i+1]) and that its in/out bookmarks are
   the canonical ones for its direction (the cuts of the two index arrays at the right end of
   the interval), i.e. exactly what the following next() / prev() starts from. *)

(* after ANY history the tree is null (all parents NULL) or sits on the documented tree with
   canonical bookmarks and parent[u] = parent_at x u for every x of its interval *)
Theorem nav_state_exact : forall L ns es Ins Rem q,
  valid_edgesb L ns es = true -> index_sorted es Ins Rem -> mk_tseq L ns es Ins Rem = Ok q ->
  forall o s0 ops s, nav_fresh q o = Ok s0 -> nav_run q o s0 ops = Ok s ->
  hist_spec q (-1) ops (n_index (v_pos s)) /\
  ((n_index (v_pos s) = -1 /\ n_left (v_pos s) = 0 /\ n_right (v_pos s) = 0 /\
    forall u, 0 <= u < zlen ns -> get (t_parent (v_tree s)) u = Ok NULL) \/
   (exists i, PosAt q (v_pos s) i /\
      forall x, n_left (v_pos s) <= x < n_right (v_pos s) ->
      forall u, 0 <= u < zlen ns -> get (t_parent (v_tree s)) u = Ok (parent_at es x u))).
Proof. exact nav_state_exact_lemma. Qed.

(* every tree predicate that tsk_tree_clear establishes and remove_edge / insert_edge preserve
   (on a present edge / a parentless child) holds after any history *)
Theorem nav_induction : forall L ns es Ins Rem q,
  valid_edgesb L ns es = true -> index_sorted es Ins Rem -> mk_tseq L ns es Ins Rem = Ok q ->
  forall o (J : tree -> Prop),
  (forall t, tree_clear q o = Ok t -> J t) ->
  (forall t t', J t -> tree_clear_from q o t = Ok t' -> J t') ->
  (forall t e t', J t -> In e es -> get (t_parent t) (echild e) = Ok (eparent e) ->
     remove_edge q o t (eparent e) (echild e) = Ok t' -> J t') ->
  (forall t e i t', J t -> In e es -> get (t_parent t) (echild e) = Ok NULL ->
     insert_edge q o t (eparent e) (echild e) i = Ok t' -> J t') ->
  forall s0 ops s, nav_fresh q o = Ok s0 -> nav_run q o s0 ops = Ok s -> J (v_tree s).
Proof. exact nav_induction_lemma. Qed.

Theorem nav_num_edges_exact : forall L ns es Ins Rem q,
  valid_edgesb L ns es = true -> index_sorted es Ins Rem -> mk_tseq L ns es Ins Rem = Ok q ->
  forall o s0 ops s, nav_fresh q o = Ok s0 -> nav_run q o s0 ops = Ok s ->
  t_num_edges (v_tree s) = nparents (t_parent (v_tree s)).
Proof. exact nav_num_edges_lemma. Qed.

(* from canonical bookmarks next() / prev() never fail, hand the tree exactly the edges that
   end / start at the boundary being crossed, and leave canonical bookmarks *)
Theorem bookmarks_next_exact : forall L ns es Ins Rem q,
  valid_edgesb L ns es = true -> index_sorted es Ins Rem -> mk_tseq L ns es Ins Rem = Ok q ->
  forall p i, PosAt q p i -> i + 1 < q_ntrees q ->
  exists p', npos_next q p = Ok (p', true) /\ PosAt q p' (i + 1) /\ n_left p' = n_right p /\
    b_rem (n_out p') = true /\ b_rem (n_in p') = false /\
    (forall ie, (exists k, b_start (n_out p') <= k < b_stop (n_out p') /\ get (q_O q) k = Ok ie) <->
                In ie (q_O q) /\ iright ie = n_right p) /\
    (forall ie, (exists k, b_start (n_in p') <= k < b_stop (n_in p') /\ get (q_I q) k = Ok ie) <->
                In ie (q_I q) /\ ileft ie = n_right p).
Proof. exact bookmarks_next_lemma. Qed.

Theorem bookmarks_prev_exact : forall L ns es Ins Rem q,
  valid_edgesb L ns es = true -> index_sorted es Ins Rem -> mk_tseq L ns es Ins Rem = Ok q ->
  forall p i, PosAt q p i -> 0 < i ->
  exists p', npos_prev q p = Ok (p', true) /\ PosAt q p' (i - 1) /\ n_right p' = n_left p /\
    b_rem (n_out p') = false /\ b_rem (n_in p') = true /\
    (forall ie, (exists k, b_stop (n_out p') < k <= b_start (n_out p') /\ get (q_I q) k = Ok ie) <->
                In ie (q_I q) /\ ileft ie = n_left p) /\
    (forall ie, (exists k, b_stop (n_in p') < k <= b_start (n_in p') /\ get (q_O q) k = Ok ie) <->
                In ie (q_O q) /\ iright ie = n_left p).
Proof. exact bookmarks_prev_lemma. Qed.

(* a seek from the null state, forward or backward, to any tree never fails and leaves the
   canonical bookmarks of that tree *)
Theorem seek_bookmarks_canonical : forall L ns es Ins Rem q,
  valid_edgesb L ns es = true -> index_sorted es Ins Rem -> mk_tseq L ns es Ins Rem = Ok q ->
  forall p i, n_index p = -1 -> 0 <= i < q_ntrees q ->
  (exists p', npos_seek_forward q p i = Ok p' /\ PosAt q p' i) /\
  (exists p', npos_seek_backward q p i = Ok p' /\ PosAt q p' i).
Proof. exact seek_bookmarks_lemma. Qed.

(* the position machine alone is total: every history of next / prev / set_null / seek_forward /
   seek_backward (the seeks issued as tsk_tree_seek_from_null issues them: from the null state, to
   an existing tree) returns a position — no out-of-bounds index, no failed assertion, no fuel
   exhaustion — and that position is null or canonical on an existing tree *)
Theorem pos_run_total : forall L ns es Ins Rem q,
  valid_edgesb L ns es = true -> index_sorted es Ins Rem -> mk_tseq L ns es Ins Rem = Ok q ->
  forall ops p, n_index p = -1 \/ (exists i, PosAt q p i) ->
  exists p', pos_run q p ops = Ok p' /\ (n_index p' = -1 \/ exists i, PosAt q p' i).
Proof. exact pos_run_total_lemma. Qed.
