(* Property C11 — editing operations change only what they document.  Statements only: each
   theorem is closed by [exact] of a lemma proved in the C11 directory; Print Assumptions is evaluated
   by ./check on every run.  Vocabulary: C11/Spec.v; modelled code: C11/Model.v;
   non-vacuity examples: C11/Main.v (names beginning ex_) and C11/TrimProofs.v.

   [srt] is TableCollection.sort / tsk_table_collection_sort, assumed only to satisfy
   [sort_ok] (permutes edges and migrations, leaves already sorted site / mutation tables
   alone); [canon_sort_ok] shows the sort used by the correspondence is such a function.
   extend_haplotypes: the edge-extension algorithm is not modelled; the mutation pass
   (tsk_treeseq_slide_mutation_nodes_up) is, and [extend_preserves_genotype] is a theorem about
   the documented effect of the extension at one position (C11/ExtendSpec.v); its hypotheses are
   checked on every implementation output by the harness family `extend`. *)
From Coq Require Import List ZArith Bool Permutation.
From TskVerif Require Import Base.Common Gen.Generated C11.Model C11.Current C11.Spec C11.IntervalProofs C11.SitesProofs
     C11.KeepProofs C11.TrimProofs C11.TrimMutProofs C11.TimeProofs C11.TotalProofs C11.ExtendSpec C11.ExtendCheck C11.Collection C11.AncestryProofs C11.DelSitesOrder C11.DelSitesEmpty C11.Main C11.KeepIff.
Import ListNotations.
Open Scope Z_scope.

Theorem canon_sort_ok : sort_ok canon_sort.
Proof. exact canon_sort_ok_lemma. Qed.

(* (a) keep_intervals: at every position inside a kept interval the output edge table says
   exactly what the input said (same parent, same edge metadata), and so do the migrations *)
Theorem keep_intervals_inside : forall srt ivs t t',
  sort_ok srt -> keep_intervals srt ivs t = Ok t' ->
  forall x, inside ivs x ->
    (forall c p md, edge_at (t_edges t') x c p md <-> edge_at (t_edges t) x c p md) /\
    (forall nd s d tm md, mig_at (t_migs t') x nd s d tm md <-> mig_at (t_migs t) x nd s d tm md).
Proof. exact keep_intervals_inside_lemma. Qed.

(* (a) as a statement about the parent function computed from the OUTPUT edge table *)
Theorem keep_intervals_parent_at : forall srt ivs t t',
  sort_ok srt -> keep_intervals srt ivs t = Ok t' ->
  forall x, inside ivs x -> functional_at (t_edges t) x ->
  forall u, parent_at (t_edges t') x u = parent_at (t_edges t) x u.
Proof. exact keep_intervals_parent_at_lemma. Qed.

(* (b) nothing covers a point of the complement; every output row lies within one interval *)
Theorem keep_intervals_outside : forall srt ivs t t',
  sort_ok srt -> keep_intervals srt ivs t = Ok t' ->
  (forall x, ~ inside ivs x ->
     (forall e, In e (t_edges t') -> ~ (e_left e <= x < e_right e)) /\
     (forall g, In g (t_migs t') -> ~ (g_left g <= x < g_right g))) /\
  (forall e, In e (t_edges t') -> exists iv, In iv ivs /\ fst iv <= e_left e /\ e_right e <= snd iv) /\
  (forall g, In g (t_migs t') -> exists iv, In iv ivs /\ fst iv <= g_left g /\ g_right g <= snd iv) /\
  (sites_sorted (t_sites t) -> muts_sorted (t_muts t) -> parents_same_site (t_muts t) ->
   forall st, In st (t_sites t') -> inside ivs (s_pos st)).
Proof. exact keep_intervals_outside_lemma. Qed.

(* (c) retained sites / mutations: exactly the input rows inside, in order, ids renumbered by
   rank, all other fields (metadata, states, times, nodes) untouched; nodes and L unchanged *)
Theorem keep_intervals_sites_rows : forall srt ivs t t',
  sort_ok srt -> keep_intervals srt ivs t = Ok t' ->
  sites_sorted (t_sites t) -> muts_sorted (t_muts t) -> parents_same_site (t_muts t) ->
  let smask := map (fun st => in_ivs ivs (s_pos st)) (t_sites t) in
  let mmask := site_mask_of_muts smask (t_muts t) in
  t_L t' = t_L t /\ t_nodes t' = t_nodes t /\
  t_sites t' = filter (fun st => in_ivs ivs (s_pos st)) (t_sites t) /\
  t_muts t' = map (renumber smask mmask) (filter (fun m => kept smask (m_site m)) (t_muts t)).
Proof. exact keep_intervals_sites_rows_lemma. Qed.

(* the model does not escape into OOB on tables whose references are in range, and refuses
   exactly the malformed interval lists: the [= Ok t'] hypotheses above are satisfiable for
   every valid input *)
Theorem keep_intervals_total : forall srt ivs t,
  intervals_ok 0 (t_L t) ivs = true -> refs_ok t -> exists t', keep_intervals srt ivs t = Ok t'.
Proof. exact keep_intervals_total. Qed.

Theorem keep_intervals_rejects_malformed : forall srt ivs t,
  intervals_ok 0 (t_L t) ivs = false -> keep_intervals srt ivs t = Err 1.
Proof. exact keep_intervals_rejects. Qed.

Theorem delete_sites_total : forall ids t,
  (forall i, In i ids -> 0 <= i < zlen (t_sites t)) -> refs_ok t -> exists t', delete_sites ids t = Ok t'.
Proof. exact delete_sites_total. Qed.

(* a renumbered site reference names the same site row as before *)
Theorem renumbered_site_reference : forall smask mmask (sites : list site) m,
  length smask = length sites -> kept smask (m_site m) = true ->
  nth_error (filter_mask smask sites) (Z.to_nat (m_site (renumber smask mmask m)))
  = nth_error sites (Z.to_nat (m_site m)).
Proof. exact renumbered_site_row. Qed.

(* delete_intervals: unchanged outside the listed intervals, empty inside *)
Theorem delete_intervals_spec : forall srt ivs t t',
  sort_ok srt -> delete_intervals srt ivs t = Ok t' ->
  intervals_ok 0 (t_L t) ivs = true /\
  (forall x, 0 <= x < t_L t -> ~ inside ivs x ->
     (forall c p md, edge_at (t_edges t') x c p md <-> edge_at (t_edges t) x c p md) /\
     (forall nd s d tm md, mig_at (t_migs t') x nd s d tm md <-> mig_at (t_migs t) x nd s d tm md)) /\
  (forall x, inside ivs x ->
     (forall e, In e (t_edges t') -> ~ (e_left e <= x < e_right e)) /\
     (forall g, In g (t_migs t') -> ~ (g_left g <= x < g_right g))).
Proof. exact delete_intervals_lemma. Qed.

(* (f) negate_intervals is the complement within [start, end) and is again well-formed *)
Theorem negate_intervals_complement : forall st en ivs neg,
  st <= en -> negate_intervals st en ivs = Ok neg ->
  intervals_ok st en neg = true /\
  forall x, st <= x < en -> (inside neg x <-> ~ inside ivs x).
Proof. exact negate_intervals_complement_lemma. Qed.

(* (d) delete_sites removes exactly the listed sites and their mutations; ids / parents
   renumbered by rank; everything else identical *)
Theorem delete_sites_exact : forall ids t t',
  delete_sites ids t = Ok t' ->
  let smask := mask_from 0 (length (t_sites t)) ids in
  let mmask := site_mask_of_muts smask (t_muts t) in
  (forall i, In i ids -> 0 <= i < zlen (t_sites t)) /\
  t_L t' = t_L t /\ t_nodes t' = t_nodes t /\ t_edges t' = t_edges t /\ t_migs t' = t_migs t /\
  t_sites t' = pick (fun i => negb (listed ids i)) 0 (t_sites t) /\
  (parents_same_site (t_muts t) ->
   t_muts t' = map (renumber smask mmask) (filter (fun m => negb (listed ids (m_site m))) (t_muts t))).
Proof. exact delete_sites_exact_lemma. Qed.

Theorem delete_sites_rejects_out_of_range : forall ids t,
  (exists i, In i ids /\ ~ (0 <= i < zlen (t_sites t))) -> delete_sites ids t = Err 1.
Proof. exact delete_sites_err. Qed.

(* (e) trim_shift — for the REPAIRED ltrim (metadata columns passed on, migration check with
   `or`): every row is the input row with coordinates shifted by the leftmost edge start,
   metadata included, topology unchanged, nothing at a negative coordinate *)
Theorem trim_shift : forall t t',
  ltrim_repaired t = Ok t' ->
  let d := leftmost t in
  let smask := map (fun s => negb (s_pos s <? d)) (t_sites t) in
  (exists e, In e (t_edges t) /\ e_left e = d) /\ (forall e, In e (t_edges t) -> d <= e_left e) /\
  (exists e', In e' (t_edges t') /\ e_left e' = 0) /\ (forall e', In e' (t_edges t') -> 0 <= e_left e') /\
  t_L t' = t_L t - d /\ t_nodes t' = t_nodes t /\
  t_edges t' = map (shift_edge true d) (t_edges t) /\
  t_migs t' = map (shift_mig true d) (t_migs t) /\
  (forall g', In g' (t_migs t') -> 0 <= g_left g') /\
  t_sites t' = map (shift_site d) (filter (fun s => d <=? s_pos s) (t_sites t)) /\
  (parents_same_site (t_muts t) ->
   t_muts t' = map (renumber smask (site_mask_of_muts smask (t_muts t)))
                   (filter (fun m => kept smask (m_site m)) (t_muts t))) /\
  (forall x c p md, edge_at (t_edges t') (x - d) c p md <-> edge_at (t_edges t) x c p md).
Proof. exact ltrim_repaired_shift_lemma. Qed.

(* rtrim (either variant of the check): only L and the sites at/after the rightmost edge end change *)
Theorem rtrim_shift : forall cf t t',
  rtrim_gen cf t = Ok t' ->
  let r := rightmost t in
  (exists e, In e (t_edges t) /\ e_right e = r) /\ (forall e, In e (t_edges t) -> e_right e <= r) /\
  t_L t' = r /\ t_nodes t' = t_nodes t /\ t_edges t' = t_edges t /\ t_migs t' = t_migs t /\
  t_sites t' = filter (fun s => s_pos s <? r) (t_sites t) /\
  (cf = true -> forall g, In g (t_migs t') -> g_right g <= t_L t').
Proof. exact rtrim_shift_lemma. Qed.

(* trim (repaired) = shift by the leftmost edge start, cut at the rightmost edge end *)
Theorem trim_repaired_shift : forall t t',
  trim_repaired t = Ok t' ->
  let d := leftmost t in
  let r := rightmost t in
  t_L t' = r - d /\ t_nodes t' = t_nodes t /\
  t_edges t' = map (shift_edge true d) (t_edges t) /\
  t_migs t' = map (shift_mig true d) (t_migs t) /\
  (forall g', In g' (t_migs t') -> 0 <= g_left g' /\ g_right g' <= t_L t') /\
  (forall e', In e' (t_edges t') -> 0 <= e_left e' /\ e_right e' <= t_L t') /\
  t_sites t' = map (shift_site d) (filter (fun s => (d <=? s_pos s) && (s_pos s <? r)) (t_sites t)) /\
  (forall x c p md, edge_at (t_edges t') (x - d) c p md <-> edge_at (t_edges t) x c p md).
Proof. exact trim_repaired_shift_lemma. Qed.

(* ... and its mutations: one renumbering by the fused site mask (the two passes compose) *)
Theorem trim_repaired_mutations : forall t t',
  trim_repaired t = Ok t' -> parents_same_site (t_muts t) ->
  let d := leftmost t in
  let r := rightmost t in
  let smask := map (fun s => (s_pos s <? r) && (d <=? s_pos s)) (t_sites t) in
  t_muts t' = map (renumber smask (site_mask_of_muts smask (t_muts t)))
                  (filter (fun m => kept smask (m_site m)) (t_muts t)).
Proof. exact trim_repaired_mutations_lemma. Qed.

(* historical record, about [ltrim] = the model of the PINNED commit 380c75d (before fix
   02a6537), not about the current code: the same shift, but every edge and migration row
   comes out with EMPTY metadata (F7); topology is still preserved *)
Theorem ltrim_pinned_erases_metadata : forall t t',
  ltrim t = Ok t' ->
  let d := leftmost t in
  t_edges t' = map (shift_edge false d) (t_edges t) /\
  t_migs t' = map (shift_mig false d) (t_migs t) /\
  (forall e', In e' (t_edges t') -> e_md e' = []) /\
  (forall g', In g' (t_migs t') -> g_md g' = []) /\
  (forall x c p, (exists md, edge_at (t_edges t') (x - d) c p md) <-> (exists md, edge_at (t_edges t) x c p md)).
Proof. exact ltrim_current_lemma. Qed.

(* F7, pinned variant only: trim_shift was FALSE before fix 02a6537 *)
Theorem ltrim_drops_edge_metadata_pinned_refuted :
  exists t t' e, ltrim t = Ok t' /\ In e (t_edges t) /\ e_md e <> [] /\
                 ~ In (shift_edge true (leftmost t) e) (t_edges t') /\
                 (forall e', In e' (t_edges t') -> e_md e' = []).
Proof. exact ltrim_drops_edge_metadata_refuted_lemma. Qed.

Theorem ltrim_drops_migration_metadata_pinned_refuted :
  exists t t' g, ltrim t = Ok t' /\ In g (t_migs t) /\ g_md g <> [] /\
                 (forall g', In g' (t_migs t') -> g_md g' = []).
Proof. exact ltrim_drops_migration_metadata_refuted_lemma. Qed.

(* F14, pinned variant only (before fix 6e8c552): `and` let a migration left of the leftmost
   edge through; it ended up at a negative coordinate.  The repaired check refuses it. *)
Theorem trim_accepts_migration_outside_edges_pinned_refuted :
  exists t t' g', ltrim t = Ok t' /\ In g' (t_migs t') /\ g_left g' < 0 /\
                  ltrim_repaired t = Err 1.
Proof. exact trim_accepts_migration_outside_edges_refuted_lemma. Qed.

(* which variant the correspondence follows is decided by facts regenerated from the source
   on every run: repaired source => the repaired model (and [trim_shift] is about the code);
   untouched source => the model of the pinned commit *)
Theorem ltrim_current_is_repaired :
  C11_ltrim_passes_edge_metadata = true -> C11_ltrim_passes_migration_metadata = true ->
  C11_trim_check_uses_or = true ->
  ltrim_current = ltrim_repaired /\ rtrim_current = rtrim_repaired /\ trim_current = trim_repaired.
Proof. exact ltrim_current_is_repaired_lemma. Qed.

(* /repo HEAD carries the repairs (facts regenerated on every run): the model compared with the
   implementation is the repaired one, and trim_shift holds for it.  Both stop checking if a
   repair is lost. *)
Theorem current_trim_is_repaired :
  ltrim_current = ltrim_repaired /\ rtrim_current = rtrim_repaired /\ trim_current = trim_repaired.
Proof. exact current_is_repaired_now_lemma. Qed.

Theorem trim_shift_current : forall t t',
  ltrim_current t = Ok t' ->
  let d := leftmost t in
  t_L t' = t_L t - d /\ t_nodes t' = t_nodes t /\
  t_edges t' = map (shift_edge true d) (t_edges t) /\
  t_migs t' = map (shift_mig true d) (t_migs t) /\
  (forall g', In g' (t_migs t') -> 0 <= g_left g') /\
  t_sites t' = map (shift_site d) (filter (fun s => d <=? s_pos s) (t_sites t)) /\
  (forall x c p md, edge_at (t_edges t') (x - d) c p md <-> edge_at (t_edges t) x c p md).
Proof. exact trim_shift_current_lemma. Qed.

Theorem ltrim_current_is_pinned :
  C11_ltrim_passes_edge_metadata = false -> C11_ltrim_passes_migration_metadata = false ->
  C11_trim_check_uses_or = false ->
  ltrim_current = ltrim /\ rtrim_current = rtrim /\ trim_current = trim.
Proof. exact ltrim_current_is_pinned_lemma. Qed.

(* (g) delete_older: rows are removed by time exactly as documented, retained rows are
   identical (mutation parents renumbered, a removed parent becomes NULL) *)
Theorem delete_older_spec : forall t tb tb',
  delete_older t tb = Ok tb' ->
  let ns := t_nodes tb in
  t_L tb' = t_L tb /\ t_nodes tb' = ns /\ t_sites tb' = t_sites tb /\
  t_edges tb' = filter (fun e => node_time ns (e_parent e) <=? t) (t_edges tb) /\
  t_migs tb' = filter (fun g => g_time g <? t) (t_migs tb) /\
  t_muts tb' = map (fun m => set_parent m (older_parent ns t (t_muts tb) m))
                   (filter (young ns t) (t_muts tb)).
Proof. exact delete_older_spec_lemma. Qed.

Theorem delete_older_ancestry_below_cut : forall ns t es x c p md,
  edge_at (filter (fun e => node_time ns (e_parent e) <=? t) es) x c p md
  <-> edge_at es x c p md /\ node_time ns p <= t.
Proof. exact delete_older_ancestry. Qed.

(* (g) split_edges: the documented replacement and nothing else *)
Theorem split_edges_spec : forall srt t flags pop md npop tb tb',
  sort_ok srt -> split_edges srt t flags pop md npop tb = Ok tb' ->
  let ns := t_nodes tb in
  let N := zlen ns in
  let k := num_splits ns t (t_edges tb) in
  let pairs := combine (t_edges tb) (assign_new ns t N (t_edges tb)) in
  t_migs tb = [] /\ -1 <= pop < npop /\
  (forall e, In e (t_edges tb) -> 0 <= e_child e < N /\ 0 <= e_parent e < N) /\
  t_L tb' = t_L tb /\ t_sites tb' = t_sites tb /\ t_migs tb' = [] /\
  t_nodes tb' = ns ++ repeat (mkN flags t pop (-1) md) k /\
  Permutation (t_edges tb') (flat_map split_rows pairs) /\
  Forall2 (moved_ok ns t (t_edges tb) (t_sites tb) pairs) (t_muts tb) (t_muts tb').
Proof. exact split_edges_spec_lemma. Qed.

(* fresh nodes are distinct per table row and lie in [N, N + k) *)
Theorem split_edges_fresh_nodes : forall ns t es next,
  (forall e u, In (e, u) (combine es (assign_new ns t next es)) ->
     In e es /\ match u with
                | None => splits ns t e = false
                | Some v => splits ns t e = true /\ next <= v < next + Z.of_nat (num_splits ns t es)
                end) /\
  (forall j1 j2 v, nth_error (assign_new ns t next es) j1 = Some (Some v) ->
                   nth_error (assign_new ns t next es) j2 = Some (Some v) -> j1 = j2).
Proof. exact split_edges_fresh_nodes_lemma. Qed.

(* ancestry that does not intersect the cut-off time is unchanged *)
Theorem split_edges_ancestry_off_cut : forall ns t N es out,
  N = zlen ns ->
  Permutation out (flat_map split_rows (combine es (assign_new ns t N es))) ->
  forall x c p md, p < N -> c < N ->
    (edge_at out x c p md <-> edge_at es x c p md /\ cut ns t c p = false).
Proof. exact split_edges_old_edges. Qed.

Theorem split_edges_path_through_new_node : forall ns t N es out flags pop md,
  N = zlen ns ->
  Permutation out (flat_map split_rows (combine es (assign_new ns t N es))) ->
  forall e, In e es -> splits ns t e = true ->
    exists u, N <= u < N + Z.of_nat (num_splits ns t es) /\
              In (lower_half e u) out /\ In (upper_half e u) out /\
              node_time (ns ++ repeat (mkN flags t pop (-1) md) (num_splits ns t es)) u = t.
Proof. exact split_edges_path. Qed.

(* the time-cut models return Ok on every table collection whose references are in range,
   and the documented refusals are exactly these *)
Theorem delete_older_total : forall t tb, time_refs_ok tb -> exists tb', delete_older t tb = Ok tb'.
Proof. exact delete_older_total. Qed.

Theorem split_edges_total : forall srt t flags pop md npop tb,
  t_migs tb = [] -> -1 <= pop < npop -> time_refs_ok tb ->
  exists tb', split_edges srt t flags pop md npop tb = Ok tb'.
Proof. exact split_edges_total. Qed.

Theorem split_edges_refusals : forall srt t flags pop md npop tb,
  (pop < -1 -> split_edges srt t flags pop md npop tb = Err 1) /\
  (-1 <= pop -> t_migs tb <> [] -> split_edges srt t flags pop md npop tb = Err 2) /\
  (-1 <= pop -> t_migs tb = [] -> npop <= pop -> split_edges srt t flags pop md npop tb = Err 2).
Proof. exact split_edges_errors. Qed.

(* (g) decapitate: ancestry strictly below t unchanged, cut at t, nothing at/above t left *)
Theorem decapitate_spec : forall srt t flags pop md npop tb tb',
  sort_ok srt -> decapitate srt t flags pop md npop tb = Ok tb' ->
  let ns := t_nodes tb in
  let N := zlen ns in
  let k := num_splits ns t (t_edges tb) in
  let ns' := ns ++ repeat (mkN flags t pop (-1) md) k in
  t_L tb' = t_L tb /\ t_sites tb' = t_sites tb /\ t_migs tb' = [] /\
  t_nodes tb' = ns' /\
  (forall x c p md', 0 <= c < N -> 0 <= p < N ->
     (edge_at (t_edges tb') x c p md' <-> edge_at (t_edges tb) x c p md' /\ node_time ns p <= t)) /\
  (forall e, In e (t_edges tb) -> splits ns t e = true ->
     exists u, N <= u < N + Z.of_nat k /\ node_time ns' u = t /\ In (lower_half e u) (t_edges tb') /\
               forall e', In e' (t_edges tb') -> e_child e' <> u) /\
  (forall e', In e' (t_edges tb') -> node_time ns' (e_parent e') <= t) /\
  ((forall e, In e (t_edges tb) -> node_time ns (e_child e) < node_time ns (e_parent e)) ->
   forall e', In e' (t_edges tb') -> node_time ns' (e_child e') < t) /\
  t_muts tb' = map (fun m => set_parent m (older_parent ns t (t_muts tb) m))
                   (filter (young ns t) (t_muts tb)).
Proof. exact decapitate_spec_lemma. Qed.

(* extend_haplotypes, specification level.  At one site position: every node of the input tree
   (orig) keeps its ancestor chain, a run of nodes absent from the input tree may be inserted
   directly above it (run u), each inserted node in one place only; mutations (sorted by
   non-increasing time per node) are moved by the slide loop of the C code (climb).  If every
   mutation sits above a node of the input tree -- the hypothesis finding F15 violates -- the
   state inherited through any ancestor chain of input-tree nodes is unchanged. *)
Theorem extend_preserves_genotype : forall (tm : Z -> Z) (run : Z -> list Z) (orig : Z -> Prop),
  (forall u n, In n (run u) -> ~ orig n) ->
  (forall u u' n, In n (run u) -> In n (run u') -> u = u') ->
  (forall u, NoDup (run u)) ->
  forall ms : list smut, time_sorted ms -> (forall m, In m ms -> orig (sn m)) ->
  forall chain anc, (forall u, In u chain -> orig u) ->
  geno (expand run chain) (map (slide tm run) ms) anc = geno chain ms anc.
Proof. exact extend_preserves_genotype_lemma. Qed.

(* the C loop climbs the whole ancestor list; a mutation younger than the input parent of its
   node (valid input) stops inside the inserted run, so [slide] is that loop *)
Theorem slide_loop_stops_below_input_parent : forall tm mt cur l p more,
  mt < tm p -> climb tm mt cur (l ++ p :: more) = climb tm mt cur l.
Proof. exact climb_stops. Qed.

(* extend_haplotypes, translation validation: [check_site] decides, for the input and OUTPUT edge
   tables of one call, a site position and the site's mutations before / after, the
   "documented effect" precondition of [extend_preserves_genotype].  Whenever it accepts, every
   ancestor chain of the input tree (from a node of that tree) is mapped to an ancestor chain
   of the output tree along which the inherited state is unchanged.  The correspondence
   evaluates the checker on every output of the implementation (family `extend`). *)
Theorem extend_check_sound : forall es_in es_out x nodes fuel tm ms_in ms_out,
  check_site es_in es_out x nodes fuel tm ms_in ms_out = true ->
  forall u cin anc, In u (origs es_in x nodes) -> chain_rel (pin es_in x) u cin ->
    chain_rel (pout es_out x) u (expand (runf es_in es_out x nodes fuel) cin) /\
    geno (expand (runf es_in es_out x nodes fuel) cin) ms_out anc = geno cin ms_in anc.
Proof. exact extend_check_sound_lemma. Qed.

(* context and provenance as model state (C11/Collection.v): every editing operation returns the
   context (time_units, top-level metadata / schema, reference sequence, table schemas) untouched,
   adds exactly one provenance record iff record_provenance is set (nested calls add none; the
   time-cut operations never do), and its tables are those of the table-level model *)
Theorem collection_ops_preserve_context :
  forall (srt : tables -> tables) (cmd_keep cmd_delete cmd_sites cmd_ltrim cmd_rtrim cmd_trim : list Z)
         (emd gmd cf : bool),
    (forall ids record c c', delete_sites_coll cmd_sites ids record c = Ok c' ->
       delete_sites ids (c_tables c) = Ok (c_tables c') /\ c_ctx c' = c_ctx c /\
       c_prov c' = c_prov c ++ (if record then [cmd_sites] else [])) /\
    (forall ivs record c c', keep_intervals_coll srt cmd_keep ivs record c = Ok c' ->
       keep_intervals srt ivs (c_tables c) = Ok (c_tables c') /\ c_ctx c' = c_ctx c /\
       c_prov c' = c_prov c ++ (if record then [cmd_keep] else [])) /\
    (forall ivs record c c', delete_intervals_coll srt cmd_keep cmd_delete ivs record c = Ok c' ->
       delete_intervals srt ivs (c_tables c) = Ok (c_tables c') /\ c_ctx c' = c_ctx c /\
       c_prov c' = c_prov c ++ (if record then [cmd_delete] else [])) /\
    (forall record c c', ltrim_coll cmd_ltrim emd gmd cf record c = Ok c' ->
       ltrim_gen emd gmd cf (c_tables c) = Ok (c_tables c') /\ c_ctx c' = c_ctx c /\
       c_prov c' = c_prov c ++ (if record then [cmd_ltrim] else [])) /\
    (forall record c c', rtrim_coll cmd_rtrim cf record c = Ok c' ->
       rtrim_gen cf (c_tables c) = Ok (c_tables c') /\ c_ctx c' = c_ctx c /\
       c_prov c' = c_prov c ++ (if record then [cmd_rtrim] else [])) /\
    (forall record c c', trim_coll cmd_ltrim cmd_rtrim cmd_trim emd gmd cf record c = Ok c' ->
       trim_gen emd gmd cf (c_tables c) = Ok (c_tables c') /\ c_ctx c' = c_ctx c /\
       c_prov c' = c_prov c ++ (if record then [cmd_trim] else [])) /\
    (forall t c c', delete_older_coll t c = Ok c' ->
       delete_older t (c_tables c) = Ok (c_tables c') /\ c_ctx c' = c_ctx c /\ c_prov c' = c_prov c) /\
    (forall t flags pop md npop c c', decapitate_coll srt t flags pop md npop c = Ok c' ->
       decapitate srt t flags pop md npop (c_tables c) = Ok (c_tables c') /\ c_ctx c' = c_ctx c /\
       c_prov c' = c_prov c).
Proof. exact collection_ops_lemma. Qed.

(* the whole ancestor relation, not only parents: unchanged inside, every node isolated outside *)
Theorem keep_intervals_ancestry : forall srt ivs t t',
  sort_ok srt -> keep_intervals srt ivs t = Ok t' ->
  (forall x, inside ivs x -> forall c a, ancestor (t_edges t') x c a <-> ancestor (t_edges t) x c a) /\
  (forall x, ~ inside ivs x -> forall c a, ancestor (t_edges t') x c a -> a = c).
Proof. exact keep_intervals_ancestry_lemma. Qed.

Theorem delete_intervals_ancestry : forall srt ivs t t',
  sort_ok srt -> delete_intervals srt ivs t = Ok t' ->
  (forall x, 0 <= x < t_L t -> ~ inside ivs x ->
     forall c a, ancestor (t_edges t') x c a <-> ancestor (t_edges t) x c a) /\
  (forall x, inside ivs x -> forall c a, ancestor (t_edges t') x c a -> a = c).
Proof. exact delete_intervals_ancestry_lemma. Qed.

(* TreeSequence.keep_intervals(simplify=True) as a composition.  PARTIAL: the contract of simplify
   (property C04: "two samples share an ancestor at x" is preserved under the node renumbering)
   is an explicit hypothesis, not discharged here *)
Theorem keep_intervals_simplify_partial :
  forall (srt : tables -> tables) (simp : tables -> res tables) (nodemap : Z -> Z) (samples : list Z)
         ivs t t1 t2,
  sort_ok srt -> keep_intervals srt ivs t = Ok t1 -> simp t1 = Ok t2 ->
  (forall x s1 s2, In s1 samples -> In s2 samples ->
     (share_ancestor (t_edges t2) x (nodemap s1) (nodemap s2) <-> share_ancestor (t_edges t1) x s1 s2)) ->
  forall s1 s2, In s1 samples -> In s2 samples ->
    (forall x, inside ivs x ->
       (share_ancestor (t_edges t2) x (nodemap s1) (nodemap s2) <-> share_ancestor (t_edges t) x s1 s2)) /\
    (forall x, ~ inside ivs x -> share_ancestor (t_edges t2) x (nodemap s1) (nodemap s2) -> s1 = s2).
Proof. exact keep_intervals_simplify_partial_lemma. Qed.

(* delete_sites depends on the id list only through its set of elements: repeats and order are
   irrelevant ("the site IDs do not need to be in any particular order, and specifying the same ID
   multiple times does not have any effect"), for results and for refusals alike *)
Theorem delete_sites_same_elements : forall ids ids' t,
  (forall a, In a ids <-> In a ids') -> delete_sites ids t = delete_sites ids' t.
Proof. exact delete_sites_same_elements_lemma. Qed.

(* deleting no site is the identity on every table collection whose references are in range *)
Theorem delete_sites_nil_is_identity : forall t, refs_ok t -> delete_sites [] t = Ok t.
Proof. exact delete_sites_nil_lemma. Qed.

(* keep_intervals succeeds EXACTLY on well-formed interval lists (corollary of
   keep_intervals_total / keep_intervals_rejects_malformed). *)
Theorem keep_intervals_ok_iff : forall srt ivs t, refs_ok t ->
  ((exists t', keep_intervals srt ivs t = Ok t') <-> intervals_ok 0 (t_L t) ivs = true).
Proof. exact keep_intervals_ok_iff_proof. Qed.
