(* Property C16 — statements only. *)
From Coq Require Import List ZArith Bool.
From TskVerif Require Import Base.Common C16.Model.
Open Scope Z_scope.

Theorem gt_char_missing : forall m, gt_char m (-1) = 46.
Proof. intros m; unfold gt_char; destruct m; reflexivity. Qed.
