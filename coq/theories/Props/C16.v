(* Property C16 — VCF output states exactly the genotypes of the tree sequence.
   Statements only: every theorem is closed by [exact] of a lemma proved in C16/*.v;
   ./check evaluates Print Assumptions for each on every run.

   Reading guide.  C16/Model.v: [vcf_body_current] = the data lines VcfWriter.write
   produces, as /repo is now — this is what the per-run correspondence evaluates; it is
   selected by the regenerated fact c16_poszero_uses_raw_site_mask and, since the fix
   f5b3ea9, equals [vcf_body_fixed] (position-zero check on `~self.site_mask`).
   [vcf_body_pinned] = the pre-fix variant of commit 380c75d (check on the raw site_mask
   argument, finding F6); theorems named *_pinned* are a historical record about it.
   C16/Spec.v: [line_text] = CHROM POS ID REF ALT . PASS . GT + one '|'-joined field per
   individual, [gt_char] = '.' for a masked or missing call, [unmasked] = the
   (id, site) pairs whose mask entry is False, in site order; [wf_input] = a non-empty
   layout of ploidies >= 1 and, at the unmasked sites, one genotype per output column
   and at least one allele (what __init__ and ts.variants guarantee). *)
From Coq Require Import List ZArith Bool Sorting.Sorted.
From TskVerif Require Import Base.Common Gen.Generated C16.Model C16.Spec C16.TemplateProofs C16.BodyProofs
  C16.MappingProofs C16.Decode C16.WrapperProofs C16.EndToEndProofs C16.Corollaries.
Import ListNotations.
Open Scope Z_scope.

(* One line per unmasked site, in site order; POS = transformed position, ID = site
   id, REF = first allele, ALT = the remaining alleles (or "."), phased GT fields
   regrouped by individual, '.' for missing / masked calls. *)
Theorem vcf_lines_exact : forall inp lines, wf_input inp -> vcf_body_current inp = Ok lines ->
  lines = map (fun x => line_text (vi_contig inp) (vi_ploidies inp) (fst x) (snd x))
              (unmasked (vi_sites inp) (mask_bools (length (vi_sites inp)) (vi_site_mask inp))).
Proof. exact vcf_lines_exact_current. Qed.

(* ... with the exact error behaviour: ValueError iff the mask has the wrong length,
   an UNMASKED site has transformed position 0 (unless allowed), more than 9 alleles
   or a wrong-length sample mask. *)
Theorem vcf_body_is_spec : forall inp, wf_input inp -> vcf_body_current inp = spec_body inp.
Proof. exact vcf_body_current_spec. Qed.

(* The model evaluated against /repo on every run IS the repaired one. *)
Theorem vcf_body_current_is_fixed : vcf_body_current = vcf_body_fixed.
Proof. exact current_is_fixed. Qed.

(* "up to 9 alleles per site": the limit in VcfWriter.write (regenerated from /repo). *)
Theorem allele_limit : c16_max_alleles = 9.
Proof. exact allele_limit_is_nine. Qed.

(* Historical: the pre-fix code already equalled the repaired one whenever site_mask was
   None or a numpy bool array. *)
Theorem vcf_body_bool_masks_pinned : forall inp, bool_form (vi_site_mask inp) -> vcf_body_pinned inp = vcf_body_fixed inp.
Proof. exact bool_masks_as_fixed. Qed.

(* The template mechanism of write(): building the int8 array once and overwriting the
   call slots per site yields exactly the joined GT fields, whatever was there before. *)
Theorem gt_template_fill : forall ps vals cs,
  ps <> [] -> Forall (fun p => 1 <= p) ps ->
  length vals = total_calls ps -> length cs = total_calls ps ->
  gt_template ps = Ok (weave (repeat 0 (total_calls ps)) (final_seps ps), evens_from 0 (total_calls ps))
  /\ scatter (weave vals (final_seps ps)) (evens_from 0 (total_calls ps)) cs
     = Ok (join_with TAB (map gt_field (chunks (map Z.to_nat ps) cs)) ++ [NL]).
Proof. exact template_fill. Qed.

(* The regrouping by individuals / ploidy is a partition of the columns, in order. *)
Theorem gt_regroup_partition : forall (A : Type) (ps : list nat) (l : list A),
  length l = fold_right Nat.add O ps ->
  concat (chunks ps l) = l /\ map (@length A) (chunks ps l) = ps.
Proof. intros A. exact (@chunks_partition A). Qed.

(* ... and the layout itself: without individuals the samples in runs of [ploidy]; *)
Theorem sample_mapping_ploidy : forall nodes ni ploidy groups,
  Forall (fun s => node_individual nodes s = -1) (sample_ids nodes) ->
  make_sample_mapping nodes ni ploidy None = Ok groups ->
  concat groups = sample_ids nodes
  /\ exists p, 1 <= p /\ (match ploidy with Some q => p = q | None => p = 1 end)
               /\ Forall (fun g => zlen g = p) groups.
Proof. exact mapping_ploidy_partition. Qed.

(* with an `individuals` argument the nodes of the listed individuals, in that order. *)
Theorem sample_mapping_individuals : forall nodes ni ploidy inds groups,
  make_sample_mapping nodes ni ploidy (Some inds) = Ok groups ->
  inds <> [] /\ groups = map (individual_nodes nodes) inds
  /\ Forall (fun i => 0 <= i < ni) inds
  /\ Forall (fun g => g <> [] /\ uniform_flags nodes g) groups.
Proof. exact mapping_individuals. Qed.

(* by default: the individuals referred to by sample nodes, each once, by increasing id. *)
Theorem sample_mapping_default : forall nodes ni,
  (forall u0 us, unique_sorted (map (node_individual nodes) (sample_ids nodes)) = u0 :: us -> u0 <> -1 ->
     make_sample_mapping nodes ni None None = groups_of_individuals nodes ni (u0 :: us))
  /\ (forall l, strictly_sorted (unique_sorted l) /\ (forall y, In y (unique_sorted l) <-> In y l)).
Proof. exact (fun nodes ni => conj (mapping_default_individuals nodes ni) unique_sorted_spec). Qed.

(* Masked sites influence neither the output nor whether an error is raised:
   two inputs that agree on everything except the content (position, alleles,
   genotypes, sample-mask row) of MASKED sites behave identically. *)
Theorem masked_sites_irrelevant : forall inp inp',
  vi_contig inp = vi_contig inp' -> vi_ploidies inp = vi_ploidies inp' ->
  vi_allow_position_zero inp = vi_allow_position_zero inp' ->
  mask_bools (length (vi_sites inp)) (vi_site_mask inp) = mask_bools (length (vi_sites inp')) (vi_site_mask inp') ->
  agree (vi_sites inp) (vi_sites inp') (mask_bools (length (vi_sites inp)) (vi_site_mask inp)) ->
  vcf_body_current inp = vcf_body_current inp'.
Proof. exact masked_sites_irrelevant_current. Qed.

(* Historical: it held for the pre-fix code with None / bool-array masks only. *)
Theorem masked_sites_irrelevant_bool_masks_pinned : forall inp inp',
  bool_form (vi_site_mask inp) -> bool_form (vi_site_mask inp') ->
  vi_contig inp = vi_contig inp' -> vi_ploidies inp = vi_ploidies inp' ->
  vi_allow_position_zero inp = vi_allow_position_zero inp' ->
  mask_bools (length (vi_sites inp)) (vi_site_mask inp) = mask_bools (length (vi_sites inp')) (vi_site_mask inp') ->
  agree (vi_sites inp) (vi_sites inp') (mask_bools (length (vi_sites inp)) (vi_site_mask inp)) ->
  vcf_body_pinned inp = vcf_body_pinned inp'.
Proof. exact masked_sites_irrelevant_bool_masks. Qed.

(* Historical record about the PINNED (pre-fix) variant only — finding F6, repaired by
   /repo f5b3ea9: there a masked site's position decided whether ValueError was raised
   (integer-array mask [1; 0]) ... *)
Theorem masked_site_position_zero_pinned_refuted : exists inp inp',
  vi_contig inp = vi_contig inp' /\ vi_ploidies inp = vi_ploidies inp' /\
  vi_allow_position_zero inp = vi_allow_position_zero inp' /\ vi_site_mask inp = vi_site_mask inp' /\
  agree (vi_sites inp) (vi_sites inp') (mask_bools (length (vi_sites inp)) (vi_site_mask inp)) /\
  wf_input inp /\ wf_input inp' /\
  vcf_body_pinned inp <> vcf_body_pinned inp' /\ vcf_body_fixed inp = vcf_body_fixed inp'.
Proof. exact BodyProofs.masked_site_position_zero_pinned_refuted. Qed.

(* ... an unmasked site at position 0 was written although allow_position_zero=False ... *)
Theorem unmasked_position_zero_missed_pinned_refuted : exists inp lines,
  wf_input inp /\ vi_allow_position_zero inp = false /\
  In (0, site0 0) (unmasked (vi_sites inp) (mask_bools (length (vi_sites inp)) (vi_site_mask inp))) /\
  vcf_body_pinned inp = Ok lines /\ vcf_body_fixed inp = Err E_VALUE.
Proof. exact BodyProofs.unmasked_position_zero_missed_pinned_refuted. Qed.

(* ... and a python list / tuple mask was a TypeError whenever allow_position_zero=False. *)
Theorem site_mask_list_typeerror_pinned : forall contig ps sites l,
  length l = length sites ->
  vcf_body_pinned (mk_input contig ps sites (MPyList l) false) = Err E_TYPE.
Proof. exact list_mask_typeerror_pinned. Qed.

(* position_transform="legacy": strictly increasing positions above 0, and the identity
   on positions that already are. *)
Theorem legacy_positions_increasing : forall rounded last,
  increasing_from last (legacy_transform last rounded)
  /\ (increasing_from last rounded -> legacy_transform last rounded = rounded).
Proof. exact (fun rounded last => conj (legacy_increasing rounded last) (legacy_keeps_increasing rounded last)). Qed.

(* Header: sample names are the given ones (their number must match) or tsk_0.. ;
   they follow the nine fixed columns; the contig length is the largest of 1, the
   transformed sequence length and the last transformed position (masked or not). *)
Theorem header_names_and_contig :
  (forall given n, header_names given n =
      match given with
      | None => Ok (default_names n)
      | Some l => if Nat.eqb (length l) n then Ok l else Err E_VALUE
      end)
  /\ (forall n, length (default_names n) = n)
  /\ (forall names, names <> [] ->
        chrom_line names =
        join_with TAB ([[35; 67; 72; 82; 79; 77]; [80; 79; 83]; [73; 68]; [82; 69; 70]; [65; 76; 84];
                        [81; 85; 65; 76]; [70; 73; 76; 84; 69; 82]; [73; 78; 70; 79];
                        [70; 79; 82; 77; 65; 84]] ++ names))
  /\ (forall tl pos, contig_length tl pos = Z.max (last pos 1) (Z.max 1 tl)
                     \/ (pos = [] /\ contig_length tl pos = Z.max 1 tl)).
Proof.
  exact (conj header_names_spec (conj default_names_length (conj chrom_line_names contig_length_spec))).
Qed.

(* ---- final extension round ---- *)

(* THE TOP THEOREM.  [vcf_end_to_end] (C16/Decode.v) is the writer from the tables:
   __make_sample_mapping, the __init__ checks, C03's model of tsk_variant_init/decode on the
   tree arrays at every site, VcfWriter.write.  Whenever it writes lines — under C03's own
   hypotheses: at every site the arrays represent a forest [par_of s] of bounded height
   (tree_rep; C01/C06), the mutations are in range and ordered as in a valid tree sequence —
   the lines are exactly [line_text] of the unmasked sites for genotype rows that follow the
   nearest-mutation rule column by column: MISSING iff isolated_as_missing and the node is
   isolated without a mutation on it, otherwise the first index (among that site's alleles) of
   the state of the nearest mutation above the node, the ancestral state if there is none.
   genotype_matrix does not occur. *)
Theorem vcf_spells_nearest_mutation :
  forall nodes flags ni ploidy individuals ts_map iam contig sites mask apz lines
         (par_of : site_in -> Z -> option Z) (N : Z) (h : nat),
  vcf_end_to_end nodes flags ni ploidy individuals (sample_ids nodes) ts_map iam contig sites mask apz = Ok lines ->
  (forall (v : C03.Model.variant) s, In s sites ->
     C03.Spec.tree_rep (par_of s) (C03.Model.default_fuel (si_tree s)) (si_tree s) v N
     /\ C03.DecodeProofs.muts_in_range N (si_site s)
     /\ C03.Spec.order_ok (par_of s) (C03.Model.s_mutations (si_site s))
     /\ (forall u, C03.Spec.depth_le (par_of s) h u)) ->
  exists groups sds,
    make_sample_mapping nodes ni ploidy individuals = Ok groups
    /\ lines = map (fun x => line_text contig (map zlen groups) (fst x) (snd x))
                   (unmasked sds (mask_bools (length sds) mask))
    /\ Forall2 (fun s sd =>
         sd_pos sd = si_pos s /\ sd_sample_mask sd = si_sample_mask s
         /\ length (sd_genotypes sd) = length (concat groups)
         /\ forall k u, get (concat groups) k = Ok u ->
              exists r, C03.Spec.nearest (par_of s) (C03.Model.s_mutations (si_site s)) u r /\
                let missing := iam = true /\ C03.Spec.isolated (par_of s) u
                               /\ C03.Spec.has_mut_on (C03.Model.s_mutations (si_site s)) u = false in
                let state := C03.Spec.state_of (C03.Model.s_ancestral (si_site s)) r in
                (missing /\ get (sd_genotypes sd) k = Ok (-1)) \/
                (~ missing /\ get (sd_genotypes sd) k = Ok (C03.Model.allele_index (sd_alleles sd) state)
                 /\ get (sd_alleles sd) (C03.Model.allele_index (sd_alleles sd) state) = Ok state))
       sites sds.
Proof. exact EndToEndProofs.vcf_spells_nearest_mutation. Qed.

(* its structural half, without any hypothesis: what a successful end-to-end run consists of *)
Theorem vcf_end_to_end_inversion :
  forall nodes flags ni ploidy individuals ts_samples ts_map iam contig sites mask apz lines,
  vcf_end_to_end nodes flags ni ploidy individuals ts_samples ts_map iam contig sites mask apz = Ok lines ->
  exists groups v sds,
    make_sample_mapping nodes ni ploidy individuals = Ok groups
    /\ C03.Model.variant_init flags ts_samples ts_map (writer_samples nodes individuals groups) None (negb iam) = Ok v
    /\ Forall2 (fun s sd => site_of_decode v s = Ok sd) sites sds
    /\ vcf_body_current (mk_input contig (map zlen groups) sds mask apz) = Ok lines.
Proof. exact end_to_end_inversion. Qed.

(* wrapper level (facts regenerated from the signatures / call sites in trees.py): write_vcf
   hands each of its parameters to VcfWriter under the same name, as_vcf hands *args/**kwargs on *)
Theorem write_vcf_forwards_every_keyword :
  c16_vcfwriter_keywords = map forwarded_as_itself c16_write_vcf_params
  /\ c16_write_vcf_params = write_vcf_documented_params
  /\ c16_as_vcf_forwards_all = true.
Proof. exact WrapperProofs.write_vcf_forwards_every_keyword. Qed.

(* ---- proof-only round ---- *)

(* The ##contig length as a function of the transformed sequence length and the transformed
   positions: it is at least 1, at least the transformed sequence length, and — whenever the
   transformed positions are non-decreasing, as they are for numpy.round, the legacy transform and
   every monotone callable on increasing site positions — no written POS exceeds it. *)
Theorem contig_length_covers_positions : forall tl pos, StronglySorted Z.le pos ->
  Forall (fun p => p <= contig_length tl pos) pos
  /\ 1 <= contig_length tl pos /\ tl <= contig_length tl pos.
Proof. exact contig_covers_positions. Qed.

(* position_transform="legacy": every POS lies in [1, contig length], for any site positions. *)
Theorem legacy_positions_within_contig : forall rounded tl,
  let pos := legacy_transform 0 rounded in
  Forall (fun p => 1 <= p <= contig_length tl pos) pos.
Proof. exact legacy_contig_covers. Qed.

(* Exactly one data line per unmasked site: no line lost, none invented (corollary of
   vcf_lines_exact). *)
Theorem vcf_line_count : forall inp lines, wf_input inp -> vcf_body_current inp = Ok lines ->
  length lines = length (unmasked (vi_sites inp) (mask_bools (length (vi_sites inp)) (vi_site_mask inp))).
Proof. exact vcf_line_count_proof. Qed.

(* position_transform="legacy" is idempotent: applied to its own output it changes nothing. *)
Theorem legacy_transform_idempotent : forall rounded last,
  legacy_transform last (legacy_transform last rounded) = legacy_transform last rounded.
Proof. exact legacy_idempotent_proof. Qed.
