(* Property C14 — statements only.  Each theorem is closed by [exact] of a lemma proved in the
   C14/ files; Print Assumptions is evaluated by ./check on every run.
   [subset] / [union] are the Gallina models of tsk_table_collection_subset / _union
   (C14/Model.v); [spec_*] are the map/filter readings of the property text (C14/Spec.v);
   [refs_in_range] is the part of tsk_table_collection_check_integrity(…,0) the functions
   rely on (every id column points inside its table or is NULL). *)
From Coq Require Import List ZArith Bool.
From Coq Require Import Permutation.
From TskVerif Require Import Base.Common C14.Model C14.Spec C14.Basics C14.SubsetMain
     C14.SubsetCorollaries C14.SubsetIdentity C14.UnionProofs C14.InverseProofs C14.Examples.
Import ListNotations.
Open Scope Z_scope.

(* The whole output of subset, for every table collection, every in-range node list (any
   order, any subset, empty, all, duplicates) and both flags: exactly the specification. *)
Theorem subset_exact : forall t nodes keep_unreferenced no_change_populations,
  refs_in_range t = true ->
  forallb (in_range (zlen (t_nodes t))) nodes = true ->
  subset t nodes keep_unreferenced no_change_populations
  = Ok (spec_subset t nodes keep_unreferenced no_change_populations).
Proof. exact subset_exact_lemma. Qed.

Theorem subset_refuses_out_of_range : forall t nodes keep_unreferenced no_change_populations,
  refs_in_range t = true ->
  forallb (in_range (zlen (t_nodes t))) nodes = false ->
  subset t nodes keep_unreferenced no_change_populations = Err ERR_NODE_OOB.
Proof. exact subset_out_of_range_lemma. Qed.

(* (a) output nodes = the listed nodes in the listed order, rows unchanged but for the
   remapped population / individual ids *)
Theorem subset_nodes_exact : forall t nodes ku ncp t',
  refs_in_range t = true -> subset t nodes ku ncp = Ok t' ->
  Forall2 (fun u r' => exists r, getz (t_nodes t) u = Ok r /\ r' = spec_node t nodes ku ncp r)
          nodes (t_nodes t').
Proof. exact subset_nodes_exact_lemma. Qed.

(* (b) output edges = the input edges with both ends listed, order preserved, nothing else;
   the new end points are positions of the node list holding the old end points *)
Theorem subset_edges_exact : forall t nodes ku ncp t',
  refs_in_range t = true -> subset t nodes ku ncp = Ok t' ->
  t_edges t' = map (spec_edge nodes) (filter (edge_kept nodes) (t_edges t)) /\
  forall e, In e (filter (edge_kept nodes) (t_edges t)) ->
    getz nodes (e_parent (spec_edge nodes e)) = Ok (e_parent e) /\
    getz nodes (e_child (spec_edge nodes e)) = Ok (e_child e) /\
    e_left (spec_edge nodes e) = e_left e /\ e_right (spec_edge nodes e) = e_right e /\
    e_md (spec_edge nodes e) = e_md e.
Proof. exact subset_edges_exact_lemma. Qed.

(* (c) mutations on listed nodes with their sites *)
Theorem subset_mutations_sites_exact : forall t nodes ku ncp t',
  refs_in_range t = true -> subset t nodes ku ncp = Ok t' ->
  t_sites t' = filteri (site_kept t nodes ku) 0 (t_sites t) /\
  t_mutations t' = map (spec_mutation t nodes ku) (filter (mut_kept_row nodes) (t_mutations t)) /\
  forall m, In m (filter (mut_kept_row nodes) (t_mutations t)) ->
    let m' := spec_mutation t nodes ku m in
    getz nodes (m_node m') = Ok (m_node m) /\
    getz (t_sites t') (m_site m') = getz (t_sites t) (m_site m) /\
    (m_parent m = NULL -> m_parent m' = NULL) /\
    (forall pm, getz (t_mutations t) (m_parent m) = Ok pm -> mut_kept_row nodes pm = false -> m_parent m' = NULL) /\
    (forall pm, getz (t_mutations t) (m_parent m) = Ok pm -> mut_kept_row nodes pm = true ->
                getz (t_mutations t') (m_parent m') = Ok (spec_mutation t nodes ku pm)) /\
    m_derived m' = m_derived m /\ m_time m' = m_time m /\ m_md m' = m_md m.
Proof. exact subset_mutations_sites_exact_lemma. Qed.

(* (d) individuals and populations: exactly the referenced ones (or all, per flag) *)
Theorem subset_refs_exact : forall t nodes ku ncp t',
  refs_in_range t = true -> subset t nodes ku ncp = Ok t' ->
  t_individuals t' = map (spec_individual (ind_map t nodes ku))
                         (filteri (ind_kept t nodes ku) 0 (t_individuals t)) /\
  (forall i j, 0 <= i < j -> ind_kept t nodes ku i = true -> ind_kept t nodes ku j = true ->
               0 <= ind_map t nodes ku i < ind_map t nodes ku j) /\
  (forall i r, getz (t_individuals t) i = Ok r -> ind_kept t nodes ku i = true ->
               getz (t_individuals t') (ind_map t nodes ku i) = Ok (spec_individual (ind_map t nodes ku) r)) /\
  t_populations t' = spec_populations t nodes ku ncp /\
  (ncp = true -> t_populations t' = t_populations t /\ forall p, pop_map t nodes ncp p = p) /\
  (ncp = false ->
     NoDup (pop_order t nodes) /\
     (forall p, In p (pop_order t nodes) <-> In p (node_pops t nodes) /\ p <> NULL) /\
     (forall p, In p (pop_order t nodes) ->
                getz (t_populations t') (pop_map t nodes ncp p) = getz (t_populations t) p) /\
     (forall p q, In p (pop_order t nodes) -> In q (pop_order t nodes) ->
                  pop_map t nodes ncp p = pop_map t nodes ncp q -> p = q) /\
     (ku = false -> zlen (t_populations t') = zlen (pop_order t nodes))).
Proof. exact subset_refs_exact_lemma. Qed.

(* (e) the identity list with nothing removed / reordered returns the input *)
Theorem subset_identity : forall t,
  refs_in_range t = true ->
  subset t (zrange (length (t_nodes t))) true true = Ok t.
Proof. exact subset_identity_lemma. Qed.

(* (f) union adds exactly the nodes of `other` mapped to NULL (in order, row data kept) and
   exactly the edges of `other` that involve one of them (ends renumbered through
   [union_node_id]); the rows of `self` stay.  Edges up to the order of the final sort. *)
Theorem union_adds_exactly : forall self other mapping check_shared add_populations u,
  refs_in_range other = true ->
  union self other mapping check_shared add_populations = Ok u ->
  zlen mapping = zlen (t_nodes other) /\ bad_map self mapping = false /\
  union_adds self other mapping add_populations u /\
  Permutation (t_edges u)
              (t_edges self ++ map (union_edge self mapping) (filter (edge_is_new mapping) (t_edges other))).
Proof. exact union_adds_exactly_lemma. Qed.

(* refusal under check_shared_equality: unequal canonicalised shared portions are refused … *)
Theorem union_refuses_differing_shared : forall self other mapping add_populations s1 o1 s2 o2,
  zlen mapping = zlen (t_nodes other) -> bad_map self mapping = false ->
  subset self (fst (shared_lists 0 mapping)) false false = Ok s1 ->
  subset other (snd (shared_lists 0 mapping)) false false = Ok o1 ->
  canonicalise s1 false = Ok s2 -> canonicalise o1 false = Ok o2 ->
  tables_eqb s2 o2 = false ->
  union self other mapping true add_populations = Err ERR_UNION_DIFF_HISTORIES.
Proof. exact union_refuses_lemma. Qed.

(* … and a checked union that succeeds had equal shared portions *)
Theorem union_checked_shared_equal : forall self other mapping add_populations u,
  union self other mapping true add_populations = Ok u ->
  exists s1 o1 s2 o2,
    subset self (fst (shared_lists 0 mapping)) false false = Ok s1 /\
    subset other (snd (shared_lists 0 mapping)) false false = Ok o1 /\
    canonicalise s1 false = Ok s2 /\ canonicalise o1 false = Ok o2 /\
    tables_eqb s2 o2 = true.
Proof. exact union_checked_equal_lemma. Qed.

(* (g) split with subset, re-join with union.
   FULL STATEMENT of the property (not proved as a theorem; decided by the `inverse`
   correspondence family on every run, see notes/C14.md for the exact flag domain):
     forall T valid, A B a two-part cover of the node set sharing the ancestral portion
     (every edge, every individual link inside one part), S = py_subset T A, O = py_subset T B,
     U = union S O (mapping_of A B):
       canonicalise (py_subset U (original node order) keep-all) = canonicalise T
     row for row in all six tables.
   PROVED here, unbounded (any table collection with in-range references, any node lists
   without repetitions, any flags): the edge table — the union of the two subsets holds exactly
   the edges of T, each once, renamed by the single node renumbering [cover_id A B], provided
   every edge of T has both ends in A or both ends in B.  Example ex_bad_cover_loses_edge shows
   the hypothesis is needed.  MISSING for the full statement: sites / mutations (parents are
   recomputed from the merged trees), individuals, populations, and the canonical sorters. *)
Theorem subset_union_inverse_partial :
  forall T A B keep_unreferenced no_change_populations check_shared add_populations S O U,
  refs_in_range T = true ->
  NoDup A -> NoDup B ->
  (forall e, In e (t_edges T) -> edge_kept A e || edge_kept B e = true) ->
  subset T A keep_unreferenced no_change_populations = Ok S ->
  subset T B keep_unreferenced no_change_populations = Ok O ->
  union S O (mapping_of A B) check_shared add_populations = Ok U ->
  Permutation (t_edges U) (map (rename_edge (cover_id A B)) (t_edges T)).
Proof. exact subset_union_inverse_edges_lemma. Qed.

(* (g, node level) the re-joined collection has one node per element of A ∪ B and every listed
   node of T is found at [cover_id A B u] with its flags, time and metadata (no cover
   hypothesis needed for this part). *)
Theorem subset_union_inverse_nodes_partial :
  forall T A B keep_unreferenced no_change_populations check_shared add_populations S O U,
  refs_in_range T = true ->
  NoDup A -> NoDup B ->
  subset T A keep_unreferenced no_change_populations = Ok S ->
  subset T B keep_unreferenced no_change_populations = Ok O ->
  union S O (mapping_of A B) check_shared add_populations = Ok U ->
  zlen (t_nodes U) = zlen A + zlen (new_ids (mapping_of A B)) /\
  forall u r, listed A u || listed B u = true -> getz (t_nodes T) u = Ok r ->
    exists r', getz (t_nodes U) (cover_id A B u) = Ok r' /\
               n_flags r' = n_flags r /\ n_time r' = n_time r /\ n_md r' = n_md r.
Proof. exact subset_union_inverse_nodes_lemma. Qed.
