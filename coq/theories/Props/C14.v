(* Property C14 — statements only.  Each theorem is closed by [exact] of a lemma proved in the
   C14/ files; Print Assumptions is evaluated by ./check on every run.
   [subset] / [union] are the Gallina models of tsk_table_collection_subset / _union
   (C14/Model.v); [spec_*] are the map/filter readings of the property text (C14/Spec.v);
   [refs_in_range] is the part of tsk_table_collection_check_integrity(…,0) the functions
   rely on (every id column points inside its table or is NULL). *)
From Coq Require Import List ZArith Bool.
From Coq Require Import Permutation Sorted.
From TskVerif Require Import Base.Common C14.Model C14.Spec C14.Basics C14.SubsetMain
     C14.SubsetCorollaries C14.SubsetIdentity C14.UnionProofs C14.UnionRows C14.SortProofs C14.UnionFull C14.UnionRefs C14.InverseProofs C14.InverseRows C14.GuardProofs C14.SortRemap C14.WrapperProofs C14.InverseRefs C14.CanonInvariance C14.CanonInds C14.Examples C14.Counts.
Import ListNotations.
Open Scope Z_scope.

(* The whole output of subset, for every table collection, every in-range node list (any
   order, any subset, empty, all, duplicates) and both flags: exactly the specification. *)
Theorem subset_exact : forall t nodes keep_unreferenced no_change_populations,
  refs_in_range t = true ->
  forallb (in_range (zlen (t_nodes t))) nodes = true ->
  subset t nodes keep_unreferenced no_change_populations
  = Ok (spec_subset t nodes keep_unreferenced no_change_populations).
Proof. exact subset_exact_lemma. Qed.

Theorem subset_refuses_out_of_range : forall t nodes keep_unreferenced no_change_populations,
  refs_in_range t = true ->
  forallb (in_range (zlen (t_nodes t))) nodes = false ->
  subset t nodes keep_unreferenced no_change_populations = Err ERR_NODE_OOB.
Proof. exact subset_out_of_range_lemma. Qed.

(* (a) output nodes = the listed nodes in the listed order, rows unchanged but for the
   remapped population / individual ids *)
Theorem subset_nodes_exact : forall t nodes ku ncp t',
  refs_in_range t = true -> subset t nodes ku ncp = Ok t' ->
  Forall2 (fun u r' => exists r, getz (t_nodes t) u = Ok r /\ r' = spec_node t nodes ku ncp r)
          nodes (t_nodes t').
Proof. exact subset_nodes_exact_lemma. Qed.

(* (b) output edges = the input edges with both ends listed, order preserved, nothing else;
   the new end points are positions of the node list holding the old end points *)
Theorem subset_edges_exact : forall t nodes ku ncp t',
  refs_in_range t = true -> subset t nodes ku ncp = Ok t' ->
  t_edges t' = map (spec_edge nodes) (filter (edge_kept nodes) (t_edges t)) /\
  forall e, In e (filter (edge_kept nodes) (t_edges t)) ->
    getz nodes (e_parent (spec_edge nodes e)) = Ok (e_parent e) /\
    getz nodes (e_child (spec_edge nodes e)) = Ok (e_child e) /\
    e_left (spec_edge nodes e) = e_left e /\ e_right (spec_edge nodes e) = e_right e /\
    e_md (spec_edge nodes e) = e_md e.
Proof. exact subset_edges_exact_lemma. Qed.

(* (c) mutations on listed nodes with their sites *)
Theorem subset_mutations_sites_exact : forall t nodes ku ncp t',
  refs_in_range t = true -> subset t nodes ku ncp = Ok t' ->
  t_sites t' = filteri (site_kept t nodes ku) 0 (t_sites t) /\
  t_mutations t' = map (spec_mutation t nodes ku) (filter (mut_kept_row nodes) (t_mutations t)) /\
  forall m, In m (filter (mut_kept_row nodes) (t_mutations t)) ->
    let m' := spec_mutation t nodes ku m in
    getz nodes (m_node m') = Ok (m_node m) /\
    getz (t_sites t') (m_site m') = getz (t_sites t) (m_site m) /\
    (m_parent m = NULL -> m_parent m' = NULL) /\
    (forall pm, getz (t_mutations t) (m_parent m) = Ok pm -> mut_kept_row nodes pm = false -> m_parent m' = NULL) /\
    (forall pm, getz (t_mutations t) (m_parent m) = Ok pm -> mut_kept_row nodes pm = true ->
                getz (t_mutations t') (m_parent m') = Ok (spec_mutation t nodes ku pm)) /\
    m_derived m' = m_derived m /\ m_time m' = m_time m /\ m_md m' = m_md m.
Proof. exact subset_mutations_sites_exact_lemma. Qed.

(* (d) individuals and populations: exactly the referenced ones (or all, per flag) *)
Theorem subset_refs_exact : forall t nodes ku ncp t',
  refs_in_range t = true -> subset t nodes ku ncp = Ok t' ->
  t_individuals t' = map (spec_individual (ind_map t nodes ku))
                         (filteri (ind_kept t nodes ku) 0 (t_individuals t)) /\
  (forall i j, 0 <= i < j -> ind_kept t nodes ku i = true -> ind_kept t nodes ku j = true ->
               0 <= ind_map t nodes ku i < ind_map t nodes ku j) /\
  (forall i r, getz (t_individuals t) i = Ok r -> ind_kept t nodes ku i = true ->
               getz (t_individuals t') (ind_map t nodes ku i) = Ok (spec_individual (ind_map t nodes ku) r)) /\
  t_populations t' = spec_populations t nodes ku ncp /\
  (ncp = true -> t_populations t' = t_populations t /\ forall p, pop_map t nodes ncp p = p) /\
  (ncp = false ->
     NoDup (pop_order t nodes) /\
     (forall p, In p (pop_order t nodes) <-> In p (node_pops t nodes) /\ p <> NULL) /\
     (forall p, In p (pop_order t nodes) ->
                getz (t_populations t') (pop_map t nodes ncp p) = getz (t_populations t) p) /\
     (forall p q, In p (pop_order t nodes) -> In q (pop_order t nodes) ->
                  pop_map t nodes ncp p = pop_map t nodes ncp q -> p = q) /\
     (ku = false -> zlen (t_populations t') = zlen (pop_order t nodes))).
Proof. exact subset_refs_exact_lemma. Qed.

(* (e) the identity list with nothing removed / reordered returns the input *)
Theorem subset_identity : forall t,
  refs_in_range t = true ->
  subset t (zrange (length (t_nodes t))) true true = Ok t.
Proof. exact subset_identity_lemma. Qed.

(* (f) union adds exactly the nodes of `other` mapped to NULL (in order, row data kept) and
   exactly the edges of `other` that involve one of them (ends renumbered through
   [union_node_id]); the rows of `self` stay.  Edges up to the order of the final sort. *)
Theorem union_adds_exactly : forall self other mapping check_shared add_populations u,
  refs_in_range other = true ->
  union self other mapping check_shared add_populations = Ok u ->
  zlen mapping = zlen (t_nodes other) /\ bad_map self mapping = false /\
  union_adds self other mapping add_populations u /\
  Permutation (t_edges u)
              (t_edges self ++ map (union_edge self mapping) (filter (edge_is_new mapping) (t_edges other))).
Proof. exact union_adds_exactly_lemma. Qed.

(* refusal under check_shared_equality: unequal canonicalised shared portions are refused … *)
Theorem union_refuses_differing_shared : forall self other mapping add_populations s1 o1 s2 o2,
  zlen mapping = zlen (t_nodes other) -> bad_map self mapping = false ->
  subset self (fst (shared_lists 0 mapping)) false false = Ok s1 ->
  subset other (snd (shared_lists 0 mapping)) false false = Ok o1 ->
  canonicalise s1 false = Ok s2 -> canonicalise o1 false = Ok o2 ->
  tables_eqb s2 o2 = false ->
  union self other mapping true add_populations = Err ERR_UNION_DIFF_HISTORIES.
Proof. exact union_refuses_lemma. Qed.

(* … and a checked union that succeeds had equal shared portions *)
Theorem union_checked_shared_equal : forall self other mapping add_populations u,
  union self other mapping true add_populations = Ok u ->
  exists s1 o1 s2 o2,
    subset self (fst (shared_lists 0 mapping)) false false = Ok s1 /\
    subset other (snd (shared_lists 0 mapping)) false false = Ok o1 /\
    canonicalise s1 false = Ok s2 /\ canonicalise o1 false = Ok o2 /\
    tables_eqb s2 o2 = true.
Proof. exact union_checked_equal_lemma. Qed.

(* (g) split with subset, re-join with union.
   FULL STATEMENT of the property (not proved as a theorem; decided by the `inverse`
   correspondence family on every run, see notes/C14.md for the exact flag domain):
     forall T valid, A B a two-part cover of the node set sharing the ancestral portion
     (every edge, every individual link inside one part), S = py_subset T A, O = py_subset T B,
     U = union S O (mapping_of A B):
       canonicalise (py_subset U (original node order) keep-all) = canonicalise T
     row for row in all six tables.
   PROVED here, unbounded (any table collection with in-range references, any node lists
   without repetitions, any flags): the edge table — the union of the two subsets holds exactly
   the edges of T, each once, renamed by the single node renumbering [cover_id A B], provided
   every edge of T has both ends in A or both ends in B.  Example ex_bad_cover_loses_edge shows
   the hypothesis is needed.  MISSING for the full statement: sites / mutations (parents are
   recomputed from the merged trees), individuals, populations, and the canonical sorters. *)
Theorem subset_union_inverse_partial :
  forall T A B keep_unreferenced no_change_populations check_shared add_populations S O U,
  refs_in_range T = true ->
  NoDup A -> NoDup B ->
  (forall e, In e (t_edges T) -> edge_kept A e || edge_kept B e = true) ->
  subset T A keep_unreferenced no_change_populations = Ok S ->
  subset T B keep_unreferenced no_change_populations = Ok O ->
  union S O (mapping_of A B) check_shared add_populations = Ok U ->
  Permutation (t_edges U) (map (rename_edge (cover_id A B)) (t_edges T)).
Proof. exact subset_union_inverse_edges_lemma. Qed.

(* (g, node level) the re-joined collection has one node per element of A ∪ B and every listed
   node of T is found at [cover_id A B u] with its flags, time and metadata (no cover
   hypothesis needed for this part). *)
Theorem subset_union_inverse_nodes_partial :
  forall T A B keep_unreferenced no_change_populations check_shared add_populations S O U,
  refs_in_range T = true ->
  NoDup A -> NoDup B ->
  subset T A keep_unreferenced no_change_populations = Ok S ->
  subset T B keep_unreferenced no_change_populations = Ok O ->
  union S O (mapping_of A B) check_shared add_populations = Ok U ->
  zlen (t_nodes U) = zlen A + zlen (new_ids (mapping_of A B)) /\
  forall u r, listed A u || listed B u = true -> getz (t_nodes T) u = Ok r ->
    exists r', getz (t_nodes U) (cover_id A B u) = Ok r' /\
               n_flags r' = n_flags r /\ n_time r' = n_time r /\ n_md r' = n_md r.
Proof. exact subset_union_inverse_nodes_lemma. Qed.

(* (f, sites and mutations) with `other`'s mutations grouped by site (any table sorted by site:
   lemma UnionRows.sorted_grouped) the result of union has exactly self's mutations plus other's
   mutations on new nodes — node renumbered, derived state / time / metadata kept; the site id
   and the parent are recomputed — and one site per position: every site row is one of self's or
   a site of other carrying a mutation on a new node, and each of those positions is present. *)
Theorem union_sites_mutations_exact : forall self other mapping check_shared add_populations u,
  node_refs_ok other ->
  grouped 0 (length (t_sites other)) (t_mutations other) = true ->
  (forall m, In m (t_mutations other) -> in_range (zlen (t_nodes other)) (m_node m) = true) ->
  union self other mapping check_shared add_populations = Ok u ->
  Permutation (map mut_core (t_mutations u)) (map mut_core (union_raw_mutations self other mapping)) /\
  StronglySorted (fun a b => s_pos a < s_pos b) (t_sites u) /\
  (forall s, In s (t_sites u) -> In s (union_raw_sites self other mapping)) /\
  (forall s, In s (union_raw_sites self other mapping) -> exists s', In s' (t_sites u) /\ s_pos s' = s_pos s).
Proof. exact union_sites_mutations_lemma. Qed.

(* the sorter used by union and by the Python wrapper of subset: a permutation in key order
   (edges by (time[parent], parent, child, left), sites by position); nodes, individuals and
   populations untouched; mutations keep node / derived state / time / metadata *)
Theorem sort_is_sorted_permutation : forall t t', sort_tables t = Ok t' ->
  t_nodes t' = t_nodes t /\ t_individuals t' = t_individuals t /\ t_populations t' = t_populations t /\
  Permutation (t_edges t') (t_edges t) /\
  Sorted (fun a b => edge_le (node_time (t_nodes t)) a b = true) (t_edges t') /\
  Permutation (t_sites t') (t_sites t) /\ Sorted (fun a b => s_pos a <= s_pos b) (t_sites t') /\
  Permutation (map mut_core (t_mutations t')) (map mut_core (t_mutations t)).
Proof. exact sort_tables_spec. Qed.

(* (f, nodes / individuals / populations, exactly) the rows union appends and the id columns of
   the new nodes: populations of new nodes become new populations in first-use order
   (add_populations) or keep their id and nothing is appended; an individual of a new node is
   appended (first-use order) unless a shared node already identifies it with an individual of
   self ([imap0], whose non-NULL entries come from a pair (j, mapping[j]) of shared nodes);
   parents of appended individuals go through the same map (NULL when unknown). *)
Theorem union_refs_exact : forall self other mapping check_shared addp u,
  node_refs_ok other ->
  union self other mapping check_shared addp = Ok u ->
  exists imap0,
    seed_individual_map self other 0 mapping mnull = Ok imap0 /\
    (forall q, imap0 q <> NULL ->
       exists j mj r rs, getz mapping j = Ok mj /\ mj <> NULL /\
         getz (t_nodes other) j = Ok r /\ getz (t_nodes self) mj = Ok rs /\ n_ind r = q /\ imap0 q = n_ind rs) /\
    let rows := union_new_rows other mapping in
    let fi := first_uses (filter (fun i => imap0 i =? NULL) (map n_ind rows)) in
    let fp := first_uses (map n_pop rows) in
    let im := fun q => if imap0 q =? NULL
                       then (if listed fi q then zlen (t_individuals self) + index_of q fi 0 else NULL)
                       else imap0 q in
    let pm := fun q => if listed fp q then zlen (t_populations self) + index_of q fp 0 else NULL in
    t_nodes u = t_nodes self ++ map (new_node_exact addp pm im) rows /\
    t_populations u = t_populations self ++ (if addp then rows_of (t_populations other) fp else []) /\
    t_individuals u = t_individuals self ++
       map (fun row => mkI (i_flags row) (i_loc row) (map (remap_ref im) (i_parents row)) (i_md row))
           (rows_of (t_individuals other) fi).
Proof. exact union_refs_exact_lemma. Qed.

(* what "canonical form" means in the shared-portion check of union (and in the inverse law):
   canonicalise = subset on all nodes, then edges and sites sorted by their keys, mutations and
   individuals permuted (ids renumbered), node rows kept up to the individual column *)
Theorem canonicalise_is_sorted_subset : forall t keep_unreferenced c,
  canonicalise t keep_unreferenced = Ok c ->
  exists t1,
    subset t (zrange (length (t_nodes t))) keep_unreferenced false = Ok t1 /\
    map node_core (t_nodes c) = map node_core (t_nodes t1) /\
    t_populations c = t_populations t1 /\
    Permutation (t_edges c) (t_edges t1) /\
    Sorted (fun a b => edge_le (node_time (t_nodes t1)) a b = true) (t_edges c) /\
    Permutation (t_sites c) (t_sites t1) /\ Sorted (fun a b => s_pos a <= s_pos b) (t_sites c) /\
    Permutation (map mut_core (t_mutations c)) (map mut_core (t_mutations t1)) /\
    Permutation (map ind_core (t_individuals c)) (map ind_core (t_individuals t1)).
Proof. exact canonicalise_spec. Qed.

(* ---- second extension round: no hypothesis on the input any more ---- *)
(* the modelled tsk_table_collection_check_integrity(…,0) (the first thing subset and union
   call) establishes the reference bounds every theorem above assumes *)
Theorem integrity_guard_gives_refs : forall t, check_integrity0 t = Ok tt -> refs_in_range t = true.
Proof. exact guard_gives_refs. Qed.

(* subset as the library runs it, for EVERY table collection and EVERY node list: the guard's
   error code, or TSK_ERR_NODE_OUT_OF_BOUNDS, or exactly the specified tables *)
Theorem subset_total : forall t nodes keep_unreferenced no_change_populations,
  subset_checked t nodes keep_unreferenced no_change_populations =
  if integrity_code t =? 0
  then (if forallb (in_range (zlen (t_nodes t))) nodes
        then Ok (spec_subset t nodes keep_unreferenced no_change_populations) else Err ERR_NODE_OOB)
  else Err (integrity_code t).
Proof. exact subset_total_lemma. Qed.

(* union as the library runs it: a guard error (self first, then other), or the unguarded
   function on two collections with in-range references — to which (f) applies *)
Theorem union_total : forall self other mapping check_shared add_populations,
  union_checked self other mapping check_shared add_populations =
  if negb (integrity_code self =? 0) then Err (integrity_code self)
  else if negb (integrity_code other =? 0) then Err (integrity_code other)
  else union self other mapping check_shared add_populations.
Proof. exact union_total_lemma. Qed.

Theorem union_checked_ok_gives_refs : forall self other mapping check_shared add_populations u,
  union_checked self other mapping check_shared add_populations = Ok u ->
  refs_in_range self = true /\ refs_in_range other = true /\
  union self other mapping check_shared add_populations = Ok u.
Proof. exact union_checked_adds_exactly_lemma. Qed.

(* (g, mutations and sites) if every mutation sits on a node of A or of B and the mutation
   table is sorted by site (both hold for a tree sequence and a cover), the re-joined collection
   holds exactly the original mutations, each once — derived state, time, metadata; node renamed
   by [cover_id] —, its sites have strictly increasing positions and each is a site row of T.
   Still differential for the full inverse law: the recomputed mutation parents, individuals and
   populations (their exact rows are given by [union_refs_exact]). *)
Theorem subset_union_inverse_mutations_partial :
  forall T A B keep_unreferenced no_change_populations check_shared add_populations S O U,
  refs_in_range T = true ->
  NoDup A -> NoDup B ->
  (forall m, In m (t_mutations T) -> listed A (m_node m) || listed B (m_node m) = true) ->
  StronglySorted (fun a b => m_site a <= m_site b) (t_mutations T) ->
  subset T A keep_unreferenced no_change_populations = Ok S ->
  subset T B keep_unreferenced no_change_populations = Ok O ->
  union S O (mapping_of A B) check_shared add_populations = Ok U ->
  Permutation (map mut_core (t_mutations U)) (map (renamed_core (cover_id A B)) (t_mutations T)) /\
  StronglySorted (fun a b => s_pos a < s_pos b) (t_sites U) /\
  (forall s, In s (t_sites U) -> In s (t_sites T)).
Proof. exact subset_union_inverse_mutations_lemma. Qed.

(* the sorter's id remaps and key order (used by union, by TableCollection.subset and — with
   cmp_mutation_canonical, also total: SortRemap.mutation_canonical_le_total — by canonicalise):
   site_id_map designates the same site row after sorting; the mutations carry the new site id,
   are in the order of the comparison function, and mutation_id_map sends an old id to the output
   row made from it (which is what the remapped parent column points to) *)
Theorem sort_id_maps_correct : forall mle ss ms ss' ms',
  (forall x y, mle x y = true \/ mle y x = true) ->
  sort_sites_mutations mle ss ms = Ok (ss', ms') ->
  let smap := positions_from 0 (isort site_le (index_from 0 ss)) mnull in
  (forall s a, getz ss s = Ok a -> getz ss' (smap s) = Ok a) /\
  exists sorted,
    Permutation sorted (index_from 0 (map (fun m => set_site m (smap (m_site m))) ms)) /\
    Sorted (fun a b => mle a b = true) sorted /\
    let pmap := positions_from 0 sorted mnull in
    ms' = map (fun im => set_parent (snd im) (remap_ref pmap (m_parent (snd im)))) sorted /\
    (forall p m, getz ms p = Ok m -> exists m1, getz sorted (pmap p) = Ok (p, m1)).
Proof. exact sort_sites_mutations_remap. Qed.

(* ---- round 3: collection-level attributes in the shared-portion check ---- *)
(* with check_shared_equality, collections that differ in sequence length, time units or any
   table's metadata schema are refused — also when the node mapping shares no node at all —
   with TSK_ERR_UNION_DIFF_HISTORIES (unless the row-level check already fails otherwise) … *)
Theorem union_refuses_differing_attributes : forall a_self a_other self other mapping addp,
  attrs_eqb a_self a_other = false ->
  is_ok (union_with_attrs a_self a_other self other mapping true addp) = false /\
  (zlen mapping = zlen (t_nodes other) -> bad_map self mapping = false ->
   (check_subset_equality self other mapping = Ok tt \/
    check_subset_equality self other mapping = Err ERR_UNION_DIFF_HISTORIES) ->
   union_with_attrs a_self a_other self other mapping true addp = Err ERR_UNION_DIFF_HISTORIES).
Proof. exact union_attrs_refused_lemma. Qed.

(* … and are otherwise irrelevant: without the check, or with equal attributes, it is [union] *)
Theorem union_attributes_otherwise_irrelevant : forall a_self a_other self other mapping chk addp,
  (chk = false \/ attrs_eqb a_self a_other = true) ->
  union_with_attrs a_self a_other self other mapping chk addp = union self other mapping chk addp.
Proof. exact union_attrs_equal_lemma. Qed.

(* ---- final round ---- *)
(* the Python wrappers: TreeSequence.subset = TableCollection.subset = C subset, then the sorter,
   for every node list (no shortcut for the identity list) and every flag combination; one
   provenance row iff asked *)
Theorem ts_subset_is_subset_then_sort : forall t nodes prov rp ru,
  ts_subset t nodes prov rp ru = tc_subset t nodes prov rp ru /\
  tc_subset t nodes prov rp ru =
    (do t1 <- subset t nodes (negb ru) (negb rp);
     do t2 <- sort_tables t1;
     Ok (t2, if prov then 1 else 0)).
Proof. exact ts_subset_is_subset_then_sort_lemma. Qed.

Theorem ts_subset_spec : forall t nodes prov rp ru t' k,
  refs_in_range t = true ->
  ts_subset t nodes prov rp ru = Ok (t', k) ->
  let sp := spec_subset t nodes (negb ru) (negb rp) in
  forallb (in_range (zlen (t_nodes t))) nodes = true /\
  k = (if prov then 1 else 0) /\
  t_nodes t' = t_nodes sp /\ t_individuals t' = t_individuals sp /\ t_populations t' = t_populations sp /\
  Permutation (t_edges t') (t_edges sp) /\
  Sorted (fun a b => edge_le (node_time (t_nodes sp)) a b = true) (t_edges t') /\
  Permutation (t_sites t') (t_sites sp) /\ Sorted (fun a b => s_pos a <= s_pos b) (t_sites t') /\
  Permutation (map mut_core (t_mutations t')) (map mut_core (t_mutations sp)).
Proof. exact ts_subset_spec_lemma. Qed.

Theorem ts_union_is_union : forall self other mapping chk addp prov,
  ts_union self other mapping chk addp prov =
  match union self other mapping chk addp with
  | Ok u => Ok (u, if prov then 1 else 0) | Err c => Err c | OOB => OOB | Fuel => Fuel end.
Proof. exact ts_union_is_union_lemma. Qed.

(* (g, populations) every listed node of T is found at [cover_id] referring to a population row
   equal to the one it referred to in T (NULL stays NULL) — when union adds populations, or when
   subset left the population table alone so that ids agree.  Outside these two cases union keeps
   an id that means something else in self (documented assumption of add_populations=False). *)
Theorem subset_union_inverse_populations_partial :
  forall T A B keep_unreferenced no_change_populations check_shared add_populations S O U,
  refs_in_range T = true ->
  NoDup A -> NoDup B ->
  (add_populations = true \/ no_change_populations = true) ->
  subset T A keep_unreferenced no_change_populations = Ok S ->
  subset T B keep_unreferenced no_change_populations = Ok O ->
  union S O (mapping_of A B) check_shared add_populations = Ok U ->
  forall u r, listed A u || listed B u = true -> getz (t_nodes T) u = Ok r ->
    exists r', getz (t_nodes U) (cover_id A B u) = Ok r' /\
      (n_pop r = NULL -> n_pop r' = NULL) /\
      (n_pop r <> NULL -> getz (t_populations U) (n_pop r') = getz (t_populations T) (n_pop r)).
Proof. exact subset_union_inverse_populations_lemma. Qed.

(* canonical order of individuals and its id map *)
Theorem canonical_individuals_sorted_remap : forall ns inds ns' inds',
  sort_individuals_canonical ns inds = Ok (ns', inds') ->
  exists ndesc sorted,
    individual_num_descendants inds = Ok ndesc /\
    Permutation sorted (index_from 0 inds) /\
    Sorted (fun a b => individual_canonical_le ndesc (first_nodes ns) a b = true) sorted /\
    let idmap := positions_from 0 sorted mnull in
    inds' = map (fun ir => mkI (i_flags (snd ir)) (i_loc (snd ir))
                               (map (remap_ref idmap) (i_parents (snd ir))) (i_md (snd ir))) sorted /\
    ns' = map (fun nd => mkN (n_flags nd) (n_time nd) (n_pop nd) (remap_ref idmap (n_ind nd)) (n_md nd)) ns /\
    (forall p r, getz inds p = Ok r -> getz sorted (idmap p) = Ok (p, r)).
Proof. exact sort_individuals_canonical_remap. Qed.

(* (g, individuals) no extra hypothesis: every listed node of T is found at [cover_id] referring
   to an individual with the flags, location and metadata of the individual it referred to in T
   (NULL stays NULL) — whether union identified it through a shared node (then it is self's row)
   or appended it.  Open for the full inverse law: that two private parts do not both carry
   the same individual (it would be appended once more), the parents column, the recomputed
   mutation parents and site ids; these stay with the `inverse` correspondence family. *)
Theorem subset_union_inverse_individuals_partial :
  forall T A B keep_unreferenced no_change_populations check_shared add_populations S O U,
  refs_in_range T = true ->
  NoDup A -> NoDup B ->
  subset T A keep_unreferenced no_change_populations = Ok S ->
  subset T B keep_unreferenced no_change_populations = Ok O ->
  union S O (mapping_of A B) check_shared add_populations = Ok U ->
  forall u r, listed A u || listed B u = true -> getz (t_nodes T) u = Ok r ->
    exists r', getz (t_nodes U) (cover_id A B u) = Ok r' /\
      (n_ind r = NULL -> n_ind r' = NULL) /\
      (forall irow, getz (t_individuals T) (n_ind r) = Ok irow ->
         exists irow', getz (t_individuals U) (n_ind r') = Ok irow' /\ ind_core irow' = ind_core irow).
Proof. exact subset_union_inverse_individuals_lemma. Qed.

(* ---- round 5: the canonical form does not depend on the row order ---- *)
(* sorted edge table = a function of the set of edge rows (distinct keys), whatever order they
   were written in — the edge part of "shared portions are compared on canonical forms".  For
   individuals and tied mutations see CanonInvariance.ex_shared_check_order_invariant and the
   `union` family (equivalent re-orderings of self / other), which tie it on every run. *)
Theorem sort_edges_order_invariant : forall ns es1 es2 sites1 sites2 m1 m2 i1 i2 p1 p2,
  Permutation es1 es2 ->
  (forall x y, In x es1 -> In y es1 ->
     edge_le (node_time ns) x y = true -> edge_le (node_time ns) y x = true -> x = y) ->
  sort_edges (mkT ns es1 sites1 m1 i1 p1) = sort_edges (mkT ns es2 sites2 m2 i2 p2).
Proof. exact CanonInvariance.sort_edges_order_invariant. Qed.

(* ---- last round: more of "the canonical form does not depend on the row order" ---- *)
(* sites: two site tables that are permutations of each other (distinct positions) come out of the
   sorter identical, whatever the mutation tables and the mutation comparison *)
Theorem sorted_sites_order_invariant : forall mle1 mle2 ss1 ss2 ms1 ms2 ss1' ms1' ss2' ms2',
  Permutation ss1 ss2 ->
  (forall x y, In x ss1 -> In y ss1 -> s_pos x = s_pos y -> x = y) ->
  sort_sites_mutations mle1 ss1 ms1 = Ok (ss1', ms1') ->
  sort_sites_mutations mle2 ss2 ms2 = Ok (ss2', ms2') ->
  ss1' = ss2'.
Proof. exact CanonInvariance.sorted_sites_order_invariant. Qed.

(* populations, with the id renaming carried through: if the population rows are permuted by an
   injective [pi] and the node table renamed accordingly, subset (hence canonicalise, whose
   population table is subset's) retains the same population rows in the same output order and
   gives every node the same new population id *)
Theorem populations_order_invariant : forall t nodes pi pops2,
  refs_in_range t = true ->
  (forall p q, in_range (zlen (t_populations t)) p = true -> in_range (zlen (t_populations t)) q = true ->
               pi p = pi q -> p = q) ->
  (forall p, in_range (zlen (t_populations t)) p = true -> 0 <= pi p) ->
  (forall p row, getz (t_populations t) p = Ok row -> getz pops2 (pi p) = Ok row) ->
  let t2 := mkT (map (rename_node_pop pi) (t_nodes t)) (t_edges t) (t_sites t) (t_mutations t)
                (t_individuals t) pops2 in
  rows_of pops2 (pop_order t2 nodes) = rows_of (t_populations t) (pop_order t nodes) /\
  (forall u r, node_row t u = Some r ->
     remap_ref (pop_map t2 nodes false) (rename_ref pi (n_pop r)) = remap_ref (pop_map t nodes false) (n_pop r)).
Proof. exact populations_order_invariant_lemma. Qed.

(* individuals, PARTIAL: when the individual rows are permuted by [pi] and every id renamed, the
   canonical order of the permuted table is the renamed canonical order of the original — GIVEN
   that the sort keys of corresponding rows agree.  The first-node key is discharged by
   [first_nodes_rename]; the descendant-count key (queue algorithm of
   tsk_individual_table_topological_sort) is the missing lemma and stays a hypothesis. *)
Theorem canonical_individual_order_invariant_partial :
  forall pi inds1 inds2 nd1 nd2 fn1 fn2,
  Permutation (map (rename_indexed pi) (index_from 0 inds1)) (index_from 0 inds2) ->
  (forall i, 0 <= i < zlen inds1 -> nd2 (pi i) = nd1 i) ->
  (forall i, 0 <= i < zlen inds1 -> fn2 (pi i) = fn1 i) ->
  (forall i j, 0 <= i < zlen inds1 -> 0 <= j < zlen inds1 -> fn1 i = fn1 j -> i = j) ->
  isort (individual_canonical_le nd2 fn2) (index_from 0 inds2)
  = map (rename_indexed pi) (isort (individual_canonical_le nd1 fn1) (index_from 0 inds1)).
Proof. exact canonical_individual_order_invariant_partial_lemma. Qed.

Theorem first_nodes_rename : forall pi n ns,
  (forall p q, in_range n p = true -> in_range n q = true -> pi p = pi q -> p = q) ->
  (forall p, in_range n p = true -> 0 <= pi p) ->
  (forall nd, In nd ns -> ref_ok n (n_ind nd) = true) ->
  forall i, in_range n i = true ->
    first_nodes (map (rename_node_ind pi) ns) (pi i) = first_nodes ns i.
Proof. exact first_nodes_rename_lemma. Qed.

(* Row counts of subset: exactly one output node per requested node, never more edges than the
   input (corollaries of subset_nodes_exact / subset_edges_exact). *)
Theorem subset_node_count : forall t nodes ku ncp t',
  refs_in_range t = true -> subset t nodes ku ncp = Ok t' ->
  length (t_nodes t') = length nodes.
Proof. exact subset_node_count_proof. Qed.

Theorem subset_edge_count_le : forall t nodes ku ncp t',
  refs_in_range t = true -> subset t nodes ku ncp = Ok t' ->
  (length (t_edges t') <= length (t_edges t))%nat.
Proof. exact subset_edge_count_le_proof. Qed.
