(* Property C18 — statements only.  Each theorem is closed by [exact] of a lemma proved in the
   C18/ files; Print Assumptions is evaluated by ./check on every run.
   Decimal rendering of doubles is the explicit parameter [print_num] (with the hypothesis
   that it emits none of ( ) , : ; where the round trip needs it); nothing is an axiom. *)
From Coq Require Import List ZArith Bool.
From TskVerif Require Import Base.Common Gen.Generated C18.Model C18.ParserProofs C18.WriterProofs
  C18.BufferProofs C18.TextProofs C18.LabelProofs C18.FastaProofs C18.SafetyProofs C18.IterProofs
  C18.AsNewickProofs C18.ExactProofs C18.NexusProofs C18.SemanticsProofs C18.Injective.
Import ListNotations.
Open Scope Z_scope.

(* (a) the central round trip: the reader applied to the printed form of ANY Newick tree
   (names / lengths free of the five delimiters) gives back exactly that tree ... *)
Theorem newick_parse_print_ast : forall t : nw, wf_nw t -> parse_newick (print_newick t) = Ok t.
Proof. exact parse_print_nw. Qed.

(* ... and the output of text_formats.build_newick parses to exactly the topology below the
   root, labels as requested, branch tokens print_num prec (time[parent] - time[child]) *)
Theorem newick_parse_print :
  forall (Tm : Type) (tsub : Tm -> Tm -> Tm) (print_num : Z -> Tm -> str) (tm : Z -> Tm)
         (lab : Z -> str) (ibl : bool) (prec : Z),
    (forall p x, cleanb (print_num p x) = true) ->
    forall t : rtree,
      (forall v, In v (ids t) -> cleanb (lab v) = true) ->
      parse_newick (py_newick Tm tsub print_num tm lab ibl prec t)
      = Ok (ast_of Tm tsub print_num tm lab ibl prec None t).
Proof. exact newick_roundtrip. Qed.

(* text_formats.build_newick as it is now (iterative: post-order + dictionary of finished
   subtrees) returns exactly the string of the recursive writer used as specification above *)
Theorem build_newick_iterative_is_recursive :
  forall (Tm : Type) (tsub : Tm -> Tm -> Tm) (print_num : Z -> Tm -> str) (tm : Z -> Tm)
         (lab : Z -> str) (ibl : bool) (prec : Z) (t : rtree),
    NoDup (ids t) ->
    it_newick Tm tsub print_num tm lab ibl prec t
    = Ok (py_newick Tm tsub print_num tm lab ibl prec t).
Proof. exact it_newick_eq_recursive. Qed.

(* (b) tsk_newick_converter_run on the tree arrays = _build_newick on tree.children(), for
   every tree, whenever the caller's buffer holds the string, ';' and the NUL *)
Theorem fast_equals_general :
  forall (Tm : Type) (tsub : Tm -> Tm -> Tm) (print_num : Z -> Tm -> str) (tm : Z -> Tm)
         (a : ctree) (ms : bool) (prec B rp : Z) (lab : Z -> str) (N : Z) (t : rtree),
    repb a rp t = true -> NoDup (ids t) -> ~ In rp (ids t) ->
    0 <= rid t < N ->
    (forall v, In v (ids t) -> lab_agrees a ms lab v) ->
    zlen (py_build Tm tsub print_num tm lab true prec t) + 2 <= B ->
    c_newick Tm tsub print_num tm a N (rid t) ms prec B
    = Ok (py_newick Tm tsub print_num tm lab true prec t).
Proof. exact c_newick_sufficient. Qed.

(* ... and for EVERY buffer size the C writer returns that string exactly when string, ';' and
   NUL fit, and TSK_ERR_BUFFER_OVERFLOW otherwise: never a truncated or different string, never
   an out-of-range array index (OOB), never fuel exhaustion *)
Theorem c_writer_exact_for_every_buffer :
  forall (Tm : Type) (tsub : Tm -> Tm -> Tm) (print_num : Z -> Tm -> str) (tm : Z -> Tm)
         (a : ctree) (ms : bool) (prec rp : Z) (lab : Z -> str) (N : Z) (t : rtree) (B : Z),
    repb a rp t = true -> NoDup (ids t) -> ~ In rp (ids t) ->
    0 <= rid t < N ->
    (forall v, In v (ids t) -> lab_agrees a ms lab v) ->
    c_newick Tm tsub print_num tm a N (rid t) ms prec B
    = if zlen (py_build Tm tsub print_num tm lab true prec t) + 2 <=? B
      then Ok (py_newick Tm tsub print_num tm lab true prec t)
      else Err c18_err_buffer_overflow.
Proof. exact c_newick_any_buffer. Qed.

(* the same for the label dictionary as_newick builds by default ({u: f"n{u}" for samples}) *)
Theorem fast_equals_general_default_labels :
  forall (Tm : Type) (tsub : Tm -> Tm -> Tm) (print_num : Z -> Tm -> str) (tm : Z -> Tm)
         (a : ctree) (N rp prec B : Z) (t : rtree),
    repb a rp t = true -> nodupb (ids t) = true -> memb rp (ids t) = false ->
    0 <= rid t < N ->
    (forall v, In v (ids t) -> exists f, get (ct_flags a) v = Ok f) ->
    zlen (py_build Tm tsub print_num tm (lab_default a) true prec t) + 2 <= B ->
    c_newick Tm tsub print_num tm a N (rid t) false prec B
    = Ok (py_newick Tm tsub print_num tm (lab_default a) true prec t).
Proof. exact fast_general_default. Qed.

(* ... and for the legacy ms labels ({u: str(u+1) for the leaves below the root}) *)
Theorem fast_equals_general_ms_labels :
  forall (Tm : Type) (tsub : Tm -> Tm -> Tm) (print_num : Z -> Tm -> str) (tm : Z -> Tm)
         (a : ctree) (N rp prec B : Z) (t : rtree),
    repb a rp t = true -> nodupb (ids t) = true -> memb rp (ids t) = false ->
    0 <= rid t < N ->
    zlen (py_build Tm tsub print_num tm (lab_ms_of (leaf_ids t)) true prec t) + 2 <= B ->
    c_newick Tm tsub print_num tm a N (rid t) true prec B
    = Ok (py_newick Tm tsub print_num tm (lab_ms_of (leaf_ids t)) true prec t).
Proof. exact fast_general_ms. Qed.

(* End to end, over the path choice of Tree.as_newick (fast path iff branch lengths are wanted
   and the labels are the default or the legacy ms ones): as_newick SUCCEEDS on every tree and
   root, given only that W = len(f"{max_branch:.{precision}f}") bounds the branch tokens ... *)
Theorem as_newick_succeeds :
  forall (Tm : Type) (tsub : Tm -> Tm -> Tm) (print_num : Z -> Tm -> str) (tm : Z -> Tm)
         (a : ctree) (N rp : Z) (t : rtree),
    repb a rp t = true -> nodupb (ids t) = true -> memb rp (ids t) = false ->
    (forall v, In v (ids t) -> 0 <= v < N) ->
    (forall v, In v (ids t) -> exists f, get (ct_flags a) v = Ok f) ->
    forall (l : labspec) (ibl : bool) (prec W : Z),
      0 <= W ->
      (forall p c, In (p, c) (redges t) -> zlen (btoken Tm tsub print_num tm prec p c) <= W) ->
      as_newick Tm tsub print_num tm a N t l ibl prec W
      = Ok (py_newick Tm tsub print_num tm (lab_fn a t l) ibl prec t).
Proof. exact AsNewickProofs.as_newick_succeeds. Qed.

(* ... and whatever it returns parses back to the tree below the root with the requested
   labels (default / legacy ms for the leaves below the root / dictionary) and branch tokens *)
Theorem as_newick_output_parses_back :
  forall (Tm : Type) (tsub : Tm -> Tm -> Tm) (print_num : Z -> Tm -> str) (tm : Z -> Tm)
         (a : ctree) (N rp : Z) (t : rtree),
    repb a rp t = true -> nodupb (ids t) = true -> memb rp (ids t) = false ->
    (forall v, In v (ids t) -> 0 <= v < N) ->
    (forall v, In v (ids t) -> exists f, get (ct_flags a) v = Ok f) ->
    (forall p x, cleanb (print_num p x) = true) ->
    forall (l : labspec) (ibl : bool) (prec W : Z) (s : str),
      labels_clean t l ->
      as_newick Tm tsub print_num tm a N t l ibl prec W = Ok s ->
      parse_newick s = Ok (ast_of Tm tsub print_num tm (lab_fn a t l) ibl prec None t).
Proof. exact as_newick_parses_back. Qed.

(* The traversal stack of tsk_newick_converter_run has tsk_tree_get_size_bound = 1 + num_samples +
   num_edges entries; the model's C writer reports OOB on a push beyond it, so theorems (b) above
   already exclude it.  The reason: a represented subtree never has more nodes than that. *)
Theorem traversal_stack_fits :
  forall (a : ctree) (p : Z) (t : rtree),
    repb a p t = true -> NoDup (ids t) -> Z.of_nat (rsize t) <= size_bound a.
Proof. exact size_le_bound. Qed.

(* Number rendering with NOTHING trusted, for times that are integers (q = 0) or dyadic rationals
   x / 10^q: print_dec pads with zeros or rounds half-even on the exact value ... *)
Theorem print_dec_no_delimiters : forall q p x, cleanb (print_dec q p x) = true.
Proof. exact print_dec_clean. Qed.

Theorem print_dec_length_monotone : forall q p x y, 0 <= q -> 0 <= p -> 0 <= x <= y ->
  zlen (print_dec q p x) <= zlen (print_dec q p y).
Proof. exact print_dec_mono. Qed.

(* ... hence on that fragment as_newick succeeds with W computed as the code computes it
   (rendered length of root time - minimal node time) and its output parses back, for every
   tree whose times increase towards the root, every root, label mode and precision >= 0 *)
Theorem as_newick_exact_fragment :
  forall (q : Z) (times : list Z) (a : ctree) (N rp : Z) (t : rtree),
    0 <= q ->
    repb a rp t = true -> nodupb (ids t) = true -> memb rp (ids t) = false ->
    (forall v, In v (ids t) -> 0 <= v < N) ->
    (forall v, In v (ids t) -> exists f, get (ct_flags a) v = Ok f) ->
    (forall v, In v (ids t) -> exists x, get times v = Ok x) ->
    times_increase times t = true ->
    forall (l : labspec) (ibl : bool) (prec : Z),
      0 <= prec -> labels_clean t l ->
      let W := zlen (print_dec q prec (fx_tm times (rid t) - list_min times)) in
      let s := py_newick Z Z.sub (print_dec q) (fx_tm times) (lab_fn a t l) ibl prec t in
      as_newick Z Z.sub (print_dec q) (fx_tm times) a N t l ibl prec W = Ok s /\
      parse_newick s = Ok (ast_of Z Z.sub (print_dec q) (fx_tm times) (lab_fn a t l) ibl prec None t).
Proof. exact as_newick_exact. Qed.

(* (c) buffer_estimate_sufficient: with the estimate of Tree._as_newick_fast (as repaired by fix
   1e12f75: 1 + (4 + len(str(N)) + W) * N) the fast path never overflows and returns the string
   of the general path *)
Theorem buffer_estimate_repaired_sufficient :
  forall (Tm : Type) (tsub : Tm -> Tm -> Tm) (print_num : Z -> Tm -> str) (tm : Z -> Tm)
         (a : ctree) (N rp prec W : Z) (t : rtree),
    repb a rp t = true -> nodupb (ids t) = true -> memb rp (ids t) = false ->
    (forall v, In v (ids t) -> 0 <= v < N) ->
    (forall v, In v (ids t) -> exists f, get (ct_flags a) v = Ok f) ->
    0 <= W ->
    (forall p c, In (p, c) (redges t) -> zlen (btoken Tm tsub print_num tm prec p c) <= W) ->
    c_newick Tm tsub print_num tm a N (rid t) false prec (estimate N W)
    = Ok (py_newick Tm tsub print_num tm (lab_default a) true prec t).
Proof. exact estimate_sufficient. Qed.

(* historical record of finding F5 (fixed by 1e12f75): the PRE-FIX formula
   1 + (5 + ceil(log10 N) + ceil(log10(max(1, root time))) + precision) * N  was too small *)
Theorem buffer_estimate_pinned_refuted :
  exists (a : ctree) (N : Z) (t : rtree) (times : list Z),
    repb a (-1) t = true /\ nodupb (ids t) = true /\ times_increase times t = true /\
    c_newick Z Z.sub print_fixed (fx_tm times) a N (rid t) false 0
             (estimate_pinned N (fx_T 0 (fx_tm times (rid t))) 0)
    = Err c18_err_buffer_overflow /\
    py_newick Z Z.sub print_fixed (fx_tm times) (lab_default a) true 0 t = s2z "(n0:1000001)n1;" /\
    estimate_pinned N (fx_T 0 (fx_tm times (rid t))) 0 = 13.
Proof. exact estimate_pinned_refuted_negative_times. Qed.

Theorem buffer_estimate_unit_interval_pinned_refuted :
  exists (a : ctree) (N : Z) (t : rtree) (times : list Z),
    repb a (-1) t = true /\ nodupb (ids t) = true /\ times_increase times t = true /\
    (forall v, In v (ids t) -> 0 <= fx_tm times v < 1000) /\
    c_newick Z Z.sub print_fixed (fx_tm times) a N (rid t) false 3
             (estimate_pinned N (fx_T 3 (fx_tm times (rid t))) 3)
    = Err c18_err_buffer_overflow /\
    zlen (py_newick Z Z.sub print_fixed (fx_tm times) (lab_default a) true 3 t) + 1
    > estimate_pinned N (fx_T 3 (fx_tm times (rid t))) 3.
Proof. exact estimate_pinned_refuted_fractional. Qed.

(* (d) wrap_text: the lines concatenate back to the text; width 0 = one line; otherwise every
   line but the last has exactly w bytes and no line is empty or longer than w *)
Theorem wrap_text_concat : forall s w ls,
  0 <= w -> wrap_text s w = Ok ls ->
  concat ls = s /\
  (w = 0 -> ls = [s]) /\
  (0 < w -> Forall (fun l => zlen l = w) (removelast ls) /\ Forall (line_ok w) ls).
Proof. exact wrap_text_spec. Qed.

Theorem wrap_text_succeeds : forall s w, 0 <= w -> (s <> [] \/ w <> 0) ->
  exists ls, wrap_text s w = Ok ls.
Proof. exact wrap_text_total. Qed.

(* write_fasta: reading the text back (split at newlines, '>' starts a record) returns, for
   every sample in order, the label n<id> and exactly its alignment, for every wrap width *)
Theorem fasta_read_write : forall w recs text,
  0 <= w -> fasta_text w recs = Ok text -> Forall rec_ok recs ->
  read_fasta text = map (fun r => (c18_label_prefix ++ dec (fst r), snd r)) recs.
Proof. exact fasta_roundtrip. Qed.

(* (e) nexus: reading the TREE statements of the written file gives back one statement per
   marginal tree, in order, with the interval name and the newick string unchanged *)
Theorem nexus_structure : forall samples data trees,
  intervals_ok trees ->
  read_nexus_trees (nexus_lines samples data (Some trees)) = trees /\
  read_nexus_trees (nexus_lines samples data None) = [].
Proof. exact nexus_trees_block. Qed.

(* nexus TAXA block: TAXLABELS read back = n<id> for ALL samples, in order *)
Theorem nexus_taxlabels : forall samples data trees,
  read_nexus_taxa (nexus_lines samples data trees) = Some (map slabel samples).
Proof. exact nexus_taxa_block. Qed.

(* nexus DATA block: the MATRIX rows read back = (n<id>, alignment) per sample, in order; no DATA
   block, no rows (TREE statements are not mistaken for rows) *)
Theorem nexus_data_rows : forall samples nchar mdc als trees,
  read_nexus_rows (nexus_lines samples (Some (nchar, mdc, als)) trees) false
  = map (fun ua => (slabel (fst ua), snd ua)) (combine samples als) /\
  read_nexus_rows (nexus_lines samples None trees) false = [].
Proof. exact nexus_data_block. Qed.

(* ---------------- final round ---------------- *)
(* default labels: the dictionary the general path builds ({u: f"n{u}" for u in ts.samples()},
   read with .get(v, "")) labels exactly the nodes flagged as samples — internal samples included,
   non-sample leaves not — and BOTH paths of as_newick(node_labels=None) produce the writer's
   output for that dictionary, with and without branch lengths *)
Theorem default_labels_are_the_sample_flags : forall a v f,
  get (ct_flags a) v = Ok f ->
  lab_dict (default_dict (samples_of a)) v
  = if Z.testbit (Z.land f 1) 0 then 110 :: dec v else [].
Proof. exact default_label_is_sample_flag. Qed.

Theorem as_newick_default_labels_both_paths :
  forall (Tm : Type) (tsub : Tm -> Tm -> Tm) (print_num : Z -> Tm -> str) (tm : Z -> Tm)
         (a : ctree) (N rp : Z) (t : rtree),
    repb a rp t = true -> nodupb (ids t) = true -> memb rp (ids t) = false ->
    (forall v, In v (ids t) -> 0 <= v < N) ->
    (forall v, In v (ids t) -> exists f, get (ct_flags a) v = Ok f) ->
    forall (ibl : bool) (prec W : Z),
      0 <= W ->
      (forall p c, In (p, c) (redges t) -> zlen (btoken Tm tsub print_num tm prec p c) <= W) ->
      as_newick Tm tsub print_num tm a N t LabDefault ibl prec W
      = Ok (py_newick Tm tsub print_num tm (lab_dict (default_dict (samples_of a))) ibl prec t).
Proof. exact as_newick_default_map. Qed.

(* sibling order: under C01's link consistency for the node (right_sib runs through its children
   left to right) tree.children(v) = left_child, right_sib, ... is the child list both writers
   iterate, and the output lists the children in that order *)
Theorem children_follow_the_sibling_links : forall a rs p v kids,
  repb a p (RN v kids) = true -> rs_ok rs kids -> NoDup (map rid kids) ->
  children_c a rs v = Ok (map rid kids).
Proof. exact children_in_link_order. Qed.

(* the virtual root (= num_nodes) and every other non-node: the C writer refuses *)
Theorem fast_path_rejects_non_nodes :
  forall (Tm : Type) (tsub : Tm -> Tm -> Tm) (print_num : Z -> Tm -> str) (tm : Z -> Tm)
         (a : ctree) (N root : Z) (ms : bool) (prec B : Z),
    root < 0 \/ N <= root ->
    c_newick Tm tsub print_num tm a N root ms prec B = Err c18_err_node_out_of_bounds.
Proof. exact SemanticsProofs.fast_path_rejects_non_nodes. Qed.

(* nexus: first line #NEXUS; blocks TAXA [DATA] [TREES] in this order and nothing else (no
   TRANSLATE block, no other BEGIN line) *)
Theorem nexus_block_structure : forall samples data trees,
  hd [] (nexus_lines samples data trees) = s2z "#NEXUS" /\
  block_names (nexus_lines samples data trees)
  = [s2z "TAXA"] ++ (match data with Some _ => [s2z "DATA"] | None => [] end)
    ++ (match trees with Some _ => [s2z "TREES"] | None => [] end).
Proof. exact nexus_blocks. Qed.

(* alignments() (the strings FASTA and nexus DATA carry): length L; outside the sites the
   reference base, or the missing-data character when there is no reference; at the i-th site the
   i-th haplotype character *)
Theorem alignment_reference_and_missing : forall L ref mdc pos h j,
  0 <= L -> (match ref with Some r => zlen r = L | None => True end) ->
  0 <= j < L -> ~ In (Z.to_nat j) (map Z.to_nat pos) ->
  zlen (alignment_of L ref mdc pos h) = L /\
  nth (Z.to_nat j) (alignment_of L ref mdc pos h) 0
  = match ref with Some r => nth (Z.to_nat j) r 0 | None => mdc end.
Proof. exact alignment_outside_sites. Qed.

Theorem alignment_site_characters : forall pos a h i d, NoDup (map Z.to_nat pos) ->
  (forall p, In p pos -> (Z.to_nat p < length a)%nat) -> length h = length pos ->
  (i < length pos)%nat ->
  nth (Z.to_nat (nth i pos 0)) (fill_sites a pos h) d = nth i h d.
Proof. exact alignment_at_sites. Qed.

(* round 6: tree names chain through the breakpoint tokens; the default precision *)
Theorem nexus_names_chain_through_breakpoints : forall (toks : list str) (d : str),
  length (intervals_of toks) = pred (length toks) /\
  (forall k, (S k < length toks)%nat ->
     nth k (intervals_of toks) (d, d) = (nth k toks d, nth (S k) toks d)).
Proof. exact intervals_chain. Qed.

Theorem default_precision_is_discrete_time : forall q nodes muts migs,
  (resolve_precision None q nodes muts migs = 0 <->
   forall x, In x (nodes ++ muts ++ migs) -> x mod 10 ^ q = 0) /\
  (resolve_precision None q nodes muts migs = 0 \/ resolve_precision None q nodes muts migs = 17) /\
  (forall p, resolve_precision (Some p) q nodes muts migs = p).
Proof. exact default_precision_rule. Qed.

(* The Newick text determines the tree: well-formed ASTs printing to the same string are equal
   (corollary of newick_parse_print_ast). *)
Theorem print_newick_injective : forall t1 t2 : nw,
  wf_nw t1 -> wf_nw t2 -> print_newick t1 = print_newick t2 -> t1 = t2.
Proof. exact print_newick_injective_proof. Qed.
