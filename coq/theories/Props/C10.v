(* Property C10 - statements only. *)
From Coq Require Import List ZArith.
From TskVerif Require Import Base.Common C05.Bytes C05.Kastore C10.Corrupt.
Import ListNotations.
Open Scope Z_scope.

Theorem empty_stream_is_eof : kas_open true [] = Err E_EOF /\ kas_open false [] = Err E_EOF.
Proof. exact (conj eq_refl eq_refl). Qed.
