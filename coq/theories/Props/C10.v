(* Property C10 - truncated or corrupted files are rejected.  Statements only.  Model as for C05
   (C05/Kastore.v reader with 64-bit wrap-around arithmetic, C05/TskFile.v), corruptions in
   C10/Corrupt.v.  Files are [kas_write its] for items in stored order ([kas_encode] sorts first). *)
From Coq Require Import List ZArith Bool.
From TskVerif Require Import Base.Common Gen.Generated C05.Bytes C05.Kastore C05.KastoreProofs C05.TskFile
  C10.Corrupt C10.TruncProofs C10.CorruptProofs.
Import ListNotations.
Open Scope Z_scope.

(* (f) every proper prefix of a written file is rejected: the empty prefix as end-of-stream, every
   other one as a format error (never an object, never end-of-stream) *)
Theorem truncation_rejected : forall its n, items_ok its -> (n < length (kas_write its))%nat ->
  kas_open true (firstn n (kas_write its)) = Err (if Nat.eqb n 0 then E_EOF else E_FORMAT).
Proof. exact TruncProofs.truncation_rejected. Qed.

Theorem truncation_rejected_decode : forall its n, items_ok its -> (n < length (kas_write its))%nat ->
  kas_decode (firstn n (kas_write its)) = Err (if Nat.eqb n 0 then E_EOF else E_FORMAT).
Proof. exact TruncProofs.truncation_rejected_decode. Qed.

(* ... and in lazy mode (the skip_tables / skip_reference_sequence paths): a truncated file is
   rejected when it is opened, or the last array (non-empty: in a tskit file the required uuid)
   cannot be read any more, so the load fails there *)
Theorem lazy_truncation : forall its pre it p q,
  items_ok its -> its = pre ++ [it] -> 0 < isize it -> kas_write its = p ++ q -> q <> [] ->
  kas_open false p = Err (match p with [] => E_EOF | _ => E_FORMAT end)
  \/ exists rs r, kas_open false p = Ok (rs ++ [r], []) /\ length rs = length pre
                  /\ rtype r = itype it /\ rlen r = ilen it /\ rblock r = Err E_FORMAT.
Proof. exact CorruptProofs.lazy_truncation. Qed.

Theorem eof_only_for_empty_stream : forall read_all s, kas_open read_all s = Err E_EOF <-> s = [].
Proof. exact TruncProofs.eof_iff_empty. Qed.

(* (g) header fields: another magic, another major version, another num_items, another file_size
   are rejected, whatever the rest of the file is *)
Theorem magic_rejected : forall read_all magic major minor n fs r rest,
  length magic = 8%nat -> length r = 40%nat -> 0 <= major < 65536 -> 0 <= n < 4294967296 -> 0 <= fs < two64 ->
  magic <> kas_magic ->
  kas_open read_all (header_g magic major minor n fs r ++ rest) = Err E_FORMAT.
Proof. exact CorruptProofs.magic_rejected. Qed.

Theorem major_version_rejected : forall read_all major minor n fs r rest,
  length r = 40%nat -> 0 <= major < 65536 -> 0 <= n < 4294967296 -> 0 <= fs < two64 ->
  major <> kas_file_version_major ->
  kas_open read_all (header_g kas_magic major minor n fs r ++ rest)
  = Err (if major <? kas_file_version_major then E_TOO_OLD else E_TOO_NEW).
Proof. exact CorruptProofs.major_version_rejected. Qed.

Theorem file_size_rejected : forall its fs' minor r40 y,
  items_ok its -> its <> [] -> length r40 = 40%nat -> 0 <= fs' < two64 -> fs' <> kw_fs its ->
  exists e, kas_open true (header_bytes kas_file_version_major minor (kw_n its) fs' r40 ++ kw_descs its ++ y) = Err e.
Proof. exact CorruptProofs.file_size_rejected. Qed.

Theorem num_items_rejected : forall its n' minor r40 y,
  items_ok its -> its <> [] -> length r40 = 40%nat -> 0 <= n' < 4294967296 -> n' <> kw_n its ->
  exists e, kas_open true (header_bytes kas_file_version_major minor n' (kw_fs its) r40 ++ kw_descs its ++ y) = Err e.
Proof. exact CorruptProofs.num_items_rejected. Qed.

(* (i) bytes the format reserves (header 24..63, descriptor 1..7 and 40..63) and the minor version
   do not influence the reader: finding F10, first half, as a theorem *)
Theorem ignored_bytes_identity : forall its minor r40 rs y,
  items_ok its -> its <> [] -> length r40 = 40%nat -> reserved_ok rs (length its) ->
  kas_open true (header_bytes kas_file_version_major minor (kw_n its) (kw_fs its) r40
                 ++ descs_bytes_g (layout (kw_k its) (kw_a its) its) rs ++ y)
  = kas_open true (kw_header its ++ kw_descs its ++ y).
Proof. exact CorruptProofs.ignored_bytes_identity. Qed.

(* (h) descriptor fields: strict sequential packing rejects ANY other key_start and ANY other
   array_start of any item ([altered_descs its pre it post f] = the descriptors as written, with
   f applied to the descriptor of the item after [pre]).  For array_len the general statement is
   false (refuted below), for key_len of the last key and for the type byte it holds only outside
   the alignment slack (findings F16/F17): those are tied differentially. *)
Theorem key_start_rejected : forall its pre it post v y,
  items_ok its -> its = pre ++ it :: post -> 0 <= v < two64 -> v <> kw_k its + keys_len pre ->
  exists e, kas_open true (kw_header its ++ descs_bytes (altered_descs its pre it post (fun d => set_ks d v)) ++ y) = Err e.
Proof. exact CorruptProofs.key_start_rejected. Qed.

Theorem array_start_rejected : forall its pre it post v y,
  items_ok its -> its = pre ++ it :: post -> 0 <= v < two64 -> v <> align8 (layout_end (kw_a its) pre) ->
  exists e, kas_open true (kw_header its ++ descs_bytes (altered_descs its pre it post (fun d => set_as d v)) ++ y) = Err e.
Proof. exact CorruptProofs.array_start_rejected. Qed.

(* (j) REFUTED: "altered key bytes are rejected" - optional key, finding F10 *)
Theorem optional_key_drop_refuted :
  exists p v, slice f0 4987 10 = fmt_key 4 /\ 4987 <= p < 4997 /\ byte_ok v /\ nth (Z.to_nat p) f0 0 <> v /\
    match tsk_load_bytes false false (subst_byte f0 p v) with
    | Ok (tc', []) => negb (tcoll_eqb tc' tc0) && zlist_eqb (tc_time_units tc') tsk_time_units_unknown
    | _ => false
    end = true.
Proof. exact CorruptProofs.optional_key_drop_refuted. Qed.

(* (h) array_len and key_len under the repaired, non-wrapping bound checks of
   kastore_read_descriptors (fix fd85063; finding F15 was the wrap-around of the old checks):
   every other value is rejected unless it stays inside the 8-byte alignment slack (F16, refuted
   below) *)
Theorem array_len_rejected : forall its pre it post v y,
  items_ok its -> its = pre ++ it :: post -> kw_fs its + 8 <= two64 -> 0 <= v < two64 ->
  (let a := align8 (layout_end (kw_a its) pre) in
   match post with
   | [] => a + v * type_size (itype it) <> a + isize it
   | _ => align8 (a + v * type_size (itype it)) <> align8 (a + isize it)
   end) ->
  exists e, kas_open true (kw_header its ++ descs_bytes (altered_descs its pre it post (fun d => set_al d v)) ++ y) = Err e.
Proof. exact CorruptProofs.array_len_rejected. Qed.

Theorem key_len_rejected : forall its pre it post v y,
  items_ok its -> its = pre ++ it :: post -> kw_fs its + 8 <= two64 -> 0 <= v < two64 ->
  v <> zlen (ikey it) ->
  (post = [] -> align8 (kw_k its + keys_len pre + v) <> align8 (kw_a its)) ->
  exists e, kas_open true (kw_header its ++ descs_bytes (altered_descs its pre it post (fun d => set_kl d v)) ++ y) = Err e.
Proof. exact CorruptProofs.key_len_rejected. Qed.

(* type byte: any other type that moves the (aligned) end of the array, and any unknown type, is
   rejected by the container; same-size types are left to the table layer's type check *)
Theorem type_rejected : forall its pre it post t y,
  items_ok its -> its = pre ++ it :: post -> kw_fs its + 8 <= two64 -> 0 <= t < 256 ->
  (t < kas_num_types ->
   let a := align8 (layout_end (kw_a its) pre) in
   match post with
   | [] => a + ilen it * type_size t <> a + isize it
   | _ => align8 (a + ilen it * type_size t) <> align8 (a + isize it)
   end) ->
  exists e, kas_open true (kw_header its ++ descs_bytes (altered_descs its pre it post (fun d => set_type d t)) ++ y) = Err e.
Proof. exact CorruptProofs.type_rejected. Qed.

(* the former F15 witness (top byte of array_len of populations/metadata_offset := 0x40) on the
   5188-byte file: rejected by the container reader *)
Theorem array_len_wrap_now_rejected :
  let p := 64 + 64 * 45 + 39 in
  nth (Z.to_nat p) f0 0 = 0 /\ kas_open true (subst_byte f0 p 64) = Err E_FORMAT /\
  load_verdict false false (subst_byte f0 p 64) = T_KAS /\
  (let f := kas_encode [mk_item [97] 4 1 [1; 2; 3; 4]] in kas_decode (subst_byte f (64 + 39) 64) = Err E_FORMAT).
Proof. exact CorruptProofs.array_len_wrap_now_rejected. Qed.

(* REFUTED inside the alignment slack (finding F16, still known) *)
Theorem array_len_slack_refuted :
  exists p v, p = 64 + 64 * 58 + 32 /\ byte_ok v /\ nth (Z.to_nat p) f0 0 <> v /\
    match tsk_load_bytes false false (subst_byte f0 p v) with
    | Ok (tc', []) => zlist_eqb (tc_time_units tc') [116; 105; 99; 107]
    | _ => false
    end = true.
Proof. exact CorruptProofs.array_len_slack_refuted. Qed.

(* data region: a NaN sequence_length is rejected by the repaired `!(L[0] > 0.0)` (fix cfb2bb6);
   the pinned test `L[0] <= 0.0` let it pass (historical record) *)
Theorem nan_sequence_length_rejected :
  slice f0 5120 8 = [0; 0; 0; 0; 0; 0; 240; 63] /\
  double_not_positive [0; 0; 0; 0; 0; 0; 248; 127] = true /\
  load_verdict false false (subst_many f0 [(5126, [248; 127])]) = T_BAD_SEQUENCE_LENGTH /\
  load_verdict false false f0 = V_LOADED.
Proof. exact CorruptProofs.nan_sequence_length_rejected. Qed.

Theorem nan_sequence_length_pinned_refuted :
  double_le_zero_pinned [0; 0; 0; 0; 0; 0; 248; 127] = false.
Proof. exact CorruptProofs.nan_sequence_length_pinned_refuted. Qed.
