(* Property C02 — statements only.  Each theorem is closed by [exact] of a lemma proved in
   the C02/ files; Print Assumptions is evaluated by ./check on every run.

   Reading guide.  [check] is the Gallina model (C02/Model.v) of the gate as it is in /repo
   SINCE the fix commits e4937b5 (F1) and c14733b (F14):
   tsk_treeseq_init -> tsk_table_collection_check_integrity(TSK_CHECK_TREES); it is the model
   the per-run correspondence compares with the implementation.  [tree_sequence_gate] adds
   TableCollection.tree_sequence()'s "build the index if there is none".
   [ValidTS] (C02/Spec.v) is the declarative data-model predicate, one clause per requirement;
   [WF] is the reachable-state invariant "columns of a table have equal length, ragged offsets
   well formed, index arrays as long as the edge table" — cell VALUES are arbitrary.
   [pinned] is the pre-fix code (380c75d), kept only for the two historical refutations. *)
From Coq Require Import List ZArith.
Import ListNotations.
From TskVerif Require Import Base.Common C02.Fl C02.Model C02.Spec C02.Sound C02.SweepComplete C02.Refuted C02.Top C02.BuildIndex C02.Reach C02.ErrClass C02.RowCode C02.Wrapper C02.BridgeC13 C02.Final C02.Rejects.
Open Scope Z_scope.

(* (a) memory safety: whatever the cell values, the gate never indexes out of bounds — every id
   is range-checked before it is used as an array index.  FULL. *)
Theorem check_no_oob : forall t, WF t -> check t <> OOB.
Proof. exact check_no_oob_now. Qed.

(* (a') termination on arbitrary tables (no WF): the while loop of check_tree_integrity cannot
   spin — after its first iteration every iteration consumes an index entry or fails; a
   non-finite sequence_length is rejected up front.  FULL, unconditional. *)
Theorem check_terminates : forall t, check t <> Fuel.
Proof. exact check_terminates_now. Qed.

(* (a'') totality: a tree count or a library error class, nothing else *)
Theorem check_total : forall t, WF t ->
  (exists n, check t = Ok n) \/ (exists c, check t = Err c).
Proof. exact check_total_top. Qed.

(* (b0) the per-table requirement classes follow from acceptance with NO hypothesis on the tables *)
Theorem check_sound_rows : forall t n, check t = Ok n -> RowsValid t.
Proof. exact (gate_sound_rows code_variant). Qed.

(* (b) soundness, FULL: an accepted collection satisfies every clause of ValidTS *)
Theorem check_sound : forall t n, WF t -> check t = Ok n -> ValidTS t.
Proof. exact check_sound_top. Qed.

(* (c) completeness, FULL up to the visible bound that excludes TSK_ERR_TREE_OVERFLOW; includes
   that the fuel of the model's main loop is sufficient *)
Theorem check_complete : forall t, WF t -> ValidTS t -> 2 * num_edges t + 1 < TSK_MAX_ID ->
  exists n, check t = Ok n.
Proof. exact check_complete_now. Qed.

(* (b+c) the gate decides ValidTS exactly *)
Theorem check_iff : forall t, WF t -> 2 * num_edges t + 1 < TSK_MAX_ID ->
  ((exists n, check t = Ok n) <-> ValidTS t).
Proof. exact check_iff_top. Qed.

(* (c') the number returned is the number of trees by definition: the number of distinct values
   among 0 and the edge end points that lie below L.  FULL. *)
Theorem check_num_trees : forall t n Lz, WF t -> 2 * num_edges t + 1 < TSK_MAX_ID ->
  seqlen t = Fin Lz -> check t = Ok n -> n = num_trees_spec t Lz.
Proof. exact check_accepted_count_top. Qed.

(* (e) build_index (as modelled: the index_sort_t keys, cmp_index_sort, a sort) yields two
   permutations of the edge ids by nondecreasing left / right.  FULL. *)
Theorem build_index_valid : forall t, EdgeRowsOK t -> forall t', build_index t = Ok t' ->
  exists I O, t' = with_index t (Some (I, O)) /\ InsertionOK t I /\ RemovalOK t O.
Proof. exact build_index_valid_lemma. Qed.

(* (e') TableCollection.tree_sequence() on tables WITHOUT an index (has_index() false ->
   build_index() -> gate): acceptance is equivalent to the non-index clauses.  FULL for this path
   (the finiteness of sequence_length is kept as a hypothesis of the first statement only to
   name L; the gate itself rejects non-finite lengths). *)
Theorem gate_unindexed_sound : forall t n z, WF t -> idx t = None -> seqlen t = Fin z ->
  tree_sequence_gate t = Ok n ->
  SeqlenOK t /\ RowsValid t /\ ChildIntervalsDisjoint t /\ MutBelowParentNodeOK t.
Proof. exact gate_unindexed_sound_lemma. Qed.

Theorem gate_unindexed_complete : forall t,
  WF t -> idx t = None -> SeqlenOK t -> RowsValid t -> ChildIntervalsDisjoint t ->
  MutBelowParentNodeOK t -> 2 * num_edges t + 1 < TSK_MAX_ID ->
  exists n, tree_sequence_gate t = Ok n.
Proof. exact gate_accepts_unindexed_full. Qed.

(* (f) where WF comes from: every collection obtainable from the empty one by the table-writing
   API (add_row / set_columns / append / truncate — which refuse columns of different lengths —,
   tables.indexes = ..., drop_index, build_index, with has_index()'s row-count test for stale
   indexes), with ARBITRARY cell values, is well formed.  So on everything a user can build the
   gate is memory safe, terminates and decides ValidTS — no shape hypothesis left.  FULL. *)
Theorem reach_WF : forall t, Reach t -> WF t.
Proof. exact reach_WF_lemma. Qed.

Theorem gate_on_reachable : forall t, Reach t -> 2 * num_edges t + 1 < TSK_MAX_ID ->
  check t <> OOB /\ check t <> Fuel /\ ((exists n, check t = Ok n) <-> ValidTS t).
Proof. exact gate_on_reachable_lemma. Qed.

(* (g) tskit.load (tsk_treeseq_load: the gate WITHOUT build_index): a file without an index is
   never accepted, and if nothing else is wrong the error is TSK_ERR_TABLES_NOT_INDEXED; for files
   with an index load_gate = check, so check_iff is "load accepts iff ValidTS".  FULL. *)
Theorem load_unindexed_rejected : forall t n, idx t = None -> load_gate t <> Ok n.
Proof. exact load_unindexed_rejected_lemma. Qed.

Theorem load_unindexed_error : forall t, WF t -> idx t = None -> SeqlenOK t -> RowsValid t ->
  load_gate t = Err E_TABLES_NOT_INDEXED.
Proof. exact load_unindexed_error_lemma. Qed.

(* (h) the error class: the error returned is one of the codes of the FIRST requirement group
   (in the order of the checks) that the collection violates.  One theorem per group; a
   single-field departure from a valid collection violates the groups from the damaged one on,
   so its error class is a code of that group.  FULL (groups, not the individual code). *)
Theorem error_seqlen : forall t, ~ SeqlenOK t -> check t = Err E_BAD_SEQUENCE_LENGTH.
Proof. exact err_seqlen. Qed.
Theorem error_offsets : forall t, WF t -> SeqlenOK t -> ~ OffsetsOK t -> check t = Err E_BAD_OFFSET.
Proof. exact err_offsets. Qed.
Theorem error_nodes : forall t, WF t -> SeqlenOK t -> OffsetsOK t -> ~ NodesOK t ->
  exists c, In c node_codes /\ check t = Err c.
Proof. exact err_nodes. Qed.
Theorem error_edges : forall t, WF t -> SeqlenOK t -> OffsetsOK t -> NodesOK t -> ~ EdgesOK t ->
  exists c, In c edge_codes /\ check t = Err c.
Proof. exact err_edges. Qed.
Theorem error_sites : forall t, WF t -> SeqlenOK t -> OffsetsOK t -> NodesOK t -> EdgesOK t -> ~ SitesOK t ->
  exists c, In c site_codes /\ check t = Err c.
Proof. exact err_sites. Qed.
Theorem error_mutations : forall t, WF t -> SeqlenOK t -> OffsetsOK t -> NodesOK t -> EdgesOK t -> SitesOK t ->
  ~ MutsOK t -> exists c, In c mut_codes /\ check t = Err c.
Proof. exact err_muts. Qed.
Theorem error_migrations : forall t, WF t -> SeqlenOK t -> OffsetsOK t -> NodesOK t -> EdgesOK t -> SitesOK t ->
  MutsOK t -> ~ MigsOK t -> exists c, In c mig_codes /\ check t = Err c.
Proof. exact err_migs. Qed.
Theorem error_individuals : forall t, WF t -> SeqlenOK t -> OffsetsOK t -> NodesOK t -> EdgesOK t -> SitesOK t ->
  MutsOK t -> MigsOK t -> ~ IndsOK t -> exists c, In c ind_codes /\ check t = Err c.
Proof. exact err_inds. Qed.
Theorem error_index_trees : forall t, WF t -> SeqlenOK t -> RowsValid t -> ~ TreesOK t ->
  exists c, In c (index_codes ++ tree_codes) /\ check t = Err c.
Proof. exact err_trees. Qed.

(* (h') the individual code: for the checks whose loop carries no state the error is the first
   failing condition (in the order of the C code) of the FIRST bad row, given by the monad-free
   functions node_row_code / site_row_code / mig_row_code / ind_cell_code.  FULL for nodes, sites,
   migrations, individuals (sequence length and offsets are single codes, error_seqlen /
   error_offsets); edges, mutations and the tree sweep stay at group granularity (h). *)
Theorem exact_node_error : forall t, WF t -> forall k c, SeqlenOK t -> OffsetsOK t -> 0 <= k < num_nodes t ->
  (forall i, 0 <= i < k -> node_row_code t i = None) -> node_row_code t k = Some c -> check t = Err c.
Proof. exact RowCode.exact_node_error. Qed.
Theorem exact_site_error : forall t, WF t -> forall k c, SeqlenOK t -> OffsetsOK t -> NodesOK t -> EdgesOK t ->
  0 <= k < num_sites t ->
  (forall i, 0 <= i < k -> site_row_code t i = None) -> site_row_code t k = Some c -> check t = Err c.
Proof. exact RowCode.exact_site_error. Qed.
Theorem exact_migration_error : forall t, WF t -> forall k c, SeqlenOK t -> OffsetsOK t -> NodesOK t -> EdgesOK t ->
  SitesOK t -> MutsOK t -> 0 <= k < num_migrations t ->
  (forall i, 0 <= i < k -> mig_row_code t i = None) -> mig_row_code t k = Some c -> check t = Err c.
Proof. exact RowCode.exact_migration_error. Qed.
Theorem exact_individual_error : forall t, WF t -> forall J K c, SeqlenOK t -> OffsetsOK t -> NodesOK t -> EdgesOK t ->
  SitesOK t -> MutsOK t -> MigsOK t -> 0 <= J < nind t ->
  zat (ind_parents_offset t) J <= K < zat (ind_parents_offset t) (J + 1) ->
  (forall j k, 0 <= j < J -> zat (ind_parents_offset t) j <= k < zat (ind_parents_offset t) (j + 1) ->
     ind_cell_code t j k = None) ->
  (forall k, zat (ind_parents_offset t) J <= k < K -> ind_cell_code t J k = None) ->
  ind_cell_code t J K = Some c -> check t = Err c.
Proof. exact RowCode.exact_individual_error. Qed.

(* (i) the Python wrapper TableCollection.tree_sequence() = tree_sequence_gate (has_index() ? gate :
   build_index; gate): a supplied (or stale) index is never silently replaced — the verdict is the
   gate's on THAT index, an inconsistent one is rejected — and on indexed tables tree_sequence(),
   TreeSequence.load_tables() and tskit.load agree; on unindexed tables tree_sequence() is
   load_tables(build_indexes=True).  FULL. *)
Theorem tree_sequence_keeps_index : forall t i, idx t = Some i -> tree_sequence_gate t = check t.
Proof. exact tree_sequence_keeps_index_lemma. Qed.
Theorem tree_sequence_rejects_bad_index : forall t i n, WF t -> idx t = Some i -> ~ IndexOK t ->
  tree_sequence_gate t <> Ok n.
Proof. exact tree_sequence_rejects_bad_index_lemma. Qed.
Theorem paths_agree_indexed : forall t i, idx t = Some i ->
  tree_sequence_gate t = load_gate t /\ load_tables_gate false t = load_gate t.
Proof. exact paths_agree_indexed_lemma. Qed.
Theorem tree_sequence_unindexed : forall t, idx t = None -> tree_sequence_gate t = load_tables_gate true t.
Proof. exact tree_sequence_unindexed_lemma. Qed.

(* (j) bridge to C13: columns that are (images of) the asdict arrays of C13 tables satisfying C13's
   invariant have the per-table shape C02's WF asks for (cites C13.FacadeProofs.asdict_has_C02_shape) *)
Theorem c13_backs_shape :
  forall (t : tables) (f : Z -> Fl) dn tn de te dm tm dg tg di ti zt zl zr zmt zgl zgr zgt,
    node_time t = map f zt -> backed dn tn [zt; node_pop t; node_ind t] ->
    edge_left t = map f zl -> edge_right t = map f zr -> backed de te [zl; zr; edge_parent t; edge_child t] ->
    mut_time t = map f zmt -> backed dm tm [mut_site t; mut_node t; mut_parent t; zmt] ->
    mig_left t = map f zgl -> mig_right t = map f zgr -> mig_time t = map f zgt ->
    backed dg tg [zgl; zgr; mig_node t; mig_source t; mig_dest t; zgt] ->
    C13.Model.WF di ti -> In (Some (ind_parents t, ind_parents_offset t)) (snd (C13.Model.asdict ti)) ->
    nind t = C13.Model.nrows ti -> 0 <= C13.Model.nrows ti ->
    ShapeOK t.
Proof. exact c13_backs_shape_lemma. Qed.

(* (k) stale-index histories: rewriting the edge table of a collection that has an index keeps the
   index exactly when the row count is unchanged (a STALE index, then judged by the gate as it is);
   when the count changed the collection is unindexed and tskit.load can never accept it.  FULL. *)
Theorem edges_rewrite_index : forall t rows t' Ix Ox,
  apply (OpEdges rows) t = Some t' -> idx t = Some (Ix, Ox) -> length Ix = length Ox ->
  (length rows <> length Ix -> idx t' = None /\ forall n, load_gate t' <> Ok n) /\
  (length rows = length Ix -> idx t' = Some (Ix, Ox)).
Proof. exact edges_rewrite_index_lemma. Qed.

(* (l) a documented requirement the gate does NOT enforce, stated and refuted: a reachable
   collection is accepted although the nearest earlier mutation at the same site on the same node
   is not listed as the parent (docs: mutation requirements; known finding C02-D1).  REFUTED. *)
Theorem doc_mutation_parent_refuted :
  exists t n, Reach t /\ check t = Ok n /\ ~ DocMutParentSameNode t.
Proof. exact doc_mut_parent_refuted_lemma. Qed.

(* (d) HISTORICAL RECORD, about the PINNED pre-fix code only (not the current model): full
   soundness failed before e4937b5 / c14733b *)
Theorem check_sound_index_pinned_refuted :
  exists t, WF t /\ SeqlenOK t /\ check_integrity pinned opts_trees t = Ok 1 /\ ~ IndexOK t.
Proof. exact f1_refuted. Qed.

Theorem check_sound_seqlen_pinned_refuted :
  exists t n, WF t /\ check_integrity pinned opts_trees t = Ok n /\ ~ SeqlenOK t.
Proof. exact f14_refuted. Qed.

(* The property as a rejection statement: a well-formed collection violating ANY clause of ValidTS
   gets a library error — never a tree count, never OOB / Fuel (corollary of check_total and
   check_sound; no size bound needed in this direction). *)
Theorem check_rejects_invalid : forall t, WF t -> ~ ValidTS t -> exists c, check t = Err c.
Proof. exact check_rejects_invalid_proof. Qed.
