(* Property C02 — statements only (being filled in). *)
From Coq Require Import List ZArith.
From TskVerif Require Import Base.Common C02.Fl C02.Model.
