(* Property C02 — statements only.  Each theorem is closed by [exact] of a lemma proved in
   the C02/ files; Print Assumptions is evaluated by ./check on every run.

   Reading guide.  [check] is the Gallina model (C02/Model.v) of the gate as it is in /repo
   (tsk_treeseq_init -> tsk_table_collection_check_integrity(TSK_CHECK_TREES));
   [check_repaired] is the same code with the two one-condition repairs of findings F1/F14;
   [ValidTS] (C02/Spec.v) is the declarative data-model predicate, one clause per requirement;
   [WF] is the reachable-state invariant "columns of a table have equal length, ragged offsets
   well formed, index arrays as long as the edge table" — cell VALUES are arbitrary. *)
From Coq Require Import List ZArith.
From TskVerif Require Import Base.Common C02.Fl C02.Model C02.Spec C02.Sound C02.SweepComplete C02.Refuted C02.Top C02.BuildIndex.
Open Scope Z_scope.

(* (a) the gate never indexes out of bounds, whatever the cell values: every id is
   range-checked before it is used as an array index.  FULL statement, both variants. *)
Theorem check_no_oob : forall t, WF t -> check t <> OOB /\ check_repaired t <> OOB.
Proof. exact check_no_oob_top. Qed.

(* (a') termination of the gate on arbitrary cell values (no WF): the while loop of
   check_tree_integrity cannot spin — after its first iteration every iteration consumes an index
   entry or fails.  FULL for finite sequence_length (non-finite lengths are finding F14). *)
Theorem check_terminates : forall t Lz, seqlen t = Fin Lz -> check t <> Fuel.
Proof. exact check_terminates_top. Qed.

(* (a'') the repaired gate is total: a tree count or a library error class, nothing else *)
Theorem check_repaired_total : forall t, WF t ->
  (exists n, check_repaired t = Ok n) \/ (exists c, check_repaired t = Err c).
Proof. exact check_repaired_total_top. Qed.

(* (b0) the per-table requirement classes (references in range, finite coordinates and times,
   0 <= left < right <= L, parent older than child, edge order and contiguity, site order and
   uniqueness, all mutation row/order/known-unknown clauses, migrations, individuals, offsets)
   follow from acceptance with NO hypothesis on the tables at all. FULL for these classes. *)
Theorem check_sound_rows : forall t n, check t = Ok n -> RowsValid t.
Proof. exact (gate_sound_rows code_variant). Qed.

(* (b) soundness of the gate as it is: every clause of ValidTS except the two refuted below.
   PARTIAL with respect to  check t = Ok n -> ValidTS t : missing are "the removal order is a
   permutation" (F1) and "sequence_length is finite" (F14; here a hypothesis). *)
Theorem check_sound_partial : forall t n z,
  WF t -> seqlen t = Fin z -> check t = Ok n -> ValidTS_but_F1_F14 t.
Proof. exact check_sound_partial_lemma. Qed.

(* (b') the FULL soundness statement holds for the repaired gate *)
Theorem check_repaired_sound : forall t n, WF t -> check_repaired t = Ok n -> ValidTS t.
Proof. exact check_repaired_sound_lemma. Qed.

(* (c) completeness: every valid collection is accepted (code as it is, and repaired).
   FULL up to the stated bound excluding TSK_ERR_TREE_OVERFLOW; includes that the fuel of the
   model's main loop is sufficient. *)
Theorem check_complete : forall t, WF t -> ValidTS t -> 2 * num_edges t + 1 < TSK_MAX_ID ->
  (exists n, check t = Ok n) /\ (exists n, check_repaired t = Ok n).
Proof. exact check_complete_top. Qed.

(* (c') the number returned for a valid collection is the number of trees by definition: the
   number of distinct values among 0 and the edge end points that lie below L.  FULL. *)
Theorem check_num_trees : forall t n Lz, WF t -> ValidTS t -> 2 * num_edges t + 1 < TSK_MAX_ID ->
  seqlen t = Fin Lz -> check t = Ok n -> n = num_trees_spec t Lz.
Proof. exact check_count_top. Qed.

Theorem check_repaired_num_trees : forall t n Lz, WF t -> 2 * num_edges t + 1 < TSK_MAX_ID ->
  seqlen t = Fin Lz -> check_repaired t = Ok n -> n = num_trees_spec t Lz.
Proof. exact check_repaired_count_top. Qed.

(* (b'+c) the repaired gate decides ValidTS exactly *)
Theorem check_repaired_iff : forall t, WF t -> 2 * num_edges t + 1 < TSK_MAX_ID ->
  ((exists n, check_repaired t = Ok n) <-> ValidTS t).
Proof. exact check_repaired_iff_top. Qed.

(* (e) build_index (as modelled: the index_sort_t keys, cmp_index_sort, a sort) yields two
   permutations of the edge ids by nondecreasing left / right.  FULL. *)
Theorem build_index_valid : forall t, EdgeRowsOK t -> forall t', build_index t = Ok t' ->
  exists I O, t' = with_index t (Some (I, O)) /\ InsertionOK t I /\ RemovalOK t O.
Proof. exact build_index_valid_lemma. Qed.

(* (e') TableCollection.tree_sequence() on tables WITHOUT an index (has_index() false ->
   build_index() -> gate), for the code as it is.  The built index is always a permutation, so
   finding F1 cannot arise on this path: acceptance is equivalent to the non-index clauses, up to
   the finiteness of sequence_length (F14).  FULL for this path. *)
Theorem gate_unindexed_sound : forall t n z, WF t -> idx t = None -> seqlen t = Fin z ->
  tree_sequence_gate t = Ok n ->
  SeqlenOK t /\ RowsValid t /\ ChildIntervalsDisjoint t /\ MutBelowParentNodeOK t.
Proof. exact gate_unindexed_sound_lemma. Qed.

Theorem gate_unindexed_complete : forall t,
  WF t -> idx t = None -> SeqlenOK t -> RowsValid t -> ChildIntervalsDisjoint t ->
  MutBelowParentNodeOK t -> 2 * num_edges t + 1 < TSK_MAX_ID ->
  exists n, tree_sequence_gate t = Ok n.
Proof. exact gate_accepts_unindexed_full. Qed.

(* (d) REFUTED on the faithful model: full soundness fails for the code as it is *)
Theorem check_sound_index_refuted :
  exists t, WF t /\ SeqlenOK t /\ check_integrity faithful opts_trees t = Ok 1 /\ ~ IndexOK t.
Proof. exact f1_refuted. Qed.

Theorem check_sound_seqlen_refuted :
  exists t n, WF t /\ check_integrity faithful opts_trees t = Ok n /\ ~ SeqlenOK t.
Proof. exact f14_refuted. Qed.
