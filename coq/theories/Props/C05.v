(* Property C05 - storage and interchange are lossless.  Statements only: each theorem is closed
   by [exact] of a lemma proved in the C05/ files; Print Assumptions is evaluated by ./check on
   every run.  Model: C05/Bytes.v (bytes, little-endian integers), C05/Kastore.v (the kastore
   container, writer and reader), C05/TskFile.v (tskit's column schema layer). *)
From Coq Require Import List ZArith Bool Permutation Sorted.
From TskVerif Require Import Base.Common Gen.Generated C05.Bytes C05.Kastore C05.KastoreProofs C05.TskFile
  C05.TskProofs C05.StreamProofs C05.SearchProofs C05.Equals C05.EqualsProofs C05.TableProofs C05.TcRoundtrip C05.Injective C10.TruncProofs C10.CorruptProofs.
Import ListNotations.
Open Scope Z_scope.

(* (a) little-endian integers of the three widths the container uses round-trip; any byte
   string is the encoding of its value *)
Theorem le16_roundtrip : forall v, 0 <= v < 65536 -> le_dec (le_enc 2 v) = v.
Proof. exact Bytes.le16_roundtrip. Qed.
Theorem le32_roundtrip : forall v, 0 <= v < 4294967296 -> le_dec (le_enc 4 v) = v.
Proof. exact Bytes.le32_roundtrip. Qed.
Theorem le64_roundtrip : forall v, 0 <= v < two64 -> le_dec (le_enc 8 v) = v.
Proof. exact Bytes.le64_roundtrip. Qed.
Theorem le_bytes_roundtrip : forall l, bytes_ok l -> le_enc (length l) (le_dec l) = l.
Proof. exact Bytes.le_enc_dec. Qed.

(* (b) the container: reading what was written returns the items in key order, every key, type,
   length and array byte, and leaves the rest of the stream untouched.  [item_ok] is what
   kastore_put accepts (known type, non-empty key, array of len * size bytes); sizes below 2^64. *)
Theorem kas_roundtrip : forall its rest,
  Forall item_ok its -> zlen its < 4294967296 -> kas_size (sort_items its) < two64 ->
  kas_decode (kas_encode its ++ rest) = Ok (sort_items its, rest).
Proof. exact KastoreProofs.kas_roundtrip. Qed.

(* ... for ANY sorting routine (libc qsort): a key-sorted arrangement of items with distinct
   keys is unique, so the file and what is read back do not depend on the algorithm *)
Theorem kas_roundtrip_any_sort : forall sorted its rest,
  Forall item_ok its -> zlen its < 4294967296 -> kas_size sorted < two64 ->
  NoDup (map ikey its) -> Permutation sorted its -> StronglySorted key_le sorted ->
  sorted = sort_items its /\ kas_decode (kas_write sorted ++ rest) = Ok (sort_items its, rest).
Proof. exact KastoreProofs.kas_roundtrip_any_sort. Qed.

Theorem sort_items_sorted_permutation : forall its,
  Permutation (sort_items its) its /\ StronglySorted key_le (sort_items its).
Proof. exact (fun its => conj (sort_perm its) (sort_sorted its)). Qed.

(* ... and after the round trip kastore_get (bsearch with compare_items) finds every key that was
   put, with exactly its type, length and bytes, and reports every other key as absent *)
Theorem kas_lookup_after_roundtrip : forall its rest key,
  Forall item_ok its -> zlen its < 4294967296 -> kas_size (sort_items its) < two64 -> NoDup (map ikey its) ->
  exists rs, kas_open true (kas_encode its ++ rest) = Ok (rs, rest) /\
    ((exists it r, In it its /\ ikey it = key /\ kas_get rs key = Ok (Some r) /\ item_of r = Ok it)
     \/ (~ In key (map ikey its) /\ kas_get rs key = Ok None)).
Proof. exact SearchProofs.kas_lookup_after_roundtrip. Qed.

(* (c) offset columns: written as uint32 exactly when the last offset fits, as uint64 otherwise;
   reading back (widening) returns the same offsets *)
Theorem offsets_narrow_widen : forall offs,
  Forall (fun o => 0 <= o <= last offs 0) offs -> last offs 0 < two64 ->
  let ty := narrow_type offs in
  (ty = kas_uint32 <-> last offs 0 <= uint32_max) /\ (ty = kas_uint64 <-> uint32_max < last offs 0) /\
  dec_offsets (if ty =? kas_uint64 then 8 else 4) (enc_offsets ty offs) (length offs) = offs.
Proof. exact TskProofs.offsets_narrow_widen. Qed.

(* (d) table collection round trip, byte level only (see C05/StreamProofs.v for the full statement
   and what is missing): every item dumped is read back exactly and the stream is left at the
   end of the object *)
Theorem tc_roundtrip_partial : forall tc rest,
  enc_ok (tsk_dump tc) ->
  kas_decode (tsk_dump_bytes tc ++ rest) = Ok (sort_items (tsk_dump tc), rest).
Proof. exact StreamProofs.tc_roundtrip_partial. Qed.

(* (d) IN FULL: load (dump tc) = normalise tc for every well-formed table collection - every column
   byte, offset, schema, metadata, time units, sequence length, uuid, index and reference sequence
   (the all-empty reference sequence is the null one), with the stream left at the end of the
   object.  [wf_tc] = the table invariant (equal column lengths, offsets from 0, non-decreasing, ending at
   the data length), an 8-byte positive sequence length, a 36-byte uuid, one index entry per edge;
   [enc_ok] = the items are what kastore_put accepts and fit below 2^64 bytes; the schema keys
   are distinct.  Generic in the regenerated read/write schema of tables.c (its consistency is
   checked by computation: TcRoundtrip.all_schemas_ok). *)
Theorem tc_roundtrip : forall tc rest,
  wf_tc tc -> enc_ok (tsk_dump tc) -> NoDup (map ikey (tsk_dump tc)) ->
  tsk_load_bytes false false (tsk_dump_bytes tc ++ rest) = Ok (tc_normalise tc, rest).
Proof. exact TcRoundtrip.tc_roundtrip. Qed.

(* (e) several objects on one stream: each read consumes exactly one, then end-of-stream *)
Theorem stream_multi : forall stores,
  Forall enc_ok stores ->
  read_all_stores (S (length stores)) (concat (map kas_encode stores)) = Ok (map sort_items stores).
Proof. exact StreamProofs.stream_multi. Qed.

(* ... and end-of-stream is reported for the empty stream only: it can never be confused with a
   format error or with a successfully read object *)
Theorem eof_iff_empty : forall read_all s, kas_open read_all s = Err E_EOF <-> s = [].
Proof. exact TruncProofs.eof_iff_empty. Qed.

(* equality: tsk_table_collection_equals (and the per-table / reference-sequence functions it
   calls) returns true exactly when every component that is not ignored is byte-equal, for
   well-formed collections and every one of the 64 option sets.  The model [tc_equals] is compared
   with TableCollection.equals on every generated pair x all option sets on every run. *)
Theorem equals_spec : forall o a b, wf_tcoll a -> wf_tcoll b ->
  (tc_equals o a b = true <-> equals_meaning o a b).
Proof. exact EqualsProofs.equals_spec. Qed.

(* ... and a stream on which complete objects are followed by a proper non-empty prefix of a
   further object (cut at ANY byte: magic, header, descriptors, keys, arrays) ends with a format
   error, never with the clean end-of-stream signal *)
Theorem stream_truncated_tail : forall (stores : list (list item)) its n,
  Forall enc_ok stores -> items_ok its -> (0 < n < length (kas_write its))%nat ->
  read_all_stores (S (S (length stores))) (concat (map kas_encode stores) ++ firstn n (kas_write its)) = Err E_FORMAT.
Proof. exact TruncProofs.stream_truncated_tail. Qed.

(* mixed eager / lazy reads on a multi-object stream: the lazy (skip_tables / skip_reference_sequence)
   path reads its arrays relative to the start of the store, so object j of a concatenation is loaded
   exactly as from a file of its own, whatever follows it *)
Theorem lazy_load_ignores_rest : forall its rest sk sr, items_ok its -> its <> [] -> sk || sr = true ->
  tsk_load_bytes sk sr (kas_write its ++ rest) = tsk_load_bytes sk sr (kas_write its).
Proof. exact CorruptProofs.lazy_load_ignores_rest. Qed.

(* (h) lossless storage stated as INJECTIVITY: the written bytes determine the content.  Two item
   lists with the same kastore file are the same key-sorted list; two well-formed table
   collections whose dumps are byte-identical are equal after normalisation (tc_normalise only
   maps a null reference sequence to "absent").  Corollaries of kas_roundtrip / tc_roundtrip. *)
Theorem kas_encode_injective : forall its1 its2,
  Forall item_ok its1 -> zlen its1 < 4294967296 -> kas_size (sort_items its1) < two64 ->
  Forall item_ok its2 -> zlen its2 < 4294967296 -> kas_size (sort_items its2) < two64 ->
  kas_encode its1 = kas_encode its2 -> sort_items its1 = sort_items its2.
Proof. exact kas_encode_injective_proof. Qed.

Theorem dump_injective : forall tc1 tc2,
  wf_tc tc1 -> enc_ok (tsk_dump tc1) -> NoDup (map ikey (tsk_dump tc1)) ->
  wf_tc tc2 -> enc_ok (tsk_dump tc2) -> NoDup (map ikey (tsk_dump tc2)) ->
  tsk_dump_bytes tc1 = tsk_dump_bytes tc2 -> tc_normalise tc1 = tc_normalise tc2.
Proof. exact dump_injective_proof. Qed.
