(* Property C05 - statements only.  Each theorem is closed by [exact] of a lemma proved in the
   C05/ files; Print Assumptions is evaluated by ./check on every run. *)
From Coq Require Import List ZArith.
From TskVerif Require Import Base.Common C05.Bytes.
Import ListNotations.
Open Scope Z_scope.

(* (a) little-endian integers of the three widths the container uses round-trip *)
Theorem le16_roundtrip : forall v, 0 <= v < 65536 -> le_dec (le_enc 2 v) = v.
Proof. exact Bytes.le16_roundtrip. Qed.
Theorem le32_roundtrip : forall v, 0 <= v < 4294967296 -> le_dec (le_enc 4 v) = v.
Proof. exact Bytes.le32_roundtrip. Qed.
Theorem le64_roundtrip : forall v, 0 <= v < two64 -> le_dec (le_enc 8 v) = v.
Proof. exact Bytes.le64_roundtrip. Qed.
Theorem le_bytes_roundtrip : forall l, bytes_ok l -> le_enc (length l) (le_dec l) = l.
Proof. exact Bytes.le_enc_dec. Qed.
