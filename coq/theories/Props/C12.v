(* Property C12 — statements only.  Each theorem is closed by [exact] of a lemma proved in the
   C12/ files; Print Assumptions is evaluated by ./check on every run.
   round32 / widen32 (IEEE binary64 -> binary32 -> binary64 on bit patterns) are universally
   quantified: the theorems hold for whatever the platform's conversion is. *)
From Coq Require Import List ZArith.
From TskVerif Require Import Base.Common C12.Model C12.BytesProofs C12.RoundTripProofs C12.ExhaustProofs.
Import ListNotations.
Open Scope Z_scope.

(* (d) struct's little-endian integers: every width, signed and unsigned, in range *)
Theorem le_int_roundtrip : forall f z, in_range f z = true ->
  signed_of f (le_val (le_bytes (isize f) (z mod imod f))) = z /\
  length (le_bytes (isize f) (z mod imod f)) = isize f.
Proof. exact int_pack_unpack. Qed.

Theorem int_out_of_range_is_rejected : forall round32 f z,
  in_range f z = false -> pack_num round32 (BInt f) (VInt z) = EErr EStruct.
Proof. exact int_out_of_range_rejected. Qed.

(* (a) whatever encodes under an exhaust-free schema decodes to its normal form (defaults
   filled, binary32 rounding, fixed-width truncation, NUL termination) and leaves the
   following bytes alone *)
Theorem struct_roundtrip : forall round32 widen32 s, rt_ok s = true ->
  forall fuel v bs rest, encode round32 s v = EOk bs ->
  decode widen32 fuel s (bs ++ rest) = DOk (norm round32 widen32 s v) rest.
Proof. exact struct_roundtrip_gen. Qed.

Theorem struct_roundtrip_row : forall round32 widen32 t v bs fuel,
  rt_ok (t_schema t) = true ->
  validate_and_encode round32 t v = EOk bs ->
  (t_nullable t = true -> v <> VNull -> bs <> []) ->
  decode_top widen32 fuel t bs = DOk (norm_top round32 widen32 t v) [].
Proof. exact struct_roundtrip_top. Qed.

(* findings: the property is false for the code that exists *)
Theorem exhaust_zero_width_diverges_refuted : exists (t : top) (v : value),
  validate_and_encode round32_impl t v = EOk [] /\
  forall fuel buf, decode_top widen32_impl fuel t buf = DFuel.
Proof. exact ExhaustProofs.exhaust_zero_width_diverges_refuted. Qed.

Theorem exhaust_nontail_refuted : exists (t : top) (v : value) (bs : list Z),
  validate_and_encode round32_impl t v = EOk bs /\
  forall fuel, decode_top widen32_impl fuel t bs <> DOk (norm_top round32_impl widen32_impl t v) [].
Proof. exact ExhaustProofs.exhaust_nontail_refuted. Qed.

Theorem object_or_null_empty_refuted : exists (t : top) (v : value),
  rt_ok (t_schema t) = true /\
  validate_and_encode round32_impl t v = EOk [] /\
  decode_top widen32_impl 5 t [] = DOk VNull [] /\
  norm_top round32_impl widen32_impl t v <> VNull.
Proof. exact objnull_empty_refuted. Qed.
